package core

// The deadline path of handler faults (C08: "a handler that times out ... is contained"): a handler
// stalls beyond HandlerTimeout and HandlerDeadline, the machine gives up on it (a fresh handler loop
// is forked, the machine backs off), then the stalled handler returns after all. Its late result
// must go nowhere: once the backoff has passed, later mutations are negotiated by their own handlers
// only, each handler is called exactly once, and nothing is canceled by an answer that was not its
// own. Judged by ground truth on the real machine (the sequential model has no deadline).

import (
	"context"
	"errors"
	"fmt"
	"math/rand"
	"sync"
	"sync/atomic"
	"time"

	am "github.com/pancsta/asyncmachine-go/pkg/machine"
)

// DeadlineScenario: one generated scenario.
func DeadlineScenario(seed int64) (fails []string, line string) {
	r := rand.New(rand.NewSource(seed))
	stallIn := []string{"enter", "state"}[r.Intn(2)]
	lateAnswer := r.Intn(2) == 0 // what the stalled negotiation handler answers in the end
	nLater := 2 + r.Intn(4)
	line = fmt.Sprintf("deadline seed=%d stall=%s late=%v later=%d", seed, stallIn, lateAnswer, nLater)
	ctx, cancel := context.WithCancel(context.Background())
	defer cancel()
	names := am.S{"A", "B", "C", "D", am.StateException}
	m := am.New(ctx, am.Schema{"A": {}, "B": {}, "C": {Multi: true}, "D": {}}, &am.Opts{Id: fmt.Sprintf("deadline%d", seed)})
	if err := m.VerifyStates(names); err != nil {
		return []string{"setup: " + err.Error()}, line
	}
	defer m.Dispose()
	m.HandlerTimeout = 40 * time.Millisecond
	m.HandlerDeadline = 40 * time.Millisecond
	m.HandlerBackoff = 20 * time.Millisecond
	stallDone := make(chan struct{})
	var once sync.Once
	var calls sync.Map // handler name -> *atomic.Int32
	count := func(n string) {
		v, _ := calls.LoadOrStore(n, &atomic.Int32{})
		v.(*atomic.Int32).Add(1)
	}
	got := func(n string) int {
		if v, ok := calls.Load(n); ok {
			return int(v.(*atomic.Int32).Load())
		}
		return 0
	}
	stall := func() {
		time.Sleep(260 * time.Millisecond)
		once.Do(func() { close(stallDone) })
	}
	neg := map[string]am.HandlerNegotiation{
		"BEnter": func(e *am.Event) bool { count("BEnter"); return true },
		"DEnter": func(e *am.Event) bool { count("DEnter"); return true },
	}
	fin := map[string]am.HandlerFinal{
		"BState": func(e *am.Event) { count("BState") },
		"CState": func(e *am.Event) { count("CState") },
		"DState": func(e *am.Event) { count("DState") },
	}
	if stallIn == "enter" {
		neg["AEnter"] = func(e *am.Event) bool { stall(); return lateAnswer }
	} else {
		fin["AState"] = func(e *am.Event) { stall() }
	}
	if _, err := m.HandlersBindMaps(neg, fin, am.BindOpts{Id: "deadline"}); err != nil {
		return []string{"setup: " + err.Error()}, line
	}
	t0 := time.Now()
	m.Add1("A", nil)
	if d := time.Since(t0); d > 220*time.Millisecond {
		fails = append(fails, fmt.Sprintf("deadline: the call whose handler stalled returned after %v, timeout + deadline are 80ms", d))
	}
	if !errors.Is(m.Err(), am.ErrHandlerTimeout) {
		fails = append(fails, fmt.Sprintf("deadline: a handler that overran timeout and deadline was not reported as ErrHandlerTimeout (machine error: %v)", m.Err()))
	}
	// the stalled handler returns after all; the backoff passes
	select {
	case <-stallDone:
	case <-time.After(2 * time.Second):
	}
	time.Sleep(m.HandlerBackoff + 30*time.Millisecond)
	m.Remove1(am.StateException, nil)
	// later mutations: each negotiated and finished by its own handlers, once
	want := map[string]int{}
	for i := 0; i < nLater && len(fails) == 0; i++ {
		st := []string{"B", "C", "D"}[r.Intn(3)]
		was := m.Is1(st)
		tick := m.Tick(st)
		res := m.Add1(st, nil)
		enters := was == false || st == "C"
		if enters {
			if st != "C" {
				want[st+"Enter"]++
			}
			want[st+"State"]++
		}
		if res != am.Executed {
			fails = append(fails, fmt.Sprintf("deadline: after a handler had stalled beyond the deadline and returned (late answer %v), Add1(%s) - accepted by its own handlers - returned %s", lateAnswer, st, res))
			break
		}
		if enters && (!m.Is1(st) || m.Tick(st) == tick) {
			fails = append(fails, fmt.Sprintf("deadline: Add1(%s) returned Executed but the state did not tick (tick %d, active %v)", st, m.Tick(st), m.Is1(st)))
			break
		}
		for n, w := range want {
			if g := got(n); g != w {
				fails = append(fails, fmt.Sprintf("deadline: after a handler had stalled beyond the deadline and returned, handler %s has been called %d times, the mutations so far call it %d times (a call was lost to the abandoned handler loop, or made twice)", n, g, w))
				break
			}
		}
		if r.Intn(3) == 0 && st != "C" {
			m.Remove1(st, nil)
		}
	}
	return fails, line
}
