// Package core: the sequential machine correspondence (model vs real
// pkg/machine), generators, monitors.
package core

import (
	"fmt"
	"sort"
	"strconv"
	"strings"
)

// A Case is the list of protocol lines: first "schema ...", then config and
// operation lines. The same lines are fed to the Lean driver.
type Case struct {
	Lines []string
	Tag   string // generator motif, for the distribution report
}

type StateDef struct {
	Auto, Multi                 bool
	Require, Add, Remove, After []int
}

type Schema struct {
	Names  []string
	Defs   []StateDef
	Exc    int
	Health []int
	Alpha  []int
}

// ShowList is the protocol form of an index list.
func ShowList(l []int) string { return showList(l) }

func showList(l []int) string {
	if len(l) == 0 {
		return "-"
	}
	s := make([]string, len(l))
	for i, v := range l {
		s[i] = strconv.Itoa(v)
	}
	return strings.Join(s, ",")
}

func showU64(l []uint64) string {
	if len(l) == 0 {
		return "-"
	}
	s := make([]string, len(l))
	for i, v := range l {
		s[i] = strconv.FormatUint(v, 10)
	}
	return strings.Join(s, ",")
}

func parseList(s string) []int {
	if s == "" || s == "-" {
		return nil
	}
	var r []int
	for _, p := range strings.Split(s, ",") {
		v, err := strconv.Atoi(p)
		if err == nil {
			r = append(r, v)
		}
	}
	return r
}

func (s *Schema) Line() string {
	var b strings.Builder
	fmt.Fprintf(&b, "schema exc=%d health=%s alpha=%s names=%s", s.Exc,
		showList(s.Health), showList(s.Alpha), strings.Join(s.Names, ","))
	for i, d := range s.Defs {
		fl := ""
		if d.Auto {
			fl += "a"
		}
		if d.Multi {
			fl += "m"
		}
		if fl == "" {
			fl = "-"
		}
		fmt.Fprintf(&b, " %d:%s:%s:%s:%s:%s", i, fl, showList(d.Require),
			showList(d.Add), showList(d.Remove), showList(d.After))
	}
	return b.String()
}

func kv(toks []string, key string) string {
	for _, t := range toks {
		if strings.HasPrefix(t, key+"=") {
			return t[len(key)+1:]
		}
	}
	return ""
}

func ParseSchemaLine(line string) (*Schema, error) {
	toks := strings.Fields(line)
	if len(toks) == 0 || toks[0] != "schema" {
		return nil, fmt.Errorf("not a schema line")
	}
	s := &Schema{}
	s.Exc, _ = strconv.Atoi(kv(toks, "exc"))
	s.Health = parseList(kv(toks, "health"))
	s.Alpha = parseList(kv(toks, "alpha"))
	s.Names = strings.Split(kv(toks, "names"), ",")
	for _, t := range toks[1:] {
		if strings.Contains(t, "=") {
			continue
		}
		p := strings.Split(t, ":")
		if len(p) != 6 {
			return nil, fmt.Errorf("bad state def %q", t)
		}
		s.Defs = append(s.Defs, StateDef{
			Auto: strings.Contains(p[1], "a"), Multi: strings.Contains(p[1], "m"),
			Require: parseList(p[2]), Add: parseList(p[3]),
			Remove: parseList(p[4]), After: parseList(p[5]),
		})
	}
	if len(s.Names) != len(s.Defs) {
		return nil, fmt.Errorf("names/defs mismatch")
	}
	return s, nil
}

// ComputeAlpha: indices sorted by state name (the order New() uses).
func ComputeAlpha(names []string) []int {
	idx := make([]int, len(names))
	for i := range idx {
		idx[i] = i
	}
	sort.Slice(idx, func(a, b int) bool { return names[idx[a]] < names[idx[b]] })
	return idx
}

// HName is a handler name in protocol form (enter:3, trans:1:2, anyenter ...).
func HNameToGo(h string, names []string) string {
	p := strings.Split(h, ":")
	at := func(i int) string {
		v, _ := strconv.Atoi(p[i])
		if v >= 0 && v < len(names) {
			return names[v]
		}
		return "Unknown" + p[i]
	}
	switch p[0] {
	case "enter":
		return at(1) + "Enter"
	case "exit":
		return at(1) + "Exit"
	case "state":
		return at(1) + "State"
	case "end":
		return at(1) + "End"
	case "trans":
		return at(1) + at(2)
	case "anyenter":
		return "AnyEnter"
	case "anystate":
		return "AnyState"
	}
	return "?"
}

func IsFinalHName(h string) bool {
	return strings.HasPrefix(h, "state:") || strings.HasPrefix(h, "end:") ||
		h == "anystate"
}
