//go:build verif

package core

import am "github.com/pancsta/asyncmachine-go/pkg/machine"

func Topology(m *am.Machine) am.S { return am.VerifTopology(m) }
