package core

import (
	"bytes"
	"fmt"
	am "github.com/pancsta/asyncmachine-go/pkg/machine"
	"os"
	"os/exec"
	"strings"
	"time"
)

// RunImpl executes a case on the real machine.
func RunImpl(c Case) ([]OpObs, *Schema, error) {
	return RunImplSchema(c, nil)
}

// RunImplSchema: RunImpl on a machine made from a given am.Schema value (shared between executions).
func RunImplSchema(c Case, shared am.Schema) ([]OpObs, *Schema, error) {
	sch, err := ParseSchemaLine(c.Lines[0])
	if err != nil {
		return nil, nil, err
	}
	timeout := 3 * time.Second
	for _, l := range c.Lines {
		if strings.HasPrefix(l, "rule ") && strings.Contains(l, " timeout") {
			timeout = 150 * time.Millisecond
		}
	}
	r, err := NewRunnerSchema(sch, timeout, "vm", shared)
	if err != nil {
		return nil, sch, err
	}
	defer r.Close()
	obs := []OpObs{{Line: c.Lines[0], Out: "ok topo=" + showList(r.idx(Topology(r.M)))}}
	for _, l := range c.Lines[1:] {
		o := r.Step(l)
		obs = append(obs, o)
		if o.Crash != "" {
			break
		}
	}
	return obs, sch, nil
}

// RunModel pipes all the lines of all the cases through the Lean driver.
func RunModel(driver string, cases []Case) ([][]string, error) {
	var in bytes.Buffer
	for _, c := range cases {
		for _, l := range c.Lines {
			in.WriteString(l)
			in.WriteByte('\n')
		}
	}
	cmd := exec.Command(driver)
	cmd.Stdin = &in
	cmd.Stderr = os.Stderr
	out, err := cmd.Output()
	if err != nil {
		return nil, fmt.Errorf("model driver: %w", err)
	}
	all := strings.Split(strings.TrimRight(string(out), "\n"), "\n")
	res := make([][]string, len(cases))
	k := 0
	for i, c := range cases {
		if k+len(c.Lines) > len(all) {
			return nil, fmt.Errorf("model driver: short output (%d lines, want more)", len(all))
		}
		res[i] = all[k : k+len(c.Lines)]
		k += len(c.Lines)
	}
	return res, nil
}
