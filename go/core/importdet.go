package core

// Determinism across Export / Import (C11: "nothing observable depends on Go map iteration order").
// A machine runs the first half of a generated history and is exported; a fresh machine of the same
// schema, state order and id imports the snapshot and runs the second half. The whole scenario is
// re-executed; every execution must report the same order of active states after the import and
// the same outputs (result, machine time, handler calls) for every later step. Judged run against
// run on the real machine (the sequential model has no Import operation): search, labelled so.

import (
	"context"
	"fmt"
	"math/rand"
	"strings"
	"time"

	am "github.com/pancsta/asyncmachine-go/pkg/machine"
)

var ImportDetStats = map[string]int{}

func isSetupLine(l string) bool {
	for _, p := range []string{"bind", "rule ", "limit", "backoff", "fuel"} {
		if strings.HasPrefix(l, p) {
			return true
		}
	}
	return false
}

func importExec(sch *Schema, setup, h1, h2 []string, shared am.Schema) ([]string, error) {
	timeout := 3 * time.Second
	a, err := NewRunnerSchema(sch, timeout, "vm", shared)
	if err != nil {
		return nil, err
	}
	for _, l := range setup {
		a.Step(l)
	}
	for _, l := range h1 {
		if o := a.Step(l); o.Crash != "" {
			break
		}
	}
	data, _, err := a.M.Export()
	a.Close()
	if err != nil {
		return nil, err
	}
	b, err := NewRunnerSchema(sch, timeout, "vm", shared)
	if err != nil {
		return nil, err
	}
	defer b.Close()
	for _, l := range setup {
		b.Step(l)
	}
	if err := b.M.Import(data); err != nil {
		return []string{"import error: " + err.Error()}, nil
	}
	out := []string{"active after import = " + strings.Join(b.M.ActiveStates(nil), " ") + " time=" + fmt.Sprint(b.M.Time(nil))}
	for _, l := range h2 {
		o := b.Step(l)
		out = append(out, o.Out)
		if o.Crash != "" {
			break
		}
	}
	return out, nil
}

// ImportCaseSplit: the setup lines, the first and the second half of a case's operations.
func ImportCaseSplit(c Case) (setup, h1, h2 []string) {
	var ops []string
	for _, l := range c.Lines[1:] {
		if isSetupLine(l) {
			setup = append(setup, l)
		} else {
			ops = append(ops, l)
		}
	}
	j := (len(ops) + 1) / 2
	return setup, ops[:j], ops[j:]
}

// ImportDetCase re-executes the export / import scenario of a case `reps` times.
func ImportDetCase(c Case, reps int) (fails []string) {
	sch, err := ParseSchemaLine(c.Lines[0])
	if err != nil {
		return nil
	}
	setup, h1, h2 := ImportCaseSplit(c)
	shared := AmSchema(sch)
	first, err := importExec(sch, setup, h1, h2, shared)
	if err != nil {
		return nil
	}
	ImportDetStats["scenarios"]++
	if i := strings.Index(first[0], " time="); i > 0 && len(strings.Fields(first[0][len("active after import = "):i])) >= 2 {
		ImportDetStats["imports_with_2+_active"]++
	}
	for k := 1; k < reps; k++ {
		got, err := importExec(sch, setup, h1, h2, shared)
		if err != nil {
			return nil
		}
		ImportDetStats["executions"]++
		for i := 0; i < len(first) && i < len(got); i++ {
			if first[i] != got[i] {
				what := "the imported machine"
				if i > 0 {
					what = "step `" + h2[i-1] + "` after the import"
				}
				return []string{fmt.Sprintf("nondeterministic across Export/Import: two executions of the same scenario differ at %s: %q vs %q", what, first[i], got[i])}
			}
		}
		if len(first) != len(got) {
			return []string{"nondeterministic across Export/Import: two executions of the same scenario differ in length"}
		}
	}
	return nil
}

// ImportDeterminism: n generated scenarios.
func ImportDeterminism(seed int64, opts GenOpts, n, reps int) (fails []string, cases []Case) {
	r := rand.New(rand.NewSource(seed*7907 + 13))
	for i := 0; i < n; i++ {
		c := GenCase(r, opts)
		if fs := ImportDetCase(c, reps); len(fs) > 0 {
			fails = append(fails, fs[0])
			cases = append(cases, c)
			if len(fails) >= 3 {
				break
			}
		}
	}
	return fails, cases
}

// DefaultOrderScenario: machines that rely on the order New infers (no VerifyStates), made from one
// schema whose names include variants that differ in letter case only; the inferred order, the
// layout of Time(nil), the order of the active states and the order of handler calls must be the
// same for every machine (the names come out of a map: only a total order hides its iteration order).
func DefaultOrderScenario(seed int64, reps int) (fails []string, line string) {
	r := rand.New(rand.NewSource(seed))
	line = fmt.Sprintf("defaultorder seed=%d", seed)
	pool := []string{"DBReady", "DbReady", "dbready", "Alpha", "alpha", "ALPHA", "Zed", "zed", "B", "b", "Init", "INIT"}
	r.Shuffle(len(pool), func(i, j int) { pool[i], pool[j] = pool[j], pool[i] })
	names := pool[:4+r.Intn(5)]
	schema := am.Schema{}
	for _, n := range names {
		st := am.State{Auto: r.Intn(3) == 0, Multi: r.Intn(5) == 0}
		if r.Intn(4) == 0 {
			st.Remove = am.S{names[r.Intn(len(names))]}
		}
		schema[n] = st
	}
	var ops []string
	for i, k := 0, 3+r.Intn(5); i < k; i++ {
		op := "+"
		if r.Intn(3) == 0 {
			op = "-"
		}
		ops = append(ops, op+names[r.Intn(len(names))])
	}
	exec := func() string {
		ctx, cancel := context.WithCancel(context.Background())
		defer cancel()
		m := am.New(ctx, schema, &am.Opts{Id: "deforder"})
		defer m.Dispose()
		var calls []string
		fin := map[string]am.HandlerFinal{}
		for _, n := range names {
			nn := n
			fin[nn+"State"] = func(e *am.Event) { calls = append(calls, nn+"State") }
			fin[nn+"End"] = func(e *am.Event) { calls = append(calls, nn+"End") }
		}
		if _, err := m.HandlersBindMaps(nil, fin, am.BindOpts{Id: "rec"}); err != nil {
			return "bind: " + err.Error()
		}
		out := "names=" + strings.Join(m.StateNames(), ",")
		for _, o := range ops {
			if o[0] == '+' {
				m.Add1(o[1:], nil)
			} else {
				m.Remove1(o[1:], nil)
			}
			out += fmt.Sprintf(" | %s time=%v active=%v calls=%v", o, m.Time(nil), m.ActiveStates(nil), calls)
			calls = nil
		}
		return out
	}
	first := exec()
	ImportDetStats["default_order_scenarios"]++
	for k := 1; k < reps; k++ {
		if got := exec(); got != first {
			return []string{fmt.Sprintf("nondeterministic default order: two machines made from the same schema (names %v, no VerifyStates) differ: %q vs %q", names, first, got)}, line
		}
		ImportDetStats["executions"]++
	}
	return nil, line
}
