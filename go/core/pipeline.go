package core

import (
	"crypto/sha1"
	"encoding/hex"
	"fmt"
	"math/rand"
	"os"
	"path/filepath"
	"strings"
	"sync"
	"time"
)

type DisRec struct {
	File  string `json:"file"`
	Line  int    `json:"line"`
	Op    string `json:"op"`
	Impl  string `json:"impl"`
	Model string `json:"model"`
}

type FailRec struct {
	Prop    string `json:"prop"`
	Finding string `json:"finding,omitempty"`
	Msg     string `json:"msg"`
	File    string `json:"file"`
	Line    int    `json:"line"`
}

type Result struct {
	Prop               string         `json:"prop"`
	Seed               int64          `json:"seed"`
	Tier               string         `json:"tier"`
	Cases              int            `json:"cases"`
	Evaluations        int            `json:"evaluations"`
	Transitions        int            `json:"transitions"`
	DistinctNontrivial int            `json:"distinct_nontrivial"`
	Tags               map[string]int `json:"tags"`
	Ops                map[string]int `json:"ops"`
	Results            map[string]int `json:"results"`
	HandlerCalls       int            `json:"handler_calls"`
	Crashes            int            `json:"crashes"`
	Disagreements      []DisRec       `json:"disagreements"`
	Failures           []FailRec      `json:"failures"`
	Samples            []string       `json:"samples"`
	CorpusCases        int            `json:"corpus_cases"`
	WallS              float64        `json:"wall_s"`
	Extra              map[string]any `json:"extra,omitempty"`
	Note               string         `json:"note,omitempty"`
}

type Pipeline struct {
	Prop    string
	Seed    int64
	Tier    string
	Driver  string
	OutDir  string
	Corpus  []string // dirs with *.case files, run first
	Opts    GenOpts
	NCases  int
	Workers int
	Search  bool   // monitors only, no model comparison
	Repeat  int    // C11: re-execute every case this many times
	Fixed   []Case // externally supplied cases (C19: shipped schemas)
}

func LoadCase(path string) (Case, error) {
	b, err := os.ReadFile(path)
	if err != nil {
		return Case{}, err
	}
	var lines []string
	for _, l := range strings.Split(string(b), "\n") {
		l = strings.TrimSpace(l)
		if l == "" || strings.HasPrefix(l, "#") {
			continue
		}
		lines = append(lines, l)
	}
	if len(lines) == 0 {
		return Case{}, fmt.Errorf("empty case %s", path)
	}
	return Case{Lines: lines, Tag: "corpus"}, nil
}

func saveCase(dir, name string, c Case, header ...string) string {
	os.MkdirAll(dir, 0o755)
	p := filepath.Join(dir, name)
	var b strings.Builder
	for _, h := range header {
		b.WriteString("# " + h + "\n")
	}
	b.WriteString(c.String() + "\n")
	os.WriteFile(p, []byte(b.String()), 0o644)
	return p
}

type caseRun struct {
	c   Case
	obs []OpObs
	sch *Schema
	err error
}

func runAll(cases []Case, workers int) []caseRun {
	out := make([]caseRun, len(cases))
	var wg sync.WaitGroup
	ch := make(chan int)
	for w := 0; w < workers; w++ {
		wg.Add(1)
		go func() {
			defer wg.Done()
			for i := range ch {
				obs, sch, err := RunImpl(cases[i])
				out[i] = caseRun{c: cases[i], obs: obs, sch: sch, err: err}
			}
		}()
	}
	for i := range cases {
		ch <- i
	}
	close(ch)
	wg.Wait()
	return out
}

func nontrivial(cr caseRun) bool {
	rel := false
	for _, d := range cr.sch.Defs {
		if len(d.Require)+len(d.Add)+len(d.Remove)+len(d.After) > 0 || d.Auto {
			rel = true
		}
	}
	hasRule := false
	for _, l := range cr.c.Lines {
		if strings.HasPrefix(l, "rule ") {
			hasRule = true
		}
	}
	changed := false
	for _, o := range cr.obs {
		for _, e := range o.Events {
			if e.Kind == "TE" && !eqU64(e.TB, e.TA) {
				changed = true
			}
		}
	}
	return (rel || hasRule) && changed
}

// shrink removes lines while `pred` keeps holding.
func shrink(c Case, pred func(Case) bool) Case {
	cur := c
	for changed := true; changed; {
		changed = false
		for i := len(cur.Lines) - 1; i >= 1; i-- {
			cand := Case{Tag: cur.Tag}
			cand.Lines = append(append([]string{}, cur.Lines[:i]...), cur.Lines[i+1:]...)
			if pred(cand) {
				cur = cand
				changed = true
			}
		}
	}
	return cur
}

func (p *Pipeline) disagrees(c Case) bool {
	obs, _, err := RunImpl(c)
	if err != nil {
		return false
	}
	model, err := RunModel(p.Driver, []Case{c})
	if err != nil {
		return false
	}
	return Compare(p.Prop, 0, c, obs, model[0]) != nil
}

func (p *Pipeline) failsMonitor(c Case, msgPrefix string, finding string) bool {
	obs, sch, err := RunImpl(c)
	if err != nil {
		return false
	}
	for _, f := range Monitor(p.Prop, c, sch, obs) {
		if f.Finding == finding && strings.HasPrefix(f.Msg, msgPrefix) {
			return true
		}
	}
	return false
}

func msgKey(m string) string {
	if i := strings.Index(m, ":"); i > 0 {
		return m[:i]
	}
	f := strings.Fields(m)
	if len(f) > 2 {
		return strings.Join(f[:2], " ")
	}
	return m
}

func (p *Pipeline) Run() *Result {
	t0 := time.Now()
	res := &Result{Prop: p.Prop, Seed: p.Seed, Tier: p.Tier, Tags: map[string]int{},
		Ops: map[string]int{}, Results: map[string]int{}}
	var cases []Case
	for _, dir := range p.Corpus {
		files, _ := filepath.Glob(filepath.Join(dir, "*.case"))
		for _, f := range files {
			if c, err := LoadCase(f); err == nil {
				c.Tag = "corpus:" + filepath.Base(f)
				cases = append(cases, c)
			}
		}
	}
	res.CorpusCases = len(cases)
	r := rand.New(rand.NewSource(p.Seed))
	for i := 0; i < p.NCases; i++ {
		cases = append(cases, GenCase(r, p.Opts))
	}
	cases = append(cases, p.Fixed...)
	runs := runAll(cases, p.Workers)
	var model [][]string
	var err error
	if !p.Search {
		model, err = RunModel(p.Driver, cases)
	}
	if err != nil {
		res.Note = "model driver failed: " + err.Error()
		res.Disagreements = append(res.Disagreements, DisRec{File: "", Op: "driver", Impl: "", Model: err.Error()})
		res.WallS = time.Since(t0).Seconds()
		return res
	}
	seen := map[string]bool{}
	failSeen := map[string]bool{}
	for i, cr := range runs {
		if cr.err != nil {
			res.Note += fmt.Sprintf("impl error on case %d: %v; ", i, cr.err)
			continue
		}
		res.Cases++
		tag := cr.c.Tag
		if strings.HasPrefix(tag, "corpus:") {
			tag = "corpus"
		}
		res.Tags[tag]++
		for _, o := range cr.obs {
			if !o.IsOp {
				continue
			}
			res.Evaluations++
			res.Ops[strings.Fields(o.Line)[0]]++
			rs := o.ResStr
			if strings.HasPrefix(rs, "queued") {
				rs = "queued"
			}
			res.Results[rs]++
			if o.Crash != "" {
				res.Crashes++
			}
			for _, e := range o.Events {
				switch e.Kind {
				case "TE":
					res.Transitions++
				case "H":
					res.HandlerCalls++
				}
			}
		}
		h := sha1.Sum([]byte(cr.c.String()))
		hk := hex.EncodeToString(h[:])
		if !seen[hk] && nontrivial(cr) {
			seen[hk] = true
			res.DistinctNontrivial++
		}
		if len(res.Samples) < 3 && nontrivial(cr) && i >= res.CorpusCases {
			res.Samples = append(res.Samples, cr.c.String())
		}
		var d *Disagreement
		if !p.Search {
			d = Compare(p.Prop, i, cr.c, cr.obs, model[i])
		}
		if d != nil && len(res.Disagreements) < 5 {
			small := shrink(cr.c, p.disagrees)
			obs2, _, _ := RunImpl(small)
			m2, _ := RunModel(p.Driver, []Case{small})
			rec := DisRec{Line: d.LineIdx, Op: d.Line, Impl: d.Impl, Model: d.Model}
			if m2 != nil {
				if d2 := Compare(p.Prop, 0, small, obs2, m2[0]); d2 != nil {
					rec = DisRec{Line: d2.LineIdx, Op: d2.Line, Impl: d2.Impl, Model: d2.Model}
				}
			}
			rec.File = saveCase(p.OutDir, fmt.Sprintf("%s-seed%d-disagree%d.case", p.Prop, p.Seed, len(res.Disagreements)),
				small, "correspondence model<->implementation disagrees (projection "+p.Prop+")",
				"line "+fmt.Sprint(rec.Line)+": "+rec.Op, "impl : "+rec.Impl, "model: "+rec.Model)
			res.Disagreements = append(res.Disagreements, rec)
		} else if d != nil {
			res.Disagreements = append(res.Disagreements, DisRec{Line: d.LineIdx, Op: d.Line})
		}
		var mfails []Failure
		if p.Repeat > 1 {
			// the re-executions of a case share one Schema value (the library's idiom: machines are made
			// from package-level schema variables); the first execution above had its own
			shared := AmSchema(cr.sch)
			for k := 1; k < p.Repeat; k++ {
				obs2, _, err2 := RunImplSchema(cr.c, shared)
				if err2 != nil {
					continue
				}
				res.Evaluations += len(obs2)
				same := len(obs2) == len(cr.obs)
				for j := 0; same && j < len(obs2); j++ {
					if obs2[j].Out != cr.obs[j].Out {
						same = false
						mfails = append(mfails, Failure{Prop: p.Prop, Line: j,
							Msg: "nondeterministic: two executions of the same history differ at: " + cr.c.Lines[j]})
					}
				}
				if !same {
					break
				}
			}
		}
		mfails = append(mfails, Monitor(p.Prop, cr.c, cr.sch, cr.obs)...)
		unlisted := map[int]bool{}
		if d != nil {
			// the model reproduces every recorded finding bug for bug: on a case where model and
			// implementation disagree a failure is not (only) the recorded behaviour, whatever its shape
			for k := range mfails {
				if mfails[k].Finding != "" {
					mfails[k].Msg += " (not the recorded finding " + mfails[k].Finding + ": the model, which reproduces it, behaves differently on this case)"
					mfails[k].Finding = ""
					unlisted[k] = true
				}
			}
		}
		for k, f := range mfails {
			key := f.Finding + "|" + msgKey(f.Msg)
			if failSeen[key] {
				continue
			}
			failSeen[key] = true
			pre := msgKey(f.Msg)
			small := cr.c
			if !strings.HasPrefix(f.Msg, "nondeterministic") && !unlisted[k] {
				small = shrink(cr.c, func(c Case) bool { return p.failsMonitor(c, pre, f.Finding) })
			}
			name := fmt.Sprintf("%s-seed%d-fail%d.case", p.Prop, p.Seed, len(res.Failures))
			file := saveCase(p.OutDir, name, small, "monitor "+p.Prop+" failed on the real machine: "+f.Msg, "finding="+f.Finding)
			res.Failures = append(res.Failures, FailRec{Prop: p.Prop, Finding: f.Finding, Msg: f.Msg, File: file, Line: f.Line})
		}
	}
	res.WallS = time.Since(t0).Seconds()
	return res
}
