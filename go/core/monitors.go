package core

import (
	"fmt"
	"sort"
	"strings"
)

// Failure is a monitor verdict on the real machine's behaviour.
type Failure struct {
	Prop    string
	Line    int
	Msg     string
	Finding string // non-empty: matches a known-finding signature
}

// txObs groups the events of one transition.
type txObs struct {
	TI, TE  *Event
	TF      *Event
	H       []*Event
	HBefore []*Event // before TF
	HAfter  []*Event // after TF
	Line    int
	vetoes  map[*Event]bool // handler calls that returned false (filled for C02)
}

type caseInfo struct {
	sch      *Schema
	rules    []rule
	nbind    int
	faulty   bool // panic / timeout rule present
	nested   bool // some rule issues mutations
	nthRules bool // some rule depends on the call count
	handlers bool
	detach   bool // some handler detaches a binding
	disposes bool // the history disposes the machine
}

func parseCaseInfo(c Case, sch *Schema) caseInfo {
	ci := caseInfo{sch: sch}
	for _, l := range c.Lines[1:] {
		t := strings.Fields(l)
		if len(t) == 0 {
			continue
		}
		switch t[0] {
		case "dispose":
			ci.disposes = true
		case "bind":
			fmt.Sscan(t[1], &ci.nbind)
			ci.handlers = ci.nbind > 0
		case "rule":
			if len(t) >= 5 {
				if t[4] == "panic" || t[4] == "panicstr" || t[4] == "timeout" {
					ci.faulty = true
				}
				if t[3] != "*" {
					ci.nthRules = true
				}
				if strings.HasPrefix(t[4], "detach:") {
					ci.detach = true
				}
				if len(t) > 5 {
					ci.nested = true
				}
			}
		}
	}
	return ci
}

// detachTimeline: for every transition (by index in txs) the set of bindings already detached when
// it started and the set detached when it ended, replaying the case's `detach:` rules over the
// handler calls in their order (occurrence counting as the runner does).
func detachTimeline(c Case, obs []OpObs) (before, after []map[int]bool) {
	type key struct {
		b    int
		name string
	}
	// the runner takes the first rule line whose occurrence matches, else the first `*` line
	nth := map[key]map[int]int{} // (bind,name) -> occurrence -> detached binding (-1: not a detach rule)
	star := map[key]int{}
	for _, l := range c.Lines {
		t := strings.Fields(l)
		if len(t) >= 5 && t[0] == "rule" {
			var b int
			d := -1
			fmt.Sscan(t[1], &b)
			if strings.HasPrefix(t[4], "detach:") {
				fmt.Sscan(t[4][7:], &d)
			}
			k := key{b, t[2]}
			if t[3] == "*" {
				if _, ok := star[k]; !ok {
					star[k] = d
				}
				continue
			}
			var n int
			fmt.Sscan(t[3], &n)
			if nth[k] == nil {
				nth[k] = map[int]int{}
			}
			if _, ok := nth[k][n]; !ok {
				nth[k][n] = d
			}
		}
	}
	occ := map[key]int{}
	gone := map[int]bool{}
	cp := func() map[int]bool {
		m := map[int]bool{}
		for k, v := range gone {
			m[k] = v
		}
		return m
	}
	for li := range obs {
		for i := range obs[li].Events {
			e := &obs[li].Events[i]
			switch e.Kind {
			case "TI":
				before = append(before, cp())
				after = append(after, nil)
			case "TE":
				for j := len(after) - 1; j >= 0; j-- {
					if after[j] == nil {
						after[j] = cp()
						break
					}
				}
			case "H":
				k := key{e.Bind, e.HName}
				n := occ[k]
				occ[k] = n + 1
				if d, ok := nth[k][n]; ok {
					if d >= 0 {
						gone[d] = true
					}
				} else if d, ok := star[k]; ok && d >= 0 {
					gone[d] = true
				}
			}
		}
	}
	for j := range after {
		if after[j] == nil {
			after[j] = cp()
		}
	}
	return before, after
}

// handlerActs: what every observed handler call was told to do (the runner takes the first rule
// line whose occurrence matches, else the first `*` line, else "t"), keyed by the event's address.
func handlerActs(c Case, obs []OpObs) map[*Event]string {
	type key struct {
		b    int
		name string
	}
	nth := map[key]map[int]string{}
	star := map[key]string{}
	for _, l := range c.Lines {
		t := strings.Fields(l)
		if len(t) >= 5 && t[0] == "rule" {
			var b int
			fmt.Sscan(t[1], &b)
			k := key{b, t[2]}
			if t[3] == "*" {
				if _, ok := star[k]; !ok {
					star[k] = t[4]
				}
				continue
			}
			var n int
			fmt.Sscan(t[3], &n)
			if nth[k] == nil {
				nth[k] = map[int]string{}
			}
			if _, ok := nth[k][n]; !ok {
				nth[k][n] = t[4]
			}
		}
	}
	occ := map[key]int{}
	out := map[*Event]string{}
	for li := range obs {
		for i := range obs[li].Events {
			e := &obs[li].Events[i]
			if e.Kind != "H" {
				continue
			}
			k := key{e.Bind, e.HName}
			n := occ[k]
			occ[k] = n + 1
			if a, ok := nth[k][n]; ok {
				out[e] = a
			} else if a, ok := star[k]; ok {
				out[e] = a
			} else {
				out[e] = "t"
			}
		}
	}
	return out
}

// alwaysFalse returns the (bind/name) keys whose every call returns false
// (a single `* f` rule and no nth-specific rule).
func alwaysFalse(c Case) map[string]bool {
	star := map[string]string{}
	specific := map[string]bool{}
	for _, l := range c.Lines {
		t := strings.Fields(l)
		if len(t) >= 5 && t[0] == "rule" {
			k := t[1] + "/" + t[2]
			if t[3] == "*" {
				if _, ok := star[k]; !ok {
					star[k] = t[4]
				}
			} else {
				specific[k] = true
			}
		}
	}
	out := map[string]bool{}
	for k, a := range star {
		if a == "f" && !specific[k] {
			out[k] = true
		}
	}
	return out
}

func splitTx(obs []OpObs) []txObs {
	var txs []txObs
	for li := range obs {
		o := &obs[li]
		var cur *txObs
		for i := range o.Events {
			e := &o.Events[i]
			switch e.Kind {
			case "TI":
				txs = append(txs, txObs{TI: e, Line: li})
				cur = &txs[len(txs)-1]
			case "TF":
				if cur != nil {
					cur.TF = e
				}
			case "TE":
				if cur != nil {
					cur.TE = e
					cur = nil
				}
			case "H":
				if cur != nil {
					cur.H = append(cur.H, e)
					if cur.TF == nil {
						cur.HBefore = append(cur.HBefore, e)
					} else {
						cur.HAfter = append(cur.HAfter, e)
					}
				}
			}
		}
	}
	return txs
}

func setOf(l []int) map[int]bool {
	m := map[int]bool{}
	for _, v := range l {
		m[v] = true
	}
	return m
}

func eqU64(a, b []uint64) bool {
	if len(a) != len(b) {
		return false
	}
	for i := range a {
		if a[i] != b[i] {
			return false
		}
	}
	return true
}

func sortedCopy(l []int) []int {
	c := append([]int(nil), l...)
	sort.Ints(c)
	return c
}

func eqSet(a, b []int) bool {
	x, y := setOf(a), setOf(b)
	if len(x) != len(y) {
		return false
	}
	for k := range x {
		if !y[k] {
			return false
		}
	}
	return true
}

// addClosure: states reachable from `from` through Add relations.
func addClosure(sch *Schema, from []int) map[int]bool {
	seen := setOf(from)
	work := append([]int(nil), from...)
	for len(work) > 0 {
		x := work[0]
		work = work[1:]
		if x < 0 || x >= len(sch.Defs) {
			continue
		}
		for _, y := range sch.Defs[x].Add {
			if !seen[y] {
				seen[y] = true
				work = append(work, y)
			}
		}
	}
	return seen
}

// Monitor evaluates the property `prop` on what the real machine did.
func Monitor(prop string, c Case, sch *Schema, obs []OpObs) []Failure {
	ci := parseCaseInfo(c, sch)
	var fails []Failure
	add := func(line int, finding string, f string, a ...any) {
		fails = append(fails, Failure{Prop: prop, Line: line, Msg: fmt.Sprintf(f, a...), Finding: finding})
	}
	txs := splitTx(obs)
	n := len(sch.Defs)
	if prop == "C11" || prop == "C20" || prop == "C03" {
		// a history is the caller's: the same lists are handed to the next machine
		for li, o := range obs {
			if o.ArgNote != "" {
				add(li, "", "the call rewrote the list of states it was called with: %s, after `%s`", o.ArgNote, o.Line)
				break
			}
		}
	}
	if prop == "C01" || prop == "C14" {
		// the machine is idle between two operations of a history: the time-before of the first
		// transition of an operation is the machine's time as read after the previous operation
		// (faults included: what the recovery ticked is part of it); histories with timeout rules are
		// left out, a timed-out handler's goroutine may still be running
		hasTimeout := false
		for _, l := range c.Lines {
			if strings.HasPrefix(l, "rule ") && strings.Contains(l, " timeout") {
				hasTimeout = true
			}
		}
		var prevClock []uint64
		for li, o := range obs {
			if !o.IsOp || o.Crash != "" {
				prevClock = nil
				continue
			}
			if prevClock != nil && !hasTimeout && !ci.disposes {
				for i := range o.Events {
					if e := &o.Events[i]; e.Kind == "TI" {
						if len(e.TB) == len(prevClock) && !eqU64(e.TB, prevClock) {
							add(li, "", "time-before %v of the first transition of `%s` is not the machine's time %v read after the previous operation", e.TB, o.Line, prevClock)
						}
						break
					}
				}
			}
			prevClock = o.Clock
		}
	}
	switch prop {
	case "C01":
		var prev []uint64
		for li, o := range obs {
			if !o.IsOp || o.Crash != "" {
				continue
			}
			act := setOf(o.Active)
			for i := 0; i < n && i < len(o.Clock); i++ {
				if act[i] != (o.Clock[i]%2 == 1) {
					add(li, "", "parity: state %d active=%v tick=%d", i, act[i], o.Clock[i])
				}
				if prev != nil && o.Clock[i] < prev[i] {
					add(li, "", "tick of %d decreased %d -> %d", i, prev[i], o.Clock[i])
				}
			}
			prev = o.Clock
			if v := o.Views; v != nil {
				var sb []string
				for i := 0; i < n; i++ {
					if v.IsEach[i] != act[i] || v.NotEach[i] == act[i] || v.AnyEach[i] != act[i] {
						add(li, "", "Is/Not/Any disagree with ActiveStates on %d", i)
					}
					if v.Ticks[i] != o.Clock[i] || v.ClockMap[i] != o.Clock[i] || v.Time[i] != o.Clock[i] {
						add(li, "", "Tick/Clock/Time disagree on %d", i)
					}
					if act[i] {
						sb = append(sb, fmt.Sprintf("%s:%d", sch.Names[i], o.Clock[i]))
					}
				}
				if want := "(" + strings.Join(sb, " ") + ")"; v.StringOut != want {
					add(li, "", "String()=%q want %q", v.StringOut, want)
				}
				if !eqSet(v.ActiveSub, o.Active) {
					add(li, "", "ActiveStates(all) != ActiveStates(nil)")
				}
			}
		}
		if ci.faulty {
			break
		}
		for _, tx := range txs {
			if tx.TE == nil {
				continue
			}
			tb, ta := tx.TE.TB, tx.TE.TA
			if !eqU64(tb, tx.TI.TB) {
				add(tx.Line, "", "TimeBefore changed during the transition")
			}
			bef, aft := setOf(tx.TI.Before), setOf(tx.TE.Active)
			if !tx.TE.Acc || tx.TI.IsCheck {
				if !eqU64(tb, ta) || !eqSet(tx.TI.Before, tx.TE.Active) {
					add(tx.Line, "", "canceled/check transition moved time or states")
				}
				continue
			}
			called := setOf(tx.TI.Called)
			for i := 0; i < n && i < len(ta); i++ {
				d := ta[i] - tb[i]
				want := uint64(0)
				if bef[i] != aft[i] {
					want = 1
				} else if bef[i] && aft[i] && called[i] && sch.Defs[i].Multi && !tx.TI.IsAuto {
					want = 2
				} else if bef[i] && aft[i] && called[i] && sch.Defs[i].Multi && tx.TI.IsAuto {
					want = 2
				}
				if d != want {
					add(tx.Line, "", "state %d moved by %d, documented step is %d", i, d, want)
				}
			}
		}
		for li, o := range obs {
			if !o.IsOp || o.Crash != "" {
				continue
			}
			// last TE of the op reports the machine's time
			var last *Event
			for i := range o.Events {
				if o.Events[i].Kind == "TE" {
					last = &o.Events[i]
				}
			}
			if last != nil && !eqU64(last.TA, o.Clock) {
				add(li, "", "last TimeAfter != machine time")
			}
		}
	case "C02":
		{
			acts := handlerActs(c, obs)
			for k := range txs {
				txs[k].vetoes = map[*Event]bool{}
				for _, h := range txs[k].HBefore {
					if acts[h] == "f" {
						txs[k].vetoes[h] = true
					}
				}
			}
		}
		if ci.faulty {
			break
		}
		for _, tx := range txs {
			if tx.TE == nil || tx.TI.IsCheck || !tx.TE.Acc {
				continue
			}
			a, t := setOf(tx.TI.Before), setOf(tx.TE.Active)
			called := setOf(tx.TI.Called)
			kind := tx.TI.MutKind
			var toSet []int
			switch kind {
			case "add":
				toSet = append(append([]int{}, tx.TI.Called...), tx.TI.Before...)
			case "remove":
				for _, x := range tx.TI.Before {
					if !called[x] {
						toSet = append(toSet, x)
					}
				}
			case "set":
				toSet = tx.TI.Called
			}
			cand := addClosure(sch, toSet)
			removedByCand := func(y int) bool {
				for z := range cand {
					if contains(sch.Defs[z].Remove, y) {
						return true
					}
				}
				return false
			}
			for x := range t {
				for _, q := range sch.Defs[x].Require {
					if !t[q] {
						add(tx.Line, "", "Require: %d active without %d", x, q)
					}
				}
				for _, y := range sch.Defs[x].Remove {
					if t[y] && y != x {
						add(tx.Line, sigC02Readd(sch, tx, x, y), "Remove: %d and %d both active", x, y)
					}
				}
				if !a[x] {
					for _, y := range sch.Defs[x].Add {
						if t[y] || removedByCand(y) || (kind == "remove" && called[y]) {
							continue
						}
						miss := false
						for _, q := range sch.Defs[y].Require {
							if !t[q] {
								miss = true
							}
						}
						if !miss {
							add(tx.Line, "", "Add: %d activated but its Add state %d is not active", x, y)
						}
					}
					if !cand[x] {
						add(tx.Line, "", "unjustified activation of %d", x)
					}
				}
			}
			for x := range a {
				if t[x] {
					continue
				}
				ok := (kind == "remove" && called[x]) || (kind == "set" && !called[x]) || removedByCand(x)
				for _, q := range sch.Defs[x].Require {
					if !t[q] {
						ok = true
					}
				}
				if !ok {
					add(tx.Line, "", "unjustified deactivation of %d", x)
				}
			}
			if len(setOf(tx.TE.Active)) != len(tx.TE.Active) {
				add(tx.Line, "", "duplicate in active states")
			}
		}
	case "C03":
		// a mutation on a machine that is backing off is Canceled and has no effect
		{
			backing := false
			var prevClock []uint64
			for li, o := range obs {
				f := strings.Fields(o.Line)
				if len(f) == 2 && f[0] == "backoff" {
					backing = f[1] == "1"
				}
				if !o.IsOp || o.Crash != "" {
					continue
				}
				switch f[0] {
				case "add", "remove", "set", "add!", "remove!", "set!", "toggle":
					if backing && prevClock != nil {
						if o.ResStr != "canceled" {
							add(li, "", "backoff: `%s` on a machine that is backing off returned %s instead of Canceled", o.Line, o.ResStr)
						} else if !eqU64(prevClock, o.Clock) {
							add(li, "", "backoff: `%s` on a machine that is backing off changed the clock %v -> %v", o.Line, prevClock, o.Clock)
						}
					}
				}
				prevClock = o.Clock
			}
		}
		// guards: a mutation call at/over the queue limit is Canceled (one
		// pending Exception excepted) — observed on calls made from handlers
		limit := 1000
		for _, l := range c.Lines {
			if strings.HasPrefix(l, "limit ") {
				fmt.Sscan(l[6:], &limit)
			}
		}
		for li, o := range obs {
			for _, e := range o.Events {
				if e.Kind != "N" {
					continue
				}
				if e.QLen >= limit && e.ResStr != "canceled" && !contains(e.Called, sch.Exc) {
					add(li, "", "mutation accepted beyond the queue limit (len %d, limit %d): %s", e.QLen, limit, e.ResStr)
				}
			}
		}
		for li, o := range obs {
			if !o.IsOp || o.Crash != "" || li == 0 {
				continue
			}
			op := strings.Fields(o.Line)[0]
			var first *txObs
			for i := range txs {
				if txs[i].Line == li {
					first = &txs[i]
					break
				}
			}
			isCheck := op == "canadd" || op == "canremove"
			if isCheck && first != nil && first.TE != nil {
				if !eqU64(first.TE.TB, first.TE.TA) || !eqSet(first.TI.Before, first.TE.Active) {
					add(li, "", "check transition changed states or ticks")
				}
			}
			var prev *OpObs
			// (a line between the two that changes the machine's mode - backoff, queue limit - makes
			// the later call a call under other conditions)
			modeChanged := false
			for j := li - 1; j >= 0; j-- {
				if obs[j].IsOp {
					prev = &obs[j]
					break
				}
				if f := strings.Fields(obs[j].Line); len(f) > 0 && (f[0] == "backoff" || f[0] == "limit") {
					modeChanged = true
				}
			}
			if isCheck && prev != nil && !ci.faulty && !ci.nested {
				if o.QTick != prev.QTick || !eqU64(o.Clock, prev.Clock) || !eqSet(o.Active, prev.Active) {
					add(li, "", "CanAdd/CanRemove changed the machine")
				}
			}
			// a check answers what the same mutation returns when it is issued next (non-Multi states,
			// handlers that do not depend on how often they were called)
			if !isCheck && prev != nil && !modeChanged && !ci.faulty && !ci.nested && !ci.nthRules && !ci.detach && !ci.disposes {
				pf := strings.Fields(prev.Line)
				of := strings.Fields(o.Line)
				if len(pf) == 2 && len(of) == 2 && pf[1] == of[1] &&
					((pf[0] == "canadd" && of[0] == "add") || (pf[0] == "canremove" && of[0] == "remove")) &&
					prev.Crash == "" && (prev.ResStr == "executed" || prev.ResStr == "canceled") &&
					(o.ResStr == "executed" || o.ResStr == "canceled") {
					multi := false
					for _, x := range parseList(of[1]) {
						if x >= 0 && x < n && sch.Defs[x].Multi {
							multi = true
						}
					}
					if !multi && prev.ResStr != o.ResStr {
						add(li, "", "%s answered %s, the same mutation issued next returned %s", pf[0], prev.ResStr, o.ResStr)
					}
				}
			}
			if ci.faulty || isCheck || op == "adderr" || op == "toggle" {
				continue
			}
			if o.ResStr == "canceled" && prev != nil && !ci.nested {
				if !eqU64(o.Clock, prev.Clock) || !eqSet(o.Active, prev.Active) {
					add(li, "", "Canceled mutation changed the machine")
				}
			}
			if o.ResStr == "executed" && first != nil && first.TE != nil && first.TI.QTickMut > 0 {
				aft := setOf(first.TE.Active)
				for _, x := range first.TI.Called {
					if (first.TI.MutKind == "add" || first.TI.MutKind == "set") && !aft[x] {
						add(li, "", "Executed but called state %d is not active", x)
					}
					if first.TI.MutKind == "remove" && aft[x] {
						add(li, "", "Executed Remove but %d is still active", x)
					}
				}
			}
		}
	case "C04":
		// sequential side of the queue: no transition starts inside another one,
		// ticked mutations run in tick order, every promised tick is honoured
		// before the drain ends, and an idle machine has an empty queue
		var lastTick uint64
		for li, o := range obs {
			if !o.IsOp {
				continue
			}
			if o.Crash != "" {
				break
			}
			depth := 0
			promised := map[uint64]bool{}
			var inTx *Event
			var waiting []*Event // queued and not yet shifted (MQ seen, TI not yet)
			for i := range o.Events {
				e := &o.Events[i]
				switch e.Kind {
				case "MQ":
					waiting = append(waiting, e)
				case "TI":
					for k, w := range waiting {
						if w.MutKind == e.MutKind && eqSet(w.Called, e.Called) && w.QTickMut == e.QTickMut {
							waiting = append(waiting[:k], waiting[k+1:]...)
							break
						}
					}
					if depth != 0 {
						add(li, "", "a transition started inside another one (nested instead of queued)")
					}
					depth++
					inTx = e
					if e.QTickMut > 0 {
						if lastTick != 0 && e.QTickMut != lastTick+1 && !ci.faulty {
							add(li, "", "queued mutations ran out of queue-tick order: tick %d after %d", e.QTickMut, lastTick)
						}
						lastTick = e.QTickMut
						delete(promised, e.QTickMut)
					}
				case "TE":
					depth--
					inTx = nil
				case "N":
					if inTx == nil {
						continue
					}
					if strings.HasPrefix(e.ResStr, "queued:") {
						var tk uint64
						fmt.Sscan(e.ResStr[7:], &tk)
						promised[tk] = true
					}
					// a mutation issued while others wait is queued behind them, not answered on the
					// spot: Executed without a tick is right only for a duplicate of a waiting mutation
					if e.ResStr == "executed" && e.QLen > 0 && len(waiting) > 0 && !ci.faulty {
						dup := false
						for _, w := range waiting {
							if w.MutKind == e.MutKind && eqSet(w.Called, goUniq(e.Called)) {
								dup = true
							}
						}
						if !dup {
							add(li, "", "a %s of %v issued from a handler behind %d waiting mutations was answered Executed without being queued", e.MutKind, e.Called, len(waiting))
						}
					}
				}
			}
			if ci.faulty || ci.disposes {
				continue
			}
			for tk := range promised {
				add(li, "", "a mutation issued inside a handler was promised queue tick %d, which was never processed", tk)
			}
			if o.QLen != 0 {
				add(li, "", "the call returned on an idle machine with %d queued mutations left", o.QLen)
			}
			if lastTick != 0 && o.QTick < lastTick {
				add(li, "", "machine queue tick %d is behind the last processed mutation tick %d", o.QTick, lastTick)
			}
		}
		// WhenQueue(tick) closes once the tick has been processed (accepted or canceled)
		for _, f := range Monitor("C06", c, sch, obs) {
			if strings.HasPrefix(f.Msg, "WhenQueue(") {
				f.Prop = "C04"
				fails = append(fails, f)
			}
		}
	case "C05":
		if ci.faulty {
			break
		}
		goneB, goneA := detachTimeline(c, obs)
		for txi, tx := range txs {
			if tx.TE == nil {
				continue
			}
			gb, ga := map[int]bool{}, map[int]bool{}
			if txi < len(goneB) {
				gb, ga = goneB[txi], goneA[txi]
			}
			phase := func(h string) int {
				switch {
				case strings.HasPrefix(h, "exit:"):
					return 0
				case strings.HasPrefix(h, "enter:"):
					return 1
				case strings.HasPrefix(h, "trans:"):
					return 2
				case h == "anyenter":
					return 3
				case strings.HasPrefix(h, "end:"), strings.HasPrefix(h, "state:"):
					return 4
				case h == "anystate":
					return 5
				}
				return -1
			}
			last := -1
			for _, h := range tx.H {
				p := phase(h.HName)
				if p < last {
					add(tx.Line, "", "handler %s out of the documented phase order", h.HName)
				}
				if p > last {
					last = p
				}
			}
			for _, h := range tx.HBefore {
				if !eqSet(h.Active, tx.TI.Before) {
					add(tx.Line, "", "negotiation handler %s saw a changed machine", h.HName)
				}
				if phase(h.HName) >= 4 {
					add(tx.Line, "", "final handler %s before the states were applied", h.HName)
				}
			}
			for _, h := range tx.HAfter {
				if tx.TF != nil && !eqSet(h.Active, tx.TF.Active) {
					add(tx.Line, "", "final handler %s did not see the target states", h.HName)
				}
				if phase(h.HName) < 4 {
					add(tx.Line, "", "negotiation handler %s after the states were applied", h.HName)
				}
			}
			// finals exactly once per changed state per binding that defines it
			if tx.TF != nil && tx.TE.Acc {
				bef, aft := setOf(tx.TI.Before), setOf(tx.TF.Active)
				called := setOf(tx.TI.Called)
				defined := map[string]bool{}
				for _, ru := range ci.rules {
					_ = ru
				}
				for _, l := range c.Lines {
					t := strings.Fields(l)
					if len(t) >= 5 && t[0] == "rule" {
						defined[t[1]+"/"+t[2]] = true
					}
				}
				count := map[string]int{}
				for _, h := range tx.HAfter {
					count[fmt.Sprintf("%d/%s", h.Bind, h.HName)]++
				}
				for b := 0; b < ci.nbind; b++ {
					for i := 0; i < n; i++ {
						var want string
						if !bef[i] && aft[i] || (bef[i] && aft[i] && called[i] && sch.Defs[i].Multi) {
							want = fmt.Sprintf("%d/state:%d", b, i)
						} else if bef[i] && !aft[i] {
							want = fmt.Sprintf("%d/end:%d", b, i)
						}
						if want == "" || !defined[want] {
							continue
						}
						// a binding detached during this very transition may or may not have been reached
						if gb[b] && count[want] != 0 {
							add(tx.Line, "", "final handler %s of a detached binding ran", want)
						}
						if !gb[b] && !ga[b] && count[want] != 1 {
							add(tx.Line, "", "final handler %s ran %d times", want, count[want])
						}
					}
				}
				for k, v := range count {
					if strings.Contains(k, "/anystate") {
						continue
					}
					var b, i int
					var kind string
					p := strings.SplitN(k, "/", 2)
					fmt.Sscan(p[0], &b)
					q := strings.SplitN(p[1], ":", 2)
					kind = q[0]
					fmt.Sscan(q[1], &i)
					changedIn := !bef[i] && aft[i] || (bef[i] && aft[i] && called[i] && sch.Defs[i].Multi)
					changedOut := bef[i] && !aft[i]
					if (kind == "state" && !changedIn) || (kind == "end" && !changedOut) || v > 1 {
						add(tx.Line, "", "final handler %s ran for an unchanged state or twice", k)
					}
				}
				// order of State handlers within a binding vs After / Require
				for b := 0; b < ci.nbind; b++ {
					var order []int
					for _, h := range tx.HAfter {
						if h.Bind == b && strings.HasPrefix(h.HName, "state:") {
							var i int
							fmt.Sscan(h.HName[6:], &i)
							order = append(order, i)
						}
					}
					for p := 0; p < len(order); p++ {
						for q := p + 1; q < len(order); q++ {
							x, y := order[p], order[q] // x ran before y
							if contains(sch.Defs[x].After, y) || contains(sch.Defs[x].Require, y) {
								add(tx.Line, sigC05After(sch, tx.TF.Active, obs[0].Out),
									"state %d ran before %d although it is After/Requires it", x, y)
							}
						}
					}
				}
			}
			if !tx.TI.IsAuto && tx.TE.Acc {
				af := alwaysFalse(c)
				for _, h := range tx.HBefore {
					if af[fmt.Sprintf("%d/%s", h.Bind, h.HName)] {
						add(tx.Line, "", "negotiation handler %s returned false but the transition was accepted", h.HName)
					}
				}
				// a bound Exit / Enter handler that always vetoes: the state cannot have left / entered,
				// whether or not the handler was reached
				if tx.TF != nil {
					bef, aft := setOf(tx.TI.Before), setOf(tx.TF.Active)
					for b := 0; b < ci.nbind; b++ {
						if gb[b] || ga[b] {
							continue
						}
						for i := 0; i < n; i++ {
							if bef[i] && !aft[i] && af[fmt.Sprintf("%d/exit:%d", b, i)] {
								add(tx.Line, "", "state %d was deactivated although the Exit handler of binding %d always returns false", i, b)
							}
							if !bef[i] && aft[i] && af[fmt.Sprintf("%d/enter:%d", b, i)] {
								add(tx.Line, "", "state %d was activated although the Enter handler of binding %d always returns false", i, b)
							}
						}
					}
				}
			}
			if !tx.TE.Acc && len(tx.HAfter) > 0 {
				add(tx.Line, "", "final handlers ran for a non-accepted transition")
			}
		}
		// inside an auto transition a vetoed Auto state is stopped too (judged one by one: C07's monitor)
		for _, f := range Monitor("C07", c, sch, obs) {
			if strings.Contains(f.Msg, "was vetoed by") {
				f.Prop = "C05"
				fails = append(fails, f)
			}
		}
	case "C07":
		if ci.faulty {
			break
		}
		for k, tx := range txs {
			if tx.TE == nil {
				continue
			}
			if tx.TI.IsAuto {
				if k == 0 || txs[k-1].TI.IsAuto {
					add(tx.Line, "", "auto mutation not preceded by a user transition")
				}
				// each called auto state is judged on its own
				aft := setOf(tx.TE.Active)
				touched := map[int]bool{}
				for _, h := range tx.HBefore {
					var i, j int
					if strings.HasPrefix(h.HName, "enter:") {
						fmt.Sscan(h.HName[6:], &i)
						touched[i] = true
					} else if strings.HasPrefix(h.HName, "trans:") {
						p := strings.Split(h.HName, ":")
						fmt.Sscan(p[1], &i)
						fmt.Sscan(p[2], &j)
						touched[j] = true
					}
				}
				af := alwaysFalse(c)
				bef := setOf(tx.TI.Before)
				for _, h := range tx.HBefore {
					if !af[fmt.Sprintf("%d/%s", h.Bind, h.HName)] {
						continue
					}
					st := -1
					p := strings.Split(h.HName, ":")
					switch p[0] {
					case "enter":
						fmt.Sscan(p[1], &st)
					case "trans":
						if p[1] != p[2] {
							fmt.Sscan(p[2], &st)
						}
					}
					if st >= 0 && st < n && aft[st] && !bef[st] && tx.TE.Acc {
						// legitimately back only through an Add relation of another
						// accepted state (the re-resolution drops it from the called
						// list, not from the Add relations)
						var others []int
						for _, q := range tx.TI.Called {
							if q != st {
								others = append(others, q)
							}
						}
						if !addClosure(sch, append(others, tx.TI.Before...))[st] {
							add(tx.Line, "", "auto state %d was vetoed by %s but ended up active", st, h.HName)
						}
					}
				}
				cand := addClosure(sch, append(append([]int{}, tx.TI.Called...), tx.TI.Before...))
				// a veto by a handler of a non-Auto state (or AnyEnter) cancels
				// the whole transition by the general rule (C05); the veto is
				// always the last negotiation handler called.
				if !tx.TE.Acc && len(tx.HBefore) > 0 {
					last := tx.HBefore[len(tx.HBefore)-1].HName
					st := -1
					p := strings.Split(last, ":")
					switch p[0] {
					case "enter":
						fmt.Sscan(p[1], &st)
					case "trans":
						fmt.Sscan(p[2], &st)
					}
					// an Exit veto (of any state) is not a called state's own handler:
					// it stops the transition like any negotiation veto
					if st < 0 || st >= n || !sch.Defs[st].Auto {
						continue
					}
				}
				for _, s := range tx.TI.Called {
					if !aft[s] && !touched[s] && !contains(tx.TI.Target, s) && s >= 0 && s < n {
						// rejected by the resolver: one of its own Require is missing, or a candidate that
						// itself passes its Require (as far as one level shows) Removes it - a state that was
						// rejected for an unmet Require blocks nobody
						// the largest subset of the candidates in which every Require is met (what the
						// resolver's Require filter, run to its fixpoint, can keep at most)
						closed := map[int]bool{}
						for q, ok := range cand {
							if ok && q >= 0 && q < n {
								closed[q] = true
							}
						}
						for changed := true; changed; {
							changed = false
							for q := range closed {
								for _, rq := range sch.Defs[q].Require {
									if rq < 0 || rq >= n || !closed[rq] {
										delete(closed, q)
										changed = true
										break
									}
								}
							}
						}
						// justified: a Require of its own did not make it into the target (missing, or dropped
						// in its turn), or a candidate whose own Require can be met Removes it
						just := !closed[s]
						for _, rq := range sch.Defs[s].Require {
							if !contains(tx.TI.Target, rq) {
								just = true
							}
						}
						for b := range closed {
							if b != s && contains(sch.Defs[b].Remove, s) {
								just = true
							}
						}
						if !just {
							add(tx.Line, "", "auto state %d was dropped from the auto mutation %v although its Require can be met and no candidate state whose own Require can be met removes it (active before %v, target %v)", s, tx.TI.Called, tx.TI.Before, tx.TI.Target)
						}
					}
					if aft[s] || touched[s] || !contains(tx.TI.Target, s) {
						// active, judged by a handler, or rejected by the
						// resolver (relations; C02 covers the resolver)
						continue
					}
					rel := false
					for _, q := range sch.Defs[s].Require {
						if !aft[q] {
							rel = true
						}
					}
					for z := range cand {
						if contains(sch.Defs[z].Remove, s) {
							rel = true
						}
					}
					if !rel {
						add(tx.Line, "", "auto state %d neither activated nor rejected by relations/handlers", s)
					}
				}
				continue
			}
			// what should follow
			if tx.TI.IsCheck {
				continue
			}
			changed := !eqU64(tx.TE.TB, tx.TE.TA)
			health := tx.TI.MutKind == "add" && len(tx.TI.Called) == 1 && contains(sch.Health, tx.TI.Called[0])
			var want []int
			if tx.TE.Acc && changed && !health {
				act := setOf(tx.TE.Active)
				for s := 0; s < n; s++ {
					if !sch.Defs[s].Auto || act[s] {
						continue
					}
					blocked := false
					for z := range act {
						if contains(sch.Defs[z].Remove, s) {
							blocked = true
						}
					}
					if !blocked {
						want = append(want, s)
					}
				}
			}
			var next *txObs
			if k+1 < len(txs) {
				next = &txs[k+1]
			}
			if len(want) > 0 {
				if next == nil || !next.TI.IsAuto || !eqSet(next.TI.Called, want) {
					add(tx.Line, "", "expected an auto mutation calling %v next", want)
				}
			} else if next != nil && next.TI.IsAuto {
				add(tx.Line, "", "unexpected auto mutation after a transition that %s", "should not trigger one")
			}
		}
	case "C06", "C13":
		type subRec struct {
			id        int
			kind      string
			p         []string
			ctx       int
			line      int
			held      bool // condition has held since subscribing
			baseClock []uint64
			tick0     uint64
		}
		var subsL []*subRec
		ctxDone := map[int]bool{}
		// an accepted, non-check transition has ended since the context was canceled
		ctxTxSince := map[int]bool{}
		disposed := false
		var curActive []int
		var curClock []uint64
		var curQT uint64 = 1
		for i := 0; i < n; i++ {
			curClock = append(curClock, 0)
		}
		cond := func(sr *subRec, act map[int]bool, clk []uint64, qt uint64) bool {
			at := func(i int) uint64 {
				if i < len(clk) {
					return clk[i]
				}
				return 0
			}
			switch sr.kind {
			case "when":
				for _, x := range parseList(sr.p[1]) {
					if !act[x] {
						return false
					}
				}
				return true
			case "whennot":
				for _, x := range parseList(sr.p[1]) {
					if act[x] {
						return false
					}
				}
				return true
			case "whentime":
				st, ts := parseList(sr.p[1]), parseList(sr.p[2])
				for i := range st {
					if i < len(ts) && at(st[i]) < uint64(ts[i]) {
						return false
					}
				}
				return true
			case "whenticks", "whennext":
				var st int
				fmt.Sscan(sr.p[1], &st)
				return at(st) >= sr.tick0
			case "whenquery":
				var st, mt int
				fmt.Sscan(sr.p[1], &st)
				fmt.Sscan(sr.p[2], &mt)
				return at(st) >= uint64(mt)
			case "whenqueue":
				var t int
				fmt.Sscan(sr.p[1], &t)
				return qt >= uint64(t)
			}
			return false
		}
		newSub := func(req, out string, line int, clk []uint64) {
			if out == "c" || out == "PANIC" || out == "bad" {
				return
			}
			var id int
			fmt.Sscan(out, &id)
			for _, sr := range subsL {
				if sr.id == id && strings.Join(sr.p, ":") == req {
					return // reused channel, same request
				}
				// (the same channel handed out for another request: both requests are judged on it)
			}
			p := strings.Split(req, ":")
			sr := &subRec{id: id, kind: p[0], p: p, line: line}
			ctxField := ""
			switch p[0] {
			case "when", "whennot", "whennext":
				ctxField = p[2]
			case "whentime", "whenticks", "whenquery", "whenargs":
				ctxField = p[3]
			}
			if ctxField != "" && ctxField != "-" {
				fmt.Sscan(ctxField, &sr.ctx)
			}
			var st int
			switch p[0] {
			case "whenticks":
				var k int
				fmt.Sscan(p[1], &st)
				fmt.Sscan(p[2], &k)
				if st < len(clk) {
					sr.tick0 = clk[st] + uint64(k)
				}
			case "whennext":
				fmt.Sscan(p[1], &st)
				if st < len(clk) {
					sr.tick0 = clk[st] + 1
					if clk[st]%2 == 1 {
						sr.tick0 = clk[st] + 2
					}
				}
			case "statectx":
				fmt.Sscan(p[1], &st)
				if st < len(clk) {
					sr.tick0 = clk[st]
				}
				sr.p = []string{"statectx", p[1]}
			}
			subsL = append(subsL, sr)
		}
		for li, o := range obs {
			t := strings.Fields(o.Line)
			if len(t) == 0 {
				continue
			}
			switch t[0] {
			case "ctx":
				if len(t) > 2 && t[1] == "cancel" {
					var k int
					fmt.Sscan(t[2], &k)
					ctxDone[k] = true
				}
				continue
			case "dispose":
				disposed = true
			case "sub":
				out := ""
				for _, f := range strings.Fields(o.Out) {
					if strings.HasPrefix(f, "ch=") {
						out = f[3:]
					}
				}
				if !disposed {
					// condition already true at subscription => must be the closed channel
					probe := &subRec{kind: strings.Split(t[1], ":")[0], p: strings.Split(t[1], ":")}
					if probe.kind == "when" || probe.kind == "whennot" || probe.kind == "whentime" {
						if cond(probe, setOf(curActive), curClock, curQT) && out != "c" {
							add(li, "", "%s subscribed while its condition already held, but the channel is open", t[1])
						}
					}
				}
				newSub(t[1], out, li, curClock)
				continue
			}
			if !o.IsOp && t[0] != "dispose" {
				continue
			}
			// nested subscriptions and per-transition evaluation
			handlerClock := curClock
			isCheck := false
			for i := range o.Events {
				e := &o.Events[i]
				switch e.Kind {
				case "TI":
					isCheck = e.IsCheck
					handlerClock = e.TB
				case "TF":
					handlerClock = e.TA // final handlers see the applied clock
				case "W":
					newSub(e.HName, e.ResStr, li, handlerClock)
				case "TE":
					act := setOf(e.Active)
					// conditions are judged at the end of accepted, non-check transitions
					if e.Acc && !isCheck {
						for k := range ctxDone {
							ctxTxSince[k] = true
						}
						for _, sr := range subsL {
							if sr.kind != "statectx" && sr.kind != "whenqueue" && cond(sr, act, e.TA, 0) {
								sr.held = true
							}
						}
					}
					curClock = e.TA
					handlerClock = e.TA
				}
			}
			if o.IsOp {
				curActive, curClock, curQT = o.Active, o.Clock, o.QTick
			}
			closed := setOf(o.Closed)
			canceled := setOf(o.Canceled)
			if t[0] == "dispose" {
				// reparse the disposed line
				for _, f := range strings.Fields(o.Out) {
					if strings.HasPrefix(f, "cl=") {
						closed = setOf(parseList(f[3:]))
					}
					if strings.HasPrefix(f, "xc=") {
						canceled = setOf(parseList(f[3:]))
					}
				}
			}
			for _, sr := range subsL {
				if sr.kind == "whenargs" || sr.kind == "whenqueueends" {
					if disposed && prop == "C13" && !closed[sr.id] {
						add(li, "", "channel %d (%s) still open after dispose", sr.id, sr.kind)
					}
					continue
				}
				if sr.kind == "statectx" {
					var st int
					fmt.Sscan(sr.p[1], &st)
					changed := st < len(curClock) && curClock[st] != sr.tick0
					if changed && !canceled[sr.id] && !disposed {
						add(li, "", "state context %d of state %d alive although the tick changed", sr.id, st)
					}
					if !changed && canceled[sr.id] && !disposed {
						add(li, "", "state context %d of state %d canceled although the tick did not change", sr.id, st)
					}
					if disposed && !canceled[sr.id] && prop == "C13" {
						add(li, "", "state context %d still alive after dispose", sr.id)
					}
					continue
				}
				if sr.kind == "whenqueue" {
					var tk int
					fmt.Sscan(sr.p[1], &tk)
					if curQT >= uint64(tk) && !closed[sr.id] && !disposed {
						add(li, "C06-whenqueue-open-after-canceled-tx", "WhenQueue(%d) still open although the queue tick is %d", tk, curQT)
					}
					if curQT < uint64(tk) && closed[sr.id] && !disposed {
						add(li, "", "WhenQueue(%d) closed although the queue tick is %d", tk, curQT)
					}
					if disposed && !closed[sr.id] && prop == "C13" {
						add(li, "", "channel %d (whenqueue) still open after dispose", sr.id)
					}
					continue
				}
				if disposed {
					if !closed[sr.id] && prop == "C13" {
						add(li, "", "channel %d (%s) still open after dispose", sr.id, sr.kind)
					}
					continue
				}
				ctxGone := sr.ctx != 0 && ctxDone[sr.ctx]
				if ctxGone && ctxTxSince[sr.ctx] && !closed[sr.id] && !ci.faulty {
					switch sr.kind {
					case "when", "whennot", "whentime", "whenticks", "whennext", "whenquery":
						add(li, "", "context ended, a transition has run since, yet %s (channel %d) is still open", strings.Join(sr.p, ":"), sr.id)
					}
				}
				if sr.held && !closed[sr.id] {
					add(li, "", "lost wake-up: %s (channel %d) open although its condition held at the end of a transition", strings.Join(sr.p, ":"), sr.id)
				}
				if !sr.held && closed[sr.id] && !ctxGone {
					add(li, "", "spurious wake-up: %s (channel %d) closed although its condition never held", strings.Join(sr.p, ":"), sr.id)
				}
			}
		}
	case "C08":
		acts := handlerActs(c, obs)
		for li := range obs {
			// a panic makes Exception active carrying the panic: the Exception mutation is prepended
			// (unless the faulting transition is itself an Exception transition: no nesting)
			if ci.disposes {
				break
			}
			o := &obs[li]
			var ti *Event
			for i := range o.Events {
				e := &o.Events[i]
				if e.Kind == "TI" {
					ti = e
				}
				if e.Kind != "H" || ti == nil || contains(ti.Called, sch.Exc) {
					continue
				}
				if a := acts[e]; a != "panic" && a != "panicstr" {
					continue
				}
				found := false
				for j := i + 1; j < len(o.Events) && !found; j++ {
					q := &o.Events[j]
					if q.Kind == "TI" {
						break
					}
					if q.Kind == "MQ" && q.HasArgs && len(q.Called) == 1 && q.Called[0] == sch.Exc {
						found = true
					}
				}
				if !found {
					add(li, "", "handler %d/%s panicked but no Exception mutation carrying the panic followed", e.Bind, e.HName)
				}
			}
		}
		for li, o := range obs {
			if o.Crash != "" {
				add(li, "", "the call did not return normally: %s", o.Crash)
			}
			if !o.IsOp {
				continue
			}
			// parity after any fault
			act := setOf(o.Active)
			for i := 0; i < n && i < len(o.Clock); i++ {
				if act[i] != (o.Clock[i]%2 == 1) {
					add(li, "", "parity after fault: state %d active=%v tick=%d", i, act[i], o.Clock[i])
				}
			}
			// walk the events of this op: find faults in final handlers
			var lastH *Event
			var tf *Event
			var ti *Event
			var finalsDone []int
			for i := range o.Events {
				e := &o.Events[i]
				switch e.Kind {
				case "TI":
					ti, tf, lastH, finalsDone = e, nil, nil, nil
				case "TF":
					tf = e
				case "H":
					if tf != nil && lastH != nil && strings.HasPrefix(lastH.HName, "state:") {
						var s int
						fmt.Sscan(lastH.HName[6:], &s)
						finalsDone = append(finalsDone, s)
					}
					lastH = e
				case "MQ":
					// the Exception prepended by recoverToErr
					if e.QTickMut == 0 && e.HasArgs && !e.IsAuto && len(e.Called) == 1 && e.Called[0] == sch.Exc && ti != nil {
						if tf == nil {
							// negotiation fault: nothing may move
							continue
						}
						if lastH == nil {
							continue
						}
						// find the TE of this tx
						var te *Event
						for j := i; j < len(o.Events); j++ {
							if o.Events[j].Kind == "TE" {
								te = &o.Events[j]
								break
							}
						}
						if te == nil {
							continue
						}
						aft := setOf(te.Active)
						if strings.HasPrefix(lastH.HName, "state:") {
							var p int
							fmt.Sscan(lastH.HName[6:], &p)
							if aft[p] && !contains(ti.Called, sch.Exc) {
								add(li, "", "state %d stayed active although its State handler panicked", p)
							}
							for _, s := range finalsDone {
								if s != p && !aft[s] && setOf(tf.Active)[s] {
									add(li, "", "state %d was rolled back although its State handler had completed", s)
								}
							}
						} else if lastH.HName == "anystate" {
							// every State / End handler had completed when the global handler panicked:
							// nothing is taken back
							for s := range setOf(tf.Active) {
								if !aft[s] && !contains(ti.Called, sch.Exc) {
									add(li, "", "state %d was rolled back although its State handler had completed (the panic was in AnyState)", s)
								}
							}
						} else if strings.HasPrefix(lastH.HName, "end:") {
							var p int
							fmt.Sscan(lastH.HName[4:], &p)
							if !aft[p] && !contains(ti.Called, sch.Exc) {
								add(li, "C08-end-handler-panic-no-rollback", "deactivation of %d was not rolled back although its End handler panicked", p)
							}
						}
					}
				case "TE":
					if ti != nil && tf == nil && !eqU64(e.TB, e.TA) {
						add(li, "", "a fault during negotiation moved the clock")
					}
				}
			}
		}
	case "C19":
		groups := map[string][]int{}
		for _, t := range strings.Fields(c.Lines[0]) {
			if strings.HasPrefix(t, "groups=") {
				for _, g := range strings.Split(t[7:], ";") {
					p := strings.SplitN(g, ":", 2)
					if len(p) == 2 {
						groups[p[0]] = parseList(p[1])
					}
				}
			}
		}
		for _, tx := range txs {
			if tx.TE == nil {
				continue
			}
			act := setOf(tx.TE.Active)
			for x := range act {
				if x >= n {
					continue
				}
				for _, q := range sch.Defs[x].Require {
					if !act[q] {
						add(tx.Line, "", "Require: %s active without state %d", sch.Names[x], q)
					}
				}
			}
			for g, l := range groups {
				mutual := len(l) >= 2
				for _, x := range l {
					for _, y := range l {
						if x != y && (x >= n || !contains(sch.Defs[x].Remove, y)) {
							mutual = false
						}
					}
				}
				if !mutual {
					continue
				}
				cnt := 0
				for _, x := range l {
					if act[x] {
						cnt++
					}
				}
				if cnt > 1 {
					add(tx.Line, "", "group %s has %d members active", g, cnt)
				}
			}
		}
	case "C14":
		for li, o := range obs {
			if !o.IsOp || o.Crash != "" {
				continue
			}
			state := 0 // 0 idle, 1 after TI, 2 after TS, 3 after TF
			var cur *Event
			var prevTE *Event
			for i := range o.Events {
				e := &o.Events[i]
				switch e.Kind {
				case "TI":
					if state != 0 {
						add(li, "", "TransitionInit inside another transition")
					}
					state, cur = 1, e
					if prevTE != nil && !ci.faulty && !eqU64(prevTE.TA, e.TB) {
						add(li, "", "time-before != previous time-after")
					}
				case "TS":
					if state != 1 {
						add(li, "", "TransitionStart out of order")
					}
					state = 2
				case "TF":
					if state != 2 {
						add(li, "", "TransitionFinals out of order")
					}
					state = 3
				case "TE":
					if state != 2 && state != 3 {
						add(li, "", "TransitionEnd out of order")
					}
					if !ci.faulty {
						if e.Acc && !cur.IsCheck && state != 3 {
							add(li, "", "accepted transition without TransitionFinals")
						}
						if (!e.Acc || cur.IsCheck) && !eqU64(e.TB, e.TA) {
							add(li, "", "canceled transition reports a time change")
						}
					}
					state, prevTE = 0, e
				}
			}
			if state != 0 {
				add(li, "", "transition left open at the end of the call")
			}
			if prevTE != nil && !ci.faulty && !eqU64(prevTE.TA, o.Clock) {
				add(li, "", "last reported time != machine time")
			}
		}
		// across ops
		if !ci.faulty {
			var prevTE *Event
			for _, tx := range txs {
				if prevTE != nil && tx.TI != nil && !eqU64(prevTE.TA, tx.TI.TB) {
					add(tx.Line, "", "time-before != previous time-after (across calls)")
				}
				if tx.TE != nil {
					prevTE = tx.TE
				}
			}
		}
	}
	return fails
}

// sigC05After: the order violation is explained by the recorded finding iff
// some state of the applied target lists another one in After (the second sort
// pass is then not the identity) or the Require topology is empty (cycle).
func sigC05After(sch *Schema, target []int, schemaOut string) string {
	if strings.HasSuffix(strings.TrimSpace(schemaOut), "topo=-") {
		return "C05-order-after-not-strict-weak"
	}
	for _, x := range target {
		for _, y := range target {
			if contains(sch.Defs[x].After, y) {
				return "C05-order-after-not-strict-weak"
			}
		}
	}
	return ""
}

// ---- an independent re-implementation of the resolver's first passes, used
// only to evaluate the known-finding signature Sig_C02_readd:
// "a state blocked by the reverse scan is in the final target".

func goParseAdd(sch *Schema, before map[int]bool, isRemove bool, called map[int]bool, states []int) []int {
	ret := append([]int{}, states...)
	visited := map[int]bool{}
	for changed := true; changed; {
		changed = false
		snap := append([]int{}, ret...)
		for _, name := range snap {
			if name < 0 || name >= len(sch.Defs) {
				continue
			}
			d := sch.Defs[name]
			if before[name] && !d.Multi {
				continue
			}
			if visited[name] {
				continue
			}
			var adds []int
			for _, a := range d.Add {
				if isRemove && called[a] {
					continue
				}
				adds = append(adds, a)
			}
			if len(adds) == 0 {
				continue
			}
			ret = append(ret, adds...)
			visited[name] = true
			changed = true
		}
	}
	return ret
}

func goUniq(l []int) []int {
	seen := map[int]bool{}
	var out []int
	for _, v := range l {
		if !seen[v] {
			seen[v] = true
			out = append(out, v)
		}
	}
	return out
}

func goParseRequire(sch *Schema, states []int) []int {
	for {
		in := setOf(states)
		var next []int
		for _, s := range states {
			ok := true
			for _, q := range sch.Defs[s].Require {
				if !in[q] {
					ok = false
				}
			}
			if ok {
				next = append(next, s)
			}
		}
		if len(next) == len(states) {
			return next
		}
		states = next
	}
}

// scanSurvivors returns the states that survive the reverse scan.
func scanSurvivors(sch *Schema, tx txObs) map[int]bool {
	before := setOf(tx.TI.Before)
	called := setOf(tx.TI.Called)
	var toSet []int
	switch tx.TI.MutKind {
	case "add":
		toSet = append(append([]int{}, tx.TI.Called...), tx.TI.Before...)
	case "remove":
		for _, x := range tx.TI.Before {
			if !called[x] {
				toSet = append(toSet, x)
			}
		}
	case "set":
		toSet = append([]int{}, tx.TI.Called...)
	}
	s1 := goParseRequire(sch, goUniq(goParseAdd(sch, before, tx.TI.MutKind == "remove", called, toSet)))
	already := map[int]bool{}
	for i := len(s1) - 1; i >= 0; i-- {
		name := s1[i]
		blocked := false
		for _, b := range s1 {
			if contains(sch.Defs[b].Remove, name) && !already[b] {
				blocked = true
			}
		}
		if blocked {
			already[name] = true
		}
	}
	surv := map[int]bool{}
	for _, x := range s1 {
		if !already[x] {
			surv[x] = true
		}
	}
	return surv
}

// sigC02Readd: the offending pair (x Removes y, both active afterwards) is
// explained by the known hole iff the remover x did not survive the reverse scan.
func sigC02Readd(sch *Schema, tx txObs, x, y int) string {
	// x Removes y, both active. In the recorded hole the remover x is NOT a
	// survivor of the reverse scan (it was blocked there and re-added by the
	// second parseAdd); a surviving remover always puts y into toRemove.
	if !scanSurvivors(sch, tx)[x] {
		return "C02-readd-after-blocked-blocker"
	}
	// a partially rejected auto transition is resolved a second time, with the rejected Auto
	// states (dropped by relations at first, or vetoed by their negotiation handlers) taken out of
	// the called list: the same hole, reached through that second resolution
	if tx.TI.IsAuto {
		vetoed := map[int]bool{}
		for _, h := range tx.HBefore {
			if tx.vetoes == nil || !tx.vetoes[h] {
				continue
			}
			p := strings.Split(h.HName, ":")
			var st int
			switch {
			case p[0] == "enter" && len(p) == 2:
				fmt.Sscan(p[1], &st)
				vetoed[st] = true
			case p[0] == "trans" && len(p) == 3:
				fmt.Sscan(p[2], &st)
				vetoed[st] = true
			}
		}
		inTarget := setOf(tx.TI.Target)
		var eff []int
		for _, c := range tx.TI.Called {
			if inTarget[c] && !vetoed[c] {
				eff = append(eff, c)
			}
		}
		if len(eff) != len(tx.TI.Called) {
			ti := *tx.TI
			ti.Called = eff
			tx2 := tx
			tx2.TI = &ti
			if !scanSurvivors(sch, tx2)[x] {
				return "C02-readd-after-blocked-blocker"
			}
		}
	}
	return ""
}
