package core

import (
	"strings"
)

// ParsedOut is an output line split into fields.
type ParsedOut struct {
	Raw    string
	Fields map[string]string
	Crash  bool
	Events []string
}

func ParseOut(line string) ParsedOut {
	p := ParsedOut{Raw: line, Fields: map[string]string{}}
	i := strings.Index(line, " log=")
	head := line
	if i >= 0 {
		head = line[:i]
		ev := strings.TrimSpace(line[i+5:])
		if ev != "" {
			p.Events = strings.Fields(ev)
		}
	}
	for _, t := range strings.Fields(head) {
		if t == "CRASH" {
			p.Crash = true
			continue
		}
		if j := strings.Index(t, "="); j > 0 {
			p.Fields[t[:j]] = t[j+1:]
		}
	}
	return p
}

func evKind(e string) string {
	if i := strings.Index(e, "("); i > 0 {
		return e[:i]
	}
	return e
}

func evArgs(e string) []string {
	i := strings.Index(e, "(")
	if i < 0 || !strings.HasSuffix(e, ")") {
		return nil
	}
	return strings.Split(e[i+1:len(e)-1], "|")
}

// Project reduces an output line to the observables a property talks about.
func Project(prop string, line string) string {
	if !strings.HasPrefix(line, "res=") {
		if prop == "C05" || prop == "all" || prop == "C11" || prop == "C06" || prop == "C13" || prop == "C04" {
			return line // includes topo, subscription answers
		}
		return "cfg"
	}
	p := ParseOut(line)
	f := p.Fields
	crash := ""
	if p.Crash {
		crash = " CRASH"
	}
	sel := func(kinds ...string) string {
		var out []string
		for _, e := range p.Events {
			k := evKind(e)
			for _, want := range kinds {
				if k == want {
					out = append(out, e)
				}
			}
		}
		return strings.Join(out, " ")
	}
	switch prop {
	case "C01":
		// results, activity, ticks, and the before/after times of transitions
		var times []string
		for _, e := range p.Events {
			a := evArgs(e)
			switch evKind(e) {
			case "TF":
				times = append(times, "TF("+a[0]+")")
			case "TE":
				times = append(times, "TE("+a[0]+"|"+a[1]+")")
			}
		}
		return "res=" + f["res"] + " act=" + f["act"] + " clk=" + f["clk"] + crash + " " + strings.Join(times, " ")
	case "C02":
		var tg []string
		for _, e := range p.Events {
			if evKind(e) == "TI" {
				a := evArgs(e)
				tg = append(tg, "T("+a[0]+"|"+a[4]+")")
			}
		}
		return "act=" + f["act"] + crash + " " + strings.Join(tg, " ")
	case "C03":
		return "res=" + f["res"] + " act=" + f["act"] + " clk=" + f["clk"] + " qt=" + f["qt"] + crash + " " + sel("N")
	case "C04":
		return "res=" + f["res"] + " qt=" + f["qt"] + " q=" + f["q"] + " cl=" + f["cl"] + crash + " " + sel("MQ", "TI", "QE", "N", "W")
	case "C05":
		return sel("H") + crash
	case "C07":
		var out []string
		for _, e := range p.Events {
			k := evKind(e)
			if k == "MQ" || k == "TI" {
				a := evArgs(e)
				out = append(out, k+"("+a[0]+")")
			}
			if k == "TE" {
				a := evArgs(e)
				out = append(out, "TE("+a[2]+"|"+a[3]+")")
			}
		}
		return "act=" + f["act"] + crash + " " + strings.Join(out, " ")
	case "C08":
		return "res=" + f["res"] + " act=" + f["act"] + " clk=" + f["clk"] + " ei=" + f["ei"] + crash + " " + sel("H", "MQ")
	case "C14":
		return sel("TI", "TS", "TF", "TE", "QE", "MQ") + crash
	case "C06":
		return "cl=" + f["cl"] + " xc=" + f["xc"] + " qt=" + f["qt"] + crash + " " + sel("W")
	case "C13":
		return "res=" + f["res"] + " act=" + f["act"] + " cl=" + f["cl"] + " xc=" + f["xc"] + crash
	}
	return line
}

// Disagreement between the model and the implementation on one case.
type Disagreement struct {
	CaseIdx int
	LineIdx int
	Line    string
	Impl    string
	Model   string
}

func Compare(prop string, idx int, c Case, impl []OpObs, model []string) *Disagreement {
	for i := range impl {
		a := Project(prop, impl[i].Out)
		b := ""
		if i < len(model) {
			b = Project(prop, model[i])
		}
		if a != b {
			return &Disagreement{CaseIdx: idx, LineIdx: i, Line: c.Lines[i], Impl: impl[i].Out, Model: model[i]}
		}
	}
	return nil
}
