package core

import (
	"fmt"
	"math/rand"
	"strings"
)

// GenOpts tunes the generator per property.
type GenOpts struct {
	MaxStates   int
	MaxOps      int
	Handlers    float64 // probability that a case binds handlers
	Faults      float64 // probability of a panic rule in a case with handlers
	Timeouts    float64 // probability of a timeout rule
	Nested      float64 // probability of nested mutations in a rule
	Checks      float64 // share of canadd/canremove ops
	Motifs      []string
	NoExcRel    bool
	Detach      float64 // probability of a handler that detaches a binding
	Subs        float64 // probability that a case uses subscriptions
	QueueSubs   bool    // bias subscriptions towards WhenQueue / WhenQueueEnds
	Dispose     float64 // probability that the case ends with a dispose + probes
	FinalFaults float64 // share of faults placed in State/End handlers
	WideOps     float64 // share of ops calling 3..4 states
}

var baseNames = []string{"A", "B", "C", "D", "F", "G", "H", "K"}

func pick(r *rand.Rand, n, k int, not int) []int {
	var out []int
	for tries := 0; tries < 4*k && len(out) < k; tries++ {
		v := r.Intn(n)
		if v == not {
			continue
		}
		dup := false
		for _, o := range out {
			if o == v {
				dup = true
			}
		}
		if !dup {
			out = append(out, v)
		}
	}
	return out
}

func contains(l []int, v int) bool {
	for _, x := range l {
		if x == v {
			return true
		}
	}
	return false
}

func without(l []int, v int) []int {
	var out []int
	for _, x := range l {
		if x != v {
			out = append(out, x)
		}
	}
	return out
}

// normalize applies what Schema.Parse would do, so that the generated schema
// is a fixpoint of Parse (Parse itself is corresponded separately).
func normalize(s *Schema) {
	for i := range s.Defs {
		d := &s.Defs[i]
		d.Remove = without(d.Remove, i)
		d.After = without(d.After, i)
		for _, a := range d.Add {
			d.Remove = without(d.Remove, a)
		}
		for _, q := range d.Require {
			d.Remove = without(d.Remove, q) // avoid require-remove conflicts
		}
	}
}

func GenSchema(r *rand.Rand, o GenOpts, motif string) *Schema {
	nUser := 1 + r.Intn(o.MaxStates)
	names := []string{}
	perm := r.Perm(len(baseNames))
	for i := 0; i < nUser && i < len(baseNames); i++ {
		names = append(names, baseNames[perm[i]])
	}
	if motif == "wide" {
		// more states than any small-size shortcut of a sort covers (13..18)
		names = nil
		for i, k := 0, 13+r.Intn(6); i < k; i++ {
			names = append(names, fmt.Sprintf("W%02d", i))
		}
		r.Shuffle(len(names), func(a, b int) { names[a], names[b] = names[b], names[a] })
	}
	nUser = len(names)
	excPos := r.Intn(nUser + 1)
	names = append(names[:excPos], append([]string{"Exception"}, names[excPos:]...)...)
	health := []int{}
	if r.Float64() < 0.08 && nUser >= 2 {
		// rename one user state to Healthcheck / Heartbeat
		i := r.Intn(len(names))
		if i != excPos {
			if r.Intn(2) == 0 {
				names[i] = "Healthcheck"
			} else {
				names[i] = "Heartbeat"
			}
			health = append(health, i)
		}
	}
	n := len(names)
	s := &Schema{Names: names, Exc: excPos, Health: health, Defs: make([]StateDef, n)}
	s.Defs[excPos].Multi = true
	users := []int{}
	for i := 0; i < n; i++ {
		if i != excPos {
			users = append(users, i)
		}
	}
	dens := []float64{0.08, 0.2, 0.35}[r.Intn(3)]
	rel := func(i int) []int {
		var out []int
		for j := 0; j < n; j++ {
			if j == excPos && (o.NoExcRel || r.Float64() < 0.8) {
				continue
			}
			if r.Float64() < dens {
				out = append(out, j)
			}
		}
		r.Shuffle(len(out), func(a, b int) { out[a], out[b] = out[b], out[a] })
		return out
	}
	for _, i := range users {
		d := &s.Defs[i]
		d.Auto = r.Float64() < 0.18
		d.Multi = r.Float64() < 0.12
		d.Require = rel(i)
		d.Add = rel(i)
		d.Remove = rel(i)
		d.After = rel(i)
		if r.Float64() < 0.5 {
			d.Require = without(d.Require, i)
		}
	}
	if r.Float64() < 0.15 {
		s.Defs[excPos].Remove = pick(r, n, 1+r.Intn(2), excPos)
	}
	switch motif {
	case "chain":
		p := r.Perm(len(users))
		for k := 0; k+1 < len(p); k++ {
			a, b := users[p[k]], users[p[k+1]]
			s.Defs[a].Add = append(without(s.Defs[a].Add, b), b)
			s.Defs[a].Require = nil
			s.Defs[b].Remove = without(s.Defs[b].Remove, a)
		}
	case "blocked":
		if len(users) >= 5 {
			p := r.Perm(len(users))
			S, A, B, C, D := users[p[0]], users[p[1]], users[p[2]], users[p[3]], users[p[4]]
			for _, x := range []int{S, A, B, C, D} {
				s.Defs[x] = StateDef{}
			}
			s.Defs[S].Add = []int{A}
			s.Defs[A].Remove = []int{B}
			s.Defs[C].Remove = []int{A}
			s.Defs[D].Remove = []int{C}
		}
	case "mutex":
		k := 2 + r.Intn(3)
		if k > len(users) {
			k = len(users)
		}
		p := r.Perm(len(users))
		grp := []int{}
		for i := 0; i < k; i++ {
			grp = append(grp, users[p[i]])
		}
		for _, g := range grp {
			for _, h := range grp {
				if g != h && !contains(s.Defs[g].Remove, h) {
					s.Defs[g].Remove = append(s.Defs[g].Remove, h)
				}
			}
			s.Defs[g].Require = nil
			if r.Float64() < 0.4 {
				s.Defs[g].Auto = true
			}
		}
	case "autos":
		for _, i := range users {
			if r.Float64() < 0.6 {
				s.Defs[i].Auto = true
			}
		}
	case "wide":
		// a sparse partial order: a few After and Require edges, nothing that removes
		for _, i := range users {
			s.Defs[i] = StateDef{}
		}
		for k := 0; k < 2+r.Intn(5); k++ {
			a, b := users[r.Intn(len(users))], users[r.Intn(len(users))]
			if a != b && !contains(s.Defs[b].After, a) && !contains(s.Defs[b].Require, a) {
				if r.Intn(3) == 0 {
					s.Defs[a].Require = append(s.Defs[a].Require, b)
				} else {
					s.Defs[a].After = append(s.Defs[a].After, b)
				}
			}
		}
	case "after":
		for _, i := range users {
			s.Defs[i].Remove = nil
			s.Defs[i].After = pick(r, n, r.Intn(3), i)
			if r.Float64() < 0.5 {
				s.Defs[i].Require = nil
			}
		}
	case "multi":
		for _, i := range users {
			if r.Float64() < 0.5 {
				s.Defs[i].Multi = true
			}
		}
	case "health":
		// one state named Heartbeat/Healthcheck plus several Auto states
		if len(users) >= 2 && len(s.Health) == 0 {
			h := users[r.Intn(len(users))]
			if r.Intn(2) == 0 {
				s.Names[h] = "Heartbeat"
			} else {
				s.Names[h] = "Healthcheck"
			}
			s.Health = []int{h}
			s.Defs[h] = StateDef{Multi: r.Intn(2) == 0}
			for _, i := range users {
				if i != h && r.Float64() < 0.6 {
					s.Defs[i].Auto = true
					s.Defs[i].Remove = without(s.Defs[i].Remove, h)
				}
			}
		}
	case "autoveto":
		for _, i := range users {
			if r.Float64() < 0.7 {
				s.Defs[i].Auto = true
				s.Defs[i].Require = nil
				s.Defs[i].Remove = nil
			}
		}
	case "sparse":
		for _, i := range users {
			if r.Float64() < 0.6 {
				s.Defs[i] = StateDef{Auto: s.Defs[i].Auto, Multi: s.Defs[i].Multi}
			}
		}
	}
	normalize(s)
	s.Alpha = ComputeAlpha(s.Names)
	return s
}

func hnamesFor(s *Schema, r *rand.Rand, k int) []string {
	n := len(s.Defs)
	var out []string
	for i := 0; i < k; i++ {
		a, b := r.Intn(n), r.Intn(n)
		switch r.Intn(9) {
		case 0, 1:
			out = append(out, fmt.Sprintf("enter:%d", a))
		case 2:
			out = append(out, fmt.Sprintf("exit:%d", a))
		case 3, 4:
			out = append(out, fmt.Sprintf("state:%d", a))
		case 5:
			out = append(out, fmt.Sprintf("end:%d", a))
		case 6:
			out = append(out, fmt.Sprintf("trans:%d:%d", a, b))
		case 7:
			out = append(out, fmt.Sprintf("trans:%d:%d", a, a))
		case 8:
			if r.Intn(2) == 0 {
				out = append(out, "anyenter")
			} else {
				out = append(out, "anystate")
			}
		}
	}
	return out
}

func genStatesWide(r *rand.Rand, n int) []int {
	k := 3 + r.Intn(2)
	var out []int
	for i := 0; i < k; i++ {
		out = append(out, r.Intn(n))
	}
	return out
}

func genStates(r *rand.Rand, n int) []int {
	k := 1
	x := r.Float64()
	if x > 0.55 {
		k = 2
	}
	if x > 0.85 {
		k = 3
	}
	var out []int
	for i := 0; i < k; i++ {
		out = append(out, r.Intn(n))
	}
	return out
}

// genSub produces one subscription request in protocol form.
func genSub(r *rand.Rand, s *Schema, ctxs []int, qtickHint int) string {
	n := len(s.Defs)
	ctx := "-"
	if len(ctxs) > 0 && r.Float64() < 0.35 {
		ctx = fmt.Sprint(ctxs[r.Intn(len(ctxs))])
	}
	distinct := func(k int) []int {
		p := r.Perm(n)
		if k > n {
			k = n
		}
		return p[:k]
	}
	if subBiasQueue && r.Intn(10) < 7 {
		if r.Intn(6) == 0 {
			return "whenqueueends"
		}
		return fmt.Sprintf("whenqueue:%d", qtickHint+r.Intn(4))
	}
	switch r.Intn(11) {
	case 0, 1:
		return fmt.Sprintf("when:%s:%s", showList(distinct(1+r.Intn(2))), ctx)
	case 2:
		return fmt.Sprintf("whennot:%s:%s", showList(distinct(1+r.Intn(2))), ctx)
	case 3:
		st := distinct(1 + r.Intn(2))
		var ts []int
		for range st {
			ts = append(ts, r.Intn(5))
		}
		return fmt.Sprintf("whentime:%s:%s:%s", showList(st), showList(ts), ctx)
	case 4:
		return fmt.Sprintf("whenticks:%d:%d:%s", r.Intn(n), 1+r.Intn(3), ctx)
	case 5:
		return fmt.Sprintf("whennext:%d:%s", r.Intn(n), ctx)
	case 6:
		return fmt.Sprintf("whenquery:%d:%d:%s", r.Intn(n), 1+r.Intn(5), ctx)
	case 7:
		return fmt.Sprintf("whenargs:%d:%d:%s", r.Intn(n), r.Intn(2), ctx)
	case 8:
		return fmt.Sprintf("whenqueue:%d", qtickHint+r.Intn(4))
	case 9:
		return "whenqueueends"
	}
	return fmt.Sprintf("statectx:%d", r.Intn(n))
}

// generation is single-threaded
var subBiasQueue bool

func GenCase(r *rand.Rand, o GenOpts) Case {
	subBiasQueue = o.QueueSubs
	motif := "random"
	if len(o.Motifs) > 0 {
		motif = o.Motifs[r.Intn(len(o.Motifs))]
	}
	s := GenSchema(r, o, motif)
	n := len(s.Defs)
	lines := []string{s.Line()}
	tag := motif
	if r.Float64() < 0.07 {
		lines = append(lines, fmt.Sprintf("limit %d", 1+r.Intn(3)))
		tag += "+limit"
	}
	if r.Float64() < o.Handlers {
		nb := 1 + r.Intn(3)
		lines = append(lines, fmt.Sprintf("bind %d", nb))
		tag += "+h"
		for b := 0; b < nb; b++ {
			hs := hnamesFor(s, r, 2+r.Intn(3*n))
			seen := map[string]bool{}
			for _, h := range hs {
				if seen[h] {
					continue
				}
				seen[h] = true
				act := "t"
				if !IsFinalHName(h) && r.Float64() < 0.25 {
					act = "f"
				}
				muts := ""
				if r.Float64() < o.Nested {
					kinds := []string{"add", "add", "remove", "set"}
					nm := 1 + r.Intn(2)
					for i := 0; i < nm; i++ {
						muts += fmt.Sprintf(" +%s:%s", kinds[r.Intn(len(kinds))], showList(genStates(r, n)))
						if r.Float64() < 0.2 {
							muts += "!"
						}
					}
				}
				// nested mutations only on a specific occurrence to keep cases finite
				if muts != "" {
					lines = append(lines, fmt.Sprintf("rule %d %s %d %s%s", b, h, r.Intn(2), act, muts))
					lines = append(lines, fmt.Sprintf("rule %d %s * %s", b, h, "t"))
				} else if act == "f" && r.Float64() < 0.5 {
					lines = append(lines, fmt.Sprintf("rule %d %s %d f", b, h, r.Intn(3)))
					lines = append(lines, fmt.Sprintf("rule %d %s * t", b, h))
				} else {
					lines = append(lines, fmt.Sprintf("rule %d %s * %s", b, h, act))
				}
			}
		}
		if nb >= 2 && r.Intn(4) == 0 {
			// final handlers bound as struct methods that return a value (odd bindings go through
			// structs when both State and End have a rule): what they return must not matter
			b := 1
			for k := 0; k < 1+r.Intn(3); k++ {
				i := r.Intn(n)
				lines = append(lines, fmt.Sprintf("rule %d state:%d * %s", b, i, []string{"f", "t"}[r.Intn(2)]))
				lines = append(lines, fmt.Sprintf("rule %d end:%d * %s", b, i, []string{"f", "f", "t"}[r.Intn(3)]))
			}
			tag += "+finalret"
		}
		if motif == "autoveto" {
			// several state-state / enter vetoes aimed at Auto states in one binding
			b := r.Intn(nb)
			for i := 0; i < n; i++ {
				if !s.Defs[i].Auto {
					continue
				}
				x := r.Intn(n)
				switch r.Intn(3) {
				case 0:
					lines = append(lines, fmt.Sprintf("rule %d trans:%d:%d * f", b, x, i))
				case 1:
					lines = append(lines, fmt.Sprintf("rule %d enter:%d * f", b, i))
				}
			}
		}
		if r.Float64() < o.Faults {
			b := r.Intn(nb)
			h := hnamesFor(s, r, 1)[0]
			if r.Float64() < o.FinalFaults {
				// a fault in a final handler, with the other final handlers defined
				// so that completion is observable
				if r.Intn(4) == 0 {
					h = fmt.Sprintf("end:%d", r.Intn(n))
				} else {
					h = fmt.Sprintf("state:%d", r.Intn(n))
				}
				for i := 0; i < n; i++ {
					lines = append(lines, fmt.Sprintf("rule %d state:%d * t", b, i))
					if r.Intn(2) == 0 {
						lines = append(lines, fmt.Sprintf("rule %d end:%d * t", b, i))
					}
				}
				tag += "+finalfault"
			}
			act := "panic"
			if r.Intn(3) == 0 {
				act = "panicstr"
			}
			lines = append(lines, fmt.Sprintf("rule %d %s %d %s", b, h, r.Intn(2), act))
			lines = append(lines, fmt.Sprintf("rule %d %s * t", b, h))
			tag += "+panic"
		}
		if r.Float64() < o.Detach && nb >= 2 {
			b := r.Intn(nb)
			h := hnamesFor(s, r, 1)[0]
			lines = append(lines, fmt.Sprintf("rule %d %s %d detach:%d", b, h, r.Intn(2), r.Intn(nb)))
			lines = append(lines, fmt.Sprintf("rule %d %s * t", b, h))
			tag += "+detach"
		}
		if r.Float64() < o.Timeouts {
			b := r.Intn(nb)
			h := hnamesFor(s, r, 1)[0]
			lines = append(lines, fmt.Sprintf("rule %d %s %d timeout", b, h, r.Intn(2)))
			lines = append(lines, fmt.Sprintf("rule %d %s * t", b, h))
			tag += "+timeout"
		}
	}
	useSubs := r.Float64() < o.Subs
	var ctxs []int
	nextId := 1
	qhint := 2
	if useSubs {
		tag += "+subs"
		// subscriptions from inside final handlers: the point between
		// setActiveStates and processSubscriptions
		if r.Float64() < 0.5 {
			nb := 1
			has := false
			for _, l := range lines {
				if strings.HasPrefix(l, "bind ") {
					has = true
					fmt.Sscan(l[5:], &nb)
				}
			}
			if !has {
				lines = append(lines, "bind 1")
			}
			b := r.Intn(nb)
			k := 1 + r.Intn(2)
			for j := 0; j < k; j++ {
				h := fmt.Sprintf("state:%d", r.Intn(n))
				if r.Intn(3) == 0 {
					h = fmt.Sprintf("end:%d", r.Intn(n))
				}
				// ids inside handlers are assigned at run time, keep them context-free
				lines = append(lines, fmt.Sprintf("rule %d %s %d t ~%s", b, h, r.Intn(2), genSub(r, s, nil, qhint)))
				lines = append(lines, fmt.Sprintf("rule %d %s * t", b, h))
			}
			tag += "+hsubs"
		}
	}
	nops := 3 + r.Intn(o.MaxOps)
	if useSubs && r.Intn(6) == 0 {
		// a context-bound waiter that is served by a match, then another waiter on the same state
		// alone, then the first one's context ends: the second must still be woken
		x := r.Intn(n)
		y := r.Intn(n)
		k := nextId
		nextId++
		ctxs = append(ctxs, k)
		kind := []string{"when", "whennot"}[r.Intn(2)]
		first, second := "add", "remove"
		if kind == "whennot" {
			first, second = "remove", "add"
			lines = append(lines, fmt.Sprintf("add %d", x))
		}
		lines = append(lines, "ctx new", fmt.Sprintf("sub %s:%d:%d", kind, x, k),
			fmt.Sprintf("%s %d", first, x), fmt.Sprintf("%s %d", second, x),
			fmt.Sprintf("sub %s:%d:-", kind, x), fmt.Sprintf("ctx cancel %d", k),
			fmt.Sprintf("add %d", y), fmt.Sprintf("%s %d", first, x))
		tag += "+ctxserved"
		qhint += 5
	}
	if useSubs && n >= 4 && r.Intn(8) == 0 {
		// one context shared by two WhenTime waiters, the one over two states is served first, the
		// context ends, transitions that leave the other waiter's state alone run: it is released by
		// its context
		p := r.Perm(n)
		k := nextId
		nextId++
		ctxs = append(ctxs, k)
		lines = append(lines, "ctx new", fmt.Sprintf("sub whentime:%d,%d:1,1:%d", p[0], p[1], k), fmt.Sprintf("sub whentime:%d:9:%d", p[2], k),
			fmt.Sprintf("add %d", p[0]), fmt.Sprintf("add %d", p[1]), fmt.Sprintf("ctx cancel %d", k), fmt.Sprintf("add %d", p[3]), fmt.Sprintf("remove %d", p[0]))
		tag += "+ctxshared"
		qhint += 5
	}
	if useSubs && n >= 2 && r.Intn(8) == 0 {
		// When and WhenNot over the same two states with the same context, the set partly active
		p := r.Perm(n)
		c := "-"
		if len(ctxs) > 0 && r.Intn(2) == 0 {
			c = fmt.Sprint(ctxs[0])
		}
		lines = append(lines, fmt.Sprintf("remove %d,%d", p[0], p[1]), fmt.Sprintf("add %d", p[0]), fmt.Sprintf("sub when:%d,%d:%s", p[0], p[1], c), fmt.Sprintf("sub whennot:%d,%d:%s", p[0], p[1], c),
			fmt.Sprintf("add %d", p[1]), fmt.Sprintf("remove %d", p[0]), fmt.Sprintf("remove %d", p[1]))
		tag += "+polarity"
		qhint += 6
	}
	for i := 0; i < nops; i++ {
		if useSubs && r.Float64() < 0.45 {
			switch {
			case r.Float64() < 0.2 && nextId < 40:
				lines = append(lines, "ctx new")
				ctxs = append(ctxs, nextId)
				nextId++
			case len(ctxs) > 0 && r.Float64() < 0.15:
				lines = append(lines, fmt.Sprintf("ctx cancel %d", ctxs[r.Intn(len(ctxs))]))
			default:
				lines = append(lines, "sub "+genSub(r, s, ctxs, qhint))
			}
		}
		qhint++
		st := showList(genStates(r, n))
		if r.Float64() < o.WideOps {
			st = showList(genStatesWide(r, n))
		}
		if motif == "wide" && r.Intn(3) != 0 {
			// (nearly) every state in one mutation
			all := r.Perm(n)
			if r.Intn(2) == 0 && n > 14 {
				all = all[:13+r.Intn(n-13)]
			}
			st = showList(all)
		}
		if len(s.Health) > 0 && r.Float64() < 0.35 {
			hs := []int{s.Health[0]}
			if r.Float64() < 0.6 {
				hs = append(hs, r.Intn(n))
			}
			lines = append(lines, "add "+showList(hs))
			continue
		}
		x := r.Float64()
		switch {
		case x < o.Checks/2:
			lines = append(lines, "canadd "+st)
			if r.Intn(2) == 0 {
				// the check, then the very mutation it was asked about
				lines = append(lines, "add "+st)
			}
		case x < o.Checks:
			lines = append(lines, "canremove "+st)
			if r.Intn(2) == 0 {
				lines = append(lines, "remove "+st)
			}
		case x < o.Checks+0.05:
			lines = append(lines, "adderr")
		case x < o.Checks+0.10:
			lines = append(lines, "toggle "+st)
		case x < o.Checks+0.13:
			lines = append(lines, "add! "+st)
		case x < o.Checks+0.15:
			if r.Intn(2) == 0 {
				lines = append(lines, "backoff 1")
			} else {
				lines = append(lines, "backoff 0")
			}
		case x < o.Checks+0.50:
			lines = append(lines, "add "+st)
		case x < o.Checks+0.72:
			lines = append(lines, "remove "+st)
		default:
			lines = append(lines, "set "+st)
		}
	}
	if r.Float64() < o.Dispose {
		lines = append(lines, "dispose")
		tag += "+dispose"
		for k := 0; k < 3; k++ {
			st := showList(genStates(r, n))
			switch r.Intn(5) {
			case 0:
				lines = append(lines, "add "+st)
			case 1:
				lines = append(lines, "remove "+st)
			case 2:
				lines = append(lines, "canadd "+st)
			case 3:
				lines = append(lines, "sub "+genSub(r, s, nil, qhint))
			default:
				lines = append(lines, "set "+st)
			}
		}
	}
	return Case{Lines: lines, Tag: tag}
}

func (c Case) String() string { return strings.Join(c.Lines, "\n") }
