package core

import (
	"context"
	"errors"
	"fmt"
	"strconv"
	"strings"
	"sync"
	"time"

	am "github.com/pancsta/asyncmachine-go/pkg/machine"
)

type rule struct {
	bind int
	name string // protocol form
	nth  int    // -1 = any
	act  string
	muts []mutReq
	subs []string
}

type mutReq struct {
	kind    string
	states  []int
	hasArgs bool
}

// OpObs is what the harness observed on the real machine for one op line;
// monitors work on these.
type OpObs struct {
	Line     string
	Res      am.Result
	ResStr   string
	Active   []int
	Clock    []uint64
	QTick    uint64
	QLen     int
	Crash    string
	Events   []Event
	EI       int
	Views    *Views
	IsOp     bool
	IsSub    bool
	Closed   []int
	Canceled []int
	Out      string // canonical output line
	// ArgNote: the call changed the list of states it was given (a history kept by the caller)
	ArgNote string
}

type Event struct {
	Kind string // H TI TS TF TE MQ QE
	// handler
	Bind  int
	HName string
	// shared
	Active []int
	// tx
	MutKind                  string
	Called                   []int
	IsAuto, IsCheck, HasArgs bool
	QTickMut                 uint64
	Before                   []int
	TB, TA                   []uint64
	Target                   []int
	Acc                      bool
	QLen                     int
	ResStr                   string
}

func (e *Event) mutStr() string {
	b := func(x bool) string {
		if x {
			return "1"
		}
		return "0"
	}
	return fmt.Sprintf("%s:%s:%s%s%s:%d", e.MutKind, showList(e.Called),
		b(e.IsAuto), b(e.IsCheck), b(e.HasArgs), e.QTickMut)
}

func (e *Event) String() string {
	b := func(x bool) string {
		if x {
			return "1"
		}
		return "0"
	}
	switch e.Kind {
	case "H":
		return fmt.Sprintf("H(%d|%s|%s)", e.Bind, e.HName, showList(e.Active))
	case "TI":
		return fmt.Sprintf("TI(%s|%s|%s|%s|%s|%s)", e.mutStr(), showList(e.Before),
			showU64(e.TB), showU64(e.TA), showList(e.Target), b(e.Acc))
	case "TS":
		return fmt.Sprintf("TS(%s)", b(e.Acc))
	case "TF":
		return fmt.Sprintf("TF(%s|%s)", showU64(e.TA), showList(e.Active))
	case "TE":
		return fmt.Sprintf("TE(%s|%s|%s|%s|%d)", showU64(e.TB), showU64(e.TA),
			b(e.Acc), showList(e.Active), e.QLen)
	case "MQ":
		return fmt.Sprintf("MQ(%s)", e.mutStr())
	case "QE":
		return "QE"
	case "N":
		return fmt.Sprintf("N(%s:%s:%s|%d|%s)", e.MutKind, showList(e.Called), b(e.HasArgs), e.QLen, e.ResStr)
	case "W":
		return fmt.Sprintf("W(%s|%s)", e.HName, e.ResStr)
	}
	return "?"
}

// Views are the redundant getters compared by the C01 monitor.
type Views struct {
	IsEach    []bool
	NotEach   []bool
	AnyEach   []bool
	Ticks     []uint64
	Time      []uint64
	ClockMap  []uint64
	StringOut string
	ActiveSub []int
}

type Runner struct {
	Sch    *Schema
	M      *am.Machine
	mx     sync.Mutex
	events []Event
	rules  []rule
	counts map[string]int
	nbind  int
	bound  int
	// physical bindings beyond "b<k>" that belong to logical binding k
	extraBind map[int][]string
	Timeout   time.Duration
	cancel    context.CancelFunc
	tracerN   int
	// subscriptions
	chans   []<-chan struct{} // index = id (0 unused)
	kinds   []string          // "ch" | "ctx" | "sctx"
	ctxs    map[int]context.Context
	cancels map[int]context.CancelFunc
	nextId  int
	nctx    int
	uctx    map[int]context.Context
}

type recTracer struct {
	*am.TracerNoOp
	r *Runner
}

func (r *Runner) idx(names am.S) []int {
	out := make([]int, 0, len(names))
	for _, n := range names {
		found := -1
		for i, x := range r.Sch.Names {
			if x == n {
				found = i
				break
			}
		}
		out = append(out, found)
	}
	return out
}

func (r *Runner) names(idx []int) am.S {
	out := make(am.S, 0, len(idx))
	for _, i := range idx {
		if i >= 0 && i < len(r.Sch.Names) {
			out = append(out, r.Sch.Names[i])
		} else {
			out = append(out, "Unknown"+strconv.Itoa(i))
		}
	}
	return out
}

func (r *Runner) push(e Event) {
	r.mx.Lock()
	r.events = append(r.events, e)
	r.mx.Unlock()
}

func kindStr(t am.MutationType) string {
	switch t {
	case am.MutationAdd:
		return "add"
	case am.MutationRemove:
		return "remove"
	case am.MutationSet:
		return "set"
	}
	return "eval"
}

func (r *Runner) mutEv(kind string, mut *am.Mutation) Event {
	return Event{Kind: kind, MutKind: kindStr(mut.Type),
		Called: append([]int(nil), mut.Called...), IsAuto: mut.IsAuto,
		IsCheck: mut.IsCheck, HasArgs: len(mut.Args) > 0, QTickMut: mut.QueueTick}
}

func (t *recTracer) TransitionInit(tx *am.Transition) {
	e := t.r.mutEv("TI", tx.Mutation)
	e.Before = t.r.idx(tx.StatesBefore())
	e.TB = append([]uint64(nil), tx.TimeBefore...)
	e.TA = append([]uint64(nil), tx.TimeAfter...)
	e.Target = t.r.idx(tx.TargetStates())
	e.Acc = tx.IsAccepted.Load()
	t.r.push(e)
}

func (t *recTracer) TransitionStart(tx *am.Transition) {
	t.r.push(Event{Kind: "TS", Acc: tx.IsAccepted.Load()})
}

func (t *recTracer) TransitionFinals(tx *am.Transition) {
	t.r.push(Event{Kind: "TF", TA: append([]uint64(nil), tx.TimeAfter...),
		Active: t.r.idx(tx.Machine.ActiveStates(nil))})
}

func (t *recTracer) TransitionEnd(tx *am.Transition) {
	t.r.push(Event{Kind: "TE", TB: append([]uint64(nil), tx.TimeBefore...),
		TA: append([]uint64(nil), tx.TimeAfter...), Acc: tx.IsAccepted.Load(),
		Active: t.r.idx(tx.Machine.ActiveStates(nil)), QLen: int(tx.QueueLen)})
}

func (t *recTracer) MutationQueued(m am.Api, mut *am.Mutation) {
	if kindStr(mut.Type) == "eval" {
		return
	}
	t.r.push(t.r.mutEv("MQ", mut))
}

func (t *recTracer) QueueEnd(m am.Api) { t.r.push(Event{Kind: "QE"}) }

// NewRunner builds the real machine for a schema line.
func NewRunner(sch *Schema, timeout time.Duration) (*Runner, error) {
	return NewRunnerId(sch, timeout, "vm")
}

// NewRunnerId: NewRunner with a chosen machine id (several machines, one debugger).
func NewRunnerId(sch *Schema, timeout time.Duration, id string) (*Runner, error) {
	return NewRunnerSchema(sch, timeout, id, nil)
}

// AmSchema builds the am.Schema value of a generated schema.
func AmSchema(sch *Schema) am.Schema {
	r := &Runner{Sch: sch}
	schema := am.Schema{}
	for i, d := range sch.Defs {
		schema[sch.Names[i]] = am.State{Auto: d.Auto, Multi: d.Multi,
			Require: r.namesNil(d.Require), Add: r.namesNil(d.Add),
			Remove: r.namesNil(d.Remove), After: r.namesNil(d.After)}
	}
	return schema
}

// NewRunnerSchema: a runner over a given am.Schema value (nil: a fresh one). Several machines made
// from one Schema value is the library's idiom (package-level schema variables).
func NewRunnerSchema(sch *Schema, timeout time.Duration, id string, schema am.Schema) (*Runner, error) {
	r := &Runner{Sch: sch, counts: map[string]int{}, extraBind: map[int][]string{}, Timeout: timeout,
		ctxs: map[int]context.Context{}, cancels: map[int]context.CancelFunc{}, uctx: map[int]context.Context{}}
	if schema == nil {
		schema = AmSchema(sch)
	}
	ctx, cancel := context.WithCancel(context.Background())
	r.cancel = cancel
	tr := &recTracer{TracerNoOp: &am.TracerNoOp{Id: "verif"}, r: r}
	m := am.New(ctx, schema, &am.Opts{Id: id, HandlerTimeout: timeout,
		DontLogStackTrace: true, Tracers: []am.Tracer{tr}})
	if err := m.VerifyStates(am.S(sch.Names)); err != nil {
		cancel()
		return nil, err
	}
	r.M = m
	return r, nil
}

func (r *Runner) namesNil(idx []int) am.S {
	if len(idx) == 0 {
		return nil
	}
	return r.names(idx)
}

func (r *Runner) Close() {
	r.cancel()
	return
}

func (r *Runner) closeForce() {
	done := make(chan struct{})
	go func() {
		defer func() { recover(); close(done) }()
		r.M.DisposeForce()
	}()
	select {
	case <-done:
	case <-time.After(2 * time.Second):
	}
	r.cancel()
}

func (r *Runner) behaviourFull(bind int, name string) (string, []mutReq, []string) {
	key := strconv.Itoa(bind) + "/" + name
	r.mx.Lock()
	n := r.counts[key]
	r.counts[key] = n + 1
	r.mx.Unlock()
	var anyRule *rule
	for i := range r.rules {
		ru := &r.rules[i]
		if ru.bind != bind || ru.name != name {
			continue
		}
		if ru.nth == n {
			return ru.act, ru.muts, ru.subs
		}
		if ru.nth == -1 && anyRule == nil {
			anyRule = ru
		}
	}
	if anyRule != nil {
		return anyRule.act, anyRule.muts, anyRule.subs
	}
	return "t", nil, nil
}

func (r *Runner) behaviour(bind int, name string) (string, []mutReq) {
	key := strconv.Itoa(bind) + "/" + name
	r.mx.Lock()
	n := r.counts[key]
	r.counts[key] = n + 1
	r.mx.Unlock()
	var anyRule *rule
	for i := range r.rules {
		ru := &r.rules[i]
		if ru.bind != bind || ru.name != name {
			continue
		}
		if ru.nth == n {
			return ru.act, ru.muts
		}
		if ru.nth == -1 && anyRule == nil {
			anyRule = ru
		}
	}
	if anyRule != nil {
		return anyRule.act, anyRule.muts
	}
	return "t", nil
}

func (r *Runner) issue(q mutReq) am.Result {
	var args am.A
	if q.hasArgs {
		args = am.A{"x": 1}
	}
	st := r.names(q.states)
	switch q.kind {
	case "add":
		return r.M.Add(st, args)
	case "remove":
		return r.M.Remove(st, args)
	case "set":
		return r.M.Set(st, args)
	}
	return am.Canceled
}

func (r *Runner) runHandler(bind int, name string, e *am.Event) bool {
	act, muts, subs := r.behaviourFull(bind, name)
	r.push(Event{Kind: "H", Bind: bind, HName: name,
		Active: r.idx(e.Machine().ActiveStates(nil))})
	defer func() {
		// (subscriptions are issued after the mutations, before returning)
	}()
	_ = subs
	for _, q := range muts {
		ql := int(r.M.QueueLen())
		res := r.issue(q)
		r.push(Event{Kind: "N", MutKind: q.kind, Called: q.states, HasArgs: q.hasArgs, QLen: ql, ResStr: resStr(res)})
	}
	for _, sreq := range subs {
		out := r.doSub(sreq)
		r.push(Event{Kind: "W", HName: sreq, ResStr: out})
	}
	if strings.HasPrefix(act, "detach:") {
		r.M.HandlersDetach("b" + act[7:])
		if d, err := strconv.Atoi(act[7:]); err == nil {
			for _, id := range r.extraBind[d] {
				r.M.HandlersDetach(id)
			}
		}
		return true
	}
	switch act {
	case "f":
		return false
	case "panic":
		panic(errors.New("verif-panic"))
	case "panicstr":
		panic("verif-panic-str")
	case "timeout":
		time.Sleep(r.Timeout + r.Timeout/2)
		return true
	}
	return true
}

// bindAll binds the handler maps once all rule lines are known.
func (r *Runner) bindAll() error {
	for b := r.bound; b < r.nbind; b++ {
		neg := map[string]am.HandlerNegotiation{}
		fin := map[string]am.HandlerFinal{}
		seen := map[string]bool{}
		// states whose State / End handlers go through a struct with returning methods: both of
		// them must have a rule (a struct brings both methods), odd bindings only
		viaStruct := map[int]bool{}
		if b%2 == 1 {
			has := map[string]bool{}
			for _, ru := range r.rules {
				if ru.bind == b {
					has[ru.name] = true
				}
			}
			for i, nm := range r.Sch.Names {
				if has["state:"+strconv.Itoa(i)] && has["end:"+strconv.Itoa(i)] && structFor(nm, finBase{}) != nil {
					viaStruct[i] = true
				}
			}
		}
		for _, ru := range r.rules {
			if ru.bind != b || seen[ru.name] {
				continue
			}
			seen[ru.name] = true
			name, bb := ru.name, b
			if p := strings.Split(name, ":"); len(p) == 2 && (p[0] == "state" || p[0] == "end") {
				if i, err := strconv.Atoi(p[1]); err == nil && viaStruct[i] {
					continue
				}
			}
			gname := HNameToGo(name, r.Sch.Names)
			if IsFinalHName(name) {
				fin[gname] = func(e *am.Event) { r.runHandler(bb, name, e) }
			} else {
				neg[gname] = func(e *am.Event) bool { return r.runHandler(bb, name, e) }
			}
		}
		if _, err := r.M.HandlersBindMaps(neg, fin, am.BindOpts{Id: "b" + strconv.Itoa(b)}); err != nil {
			return err
		}
		for i := range r.Sch.Names {
			if !viaStruct[i] {
				continue
			}
			hs := structFor(r.Sch.Names[i], finBase{r: r, bind: b, idx: i})
			id := "b" + strconv.Itoa(b) + "-" + r.Sch.Names[i]
			if _, err := r.M.HandlersBind(hs, am.BindOpts{Id: id}); err != nil {
				return err
			}
			r.extraBind[b] = append(r.extraBind[b], id)
		}
		r.bound = b + 1
	}
	return nil
}

func resStr(res am.Result) string {
	switch res {
	case am.Executed:
		return "executed"
	case am.Canceled:
		return "canceled"
	}
	return "queued:" + strconv.FormatUint(uint64(res), 10)
}

// Step executes one non-schema line on the real machine.
func (r *Runner) Step(line string) (obs OpObs) {
	obs.Line = line
	toks := strings.Fields(line)
	if len(toks) == 0 {
		obs.Out = "bad-op"
		return
	}
	switch toks[0] {
	case "bind":
		r.nbind, _ = strconv.Atoi(toks[1])
		obs.Out = "ok"
		return
	case "rule":
		if len(toks) < 5 {
			obs.Out = "bad-op"
			return
		}
		ru := rule{name: toks[2], act: toks[4]}
		ru.bind, _ = strconv.Atoi(toks[1])
		if toks[3] == "*" {
			ru.nth = -1
		} else {
			ru.nth, _ = strconv.Atoi(toks[3])
		}
		for _, mt := range toks[5:] {
			if strings.HasPrefix(mt, "~") {
				ru.subs = append(ru.subs, mt[1:])
				continue
			}
			mt = strings.TrimPrefix(mt, "+")
			q := mutReq{}
			if strings.HasSuffix(mt, "!") {
				q.hasArgs = true
				mt = strings.TrimSuffix(mt, "!")
			}
			p := strings.SplitN(mt, ":", 2)
			q.kind = p[0]
			if len(p) > 1 {
				q.states = parseList(p[1])
			}
			ru.muts = append(ru.muts, q)
		}
		r.rules = append(r.rules, ru)
		obs.Out = "ok"
		return
	case "limit":
		v, _ := strconv.Atoi(toks[1])
		r.M.QueueLimit = uint16(v)
		obs.Out = "ok"
		return
	case "backoff":
		if toks[1] == "1" {
			now := time.Now()
			r.M.LastHandlerDeadline.Store(&now)
		} else {
			r.M.LastHandlerDeadline.Store(nil)
		}
		obs.Out = "ok"
		return
	case "fuel":
		obs.Out = "ok"
		return
	case "sub":
		if err := r.bindAll(); err != nil {
			obs.Out = "bind-error"
			return
		}
		out := r.doSub(toks[1])
		obs.Out = "ch=" + out + " " + r.subState()
		obs.IsSub = true
		return
	case "ctx":
		if toks[1] == "new" {
			r.nctx++
			id := r.nctx
			c, cancel := context.WithCancel(context.Background())
			r.uctx[id], r.cancels[id] = c, cancel
			obs.Out = "ctx=" + strconv.Itoa(id)
		} else if len(toks) > 2 {
			id, _ := strconv.Atoi(toks[2])
			if cn, ok := r.cancels[id]; ok {
				cn()
			}
			obs.Out = "ok"
		}
		return
	case "dispose":
		done := make(chan struct{})
		go func() {
			defer func() { recover(); close(done) }()
			r.M.DisposeForce()
		}()
		select {
		case <-done:
		case <-time.After(5 * time.Second):
		}
		obs.Out = "disposed " + r.subState()
		obs.IsSub = true
		return
	}
	// operations
	if err := r.bindAll(); err != nil {
		obs.Out = "bind-error"
		return
	}
	obs.IsOp = true
	r.mx.Lock()
	r.events = nil
	r.mx.Unlock()
	var st, stOrig am.S
	const spare = "\x00spare"
	if len(toks) > 1 {
		// the list is a sub-slice of a longer one the caller keeps (a history, a package-level list):
		// what lies behind it is the caller's too
		base := r.names(parseList(toks[1]))
		stOrig = base
		st = make(am.S, len(base), len(base)+6)
		copy(st, base)
		for i := len(base); i < cap(st); i++ {
			st[:cap(st)][i] = spare
		}
	}
	defer func() {
		if st == nil {
			return
		}
		full := st[:cap(st)]
		for i := range full {
			want := spare
			if i < len(stOrig) {
				want = stOrig[i]
			}
			if full[i] != want {
				obs.ArgNote = fmt.Sprintf("position %d of the caller's list became %q (the call was given %v, with the caller's own entries behind it)", i, full[i], stOrig)
				return
			}
		}
	}()
	done := make(chan struct{})
	var res am.Result
	var crash string
	isOp := true
	go func() {
		defer close(done)
		defer func() {
			if p := recover(); p != nil {
				crash = "panic: " + fmt.Sprint(p)
			}
		}()
		obs := &struct {
			Res  am.Result
			IsOp bool
		}{IsOp: true}
		defer func() { res, isOp = obs.Res, obs.IsOp }()
		args := am.A{"x": 1}
		switch toks[0] {
		case "add":
			obs.Res = r.M.Add(st, nil)
		case "remove":
			obs.Res = r.M.Remove(st, nil)
		case "set":
			obs.Res = r.M.Set(st, nil)
		case "add!":
			obs.Res = r.M.Add(st, args)
		case "remove!":
			obs.Res = r.M.Remove(st, args)
		case "set!":
			obs.Res = r.M.Set(st, args)
		case "toggle":
			obs.Res = r.M.Toggle(st, nil)
		case "canadd":
			obs.Res = r.M.CanAdd(st, nil)
		case "canremove":
			obs.Res = r.M.CanRemove(st, nil)
		case "adderr":
			obs.Res = r.M.AddErr(errors.New("verif-err"), nil)
		default:
			obs.IsOp = false
		}
	}()
	select {
	case <-done:
		obs.Res, obs.Crash, obs.IsOp = res, crash, isOp
	case <-time.After(r.Timeout + 20*time.Second):
		// the call never returned: the machine is wedged
		obs.Crash = "hang"
		obs.Out = "res=canceled HANG"
		return
	}
	if !obs.IsOp {
		obs.Out = "bad-op"
		return
	}
	// errInternal drain
drainEI:
	for {
		select {
		case _, ok := <-r.M.ErrInternal():
			if !ok {
				break drainEI // closed by dispose
			}
			obs.EI++
			continue
		default:
		}
		break
	}
	obs.ResStr = resStr(obs.Res)
	if obs.Crash != "" {
		obs.ResStr = "canceled"
	}
	obs.Active = r.idx(r.M.ActiveStates(nil))
	obs.Clock = r.M.Time(nil)
	obs.QTick = r.M.QueueTick()
	obs.QLen = int(r.M.QueueLen())
	r.mx.Lock()
	obs.Events = append([]Event(nil), r.events...)
	r.mx.Unlock()
	if obs.Crash == "" {
		obs.Views = r.views()
	}
	evs := make([]string, len(obs.Events))
	for i := range obs.Events {
		evs[i] = obs.Events[i].String()
	}
	crashTag := ""
	if obs.Crash != "" {
		crashTag = " CRASH"
	}
	obs.Closed, obs.Canceled = r.closedIds()
	obs.Out = fmt.Sprintf("res=%s act=%s clk=%s qt=%d q=%d ei=%d%s cl=%s xc=%s log=%s",
		obs.ResStr, showList(obs.Active), showU64(obs.Clock), obs.QTick,
		obs.QLen, obs.EI, crashTag, showList(obs.Closed), showList(obs.Canceled), strings.Join(evs, " "))
	return
}

func (r *Runner) views() *Views {
	v := &Views{}
	m := r.M
	n := len(r.Sch.Names)
	clock := m.Clock(nil)
	for i := 0; i < n; i++ {
		nm := r.Sch.Names[i]
		v.IsEach = append(v.IsEach, m.Is1(nm))
		v.NotEach = append(v.NotEach, m.Not1(nm))
		v.AnyEach = append(v.AnyEach, m.Any1(nm))
		v.Ticks = append(v.Ticks, m.Tick(nm))
		v.ClockMap = append(v.ClockMap, clock[nm])
	}
	v.Time = m.Time(nil)
	v.StringOut = m.String()
	v.ActiveSub = r.idx(m.ActiveStates(am.S(r.Sch.Names)))
	return v
}

func (r *Runner) allocId(kind string) int {
	if r.nextId == 0 {
		r.nextId = 1
		r.chans = []<-chan struct{}{nil}
		r.kinds = []string{""}
	}
	id := r.nextId
	r.nextId++
	r.chans = append(r.chans, nil)
	r.kinds = append(r.kinds, kind)
	return id
}

func (r *Runner) ctxArg(s string) context.Context {
	if s == "-" || s == "" {
		return nil
	}
	id, _ := strconv.Atoi(s)
	return r.uctx[id]
}

func isClosed(ch <-chan struct{}) bool {
	select {
	case <-ch:
		return true
	default:
		return false
	}
}

// regChan maps a returned channel to its id ("c" = already closed and unknown).
func (r *Runner) regChan(ch <-chan struct{}) string {
	r.mx.Lock()
	defer r.mx.Unlock()
	for id := 1; id < len(r.chans); id++ {
		if r.kinds[id] == "ch" && r.chans[id] == ch {
			return strconv.Itoa(id)
		}
	}
	if isClosed(ch) {
		return "c"
	}
	id := r.allocId("ch")
	r.chans[id] = ch
	return strconv.Itoa(id)
}

// doSub executes a subscription request in protocol form.
func (r *Runner) doSub(req string) (out string) {
	defer func() {
		if p := recover(); p != nil {
			out = "PANIC"
		}
	}()
	p := strings.Split(req, ":")
	m := r.M
	one := func(i int) string { return r.names([]int{i})[0] }
	atoi := func(s string) int { v, _ := strconv.Atoi(s); return v }
	switch p[0] {
	case "when":
		return r.regChan(m.When(r.names(parseList(p[1])), r.ctxArg(p[2])))
	case "whennot":
		return r.regChan(m.WhenNot(r.names(parseList(p[1])), r.ctxArg(p[2])))
	case "whentime":
		var tt am.Time
		for _, v := range parseList(p[2]) {
			tt = append(tt, uint64(v))
		}
		return r.regChan(m.WhenTime(r.names(parseList(p[1])), tt, r.ctxArg(p[3])))
	case "whenticks":
		return r.regChan(m.WhenTicks(one(atoi(p[1])), atoi(p[2]), r.ctxArg(p[3])))
	case "whennext":
		return r.regChan(m.WhenNextActive(one(atoi(p[1])), r.ctxArg(p[2])))
	case "whenquery":
		st, mt := one(atoi(p[1])), uint64(atoi(p[2]))
		return r.regChan(m.WhenQuery(func(c am.Clock) bool { return c[st] >= mt }, r.ctxArg(p[3])))
	case "whenargs":
		args := am.A{}
		if p[2] == "1" {
			args["x"] = 1
		}
		return r.regChan(m.WhenArgs(one(atoi(p[1])), args, r.ctxArg(p[3])))
	case "whenqueue":
		return r.regChan(m.WhenQueue(am.Result(atoi(p[1]))))
	case "whenqueueends":
		return r.regChan(m.WhenQueueEnds())
	case "statectx":
		c := m.NewStateCtx(one(atoi(p[1])))
		r.mx.Lock()
		defer r.mx.Unlock()
		for id, cc := range r.ctxs {
			if r.kinds[id] == "sctx" && cc == c {
				return strconv.Itoa(id)
			}
		}
		if m.IsDisposed() {
			return "c"
		}
		id := r.allocId("sctx")
		r.ctxs[id] = c
		return strconv.Itoa(id)
	}
	return "bad"
}

func (r *Runner) closedIds() ([]int, []int) {
	r.mx.Lock()
	defer r.mx.Unlock()
	var cl, xc []int
	for id := 1; id < len(r.chans); id++ {
		switch r.kinds[id] {
		case "ch":
			if isClosed(r.chans[id]) {
				cl = append(cl, id)
			}
		case "sctx":
			if r.ctxs[id].Err() != nil {
				xc = append(xc, id)
			}
		}
	}
	return cl, xc
}

func (r *Runner) subState() string {
	cl, xc := r.closedIds()
	return "cl=" + showList(cl) + " xc=" + showList(xc)
}
