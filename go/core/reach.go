package core

// C19: "from the empty machine, no sequence of single-state Add and Remove mutations can reach an
// active set that breaks Require closure or activates two members of a group whose members Remove
// one another ... enumerated exhaustively by breadth-first search using the real machine as the
// transition function". One real machine per schema; every visited active set is restored with
// Import (ticks = parities), every Add1 / Remove1 is applied to it.

import (
	"context"
	"fmt"
	"sort"
	"strings"

	am "github.com/pancsta/asyncmachine-go/pkg/machine"
)

type ReachResult struct {
	Visited   int
	Exhausted bool
	Failures  []string
}

// RawState: a state definition as written in the source (names), before Schema.Parse.
type RawState struct {
	Auto, Multi                 bool
	Require, Add, Remove, After []string
}

// ReachSchema explores the active sets reachable from the empty machine, up to budget sets. With
// `raw` (the schema as shipped) the machine is made from the raw definitions - New runs the
// current Schema.Parse on them - and Require closure is judged against the Require relation as
// written, not against what Parse made of it.
func ReachSchema(id string, sch *Schema, groups map[string][]int, budget int, raw map[string]RawState) ReachResult {
	var res ReachResult
	n := len(sch.Names)
	s := am.Schema{}
	pick := func(l []int) am.S {
		var o am.S
		for _, i := range l {
			if i >= 0 && i < n {
				o = append(o, sch.Names[i])
			}
		}
		return o
	}
	for i, d := range sch.Defs {
		s[sch.Names[i]] = am.State{Auto: d.Auto, Multi: d.Multi, Require: pick(d.Require), Add: pick(d.Add), Remove: pick(d.Remove), After: pick(d.After)}
	}
	idx := map[string]int{}
	for i, nm := range sch.Names {
		idx[nm] = i
	}
	rawReq := make([][]int, n)
	if raw != nil {
		known := func(l []string) am.S {
			var o am.S
			for _, x := range l {
				if _, ok := idx[x]; ok {
					o = append(o, x)
				}
			}
			return o
		}
		for nm, d := range raw {
			i, ok := idx[nm]
			if !ok {
				continue
			}
			s[nm] = am.State{Auto: d.Auto, Multi: d.Multi, Require: known(d.Require), Add: known(d.Add), Remove: known(d.Remove), After: known(d.After)}
			for _, x := range d.Require {
				if j, ok := idx[x]; ok {
					rawReq[i] = append(rawReq[i], j)
				}
			}
		}
	}
	ctx, cancel := context.WithCancel(context.Background())
	defer cancel()
	m := am.New(ctx, s, &am.Opts{Id: "reach-" + id})
	if err := m.VerifyStates(sch.Names); err != nil {
		res.Failures = append(res.Failures, "setup: "+err.Error())
		return res
	}
	defer m.Dispose()
	reqOK := func(active []bool) string {
		for i, d := range sch.Defs {
			if !active[i] {
				continue
			}
			for _, r := range d.Require {
				if r < 0 || r >= n {
					// a reference to a state the schema does not define: Parse drops it; reported on
					// its own (mixin schemas, known finding C19-mixin-undefined-refs)
					continue
				}
				if !active[r] {
					return fmt.Sprintf("%s is active without its Require %s", sch.Names[i], sch.Names[r])
				}
			}
			for _, r := range rawReq[i] {
				if !active[r] {
					return fmt.Sprintf("%s is active without %s, which the shipped schema Requires", sch.Names[i], sch.Names[r])
				}
			}
		}
		return ""
	}
	// the groups whose members Remove one another
	type grp struct {
		name string
		mem  []int
	}
	var mutex []grp
	var gnames []string
	for g := range groups {
		gnames = append(gnames, g)
	}
	sort.Strings(gnames)
	for _, g := range gnames {
		l := groups[g]
		ok := len(l) >= 2
		for _, x := range l {
			for _, y := range l {
				if x != y && (x >= n || y >= n || !contains(sch.Defs[x].Remove, y)) {
					ok = false
				}
			}
		}
		if ok {
			mutex = append(mutex, grp{g, l})
		}
	}
	key := func(active []bool) string {
		b := make([]byte, n)
		for i, a := range active {
			if a {
				b[i] = '1'
			} else {
				b[i] = '0'
			}
		}
		return string(b)
	}
	read := func() []bool {
		a := make([]bool, n)
		for _, st := range m.ActiveStates(nil) {
			for i, nm := range sch.Names {
				if nm == st {
					a[i] = true
				}
			}
		}
		return a
	}
	restore := func(active []bool) bool {
		t := make(am.Time, n)
		for i, a := range active {
			if a {
				t[i] = 1
			}
		}
		err := m.Import(&am.Serialized{ID: m.Id(), Time: t, StateNames: sch.Names, MachineTick: m.MachineTick()})
		return err == nil
	}
	show := func(active []bool) string {
		var o []string
		for i, a := range active {
			if a {
				o = append(o, sch.Names[i])
			}
		}
		return "{" + strings.Join(o, ",") + "}"
	}
	judge := func(active []bool, how string) {
		if len(res.Failures) >= 3 {
			return
		}
		if msg := reqOK(active); msg != "" {
			res.Failures = append(res.Failures, fmt.Sprintf("schema %s: reachable active set %s breaks Require closure: %s (%s)", id, show(active), msg, how))
		}
		for _, g := range mutex {
			cnt := 0
			for _, i := range g.mem {
				if active[i] {
					cnt++
				}
			}
			if cnt > 1 {
				res.Failures = append(res.Failures, fmt.Sprintf("schema %s: reachable active set %s has %d members of the mutually Removing group %s active (%s)", id, show(active), cnt, g.name, how))
			}
		}
	}
	start := make([]bool, n)
	seen := map[string]bool{key(start): true}
	queue := [][]bool{start}
	path := map[string]string{key(start): "empty"}
	for len(queue) > 0 {
		cur := queue[0]
		queue = queue[1:]
		res.Visited++
		for i := 0; i < n; i++ {
			for _, add := range []bool{true, false} {
				if add == cur[i] && !sch.Defs[i].Multi {
					// Add1 of an active (non-Multi) / Remove1 of an inactive state changes nothing new
					if !add {
						continue
					}
				}
				if !restore(cur) {
					res.Failures = append(res.Failures, "schema "+id+": Import failed")
					return res
				}
				if add {
					m.Add1(sch.Names[i], nil)
				} else {
					m.Remove1(sch.Names[i], nil)
				}
				nxt := read()
				k := key(nxt)
				if seen[k] {
					continue
				}
				op := "Remove1 "
				if add {
					op = "Add1 "
				}
				how := path[key(cur)] + " -> " + op + sch.Names[i]
				if len(how) > 300 {
					how = "..." + how[len(how)-300:]
				}
				judge(nxt, how)
				if len(seen) >= budget {
					return res
				}
				seen[k] = true
				path[k] = how
				queue = append(queue, nxt)
			}
		}
	}
	res.Exhausted = true
	return res
}
