package core

// Reader stress for C01: "at every moment an observer can see ... every view of the machine agrees
// with every other ... for all interleavings of concurrent readers with the mutating goroutines".
// One goroutine mutates a real machine while readers call the views that report activity and ticks
// in one answer; inside one answer a state listed as active must have an odd tick and a state
// listed as inactive an even one. The static side of the same statement is Props/C01Views.lean.

import (
	"context"
	"fmt"
	"math/rand"
	"os"
	"path/filepath"
	"regexp"
	"strconv"
	"strings"
	"sync"
	"sync/atomic"
	"time"

	am "github.com/pancsta/asyncmachine-go/pkg/machine"
)

func saveText(dir, name, text string) string {
	os.MkdirAll(dir, 0o755)
	p := filepath.Join(dir, name)
	os.WriteFile(p, []byte(text), 0o644)
	return p
}

// LoadReaders parses a `.rcase` replay file.
func LoadReaders(path string) (seed int64, d time.Duration, err error) {
	b, err := os.ReadFile(path)
	if err != nil {
		return 0, 0, err
	}
	for _, l := range strings.Split(string(b), "\n") {
		var ms int64
		if n, _ := fmt.Sscanf(l, "readers seed=%d ms=%d", &seed, &ms); n == 2 {
			return seed, time.Duration(ms) * time.Millisecond, nil
		}
	}
	return 0, 0, fmt.Errorf("not a readers case")
}

var osReadFile = os.ReadFile

var pairRe = regexp.MustCompile(`([A-Za-z0-9_]+):(\d+)`)

func parityOf(view string, wantOdd bool) string {
	for _, m := range pairRe.FindAllStringSubmatch(view, -1) {
		n, _ := strconv.ParseUint(m[2], 10, 64)
		if (n%2 == 1) != wantOdd {
			return m[1] + ":" + m[2]
		}
	}
	return ""
}

// ReaderStress runs the stress for d and returns the failures (at most one per view).
func ReaderStress(seed int64, d time.Duration, outDir string) []FailRec {
	names := am.S{"A", "B", "C", "D", "E", "F", am.StateException}
	schema := am.Schema{
		"A": {}, "B": {Add: am.S{"C"}}, "C": {Multi: true}, "D": {Remove: am.S{"A"}},
		"E": {Require: am.S{"A"}}, "F": {Auto: true, Require: am.S{"B"}},
	}
	ctx, cancel := context.WithCancel(context.Background())
	defer cancel()
	m := am.New(ctx, schema, &am.Opts{Id: fmt.Sprintf("readers%d", seed)})
	if err := m.VerifyStates(names); err != nil {
		return []FailRec{{Prop: "C01", Msg: "reader stress setup: " + err.Error()}}
	}
	defer m.Dispose()
	var stop atomic.Bool
	var mu sync.Mutex
	fails := map[string]string{}
	report := func(view, msg string) {
		mu.Lock()
		if _, ok := fails[view]; !ok {
			fails[view] = msg
		}
		mu.Unlock()
	}
	var reads, muts atomic.Int64
	var wg sync.WaitGroup
	// the transition's own before-view
	tr := &readerTracer{TracerNoOp: &am.TracerNoOp{Id: "verif-readers"}, report: report, names: names}
	m.BindTracer(tr)
	wg.Add(1)
	go func() {
		defer wg.Done()
		r := rand.New(rand.NewSource(seed))
		for !stop.Load() {
			s := am.S{names[r.Intn(6)]}
			if r.Intn(4) == 0 {
				s = append(s, names[r.Intn(6)])
			}
			switch r.Intn(5) {
			case 0, 1:
				m.Add(s, nil)
			case 2:
				m.Remove(s, nil)
			case 3:
				m.Set(s, nil)
			case 4:
				m.Toggle(s, nil)
			}
			muts.Add(1)
		}
	}()
	for g := 0; g < 3; g++ {
		wg.Add(1)
		go func(g int) {
			defer wg.Done()
			for !stop.Load() {
				switch g {
				case 0:
					v := m.String()
					if bad := parityOf(v, true); bad != "" {
						report("String", fmt.Sprintf("String() reported %s as active with an even tick: %s", bad, v))
					}
				case 1:
					v := m.StringAll()
					if i := strings.Index(v, ") ["); i >= 0 {
						if bad := parityOf(v[:i], true); bad != "" {
							report("StringAll", fmt.Sprintf("StringAll() reported %s as active with an even tick: %s", bad, v))
						}
						if bad := parityOf(v[i:], false); bad != "" {
							report("StringAll", fmt.Sprintf("StringAll() reported %s as inactive with an odd tick: %s", bad, v))
						}
					}
				case 2:
					// the getters one by one are not a single view; each alone must be consistent
					act := m.ActiveStates(nil)
					seen := map[string]bool{}
					for _, a := range act {
						if seen[a] {
							report("ActiveStates", fmt.Sprintf("ActiveStates() lists %s twice: %v", a, act))
						}
						seen[a] = true
					}
				}
				reads.Add(1)
			}
		}(g)
	}
	time.Sleep(d)
	stop.Store(true)
	wg.Wait()
	var out []FailRec
	for view, msg := range fails {
		file := saveText(outDir, fmt.Sprintf("C01-seed%d-readers-%s.rcase", seed, view),
			"# a reader concurrent with the mutating goroutine saw one answer in which activity and tick parity disagree\n"+
				"# "+msg+"\n"+fmt.Sprintf("readers seed=%d ms=%d\n", seed, d.Milliseconds()*4))
		out = append(out, FailRec{Prop: "C01", Msg: msg, File: file})
	}
	ReaderStats = fmt.Sprintf("reads=%d mutations=%d", reads.Load(), muts.Load())
	return out
}

// ReaderStats: counters of the last stress run (for the evidence file).
var ReaderStats string

type readerTracer struct {
	*am.TracerNoOp
	report func(view, msg string)
	names  am.S
}

func (t *readerTracer) TransitionInit(tx *am.Transition) {
	before := tx.StatesBefore()
	act := map[string]bool{}
	for _, s := range before {
		act[s] = true
	}
	for i, n := range t.names {
		if i < len(tx.TimeBefore) && act[n] != (tx.TimeBefore[i]%2 == 1) {
			t.report("Transition", fmt.Sprintf("a transition's before-view has %s active=%v with tick %d", n, act[n], tx.TimeBefore[i]))
		}
	}
}
