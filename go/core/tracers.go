package core

// Tracer stress for C14: "issued from one or many goroutines, with one or several tracers bound".
// Several goroutines mutate one real machine (handlers that queue nested mutations included);
// two tracers record their callbacks. Per tracer: every transition gets Init, Start, End exactly
// once and in that order (Finals between Start and End for accepted ones), transitions never
// interleave, each time-before equals the previous time-after, canceled ones report no change, the
// last report equals the machine's final time. Both tracers see the same sequence.

import (
	"context"
	"fmt"
	"math/rand"
	"strings"
	"sync"
	"sync/atomic"
	"time"

	am "github.com/pancsta/asyncmachine-go/pkg/machine"
)

type tev struct {
	kind string
	id   string
	tb   string
	ta   string
	acc  bool
	chk  bool
}

type stressTracer struct {
	*am.TracerNoOp
	mu  sync.Mutex
	evs []tev
	// onStart, when set, runs inside the TransitionStart callback (the machine is handing the
	// callback out to its tracers)
	onStart func()
}

func tstr(t am.Time) string {
	s := make([]string, len(t))
	for i, v := range t {
		s[i] = fmt.Sprint(v)
	}
	return strings.Join(s, ",")
}

func (t *stressTracer) add(kind string, tx *am.Transition) {
	e := tev{kind: kind, id: tx.Id, tb: tstr(tx.TimeBefore), ta: tstr(tx.TimeAfter), acc: tx.IsAccepted.Load(), chk: tx.Mutation.IsCheck}
	t.mu.Lock()
	t.evs = append(t.evs, e)
	t.mu.Unlock()
}
func (t *stressTracer) TransitionInit(tx *am.Transition)   { t.add("I", tx) }
func (t *stressTracer) TransitionStart(tx *am.Transition) {
	t.add("S", tx)
	if t.onStart != nil {
		t.onStart()
	}
}
func (t *stressTracer) TransitionFinals(tx *am.Transition) { t.add("F", tx) }
func (t *stressTracer) TransitionEnd(tx *am.Transition)    { t.add("E", tx) }

type nestHandlers struct{ m *am.Machine }

func (h *nestHandlers) BState(e *am.Event)      { h.m.Add1("C", nil) }
func (h *nestHandlers) DEnter(e *am.Event) bool { return e.Machine().Tick("C")%4 != 1 }

// TracerStress runs the stress for d.
func TracerStress(seed int64, d time.Duration, outDir string) []FailRec {
	names := am.S{"A", "B", "C", "D", "E", am.StateException}
	schema := am.Schema{"A": {}, "B": {Add: am.S{"E"}}, "C": {Multi: true}, "D": {Remove: am.S{"A"}}, "E": {Auto: false}}
	ctx, cancel := context.WithCancel(context.Background())
	defer cancel()
	m := am.New(ctx, schema, &am.Opts{Id: fmt.Sprintf("tracers%d", seed)})
	if err := m.VerifyStates(names); err != nil {
		return []FailRec{{Prop: "C14", Msg: "tracer stress setup: " + err.Error()}}
	}
	// tracers bound before the two that are compared, detached one by one from another goroutine
	// while a callback is being handed out (what pkg/telemetry/dbg's tracer does when it gives up)
	const nAux = 8
	for i := 0; i < nAux; i++ {
		m.BindTracer(&am.TracerNoOp{Id: fmt.Sprintf("verif-aux%d", i)})
	}
	t1 := &stressTracer{TracerNoOp: &am.TracerNoOp{Id: "verif-t1"}}
	t2 := &stressTracer{TracerNoOp: &am.TracerNoOp{Id: "verif-t2"}}
	var starts, detached atomic.Int32
	t1.onStart = func() {
		n := starts.Add(1)
		if n%40 != 0 || detached.Load() >= nAux {
			return
		}
		i := detached.Add(1) - 1
		done := make(chan struct{})
		go func() {
			m.DetachTracer(fmt.Sprintf("verif-aux%d", i))
			close(done)
		}()
		select {
		case <-done:
		case <-time.After(3 * time.Millisecond):
		}
	}
	m.BindTracer(t1)
	m.BindTracer(t2)
	m.BindHandlers(&nestHandlers{m: m})
	var stop atomic.Bool
	var wg sync.WaitGroup
	for g := 0; g < 4; g++ {
		wg.Add(1)
		go func(g int) {
			defer wg.Done()
			r := rand.New(rand.NewSource(seed*31 + int64(g)))
			for !stop.Load() {
				s := am.S{names[r.Intn(5)]}
				switch r.Intn(5) {
				case 0, 1:
					m.Add(s, nil)
				case 2:
					m.Remove(s, nil)
				case 3:
					m.Set(s, nil)
				case 4:
					m.CanAdd(s, nil)
				}
			}
		}(g)
	}
	time.Sleep(d)
	stop.Store(true)
	wg.Wait()
	// let the queue drain
	dl := time.Now().Add(3 * time.Second)
	for m.QueueLen() > 0 && time.Now().Before(dl) {
		time.Sleep(time.Millisecond)
	}
	time.Sleep(5 * time.Millisecond)
	final := tstr(m.Time(nil))
	fails := map[string]string{}
	report := func(k, msg string) {
		if _, ok := fails[k]; !ok {
			fails[k] = msg
		}
	}
	check := func(name string, evs []tev) {
		cur := ""
		stage := ""
		prevTA := ""
		seen := map[string]bool{}
		for i, e := range evs {
			switch e.kind {
			case "I":
				if cur != "" {
					report("interleave", fmt.Sprintf("%s: TransitionInit of %s while %s has not ended (event %d)", name, e.id, cur, i))
				}
				if seen[e.id] {
					report("twice", fmt.Sprintf("%s: transition %s reported twice", name, e.id))
				}
				seen[e.id] = true
				cur, stage = e.id, "I"
				if prevTA != "" && e.tb != prevTA {
					report("chain", fmt.Sprintf("%s: transition %s reports time-before %s, the previous one reported time-after %s", name, e.id, e.tb, prevTA))
				}
			case "S":
				if e.id != cur || stage != "I" {
					report("order", fmt.Sprintf("%s: TransitionStart of %s out of order (current %s, after %s)", name, e.id, cur, stage))
				}
				stage = "S"
			case "F":
				if e.id != cur || stage != "S" {
					report("order", fmt.Sprintf("%s: TransitionFinals of %s out of order (current %s, after %s)", name, e.id, cur, stage))
				}
				stage = "F"
			case "E":
				if e.id != cur || (stage != "S" && stage != "F") {
					report("order", fmt.Sprintf("%s: TransitionEnd of %s out of order (current %s, after %s)", name, e.id, cur, stage))
				}
				if e.acc && !e.chk && stage != "F" {
					report("finals", fmt.Sprintf("%s: accepted transition %s ended without TransitionFinals", name, e.id))
				}
				if !e.acc && e.ta != e.tb {
					report("canceled", fmt.Sprintf("%s: canceled transition %s reports a change (%s -> %s)", name, e.id, e.tb, e.ta))
				}
				prevTA = e.ta
				cur, stage = "", ""
			}
		}
		if cur != "" {
			report("unfinished", fmt.Sprintf("%s: transition %s never ended", name, cur))
		}
		if prevTA != "" && prevTA != final {
			report("final", fmt.Sprintf("%s: the last report has time-after %s, the machine's final time is %s", name, prevTA, final))
		}
	}
	t1.mu.Lock()
	e1 := append([]tev{}, t1.evs...)
	t1.mu.Unlock()
	t2.mu.Lock()
	e2 := append([]tev{}, t2.evs...)
	t2.mu.Unlock()
	check("tracer 1", e1)
	check("tracer 2", e2)
	if len(e1) != len(e2) {
		report("differ", fmt.Sprintf("the two tracers saw %d and %d callbacks", len(e1), len(e2)))
	} else {
		for i := range e1 {
			if e1[i] != e2[i] {
				report("differ", fmt.Sprintf("the two tracers differ at callback %d: %+v vs %+v", i, e1[i], e2[i]))
				break
			}
		}
	}
	m.Dispose()
	TracerStats = fmt.Sprintf("callbacks=%d", len(e1))
	var out []FailRec
	for k, msg := range fails {
		file := saveText(outDir, fmt.Sprintf("C14-seed%d-tracers-%s.tcase", seed, k),
			"# tracers under concurrent mutation: "+msg+"\n"+fmt.Sprintf("tracers seed=%d ms=%d\n", seed, d.Milliseconds()*4))
		out = append(out, FailRec{Prop: "C14", Msg: msg, File: file})
	}
	return out
}

// TracerStats: counters of the last run.
var TracerStats string

// LoadTracers parses a `.tcase` replay file.
func LoadTracers(path string) (seed int64, d time.Duration, err error) {
	b, err := osReadFile(path)
	if err != nil {
		return 0, 0, err
	}
	for _, l := range strings.Split(string(b), "\n") {
		var ms int64
		if n, _ := fmt.Sscanf(l, "tracers seed=%d ms=%d", &seed, &ms); n == 2 {
			return seed, time.Duration(ms) * time.Millisecond, nil
		}
	}
	return 0, 0, fmt.Errorf("not a tracers case")
}
