package core

// Subscriptions across schema growth (C06: "... and schema growth via SetSchema"). The Lean model of
// the sequential machine has a fixed schema; this part of the quantifier is judged on the real
// machine by ground truth: one goroutine, synchronous mutations, so after every call the set of
// closed channels / canceled contexts must be exactly what the ticks say.

import (
	"context"
	"fmt"
	"math/rand"
	"strings"

	am "github.com/pancsta/asyncmachine-go/pkg/machine"
)

type growSub struct {
	what   string
	ch     <-chan struct{}
	ctx    context.Context
	expect func(m *am.Machine) bool // the condition holds now
	held   bool                     // has held at the end of some transition since subscribing
}

func chClosed(ch <-chan struct{}) bool {
	select {
	case <-ch:
		return true
	default:
		return false
	}
}

// SchemaGrowScenario: one generated scenario; returns failures and the replay line.
func SchemaGrowScenario(seed int64) (fails []string, line string) {
	r := rand.New(rand.NewSource(seed))
	line = fmt.Sprintf("schemagrow seed=%d", seed)
	ctx, cancel := context.WithCancel(context.Background())
	defer cancel()
	schema := am.Schema{"A": {Multi: true}, "B": {}, "C": {Remove: am.S{"B"}}}
	names := am.S{"A", "B", "C", am.StateException}
	m := am.New(ctx, schema, &am.Opts{Id: fmt.Sprintf("grow%d", seed)})
	if err := m.VerifyStates(names); err != nil {
		return []string{"setup: " + err.Error()}, line
	}
	defer m.Dispose()
	mutate := func() {
		s := names[r.Intn(len(names)-1)]
		if s == am.StateException {
			s = "A"
		}
		switch r.Intn(3) {
		case 0, 1:
			m.Add1(s, nil)
		case 2:
			m.Remove1(s, nil)
		}
	}
	for i, k := 0, r.Intn(5); i < k; i++ {
		mutate()
	}
	grow := func(newName string, def am.State) bool {
		ns := am.Schema{}
		for k, v := range m.Schema() {
			ns[k] = v
		}
		ns[newName] = def
		nn := append(am.S{}, names[:len(names)-1]...)
		nn = append(nn, newName, am.StateException)
		if err := m.SetSchema(ns, nn); err != nil {
			fails = append(fails, "SetSchema failed: "+err.Error())
			return false
		}
		names = nn
		return true
	}
	grown := 0
	var subs []*growSub
	subscribe := func() {
		s := names[r.Intn(len(names)-1)]
		switch r.Intn(6) {
		case 0:
			n := uint64(1 + r.Intn(3))
			base := m.Tick(s)
			subs = append(subs, &growSub{what: fmt.Sprintf("WhenTicks(%s,%d) at tick %d", s, n, base), ch: m.WhenTicks(s, int(n), nil),
				expect: func(m *am.Machine) bool { return m.Tick(s) >= base+n }})
		case 1:
			t := m.Tick(s) + uint64(1+r.Intn(3))
			subs = append(subs, &growSub{what: fmt.Sprintf("WhenTime(%s>=%d)", s, t), ch: m.WhenTime(am.S{s}, am.Time{t}, nil),
				expect: func(m *am.Machine) bool { return m.Tick(s) >= t }})
		case 2:
			subs = append(subs, &growSub{what: "When(" + s + ")", ch: m.When1(s, nil), expect: func(m *am.Machine) bool { return m.Is1(s) }})
		case 3:
			subs = append(subs, &growSub{what: "WhenNot(" + s + ")", ch: m.WhenNot1(s, nil), expect: func(m *am.Machine) bool { return m.Not1(s) }})
		case 4:
			if m.Is1(s) {
				base := m.Tick(s)
				subs = append(subs, &growSub{what: fmt.Sprintf("NewStateCtx(%s) at tick %d", s, base), ctx: m.NewStateCtx(s),
					expect: func(m *am.Machine) bool { return m.Tick(s) != base }})
			}
		case 5:
			t := m.Tick(s) + 1
			subs = append(subs, &growSub{what: fmt.Sprintf("WhenQuery(tick(%s)>=%d)", s, t),
				ch:     m.WhenQuery(func(c am.Clock) bool { return c[s] >= t }, nil),
				expect: func(m *am.Machine) bool { return m.Tick(s) >= t }})
		}
		// a condition that holds at subscription time closes at once (WhenQuery: from the next transition)
		sb := subs
		if len(sb) > 0 {
			last := sb[len(sb)-1]
			if !strings.HasPrefix(last.what, "WhenQuery") && last.expect(m) {
				last.held = true
			}
		}
	}
	judge := func(after string) {
		for _, sb := range subs {
			if sb.expect(m) {
				sb.held = true
			}
			var closed bool
			if sb.ctx != nil {
				closed = sb.ctx.Err() != nil
			} else {
				closed = chClosed(sb.ch)
			}
			if sb.held && !closed {
				fails = append(fails, fmt.Sprintf("lost wake-up after schema growth: %s still open after %s (schema grown %d times)", sb.what, after, grown))
				sb.held = false
				sb.expect = func(*am.Machine) bool { return false }
			}
			if !sb.held && closed {
				fails = append(fails, fmt.Sprintf("spurious wake-up after schema growth: %s closed after %s although its condition never held", sb.what, after))
				sb.held = true
			}
		}
	}
	steps := 6 + r.Intn(10)
	for i := 0; i < steps && len(fails) == 0; i++ {
		switch x := r.Intn(10); {
		case x < 2 && grown < 3:
			nm := []string{"X", "Y", "Z"}[grown]
			def := am.State{}
			if r.Intn(2) == 0 {
				def.Require = am.S{"A"}
			}
			if r.Intn(3) == 0 {
				def.Multi = true
			}
			if grow(nm, def) {
				grown++
				judge("SetSchema(+" + nm + ")")
			}
		case x < 5:
			subscribe()
			judge("subscribing")
		default:
			before := m.Time(nil)
			mutate()
			judge(fmt.Sprintf("a mutation (time %v -> %v)", before, m.Time(nil)))
		}
	}
	return fails, line
}
