package core

// Final handlers bound as struct methods WITH a return value (`FooState(e) bool`, `FooEnd(e) bool`):
// the machine ignores what a final handler returns, whatever its signature. Map bindings cannot
// express a returning final handler, so the final handlers of the base-named states are bound
// through one small struct per state; the result is the rule's (`f` = false).

import (
	"strconv"

	am "github.com/pancsta/asyncmachine-go/pkg/machine"
)

type finBase struct {
	r    *Runner
	bind int
	idx  int
}

func (h *finBase) st(e *am.Event) bool {
	return h.r.runHandler(h.bind, "state:"+strconv.Itoa(h.idx), e)
}
func (h *finBase) en(e *am.Event) bool { return h.r.runHandler(h.bind, "end:"+strconv.Itoa(h.idx), e) }

type finA struct{ finBase }
type finB struct{ finBase }
type finC struct{ finBase }
type finD struct{ finBase }
type finF struct{ finBase }
type finG struct{ finBase }
type finH struct{ finBase }
type finK struct{ finBase }

func (h *finA) AState(e *am.Event) bool { return h.st(e) }
func (h *finA) AEnd(e *am.Event) bool   { return h.en(e) }
func (h *finB) BState(e *am.Event) bool { return h.st(e) }
func (h *finB) BEnd(e *am.Event) bool   { return h.en(e) }
func (h *finC) CState(e *am.Event) bool { return h.st(e) }
func (h *finC) CEnd(e *am.Event) bool   { return h.en(e) }
func (h *finD) DState(e *am.Event) bool { return h.st(e) }
func (h *finD) DEnd(e *am.Event) bool   { return h.en(e) }
func (h *finF) FState(e *am.Event) bool { return h.st(e) }
func (h *finF) FEnd(e *am.Event) bool   { return h.en(e) }
func (h *finG) GState(e *am.Event) bool { return h.st(e) }
func (h *finG) GEnd(e *am.Event) bool   { return h.en(e) }
func (h *finH) HState(e *am.Event) bool { return h.st(e) }
func (h *finH) HEnd(e *am.Event) bool   { return h.en(e) }
func (h *finK) KState(e *am.Event) bool { return h.st(e) }
func (h *finK) KEnd(e *am.Event) bool   { return h.en(e) }

// structFor returns the struct binding for a base-named state, nil otherwise.
func structFor(name string, b finBase) any {
	switch name {
	case "A":
		return &finA{b}
	case "B":
		return &finB{b}
	case "C":
		return &finC{b}
	case "D":
		return &finD{b}
	case "F":
		return &finF{b}
	case "G":
		return &finG{b}
	case "H":
		return &finH{b}
	case "K":
		return &finK{b}
	}
	return nil
}
