package super

import (
	"bytes"
	"encoding/json"
	"fmt"
	"math/rand"
	"os"
	"os/exec"
	"path/filepath"
	"strings"
	"sync"
	"time"

	"amverif/core"
)

func save(dir, name string, lines []string, header ...string) string {
	os.MkdirAll(dir, 0o755)
	p := filepath.Join(dir, name)
	var b strings.Builder
	for _, h := range header {
		b.WriteString("# " + h + "\n")
	}
	b.WriteString(strings.Join(lines, "\n") + "\n")
	os.WriteFile(p, []byte(b.String()), 0o644)
	return p
}

func LoadCase(path string) (Case, error) {
	b, err := os.ReadFile(path)
	if err != nil {
		return Case{}, err
	}
	return ParseCase(strings.Split(string(b), "\n"))
}

func RunPipeline(seed int64, tier, driver, outDir string, n int, search bool, corpus []string, fixed []Case) *core.Result {
	t0 := time.Now()
	res := &core.Result{Prop: "C15", Seed: seed, Tier: tier, Tags: map[string]int{}, Ops: map[string]int{}, Results: map[string]int{}}
	var cases []Case
	for _, dir := range corpus {
		files, _ := filepath.Glob(filepath.Join(dir, "*.scase"))
		for _, f := range files {
			if c, err := LoadCase(f); err == nil {
				c.Tag = "corpus"
				cases = append(cases, c)
			}
		}
	}
	res.CorpusCases = len(cases)
	cases = append(cases, fixed...)
	if len(fixed) == 0 {
		// the schedule of the property: a second round of forks passes the gate before the first registers
		cases = append(cases, Case{Min: 2, Max: 2, Warm: 0, ErrKill: 3, SlowForks: true, Seed: 7, Tag: "slow-forks", Actions: []string{"wait:200"}})
		// a free slot asked for twice from outside the rounds: the second gate decides
		cases = append(cases, Case{Min: 2, Max: 3, Warm: 0, ErrKill: 3, Seed: 10, Tag: "fork-requests", Actions: []string{"wait:100", "fork:0", "wait:150", "kill:0", "fork:2", "wait:150", "kill:1", "fork:6", "wait:150"}})
		// errors over the limit
		cases = append(cases, Case{Min: 1, Max: 2, Warm: 0, ErrKill: 1, Seed: 8, Tag: "errors", Actions: []string{"err:0", "err:0", "err:0", "wait:100"}})
		// Min above Max (fields set directly)
		cases = append(cases, Case{Min: 3, Max: 1, Warm: 0, ErrKill: 3, Seed: 9, Tag: "min-above-max", Actions: []string{"wait:300", "heartbeat", "wait:300", "err:0", "wait:200"}})
	}
	r := rand.New(rand.NewSource(seed))
	for i := 0; i < n; i++ {
		cases = append(cases, GenCase(r))
	}
	runs := make([]*Run, len(cases))
	var wg sync.WaitGroup
	ch := make(chan int)
	for w := 0; w < 8; w++ {
		wg.Add(1)
		go func() {
			defer wg.Done()
			for i := range ch {
				// one scenario per child process: a late worker dialling a port that another
				// supervisor has reused in the meantime panics inside pkg/node, which must not
				// take the other scenarios down
				runs[i] = execChild(cases[i], outDir, i)
				if runs[i].Err != "" {
					runs[i] = execChild(cases[i], outDir, i) // once more, alone
				}
			}
		}()
	}
	for i := range cases {
		ch <- i
	}
	close(ch)
	wg.Wait()
	var mcases []core.Case
	for _, run := range runs {
		mcases = append(mcases, core.Case{Lines: run.Lines})
	}
	var model [][]string
	if !search {
		var err error
		model, err = core.RunModel(driver, mcases)
		if err != nil {
			res.Note = "model driver failed: " + err.Error()
			res.Disagreements = append(res.Disagreements, core.DisRec{Op: "driver", Model: err.Error()})
			res.WallS = time.Since(t0).Seconds()
			return res
		}
	}
	failSeen := map[string]bool{}
	forks, txs, manual := 0, 0, 0
	for i, run := range runs {
		c := cases[i]
		res.Cases++
		res.Tags[c.Tag]++
		res.Evaluations += len(run.Lines)
		res.Transitions += run.Txs
		forks += run.Forks
		manual += run.ManualForks
		txs += run.Txs
		for _, l := range run.Lines {
			f := strings.Fields(l)
			if len(f) > 1 {
				res.Ops[f[1]]++
			}
		}
		if run.Forks > 0 {
			res.DistinctNontrivial++
		}
		if len(res.Samples) < 2 && run.Forks > 1 {
			res.Samples = append(res.Samples, strings.Join(c.Lines(), "\n"))
		}
		if run.Err != "" {
			res.Note += "impl error: " + run.Err + "; "
			continue
		}
		if !search {
			for j := range run.Obs {
				if j >= len(model[i]) || model[i][j] != run.Obs[j] {
					mo := ""
					if j < len(model[i]) {
						mo = model[i][j]
					}
					kind := strings.Join(strings.Fields(run.Lines[j])[:2], " ")
					if len(res.Disagreements) < 6 && !failSeen["dis|"+kind] {
						failSeen["dis|"+kind] = true
						hdr := []string{fmt.Sprintf("supervisor correspondence disagrees at step %d: %s", j, run.Lines[j]), "impl : " + run.Obs[j], "model: " + mo}
						for k := 0; k <= j && k < len(run.Lines); k++ {
							mm := ""
							if k < len(model[i]) {
								mm = model[i][k]
							}
							hdr = append(hdr, fmt.Sprintf("  [%d] %s => %s || %s", k, run.Lines[k], run.Obs[k], mm))
						}
						file := save(outDir, fmt.Sprintf("C15-seed%d-disagree%d.scase", seed, len(res.Disagreements)), c.Lines(), hdr...)
						res.Disagreements = append(res.Disagreements, core.DisRec{File: file, Line: j, Op: run.Lines[j], Impl: run.Obs[j], Model: mo})
					} else {
						res.Disagreements = append(res.Disagreements, core.DisRec{Line: j, Op: run.Lines[j]})
					}
					break
				}
			}
		}
		for _, f := range run.Failures {
			k := f.Finding + "|" + strings.Map(func(r rune) rune {
				if r >= '0' && r <= '9' {
					return -1
				}
				return r
			}, strings.SplitN(f.Msg, "(", 2)[0])
			if failSeen[k] {
				continue
			}
			failSeen[k] = true
			file := save(outDir, fmt.Sprintf("C15-seed%d-fail%d.scase", seed, len(res.Failures)), c.Lines(), "monitor C15 failed on the real supervisor: "+f.Msg, "finding="+f.Finding)
			res.Failures = append(res.Failures, core.FailRec{Prop: "C15", Finding: f.Finding, Msg: f.Msg, File: file})
		}
	}
	res.Extra = map[string]any{"forks": forks, "supervisor_transitions": txs, "fork_requests_from_outside_the_rounds": manual}
	res.WallS = time.Since(t0).Seconds()
	return res
}

func execChild(c Case, outDir string, idx int) *Run {
	os.MkdirAll(outDir, 0o755)
	in := filepath.Join(outDir, fmt.Sprintf("superchild-%d-%d.in", os.Getpid(), idx))
	os.WriteFile(in, []byte(strings.Join(c.Lines(), "\n")+"\n"), 0o644)
	defer os.Remove(in)
	self, _ := os.Executable()
	cmd := exec.Command(self, "superchild", in)
	var out bytes.Buffer
	cmd.Stdout = &out
	cmd.Stderr = &out
	done := make(chan error, 1)
	if err := cmd.Start(); err != nil {
		return &Run{Err: err.Error()}
	}
	go func() { done <- cmd.Wait() }()
	select {
	case <-done:
	case <-time.After(60 * time.Second):
		cmd.Process.Kill()
		return &Run{Err: "scenario timed out"}
	}
	i := bytes.LastIndex(out.Bytes(), []byte("RESULT "))
	if i < 0 {
		o := out.String()
		if len(o) > 400 {
			o = o[:400]
		}
		return &Run{Err: "scenario process died: " + o}
	}
	var run Run
	if err := json.Unmarshal(out.Bytes()[i+7:], &run); err != nil {
		return &Run{Err: "bad child output: " + err.Error()}
	}
	return &run
}

// Child: run one scenario and print the result as JSON.
func Child(path string) {
	c, err := LoadCase(path)
	if err != nil {
		fmt.Println("RESULT {\"Err\":\"bad case\"}")
		return
	}
	run := Exec(c)
	b, _ := json.Marshal(run)
	fmt.Println("RESULT " + string(b))
}
