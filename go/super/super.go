// Package super runs a real node supervisor (pkg/node) with in-memory workers
// through the TestFork / TestKill seams, injects fork failures, slow forks,
// worker errors and kills, and records every supervisor transition together
// with a snapshot of the worker map (verif accessor). The observed events are
// replayed in the Lean model Am.Super; monitors state the property on the real
// run.
package super

import (
	"context"
	"errors"
	"fmt"
	"math/rand"
	"os"
	"sort"
	"strings"
	"sync"
	"sync/atomic"
	"time"

	am "github.com/pancsta/asyncmachine-go/pkg/machine"
	"github.com/pancsta/asyncmachine-go/pkg/node"
	ssnode "github.com/pancsta/asyncmachine-go/pkg/node/states"
)

var ssS = ssnode.SupervisorStates
var ssW = ssnode.WorkerStates
var sgS = ssnode.SupervisorGroups
var sgW = ssnode.WorkerGroups

type Case struct {
	Min, Max, Warm int
	ErrKill        int
	ForkFailEvery  int      // every n-th fork fails (0 = never)
	ForkDelayMs    int      // how long TestFork takes
	SlowForks      bool     // forks outlast a normalizing round (ConnTimeout + PoolPause)
	Actions        []string // err:<k> kill:<k> check heartbeat wait:<ms> gone:<k>
	Seed           int64
	Tag            string
}

func (c Case) Lines() []string {
	b := 0
	if c.SlowForks {
		b = 1
	}
	return []string{
		fmt.Sprintf("super-case min=%d max=%d warm=%d errkill=%d failevery=%d delay=%d slow=%d seed=%d", c.Min, c.Max, c.Warm, c.ErrKill,
			c.ForkFailEvery, c.ForkDelayMs, b, c.Seed),
		"actions " + strings.Join(c.Actions, " "),
	}
}

func ParseCase(lines []string) (Case, error) {
	var c Case
	for _, l := range lines {
		l = strings.TrimSpace(l)
		if l == "" || strings.HasPrefix(l, "#") {
			continue
		}
		t := strings.Fields(l)
		switch t[0] {
		case "super-case":
			slow := 0
			fmt.Sscanf(l, "super-case min=%d max=%d warm=%d errkill=%d failevery=%d delay=%d slow=%d seed=%d", &c.Min, &c.Max, &c.Warm,
				&c.ErrKill, &c.ForkFailEvery, &c.ForkDelayMs, &slow, &c.Seed)
			c.SlowForks = slow == 1
		case "actions":
			c.Actions = t[1:]
		}
	}
	if c.Max == 0 && c.Min == 0 && len(c.Actions) == 0 {
		return c, fmt.Errorf("incomplete super case")
	}
	return c, nil
}

type obsEv struct {
	line    string // model command
	obs     string // what the implementation showed
	tracked int
}

type Run struct {
	Lines       []string
	Obs         []string
	Failures    []Fail
	Err         string
	Forks       int
	ManualForks int
	MaxSeen     int
	Txs         int
}

type Fail struct {
	Finding string
	Msg     string
}

type tracer struct {
	*am.TracerNoOp
	mu                  sync.Mutex
	s                   *node.Supervisor
	c                   Case
	run                 *Run
	ids                 map[string]int
	prActive            bool
	errSeen             map[string]int
	errCount            map[string]int // error count last seen per worker
	killReq             map[string]bool
	inflightSet         map[string]bool // boot addresses of forks past the gate whose SetWorker has not run yet
	lastTracked, lastPR int
	roundOpen           bool // inside the fork loop of a normalizing round
	roundTracked        int  // tracked workers when the round listed them
	roundAsked          int  // forks the round has asked for so far
	roundOverlap        bool // a round started while forks of an earlier one were still in flight
}

func (t *tracer) id(addr string) int {
	if v, ok := t.ids[addr]; ok {
		return v
	}
	t.ids[addr] = len(t.ids) + 1
	return t.ids[addr]
}

func (t *tracer) fail(finding, f string, a ...any) {
	msg := fmt.Sprintf(f, a...)
	for _, x := range t.run.Failures {
		if x.Msg == msg {
			return
		}
	}
	t.run.Failures = append(t.run.Failures, Fail{Finding: finding, Msg: msg})
}

func has(l am.S, x string) bool {
	for _, y := range l {
		if y == x {
			return true
		}
	}
	return false
}

func (t *tracer) emit(line, obs string) {
	t.run.Lines = append(t.run.Lines, line)
	t.run.Obs = append(t.run.Obs, obs)
}

func (t *tracer) TransitionEnd(tx *am.Transition) {
	t.mu.Lock()
	defer t.mu.Unlock()
	s := t.s
	snap := node.VerifPoolSnapshot(s)
	t.run.Txs++
	if snap.Tracked > t.run.MaxSeen {
		t.run.MaxSeen = snap.Tracked
	}
	called := tx.CalledStates()
	acc := tx.IsAccepted.Load()
	mut := tx.Mutation
	args := am.ParseArgs[node.A](mut.Args)
	pr := 0
	isPR := s.Mach.Is1(ssS.PoolReady)
	if isPR {
		pr = 1
	}
	t.lastTracked, t.lastPR = snap.Tracked, pr
	outStr := func(o string) string { return fmt.Sprintf("out=%s tracked=%d pr=%d", o, snap.Tracked, pr) }
	okv := func(b bool) string {
		if b {
			return "ok"
		}
		return "vetoed"
	}
	isAdd := mut.Type == am.MutationAdd
	isRem := mut.Type == am.MutationRemove
	// the property in its own words
	if snap.Tracked > s.Max {
		if os.Getenv("SUP_TRACE") != "" {
			fmt.Fprintf(os.Stderr, "OVER tracked=%d max=%d inflight=%d lines=%v\n", snap.Tracked, s.Max, len(t.inflightSet), t.run.Lines)
		}
		t.fail("", "the supervisor tracks %d workers, Max is %d", snap.Tracked, s.Max)
	}
	if isPR && !t.prActive && snap.Ready < snap.MinEff {
		t.fail("", "PoolReady became active with %d ready workers, min() is %d", snap.Ready, snap.MinEff)
	}
	if !isPR && t.prActive && snap.Ready >= snap.MinEff && s.Mach.Is1(ssS.Start) {
		t.fail("", "PoolReady was withdrawn while %d workers were ready, min() is %d", snap.Ready, snap.MinEff)
	}
	t.prActive = isPR
	for _, g := range [][]string{sgS.PoolStatus, sgS.PoolNormalized} {
		n := 0
		for _, st := range g {
			if s.Mach.Is1(st) {
				n++
			}
		}
		if n > 1 {
			t.fail("", "two members of a supervisor state group are active: %v (%s)", g, s.Mach.String())
		}
	}
	switch {
	case isAdd && has(called, ssS.ListWorkers) && acc && args != nil && args.WorkerState == "":
		// a normalizing round lists the tracked workers, then asks for the missing forks
		t.roundOpen, t.roundTracked, t.roundAsked = true, snap.Tracked, 0
		if len(t.inflightSet) > 0 {
			t.roundOverlap = true
		}
	case isAdd && has(called, ssS.ListWorkers):
		t.roundOpen = false
	case isAdd && has(called, ssS.ForkWorker) && args != nil && args.Id == "verif-manual":
		// a fork asked for from outside the normalizing rounds: not part of a round's count
	case isAdd && has(called, ssS.ForkWorker):
		if t.roundOpen {
			t.roundAsked++
			want := snap.MinEff + s.Warm
			if want > s.Max {
				want = s.Max
			}
			want -= t.roundTracked
			if want < 0 {
				want = 0
			}
			if t.roundAsked > want {
				t.fail("", "a normalizing round that found %d tracked workers asked for %d forks; min()+Warm=%d and Max=%d allow %d",
					t.roundTracked, t.roundAsked, snap.MinEff+s.Warm, s.Max, want)
			}
		}
	case isAdd && has(called, ssS.ForkingWorker):
		// the fork gate proper (ForkingWorkerEnter); Enter also rejects a missing bootstrap. A fork that
		// passes is in the map (under its boot address) when the transition ends
		if args != nil && args.Bootstrap != nil {
			if acc {
				t.inflightSet[args.Bootstrap.Addr()] = true
			}
			t.emit(fmt.Sprintf("sup fork %d", t.id(args.Bootstrap.Addr())), outStr(okv(acc)))
		}
	case isAdd && has(called, ssS.SetWorker):
		if args != nil && args.WorkerAddr != "" && args.WorkerInfo != nil {
			// a registration: let in when the address is tracked or there is room (SetWorkerEnter)
			delete(t.inflightSet, args.WorkerAddr)
			t.emit(fmt.Sprintf("sup set %d", t.id(args.WorkerAddr)), outStr(okv(acc)))
		} else if args != nil && args.WorkerAddr != "" && acc {
			delete(t.inflightSet, args.WorkerAddr)
			t.emit(fmt.Sprintf("sup del %d", t.id(args.WorkerAddr)), outStr("ok"))
		}
	case isAdd && has(called, ssS.WorkerForked) && acc:
		if args != nil {
			// vetoed in the model = ErrWorkerMissing in the handler: visible as the map not gaining the local address
			hasLocal := false
			for _, a := range snap.Addrs {
				if a == args.LocalAddr {
					hasLocal = true
				}
			}
			t.emit(fmt.Sprintf("sup forked %d %d", t.id(args.BootAddr), t.id(args.LocalAddr)), outStr(okv(hasLocal)))
		}
	case isAdd && has(called, ssS.WorkerKilled) && acc:
		if args != nil {
			t.emit(fmt.Sprintf("sup del %d", t.id(args.LocalAddr)), outStr("ok"))
		}
	case isAdd && has(called, ssS.ErrWorker) && acc:
		ex := am.ParseArgs[am.AException](mut.Args)
		if args != nil && args.LocalAddr != "" && !errors.Is(ex.Err, node.ErrWorkerKill) {
			n, tracked := snap.Errs[args.LocalAddr]
			// ErrWorker is not a Multi state: an error reported while the previous one is still being
			// handled (the state is still active) runs no handler and is not counted - nothing for
			// the model to replay
			if tracked && n == t.errCount[args.LocalAddr] {
				break
			}
			t.errCount[args.LocalAddr] = n
			o := "ok"
			if tracked && n > s.WorkerErrKill {
				o = fmt.Sprintf("kill:%d", t.id(args.LocalAddr))
				t.errSeen[args.LocalAddr] = n
			}
			t.emit(fmt.Sprintf("sup err %d", t.id(args.LocalAddr)), outStr(o))
		}
	case isAdd && has(called, ssS.KillingWorker) && acc:
		if args != nil {
			t.killReq[args.LocalAddr] = true
		}
	case isAdd && len(called) == 1 && called[0] == ssS.PoolReady:
		if s.Mach.Is1(ssS.Start) || acc {
			t.emit(fmt.Sprintf("sup addpr %d", snap.Ready), outStr(okv(acc)))
		}
	case isRem && len(called) == 1 && called[0] == ssS.PoolReady:
		t.emit(fmt.Sprintf("sup rempr %d", snap.Ready), outStr(okv(acc)))
	}
}

type workerSet struct {
	mu      sync.Mutex
	workers map[string]*node.Worker // by boot address
}

// Exec runs one scenario.
func Exec(c Case) *Run {
	run := &Run{}
	ctx, cancel := context.WithCancel(context.Background())
	defer cancel()
	kind := fmt.Sprintf("V%d", c.Seed%100000)
	s, err := node.NewSupervisor(ctx, kind, []string{"test"}, ssnode.WorkerSchema, nil)
	if err != nil {
		run.Err = err.Error()
		return run
	}
	s.WorkerCheckInterval = 20 * time.Millisecond
	s.ConnTimeout = 400 * time.Millisecond
	s.PoolPause = 100 * time.Millisecond
	s.HealthcheckPause = 50 * time.Millisecond
	s.OpTimeout = 2 * time.Second
	if c.ErrKill > 0 {
		s.WorkerErrKill = c.ErrKill
	}
	tr := &tracer{TracerNoOp: &am.TracerNoOp{Id: "verif"}, s: s, c: c, run: run, ids: map[string]int{}, errSeen: map[string]int{}, errCount: map[string]int{}, killReq: map[string]bool{}, inflightSet: map[string]bool{}}
	s.Mach.BindTracer(tr)
	ws := &workerSet{workers: map[string]*node.Worker{}}
	var forks atomic.Int32
	delay := time.Duration(c.ForkDelayMs) * time.Millisecond
	if c.SlowForks {
		delay = s.ConnTimeout + s.PoolPause + 150*time.Millisecond
	}
	s.TestFork = func(addr string) error {
		n := int(forks.Add(1))
		if delay > 0 {
			select {
			case <-time.After(delay):
			case <-ctx.Done():
				return ctx.Err()
			}
		}
		if c.ForkFailEvery > 0 && n%c.ForkFailEvery == 0 {
			// the fork fails after the gate: the supervisor takes it out of the map again (SetWorker without info)
			return fmt.Errorf("fork %d failed", n)
		}
		w, err := node.NewWorker(ctx, kind, ssnode.WorkerSchema, ssW.Names(), nil)
		if err != nil {
			return err
		}
		ws.mu.Lock()
		ws.workers[addr] = w
		ws.mu.Unlock()
		go func() {
			select {
			case <-time.After(10 * time.Millisecond):
			case <-ctx.Done():
				return
			}
			w.Start(addr)
		}()
		return nil
	}
	s.TestKill = func(addr string) error { return nil }
	s.Min, s.Max, s.Warm = c.Min, c.Max, c.Warm
	run.Lines = append(run.Lines, fmt.Sprintf("sup init %d %d %d %d", c.Min, c.Max, c.Warm, s.WorkerErrKill))
	run.Obs = append(run.Obs, "ok")
	s.Start(":0")
	// let the pool settle (or not: Min 0, failing forks)
	waitFor := func(d time.Duration, f func() bool) bool {
		dl := time.Now().Add(d)
		for time.Now().Before(dl) {
			if f() {
				return true
			}
			time.Sleep(10 * time.Millisecond)
		}
		return false
	}
	waitFor(1500*time.Millisecond, func() bool { return s.Mach.Is1(ssS.PoolReady) })
	r := rand.New(rand.NewSource(c.Seed))
	addrs := func() []string {
		var out []string
		s.Mach.Eval("verif-addrs", func() {
			p := node.VerifPoolSnapshot(s)
			out = append(out, p.Addrs...)
		}, ctx)
		sort.Strings(out)
		return out
	}
	for _, a := range c.Actions {
		kind, arg, _ := strings.Cut(a, ":")
		n := 0
		fmt.Sscan(arg, &n)
		switch kind {
		case "wait":
			time.Sleep(time.Duration(n) * time.Millisecond)
		case "err":
			as := addrs()
			if len(as) == 0 {
				continue
			}
			addr := as[n%len(as)]
			node.AddErrWorker(nil, s.Mach, errors.New("verif boom"), node.Pass(&node.A{LocalAddr: addr}))
			// ErrWorker is not a Multi state: wait until it has been handled
			waitFor(500*time.Millisecond, func() bool { return s.Mach.Not1(ssS.ErrWorker) })
		case "kill":
			as := addrs()
			if len(as) == 0 {
				continue
			}
			s.Mach.Add1(ssS.WorkerKilled, node.Pass(&node.A{LocalAddr: as[n%len(as)]}))
		case "fork":
			// two fork requests from outside the rounds, n ms apart (ForkWorker is a public state of the
			// supervisor): both gates must hold whoever asks. With one free slot the second request passes
			// the first gate too; whether its second step comes before or after the first one registered is
			// up to the schedule
			run.ManualForks += 2
			s.Mach.Add1(ssS.ForkWorker, node.Pass(&node.A{Id: "verif-manual"}))
			time.Sleep(time.Duration(n) * time.Millisecond)
			s.Mach.Add1(ssS.ForkWorker, node.Pass(&node.A{Id: "verif-manual"}))
		case "check":
			s.CheckPool()
		case "heartbeat":
			s.Mach.Add1(ssS.Heartbeat, nil)
		}
		_ = r
	}
	// run out the normalizing rounds that are in progress
	settle := 900 * time.Millisecond
	if c.SlowForks {
		settle = 2500 * time.Millisecond
	}
	time.Sleep(settle)
	run.Forks = int(forks.Load())
	// kill requests for workers whose errors went over the limit
	tr.mu.Lock()
	for addr, n := range tr.errSeen {
		if !tr.killReq[addr] {
			tr.fail("", "worker %s accumulated %d errors (WorkerErrKill %d) but no kill was requested", addr, n, s.WorkerErrKill)
		}
	}
	tr.mu.Unlock()
	// work-status group of the workers
	ws.mu.Lock()
	for _, w := range ws.workers {
		n := 0
		for _, st := range sgW.WorkStatus {
			if w.Mach.Is1(st) {
				n++
			}
		}
		if n > 1 {
			tr.mu.Lock()
			tr.fail("", "two members of the worker's WorkStatus group are active: %s", w.Mach.String())
			tr.mu.Unlock()
		}
	}
	ws.mu.Unlock()
	s.Stop()
	select {
	case <-s.Mach.WhenDisposed():
	case <-time.After(2 * time.Second):
	}
	cancel()
	return run
}

func GenCase(r *rand.Rand) Case {
	c := Case{Seed: r.Int63n(1 << 40)}
	c.Max = 1 + r.Intn(4)
	c.Min = r.Intn(c.Max + 2) // sometimes above Max (fields set directly)
	c.Warm = r.Intn(3)
	c.ErrKill = 1 + r.Intn(3)
	if r.Intn(4) == 0 {
		c.ForkFailEvery = 2 + r.Intn(3)
	}
	c.ForkDelayMs = []int{0, 0, 30, 80}[r.Intn(4)]
	c.Tag = "random"
	if r.Intn(6) == 0 {
		c.SlowForks = true
		c.Tag = "slow-forks"
	}
	n := 2 + r.Intn(6)
	for i := 0; i < n; i++ {
		switch r.Intn(8) {
		case 0, 1, 2:
			c.Actions = append(c.Actions, fmt.Sprintf("err:%d", r.Intn(4)))
		case 3:
			c.Actions = append(c.Actions, fmt.Sprintf("kill:%d", r.Intn(4)))
		case 4:
			if r.Intn(2) == 0 {
				// a slot is freed, then asked for twice
				c.Actions = append(c.Actions, fmt.Sprintf("kill:%d", r.Intn(4)), fmt.Sprintf("fork:%d", []int{0, 0, 1, 2, 4, 8}[r.Intn(6)]), "wait:120")
			} else {
				c.Actions = append(c.Actions, "check")
			}
		case 5:
			c.Actions = append(c.Actions, "heartbeat")
		default:
			c.Actions = append(c.Actions, fmt.Sprintf("wait:%d", 20+r.Intn(200)))
		}
	}
	return c
}
