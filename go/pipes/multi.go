package pipes

// Two families of scenarios next to the schedule engine of pipes.go, judged by ground truth on the
// real machines (search, labelled so): the in-order hypothesis of C18_target_follows_inorder holds
// by construction (every delivery has reached its target before the next source operation is made,
// or is being executed there), so every piped pair has to agree at every settle point.
//
//  - several bindings on one source (Bind of one source state to two target states, two BindMany of
//    the same size, Bind next to BindMany): each binding keeps following;
//  - a real NetworkMachine as the target (rpc server / client over loopback): a piped removal made
//    while the piped activation is still being executed remotely.

import (
	"context"
	"fmt"
	"math/rand"
	"net"
	"strings"
	"sync"
	"sync/atomic"
	"time"

	am "github.com/pancsta/asyncmachine-go/pkg/machine"
	arpc "github.com/pancsta/asyncmachine-go/pkg/rpc"
	ssrpc "github.com/pancsta/asyncmachine-go/pkg/rpc/states"
	ampipe "github.com/pancsta/asyncmachine-go/pkg/states/pipes"
)

// safeTarget: a local target whose piped calls (made from goroutines the pipe forks) cannot take
// the process down: a panic is kept as a failure of the scenario.
type safeTarget struct {
	*am.Machine
	mu     sync.Mutex
	panics []string
}

func (t *safeTarget) caught(what string) {
	if r := recover(); r != nil {
		t.mu.Lock()
		t.panics = append(t.panics, fmt.Sprintf("the pipe's %s on the target panicked: %v", what, r))
		t.mu.Unlock()
	}
}

func (t *safeTarget) EvAdd(e *am.Event, states am.S, args am.A) am.Result {
	defer t.caught(fmt.Sprintf("EvAdd(%v)", states))
	return t.Machine.EvAdd(e, states, args)
}

func (t *safeTarget) EvRemove1(e *am.Event, state string, args am.A) am.Result {
	defer t.caught(fmt.Sprintf("EvRemove1(%s)", state))
	return t.Machine.EvRemove1(e, state, args)
}

func (t *safeTarget) Set(states am.S, args am.A) am.Result {
	defer t.caught(fmt.Sprintf("Set(%v)", states))
	return t.Machine.Set(states, args)
}

func (t *safeTarget) failures() []string {
	t.mu.Lock()
	defer t.mu.Unlock()
	return append([]string{}, t.panics...)
}

// safeNet: the same for a network-machine target.
type safeNet struct {
	*arpc.NetworkMachine
	mu     sync.Mutex
	panics []string
}

func (t *safeNet) caught(what string) {
	if r := recover(); r != nil {
		t.mu.Lock()
		t.panics = append(t.panics, fmt.Sprintf("the pipe's %s on the network machine panicked: %v", what, r))
		t.mu.Unlock()
	}
}

func (t *safeNet) EvAdd(e *am.Event, states am.S, args am.A) am.Result {
	defer t.caught(fmt.Sprintf("EvAdd(%v)", states))
	return t.NetworkMachine.EvAdd(e, states, args)
}

func (t *safeNet) EvRemove1(e *am.Event, state string, args am.A) am.Result {
	defer t.caught(fmt.Sprintf("EvRemove1(%s)", state))
	return t.NetworkMachine.EvRemove1(e, state, args)
}

func (t *safeNet) failures() []string {
	t.mu.Lock()
	defer t.mu.Unlock()
	return append([]string{}, t.panics...)
}

type MultiStats struct {
	Scenarios, Steps, Bindings, NetScenarios, NetOverlaps, BusyScenarios, AnyScenarios int
}

var Multi MultiStats
var multiMu sync.Mutex

func waitUntil(d time.Duration, f func() bool) bool {
	dl := time.Now().Add(d)
	for {
		if f() {
			return true
		}
		if time.Now().After(dl) {
			return false
		}
		time.Sleep(2 * time.Millisecond)
	}
}

// MultiBindScenario: one generated scenario; returns failures and the replay line.
func MultiBindScenario(seed int64) (fails []string, line string) {
	r := rand.New(rand.NewSource(seed))
	line = fmt.Sprintf("multibind seed=%d", seed)
	ctx, cancel := context.WithCancel(context.Background())
	defer cancel()
	srcNames := am.S{"S1", "S2", "S3", "S4"}
	tgtNames := am.S{"T1", "T2", "T3", "T4", "T5"}
	ss, ts := am.Schema{}, am.Schema{}
	for _, n := range srcNames {
		ss[n] = am.State{}
	}
	for _, n := range tgtNames {
		ts[n] = am.State{}
	}
	source := am.New(ctx, ss, &am.Opts{Id: fmt.Sprintf("msrc%d", seed%100000)})
	target := &safeTarget{Machine: am.New(ctx, ts, &am.Opts{Id: fmt.Sprintf("mtgt%d", seed%100000)})}
	defer func() { source.Dispose(); target.Dispose() }()
	// pairs[source state] = target states that follow it
	pairs := map[string][]string{}
	var desc []string
	bind := func(kind int) error {
		switch kind {
		case 0:
			// one source state piped to two target states
			s := srcNames[r.Intn(2)]
			a, b := tgtNames[r.Intn(2)], tgtNames[2+r.Intn(3)]
			for _, t := range []string{a, b} {
				if _, err := ampipe.Bind(source, target, s, t, ""); err != nil {
					return err
				}
				pairs[s] = append(pairs[s], t)
			}
			desc = append(desc, fmt.Sprintf("Bind(%s->%s) Bind(%s->%s)", s, a, s, b))
		case 1:
			// two BindMany calls of the same size
			if _, err := ampipe.BindMany(source, target, am.S{"S1", "S2"}, am.S{"T1", "T2"}); err != nil {
				return err
			}
			if _, err := ampipe.BindMany(source, target, am.S{"S3", "S4"}, am.S{"T3", "T4"}); err != nil {
				return err
			}
			pairs["S1"] = append(pairs["S1"], "T1")
			pairs["S2"] = append(pairs["S2"], "T2")
			pairs["S3"] = append(pairs["S3"], "T3")
			pairs["S4"] = append(pairs["S4"], "T4")
			desc = append(desc, "BindMany(S1,S2->T1,T2) BindMany(S3,S4->T3,T4)")
		case 2:
			// Bind next to a BindMany of other states
			if _, err := ampipe.Bind(source, target, "S1", "T5", ""); err != nil {
				return err
			}
			if _, err := ampipe.BindMany(source, target, am.S{"S3", "S4"}, am.S{"T3", "T4"}); err != nil {
				return err
			}
			pairs["S1"] = append(pairs["S1"], "T5")
			pairs["S3"] = append(pairs["S3"], "T3")
			pairs["S4"] = append(pairs["S4"], "T4")
			desc = append(desc, "Bind(S1->T5) BindMany(S3,S4->T3,T4)")
		}
		return nil
	}
	if err := bind(r.Intn(3)); err != nil {
		return []string{"binding failed: " + err.Error()}, line
	}
	line += " [" + strings.Join(desc, " ") + "]"
	agree := func() (string, bool) {
		for s, tl := range pairs {
			for _, t := range tl {
				if source.Is1(s) != target.Is1(t) {
					return fmt.Sprintf("%s active=%v, piped %s active=%v", s, source.Is1(s), t, target.Is1(t)), false
				}
			}
		}
		return "", true
	}
	multiMu.Lock()
	Multi.Scenarios++
	Multi.Bindings += len(desc) * 2
	multiMu.Unlock()
	steps := 6 + r.Intn(10)
	var hist []string
	for i := 0; i < steps; i++ {
		s := srcNames[r.Intn(len(srcNames))]
		if r.Intn(3) == 0 {
			source.Remove1(s, nil)
			hist = append(hist, "-"+s)
		} else {
			source.Add1(s, nil)
			hist = append(hist, "+"+s)
		}
		multiMu.Lock()
		Multi.Steps++
		multiMu.Unlock()
		// every delivery reaches the target before the next source operation
		var what string
		ok := waitUntil(700*time.Millisecond, func() bool {
			var o bool
			what, o = agree()
			return o && target.QueueLen() == 0
		})
		if !ok {
			fails = append(fails, fmt.Sprintf("a piped state stopped following its source although every step was left to settle: after %s: %s (bindings: %s)",
				strings.Join(hist, " "), what, strings.Join(desc, " ")))
			fails = append(fails, target.failures()...)
			return fails, line
		}
	}
	fails = append(fails, target.failures()...)
	return fails, line
}

type countTracer struct {
	*am.TracerNoOp
	n *atomic.Int32
}

func (t *countTracer) TransitionEnd(tx *am.Transition) {
	if tx.Mutation != nil && !tx.Mutation.IsCheck && !tx.Mutation.IsAuto {
		t.n.Add(1)
	}
}

// NetmachScenario: a local source piped into a real NetworkMachine; piped mutations are made while
// the previous piped activation is being executed on the remote machine.
func NetmachScenario(seed int64) (fails []string, line string) {
	r := rand.New(rand.NewSource(seed))
	line = fmt.Sprintf("netpipe seed=%d", seed)
	ctx, cancel := context.WithCancel(context.Background())
	defer cancel()
	// a net source with handlers carries the rpc source states
	names := am.SAdd(am.S{"T", "U"}, ssrpc.StateSourceStates.Names())
	remote := am.New(ctx, ssrpc.StateSourceSchema.Merge(am.Schema{"T": {}, "U": {}}), &am.Opts{Id: fmt.Sprintf("nrem%d", seed%100000), HandlerTimeout: 5 * time.Second})
	if err := remote.VerifyStates(names); err != nil {
		return []string{"setup: " + err.Error()}, line
	}
	// every piped delivery ends as one transition of the remote machine: a settle point is reached
	// when as many have ended as the source has produced (agreement alone can hold while an Add and
	// its Remove are both still on their way)
	var delivered atomic.Int32
	expected := 0
	remote.BindTracer(&countTracer{TracerNoOp: &am.TracerNoOp{Id: "verif-count"}, n: &delivered})
	var gateMu sync.Mutex
	var gate chan struct{}
	entered := make(chan struct{}, 4)
	_, err := remote.HandlersBindMaps(map[string]am.HandlerNegotiation{
		"TEnter": func(e *am.Event) bool {
			gateMu.Lock()
			g := gate
			gateMu.Unlock()
			if g != nil {
				select {
				case entered <- struct{}{}:
				default:
				}
				select {
				case <-g:
				case <-time.After(2 * time.Second):
				}
			}
			return true
		},
	}, nil, am.BindOpts{Id: "gate"})
	if err != nil {
		return []string{"setup: " + err.Error()}, line
	}
	l, err := net.Listen("tcp4", "127.0.0.1:0")
	if err != nil {
		return []string{"setup: " + err.Error()}, line
	}
	addr := l.Addr().String()
	srv, err := arpc.NewServer(ctx, addr, fmt.Sprintf("ns%d", seed%100000), remote, &arpc.ServerOpts{Parent: remote})
	if err != nil {
		l.Close()
		return []string{"setup: " + err.Error()}, line
	}
	var wl net.Listener = l
	srv.Listener.Store(&wl)
	iv := 3 * time.Millisecond
	srv.PushInterval.Store(&iv)
	cli, err := arpc.NewClient(ctx, addr, fmt.Sprintf("nc%d", seed%100000), remote.Schema(), &arpc.ClientOpts{})
	if err != nil {
		return []string{"setup: " + err.Error()}, line
	}
	srv.Start(nil)
	cli.Start(nil)
	defer func() {
		cli.Stop(ctx, nil, true)
		srv.Stop(nil, true)
		remote.Dispose()
	}()
	select {
	case <-cli.Mach.When1(ssrpc.ClientStates.Ready, nil):
	case <-time.After(5 * time.Second):
		return nil, line + " (client never Ready: skipped)"
	}
	nm := &safeNet{NetworkMachine: cli.NetMach}
	source := am.New(ctx, am.Schema{"S": {}, "V": {}}, &am.Opts{Id: fmt.Sprintf("nsrc%d", seed%100000)})
	defer source.Dispose()
	if _, err := ampipe.Bind(source, nm, "S", "T", ""); err != nil {
		return []string{"binding failed: " + err.Error()}, line
	}
	if _, err := ampipe.Bind(source, nm, "V", "U", ""); err != nil {
		return []string{"binding failed: " + err.Error()}, line
	}
	multiMu.Lock()
	Multi.NetScenarios++
	multiMu.Unlock()
	agree := func() (string, bool) {
		for _, p := range [][2]string{{"S", "T"}, {"V", "U"}} {
			if source.Is1(p[0]) != remote.Is1(p[1]) {
				return fmt.Sprintf("source %s active=%v, remote %s active=%v (network machine %s active=%v)", p[0], source.Is1(p[0]), p[1], remote.Is1(p[1]), p[1], nm.Is1(p[1])), false
			}
		}
		return "", true
	}
	var hist []string
	settleOK := func() bool {
		var what string
		ok := waitUntil(1500*time.Millisecond, func() bool {
			var o bool
			what, o = agree()
			return o && remote.QueueLen() == 0 && int(delivered.Load()) >= expected
		})
		if !ok {
			if what == "" {
				what = fmt.Sprintf("the remote machine executed %d piped mutations, the source made %d", delivered.Load(), expected)
			}
			fails = append(fails, fmt.Sprintf("the piped state on the remote machine stopped following the source: after %s: %s (every delivery had reached the remote machine, or was being executed there, before the next source operation)",
				strings.Join(hist, " "), what))
			fails = append(fails, nm.failures()...)
		}
		return ok
	}
	srcOp := func(add bool, st string) {
		was := source.Is1(st)
		if add {
			source.Add1(st, nil)
		} else {
			source.Remove1(st, nil)
		}
		if source.Is1(st) != was {
			expected++
		}
	}
	rounds := 2 + r.Intn(4)
	for i := 0; i < rounds; i++ {
		// plain steps, each left to settle
		for k := r.Intn(3); k > 0; k-- {
			st := []string{"S", "V"}[r.Intn(2)]
			if r.Intn(2) == 0 {
				srcOp(true, st)
				hist = append(hist, "+"+st)
			} else {
				srcOp(false, st)
				hist = append(hist, "-"+st)
			}
			if !settleOK() {
				return fails, line
			}
		}
		// the overlap: S is activated, the remote machine is still executing the piped Add (its
		// negotiation handler is held) when S is deactivated again
		if source.Is1("S") {
			srcOp(false, "S")
			hist = append(hist, "-S")
			if !settleOK() {
				return fails, line
			}
		}
		g := make(chan struct{})
		gateMu.Lock()
		gate = g
		gateMu.Unlock()
		for len(entered) > 0 {
			<-entered
		}
		srcOp(true, "S")
		hist = append(hist, "+S(held remotely)")
		select {
		case <-entered:
		case <-time.After(2 * time.Second):
			gateMu.Lock()
			gate = nil
			gateMu.Unlock()
			close(g)
			fails = append(fails, "the piped activation never reached the remote machine: after "+strings.Join(hist, " "))
			return fails, line
		}
		srcOp(false, "S")
		hist = append(hist, "-S")
		time.Sleep(time.Duration(10+r.Intn(60)) * time.Millisecond)
		gateMu.Lock()
		gate = nil
		gateMu.Unlock()
		close(g)
		multiMu.Lock()
		Multi.NetOverlaps++
		multiMu.Unlock()
		if !settleOK() {
			return fails, line
		}
	}
	return fails, line
}

// BusyTargetScenario: the piped mutation waits in the busy target's queue behind somebody else's
// mutation that names the same target state next to another one and is rejected as a whole (a
// Require of the other state is not met): the piped mutation must still take effect. Then the same
// for a removal.
func BusyTargetScenario(seed int64) (fails []string, line string) {
	r := rand.New(rand.NewSource(seed))
	line = fmt.Sprintf("busytarget seed=%d", seed)
	ctx, cancel := context.WithCancel(context.Background())
	defer cancel()
	source := am.New(ctx, am.Schema{"S1": {}}, &am.Opts{Id: fmt.Sprintf("bsrc%d", seed%100000)})
	target := &safeTarget{Machine: am.New(ctx, am.Schema{"T1": {}, "Z": {Require: am.S{"W"}}, "W": {}, "Busy": {Multi: true}}, &am.Opts{Id: fmt.Sprintf("btgt%d", seed%100000), HandlerTimeout: 5 * time.Second})}
	defer func() { source.Dispose(); target.Dispose() }()
	var gmu sync.Mutex
	var gate chan struct{}
	entered := make(chan struct{}, 2)
	if _, err := target.HandlersBindMaps(nil, map[string]am.HandlerFinal{"BusyState": func(e *am.Event) {
		gmu.Lock()
		g := gate
		gmu.Unlock()
		select {
		case entered <- struct{}{}:
		default:
		}
		if g != nil {
			select {
			case <-g:
			case <-time.After(2 * time.Second):
			}
		}
	}}, am.BindOpts{Id: "busy"}); err != nil {
		return []string{"setup: " + err.Error()}, line
	}
	if _, err := ampipe.Bind(source, target, "S1", "T1", ""); err != nil {
		return []string{"binding failed: " + err.Error()}, line
	}
	multiMu.Lock()
	Multi.BusyScenarios++
	multiMu.Unlock()
	round := func(add bool) bool {
		g := make(chan struct{})
		gmu.Lock()
		gate = g
		gmu.Unlock()
		for len(entered) > 0 {
			<-entered
		}
		go target.Add1("Busy", nil)
		select {
		case <-entered:
		case <-time.After(2 * time.Second):
			close(g)
			fails = append(fails, "setup: the target never became busy")
			return false
		}
		q0 := int(target.QueueLen())
		what := "Add(T1, Z)"
		// somebody else's mutation, queued first: rejected as a whole (Z requires W, which is not active)
		if add {
			target.Add(am.S{"T1", "Z"}, nil)
			source.Add1("S1", nil)
		} else {
			what = "Remove(T1, W) with Z... (third party) then the piped removal"
			target.Remove(am.S{"T1", "Busy"}, nil)
			source.Remove1("S1", nil)
		}
		// the piped mutation has reached the target's queue
		waitUntil(300*time.Millisecond, func() bool { return int(target.QueueLen()) >= q0+2 })
		time.Sleep(time.Duration(r.Intn(5)) * time.Millisecond)
		gmu.Lock()
		gate = nil
		gmu.Unlock()
		close(g)
		ok := waitUntil(700*time.Millisecond, func() bool {
			return target.QueueLen() == 0 && target.Is1("T1") == source.Is1("S1")
		})
		if !ok {
			fails = append(fails, fmt.Sprintf("a piped mutation was lost in the busy target's queue: it was queued behind %s made by somebody else; at quiescence the source state S1 is active=%v and the piped target state T1 is active=%v", what, source.Is1("S1"), target.Is1("T1")))
		}
		return ok
	}
	if !round(true) {
		return append(fails, target.failures()...), line
	}
	round(false)
	return append(fails, target.failures()...), line
}

// AnyScripts: the BindAny steps of the scenarios run so far, as lines for the Lean model
// (Pipes.bindAnyStep) with the target's active set the implementation ended with.
var AnyScripts struct {
	Lines, Obs []string
}

func idxList(names am.S, l am.S) string {
	var o []string
	for i, n := range names {
		for _, x := range l {
			if x == n {
				o = append(o, fmt.Sprint(i))
				break
			}
		}
	}
	if len(o) == 0 {
		return "-"
	}
	return strings.Join(o, ",")
}

// BindAnyScenario: "with BindAny the target's active set equals the source's" - every step is left
// to settle (BindAny calls the target from the source's AnyState handler, inline).
func BindAnyScenario(seed int64) (fails []string, line string) {
	r := rand.New(rand.NewSource(seed))
	line = fmt.Sprintf("bindany seed=%d", seed)
	ctx, cancel := context.WithCancel(context.Background())
	defer cancel()
	names := am.S{"A", "B", "C", "D"}
	sch := am.Schema{}
	for _, n := range names {
		sch[n] = am.State{}
	}
	source := am.New(ctx, sch, &am.Opts{Id: fmt.Sprintf("asrc%d", seed%100000)})
	target := &safeTarget{Machine: am.New(ctx, sch, &am.Opts{Id: fmt.Sprintf("atgt%d", seed%100000)})}
	defer func() { source.Dispose(); target.Dispose() }()
	if _, err := ampipe.BindAny(source, target); err != nil {
		return []string{"binding failed: " + err.Error()}, line
	}
	multiMu.Lock()
	Multi.AnyScenarios++
	multiMu.Unlock()
	var hist []string
	same := func() bool {
		for _, n := range names {
			if source.Is1(n) != target.Is1(n) {
				return false
			}
		}
		return true
	}
	for i, k := 0, 5+r.Intn(10); i < k; i++ {
		var st am.S
		for _, n := range names {
			if r.Intn(3) == 0 {
				st = append(st, n)
			}
		}
		if len(st) == 0 {
			st = am.S{names[r.Intn(len(names))]}
		}
		tgtBefore := target.ActiveStates(nil)
		srcBefore := fmt.Sprint(source.Time(nil))
		switch r.Intn(3) {
		case 0, 1:
			source.Add(st, nil)
			hist = append(hist, "+"+strings.Join(st, ","))
		default:
			source.Remove(st, nil)
			hist = append(hist, "-"+strings.Join(st, ","))
		}
		settled := waitUntil(500*time.Millisecond, func() bool { return target.QueueLen() == 0 && same() })
		if srcBefore != fmt.Sprint(source.Time(nil)) {
			// one accepted source transition = one run of BindAny's handler: replayed in the model
			time.Sleep(2 * time.Millisecond)
			multiMu.Lock()
			AnyScripts.Lines = append(AnyScripts.Lines, fmt.Sprintf("pipes any 1 0,1,2,3 %s %s", idxList(names, tgtBefore), idxList(names, source.ActiveStates(nil))))
			AnyScripts.Obs = append(AnyScripts.Obs, "target="+idxList(names, target.ActiveStates(nil)))
			multiMu.Unlock()
		}
		if !settled {
			fails = append(fails, fmt.Sprintf("BindAny: the target's active set differs from the source's although every step was left to settle: after %s the source holds %v and the target %v",
				strings.Join(hist, " "), source.ActiveStates(nil), target.ActiveStates(nil)))
			return fails, line
		}
	}
	return fails, line
}

// AutoRemoveScenario: the piped source state is deactivated by an Auto state's Remove relation (an
// auto transition, not a call naming the state): the target follows like for any deactivation.
func AutoRemoveScenario(seed int64) (fails []string, line string) {
	r := rand.New(rand.NewSource(seed))
	line = fmt.Sprintf("autoremove seed=%d", seed)
	ctx, cancel := context.WithCancel(context.Background())
	defer cancel()
	source := am.New(ctx, am.Schema{"Foo": {}, "Bar": {}, "Trig": {}, "Guard": {Auto: true, Require: am.S{"Trig"}, Remove: am.S{"Foo"}}},
		&am.Opts{Id: fmt.Sprintf("arsrc%d", seed%100000)})
	target := &safeTarget{Machine: am.New(ctx, am.Schema{"T1": {}, "T2": {}}, &am.Opts{Id: fmt.Sprintf("artgt%d", seed%100000)})}
	defer func() { source.Dispose(); target.Dispose() }()
	if _, err := ampipe.Bind(source, target, "Foo", "T1", ""); err != nil {
		return []string{"binding failed: " + err.Error()}, line
	}
	if _, err := ampipe.Bind(source, target, "Bar", "T2", ""); err != nil {
		return []string{"binding failed: " + err.Error()}, line
	}
	var hist []string
	agree := func() bool {
		return source.Is1("Foo") == target.Is1("T1") && source.Is1("Bar") == target.Is1("T2") && target.QueueLen() == 0
	}
	step := func(what string, f func()) bool {
		f()
		hist = append(hist, what)
		if !waitUntil(700*time.Millisecond, agree) {
			fails = append(fails, fmt.Sprintf("a piped state stopped following its source: after %s the source holds %v and the target %v (Guard is an Auto state that Removes Foo)",
				strings.Join(hist, " "), source.ActiveStates(nil), target.ActiveStates(nil)))
			fails = append(fails, target.failures()...)
			return false
		}
		return true
	}
	for i, k := 0, 2+r.Intn(3); i < k; i++ {
		if r.Intn(2) == 0 && !step("+Bar", func() { source.Add1("Bar", nil) }) {
			return fails, line
		}
		if !step("+Foo", func() { source.Add1("Foo", nil) }) {
			return fails, line
		}
		if !step("+Trig", func() { source.Add1("Trig", nil) }) {
			return fails, line
		}
		if !step("-Trig,Guard", func() { source.Remove(am.S{"Trig", "Guard"}, nil) }) {
			return fails, line
		}
	}
	return append(fails, target.failures()...), line
}
