package pipes

import (
	"fmt"
	"math/rand"
	"os"
	"path/filepath"
	"strings"
	"sync"
	"time"

	"amverif/core"
)

func GenCase(r *rand.Rand) Case {
	variants := []string{"bind", "bind", "bindmany", "bindready", "flat"}
	c := Case{Variant: variants[r.Intn(len(variants))], Local: r.Intn(3) != 0, MultiSrc: r.Intn(4) == 0, InitActive: r.Intn(3) == 0}
	if c.Variant == "flat" {
		c.Local = true
		c.MultiSrc = false
	}
	n := 3 + r.Intn(8)
	busy := false
	pendingRel := 0
	for i := 0; i < n; i++ {
		x := r.Intn(100)
		switch {
		case x < 30:
			op := "add"
			if r.Intn(5) == 0 && c.Variant != "flat" {
				op = "add!"
			}
			c.Steps = append(c.Steps, op)
			pendingRel++
		case x < 58:
			op := "remove"
			if r.Intn(6) == 0 && c.Variant != "flat" {
				op = "remove!"
			}
			c.Steps = append(c.Steps, op)
			pendingRel++
		case x < 72:
			if busy {
				c.Steps = append(c.Steps, "end")
			} else {
				c.Steps = append(c.Steps, "begin")
			}
			busy = !busy
		default:
			c.Steps = append(c.Steps, fmt.Sprintf("rel:%d", r.Intn(3)))
		}
	}
	c.Tag = c.Variant
	if !c.Local {
		c.Tag += "/netlike"
	}
	return c
}

func save(dir, name string, lines []string, header ...string) string {
	os.MkdirAll(dir, 0o755)
	p := filepath.Join(dir, name)
	var b strings.Builder
	for _, h := range header {
		b.WriteString("# " + h + "\n")
	}
	b.WriteString(strings.Join(lines, "\n") + "\n")
	os.WriteFile(p, []byte(b.String()), 0o644)
	return p
}

func LoadCase(path string) (Case, error) {
	b, err := os.ReadFile(path)
	if err != nil {
		return Case{}, err
	}
	return ParseCase(strings.Split(string(b), "\n"))
}

// Finding maps a monitor failure to the id of a recorded finding.
func Finding(c Case, run *Run, msg string) string {
	if !strings.HasPrefix(msg, "at joint quiescence") {
		return ""
	}
	if c.Variant == "flat" {
		if run.FlatSkipPending {
			return "C18-flat-skip-ignores-queue"
		}
		return ""
	}
	// only a delivery order that differs from the source's order is the recorded finding
	if run.Forked > 0 && run.Reordered {
		if c.Local {
			return "C18-forked-delivery-local"
		}
		return "C18-forked-delivery-netmach"
	}
	return ""
}

func shrink(c Case, pred func(Case) bool) Case {
	cur := c
	for changed := true; changed; {
		changed = false
		for i := len(cur.Steps) - 1; i >= 0; i-- {
			cand := cur
			cand.Steps = append(append([]string{}, cur.Steps[:i]...), cur.Steps[i+1:]...)
			if pred(cand) {
				cur, changed = cand, true
			}
		}
	}
	return cur
}

func RunPipeline(seed int64, tier, driver, outDir string, n int, search bool, corpus []string, rule string) *core.Result {
	t0 := time.Now()
	res := &core.Result{Prop: "C18", Seed: seed, Tier: tier, Tags: map[string]int{}, Ops: map[string]int{}, Results: map[string]int{}}
	var cases []Case
	for _, dir := range corpus {
		files, _ := filepath.Glob(filepath.Join(dir, "*.pcase"))
		for _, f := range files {
			if c, err := LoadCase(f); err == nil {
				c.Tag = "corpus"
				cases = append(cases, c)
			}
		}
	}
	res.CorpusCases = len(cases)
	// the schedules of the property, always
	cases = append(cases,
		Case{Variant: "bind", Local: true, Steps: []string{"begin", "add", "remove", "add", "end"}, Tag: "burst-while-busy"},
		Case{Variant: "bind", Local: true, Steps: []string{"add", "remove", "rel:1", "rel:0"}, Tag: "overtake"},
		Case{Variant: "bind", Local: false, Steps: []string{"add", "remove", "rel:1", "rel:0"}, Tag: "overtake/netlike"},
		Case{Variant: "flat", Local: true, InitActive: true, Steps: []string{"begin", "remove", "add", "end"}, Tag: "flat-busy"},
		Case{Variant: "bind", Local: true, Slow: true, Steps: []string{"add", "rel:0", "remove", "rel:0"}, Tag: "slow-target"},
		Case{Variant: "bindmany", Local: true, Slow: true, Steps: []string{"add", "rel:0", "remove", "rel:0", "add", "rel:0"}, Tag: "slow-target"},
	)
	r := rand.New(rand.NewSource(seed))
	for i := 0; i < n; i++ {
		cases = append(cases, GenCase(r))
	}
	runs := make([]*Run, len(cases))
	var wg sync.WaitGroup
	ch := make(chan int)
	for w := 0; w < 12; w++ {
		wg.Add(1)
		go func() {
			defer wg.Done()
			for i := range ch {
				runs[i] = Exec(cases[i], rule)
			}
		}()
	}
	for i := range cases {
		ch <- i
	}
	close(ch)
	wg.Wait()
	var mcases []core.Case
	for _, run := range runs {
		mcases = append(mcases, core.Case{Lines: run.Lines})
	}
	var model [][]string
	if !search {
		var err error
		model, err = core.RunModel(driver, mcases)
		if err != nil {
			res.Note = "model driver failed: " + err.Error()
			res.Disagreements = append(res.Disagreements, core.DisRec{Op: "driver", Model: err.Error()})
			res.WallS = time.Since(t0).Seconds()
			return res
		}
	}
	failSeen := map[string]bool{}
	seen := map[string]bool{}
	forked, synced, skipped := 0, 0, 0
	for i, run := range runs {
		c := cases[i]
		res.Cases++
		res.Tags[c.Tag]++
		res.Evaluations += len(run.Lines)
		forked += run.Forked
		synced += run.Sync
		skipped += run.Skipped
		for _, l := range run.Lines {
			f := strings.Fields(l)
			if len(f) > 2 {
				res.Ops[f[1]+":"+f[2]]++
			} else if len(f) > 1 {
				res.Ops[f[1]]++
			}
		}
		key := strings.Join(run.Lines, ";")
		if !seen[key] && len(run.Lines) > 3 {
			seen[key] = true
			res.DistinctNontrivial++
		}
		if len(res.Samples) < 3 && i >= res.CorpusCases+4 && len(run.Lines) > 4 {
			res.Samples = append(res.Samples, strings.Join(c.Lines(), "\n"))
		}
		if run.Err != "" {
			k := "err|" + run.Err
			if !failSeen[k] {
				failSeen[k] = true
				file := save(outDir, fmt.Sprintf("C18-seed%d-fail%d.pcase", seed, len(res.Failures)), c.Lines(), "pipes engine: "+run.Err)
				res.Failures = append(res.Failures, core.FailRec{Prop: "C18", Msg: run.Err, File: file})
			}
			continue
		}
		if !search {
			for j := range run.Obs {
				if j >= len(model[i]) || model[i][j] != run.Obs[j] {
					mo := ""
					if j < len(model[i]) {
						mo = model[i][j]
					}
					if len(res.Disagreements) < 5 {
						file := save(outDir, fmt.Sprintf("C18-seed%d-disagree%d.pcase", seed, len(res.Disagreements)), c.Lines(),
							fmt.Sprintf("pipes correspondence disagrees at step %d: %s", j, run.Lines[j]), "impl : "+run.Obs[j], "model: "+mo)
						res.Disagreements = append(res.Disagreements, core.DisRec{File: file, Line: j, Op: run.Lines[j], Impl: run.Obs[j], Model: mo})
					} else {
						res.Disagreements = append(res.Disagreements, core.DisRec{Line: j, Op: run.Lines[j]})
					}
					break
				}
			}
		}
		for _, msg := range run.Failures {
			fid := Finding(c, run, msg)
			k := fid + "|" + c.Variant + "|" + fmt.Sprint(c.Local) + "|" + strings.SplitN(msg, "(", 2)[0]
			if failSeen[k] {
				continue
			}
			failSeen[k] = true
			small := shrink(c, func(cc Case) bool {
				r2 := Exec(cc, rule)
				for _, m2 := range r2.Failures {
					if Finding(cc, r2, m2) == fid && strings.SplitN(m2, "(", 2)[0] == strings.SplitN(msg, "(", 2)[0] {
						return true
					}
				}
				return false
			})
			file := save(outDir, fmt.Sprintf("C18-seed%d-fail%d.pcase", seed, len(res.Failures)), small.Lines(),
				"monitor C18 failed on the real pipes: "+msg, "finding="+fid)
			res.Failures = append(res.Failures, core.FailRec{Prop: "C18", Finding: fid, Msg: msg, File: file})
		}
	}
	// several bindings on one source; a real network machine as the target (ground truth, search)
	nm, nn := 60, 8
	if tier == "thorough" {
		nm, nn = 1500, 150
	}
	if search {
		nm, nn = nm*3, nn*3
	}
	seenM := map[string]bool{}
	for i := 0; i < nm+nn; i++ {
		var fails []string
		var line string
		if i < nm && i%6 == 3 {
			fails, line = AutoRemoveScenario(seed*1000003 + int64(i))
		} else if i < nm && i%6 == 4 {
			fails, line = BindAnyScenario(seed*1000003 + int64(i))
		} else if i < nm && i%6 == 5 {
			fails, line = BusyTargetScenario(seed*1000003 + int64(i))
		} else if i < nm {
			fails, line = MultiBindScenario(seed*1000003 + int64(i))
		} else {
			fails, line = NetmachScenario(seed*1000003 + int64(i))
		}
		for _, f := range fails {
			k := strings.SplitN(f, ":", 2)[0]
			if seenM[k] {
				continue
			}
			seenM[k] = true
			file := filepath.Join(outDir, fmt.Sprintf("C18-seed%d-multi%d.mcase", seed, len(res.Failures)))
			os.WriteFile(file, []byte("# "+f+"\n"+line+"\n"), 0o644)
			res.Failures = append(res.Failures, core.FailRec{Prop: "C18", Msg: f + " [" + line + "]", File: file})
		}
	}
	// the BindAny steps against the Lean model
	if len(AnyScripts.Lines) > 0 && !search {
		model, err := core.RunModel(driver, []core.Case{{Lines: AnyScripts.Lines}})
		if err != nil {
			res.Disagreements = append(res.Disagreements, core.DisRec{Op: "driver", Model: err.Error()})
		} else {
			for j := range AnyScripts.Lines {
				if model[0][j] != AnyScripts.Obs[j] {
					file := filepath.Join(outDir, fmt.Sprintf("C18-seed%d-anydisagree.txt", seed))
					os.WriteFile(file, []byte("# BindAny: the real pipe and the Lean model (Pipes.bindAnyStep) disagree\n"+AnyScripts.Lines[j]+"\n# impl : "+AnyScripts.Obs[j]+"\n# model: "+model[0][j]+"\n"), 0o644)
					res.Disagreements = append(res.Disagreements, core.DisRec{File: file, Line: j, Op: AnyScripts.Lines[j], Impl: AnyScripts.Obs[j], Model: model[0][j]})
					break
				}
			}
		}
	}
	res.Evaluations += Multi.Steps + Multi.NetOverlaps + len(AnyScripts.Lines)
	res.Extra = map[string]any{"forked_deliveries": forked, "sync_deliveries": synced, "flat_skipped": skipped,
		"multi_binding_scenarios": Multi.Scenarios, "multi_binding_steps": Multi.Steps, "netmach_target_scenarios": Multi.NetScenarios,
		"netmach_overlapping_toggles": Multi.NetOverlaps, "busy_target_scenarios": Multi.BusyScenarios, "bindany_scenarios": Multi.AnyScenarios, "bindany_steps_replayed_in_the_model": len(AnyScripts.Lines)}
	res.WallS = time.Since(t0).Seconds()
	return res
}
