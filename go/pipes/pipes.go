// Package pipes drives the real pkg/states/pipes bindings between two real
// machines. The target is wrapped in an am.Api proxy that carries the schedule
// points: forked pipe calls park in the proxy and are released in a chosen
// order; synchronous calls pass through in the order they are made. Every
// delivery is replayed in the Lean model Am.Pipes and the target's observable
// state is compared after each step.
package pipes

import (
	"context"
	"fmt"
	"runtime"
	"sort"
	"strconv"
	"strings"
	"sync"
	"time"

	am "github.com/pancsta/asyncmachine-go/pkg/machine"
	ampipe "github.com/pancsta/asyncmachine-go/pkg/states/pipes"
)

type Case struct {
	Variant    string // bind bindmany bindready flat
	Local      bool   // what the proxy answers to IsLocal()
	MultiSrc   bool
	InitActive bool
	Slow       bool     // the target's handlers outlast the source's handler timeout
	Steps      []string // add add! remove remove! begin end rel:<i>
	Tag        string
}

func (c Case) Lines() []string {
	b := func(x bool) int {
		if x {
			return 1
		}
		return 0
	}
	return []string{
		fmt.Sprintf("pipe-case variant=%s local=%d multi=%d init=%d slow=%d", c.Variant, b(c.Local), b(c.MultiSrc), b(c.InitActive), b(c.Slow)),
		"steps " + strings.Join(c.Steps, " "),
	}
}

func ParseCase(lines []string) (Case, error) {
	var c Case
	for _, l := range lines {
		l = strings.TrimSpace(l)
		if l == "" || strings.HasPrefix(l, "#") {
			continue
		}
		t := strings.Fields(l)
		switch t[0] {
		case "pipe-case":
			for _, kv := range t[1:] {
				k, v, _ := strings.Cut(kv, "=")
				switch k {
				case "variant":
					c.Variant = v
				case "local":
					c.Local = v == "1"
				case "multi":
					c.MultiSrc = v == "1"
				case "slow":
					c.Slow = v == "1"
				case "init":
					c.InitActive = v == "1"
				}
			}
		case "steps":
			c.Steps = t[1:]
		default:
			return c, fmt.Errorf("bad line %q", l)
		}
	}
	if c.Variant == "" {
		return c, fmt.Errorf("incomplete pipe case")
	}
	return c, nil
}

type call struct {
	ord     int // index of the source event that caused the call
	add     bool
	hasArgs bool
	sync    bool
	release chan struct{}
	done    chan struct{}
}

type harness struct {
	mu      sync.Mutex
	order   map[string]int
	calls   []*call // in arrival order
	arrived chan struct{}
	srcName string
	tgtName string
	panics  []string
}

type proxy struct {
	*am.Machine
	h     *harness
	local bool
}

func (p *proxy) IsLocal() bool { return p.local }

// syncCall: is this call made directly from the pipe's final handler (rather
// than from a goroutine the handler forked)?
func syncCall() bool {
	buf := make([]byte, 8192)
	n := runtime.Stack(buf, false)
	s := string(buf[:n])
	if i := strings.Index(s, "created by "); i >= 0 {
		s = s[:i]
	}
	return strings.Contains(s, "pipes.add.func") || strings.Contains(s, "pipes.remove.func")
}

func (p *proxy) gate(add bool, args am.A, e *am.Event) *call {
	c := &call{add: add, hasArgs: len(args) > 0, sync: syncCall(), release: make(chan struct{}), done: make(chan struct{})}
	p.h.mu.Lock()
	c.ord = -1
	if e != nil {
		if o, ok := p.h.order[fmt.Sprintf("%s/%v", e.TransitionId, add)]; ok {
			c.ord = o
		}
	}
	p.h.calls = append(p.h.calls, c)
	p.h.mu.Unlock()
	select {
	case p.h.arrived <- struct{}{}:
	default:
	}
	if !c.sync {
		<-c.release
	}
	return c
}

// a panic of the piped call (it runs in a goroutine the pipe forked) would take the process down:
// it is kept as a failure of the scenario
func (p *proxy) caught(what string) {
	if r := recover(); r != nil {
		p.h.mu.Lock()
		p.h.panics = append(p.h.panics, fmt.Sprintf("the pipe's %s on the target panicked: %v", what, r))
		p.h.mu.Unlock()
	}
}

func (p *proxy) EvAdd(e *am.Event, states am.S, args am.A) (res am.Result) {
	c := p.gate(true, args, e)
	defer close(c.done)
	defer p.caught(fmt.Sprintf("EvAdd(%v)", states))
	return p.Machine.EvAdd(e, states, args)
}

func (p *proxy) EvRemove1(e *am.Event, state string, args am.A) (res am.Result) {
	c := p.gate(false, args, e)
	defer close(c.done)
	defer p.caught(fmt.Sprintf("EvRemove1(%s)", state))
	return p.Machine.EvRemove1(e, state, args)
}

type Run struct {
	Lines    []string // model script
	Obs      []string // implementation view in the model's output format
	Failures []string
	Err      string
	Forked   int
	Sync     int
	Skipped  int
	SrcFinal bool
	TgtFinal bool
	// Reordered: some forked call was delivered after a call of a later source event
	Reordered bool
	// FlatSkipPending: a flat pipe skipped a call while piped mutations were still queued
	FlatSkipPending bool
	maxOrd          int
}

func pendingT(m *am.Machine, t string) int {
	n := 0
	idx := m.Index1(t)
	for _, q := range m.Queue() {
		for _, c := range q.Called {
			if c == idx {
				n++
				break
			}
		}
	}
	return n
}

// Exec runs one case. `rule` ("new"/"old") only selects the model variant the
// script is written for; the implementation is whatever /repo contains.
func Exec(c Case, rule string) *Run {
	run := &Run{maxOrd: -1}
	ctx, cancel := context.WithCancel(context.Background())
	defer cancel()
	srcName, tgtName := "S", "T"
	if c.Variant == "bindready" {
		srcName = "Ready"
	}
	srcTimeout := 10 * time.Second
	if c.Slow {
		srcTimeout = 100 * time.Millisecond
	}
	source := am.New(ctx, am.Schema{srcName: {Multi: c.MultiSrc}, "S2": {}}, &am.Opts{Id: "src", HandlerTimeout: srcTimeout})
	target := am.New(ctx, am.Schema{tgtName: {Multi: c.MultiSrc}, "T2": {}, "Busy": {Multi: true}}, &am.Opts{Id: "tgt", HandlerTimeout: 10 * time.Second})
	defer func() {
		source.Dispose()
		target.Dispose()
	}()
	h := &harness{arrived: make(chan struct{}, 1), srcName: srcName, tgtName: tgtName, order: map[string]int{}}
	px := &proxy{Machine: target, h: h, local: c.Local}

	// target busy control
	var busyMu sync.Mutex
	var unblock chan struct{}
	entered := make(chan struct{}, 1)
	slow := func(e *am.Event) {
		if c.Slow {
			time.Sleep(300 * time.Millisecond)
		}
	}
	_, err := target.HandlersBindMaps(nil, map[string]am.HandlerFinal{
		tgtName + "State": slow,
		tgtName + "End":   slow,
		"BusyState": func(e *am.Event) {
			busyMu.Lock()
			ch := unblock
			busyMu.Unlock()
			entered <- struct{}{}
			if ch != nil {
				<-ch
			}
		},
	}, am.BindOpts{Id: "busy"})
	if err != nil {
		run.Err = err.Error()
		return run
	}
	// source event recorder (bound before the pipe)
	var evMu sync.Mutex
	var srcEvents []bool
	_, err = source.HandlersBindMaps(nil, map[string]am.HandlerFinal{
		srcName + "State": func(e *am.Event) {
			evMu.Lock()
			srcEvents = append(srcEvents, true)
			evMu.Unlock()
			h.mu.Lock()
			h.order[fmt.Sprintf("%s/%v", e.TransitionId, true)] = len(h.order)
			h.mu.Unlock()
		},
		srcName + "End": func(e *am.Event) {
			evMu.Lock()
			srcEvents = append(srcEvents, false)
			evMu.Unlock()
			h.mu.Lock()
			h.order[fmt.Sprintf("%s/%v", e.TransitionId, false)] = len(h.order)
			h.mu.Unlock()
		},
	}, am.BindOpts{Id: "rec"})
	if err != nil {
		run.Err = err.Error()
		return run
	}
	if c.InitActive {
		source.Add1(srcName, nil)
		target.Add1(tgtName, nil)
		evMu.Lock()
		srcEvents = nil
		evMu.Unlock()
	}
	flat := c.Variant == "flat"
	switch c.Variant {
	case "bind":
		_, err = ampipe.Bind(source, px, srcName, tgtName, "")
	case "bindmany":
		_, err = ampipe.BindMany(source, px, am.S{srcName, "S2"}, am.S{tgtName, "T2"})
	case "bindready":
		_, err = ampipe.BindReady(source, px, tgtName, "")
	case "flat":
		_, err = source.HandlersBindMaps(nil, map[string]am.HandlerFinal{
			srcName + "State": ampipe.AddFlat(source, px, srcName, tgtName),
			srcName + "End":   ampipe.RemoveFlat(source, px, srcName, tgtName),
		}, am.BindOpts{Id: "flatpipe"})
	default:
		err = fmt.Errorf("unknown variant %s", c.Variant)
	}
	if err != nil {
		run.Err = err.Error()
		return run
	}
	bi := func(x bool) int {
		if x {
			return 1
		}
		return 0
	}
	run.Lines = append(run.Lines, fmt.Sprintf("pipes init %s %d %d %d", rule, bi(flat), bi(c.InitActive), bi(c.MultiSrc)))
	run.Obs = append(run.Obs, "ok")
	busy := false
	observe := func(line string) {
		run.Lines = append(run.Lines, line)
		run.Obs = append(run.Obs, fmt.Sprintf("act=%d q=%d busy=%d", bi(target.Is1(tgtName)), pendingT(target, tgtName), bi(busy)))
	}
	evLine := func(add, args bool) string {
		k := "rem"
		if add {
			k = "add"
		}
		return fmt.Sprintf("pipes deliver %s %d", k, bi(args))
	}
	seenCalls := 0
	handled := map[*call]bool{}
	waitCall := func(cl *call) bool {
		select {
		case <-cl.done:
			return true
		case <-time.After(5 * time.Second):
			run.Err = "a pipe call never returned"
			return false
		}
	}
	for _, st := range c.Steps {
		if run.Err != "" {
			break
		}
		switch {
		case st == "begin":
			if busy {
				continue
			}
			busyMu.Lock()
			unblock = make(chan struct{})
			busyMu.Unlock()
			go target.Add1("Busy", nil)
			select {
			case <-entered:
			case <-time.After(5 * time.Second):
				run.Err = "target never became busy"
				continue
			}
			busy = true
			observe("pipes begin")
		case st == "end":
			if !busy {
				continue
			}
			ends := target.WhenQueueEnds()
			busyMu.Lock()
			close(unblock)
			unblock = nil
			busyMu.Unlock()
			select {
			case <-ends:
			case <-time.After(5 * time.Second):
				run.Err = "target queue never ended"
				continue
			}
			busy = false
			observe("pipes end")
		case strings.HasPrefix(st, "rel:"):
			i, _ := strconv.Atoi(st[4:])
			h.mu.Lock()
			var pending []*call
			for _, cl := range h.calls {
				if !cl.sync && !handled[cl] {
					pending = append(pending, cl)
				}
			}
			h.mu.Unlock()
			if len(pending) == 0 {
				continue
			}
			sort.SliceStable(pending, func(a, b int) bool { return pending[a].ord < pending[b].ord })
			cl := pending[i%len(pending)]
			handled[cl] = true
			close(cl.release)
			if !waitCall(cl) {
				continue
			}
			run.Forked++
			if cl.ord < run.maxOrd {
				run.Reordered = true
			}
			if cl.ord > run.maxOrd {
				run.maxOrd = cl.ord
			}
			observe(evLine(cl.add, cl.hasArgs))
		default:
			// a source operation
			var args am.A
			op := st
			if strings.HasSuffix(op, "!") {
				args = am.A{"x": 1}
				op = strings.TrimSuffix(op, "!")
			}
			evMu.Lock()
			before := len(srcEvents)
			evMu.Unlock()
			done := make(chan struct{})
			var opRes am.Result
			go func() {
				defer close(done)
				if op == "add" {
					opRes = source.Add1(srcName, args)
				} else {
					opRes = source.Remove1(srcName, args)
				}
			}()
			select {
			case <-done:
			case <-time.After(5 * time.Second):
				run.Err = "piping blocked the source mutation " + st
				continue
			}
			if opRes == am.Canceled {
				run.Failures = append(run.Failures, fmt.Sprintf("piping canceled the source mutation %s (source error: %v)", st, source.Err()))
			}
			evMu.Lock()
			evs := append([]bool{}, srcEvents[before:]...)
			evMu.Unlock()
			// forked calls may still be on their way to the gate: wait for them
			if len(evs) > 0 {
				deadline := time.Now().Add(2 * time.Second)
				for {
					h.mu.Lock()
					n := len(h.calls)
					h.mu.Unlock()
					if n >= seenCalls+len(evs) || flat || time.Now().After(deadline) {
						break
					}
					select {
					case <-h.arrived:
					case <-time.After(5 * time.Millisecond):
					}
				}
			}
			h.mu.Lock()
			newCalls := append([]*call{}, h.calls[seenCalls:]...)
			seenCalls = len(h.calls)
			h.mu.Unlock()
			if flat {
				// the flat check is part of the model step: one line per source event
				for _, cl := range newCalls {
					if cl.sync {
						handled[cl] = true
						waitCall(cl)
						run.Sync++
					}
				}
				run.Skipped += len(evs) - len(newCalls)
				if len(evs) > len(newCalls) && pendingT(target, tgtName) > 0 {
					run.FlatSkipPending = true
				}
				for _, e := range evs {
					observe(evLine(e, false))
				}
				continue
			}
			for _, cl := range newCalls {
				if cl.sync {
					handled[cl] = true
					waitCall(cl)
					run.Sync++
					observe(evLine(cl.add, cl.hasArgs))
				}
			}
		}
	}
	// quiescence: release what is still parked (in arrival order), end busy
	if run.Err == "" {
		h.mu.Lock()
		rest := append([]*call{}, h.calls...)
		h.mu.Unlock()
		sort.SliceStable(rest, func(a, b int) bool { return rest[a].ord < rest[b].ord })
		for _, cl := range rest {
			if !cl.sync && !handled[cl] {
				handled[cl] = true
				close(cl.release)
				if waitCall(cl) {
					run.Forked++
					if cl.ord < run.maxOrd {
						run.Reordered = true
					}
					if cl.ord > run.maxOrd {
						run.maxOrd = cl.ord
					}
					observe(evLine(cl.add, cl.hasArgs))
				}
			}
		}
		if busy {
			ends := target.WhenQueueEnds()
			busyMu.Lock()
			close(unblock)
			unblock = nil
			busyMu.Unlock()
			select {
			case <-ends:
			case <-time.After(5 * time.Second):
				run.Err = "target queue never ended"
			}
			busy = false
			observe("pipes end")
		}
	}
	// never leave parked goroutines behind
	h.mu.Lock()
	for _, cl := range h.calls {
		if !cl.sync && !handled[cl] {
			handled[cl] = true
			close(cl.release)
		}
	}
	h.mu.Unlock()
	if run.Err != "" {
		if strings.HasPrefix(run.Err, "piping blocked") {
			run.Failures = append(run.Failures, run.Err)
			run.Err = ""
		}
		return run
	}
	// joint quiescence
	for i := 0; i < 200 && (target.QueueLen() > 0 || source.QueueLen() > 0); i++ {
		time.Sleep(time.Millisecond)
	}
	if source.IsErr() {
		run.Failures = append(run.Failures, fmt.Sprintf("piping left the source machine in Exception: %v", source.Err()))
	}
	h.mu.Lock()
	run.Failures = append(run.Failures, h.panics...)
	h.mu.Unlock()
	run.SrcFinal, run.TgtFinal = source.Is1(srcName), target.Is1(tgtName)
	if run.SrcFinal != run.TgtFinal {
		run.Failures = append(run.Failures, fmt.Sprintf("at joint quiescence the source state is active=%v but the piped target state is active=%v (%s, local=%v)",
			run.SrcFinal, run.TgtFinal, c.Variant, c.Local))
	}
	return run
}
