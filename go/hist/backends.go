package hist

// The persistent backends (bbolt, badger, SQL through gorm) tracked side by side with the
// in-memory backend on the same machine: "the in-memory, bbolt, badger and SQL backends give the
// same answers for the same workload". The in-memory answers are the ones compared with the Lean
// model; here every backend must give the same list of records for every query.

import (
	"context"
	"fmt"
	"os"
	"strings"
	"time"

	amhist "github.com/pancsta/asyncmachine-go/pkg/history"
	ambadger "github.com/pancsta/asyncmachine-go/pkg/history/badger"
	ambbolt "github.com/pancsta/asyncmachine-go/pkg/history/bbolt"
	amgorm "github.com/pancsta/asyncmachine-go/pkg/history/gorm"
	am "github.com/pancsta/asyncmachine-go/pkg/machine"
)

type backend struct {
	name string
	api  amhist.MemoryApi
	errs []string
	stop func()
	// what a full query returned right after Sync (badger: compared again after a shutdown)
	synced []*amhist.MemoryRecord
}

type backends struct {
	dir  string
	list []*backend
	m    *am.Machine
	cfg  ambbolt.Config
}

// openBackends binds the three persistent histories to the machine (before the workload).
func openBackends(ctx context.Context, m *am.Machine, base amhist.BaseConfig, batch int32, which string) (*backends, error) {
	dir, err := os.MkdirTemp("/verif/out", "histdb")
	if err != nil {
		return nil, err
	}
	bs := &backends{dir: dir, m: m, cfg: ambbolt.Config{BaseConfig: base, QueueBatch: batch}}
	add := func(name string) *backend {
		b := &backend{name: name}
		bs.list = append(bs.list, b)
		return b
	}
	if strings.Contains(which, "bbolt") {
		b := add("bbolt")
		db, err := ambbolt.NewDb(dir + "/bbolt")
		if err != nil {
			bs.close()
			return nil, err
		}
		mem, err := ambbolt.NewMemory(ctx, db, m, ambbolt.Config{BaseConfig: base, QueueBatch: batch}, func(err error) { b.errs = append(b.errs, err.Error()) })
		if err != nil {
			db.Close()
			bs.close()
			return nil, err
		}
		b.api, b.stop = mem, func() { mem.Dispose() }
	}
	if strings.Contains(which, "badger") {
		b := add("badger")
		db, err := ambadger.NewDb(dir + "/badger")
		if err != nil {
			bs.close()
			return nil, err
		}
		mem, err := ambadger.NewMemory(ctx, db, m, ambadger.Config{BaseConfig: base, QueueBatch: batch}, func(err error) { b.errs = append(b.errs, err.Error()) })
		if err != nil {
			db.Close()
			bs.close()
			return nil, err
		}
		b.api, b.stop = mem, func() { mem.Dispose() }
	}
	if strings.Contains(which, "gorm") {
		b := add("gorm")
		db, sqlDb, err := amgorm.NewDb(dir+"/gorm", false)
		if err != nil {
			bs.close()
			return nil, err
		}
		mem, err := amgorm.NewMemory(ctx, db, m, amgorm.Config{BaseConfig: base, QueueBatch: batch}, func(err error) { b.errs = append(b.errs, err.Error()) })
		if err != nil {
			sqlDb.Close()
			bs.close()
			return nil, err
		}
		b.api, b.stop = mem, func() { mem.Dispose(); sqlDb.Close() }
	}
	return bs, nil
}

func (bs *backends) close() {
	for _, b := range bs.list {
		if b.stop != nil {
			func() {
				defer func() { recover() }()
				b.stop()
			}()
		}
	}
	os.RemoveAll(bs.dir)
}

type askedQuery struct {
	line  string
	q     amhist.Query
	limit int
	mem   string // the in-memory answer ("k=.. recs=..", "ERR", "PANIC ..")
}

// compare: Sync every backend, then ask every query and compare with the in-memory answer.
// wantAll = the number of records the in-memory log holds (no rotation happened when rotated is false).
func (bs *backends) compare(ctx context.Context, qs []askedQuery, bnd []time.Time, wantAll int, rotated bool, maxRec, batch int, run *Run) {
	for _, b := range bs.list {
		func() {
			defer func() {
				if p := recover(); p != nil {
					run.Failures = append(run.Failures, fmt.Sprintf("backend %s panic: %v", b.name, p))
				}
			}()
			if err := b.api.Sync(); err != nil {
				run.Failures = append(run.Failures, fmt.Sprintf("backend %s sync: failed, %v", b.name, err))
				return
			}
			// Sync "makes the new records appear in queries": everything tracked so far is visible
			all, err := b.api.FindLatest(ctx, false, 0, amhist.Query{})
			if err == nil && !rotated && len(all) != wantAll {
				// give a write-behind batch a moment, to tell a late write from a lost one
				time.Sleep(60 * time.Millisecond)
				all2, _ := b.api.FindLatest(ctx, false, 0, amhist.Query{})
				if len(all2) == wantAll {
					run.Failures = append(run.Failures, fmt.Sprintf("backend %s late write: right after Sync a query saw %d of the %d records (all of them 60ms later)", b.name, len(all), wantAll))
				} else {
					run.Failures = append(run.Failures, fmt.Sprintf("backend %s record count: %d records after Sync, the in-memory backend holds %d for the same workload", b.name, len(all2), wantAll))
				}
				return
			}
			if rotated {
				// persistent backends rotate in batches, after a flush, once 1.5 x MaxRecords were saved
				// since the last rotation: bounded, not exact
				bound := maxRec + maxRec*3/2 + 2*batch + 2
				if len(all) > bound {
					time.Sleep(80 * time.Millisecond) // a rotation may be running
					all, _ = b.api.FindLatest(ctx, false, 0, amhist.Query{})
				}
				if len(all) > bound {
					run.Failures = append(run.Failures, fmt.Sprintf("backend %s unbounded: %d records although MaxRecords is %d (write batch %d)", b.name, len(all), maxRec, batch))
				}
				if len(b.errs) > 0 {
					run.Failures = append(run.Failures, fmt.Sprintf("backend %s errors while rotating: %s", b.name, strings.Join(b.errs, "; ")))
				}
				return
			}
			for _, aq := range qs {
				if strings.HasPrefix(aq.mem, "PANIC") {
					continue
				}
				res, qerr := b.api.FindLatest(ctx, false, aq.limit, aq.q)
				var got string
				if qerr != nil {
					got = "ERR"
				} else {
					var rs []string
					for _, x := range res {
						rs = append(rs, recStr(x, bnd))
					}
					got = fmt.Sprintf("k=%d recs=%s", len(res), strings.Join(rs, ";"))
				}
				run.BkQueries++
				if got != aq.mem {
					if qerr != nil {
						got += " (" + qerr.Error() + ")"
					}
					run.Failures = append(run.Failures, fmt.Sprintf("backend %s query answer: differs from the in-memory backend for the same workload, %s => %s, in-memory: %s", b.name, aq.line, got, aq.mem))
					return
				}
			}
			if len(b.errs) > 0 {
				run.Failures = append(run.Failures, fmt.Sprintf("backend %s errors: %s", b.name, strings.Join(b.errs, "; ")))
			}
			// the process may stop right after Sync: what a fresh process finds in the store
			// (badger is an LSM store with background goroutines: a file-by-file copy of its live
			// directory is not a point-in-time image, so its store is reopened after a shutdown instead,
			// see afterShutdown)
			if bs.m != nil && b.name != "badger" {
				bs.reopen(ctx, b.name, all, bnd, run)
			} else if bs.m != nil {
				b.synced = all
			}
		}()
	}
}

// afterShutdown: the badger history is disposed (its store closed), then the store is opened by a
// fresh history on a fresh machine: the records that had been synced are all there.
func (bs *backends) afterShutdown(ctx context.Context, bnd []time.Time, run *Run) {
	for _, b := range bs.list {
		if b.name != "badger" || b.synced == nil || b.stop == nil {
			continue
		}
		func() {
			defer func() { recover() }()
			b.stop()
		}()
		b.stop = nil
		bs.reopen(ctx, "badger", b.synced, bnd, run)
	}
}

// copyTree copies files and directories whose name starts with prefix from dir to the same names
// with the prefix replaced.
func copyTree(dir, prefix, to string) error {
	ents, err := os.ReadDir(dir)
	if err != nil {
		return err
	}
	for _, e := range ents {
		if !strings.HasPrefix(e.Name(), prefix) {
			continue
		}
		src, dst := dir+"/"+e.Name(), dir+"/"+to+strings.TrimPrefix(e.Name(), prefix)
		if e.IsDir() {
			if err := os.MkdirAll(dst, 0o700); err != nil {
				return err
			}
			sub, err := os.ReadDir(src)
			if err != nil {
				return err
			}
			for _, f := range sub {
				if f.IsDir() || f.Name() == "LOCK" {
					continue
				}
				b, err := os.ReadFile(src + "/" + f.Name())
				if err != nil {
					return err
				}
				if err := os.WriteFile(dst+"/"+f.Name(), b, 0o600); err != nil {
					return err
				}
			}
			continue
		}
		b, err := os.ReadFile(src)
		if err != nil {
			return err
		}
		if err := os.WriteFile(dst, b, 0o600); err != nil {
			return err
		}
	}
	return nil
}

// reopen: a copy of the store as it is on disk right after Sync (the state a process stopped at
// this point leaves behind) is opened by a fresh history on a fresh machine of the same id; it
// must hold the records that had been synced.
func (bs *backends) reopen(ctx context.Context, name string, synced []*amhist.MemoryRecord, bnd []time.Time, run *Run) {
	crash := "crash" + name
	if err := copyTree(bs.dir, name, crash); err != nil {
		return
	}
	m2 := am.New(ctx, bs.m.Schema(), &am.Opts{Id: bs.m.Id()})
	defer m2.Dispose()
	if err := m2.VerifyStates(bs.m.StateNames()); err != nil {
		return
	}
	var errs []string
	onErr := func(err error) { errs = append(errs, err.Error()) }
	var mem amhist.MemoryApi
	switch name {
	case "bbolt":
		db, err := ambbolt.NewDb(bs.dir + "/" + crash)
		if err != nil {
			run.Failures = append(run.Failures, "backend bbolt reopen: the store left behind after Sync cannot be opened, "+err.Error())
			return
		}
		defer db.Close()
		x, err := ambbolt.NewMemory(ctx, db, m2, bs.cfg, onErr)
		if err != nil {
			run.Failures = append(run.Failures, "backend bbolt reopen: a fresh history cannot attach to the store left behind after Sync, "+err.Error())
			return
		}
		mem = x
	case "badger":
		db, err := ambadger.NewDb(bs.dir + "/" + crash)
		if err != nil {
			run.Failures = append(run.Failures, "backend badger reopen: the store left behind after Sync cannot be opened, "+err.Error())
			return
		}
		defer db.Close()
		x, err := ambadger.NewMemory(ctx, db, m2, ambadger.Config{BaseConfig: bs.cfg.BaseConfig, QueueBatch: bs.cfg.QueueBatch}, onErr)
		if err != nil {
			run.Failures = append(run.Failures, "backend badger reopen: a fresh history cannot attach to the store left behind after Sync, "+err.Error())
			return
		}
		mem = x
	case "gorm":
		db, sqlDb, err := amgorm.NewDb(bs.dir+"/"+crash, false)
		if err != nil {
			run.Failures = append(run.Failures, "backend gorm reopen: the store left behind after Sync cannot be opened, "+err.Error())
			return
		}
		defer sqlDb.Close()
		x, err := amgorm.NewMemory(ctx, db, m2, amgorm.Config{BaseConfig: bs.cfg.BaseConfig, QueueBatch: bs.cfg.QueueBatch}, onErr)
		if err != nil {
			run.Failures = append(run.Failures, "backend gorm reopen: a fresh history cannot attach to the store left behind after Sync, "+err.Error())
			return
		}
		mem = x
	default:
		return
	}
	got, err := mem.FindLatest(ctx, false, 0, amhist.Query{})
	if err != nil {
		run.Failures = append(run.Failures, "backend "+name+" reopen: query failed, "+err.Error())
		return
	}
	run.Reopened++
	if run.ReopenedBy == nil {
		run.ReopenedBy = map[string]int{}
	}
	run.ReopenedBy[name]++
	if len(got) != len(synced) {
		run.Failures = append(run.Failures, fmt.Sprintf("backend %s reopen: a process stopped right after Sync leaves %d records behind, %d had been synced", name, len(got), len(synced)))
		return
	}
	for i := range got {
		if recStr(got[i], bnd) != recStr(synced[i], bnd) {
			run.Failures = append(run.Failures, fmt.Sprintf("backend %s reopen: record %d differs after reopening: %s vs %s", name, i, recStr(got[i], bnd), recStr(synced[i], bnd)))
			return
		}
	}
}
