package hist

import (
	"fmt"
	"math/rand"
	"os"
	"path/filepath"
	"strings"
	"sync"
	"time"

	"amverif/core"
)

func GenCase(r *rand.Rand, tier string) Case {
	all := []string{"random", "chain", "blocked", "mutex", "autos", "multi", "sparse"}
	o := core.GenOpts{MaxStates: 6, MaxOps: 14, Handlers: 0.4, Nested: 0.15, Checks: 0.1, Motifs: all}
	if tier == "thorough" {
		o.MaxOps = 24
	}
	cc := core.GenCase(r, o)
	sch, _ := core.ParseSchemaLine(cc.Lines[0])
	n := len(sch.Names)
	sub := func(p float64) []int {
		var out []int
		for i := 0; i < n; i++ {
			if r.Float64() < p {
				out = append(out, i)
			}
		}
		return out
	}
	c := Case{Core: cc, QSeed: r.Int63n(1 << 40), NQ: 6 + r.Intn(8), Tag: cc.Tag}
	switch r.Intn(6) {
	case 0:
		c.Cfg.Tracked = sub(0.6)
	case 1:
		c.Cfg.Tracked = sub(0.5)
		c.Cfg.Called = sub(0.3)
		c.Cfg.CalledExclude = r.Intn(2) == 0
	case 2:
		c.Cfg.Tracked = sub(0.5)
		c.Cfg.Changed = sub(0.3)
		c.Cfg.ChangedExclude = r.Intn(2) == 0
	case 3:
		c.Cfg.Tracked = sub(0.4)
		c.Cfg.Called = sub(0.3)
		c.Cfg.CalledExclude = r.Intn(2) == 0
		c.Cfg.Changed = sub(0.3)
		c.Cfg.ChangedExclude = r.Intn(2) == 0
	case 4:
		c.Cfg.Tracked = sub(0.9)
	case 5:
		// duplicates and an unknown index in the tracked list
		c.Cfg.Tracked = append(sub(0.5), sub(0.3)...)
	}
	if len(c.Cfg.Tracked) == 0 && r.Intn(4) != 0 {
		c.Cfg.Tracked = []int{r.Intn(n)}
	}
	c.Cfg.TrackRejected = r.Intn(3) == 0
	c.Cfg.Max = []int{0, 1, 2, 3, 5, 8, 1000}[r.Intn(7)]
	return c
}

func save(dir, name string, lines []string, header ...string) string {
	os.MkdirAll(dir, 0o755)
	p := filepath.Join(dir, name)
	var b strings.Builder
	for _, h := range header {
		b.WriteString("# " + h + "\n")
	}
	b.WriteString(strings.Join(lines, "\n") + "\n")
	os.WriteFile(p, []byte(b.String()), 0o644)
	return p
}

func LoadCase(path string) (Case, error) {
	b, err := os.ReadFile(path)
	if err != nil {
		return Case{}, err
	}
	return ParseCase(strings.Split(string(b), "\n"))
}

func RunPipeline(seed int64, tier, driver, outDir string, n int, search bool, corpus []string) *core.Result {
	t0 := time.Now()
	res := &core.Result{Prop: "C17", Seed: seed, Tier: tier, Tags: map[string]int{}, Ops: map[string]int{}, Results: map[string]int{}}
	var cases []Case
	for _, dir := range corpus {
		files, _ := filepath.Glob(filepath.Join(dir, "*.hcase"))
		for _, f := range files {
			if c, err := LoadCase(f); err == nil {
				c.Tag = "corpus"
				cases = append(cases, c)
			}
		}
	}
	res.CorpusCases = len(cases)
	r := rand.New(rand.NewSource(seed))
	for i := 0; i < n; i++ {
		cases = append(cases, GenCase(r, tier))
	}
	// the persistent backends side by side with the in-memory one
	nbk := 24
	if tier == "thorough" {
		nbk = 300
	}
	if search {
		nbk *= 3
	}
	if n == 0 {
		nbk = 0 // replay of fixed cases only
	}
	for i := 0; i < nbk; i++ {
		c := GenCase(r, tier)
		c.Bk = "bbolt,badger,gorm"
		c.Batch = []int{1, 2, 3, 5, 100}[r.Intn(5)]
		if r.Intn(4) != 0 {
			c.Cfg.Max = 1000
		}
		c.Tag = "backends"
		cases = append(cases, c)
	}
	runs := make([]*Run, len(cases))
	var wg sync.WaitGroup
	ch := make(chan int)
	for w := 0; w < 12; w++ {
		wg.Add(1)
		go func() {
			defer wg.Done()
			for i := range ch {
				runs[i] = Exec(cases[i])
			}
		}()
	}
	for i := range cases {
		ch <- i
	}
	close(ch)
	wg.Wait()
	var mcases []core.Case
	for _, run := range runs {
		mcases = append(mcases, core.Case{Lines: run.Lines})
	}
	var model [][]string
	if !search {
		var err error
		model, err = core.RunModel(driver, mcases)
		if err != nil {
			res.Note = "model driver failed: " + err.Error()
			res.Disagreements = append(res.Disagreements, core.DisRec{Op: "driver", Model: err.Error()})
			res.WallS = time.Since(t0).Seconds()
			return res
		}
	}
	failSeen := map[string]bool{}
	seen := map[string]bool{}
	recs, qs, qhits, qerrs, rotated, bkq, reop := 0, 0, 0, 0, 0, 0, 0
	reopBy := map[string]int{}
	_ = reop
	for i, run := range runs {
		c := cases[i]
		res.Cases++
		res.Tags[c.Tag]++
		res.Evaluations += len(run.Lines)
		res.Transitions += run.Txs
		recs += run.Records
		qs += run.Queries
		qhits += run.QHits
		qerrs += run.QErrs
		bkq += run.BkQueries
		reop += run.Reopened
		for k, v := range run.ReopenedBy {
			reopBy[k] += v
		}
		if c.Cfg.Max > 0 && run.Txs > c.Cfg.Max && run.Records == c.Cfg.Max {
			rotated++
		}
		key := strings.Join(run.Lines, ";")
		if !seen[key] && run.Records > 0 {
			seen[key] = true
			res.DistinctNontrivial++
		}
		if len(res.Samples) < 2 && run.Records > 2 && i >= res.CorpusCases {
			res.Samples = append(res.Samples, strings.Join(c.Lines(), "\n"))
		}
		if run.Err != "" {
			res.Note += "impl error: " + run.Err + "; "
			continue
		}
		if !search {
			for j := range run.Obs {
				if j >= len(model[i]) || model[i][j] != run.Obs[j] {
					mo := ""
					if j < len(model[i]) {
						mo = model[i][j]
					}
					kind := strings.Join(strings.Fields(run.Lines[j])[:2], " ")
					if len(res.Disagreements) < 6 && !failSeen["dis|"+kind] {
						failSeen["dis|"+kind] = true
						file := save(outDir, fmt.Sprintf("C17-seed%d-disagree%d.hcase", seed, len(res.Disagreements)), c.Lines(),
							fmt.Sprintf("history correspondence disagrees at step %d: %s", j, run.Lines[j]), "impl : "+run.Obs[j], "model: "+mo)
						res.Disagreements = append(res.Disagreements, core.DisRec{File: file, Line: j, Op: run.Lines[j], Impl: run.Obs[j], Model: mo})
					} else {
						res.Disagreements = append(res.Disagreements, core.DisRec{Line: j, Op: run.Lines[j]})
					}
					break
				}
			}
		}
		for _, msg := range run.Failures {
			k := strings.SplitN(msg, ":", 2)[0]
			if failSeen[k] {
				continue
			}
			failSeen[k] = true
			file := save(outDir, fmt.Sprintf("C17-seed%d-fail%d.hcase", seed, len(res.Failures)), c.Lines(), "monitor C17 failed on the real code: "+msg)
			res.Failures = append(res.Failures, core.FailRec{Prop: "C17", Msg: msg, File: file})
		}
	}
	// bursts against a write batch of one, then Sync, shutdown, restart
	nbo := 24
	if tier == "thorough" {
		nbo = 400
	}
	boSeen := false
	for i := 0; i < nbo; i++ {
		fs, line := BatchOrderScenario(seed*100183 + int64(i))
		res.Evaluations++
		if len(fs) > 0 && !boSeen {
			boSeen = true
			file := filepath.Join(outDir, fmt.Sprintf("C17-seed%d-batchorder.bcase", seed))
			os.WriteFile(file, []byte("# "+fs[0]+"\n"+line+"\n"), 0o644)
			res.Failures = append(res.Failures, core.FailRec{Prop: "C17", Msg: fs[0] + " [" + line + "]", File: file})
		}
	}
	nsd, sdSeen := 12, false
	if tier == "thorough" {
		nsd = 150
	}
	for i := 0; i < nsd; i++ {
		fs, line := SharedDbScenario(seed*100207 + int64(i))
		res.Evaluations++
		if len(fs) > 0 && !sdSeen {
			sdSeen = true
			file := filepath.Join(outDir, fmt.Sprintf("C17-seed%d-shareddb.bcase", seed))
			os.WriteFile(file, []byte("# "+fs[0]+"\n"+line+"\n"), 0o644)
			res.Failures = append(res.Failures, core.FailRec{Prop: "C17", Msg: fs[0] + " [" + line + "]", File: file})
		}
	}
	res.Extra = map[string]any{"shared_db_scenarios": nsd, "batch_order_scenarios": nbo, "records": recs, "queries": qs, "queries_with_hits": qhits, "query_errors": qerrs, "cases_rotated_at_max": rotated, "backend_queries_compared": bkq, "stores_reopened_after_sync": reopBy}
	res.WallS = time.Since(t0).Seconds()
	return res
}
