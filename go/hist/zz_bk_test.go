package hist

import (
	"context"
	"fmt"
	"os"
	"testing"
	"time"

	amhist "github.com/pancsta/asyncmachine-go/pkg/history"
	ambadger "github.com/pancsta/asyncmachine-go/pkg/history/badger"
	ambbolt "github.com/pancsta/asyncmachine-go/pkg/history/bbolt"
	amgorm "github.com/pancsta/asyncmachine-go/pkg/history/gorm"
	am "github.com/pancsta/asyncmachine-go/pkg/machine"
)

func TestBackendsExplore(t *testing.T) {
	dir, _ := os.MkdirTemp("/verif/out", "histdb")
	defer os.RemoveAll(dir)
	ctx := context.Background()
	m := am.New(ctx, am.Schema{"A": {}, "B": {}, "C": {Multi: true}, "D": {Remove: am.S{"A"}}}, &am.Opts{Id: "bk1"})
	names := am.S{"A", "B", "C", "D", am.StateException}
	m.VerifyStates(names)
	base := amhist.BaseConfig{TrackedStates: am.S{"A", "B", "C"}, MaxRecords: 100, Called: am.S{"A", "C"}}
	onErr := func(err error) { fmt.Println("ERR", err) }
	mem, err := amhist.NewMemory(ctx, nil, m, base, onErr)
	fmt.Println("mem", err)
	bdb, err := ambbolt.NewDb(dir + "/bb")
	fmt.Println("bbolt db", err)
	bb, err := ambbolt.NewMemory(ctx, bdb, m, ambbolt.Config{BaseConfig: base, QueueBatch: 3}, onErr)
	fmt.Println("bbolt", err)
	gdb, err := ambadger.NewDb(dir + "/bg")
	fmt.Println("badger db", err)
	bg, err := ambadger.NewMemory(ctx, gdb, m, ambadger.Config{BaseConfig: base, QueueBatch: 3}, onErr)
	fmt.Println("badger", err)
	t0 := time.Now()
	sdb, _, err := amgorm.NewDb(dir+"/gm", false)
	fmt.Println("gorm db", err, time.Since(t0))
	gm, err := amgorm.NewMemory(ctx, sdb, m, amgorm.Config{BaseConfig: base, QueueBatch: 3}, onErr)
	fmt.Println("gorm", err, time.Since(t0))
	m.Add1("A", nil)
	m.Add1("B", nil)
	m.Add1("C", nil)
	m.Add1("C", nil)
	m.Add1("D", nil)
	m.Remove1("B", nil)
	m.Add1("A", nil)
	show := func(name string, a amhist.MemoryApi) {
		if err := a.Sync(); err != nil {
			fmt.Println(name, "sync err", err)
		}
		for _, q := range []amhist.Query{{}, {Active: am.S{"B"}}, {Activated: am.S{"C"}}, {Inactive: am.S{"A"}}} {
			res, err := a.FindLatest(ctx, false, 100, q)
			s := ""
			for _, r := range res {
				s += fmt.Sprintf(" [%d %v]", r.Time.MTimeSum, r.Time.MTimeTracked)
			}
			fmt.Printf("%s q=%v/%v/%v err=%v k=%d%s\n", name, q.Active, q.Activated, q.Inactive, err, len(res), s)
		}
	}
	show("memory", mem)
	show("bbolt ", bb)
	show("badger", bg)
	show("gorm  ", gm)
}
