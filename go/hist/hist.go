// Package hist ties pkg/history (in-memory backend first) and
// Machine.Export/Import to the Lean model Am.Hist: a generated workload runs on
// a real machine tracked by the real history memory; an independent tracer
// records what every transition looked like and hands it to the model; the
// store after every transition, every FindLatest answer and the imported
// machine are compared.
package hist

import (
	"context"
	"fmt"
	"math/rand"
	"sort"
	"strconv"
	"strings"
	"sync"
	"time"

	"amverif/core"

	amhist "github.com/pancsta/asyncmachine-go/pkg/history"
	am "github.com/pancsta/asyncmachine-go/pkg/machine"
)

type Cfg struct {
	Called, Changed, Tracked []int
	CalledExclude            bool
	ChangedExclude           bool
	TrackRejected            bool
	Max                      int
}

type Cond struct {
	Slot, Sum, TrackedSum, Diff, TrackedDiff, RecordDiff, MachTick int
	MTime                                                          []int
}

func (c Cond) String() string {
	return fmt.Sprintf("%d/%d/%d/%d/%d/%d/%d/%s", c.Slot, c.Sum, c.TrackedSum, c.Diff, c.TrackedDiff, c.RecordDiff, c.MachTick, core.ShowList(c.MTime))
}

type Query struct {
	Limit                                         int
	Active, Activated, Inactive, Deactivated, MTS []int // positions in the tracked list
	Start, End                                    Cond
}

func (q Query) Line() string {
	return fmt.Sprintf("hist find %d %s %s %s %s %s %s %s", q.Limit, core.ShowList(q.Active), core.ShowList(q.Activated),
		core.ShowList(q.Inactive), core.ShowList(q.Deactivated), core.ShowList(q.MTS), q.Start, q.End)
}

type Case struct {
	Core    core.Case
	Cfg     Cfg
	Queries []Query
	QSeed   int64 // queries derived from the produced records
	NQ      int
	Tag     string
	Bk      string // persistent backends tracked side by side ("bbolt,badger,gorm" or a subset)
	Batch   int    // their write-behind batch size
}

func b01(x bool) int {
	if x {
		return 1
	}
	return 0
}

func (c Case) Lines() []string {
	out := []string{fmt.Sprintf("hist-case called=%s cx=%d changed=%s chx=%d rej=%d tracked=%s max=%d qseed=%d nq=%d",
		core.ShowList(c.Cfg.Called), b01(c.Cfg.CalledExclude), core.ShowList(c.Cfg.Changed), b01(c.Cfg.ChangedExclude),
		b01(c.Cfg.TrackRejected), core.ShowList(c.Cfg.Tracked), c.Cfg.Max, c.QSeed, c.NQ)}
	if c.Bk != "" {
		out[0] += fmt.Sprintf(" bk=%s batch=%d", c.Bk, c.Batch)
	}
	for _, q := range c.Queries {
		out = append(out, "query "+strings.TrimPrefix(q.Line(), "hist find "))
	}
	return append(out, c.Core.Lines...)
}

func parseList(s string) []int {
	if s == "" || s == "-" {
		return nil
	}
	var out []int
	for _, p := range strings.Split(s, ",") {
		if v, err := strconv.Atoi(p); err == nil {
			out = append(out, v)
		}
	}
	return out
}

func parseCond(s string) Cond {
	p := strings.Split(s, "/")
	var c Cond
	if len(p) != 8 {
		return c
	}
	at := func(i int) int { v, _ := strconv.Atoi(p[i]); return v }
	c.Slot, c.Sum, c.TrackedSum, c.Diff, c.TrackedDiff, c.RecordDiff, c.MachTick = at(0), at(1), at(2), at(3), at(4), at(5), at(6)
	c.MTime = parseList(p[7])
	return c
}

func ParseCase(lines []string) (Case, error) {
	var c Case
	for _, l := range lines {
		l = strings.TrimSpace(l)
		if l == "" || strings.HasPrefix(l, "#") {
			continue
		}
		t := strings.Fields(l)
		switch t[0] {
		case "hist-case":
			for _, kv := range t[1:] {
				k, v, _ := strings.Cut(kv, "=")
				switch k {
				case "called":
					c.Cfg.Called = parseList(v)
				case "cx":
					c.Cfg.CalledExclude = v == "1"
				case "changed":
					c.Cfg.Changed = parseList(v)
				case "chx":
					c.Cfg.ChangedExclude = v == "1"
				case "rej":
					c.Cfg.TrackRejected = v == "1"
				case "tracked":
					c.Cfg.Tracked = parseList(v)
				case "max":
					c.Cfg.Max, _ = strconv.Atoi(v)
				case "qseed":
					c.QSeed, _ = strconv.ParseInt(v, 10, 64)
				case "nq":
					c.NQ, _ = strconv.Atoi(v)
				case "bk":
					c.Bk = v
				case "batch":
					c.Batch, _ = strconv.Atoi(v)
				}
			}
		case "query":
			if len(t) == 9 {
				q := Query{Active: parseList(t[2]), Activated: parseList(t[3]), Inactive: parseList(t[4]), Deactivated: parseList(t[5]),
					MTS: parseList(t[6]), Start: parseCond(t[7]), End: parseCond(t[8])}
				q.Limit, _ = strconv.Atoi(t[1])
				c.Queries = append(c.Queries, q)
			}
		default:
			c.Core.Lines = append(c.Core.Lines, l)
		}
	}
	if len(c.Core.Lines) == 0 {
		return c, fmt.Errorf("incomplete hist case")
	}
	return c, nil
}

type txRec struct {
	acc, chk      bool
	called        []int
	before, after []uint64
	mtick         uint32
	slot          int
	mutType       int
	implN         int
	implLast      string
}

type recTracer struct {
	*am.TracerNoOp
	mu   sync.Mutex
	m    *am.Machine
	mem  *amhist.Memory
	slot *int
	txs  []txRec
	bnd  *[]time.Time
}

func u64s(t []uint64) string {
	if len(t) == 0 {
		return "-"
	}
	s := make([]string, len(t))
	for i, v := range t {
		s[i] = strconv.FormatUint(v, 10)
	}
	return strings.Join(s, ",")
}

func slotOf(bnd []time.Time, t time.Time) int {
	// slot k (1-based) covers [bnd[k-1], bnd[k])
	s := 0
	for i, b := range bnd {
		if !t.Before(b) {
			s = i + 1
		}
	}
	return s
}

func recStr(r *amhist.MemoryRecord, bnd []time.Time) string {
	t := r.Time
	return fmt.Sprintf("%d/%d/%d/%d/%d/%d/%d/%d/%s/%s", int(t.MutType), t.MTimeSum, t.MTimeTrackedSum, t.MTimeDiffSum,
		t.MTimeTrackedDiffSum, t.MTimeRecordDiffSum, t.MachTick, slotOf(bnd, t.HTime), u64s(t.MTimeTracked), u64s(t.MTimeTrackedDiff))
}

func (t *recTracer) TransitionEnd(tx *am.Transition) {
	r := txRec{acc: tx.IsAccepted.Load(), chk: tx.Mutation.IsCheck, before: append([]uint64{}, tx.TimeBefore...),
		after: append([]uint64{}, tx.TimeAfter...), mtick: t.m.MachineTick(), slot: *t.slot, mutType: int(tx.Mutation.Type)}
	r.called = t.m.Index(tx.CalledStates())
	db := t.mem.Export()
	r.implN = len(db)
	r.implLast = "-"
	if len(db) > 0 {
		r.implLast = recStr(db[len(db)-1], *t.bnd)
	}
	t.mu.Lock()
	t.txs = append(t.txs, r)
	t.mu.Unlock()
}

type Run struct {
	Lines      []string
	Obs        []string
	Failures   []string
	Err        string
	Records    int
	Txs        int
	Queries    int
	QHits      int
	QErrs      int
	BkQueries  int
	Reopened   int
	ReopenedBy map[string]int
}

func names(all am.S, idx []int) am.S {
	out := am.S{}
	for _, i := range idx {
		if i >= 0 && i < len(all) {
			out = append(out, all[i])
		} else {
			out = append(out, "Nope"+strconv.Itoa(i))
		}
	}
	return out
}

// Exec runs one case on the real machine + in-memory history.
func Exec(c Case) *Run {
	run := &Run{}
	sch, err := core.ParseSchemaLine(c.Core.Lines[0])
	if err != nil {
		run.Err = err.Error()
		return run
	}
	r, err := core.NewRunner(sch, 3*time.Second)
	if err != nil {
		run.Err = err.Error()
		return run
	}
	defer r.Close()
	m := r.M
	all := m.StateNames()
	n := len(all)
	ctx := context.Background()
	cfg := amhist.BaseConfig{
		Called: names(all, c.Cfg.Called), CalledExclude: c.Cfg.CalledExclude,
		Changed: names(all, c.Cfg.Changed), ChangedExclude: c.Cfg.ChangedExclude,
		TrackRejected: c.Cfg.TrackRejected, TrackedStates: names(all, c.Cfg.Tracked), MaxRecords: c.Cfg.Max,
	}
	mem, err := amhist.NewMemory(ctx, nil, m, cfg, func(err error) {})
	cfgLine := fmt.Sprintf("hist cfg n=%d called=%s cx=%d changed=%s chx=%d rej=%d tracked=%s max=%d", n,
		core.ShowList(c.Cfg.Called), b01(c.Cfg.CalledExclude), core.ShowList(c.Cfg.Changed), b01(c.Cfg.ChangedExclude),
		b01(c.Cfg.TrackRejected), core.ShowList(c.Cfg.Tracked), c.Cfg.Max)
	run.Lines = append(run.Lines, cfgLine)
	if err != nil {
		// "no states to track"
		run.Obs = append(run.Obs, "tracked=-")
		return run
	}
	tracked := m.Index(mem.Config().TrackedStates)
	run.Obs = append(run.Obs, "tracked="+core.ShowList(tracked))
	var bks *backends
	if c.Bk != "" {
		batch := int32(c.Batch)
		if batch <= 0 {
			batch = 3
		}
		bks, err = openBackends(ctx, m, cfg, batch, c.Bk)
		if err != nil {
			run.Err = "backends: " + err.Error()
			return run
		}
		defer bks.close()
	}
	slot := 0
	var bnd []time.Time
	tr := &recTracer{TracerNoOp: &am.TracerNoOp{Id: "ref"}, m: m, mem: mem, slot: &slot, bnd: &bnd}
	m.BindTracer(tr)
	for _, l := range c.Core.Lines[1:] {
		time.Sleep(30 * time.Microsecond)
		bnd = append(bnd, time.Now().UTC())
		time.Sleep(30 * time.Microsecond)
		slot++
		o := r.Step(l)
		if o.Crash != "" {
			break
		}
		if bks != nil && c.Cfg.Max > 0 && c.Cfg.Max < 1000 {
			// rotation of the persistent backends is decided at flush time from what has been written
			// so far (write-behind, ~10ms batches): a paced workload, so that "bounded" is decidable
			time.Sleep(12 * time.Millisecond)
		}
	}
	time.Sleep(30 * time.Microsecond)
	bnd = append(bnd, time.Now().UTC())
	tr.mu.Lock()
	txs := append([]txRec{}, tr.txs...)
	tr.mu.Unlock()
	run.Txs = len(txs)
	for _, t := range txs {
		run.Lines = append(run.Lines, fmt.Sprintf("hist tx %d %d %s %s %s %d %d %d", b01(t.acc), b01(t.chk), core.ShowList(t.called),
			u64s(t.before), u64s(t.after), t.mtick, t.slot, t.mutType))
		run.Obs = append(run.Obs, fmt.Sprintf("n=%d last=%s", t.implN, t.implLast))
	}
	db := mem.Export()
	run.Records = len(db)
	// queries: given + derived from the records
	qs := append([]Query{}, c.Queries...)
	qr := rand.New(rand.NewSource(c.QSeed))
	for i := 0; i < c.NQ; i++ {
		qs = append(qs, genQuery(qr, db, len(tracked), slot, bnd))
	}
	tn := mem.Config().TrackedStates
	pos := func(p []int) am.S {
		out := am.S{}
		for _, i := range p {
			if i >= 0 && i < len(tn) {
				out = append(out, tn[i])
			} else {
				out = append(out, "Untracked"+strconv.Itoa(i))
			}
		}
		return out
	}
	mkCond := func(cd Cond, end bool) amhist.ConditionTime {
		ct := amhist.ConditionTime{MTimeSum: uint64(cd.Sum), MTimeTrackedSum: uint64(cd.TrackedSum), MTimeDiff: uint64(cd.Diff),
			MTimeTrackedDiff: uint64(cd.TrackedDiff), MTimeRecordDiff: uint64(cd.RecordDiff), MachTick: uint32(cd.MachTick)}
		for _, v := range cd.MTime {
			ct.MTime = append(ct.MTime, uint64(v))
		}
		if cd.Slot > 0 && cd.Slot <= len(bnd) {
			if end {
				// the end of slot k is just before the start of slot k+1
				if cd.Slot < len(bnd) {
					ct.HTime = bnd[cd.Slot].Add(-time.Nanosecond)
				} else {
					ct.HTime = bnd[len(bnd)-1].Add(time.Hour)
				}
			} else {
				ct.HTime = bnd[cd.Slot-1]
			}
		}
		return ct
	}
	var asked []askedQuery
	for _, q := range qs {
		run.Queries++
		aq := amhist.Query{Active: pos(q.Active), Activated: pos(q.Activated), Inactive: pos(q.Inactive), Deactivated: pos(q.Deactivated),
			Start: mkCond(q.Start, false), End: mkCond(q.End, true)}
		aq.Start.MTimeStates = pos(q.MTS)
		aq.End.MTimeStates = pos(q.MTS)
		var res []*amhist.MemoryRecord
		var qerr error
		crash := ""
		func() {
			defer func() {
				if p := recover(); p != nil {
					crash = fmt.Sprint(p)
				}
			}()
			res, qerr = mem.FindLatest(ctx, false, q.Limit, aq)
		}()
		run.Lines = append(run.Lines, q.Line())
		switch {
		case crash != "":
			run.Obs = append(run.Obs, "PANIC "+crash)
		case qerr != nil:
			run.QErrs++
			run.Obs = append(run.Obs, "ERR")
		default:
			var rs []string
			for _, x := range res {
				rs = append(rs, recStr(x, bnd))
			}
			if len(res) > 0 {
				run.QHits++
			}
			run.Obs = append(run.Obs, fmt.Sprintf("k=%d recs=%s", len(res), strings.Join(rs, ";")))
		}
		asked = append(asked, askedQuery{line: q.Line(), q: aq, limit: q.Limit, mem: run.Obs[len(run.Obs)-1]})
	}
	if bks != nil {
		mr := c.Cfg.Max
		if mr <= 0 {
			mr = 1000
		}
		matched := 0
		for _, t := range txs {
			if specMatches(c.Cfg, t) {
				matched++
			}
		}
		bb := c.Batch
		if bb <= 0 {
			bb = 3
		}
		bks.compare(ctx, asked, bnd, len(db), matched > mr, mr, bb, run)
		bks.afterShutdown(ctx, bnd, run)
	}
	// Export / Import
	ser, _, err := m.Export()
	if err == nil {
		m2ctx, cancel := context.WithCancel(ctx)
		defer cancel()
		// a fresh machine of the same schema: its own (sorted) state order, not the exporter's
		m2 := am.New(m2ctx, m.Schema(), &am.Opts{Id: m.Id()})
		done := make(chan error, 1)
		go func() { done <- m2.Import(ser) }()
		line := fmt.Sprintf("hist import %s %d", u64s(ser.Time), ser.MachineTick)
		run.Lines = append(run.Lines, line)
		select {
		case ierr := <-done:
			if ierr != nil {
				run.Obs = append(run.Obs, "IMPORT-ERR "+ierr.Error())
			} else {
				// read the imported machine by state name, report in the exporter's order
				var clk2 []uint64
				var act []int
				for i, name := range all {
					clk2 = append(clk2, m2.Tick(name))
					if m2.Is1(name) {
						act = append(act, i)
					}
				}
				run.Obs = append(run.Obs, fmt.Sprintf("clock=%s act=%s mtick=%d", u64s(clk2), core.ShowList(act), m2.MachineTick()))
				// the property in its own words
				if u64s(clk2) != u64s(m.Time(nil)) {
					run.Failures = append(run.Failures, fmt.Sprintf("a machine rebuilt with Import from an Export has different ticks: %v vs %v", clk2, m.Time(nil)))
				}
				a1 := m.Index(m.ActiveStates(nil))
				sort.Ints(a1)
				if core.ShowList(a1) != core.ShowList(act) {
					run.Failures = append(run.Failures, fmt.Sprintf("a machine rebuilt with Import from an Export has different active states: %v vs %v", act, a1))
				}
				if m2.MachineTick() != m.MachineTick()+1 {
					run.Failures = append(run.Failures, "the imported machine's machine tick is not one higher")
				}
			}
		case <-time.After(3 * time.Second):
			run.Obs = append(run.Obs, "IMPORT-HANG")
		}
		m2.Dispose()
	}
	// the property in its own words, on the real store
	want := 0
	maxRec := c.Cfg.Max
	if maxRec <= 0 {
		maxRec = 1000
	}
	for i, t := range txs {
		if specMatches(c.Cfg, t) {
			want++
		}
		exp := want
		if exp > maxRec {
			exp = maxRec
		}
		if t.implN != exp {
			run.Failures = append(run.Failures, fmt.Sprintf("after transition %d (called %v, accepted %v) the log holds %d records, but %d transitions matched the configuration (MaxRecords %d)",
				i, t.called, t.acc, t.implN, want, maxRec))
			break
		}
		if specMatches(c.Cfg, t) && t.implN > 0 {
			// the newest record carries the machine time after that transition on the tracked states
			var tt []uint64
			for _, ix := range tracked {
				tt = append(tt, t.after[ix])
			}
			f := strings.Split(t.implLast, "/")
			if len(f) == 10 && f[8] != u64s(tt) {
				run.Failures = append(run.Failures, fmt.Sprintf("the record of transition %d has tracked times %s, the machine time after it was %s", i, f[8], u64s(tt)))
				break
			}
		}
	}
	if c.Cfg.Max > 0 && len(db) > c.Cfg.Max {
		run.Failures = append(run.Failures, fmt.Sprintf("the in-memory log holds %d records, MaxRecords is %d", len(db), c.Cfg.Max))
	}
	return run
}

func genQuery(r *rand.Rand, db []*amhist.MemoryRecord, ntracked, slots int, bnd []time.Time) Query {
	var q Query
	q.Limit = []int{0, 0, 1, 2, 5}[r.Intn(5)]
	pick := func() []int {
		if ntracked == 0 {
			return nil
		}
		k := 1
		if r.Intn(4) == 0 {
			k = 2
		}
		var out []int
		for i := 0; i < k; i++ {
			out = append(out, r.Intn(ntracked))
		}
		return out
	}
	switch r.Intn(8) {
	case 0:
		q.Active = pick()
	case 1:
		q.Activated = pick()
	case 2:
		q.Inactive = pick()
	case 3:
		q.Deactivated = pick()
	case 4:
		q.Active, q.Inactive = pick(), pick()
	case 5:
		q.Activated, q.Active = pick(), pick()
	}
	if r.Intn(12) == 0 {
		// malformed: a position that is not tracked
		q.Active = append(q.Active, ntracked+1+r.Intn(2))
	}
	val := func(f func(*amhist.TimeRecord) uint64) (int, int) {
		if len(db) == 0 {
			return 1 + r.Intn(3), 2 + r.Intn(5)
		}
		a := int(f(db[r.Intn(len(db))].Time))
		b := int(f(db[r.Intn(len(db))].Time))
		if a > b {
			a, b = b, a
		}
		if r.Intn(4) == 0 {
			b += r.Intn(3)
		}
		return a, b
	}
	switch r.Intn(10) {
	case 0:
		q.Start.Sum, q.End.Sum = val(func(t *amhist.TimeRecord) uint64 { return t.MTimeSum })
	case 1:
		q.Start.TrackedSum, q.End.TrackedSum = val(func(t *amhist.TimeRecord) uint64 { return t.MTimeTrackedSum })
	case 2:
		q.Start.Diff, q.End.Diff = val(func(t *amhist.TimeRecord) uint64 { return t.MTimeDiffSum })
	case 3:
		q.Start.TrackedDiff, q.End.TrackedDiff = val(func(t *amhist.TimeRecord) uint64 { return t.MTimeTrackedDiffSum })
	case 4:
		q.Start.RecordDiff, q.End.RecordDiff = val(func(t *amhist.TimeRecord) uint64 { return t.MTimeRecordDiffSum })
	case 5:
		if slots > 0 {
			a, b := 1+r.Intn(slots), 1+r.Intn(slots)
			if a > b {
				a, b = b, a
			}
			q.Start.Slot, q.End.Slot = a, b
		}
	case 6:
		if ntracked > 0 && len(db) > 0 {
			q.MTS = pick()
			r1, r2 := db[r.Intn(len(db))].Time.MTimeTracked, db[r.Intn(len(db))].Time.MTimeTracked
			for _, p := range q.MTS {
				a, b := int(r1[p]), int(r2[p])
				if a > b {
					a, b = b, a
				}
				q.Start.MTime = append(q.Start.MTime, a)
				q.End.MTime = append(q.End.MTime, b)
			}
		}
	}
	return q
}

// specMatches: the match rule in the words of the configuration's documentation
// as the in-memory tracer reads it (first listed name decides; Changed after Called).
func specMatches(c Cfg, t txRec) bool {
	if (!t.acc && !c.TrackRejected) || t.chk {
		return false
	}
	has := func(l []int, x int) bool {
		for _, y := range l {
			if x == y {
				return true
			}
		}
		return false
	}
	var changed []int
	for i := range t.after {
		if i < len(t.before) && t.after[i] != t.before[i] {
			changed = append(changed, i)
		}
	}
	match := (c.ChangedExclude || len(c.Changed) == 0) && (c.CalledExclude || len(c.Called) == 0)
	for _, n := range c.Called {
		if has(t.called, n) {
			match = !c.CalledExclude
			break
		}
	}
	for _, n := range c.Changed {
		if has(changed, n) {
			match = !c.ChangedExclude
			break
		}
	}
	return match
}
