package hist

// Write-behind batches of the persistent backends land in their own goroutines: a burst of
// mutations with a write batch of one makes many of them race. After Sync and a shutdown a fresh
// history on the store must find every record that had been synced (C17: what a restarted process
// finds). One scenario = one burst per backend.

import (
	"context"
	"fmt"
	"math/rand"
	"os"

	amhist "github.com/pancsta/asyncmachine-go/pkg/history"
	ambadger "github.com/pancsta/asyncmachine-go/pkg/history/badger"
	ambbolt "github.com/pancsta/asyncmachine-go/pkg/history/bbolt"
	am "github.com/pancsta/asyncmachine-go/pkg/machine"
)

// BatchOrderScenario: returns failures and the replay line.
func BatchOrderScenario(seed int64) (fails []string, line string) {
	r := rand.New(rand.NewSource(seed))
	which := []string{"badger", "bbolt"}[r.Intn(2)]
	n := 40 + r.Intn(160)
	line = fmt.Sprintf("batchorder seed=%d backend=%s mutations=%d", seed, which, n)
	dir, err := os.MkdirTemp("/verif/out", "histbo")
	if err != nil {
		return nil, line
	}
	defer os.RemoveAll(dir)
	ctx, cancel := context.WithCancel(context.Background())
	defer cancel()
	schema := am.Schema{"A": {Multi: true}, "B": {}}
	names := am.S{"A", "B", am.StateException}
	id := fmt.Sprintf("bo%d", seed%1000000)
	newMach := func() *am.Machine {
		m := am.New(ctx, schema, &am.Opts{Id: id})
		m.VerifyStates(names)
		return m
	}
	base := amhist.BaseConfig{TrackedStates: am.S{"A", "B"}, MaxRecords: 100000}
	var errs []string
	onErr := func(e error) { errs = append(errs, e.Error()) }
	open := func(m *am.Machine) (amhist.MemoryApi, func(), error) {
		if which == "badger" {
			db, err := ambadger.NewDb(dir + "/store")
			if err != nil {
				return nil, nil, err
			}
			mem, err := ambadger.NewMemory(ctx, db, m, ambadger.Config{BaseConfig: base, QueueBatch: 1}, onErr)
			if err != nil {
				db.Close()
				return nil, nil, err
			}
			return mem, func() { mem.Dispose() }, nil
		}
		db, err := ambbolt.NewDb(dir + "/store")
		if err != nil {
			return nil, nil, err
		}
		mem, err := ambbolt.NewMemory(ctx, db, m, ambbolt.Config{BaseConfig: base, QueueBatch: 1}, onErr)
		if err != nil {
			db.Close()
			return nil, nil, err
		}
		return mem, func() { mem.Dispose(); db.Close() }, nil
	}
	m := newMach()
	mem, stop, err := open(m)
	if err != nil {
		return []string{"setup: " + err.Error()}, line
	}
	for i := 0; i < n; i++ {
		if r.Intn(4) == 0 {
			m.Toggle1("B", nil)
		} else {
			m.Add1("A", nil)
		}
	}
	if err := mem.Sync(); err != nil {
		stop()
		return []string{"backend " + which + " sync: " + err.Error()}, line
	}
	all, err := mem.FindLatest(ctx, false, 0, amhist.Query{})
	if err != nil {
		stop()
		return []string{"backend " + which + " query: " + err.Error()}, line
	}
	func() {
		defer func() { recover() }()
		stop()
	}()
	m.Dispose()
	m2 := newMach()
	defer m2.Dispose()
	mem2, stop2, err := open(m2)
	if err != nil {
		return []string{"backend " + which + " restart: a fresh history cannot attach to the store left behind by a shutdown, " + err.Error()}, line
	}
	defer func() {
		defer func() { recover() }()
		stop2()
	}()
	got, err := mem2.FindLatest(ctx, false, 0, amhist.Query{})
	if err != nil {
		return []string{"backend " + which + " restart: query failed, " + err.Error()}, line
	}
	if len(got) != len(all) {
		fails = append(fails, fmt.Sprintf("backend %s restart: after Sync and a shutdown a fresh history finds %d records, %d had been synced and shown by queries (write batch 1, %d mutations in a burst)", which, len(got), len(all), n))
		return fails, line
	}
	// the restarted process goes on tracking (a fresh machine: its clocks start over); range queries
	// over the whole log answer what a by-hand filter of the full listing gives
	for i, k := 0, 3+r.Intn(8); i < k; i++ {
		m2.Add1("A", nil)
	}
	if err := mem2.Sync(); err != nil {
		return []string{"backend " + which + " restart: sync failed, " + err.Error()}, line
	}
	full, err := mem2.FindLatest(ctx, false, 0, amhist.Query{})
	if err != nil || len(full) == 0 {
		return fails, line
	}
	var maxSum uint64
	for _, rec := range full {
		if rec.Time.MTimeSum > maxSum {
			maxSum = rec.Time.MTimeSum
		}
	}
	for q := 0; q < 4; q++ {
		lo := uint64(1 + r.Intn(int(maxSum))) // (0 = no condition)
		hi := lo + uint64(r.Intn(int(maxSum)+2))
		res, err := mem2.FindLatest(ctx, false, 0, amhist.Query{Start: amhist.ConditionTime{MTimeSum: lo}, End: amhist.ConditionTime{MTimeSum: hi}})
		if err != nil {
			continue
		}
		var want, have []uint64
		for _, rec := range full {
			if rec.Time.MTimeSum >= lo && rec.Time.MTimeSum <= hi {
				want = append(want, rec.Time.MTimeSum)
			}
		}
		for _, rec := range res {
			have = append(have, rec.Time.MTimeSum)
		}
		if fmt.Sprint(want) != fmt.Sprint(have) {
			fails = append(fails, fmt.Sprintf("backend %s restart: the query MTimeSum in [%d,%d] over a log continued by a restarted process returns sums %v, filtering the full listing by hand gives %v", which, lo, hi, have, want))
			break
		}
	}
	return fails, line
}
