package hist

// Several machines may keep their history in one SQL database (records carry a machine id): the
// rotation of one machine's log leaves the other machines' records alone and keeps that machine's own
// newest MaxRecords records (C17: bounded, old records rotate out, same answers as the in-memory log
// for the newest records).

import (
	"context"
	"fmt"
	"math/rand"
	"os"

	amhist "github.com/pancsta/asyncmachine-go/pkg/history"
	amgorm "github.com/pancsta/asyncmachine-go/pkg/history/gorm"
	am "github.com/pancsta/asyncmachine-go/pkg/machine"
)

// SharedDbScenario: returns failures and the replay line.
func SharedDbScenario(seed int64) (fails []string, line string) {
	r := rand.New(rand.NewSource(seed))
	maxYoung := 3 + r.Intn(6)
	batch := 1 + r.Intn(3)
	rounds := 3 + r.Intn(4)
	line = fmt.Sprintf("shareddb seed=%d max=%d batch=%d rounds=%d", seed, maxYoung, batch, rounds)
	dir, err := os.MkdirTemp("/verif/out", "histsd")
	if err != nil {
		return nil, line
	}
	defer os.RemoveAll(dir)
	ctx, cancel := context.WithCancel(context.Background())
	defer cancel()
	schema := am.Schema{"A": {Multi: true}, "B": {}}
	names := am.S{"A", "B", am.StateException}
	mk := func(id string) *am.Machine {
		m := am.New(ctx, schema, &am.Opts{Id: fmt.Sprintf("%s%d", id, seed%1000000)})
		m.VerifyStates(names)
		return m
	}
	old, young := mk("sdold"), mk("sdyoung")
	defer func() { old.Dispose(); young.Dispose() }()
	db, sqlDb, err := amgorm.NewDb(dir+"/gorm", false)
	if err != nil {
		return []string{"setup: " + err.Error()}, line
	}
	defer sqlDb.Close()
	var errs []string
	onErr := func(e error) { errs = append(errs, e.Error()) }
	tracked := am.S{"A", "B"}
	memOld, err := amgorm.NewMemory(ctx, db, old, amgorm.Config{BaseConfig: amhist.BaseConfig{TrackedStates: tracked, MaxRecords: 100000}, QueueBatch: int32(batch)}, onErr)
	if err != nil {
		return []string{"setup: " + err.Error()}, line
	}
	defer memOld.Dispose()
	cfgYoung := amhist.BaseConfig{TrackedStates: tracked, MaxRecords: maxYoung}
	memYoung, err := amgorm.NewMemory(ctx, db, young, amgorm.Config{BaseConfig: cfgYoung, QueueBatch: int32(batch)}, onErr)
	if err != nil {
		return []string{"setup: " + err.Error()}, line
	}
	defer memYoung.Dispose()
	ref, err := amhist.NewMemory(ctx, nil, young, cfgYoung, func(error) {})
	if err != nil {
		return []string{"setup: " + err.Error()}, line
	}
	defer ref.Dispose()
	nOld, nYoung := 0, 0
	burst := func(m *am.Machine, k int) int {
		for i := 0; i < k; i++ {
			if r.Intn(4) == 0 {
				m.Toggle1("B", nil)
			} else {
				m.Add1("A", nil)
			}
		}
		return k
	}
	nOld += burst(old, 10+r.Intn(30))
	for i := 0; i < rounds; i++ {
		nYoung += burst(young, maxYoung+r.Intn(2*maxYoung))
		nOld += burst(old, 2*maxYoung+r.Intn(10))
		if err := memYoung.Sync(); err != nil {
			return []string{"backend gorm sync: " + err.Error()}, line
		}
		if err := memOld.Sync(); err != nil {
			return []string{"backend gorm sync: " + err.Error()}, line
		}
		gotY, err := memYoung.FindLatest(ctx, false, 0, amhist.Query{})
		if err != nil {
			return []string{"backend gorm query: " + err.Error()}, line
		}
		gotO, err := memOld.FindLatest(ctx, false, 0, amhist.Query{})
		if err != nil {
			return []string{"backend gorm query: " + err.Error()}, line
		}
		want, _ := ref.FindLatest(ctx, false, 0, amhist.Query{})
		where := fmt.Sprintf("two machines in one SQL database, round %d: the younger one (MaxRecords %d, write batch %d) has made %d tracked transitions, the older one %d", i+1, maxYoung, batch, nYoung, nOld)
		if len(gotO) != nOld {
			return []string{fmt.Sprintf("%s; the older machine's log (MaxRecords 100000) holds %d records", where, len(gotO))}, line
		}
		need := min(nYoung, maxYoung)
		if len(gotY) < need {
			return []string{fmt.Sprintf("%s; the younger machine's log holds %d records, its newest %d must stay", where, len(gotY), need)}, line
		}
		if bound := maxYoung + maxYoung*3/2 + 2*batch + 2; len(gotY) > bound {
			return []string{fmt.Sprintf("%s; the younger machine's log holds %d records: unbounded (errors reported by the backend: %v)", where, len(gotY), errs)}, line
		}
		for k := 0; k < need && k < len(want); k++ {
			if gotY[k].Time.MTimeSum != want[k].Time.MTimeSum {
				return []string{fmt.Sprintf("%s; its record %d from the newest has time sum %d, the in-memory log for the same machine has %d there", where, k, gotY[k].Time.MTimeSum, want[k].Time.MTimeSum)}, line
			}
		}
	}
	if len(errs) > 0 {
		return []string{"backend gorm errors: " + errs[0]}, line
	}
	return nil, line
}
