package dbgeng

import (
	"context"
	"fmt"
	"math/rand"
	"os"
	"path/filepath"
	"sort"
	"strings"
	"sync"
	"time"

	"amverif/core"
)

func save(dir, name string, lines []string, header ...string) string {
	os.MkdirAll(dir, 0o755)
	p := filepath.Join(dir, name)
	var b strings.Builder
	for _, h := range header {
		b.WriteString("# " + h + "\n")
	}
	b.WriteString(strings.Join(lines, "\n") + "\n")
	os.WriteFile(p, []byte(b.String()), 0o644)
	return p
}

func GenCase(r *rand.Rand, i int, seed int64) Case {
	all := []string{"random", "chain", "blocked", "mutex", "autos", "autos", "multi", "sparse", "health", "autoveto"}
	o := core.GenOpts{MaxStates: 6, MaxOps: 14, Handlers: 0.5, Nested: 0.25, Checks: 0.2, Faults: 0.1, Motifs: all}
	cc := core.GenCase(r, o)
	// error states of a user schema: names starting with Err, not tied to Exception
	if r.Intn(5) < 2 && len(cc.Lines) > 0 {
		if sch, err := core.ParseSchemaLine(cc.Lines[0]); err == nil {
			pool := []string{"ErrNetwork", "ErrDisk", "ErrAuth"}
			k := 0
			for _, i := range r.Perm(len(sch.Names)) {
				if k < len(pool) && len(sch.Names[i]) == 1 && r.Intn(3) > 0 {
					sch.Names[i] = pool[k]
					k++
				}
			}
			sch.Alpha = core.ComputeAlpha(sch.Names)
			cc.Lines[0] = sch.Line()
			cc.Tag += "+errstates"
		}
	}
	return Case{Core: cc, Id: fmt.Sprintf("c16-%d-%d", seed, i), Seed: r.Int63(), Can: r.Intn(2) == 0}
}

func LoadCase(path string) (Case, error) {
	b, err := os.ReadFile(path)
	if err != nil {
		return Case{}, err
	}
	var c Case
	for _, l := range strings.Split(string(b), "\n") {
		l = strings.TrimSpace(l)
		if l == "" || strings.HasPrefix(l, "#") {
			continue
		}
		if strings.HasPrefix(l, "dbg-case ") {
			can := 0
			fmt.Sscanf(l, "dbg-case id=%s seed=%d can=%d", &c.Id, &c.Seed, &can)
			c.Can = can == 1
			continue
		}
		c.Core.Lines = append(c.Core.Lines, l)
	}
	if len(c.Core.Lines) == 0 {
		return c, fmt.Errorf("incomplete dbg case")
	}
	if c.Id == "" {
		c.Id = "c16-replay"
	}
	return c, nil
}

func (c Case) Lines() []string {
	can := 0
	if c.Can {
		can = 1
	}
	return append([]string{fmt.Sprintf("dbg-case id=%s seed=%d can=%d", c.Id, c.Seed, can)}, c.Core.Lines...)
}

func RunPipeline(seed int64, tier, driver, outDir string, n int, search bool, corpus []string, fixed []Case) *core.Result {
	t0 := time.Now()
	res := &core.Result{Prop: "C16", Seed: seed, Tier: tier, Tags: map[string]int{}, Ops: map[string]int{}, Results: map[string]int{}}
	ctx, cancel := context.WithCancel(context.Background())
	defer cancel()
	tmp, _ := os.MkdirTemp("", "amdbg")
	defer os.RemoveAll(tmp)
	d, addr, err := StartDebugger(ctx, tmp)
	if err != nil {
		res.Note = "debugger: " + err.Error()
		return res
	}
	defer d.Mach.Dispose()
	var cases []Case
	for _, dir := range corpus {
		files, _ := filepath.Glob(filepath.Join(dir, "*.dbgcase"))
		for k, f := range files {
			if c, err := LoadCase(f); err == nil {
				c.Id = fmt.Sprintf("c16-corpus-%d", k)
				cases = append(cases, c)
			}
		}
	}
	res.CorpusCases = len(cases)
	cases = append(cases, fixed...)
	r := rand.New(rand.NewSource(seed))
	for i := 0; i < n; i++ {
		c := GenCase(r, i, seed)
		// short sessions: clients with one or two operations only
		if n >= 4 && (i == 1 || i == 2) && len(c.Core.Lines) > 1+i {
			c.Core.Lines = c.Core.Lines[:1+i]
			c.Core.Tag += "+short"
		}
		cases = append(cases, c)
	}
	runs := make([]*Run, len(cases))
	snaps := make([]*Snapshot, len(cases))
	var wg sync.WaitGroup
	ch := make(chan int)
	for w := 0; w < 8; w++ {
		wg.Add(1)
		go func() {
			defer wg.Done()
			for i := range ch {
				runs[i], snaps[i] = Exec(d, addr, cases[i])
			}
		}()
	}
	for i := range cases {
		ch <- i
	}
	close(ch)
	wg.Wait()
	// navigation: one client at a time, once nobody connects or streams any more
	navBudget := 12
	if tier == "thorough" {
		navBudget = 80
	}
	// clients whose stream has queued auto mutations, canceled and check records first
	order := make([]int, 0, len(cases))
	for i := range cases {
		order = append(order, i)
	}
	score := func(i int) int {
		if snaps[i] == nil {
			return -1
		}
		return snaps[i].Interest()
	}
	sort.SliceStable(order, func(a, b int) bool { return score(order[a]) > score(order[b]) })
	for _, i := range order {
		if snaps[i] == nil || runs[i].Err != "" || len(runs[i].Failures) > 0 || navBudget == 0 {
			continue
		}
		navBudget--
		NavPhase(d, cases[i], runs[i], *snaps[i])
	}
	// an exported session imports to the same records
	expFails, expClients, expRecords := ExportImport(ctx, d, tmp)
	var mcases []core.Case
	for _, run := range runs {
		mcases = append(mcases, core.Case{Lines: run.Lines})
	}
	if dp := os.Getenv("DBG_DUMP"); dp != "" {
		var b strings.Builder
		for i, mc := range mcases {
			for j, l := range mc.Lines {
				b.WriteString(l + "   => " + runs[i].Obs[j] + "\n")
			}
		}
		os.WriteFile(dp, []byte(b.String()), 0o644)
	}
	var model [][]string
	if !search {
		model, err = core.RunModel(driver, mcases)
		if err != nil {
			res.Note = "model driver failed: " + err.Error()
			res.Disagreements = append(res.Disagreements, core.DisRec{Op: "driver", Model: err.Error()})
			res.WallS = time.Since(t0).Seconds()
			return res
		}
	}
	failSeen := map[string]bool{}
	recs, lks, navs := 0, 0, 0
	for i, run := range runs {
		c := cases[i]
		res.Cases++
		res.Tags[c.Core.Tag]++
		res.Evaluations += len(run.Lines)
		recs += run.Records
		lks += run.Lookups
		navs += run.Navs
		if run.Records > 2 {
			res.DistinctNontrivial++
		}
		if len(res.Samples) < 2 && run.Records > 4 {
			res.Samples = append(res.Samples, strings.Join(c.Lines(), "\n"))
		}
		if run.Err != "" {
			res.Note += "impl error: " + run.Err + "; "
			k := "err|" + strings.SplitN(run.Err, ":", 2)[0]
			if !failSeen[k] {
				failSeen[k] = true
				file := save(outDir, fmt.Sprintf("C16-seed%d-fail%d.dbgcase", seed, len(res.Failures)), c.Lines(), "debugger engine: "+run.Err)
				res.Failures = append(res.Failures, core.FailRec{Prop: "C16", Msg: run.Err, File: file})
			}
			continue
		}
		if !search {
			for j := range run.Obs {
				if j >= len(model[i]) || model[i][j] != run.Obs[j] {
					mo := ""
					if j < len(model[i]) {
						mo = model[i][j]
					}
					kind := strings.Join(strings.Fields(run.Lines[j])[:2], " ")
					if len(res.Disagreements) < 6 && !failSeen["dis|"+kind] {
						failSeen["dis|"+kind] = true
						hdr := []string{fmt.Sprintf("debugger correspondence disagrees at step %d: %s", j, run.Lines[j]), "impl : " + run.Obs[j], "model: " + mo}
						for k := range run.Lines {
							if k > j {
								break
							}
							mm := ""
							if k < len(model[i]) {
								mm = model[i][k]
							}
							if len(mm) > 150 {
								mm = mm[:150]
							}
							ob := run.Obs[k]
							if len(ob) > 150 {
								ob = ob[:150]
							}
							hdr = append(hdr, fmt.Sprintf("  [%d] %s => %s || %s", k, run.Lines[k], ob, mm))
						}
						file := save(outDir, fmt.Sprintf("C16-seed%d-disagree%d.dbgcase", seed, len(res.Disagreements)), c.Lines(), hdr...)
						res.Disagreements = append(res.Disagreements, core.DisRec{File: file, Line: j, Op: run.Lines[j], Impl: run.Obs[j], Model: mo})
					} else {
						res.Disagreements = append(res.Disagreements, core.DisRec{Line: j, Op: run.Lines[j]})
					}
					break
				}
			}
		}
		for _, msg := range run.Failures {
			k := strings.SplitN(msg, "(", 2)[0]
			k = strings.Map(func(r rune) rune {
				if r >= '0' && r <= '9' {
					return -1
				}
				return r
			}, k)
			k = Finding(msg) + "|" + k
			if failSeen[k] {
				continue
			}
			failSeen[k] = true
			file := save(outDir, fmt.Sprintf("C16-seed%d-fail%d.dbgcase", seed, len(res.Failures)), c.Lines(), "monitor C16 failed on the real debugger: "+msg)
			res.Failures = append(res.Failures, core.FailRec{Prop: "C16", Msg: msg, File: file, Finding: Finding(msg)})
		}
	}
	for _, msg := range expFails {
		file := save(outDir, fmt.Sprintf("C16-seed%d-export%d.dbgcase", seed, len(res.Failures)), []string{fmt.Sprintf("# whole run: seed=%d tier=%s", seed, tier)}, "export / import of the session: "+msg)
		res.Failures = append(res.Failures, core.FailRec{Prop: "C16", Msg: msg, File: file})
	}
	res.Extra = map[string]any{"records": recs, "lookups": lks, "cursor_moves": navs, "exported_clients": expClients, "exported_records": expRecords}
	res.WallS = time.Since(t0).Seconds()
	return res
}

// Finding: the recorded finding a failure belongs to, if any. Tight: only a view
// with skip-checks as the sole active filter.
func Finding(msg string) string {
	if strings.HasPrefix(msg, "skip-checks is on, yet check record") && strings.HasSuffix(msg, "(filters 0000001)") {
		return "C16-skip-checks-not-in-filter-group"
	}
	return ""
}
