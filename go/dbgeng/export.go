package dbgeng

// "An exported session imports to the same records": the running debugger exports its session
// through its own export dialog (the modal's Save button), a second headless debugger imports the
// file at start-up, and every client's records - raw and parsed - are compared.

import (
	"context"
	"fmt"
	"path/filepath"
	"reflect"
	"slices"
	"sort"
	"time"

	"github.com/gdamore/tcell/v2"
	"github.com/pancsta/cview"

	am "github.com/pancsta/asyncmachine-go/pkg/machine"
	"github.com/pancsta/asyncmachine-go/tools/debugger"
)

type clientDump struct {
	txs    []string
	parsed []string
}

func dumpClients(d *debugger.Debugger) map[string]clientDump {
	out := map[string]clientDump{}
	evalD(d, "verif-dump", func() {
		for id, c := range d.Clients {
			var cd clientDump
			for _, tx := range c.MsgTxs {
				cd.txs = append(cd.txs, fmt.Sprintf("%s|%v|%v|%v|%v|%v|%d|%v|%d", tx.ID, tx.Clocks, tx.Accepted, tx.IsAuto, tx.IsCheck, tx.IsQueued, tx.QueueTick, tx.CalledStateNames(c.MsgStruct.StatesIndex), tx.MutQueueTick))
			}
			for _, p := range c.MsgTxsParsed {
				// (index -1 = a step naming the pseudo-state Any: not a state, left out of the comparison)
				touched := slices.DeleteFunc(append([]int{}, p.StatesTouched...), func(i int) bool { return i < 0 })
				sort.Ints(touched)
				touched = slices.Compact(touched)
				cd.parsed = append(cd.parsed, fmt.Sprintf("%v|%v|%v|%d|%d", p.StatesAdded, p.StatesRemoved, touched, p.TimeSum, p.TimeDiff))
			}
			out[id] = cd
		}
	})
	return out
}

// ExportImport exports d's session and imports it into a fresh debugger; returns failures.
func ExportImport(ctx context.Context, d *debugger.Debugger, outDir string) (fails []string, clients, records int) {
	before := dumpClients(d)
	name := fmt.Sprintf("verif-export-%d", time.Now().UnixNano())
	// the export dialog, as a user would: open it, type the name, press Save
	if res := d.Mach.Add1(ss.ExportDialog, nil); res == am.Canceled {
		return []string{"export: the export dialog could not be opened (" + res.String() + ")"}, 0, 0
	}
	time.Sleep(20 * time.Millisecond)
	var modal *cview.Modal
	evalD(d, "verif-export", func() {
		_, prim := d.LayoutRoot.GetFrontPanel()
		modal, _ = prim.(*cview.Modal)
	})
	if modal == nil {
		return []string{"export: the export dialog is not in front after ExportDialog"}, 0, 0
	}
	form := modal.GetForm()
	field, ok := form.GetFormItem(0).(*cview.InputField)
	if !ok || form.GetButtonCount() < 1 {
		return []string{"export: the export dialog has no filename field / Save button"}, 0, 0
	}
	field.SetText(name)
	done := make(chan struct{})
	go func() {
		defer close(done)
		defer func() { recover() }()
		form.GetButton(0).InputHandler()(tcell.NewEventKey(tcell.KeyEnter, 0, tcell.ModNone), func(cview.Primitive) {})
	}()
	select {
	case <-done:
	case <-time.After(20 * time.Second):
		return []string{"export: Save never returned"}, 0, 0
	}
	file := filepath.Join(outDir, name+".gob.br")
	// a second debugger imports the file at start-up
	ctx2, cancel := context.WithCancel(ctx)
	defer cancel()
	d2, _, err := startDebugger(ctx2, outDir, file)
	if err != nil {
		return []string{"import: the importing debugger did not start: " + err.Error()}, 0, 0
	}
	defer d2.Mach.Dispose()
	// the import runs in the Start handler; wait until the clients are there
	var after map[string]clientDump
	dl := time.Now().Add(15 * time.Second)
	for {
		after = dumpClients(d2)
		if len(after) >= len(before) || time.Now().After(dl) {
			break
		}
		time.Sleep(50 * time.Millisecond)
	}
	for id, b := range before {
		a, ok := after[id]
		clients++
		records += len(b.txs)
		if !ok {
			fails = append(fails, fmt.Sprintf("import: client %s of the exported session is missing after import (%d of %d clients present)", id, len(after), len(before)))
			break
		}
		if !reflect.DeepEqual(a.txs, b.txs) {
			i := 0
			for i < len(a.txs) && i < len(b.txs) && a.txs[i] == b.txs[i] {
				i++
			}
			fails = append(fails, fmt.Sprintf("import: client %s has %d records after import, %d before; first difference at %d", id, len(a.txs), len(b.txs), i))
			break
		}
		if !reflect.DeepEqual(a.parsed, b.parsed) {
			i := 0
			for i < len(a.parsed) && i < len(b.parsed) && a.parsed[i] == b.parsed[i] {
				i++
			}
			x, y := "-", "-"
			if i < len(a.parsed) {
				x = a.parsed[i]
			}
			if i < len(b.parsed) {
				y = b.parsed[i]
			}
			fails = append(fails, fmt.Sprintf("import: client %s derived data differ after import at record %d: %s vs %s", id, i, x, y))
			break
		}
	}
	return fails, clients, records
}
