// Package dbgeng ties am-dbg (tools/debugger) to the Lean model Am.Dbg: real
// machines stream real telemetry over the real RPC server into a headless
// debugger; an independent tracer on each machine records what every
// transition looked like; the debugger's records, derived data, lookups,
// filter views and cursor moves are compared with the reference and the model.
package dbgeng

import (
	"context"
	"fmt"
	"math/rand"
	"net"
	"os"
	"slices"
	"sort"
	"strconv"
	"strings"
	"sync"
	"time"

	"github.com/gdamore/tcell/v2"

	"amverif/core"

	am "github.com/pancsta/asyncmachine-go/pkg/machine"
	"github.com/pancsta/asyncmachine-go/pkg/telemetry/dbg"
	debugger "github.com/pancsta/asyncmachine-go/tools/debugger"
	"github.com/pancsta/asyncmachine-go/tools/debugger/server"
	ssdbg "github.com/pancsta/asyncmachine-go/tools/debugger/states"
	"github.com/pancsta/asyncmachine-go/tools/debugger/types"
)

var ss = ssdbg.DebuggerStates

// StartDebugger: a headless am-dbg on a simulation screen, listening on a free local port.
func StartDebugger(ctx context.Context, outDir string) (*debugger.Debugger, string, error) {
	return startDebugger(ctx, outDir, "")
}

func startDebugger(ctx context.Context, outDir, importFile string) (*debugger.Debugger, string, error) {
	os.Setenv(dbg.EnvAmDbgNoTrace, "1")
	screen := tcell.NewSimulationScreen("utf8")
	_ = screen.Init()
	screen.SetSize(100, 50)
	screen.Clear()
	l, err := net.Listen("tcp4", "127.0.0.1:0")
	if err != nil {
		return nil, "", err
	}
	addr := l.Addr().String()
	_ = l.Close()
	p := types.Params{
		Id:         "verif-dbg",
		Screen:     screen,
		OutputDir:  outDir,
		ImportData: importFile,
		ListenAddr: addr,
		Print:      func(string, ...any) {},
		MaxMemMb:   2000,
		LogOpsTtl:  time.Hour,
	}
	d, err := debugger.New(ctx, p)
	if err != nil {
		return nil, "", err
	}
	d.ServerMux, d.ServerHttp, err = server.New(d.Mach, addr, p)
	if err != nil {
		return nil, "", err
	}
	if os.Getenv("DBG_TRACE") != "" {
		d.Mach.BindTracer(&errTracer{TracerNoOp: &am.TracerNoOp{Id: "errs"}})
	}
	if d.Mach.Add1(ss.Start, nil) == am.Canceled {
		return nil, "", fmt.Errorf("debugger start canceled")
	}
	select {
	case <-d.Mach.When1(ss.Ready, nil):
	case <-time.After(20 * time.Second):
		return nil, "", fmt.Errorf("debugger not ready")
	}
	return d, addr, nil
}

type refRec struct {
	queued   bool
	id       string
	clocks   []uint64
	accepted bool
	isAuto   bool
	isCheck  bool
	qtick    uint64
	active   []int
	// the states named by the transition's steps (source and target of every step), when the machine
	// logs steps; hasSteps = the transition carried any
	touched  []int
	hasSteps bool
}

type refTracer struct {
	*am.TracerNoOp
	can    bool
	early  func(id string) // looks the transition up in the debugger before its record can have arrived
	nearly int
	mu     sync.Mutex
	m      *am.Machine
	recs   []refRec
	last   []uint64
}

func (t *refTracer) TransitionEnd(tx *am.Transition) {
	if tx.Mutation.IsCheck && !t.can {
		return // not streamed unless the logger traces Can* calls
	}
	t.mu.Lock()
	defer t.mu.Unlock()
	r := refRec{id: tx.Id, clocks: append([]uint64{}, tx.TimeAfter...), accepted: tx.IsAccepted.Load(),
		isAuto: tx.Mutation.IsAuto, isCheck: tx.Mutation.IsCheck, qtick: t.m.QueueTick()}
	for i, v := range r.clocks {
		if v%2 == 1 {
			r.active = append(r.active, i)
		}
	}
	if len(tx.Steps) > 0 {
		r.hasSteps = true
		names := t.m.StateNames()
		seen := map[int]bool{}
		for _, st := range tx.Steps {
			for _, nm := range []string{st.GetFromState(names), st.GetToState(names)} {
				if nm == "" {
					continue
				}
				if i := slices.Index(names, nm); i >= 0 && !seen[i] {
					seen[i] = true
					r.touched = append(r.touched, i)
				}
			}
		}
		sort.Ints(r.touched)
	}
	t.last = r.clocks
	t.recs = append(t.recs, r)
	if t.early != nil && t.nearly < 4 {
		t.nearly++
		t.early(tx.Id)
	}
}

func (t *refTracer) MutationQueued(m am.Api, mut *am.Mutation) {
	if mut.IsCheck && !t.can {
		return
	}
	t.mu.Lock()
	defer t.mu.Unlock()
	t.recs = append(t.recs, refRec{queued: true, clocks: append([]uint64{}, t.last...), accepted: true, isAuto: mut.IsAuto, isCheck: mut.IsCheck})
}

type Case struct {
	Core core.Case
	Id   string
	Seed int64
	Can  bool // the machine's logger traces Can* calls: check transitions are streamed too
}

type Run struct {
	Lines    []string
	Obs      []string
	Failures []string
	Err      string
	Records  int
	Lookups  int
	Navs     int
	Touched  int
}

func u64s(t []uint64) string {
	if len(t) == 0 {
		return "-"
	}
	s := make([]string, len(t))
	for i, v := range t {
		s[i] = strconv.FormatUint(v, 10)
	}
	return strings.Join(s, ",")
}

func b01(x bool) string {
	if x {
		return "1"
	}
	return "0"
}

type Snapshot = snapshot

type snapshot struct {
	msgs    []*dbg.DbgMsgTx
	parsed  []*types.MsgTxParsed
	errors  []int
	index   am.S
	present bool
}

// Interest: how many kinds of records the filters distinguish occur in the stream.
func (s *snapshot) Interest() int {
	var autoQ, canceled, check, queued, empty int
	for i, m := range s.msgs {
		if m.IsAuto && m.IsQueued {
			autoQ = 3
		}
		if !m.Accepted {
			canceled = 1
		}
		if m.IsCheck {
			check = 1
		}
		if m.IsQueued {
			queued = 1
		}
		if i < len(s.parsed) && s.parsed[i].TimeDiff == 0 && !m.IsQueued && m.Accepted {
			empty = 1
		}
	}
	return autoQ + canceled + check + queued + empty
}

func evalD(d *debugger.Debugger, name string, f func()) bool {
	return d.Mach.Eval(name, f, nil)
}

// Exec: run the workload on a real machine streaming to the debugger, wait for the
// stream, compare.
func Exec(d *debugger.Debugger, addr string, c Case) (*Run, *Snapshot) {
	run := &Run{}
	sch, err := core.ParseSchemaLine(c.Core.Lines[0])
	if err != nil {
		run.Err = err.Error()
		return run, nil
	}
	r, err := core.NewRunnerId(sch, 3*time.Second, c.Id)
	if err != nil {
		run.Err = err.Error()
		return run, nil
	}
	defer r.Close()
	m := r.M
	if c.Can {
		m.SemLogger().EnableCan(true)
	}
	if c.Seed%2 == 0 {
		// the machine logs the steps of its transitions: the debugger derives the touched states
		m.SemLogger().EnableSteps(true)
	}
	if err := dbg.TransitionsToDbg(m, addr); err != nil {
		run.Err = "TransitionsToDbg: " + err.Error()
		return run, nil
	}
	ref := &refTracer{TracerNoOp: &am.TracerNoOp{Id: "ref"}, m: m, can: c.Can, last: append([]uint64{}, m.Time(nil)...)}
	ref.early = func(id string) {
		evalD(d, "verif-early", func() {
			if cl := d.Clients[c.Id]; cl != nil {
				cl.TxIndex(id)
			}
		})
	}
	m.BindTracer(ref)
	// wait until the debugger knows the client (schema message)
	deadline := time.Now().Add(15 * time.Second)
	for {
		ok := false
		evalD(d, "verif-conn", func() { ok = d.Clients[c.Id] != nil })
		if ok {
			break
		}
		if time.Now().After(deadline) {
			run.Err = "the debugger never registered client " + c.Id
			return run, nil
		}
		time.Sleep(30 * time.Millisecond)
	}
	for _, l := range c.Core.Lines[1:] {
		o := r.Step(l)
		if o.Crash != "" {
			break
		}
	}
	ref.mu.Lock()
	recs := append([]refRec{}, ref.recs...)
	ref.mu.Unlock()
	// wait for the whole stream
	var snap snapshot
	deadline = time.Now().Add(20 * time.Second)
	for {
		evalD(d, "verif-wait", func() {
			cl := d.Clients[c.Id]
			if cl == nil {
				return
			}
			snap = snapshot{present: true, index: cl.MsgStruct.StatesIndex}
			snap.msgs = append(snap.msgs, cl.MsgTxs...)
			snap.parsed = append(snap.parsed, cl.MsgTxsParsed...)
			snap.errors = append(snap.errors, cl.Errors...)
		})
		if len(snap.msgs) >= len(recs) && len(snap.parsed) >= len(recs) {
			break
		}
		if time.Now().After(deadline) {
			run.Failures = append(run.Failures, fmt.Sprintf("the debugger holds %d records of client %s, the machine produced %d", len(snap.msgs), c.Id, len(recs)))
			return run, nil
		}
		time.Sleep(100 * time.Millisecond)
	}
	run.Records = len(snap.msgs)
	if len(snap.msgs) != len(recs) {
		run.Failures = append(run.Failures, fmt.Sprintf("the debugger holds %d records, the machine produced %d", len(snap.msgs), len(recs)))
		return run, nil
	}
	// fidelity: the N-th record is the N-th traced event
	names := m.StateNames()
	if strings.Join(snap.index, ",") != strings.Join(names, ",") {
		run.Failures = append(run.Failures, fmt.Sprintf("state index differs: %v vs %v", snap.index, names))
		return run, nil
	}
	exc := m.Index1(am.StateException)
	health := map[int]bool{}
	for _, h := range []string{"Healthcheck", "Heartbeat"} {
		if i := m.Index1(h); i >= 0 {
			health[i] = true
		}
	}
	ids := map[string]int{}
	idOf := func(s string) int {
		if v, ok := ids[s]; ok {
			return v
		}
		ids[s] = len(ids) + 1
		return ids[s]
	}
	var errSt []int
	for i, nm := range names {
		if strings.HasPrefix(nm, am.PrefixErr) {
			errSt = append(errSt, i)
		}
	}
	if len(errSt) > 0 {
		run.Lines = append(run.Lines, fmt.Sprintf("dbg init %d %d %s", len(names), exc, core.ShowList(errSt)))
	} else {
		run.Lines = append(run.Lines, fmt.Sprintf("dbg init %d %d", len(names), exc))
	}
	run.Obs = append(run.Obs, "ok")
	for i, msg := range snap.msgs {
		rr := recs[i]
		if msg.IsQueued != rr.queued || u64s(msg.Clocks) != u64s(rr.clocks) || msg.IsCheck != rr.isCheck || (!rr.queued && (msg.ID != rr.id || msg.Accepted != rr.accepted || msg.IsAuto != rr.isAuto)) {
			run.Failures = append(run.Failures, fmt.Sprintf("record %d of the debugger (queued=%v id=%s clocks=%s accepted=%v) is not the %d-th traced event of the machine (queued=%v id=%s clocks=%s accepted=%v)",
				i, msg.IsQueued, msg.ID, u64s(msg.Clocks), msg.Accepted, i, rr.queued, rr.id, u64s(rr.clocks), rr.accepted))
			return run, nil
		}
		if !rr.queued && msg.QueueTick != rr.qtick {
			run.Failures = append(run.Failures, fmt.Sprintf("record %d carries queue tick %d, the machine was at %d", i, msg.QueueTick, rr.qtick))
			return run, nil
		}
		called := msg.CalledStatesIdxs
		ho := len(called) == 1 && health[called[0]]
		flags := b01(msg.Accepted) + b01(msg.IsAuto) + b01(msg.IsCheck) + b01(msg.IsQueued) + b01(ho)
		run.Lines = append(run.Lines, fmt.Sprintf("dbg msg %d %s %d %d %d %s", idOf(msg.ID), u64s(msg.Clocks), msg.QueueTick, msg.MutQueueTick, msg.MutQueueToken, flags))
		p := snap.parsed[i]
		var errsUpTo []int
		for _, e := range snap.errors {
			if e <= i {
				errsUpTo = append(errsUpTo, e)
			}
		}
		run.Obs = append(run.Obs, fmt.Sprintf("sum=%d diff=%d add=%s rem=%s errs=%s", p.TimeSum, p.TimeDiff, core.ShowList(p.StatesAdded), core.ShowList(p.StatesRemoved), core.ShowList(errsUpTo)))
		// active states really held after the N-th transition
		var act []int
		for si := range names {
			if msg.Is1(snap.index, names[si]) {
				act = append(act, si)
			}
		}
		// the error index in the property's words: it holds exactly the records with an active error state
		{
			isErr := false
			for _, si := range act {
				if si == exc || strings.HasPrefix(names[si], am.PrefixErr) {
					isErr = true
				}
			}
			back := i > 0 && p.TimeSum < snap.parsed[i-1].TimeSum
			if !back && isErr != slices.Contains(snap.errors, i) {
				run.Failures = append(run.Failures, fmt.Sprintf("record %d shows active states %v (%v), the error index %v says error=%v", i, act, names, snap.errors, !isErr))
				return run, nil
			}
		}
		if !rr.queued && rr.hasSteps {
			// (steps of the any-handlers name the pseudo-state Any, which the debugger maps to index -1:
			// not a state, left out)
			touched := slices.DeleteFunc(append([]int{}, p.StatesTouched...), func(i int) bool { return i < 0 })
			sort.Ints(touched)
			touched = slices.Compact(touched)
			if core.ShowList(touched) != core.ShowList(rr.touched) {
				run.Failures = append(run.Failures, fmt.Sprintf("record %d: the debugger derived touched states %v, the steps of that transition name %v", i, touched, rr.touched))
				return run, nil
			}
			run.Touched++
		}
		if !rr.queued && core.ShowList(act) != core.ShowList(rr.active) {
			run.Failures = append(run.Failures, fmt.Sprintf("record %d shows active states %v, the machine had %v", i, act, rr.active))
			return run, nil
		}
	}
	// lookups on the real client (server.Client methods) vs the model
	rq := rand.New(rand.NewSource(c.Seed))
	var qvals, svals []uint64
	for i, msg := range snap.msgs {
		qvals = append(qvals, msg.QueueTick)
		svals = append(svals, snap.parsed[i].TimeSum)
	}
	if len(snap.msgs) > 0 {
		qvals = append(qvals, 0, qvals[len(qvals)-1]+1, qvals[len(qvals)-1]+5)
		svals = append(svals, 0, svals[len(svals)-1]+1, svals[len(svals)-1]+7)
	}
	type lk struct {
		line string
		f    func(cl *debugger.Client) string
	}
	var lks []lk
	for _, q := range uniq(qvals) {
		q := q
		lks = append(lks, lk{fmt.Sprintf("dbg atq %d", q), func(cl *debugger.Client) string { return fmt.Sprint(cl.TxAtQueueTick(q)) }})
	}
	for _, s := range uniq(svals) {
		s := s
		lks = append(lks, lk{fmt.Sprintf("dbg atm %d", s), func(cl *debugger.Client) string { return fmt.Sprint(cl.TxAtMachTime(s)) }})
	}
	// ids: an unknown id first (lookups before the record exists must not poison later ones), then all
	lks = append(lks, lk{"dbg idx 99999", func(cl *debugger.Client) string { return fmt.Sprint(cl.TxIndex("no-such-id")) }})
	for _, msg := range snap.msgs {
		id := msg.ID
		lks = append(lks, lk{fmt.Sprintf("dbg idx %d", idOf(id)), func(cl *debugger.Client) string { return fmt.Sprint(cl.TxIndex(id)) }})
	}
	for k := 0; k < 12 && len(snap.msgs) > 0; k++ {
		tx, dist := rq.Intn(len(snap.msgs)), 1+rq.Intn(6)
		lks = append(lks, lk{fmt.Sprintf("dbg errs %d %d", tx, dist), func(cl *debugger.Client) string { return fmt.Sprint(cl.HadErrSinceTx(tx, dist)) }})
	}
	var outs []string
	evalD(d, "verif-lookups", func() {
		cl := d.Clients[c.Id]
		for _, l := range lks {
			outs = append(outs, l.f(cl))
		}
	})
	if len(outs) != len(lks) {
		run.Err = "lookup eval timed out"
		return run, nil
	}
	for i, l := range lks {
		run.Lines = append(run.Lines, l.line)
		run.Obs = append(run.Obs, outs[i])
		run.Lookups++
		// the property in its own words: a linear scan
		if strings.HasPrefix(l.line, "dbg idx ") && l.line != "dbg idx 99999" {
			want := -1
			for j, msg := range snap.msgs {
				if idOf(msg.ID) == atoi(strings.Fields(l.line)[2]) {
					want = j
					break
				}
			}
			if outs[i] != fmt.Sprint(want) {
				run.Failures = append(run.Failures, fmt.Sprintf("TxIndex returned %s for the id of record %d (a linear scan finds %d)", outs[i], want, want))
			}
		}
		if strings.HasPrefix(l.line, "dbg atm ") {
			s, want := uint64(atoi(strings.Fields(l.line)[2])), 0
			for j, p := range snap.parsed {
				if p.TimeSum == s {
					want = j
					break
				}
			}
			if outs[i] != fmt.Sprint(want) {
				run.Failures = append(run.Failures, fmt.Sprintf("TxAtMachTime(%d) returned %s, a linear scan over the %d records finds the first record with that time sum at %d", s, outs[i], len(snap.parsed), want))
			}
		}
		if strings.HasPrefix(l.line, "dbg atq ") && len(snap.msgs) > 0 {
			q, want := uint64(atoi(strings.Fields(l.line)[2])), len(snap.msgs)-1
			for j, msg := range snap.msgs {
				if msg.QueueTick >= q {
					want = j
					break
				}
			}
			if outs[i] != fmt.Sprint(want) {
				run.Failures = append(run.Failures, fmt.Sprintf("TxAtQueueTick(%d) returned %s, a linear scan over the %d records finds the first record at or past that tick at %d", q, outs[i], len(snap.msgs), want))
			}
		}
	}
	return run, &snap
}

var navMu sync.Mutex

func mutate(d *debugger.Debugger, state string, a *types.A) bool {
	var args am.A
	if a != nil {
		args = debugger.Pass(a)
	}
	res := d.Mach.Add1(state, args)
	if res == am.Canceled {
		return false
	}
	if res > am.Queued {
		select {
		case <-d.Mach.WhenQueue(res):
		case <-time.After(5 * time.Second):
			return false
		}
	}
	// the debugger's handlers fork follow-up mutations: let its queue settle
	for i := 0; i < 200; i++ {
		if d.Mach.QueueLen() == 0 && d.Mach.Transition() == nil {
			break
		}
		time.Sleep(2 * time.Millisecond)
	}
	return true
}

type navState struct {
	cursor  int
	flags   string
	active  bool
	other   bool
	shown   []int
	selOK   bool
	lenMsgs int
}

func readNav(d *debugger.Debugger, id string) navState {
	var ns navState
	evalD(d, "verif-nav", func() {
		if d.C == nil || d.C.Id != id {
			return
		}
		ns.selOK = true
		ns.cursor = d.C.CursorTx1
		is := d.Mach.Is1
		ns.flags = b01(is(ss.FilterCanceledTx)) + b01(is(ss.FilterAutoTx)) + b01(is(ss.FilterAutoCanceledTx)) + b01(is(ss.FilterEmptyTx)) +
			b01(is(ss.FilterHealth)) + b01(is(ss.FilterQueuedTx)) + b01(is(ss.FilterChecks))
		ns.active = strings.Contains(ns.flags, "1")
		ns.other = is(ss.FilterOutGroup) || is(ss.FilterRpcMachs)
		ns.shown = append([]int{}, d.C.MsgTxsFiltered...)
		ns.lenMsgs = len(d.C.MsgTxs)
	})
	return ns
}

// NavPhase: filters and cursor moves on the selected client vs the model (run one client at a time,
// after every client has streamed).
func NavPhase(d *debugger.Debugger, c Case, run *Run, snap snapshot) {
	rq := rand.New(rand.NewSource(c.Seed + 1))
	tNav := time.Now()
	defer func() {
		if os.Getenv("DBG_TRACE") != "" {
			fmt.Fprintf(os.Stderr, "%s nav took %v (moves %d)\n", c.Id, time.Since(tNav), run.Navs)
		}
	}()
	if len(snap.msgs) == 0 {
		return
	}
	navMu.Lock()
	defer navMu.Unlock()
	if !mutate(d, ss.SelectingClient, &types.A{ClientId: c.Id}) {
		return
	}
	deadline := time.Now().Add(5 * time.Second)
	for {
		ns := readNav(d, c.Id)
		if ns.selOK && d.Mach.Is1(ss.ClientSelected) {
			break
		}
		if time.Now().After(deadline) {
			if os.Getenv("DBG_TRACE") != "" {
				fmt.Fprintf(os.Stderr, "%s selection failed: %s err=%v\n", c.Id, d.Mach.String(), d.Mach.Err())
			}
			return // selection is UI plumbing, not the property
		}
		time.Sleep(20 * time.Millisecond)
	}
	tools := []types.ToolName{types.ToolFilterCanceledTx, types.ToolFilterQueuedTx, types.ToolFilterAutoTx, types.ToolFilterEmptyTx,
		types.ToolFilterHealth, types.ToolFilterChecks}
	for round := 0; round < 4; round++ {
		toggle := func(tool types.ToolName) bool {
			toggled := d.Mach.WhenTicks(ss.ToolToggled, 2, nil)
			mutate(d, ss.ToggleTool, &types.A{ToolName: tool})
			select {
			case <-toggled:
			case <-time.After(5 * time.Second):
				if os.Getenv("DBG_TRACE") != "" {
					fmt.Fprintf(os.Stderr, "%s toggle %s TIMEOUT toggleTool=%v toolToggled=%v\n", c.Id, tool.Value, d.Mach.Is1(ss.ToggleTool), d.Mach.Is1(ss.ToolToggled))
				}
				return false
			}
			evalD(d, "verif-settle", func() {}) // a round trip through the debugger's queue
			return true
		}
		if round > 0 {
			before := readNav(d, c.Id).flags
			if len(before) != 7 {
				return
			}
			tool := tools[rq.Intn(len(tools))]
			hasAutoQ := false
			for _, m := range snap.msgs {
				if m.IsAuto && m.IsQueued {
					hasAutoQ = true
				}
			}
			if round == 1 && hasAutoQ {
				// directed: "skip canceled auto" (not "skip auto") together with "skip queued"
				for k := 0; k < 4; k++ {
					fl := readNav(d, c.Id).flags
					if len(fl) != 7 || (fl[1] == '0' && fl[2] == '1') {
						break
					}
					if !toggle(types.ToolFilterAutoTx) {
						return
					}
				}
				before = readNav(d, c.Id).flags
				if len(before) != 7 {
					return
				}
				if before[5] == '1' {
					// already on: re-filter with a neutral pair
					if !toggle(types.ToolFilterChecks) {
						return
					}
					before = readNav(d, c.Id).flags
					tool = types.ToolFilterChecks
				} else {
					tool = types.ToolFilterQueuedTx
				}
			} else if round == 1 && before[5] == '0' {
				tool = types.ToolFilterQueuedTx // skip-queued together with whatever is on
			}
			if !toggle(tool) {
				return
			}
			after := readNav(d, c.Id).flags
			diff := 0
			for i := range before {
				if i < len(after) && before[i] != after[i] {
					diff++
				}
			}
			if diff != 1 {
				// turning a filter off can switch another one off afterwards (FilterQueuedTxEnd /
				// FilterCanceledTxEnd remove skip-empty) without re-filtering: the view then hides
				// more than the filters ask for, which the property allows; re-filter with settled
				// filters before comparing the view exactly
				if !toggle(types.ToolFilterChecks) || !toggle(types.ToolFilterChecks) {
					return
				}
			}
		}
		ns := readNav(d, c.Id)
		if os.Getenv("DBG_TRACE") != "" {
			fmt.Fprintf(os.Stderr, "%s round %d after=%s tt=%d shown=%d\n", c.Id, round, ns.flags, d.Mach.Tick(ss.ToolToggled), len(ns.shown))
		}
		if !ns.selOK || ns.other || ns.lenMsgs != len(snap.msgs) {
			return
		}
		view := ns.shown
		if !ns.active {
			view = nil
			for i := range snap.msgs {
				view = append(view, i)
			}
		}
		run.Lines = append(run.Lines, "dbg filter "+ns.flags)
		run.Obs = append(run.Obs, "shown="+core.ShowList(view))
		// the property in its own words: no shown record fails a filter that is on
		for _, idx := range view {
			if idx < 0 || idx >= len(snap.msgs) {
				continue
			}
			tx := snap.msgs[idx]
			if ns.flags[5] == '1' && tx.IsQueued {
				run.Failures = append(run.Failures, fmt.Sprintf("skip-queued is on, yet queued record %d is shown (filters %s)", idx, ns.flags))
			}
			if ns.flags[0] == '1' && !tx.Accepted {
				run.Failures = append(run.Failures, fmt.Sprintf("skip-canceled is on, yet canceled record %d is shown (filters %s)", idx, ns.flags))
			}
			if ns.flags[1] == '1' && tx.IsAuto {
				run.Failures = append(run.Failures, fmt.Sprintf("skip-auto is on, yet auto record %d is shown (filters %s)", idx, ns.flags))
			}
			if ns.flags[6] == '1' && tx.IsCheck {
				run.Failures = append(run.Failures, fmt.Sprintf("skip-checks is on, yet check record %d is shown (filters %s)", idx, ns.flags))
			}
		}
		// cursor moves
		for k := 0; k < 6; k++ {
			before := readNav(d, c.Id)
			if !before.selOK {
				return
			}
			var line string
			jumpTo := 0
			switch rq.Intn(3) {
			case 0:
				to := 1 + rq.Intn(len(snap.msgs))
				// the ends of the log are where bounds checks slip
				switch rq.Intn(8) {
				case 0, 1:
					to = len(snap.msgs)
				case 2:
					to = 1
				case 3:
					to = max(1, len(snap.msgs)-1)
				}
				jumpTo = to
				line = fmt.Sprintf("dbg nav %d set %d", before.cursor, to)
				if rq.Intn(2) == 0 {
					mutate(d, ss.ScrollToTx, &types.A{CursorTx1: to})
				} else {
					// by transition id: goes through TxIndex
					mutate(d, ss.ScrollToTx, &types.A{TxId: snap.msgs[to-1].ID})
				}
			case 1:
				line = fmt.Sprintf("dbg nav %d fwd 1", before.cursor)
				mutate(d, ss.Fwd, nil)
			case 2:
				line = fmt.Sprintf("dbg nav %d back 1", before.cursor)
				mutate(d, ss.Back, nil)
			}
			after := readNav(d, c.Id)
			if !after.selOK {
				return
			}
			run.Lines = append(run.Lines, line)
			run.Obs = append(run.Obs, fmt.Sprintf("cursor=%d", after.cursor))
			run.Navs++
			// a jump to a record the filters show (or with no filter on) lands on that record
			if jumpTo > 0 {
				visible := !after.active
				for _, i := range after.shown {
					if i == jumpTo-1 {
						visible = true
					}
				}
				if visible && after.cursor != jumpTo {
					run.Failures = append(run.Failures, fmt.Sprintf("a jump to transition %d of %d (shown under filters %s) left the cursor on %d", jumpTo, len(snap.msgs), after.flags, after.cursor))
				}
			}
			if after.active && after.cursor >= 1 && after.cursor <= len(snap.msgs) && after.cursor != before.cursor {
				shown := false
				for _, i := range after.shown {
					if i == after.cursor-1 {
						shown = true
					}
				}
				if !shown {
					run.Failures = append(run.Failures, fmt.Sprintf("the cursor moved to record %d which the active filters (%s) hide", after.cursor-1, after.flags))
				}
			}
		}
	}
	if !c.Can {
		return
	}
	// directed: "skip checks" as the only filter
	tog := func(tool types.ToolName) bool {
		toggled := d.Mach.WhenTicks(ss.ToolToggled, 2, nil)
		mutate(d, ss.ToggleTool, &types.A{ToolName: tool})
		select {
		case <-toggled:
		case <-time.After(5 * time.Second):
			return false
		}
		evalD(d, "verif-settle", func() {})
		return true
	}
	byBit := []types.ToolName{types.ToolFilterCanceledTx, types.ToolFilterAutoTx, types.ToolFilterAutoTx, types.ToolFilterEmptyTx,
		types.ToolFilterHealth, types.ToolFilterQueuedTx}
	for tries := 0; tries < 12; tries++ {
		fl := readNav(d, c.Id).flags
		if len(fl) != 7 {
			return
		}
		done := true
		for bit := 0; bit < 6; bit++ {
			if fl[bit] == '1' {
				done = false
				if !tog(byBit[bit]) {
					return
				}
				break
			}
		}
		if done {
			break
		}
	}
	if fl := readNav(d, c.Id).flags; len(fl) == 7 && fl[6] == '0' {
		if !tog(types.ToolFilterChecks) {
			return
		}
	}
	ns := readNav(d, c.Id)
	if !ns.selOK || ns.other || ns.flags != "0000001" || ns.lenMsgs != len(snap.msgs) {
		return
	}
	run.Lines = append(run.Lines, "dbg filter "+ns.flags)
	run.Obs = append(run.Obs, "shown="+core.ShowList(ns.shown))
	// what the debugger really lets the cursor rest on
	for i, tx := range snap.msgs {
		if !tx.IsCheck {
			continue
		}
		mutate(d, ss.ScrollToTx, &types.A{CursorTx1: i + 1})
		if after := readNav(d, c.Id); after.selOK && after.cursor == i+1 {
			run.Failures = append(run.Failures, fmt.Sprintf("skip-checks is on, yet check record %d is shown (filters %s)", i, ns.flags))
			break
		}
	}
}

func atoi(s string) int { v, _ := strconv.Atoi(s); return v }

func uniq(v []uint64) []uint64 {
	m := map[uint64]bool{}
	var out []uint64
	for _, x := range v {
		if !m[x] {
			m[x] = true
			out = append(out, x)
		}
	}
	sort.Slice(out, func(i, j int) bool { return out[i] < out[j] })
	return out
}

type errTracer struct{ *am.TracerNoOp }

func (t *errTracer) TransitionInit(tx *am.Transition) {
	a := am.ParseArgs[am.AException](tx.Mutation.Args)
	if a.Err != nil {
		fmt.Fprintf(os.Stderr, "DEBUGGER EXCEPTION: %v\n%s\n", a.Err, a.ErrTrace)
	}
}
