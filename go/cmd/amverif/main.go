package main

import (
	"encoding/json"
	"flag"
	"fmt"
	"os"
	"strings"

	"amverif/codec"
	"amverif/core"
)

func main() {
	if len(os.Args) < 2 {
		fmt.Println("usage: amverif <cmd> ...")
		os.Exit(2)
	}
	switch os.Args[1] {
	case "core":
		os.Exit(cmdCore(os.Args[2:]))
	case "codec":
		os.Exit(cmdCodec(os.Args[2:]))
	default:
		fmt.Println("unknown command", os.Args[1])
		os.Exit(2)
	}
}

func cmdCodec(args []string) int {
	fs := flag.NewFlagSet("codec", flag.ExitOnError)
	fs.String("prop", "C10", "")
	tier := fs.String("tier", "quick", "quick|thorough")
	seed := fs.Int64("seed", 1, "PRNG seed")
	n := fs.Int("cases", 0, "generated cases")
	driver := fs.String("driver", "/verif/lean/.lake/build/bin/amdriver", "model driver")
	out := fs.String("out", "/verif/out", "")
	result := fs.String("result", "", "")
	fs.String("corpus", "", "")
	fs.String("replay", "", "")
	search := fs.Bool("search", false, "")
	fs.Parse(args)
	if *n == 0 {
		*n = 600
		if *tier == "thorough" {
			*n = 8000
		}
	}
	if *search {
		*n *= 5
	}
	res := codec.RunPipeline(*seed, *tier, *driver, *out, *n, *search)
	b, _ := json.MarshalIndent(res, "", " ")
	if *result != "" {
		os.WriteFile(*result, b, 0o644)
	}
	fmt.Printf("cases=%d evaluations=%d disagreements=%d failures=%d wall=%.1fs\n", res.Cases, res.Evaluations, len(res.Disagreements), len(res.Failures), res.WallS)
	for _, d := range res.Disagreements {
		if d.File != "" {
			fmt.Printf("DISAGREE %s line %d: %s\n  impl : %s\n  model: %s\n", d.File, d.Line, d.Op, d.Impl, d.Model)
		}
	}
	for _, f := range res.Failures {
		fmt.Printf("MONITOR-FAIL finding=%q %s (%s)\n", f.Finding, f.Msg, f.File)
	}
	if len(res.Disagreements) > 0 || len(res.Failures) > 0 {
		return 1
	}
	return 0
}

func optsFor(prop, tier string) (core.GenOpts, int) {
	all := []string{"random", "chain", "blocked", "mutex", "autos", "after", "multi", "sparse", "health", "autoveto"}
	o := core.GenOpts{MaxStates: 6, MaxOps: 14, Handlers: 0.6, Faults: 0.0, Timeouts: 0.0, Nested: 0.15, Checks: 0.15, Motifs: all}
	n := 1500
	switch prop {
	case "C01":
		o.Faults = 0.15
	case "C02":
		o.Handlers, o.Nested = 0.2, 0.05
		o.Motifs = []string{"random", "chain", "blocked", "mutex", "autos", "multi", "random", "chain"}
		n = 2500
	case "C03":
		o.Checks = 0.3
	case "C04":
		o.Nested, o.Handlers = 0.5, 0.9
	case "C05":
		o.Handlers = 1.0
		o.Detach = 0.25
		o.Motifs = []string{"after", "after", "random", "sparse", "multi", "autos"}
	case "C07":
		o.Motifs = []string{"autos", "autoveto", "autoveto", "health", "mutex", "random", "chain"}
		o.Handlers = 0.8
	case "C08":
		o.Handlers, o.Faults, o.Timeouts = 1.0, 0.9, 0.05
		n = 800
	case "C11":
		n = 300
	case "C14":
		o.Faults = 0.1
	}
	if tier == "thorough" {
		n *= 12
		o.MaxStates = 7
	}
	return o, n
}

func cmdCore(args []string) int {
	fs := flag.NewFlagSet("core", flag.ExitOnError)
	prop := fs.String("prop", "all", "property id (projection + monitors)")
	tier := fs.String("tier", "quick", "quick|thorough")
	seed := fs.Int64("seed", 1, "PRNG seed")
	n := fs.Int("cases", 0, "generated cases (0 = tier default)")
	driver := fs.String("driver", "/verif/lean/.lake/build/bin/amdriver", "model driver")
	replay := fs.String("replay", "", "case file to replay")
	out := fs.String("out", "/verif/out", "directory for replay files")
	result := fs.String("result", "", "write the result JSON here")
	corpus := fs.String("corpus", "", "comma separated corpus dirs")
	search := fs.Bool("search", false, "failing-input search: monitors only, larger budget")
	fs.Parse(args)
	if *replay != "" {
		c, err := core.LoadCase(*replay)
		if err != nil {
			fmt.Println(err)
			return 2
		}
		obs, sch, err := core.RunImpl(c)
		if err != nil {
			fmt.Println("impl error", err)
			return 2
		}
		model, err := core.RunModel(*driver, []core.Case{c})
		if err != nil {
			fmt.Println(err)
			return 2
		}
		for i := range obs {
			fmt.Printf("> %s\n  impl : %s\n  model: %s\n", c.Lines[i], obs[i].Out, model[0][i])
		}
		rc := 0
		if d := core.Compare(*prop, 0, c, obs, model[0]); d != nil {
			fmt.Println("DISAGREE at line", d.LineIdx)
			rc = 1
		}
		for _, f := range core.Monitor(*prop, c, sch, obs) {
			fmt.Printf("MONITOR %s line %d finding=%q: %s\n", f.Prop, f.Line, f.Finding, f.Msg)
			rc = 1
		}
		return rc
	}
	o, def := optsFor(*prop, *tier)
	if *n == 0 {
		*n = def
	}
	if *search {
		*n *= 6
	}
	p := &core.Pipeline{Prop: *prop, Seed: *seed, Tier: *tier, Driver: *driver, OutDir: *out,
		Opts: o, NCases: *n, Workers: 12, Search: *search}
	if *prop == "C11" {
		p.Repeat = 64
		if *tier == "thorough" {
			p.Repeat = 256
		}
	}
	if *corpus != "" {
		p.Corpus = strings.Split(*corpus, ",")
	}
	res := p.Run()
	b, _ := json.MarshalIndent(res, "", " ")
	if *result != "" {
		os.WriteFile(*result, b, 0o644)
	}
	fmt.Printf("cases=%d evaluations=%d transitions=%d disagreements=%d failures=%d wall=%.1fs\n",
		res.Cases, res.Evaluations, res.Transitions, len(res.Disagreements), len(res.Failures), res.WallS)
	for _, d := range res.Disagreements {
		fmt.Printf("DISAGREE %s line %d: %s\n  impl : %s\n  model: %s\n", d.File, d.Line, d.Op, d.Impl, d.Model)
	}
	for _, f := range res.Failures {
		fmt.Printf("MONITOR-FAIL finding=%q %s (%s)\n", f.Finding, f.Msg, f.File)
	}
	if len(res.Disagreements) > 0 || len(res.Failures) > 0 {
		return 1
	}
	return 0
}
