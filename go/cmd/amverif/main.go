package main

import (
	"encoding/json"
	"flag"
	"fmt"
	"math/rand"
	"os"
	"os/exec"
	"path/filepath"
	"sort"
	"strconv"
	"strings"
	"sync"
	"time"

	"amverif/codec"
	"amverif/conc"
	"amverif/core"
	"amverif/dbgeng"
	"amverif/helpers"
	"amverif/hist"
	"amverif/pipes"
	"amverif/race"
	"amverif/rpcconv"
	"amverif/super"
)

func main() {
	if len(os.Args) < 2 {
		fmt.Println("usage: amverif <cmd> ...")
		os.Exit(2)
	}
	switch os.Args[1] {
	case "core":
		os.Exit(cmdCore(os.Args[2:]))
	case "codec":
		os.Exit(cmdCodec(os.Args[2:]))
	case "helpers":
		os.Exit(cmdHelpers(os.Args[2:]))
	case "conc":
		os.Exit(cmdConc(os.Args[2:]))
	case "pipes":
		os.Exit(cmdPipes(os.Args[2:]))
	case "hist":
		os.Exit(cmdHist(os.Args[2:]))
	case "race":
		os.Exit(cmdRace(os.Args[2:]))
	case "dbg":
		os.Exit(cmdDbg(os.Args[2:]))
	case "super":
		os.Exit(cmdSuper(os.Args[2:]))
	case "conv":
		os.Exit(cmdConv(os.Args[2:]))
	case "convchild":
		rpcconv.Child(os.Args[2])
		os.Exit(0)
	case "superchild":
		super.Child(os.Args[2])
		os.Exit(0)
	case "disposereplay":
		b, _ := os.ReadFile(os.Args[2])
		dc, err := conc.ParseDCase(strings.Split(string(b), "\n"))
		if err != nil {
			fmt.Println(err)
			os.Exit(2)
		}
		run := conc.ExecDispose(dc)
		for _, f := range run.Failures {
			fmt.Println("MONITOR C13:", f.Msg)
		}
		fmt.Println("checks", run.Checks, "subs", run.Subs)
		if len(run.Failures) > 0 {
			os.Exit(1)
		}
		os.Exit(0)
	case "disposedbg":
		per, _ := strconv.Atoi(os.Args[2])
		cases, checks, tags, fails := conc.RunDispose(1, per, "/tmp/concout", "C13", nil)
		fmt.Println(cases, checks, tags)
		for _, f := range fails {
			fmt.Println("FAIL", f.Msg, f.File)
		}
		os.Exit(0)
	case "sweepchild":
		seed, _ := strconv.ParseInt(os.Args[2], 10, 64)
		samples, _ := strconv.Atoi(os.Args[3])
		skip := ""
		if len(os.Args) > 4 {
			skip = os.Args[4]
		}
		helpers.SweepChild(seed, samples, skip)
		os.Exit(0)
	default:
		fmt.Println("unknown command", os.Args[1])
		os.Exit(2)
	}
}

func cmdHelpers(args []string) int {
	fs := flag.NewFlagSet("helpers", flag.ExitOnError)
	fs.String("prop", "C20", "")
	tier := fs.String("tier", "quick", "quick|thorough")
	seed := fs.Int64("seed", 1, "PRNG seed")
	driver := fs.String("driver", "/verif/lean/.lake/build/bin/amdriver", "model driver")
	out := fs.String("out", "/verif/out", "")
	result := fs.String("result", "", "")
	fs.String("corpus", "", "")
	replay := fs.String("replay", "", "")
	search := fs.Bool("search", false, "")
	fs.Parse(args)
	if *replay != "" {
		b, err := os.ReadFile(*replay)
		if err != nil {
			fmt.Println(err)
			return 2
		}
		if strings.HasSuffix(*replay, ".scase") {
			for _, l := range strings.Split(string(b), "\n") {
				var sd int64
				if n, _ := fmt.Sscanf(l, "waitsem seed=%d", &sd); n == 1 {
					fails, line := helpers.WaitSemScenario(sd)
					fmt.Println(line)
					for _, f := range fails {
						fmt.Println("MONITOR C20:", f)
					}
					if len(fails) > 0 {
						return 1
					}
					return 0
				}
			}
			fmt.Println("not a waitsem case")
			return 2
		}
		if strings.HasSuffix(*replay, ".ycase") {
			for _, l := range strings.Split(string(b), "\n") {
				var sd int64
				if n, _ := fmt.Sscanf(l, "twoctx seed=%d", &sd); n == 1 {
					fails, line := helpers.TwoCtxScenario(sd)
					fmt.Println(line)
					for _, f := range fails {
						fmt.Println("MONITOR C20:", f)
					}
					if len(fails) > 0 {
						return 1
					}
					return 0
				}
			}
			fmt.Println("not a two-context case")
			return 2
		}
		if strings.HasSuffix(*replay, ".xcase") {
			for _, l := range strings.Split(string(b), "\n") {
				var sd int64
				if n, _ := fmt.Sscanf(l, "indexviews seed=%d", &sd); n == 1 {
					fails, line := helpers.IndexViewScenario(sd)
					fmt.Println(line)
					for _, f := range fails {
						fmt.Println("MONITOR C20:", f)
					}
					if len(fails) > 0 {
						return 1
					}
					return 0
				}
			}
			fmt.Println("not an index-view case")
			return 2
		}
		if strings.HasSuffix(*replay, ".ccase") {
			for _, l := range strings.Split(string(b), "\n") {
				var sd int64
				if n, _ := fmt.Sscanf(l, "copies seed=%d", &sd); n == 1 {
					fails, line := helpers.CopyScenario(sd)
					fmt.Println(line)
					for _, f := range fails {
						fmt.Println("MONITOR C20:", f)
					}
					if len(fails) > 0 {
						return 1
					}
					return 0
				}
			}
			fmt.Println("not a copies case")
			return 2
		}
		if strings.HasSuffix(*replay, ".wcase") {
			for _, l := range strings.Split(string(b), "\n") {
				var sd int64
				if n, _ := fmt.Sscanf(l, "waiters seed=%d", &sd); n == 1 {
					fails, line := helpers.WaiterScenario(sd)
					fmt.Println(line)
					for _, f := range fails {
						fmt.Println("MONITOR C20:", f.Msg)
					}
					if len(fails) > 0 {
						return 1
					}
					return 0
				}
			}
			fmt.Println("not a waiters case")
			return 2
		}
		// algebra / sweep findings are replayed by re-running the run that produced them (the seed
		// is part of the file name) and looking for the same file
		base := filepath.Base(*replay)
		var sd int64 = 1
		fmt.Sscanf(base, "C20-seed%d-", &sd)
		res := helpers.RunPipeline(sd, *tier, *driver, *out, *search)
		for _, f := range res.Failures {
			if filepath.Base(f.File) == base {
				fmt.Printf("MONITOR-FAIL finding=%q %s\n", f.Finding, f.Msg)
				return 1
			}
		}
		fmt.Println("not reproduced")
		return 0
	}
	res := helpers.RunPipeline(*seed, *tier, *driver, *out, *search)
	b, _ := json.MarshalIndent(res, "", " ")
	if *result != "" {
		os.WriteFile(*result, b, 0o644)
	}
	fmt.Printf("evaluations=%d disagreements=%d failures=%d wall=%.1fs extra=%v\n", res.Evaluations, len(res.Disagreements), len(res.Failures), res.WallS, res.Extra["sweep"])
	for _, d := range res.Disagreements {
		fmt.Printf("DISAGREE %s: %s impl=%s model=%s\n", d.File, d.Op, d.Impl, d.Model)
	}
	for _, f := range res.Failures {
		fmt.Printf("MONITOR-FAIL finding=%q %s\n", f.Finding, f.Msg)
	}
	if len(res.Disagreements) > 0 || len(res.Failures) > 0 {
		return 1
	}
	return 0
}

// cmdConc: the concurrency engine (scheduled real goroutines vs. the queue
// protocol model) followed by the sequential core pipeline under the same
// property's projection and monitors.
func cmdConc(args []string) int {
	fs := flag.NewFlagSet("conc", flag.ExitOnError)
	prop := fs.String("prop", "C04", "")
	tier := fs.String("tier", "quick", "quick|thorough")
	seed := fs.Int64("seed", 1, "PRNG seed")
	n := fs.Int("cases", 0, "generated cases")
	driver := fs.String("driver", "/verif/lean/.lake/build/bin/amdriver", "model driver")
	out := fs.String("out", "/verif/out", "")
	result := fs.String("result", "", "")
	corpus := fs.String("corpus", "", "")
	replay := fs.String("replay", "", "")
	search := fs.Bool("search", false, "")
	fs.Parse(args)
	if *replay != "" && strings.HasSuffix(*replay, ".case") {
		return cmdCore(args)
	}
	if *replay != "" && strings.HasSuffix(*replay, ".dcase") {
		b, _ := os.ReadFile(*replay)
		dc, err := conc.ParseDCase(strings.Split(string(b), "\n"))
		if err != nil {
			fmt.Println(err)
			return 2
		}
		run := conc.ExecDispose(dc)
		for _, f := range run.Failures {
			fmt.Printf("MONITOR %s finding=%q: %s\n", *prop, conc.DisposeFinding(dc, f.Msg), f.Msg)
		}
		fmt.Println("checks", run.Checks, "outstanding subscriptions", run.Subs)
		rc := 0
		if len(run.Lines) > 4 && len(run.Lines) == len(run.Obs) {
			model, err := core.RunModel(*driver, []core.Case{{Lines: run.Lines}})
			if err != nil {
				fmt.Println(err)
				return 2
			}
			for i := range run.Lines {
				mark := " "
				if !conc.MatchObs(run.Obs[i], model[0][i]) {
					mark, rc = "!", 1
				}
				fmt.Printf("%s %-18s impl : %s\n                     model: %s\n", mark, run.Lines[i], run.Obs[i], model[0][i])
			}
		}
		if len(run.Failures) > 0 {
			return 1
		}
		return rc
	}
	if *replay != "" {
		c, err := conc.LoadCase(*replay)
		if err != nil {
			fmt.Println(err)
			return 2
		}
		run := conc.Exec(c)
		model, err := core.RunModel(*driver, []core.Case{{Lines: run.Lines}})
		if err != nil {
			fmt.Println(err)
			return 2
		}
		rc := 0
		for i := range run.Lines {
			mark := " "
			if i >= len(model[0]) || model[0][i] != run.Obs[i] {
				mark, rc = "!", 1
			}
			mo := ""
			if i < len(model[0]) {
				mo = model[0][i]
			}
			fmt.Printf("%s %-12s impl : %s\n               model: %s\n", mark, run.Lines[i], run.Obs[i], mo)
		}
		for _, e := range run.Events {
			fmt.Printf("event thread=%d call=%d %s\n", e.Thread, e.Call, e.Point)
		}
		if run.Err != "" {
			fmt.Println("ERROR", run.Err)
			rc = 1
		}
		for _, f := range run.Failures {
			fmt.Printf("MONITOR %s finding=%q: %s\n", *prop, f.Finding, f.Msg)
			rc = 1
		}
		fmt.Printf("picks=%v queue-at-end=%d\n", run.Picks, run.QLenEnd)
		return rc
	}
	if *n == 0 {
		*n = 400
		if *tier == "thorough" {
			*n = 6000
		}
	}
	if *search {
		*n *= 4
	}
	var dirs []string
	if *corpus != "" {
		dirs = strings.Split(*corpus, ",")
	}
	var res *core.Result
	if *prop == "C13" {
		per := 3
		if *tier == "thorough" {
			per = 25
		}
		if *search {
			per *= 3
		}
		t0 := time.Now()
		res = &core.Result{Prop: *prop, Seed: *seed, Tier: *tier, Tags: map[string]int{}, Ops: map[string]int{}, Results: map[string]int{}}
		dcases, dchecks, dtags, dfails := conc.RunDispose(*seed, per, *out, *prop, dirs)
		res.Cases, res.Evaluations = dcases, dchecks
		for k, v := range dtags {
			res.Tags["dispose:"+k] = v
		}
		for _, f := range dfails {
			res.Failures = append(res.Failures, core.FailRec{Prop: *prop, Finding: f.Finding, Msg: f.Msg, File: f.File})
		}
		// the scenarios that are schedules of the Lean disposal-protocol model: replayed there
		protoLines := 0
		if len(conc.Scripts) > 0 && !*search {
			var mc []core.Case
			for _, sc := range conc.Scripts {
				mc = append(mc, core.Case{Lines: sc.Lines})
			}
			model, err := core.RunModel(*driver, mc)
			if err != nil {
				res.Disagreements = append(res.Disagreements, core.DisRec{Op: "driver", Model: err.Error()})
			} else {
				for i, sc := range conc.Scripts {
					for j := range sc.Lines {
						protoLines++
						if !conc.MatchObs(sc.Obs[j], model[i][j]) {
							file := filepath.Join(*out, fmt.Sprintf("%s-seed%d-proto%d.dcase", *prop, *seed, len(res.Disagreements)))
							var b strings.Builder
							b.WriteString("# disposal protocol: the real machine and the Lean model Am.DP disagree at `" + sc.Lines[j] + "`\n# impl : " + sc.Obs[j] + "\n# model: " + model[i][j] + "\n")
							b.WriteString(strings.Join(sc.Case.Lines(), "\n") + "\n")
							os.WriteFile(file, []byte(b.String()), 0o644)
							res.Disagreements = append(res.Disagreements, core.DisRec{File: file, Line: j, Op: sc.Lines[j], Impl: sc.Obs[j], Model: model[i][j]})
							break
						}
					}
				}
			}
		}
		res.Extra = map[string]any{"dispose_cases": dcases, "dispose_checks": dchecks, "protocol_scripts": len(conc.Scripts), "protocol_lines_compared": protoLines}
		res.WallS = time.Since(t0).Seconds()
	} else {
		res = conc.RunPipeline(*prop, *seed, *tier, *driver, *out, *n, *search, dirs)
	}
	// sequential side
	o, def := optsFor(*prop, *tier)
	if *search {
		def *= 4
	}
	p := &core.Pipeline{Prop: *prop, Seed: *seed, Tier: *tier, Driver: *driver, OutDir: *out,
		Opts: o, NCases: def, Workers: 12, Search: *search, Corpus: dirs}
	seq := p.Run()
	res.Cases += seq.Cases
	res.Evaluations += seq.Evaluations
	res.Transitions += seq.Transitions
	res.HandlerCalls += seq.HandlerCalls
	res.Crashes += seq.Crashes
	res.CorpusCases += seq.CorpusCases
	res.DistinctNontrivial += seq.DistinctNontrivial
	for k, v := range seq.Tags {
		res.Tags["seq:"+k] += v
	}
	for k, v := range seq.Ops {
		res.Ops[k] += v
	}
	for k, v := range seq.Results {
		res.Results["seq:"+k] += v
	}
	res.Disagreements = append(res.Disagreements, seq.Disagreements...)
	res.Failures = append(res.Failures, seq.Failures...)
	res.Note += seq.Note
	res.WallS += seq.WallS
	b, _ := json.MarshalIndent(res, "", " ")
	if *result != "" {
		os.WriteFile(*result, b, 0o644)
	}
	fmt.Printf("cases=%d evaluations=%d transitions=%d disagreements=%d failures=%d wall=%.1fs extra=%v\n",
		res.Cases, res.Evaluations, res.Transitions, len(res.Disagreements), len(res.Failures), res.WallS, res.Extra)
	for _, d := range res.Disagreements {
		if d.File != "" {
			fmt.Printf("DISAGREE %s line %d: %s\n  impl : %s\n  model: %s\n", d.File, d.Line, d.Op, d.Impl, d.Model)
		}
	}
	for _, f := range res.Failures {
		fmt.Printf("MONITOR-FAIL finding=%q %s (%s)\n", f.Finding, f.Msg, f.File)
	}
	if len(res.Disagreements) > 0 || len(res.Failures) > 0 {
		return 1
	}
	return 0
}

func cmdConv(args []string) int {
	fs := flag.NewFlagSet("conv", flag.ExitOnError)
	fs.String("prop", "C09", "")
	tier := fs.String("tier", "quick", "quick|thorough")
	seed := fs.Int64("seed", 1, "PRNG seed")
	n := fs.Int("cases", 0, "generated cases")
	driver := fs.String("driver", "/verif/lean/.lake/build/bin/amdriver", "model driver")
	out := fs.String("out", "/verif/out", "")
	result := fs.String("result", "", "")
	corpus := fs.String("corpus", "", "")
	replay := fs.String("replay", "", "")
	search := fs.Bool("search", false, "")
	fs.Parse(args)
	var fixed []rpcconv.Case
	if *replay != "" {
		c, err := rpcconv.LoadCase(*replay)
		if err != nil {
			fmt.Println(err)
			return 2
		}
		fixed = append(fixed, c)
		*n = -1
	}
	if *n == 0 {
		*n = 40
		if *tier == "thorough" {
			*n = 600
		}
	}
	if *n < 0 {
		*n = 0
	}
	if *search {
		*n *= 3
	}
	var dirs []string
	if *corpus != "" && *replay == "" {
		dirs = strings.Split(*corpus, ",")
	}
	res := rpcconv.RunPipeline(*seed, *tier, *driver, *out, *n, *search, dirs, fixed)
	b, _ := json.MarshalIndent(res, "", " ")
	if *result != "" {
		os.WriteFile(*result, b, 0o644)
	}
	fmt.Printf("cases=%d evaluations=%d disagreements=%d failures=%d wall=%.1fs extra=%v note=%s\n", res.Cases, res.Evaluations, len(res.Disagreements), len(res.Failures), res.WallS, res.Extra, res.Note)
	for _, d := range res.Disagreements {
		if d.File != "" {
			fmt.Printf("DISAGREE %s line %d: %s\n  impl : %s\n  model: %s\n", d.File, d.Line, d.Op, d.Impl, d.Model)
		}
	}
	for _, f := range res.Failures {
		fmt.Printf("MONITOR-FAIL finding=%q %s (%s)\n", f.Finding, f.Msg, f.File)
	}
	if len(res.Disagreements) > 0 || len(res.Failures) > 0 {
		return 1
	}
	return 0
}

func cmdSuper(args []string) int {
	fs := flag.NewFlagSet("super", flag.ExitOnError)
	fs.String("prop", "C15", "")
	tier := fs.String("tier", "quick", "quick|thorough")
	seed := fs.Int64("seed", 1, "PRNG seed")
	n := fs.Int("cases", 0, "generated cases")
	driver := fs.String("driver", "/verif/lean/.lake/build/bin/amdriver", "model driver")
	out := fs.String("out", "/verif/out", "")
	result := fs.String("result", "", "")
	corpus := fs.String("corpus", "", "")
	replay := fs.String("replay", "", "")
	search := fs.Bool("search", false, "")
	fs.Parse(args)
	var fixed []super.Case
	if *replay != "" {
		c, err := super.LoadCase(*replay)
		if err != nil {
			fmt.Println(err)
			return 2
		}
		fixed = append(fixed, c)
		*n = -1
	}
	if *n == 0 {
		*n = 24
		if *tier == "thorough" {
			*n = 300
		}
	}
	if *n < 0 {
		*n = 0
	}
	if *search {
		*n *= 3
	}
	var dirs []string
	if *corpus != "" && *replay == "" {
		dirs = strings.Split(*corpus, ",")
	}
	res := super.RunPipeline(*seed, *tier, *driver, *out, *n, *search, dirs, fixed)
	b, _ := json.MarshalIndent(res, "", " ")
	if *result != "" {
		os.WriteFile(*result, b, 0o644)
	}
	fmt.Printf("cases=%d evaluations=%d disagreements=%d failures=%d wall=%.1fs extra=%v note=%s\n", res.Cases, res.Evaluations, len(res.Disagreements), len(res.Failures), res.WallS, res.Extra, res.Note)
	for _, d := range res.Disagreements {
		if d.File != "" {
			fmt.Printf("DISAGREE %s line %d: %s\n  impl : %s\n  model: %s\n", d.File, d.Line, d.Op, d.Impl, d.Model)
		}
	}
	for _, f := range res.Failures {
		fmt.Printf("MONITOR-FAIL finding=%q %s (%s)\n", f.Finding, f.Msg, f.File)
	}
	if len(res.Disagreements) > 0 || len(res.Failures) > 0 {
		return 1
	}
	return 0
}

func cmdDbg(args []string) int {
	fs := flag.NewFlagSet("dbg", flag.ExitOnError)
	fs.String("prop", "C16", "")
	tier := fs.String("tier", "quick", "quick|thorough")
	seed := fs.Int64("seed", 1, "PRNG seed")
	n := fs.Int("cases", 0, "generated cases")
	driver := fs.String("driver", "/verif/lean/.lake/build/bin/amdriver", "model driver")
	out := fs.String("out", "/verif/out", "")
	result := fs.String("result", "", "")
	corpus := fs.String("corpus", "", "")
	replay := fs.String("replay", "", "")
	search := fs.Bool("search", false, "")
	fs.Parse(args)
	var fixed []dbgeng.Case
	if *replay != "" {
		// an export / import failure belongs to a whole run: re-run it
		if b, err := os.ReadFile(*replay); err == nil {
			for _, l := range strings.Split(string(b), "\n") {
				var sd int64
				var tr string
				if n, _ := fmt.Sscanf(l, "# whole run: seed=%d tier=%s", &sd, &tr); n == 2 {
					*seed, *tier, *replay = sd, tr, ""
				}
			}
		}
	}
	if *replay != "" {
		c, err := dbgeng.LoadCase(*replay)
		if err != nil {
			fmt.Println(err)
			return 2
		}
		fixed = append(fixed, c)
		*n = -1
	}
	if *n == 0 {
		*n = 24
		if *tier == "thorough" {
			*n = 400
		}
	}
	if *n < 0 {
		*n = 0
	}
	if *search {
		*n *= 3
	}
	var dirs []string
	if *corpus != "" && *replay == "" {
		dirs = strings.Split(*corpus, ",")
	}
	res := dbgeng.RunPipeline(*seed, *tier, *driver, *out, *n, *search, dirs, fixed)
	b, _ := json.MarshalIndent(res, "", " ")
	if *result != "" {
		os.WriteFile(*result, b, 0o644)
	}
	fmt.Printf("cases=%d evaluations=%d disagreements=%d failures=%d wall=%.1fs extra=%v note=%s\n", res.Cases, res.Evaluations, len(res.Disagreements), len(res.Failures), res.WallS, res.Extra, res.Note)
	for _, d := range res.Disagreements {
		if d.File != "" {
			fmt.Printf("DISAGREE %s line %d: %s\n  impl : %s\n  model: %s\n", d.File, d.Line, d.Op, d.Impl, d.Model)
		}
	}
	for _, f := range res.Failures {
		fmt.Printf("MONITOR-FAIL finding=%q %s (%s)\n", f.Finding, f.Msg, f.File)
	}
	if len(res.Disagreements) > 0 || len(res.Failures) > 0 {
		return 1
	}
	return 0
}

func cmdRace(args []string) int {
	fs := flag.NewFlagSet("race", flag.ExitOnError)
	fs.String("prop", "C12", "")
	tier := fs.String("tier", "quick", "quick|thorough")
	seed := fs.Int64("seed", 1, "PRNG seed")
	n := fs.Int("cases", 0, "programs")
	fs.String("driver", "", "")
	out := fs.String("out", "/verif/out", "")
	result := fs.String("result", "", "")
	fs.String("corpus", "", "")
	replay := fs.String("replay", "", "")
	bin := fs.String("bin", "/verif/bin/amrace", "race-instrumented program runner")
	search := fs.Bool("search", false, "")
	fs.Parse(args)
	if *replay != "" {
		// the file names the program (seed, kind): run it repeatedly under the detector
		b, err := os.ReadFile(*replay)
		if err != nil {
			fmt.Println(err)
			return 2
		}
		var sd int64
		for _, l := range strings.Split(string(b), "\n") {
			if strings.HasPrefix(l, "PROGRAM ") {
				fmt.Sscanf(l, "PROGRAM seed=%d", &sd)
			}
		}
		cmd := fmt.Sprintf("for i in $(seq 1 40); do GORACE='halt_on_error=1 exitcode=66' %s -seed %d -programs 1 >/dev/null 2>%s/replay.race.txt || { cat %s/replay.race.txt; exit 1; }; done", *bin, sd, *out, *out)
		c := exec.Command("bash", "-c", cmd)
		c.Stdout = os.Stdout
		c.Stderr = os.Stderr
		if err := c.Run(); err != nil {
			return 1
		}
		fmt.Println("no race in 40 runs of program", sd)
		return 0
	}
	if *n == 0 {
		*n = 480
		if *tier == "thorough" {
			*n = 8000
		}
	}
	if *search {
		*n *= 3
	}
	res := race.RunPipeline(*bin, *seed, *tier, *out, *n, *search)
	b, _ := json.MarshalIndent(res, "", " ")
	if *result != "" {
		os.WriteFile(*result, b, 0o644)
	}
	fmt.Printf("programs=%d failures=%d wall=%.1fs note=%s\n", res.Cases, len(res.Failures), res.WallS, res.Note)
	for _, f := range res.Failures {
		fmt.Printf("MONITOR-FAIL finding=%q %s (%s)\n", f.Finding, f.Msg, f.File)
	}
	if len(res.Failures) > 0 {
		return 1
	}
	return 0
}

func cmdHist(args []string) int {
	fs := flag.NewFlagSet("hist", flag.ExitOnError)
	fs.String("prop", "C17", "")
	tier := fs.String("tier", "quick", "quick|thorough")
	seed := fs.Int64("seed", 1, "PRNG seed")
	n := fs.Int("cases", 0, "generated cases")
	driver := fs.String("driver", "/verif/lean/.lake/build/bin/amdriver", "model driver")
	out := fs.String("out", "/verif/out", "")
	result := fs.String("result", "", "")
	corpus := fs.String("corpus", "", "")
	replay := fs.String("replay", "", "")
	search := fs.Bool("search", false, "")
	fs.Parse(args)
	if *replay != "" && strings.HasSuffix(*replay, ".bcase") {
		b, err := os.ReadFile(*replay)
		if err != nil {
			fmt.Println(err)
			return 2
		}
		for _, l := range strings.Split(string(b), "\n") {
			var sd int64
			if n, _ := fmt.Sscanf(l, "shareddb seed=%d", &sd); n == 1 {
				fails, line := hist.SharedDbScenario(sd)
				fmt.Println(line)
				for _, f := range fails {
					fmt.Println("MONITOR C17:", f)
				}
				if len(fails) > 0 {
					return 1
				}
				return 0
			}
			if n, _ := fmt.Sscanf(l, "batchorder seed=%d", &sd); n == 1 {
				rc := 0
				// the order of the batch goroutines decides: the burst is repeated
				for k := 0; k < 20 && rc == 0; k++ {
					fails, line := hist.BatchOrderScenario(sd)
					if k == 0 {
						fmt.Println(line)
					}
					for _, f := range fails {
						fmt.Println("MONITOR C17:", f)
						rc = 1
					}
				}
				return rc
			}
		}
		fmt.Println("not a batch-order case")
		return 2
	}
	if *replay != "" {
		c, err := hist.LoadCase(*replay)
		if err != nil {
			fmt.Println(err)
			return 2
		}
		run := hist.Exec(c)
		model, err := core.RunModel(*driver, []core.Case{{Lines: run.Lines}})
		if err != nil {
			fmt.Println(err)
			return 2
		}
		rc := 0
		for i := range run.Lines {
			mark := " "
			if i >= len(model[0]) || model[0][i] != run.Obs[i] {
				mark, rc = "!", 1
			}
			fmt.Printf("%s %s\n    impl : %s\n    model: %s\n", mark, run.Lines[i], run.Obs[i], model[0][i])
		}
		if run.Err != "" {
			fmt.Println("ERROR", run.Err)
			rc = 1
		}
		for _, f := range run.Failures {
			fmt.Printf("MONITOR C17: %s\n", f)
			rc = 1
		}
		return rc
	}
	if *n == 0 {
		*n = 300
		if *tier == "thorough" {
			*n = 4000
		}
	}
	if *search {
		*n *= 4
	}
	var dirs []string
	if *corpus != "" {
		dirs = strings.Split(*corpus, ",")
	}
	res := hist.RunPipeline(*seed, *tier, *driver, *out, *n, *search, dirs)
	b, _ := json.MarshalIndent(res, "", " ")
	if *result != "" {
		os.WriteFile(*result, b, 0o644)
	}
	fmt.Printf("cases=%d evaluations=%d disagreements=%d failures=%d wall=%.1fs extra=%v note=%s\n", res.Cases, res.Evaluations, len(res.Disagreements), len(res.Failures), res.WallS, res.Extra, res.Note)
	for _, d := range res.Disagreements {
		if d.File != "" {
			fmt.Printf("DISAGREE %s line %d: %s\n  impl : %s\n  model: %s\n", d.File, d.Line, d.Op, d.Impl, d.Model)
		}
	}
	for _, f := range res.Failures {
		fmt.Printf("MONITOR-FAIL finding=%q %s (%s)\n", f.Finding, f.Msg, f.File)
	}
	if len(res.Disagreements) > 0 || len(res.Failures) > 0 {
		return 1
	}
	return 0
}

func cmdPipes(args []string) int {
	fs := flag.NewFlagSet("pipes", flag.ExitOnError)
	fs.String("prop", "C18", "")
	tier := fs.String("tier", "quick", "quick|thorough")
	seed := fs.Int64("seed", 1, "PRNG seed")
	n := fs.Int("cases", 0, "generated cases")
	driver := fs.String("driver", "/verif/lean/.lake/build/bin/amdriver", "model driver")
	out := fs.String("out", "/verif/out", "")
	result := fs.String("result", "", "")
	corpus := fs.String("corpus", "", "")
	replay := fs.String("replay", "", "")
	rule := fs.String("rule", "new", "model duplicate rule: new|old")
	search := fs.Bool("search", false, "")
	fs.Parse(args)
	if *replay != "" && strings.HasSuffix(*replay, ".mcase") {
		b, err := os.ReadFile(*replay)
		if err != nil {
			fmt.Println(err)
			return 2
		}
		for _, l := range strings.Split(string(b), "\n") {
			var sd int64
			var fails []string
			var line string
			if n, _ := fmt.Sscanf(l, "multibind seed=%d", &sd); n == 1 {
				fails, line = pipes.MultiBindScenario(sd)
			} else if n, _ := fmt.Sscanf(l, "netpipe seed=%d", &sd); n == 1 {
				fails, line = pipes.NetmachScenario(sd)
			} else if n, _ := fmt.Sscanf(l, "autoremove seed=%d", &sd); n == 1 {
				fails, line = pipes.AutoRemoveScenario(sd)
			} else if n, _ := fmt.Sscanf(l, "bindany seed=%d", &sd); n == 1 {
				fails, line = pipes.BindAnyScenario(sd)
			} else if n, _ := fmt.Sscanf(l, "busytarget seed=%d", &sd); n == 1 {
				fails, line = pipes.BusyTargetScenario(sd)
			} else {
				continue
			}
			fmt.Println(line)
			for _, f := range fails {
				fmt.Println("MONITOR C18:", f)
			}
			if len(fails) > 0 {
				return 1
			}
			return 0
		}
		fmt.Println("not a multi-binding / netmach pipe case")
		return 2
	}
	if *replay != "" {
		c, err := pipes.LoadCase(*replay)
		if err != nil {
			fmt.Println(err)
			return 2
		}
		run := pipes.Exec(c, *rule)
		model, err := core.RunModel(*driver, []core.Case{{Lines: run.Lines}})
		if err != nil {
			fmt.Println(err)
			return 2
		}
		rc := 0
		for i := range run.Lines {
			mark := " "
			if i >= len(model[0]) || model[0][i] != run.Obs[i] {
				mark, rc = "!", 1
			}
			fmt.Printf("%s %-22s impl : %s\n                         model: %s\n", mark, run.Lines[i], run.Obs[i], model[0][i])
		}
		if run.Err != "" {
			fmt.Println("ERROR", run.Err)
			rc = 1
		}
		for _, f := range run.Failures {
			fmt.Printf("MONITOR C18 finding=%q: %s\n", pipes.Finding(c, run, f), f)
			rc = 1
		}
		fmt.Printf("forked=%d sync=%d source=%v target=%v\n", run.Forked, run.Sync, run.SrcFinal, run.TgtFinal)
		return rc
	}
	if *n == 0 {
		*n = 300
		if *tier == "thorough" {
			*n = 5000
		}
	}
	if *search {
		*n *= 4
	}
	var dirs []string
	if *corpus != "" {
		dirs = strings.Split(*corpus, ",")
	}
	res := pipes.RunPipeline(*seed, *tier, *driver, *out, *n, *search, dirs, *rule)
	b, _ := json.MarshalIndent(res, "", " ")
	if *result != "" {
		os.WriteFile(*result, b, 0o644)
	}
	fmt.Printf("cases=%d evaluations=%d disagreements=%d failures=%d wall=%.1fs extra=%v\n", res.Cases, res.Evaluations, len(res.Disagreements), len(res.Failures), res.WallS, res.Extra)
	for _, d := range res.Disagreements {
		if d.File != "" {
			fmt.Printf("DISAGREE %s line %d: %s\n  impl : %s\n  model: %s\n", d.File, d.Line, d.Op, d.Impl, d.Model)
		}
	}
	for _, f := range res.Failures {
		fmt.Printf("MONITOR-FAIL finding=%q %s (%s)\n", f.Finding, f.Msg, f.File)
	}
	if len(res.Disagreements) > 0 || len(res.Failures) > 0 {
		return 1
	}
	return 0
}

func cmdCodec(args []string) int {
	fs := flag.NewFlagSet("codec", flag.ExitOnError)
	fs.String("prop", "C10", "")
	tier := fs.String("tier", "quick", "quick|thorough")
	seed := fs.Int64("seed", 1, "PRNG seed")
	n := fs.Int("cases", 0, "generated cases")
	driver := fs.String("driver", "/verif/lean/.lake/build/bin/amdriver", "model driver")
	out := fs.String("out", "/verif/out", "")
	result := fs.String("result", "", "")
	fs.String("corpus", "", "")
	fs.String("replay", "", "")
	search := fs.Bool("search", false, "")
	fs.Parse(args)
	if *n == 0 {
		*n = 600
		if *tier == "thorough" {
			*n = 8000
		}
	}
	if *search {
		*n *= 5
	}
	res := codec.RunPipeline(*seed, *tier, *driver, *out, *n, *search)
	b, _ := json.MarshalIndent(res, "", " ")
	if *result != "" {
		os.WriteFile(*result, b, 0o644)
	}
	fmt.Printf("cases=%d evaluations=%d disagreements=%d failures=%d wall=%.1fs\n", res.Cases, res.Evaluations, len(res.Disagreements), len(res.Failures), res.WallS)
	for _, d := range res.Disagreements {
		if d.File != "" {
			fmt.Printf("DISAGREE %s line %d: %s\n  impl : %s\n  model: %s\n", d.File, d.Line, d.Op, d.Impl, d.Model)
		}
	}
	for _, f := range res.Failures {
		fmt.Printf("MONITOR-FAIL finding=%q %s (%s)\n", f.Finding, f.Msg, f.File)
	}
	if len(res.Disagreements) > 0 || len(res.Failures) > 0 {
		return 1
	}
	return 0
}

func optsFor(prop, tier string) (core.GenOpts, int) {
	all := []string{"random", "chain", "blocked", "mutex", "autos", "after", "multi", "sparse", "health", "autoveto"}
	o := core.GenOpts{MaxStates: 6, MaxOps: 14, Handlers: 0.6, Faults: 0.0, Timeouts: 0.0, Nested: 0.15, Checks: 0.15, Motifs: all}
	n := 1500
	switch prop {
	case "C01":
		o.Faults = 0.15
	case "C02":
		o.Handlers, o.Nested = 0.2, 0.05
		o.Motifs = []string{"random", "chain", "blocked", "mutex", "autos", "multi", "random", "chain", "autoveto"}
		n = 2500
	case "C03":
		o.Checks = 0.3
	case "C04":
		o.Nested, o.Handlers, o.Subs, o.QueueSubs = 0.5, 0.9, 0.6, true
	case "C05":
		o.Handlers = 1.0
		o.Detach = 0.25
		o.Motifs = []string{"after", "after", "random", "sparse", "multi", "autos", "wide"}
	case "C06":
		o.Subs, o.Handlers, o.Nested = 1.0, 0.6, 0.2
		o.Motifs = []string{"sparse", "multi", "random", "autos", "sparse", "multi"}
		n = 2000
	case "C13":
		o.Subs, o.Dispose, o.Handlers = 0.9, 1.0, 0.5
		o.Motifs = []string{"sparse", "multi", "random"}
		n = 1200
	case "C07":
		o.Motifs = []string{"autos", "autoveto", "autoveto", "health", "mutex", "random", "chain"}
		o.Handlers = 0.8
	case "C08":
		o.Handlers, o.Faults, o.Timeouts = 1.0, 0.9, 0.05
		o.FinalFaults, o.WideOps = 0.6, 0.35
		o.Motifs = []string{"sparse", "sparse", "random", "multi", "mutex"}
		n = 800
	case "C11":
		n = 300
	case "C14":
		o.Faults = 0.1
	}
	if tier == "thorough" {
		n *= 12
		o.MaxStates = 7
	}
	return o, n
}

func cmdCore(args []string) int {
	fs := flag.NewFlagSet("core", flag.ExitOnError)
	prop := fs.String("prop", "all", "property id (projection + monitors)")
	tier := fs.String("tier", "quick", "quick|thorough")
	seed := fs.Int64("seed", 1, "PRNG seed")
	n := fs.Int("cases", 0, "generated cases (0 = tier default)")
	driver := fs.String("driver", "/verif/lean/.lake/build/bin/amdriver", "model driver")
	replay := fs.String("replay", "", "case file to replay")
	out := fs.String("out", "/verif/out", "directory for replay files")
	result := fs.String("result", "", "write the result JSON here")
	corpus := fs.String("corpus", "", "comma separated corpus dirs")
	search := fs.Bool("search", false, "failing-input search: monitors only, larger budget")
	fs.Parse(args)
	if *replay != "" && strings.HasSuffix(*replay, ".gcase") {
		b, err := os.ReadFile(*replay)
		if err != nil {
			fmt.Println(err)
			return 2
		}
		for _, l := range strings.Split(string(b), "\n") {
			var sd int64
			if n, _ := fmt.Sscanf(l, "schemagrow seed=%d", &sd); n == 1 {
				fails, line := core.SchemaGrowScenario(sd)
				fmt.Println(line)
				for _, f := range fails {
					fmt.Println("MONITOR C06:", f)
				}
				if len(fails) > 0 {
					return 1
				}
				return 0
			}
		}
		fmt.Println("not a schemagrow case")
		return 2
	}
	if *replay != "" && strings.HasSuffix(*replay, ".lcase") {
		b, err := os.ReadFile(*replay)
		if err != nil {
			fmt.Println(err)
			return 2
		}
		for _, l := range strings.Split(string(b), "\n") {
			var sd int64
			if n, _ := fmt.Sscanf(l, "deadline seed=%d", &sd); n == 1 {
				fs, line := core.DeadlineScenario(sd)
				fmt.Println(line)
				for _, f := range fs {
					fmt.Println("MONITOR C08:", f)
				}
				if len(fs) > 0 {
					return 1
				}
				return 0
			}
		}
		fmt.Println("not a deadline case")
		return 2
	}
	if *replay != "" && strings.HasSuffix(*replay, ".ocase") {
		b, err := os.ReadFile(*replay)
		if err != nil {
			fmt.Println(err)
			return 2
		}
		for _, l := range strings.Split(string(b), "\n") {
			var sd int64
			if n, _ := fmt.Sscanf(l, "defaultorder seed=%d", &sd); n == 1 {
				fs, line := core.DefaultOrderScenario(sd, 256)
				fmt.Println(line)
				for _, f := range fs {
					fmt.Println("MONITOR C11:", f)
				}
				if len(fs) > 0 {
					return 1
				}
				return 0
			}
		}
		fmt.Println("not a default-order case")
		return 2
	}
	if *replay != "" && strings.HasSuffix(*replay, ".icase") {
		c, err := core.LoadCase(*replay)
		if err != nil {
			fmt.Println(err)
			return 2
		}
		fs := core.ImportDetCase(c, 256)
		fmt.Println("export/import determinism", core.ImportDetStats)
		for _, f := range fs {
			fmt.Println("MONITOR C11:", f)
		}
		if len(fs) > 0 {
			return 1
		}
		return 0
	}
	if *replay != "" && strings.HasSuffix(*replay, ".tcase") {
		sd, d, err := core.LoadTracers(*replay)
		if err != nil {
			fmt.Println(err)
			return 2
		}
		fs := core.TracerStress(sd, d, *out)
		fmt.Println("tracer stress", core.TracerStats)
		for _, f := range fs {
			fmt.Printf("MONITOR %s: %s\n", f.Prop, f.Msg)
		}
		if len(fs) > 0 {
			return 1
		}
		return 0
	}
	if *replay != "" && strings.HasSuffix(*replay, ".rcase") {
		sd, d, err := core.LoadReaders(*replay)
		if err != nil {
			fmt.Println(err)
			return 2
		}
		fs := core.ReaderStress(sd, d, *out)
		fmt.Println("reader stress", core.ReaderStats)
		for _, f := range fs {
			fmt.Printf("MONITOR %s: %s\n", f.Prop, f.Msg)
		}
		if len(fs) > 0 {
			return 1
		}
		return 0
	}
	if *replay != "" {
		c, err := core.LoadCase(*replay)
		if err != nil {
			fmt.Println(err)
			return 2
		}
		obs, sch, err := core.RunImpl(c)
		if err != nil {
			fmt.Println("impl error", err)
			return 2
		}
		model, err := core.RunModel(*driver, []core.Case{c})
		if err != nil {
			fmt.Println(err)
			return 2
		}
		for i := range obs {
			fmt.Printf("> %s\n  impl : %s\n  model: %s\n", c.Lines[i], obs[i].Out, model[0][i])
		}
		rc := 0
		if d := core.Compare(*prop, 0, c, obs, model[0]); d != nil {
			fmt.Println("DISAGREE at line", d.LineIdx)
			rc = 1
		}
		for _, f := range core.Monitor(*prop, c, sch, obs) {
			fmt.Printf("MONITOR %s line %d finding=%q: %s\n", f.Prop, f.Line, f.Finding, f.Msg)
			rc = 1
		}
		return rc
	}
	o, def := optsFor(*prop, *tier)
	if *n == 0 {
		*n = def
	}
	if *prop == "C19" {
		return cmdSchemas(*tier, *seed, *driver, *out, *result, *search)
	}
	if *search {
		*n *= 6
	}
	p := &core.Pipeline{Prop: *prop, Seed: *seed, Tier: *tier, Driver: *driver, OutDir: *out,
		Opts: o, NCases: *n, Workers: 12, Search: *search}
	if *prop == "C11" {
		p.Repeat = 64
		if *tier == "thorough" {
			p.Repeat = 256
		}
	}
	if *corpus != "" {
		p.Corpus = strings.Split(*corpus, ",")
	}
	res := p.Run()
	if *prop == "C01" {
		// readers concurrent with the mutating goroutine (the sequential cases cannot see them)
		d := 400 * time.Millisecond
		if *tier == "thorough" {
			d = 6 * time.Second
		}
		if *search {
			d *= 4
		}
		res.Failures = append(res.Failures, core.ReaderStress(*seed, d, *out)...)
		if res.Extra == nil {
			res.Extra = map[string]any{}
		}
		res.Extra["reader_stress"] = core.ReaderStats
	}
	if *prop == "C11" {
		// Export -> Import -> the rest of the history, re-executed: run against run on the real machine
		ni, reps := 150, 64
		if *tier == "thorough" {
			ni, reps = 1500, 256
		}
		if *search {
			ni *= 4
		}
		ifails, icases := core.ImportDeterminism(*seed, o, ni, reps)
		for i, f := range ifails {
			file := filepath.Join(*out, fmt.Sprintf("C11-seed%d-import%d.icase", *seed, i))
			os.WriteFile(file, []byte("# "+f+"\n# the first half of the operations runs on a machine which is exported, a fresh machine imports it and runs the rest\n"+icases[i].String()+"\n"), 0o644)
			res.Failures = append(res.Failures, core.FailRec{Prop: "C11", Msg: f, File: file})
		}
		// machines relying on the inferred state order, names that differ in letter case only
		nd := 60
		if *tier == "thorough" {
			nd = 1500
		}
		for i := 0; i < nd; i++ {
			fs, line := core.DefaultOrderScenario(*seed*100129+int64(i), reps)
			if len(fs) > 0 {
				file := filepath.Join(*out, fmt.Sprintf("C11-seed%d-order%d.ocase", *seed, i))
				os.WriteFile(file, []byte("# "+fs[0]+"\n"+line+"\n"), 0o644)
				res.Failures = append(res.Failures, core.FailRec{Prop: "C11", Msg: fs[0], File: file})
				break
			}
		}
		res.Evaluations += core.ImportDetStats["executions"]
		if res.Extra == nil {
			res.Extra = map[string]any{}
		}
		res.Extra["export_import_determinism"] = core.ImportDetStats
	}
	if *prop == "C06" {
		// subscriptions across schema growth (SetSchema), judged by ground truth on the real machine
		ng := 200
		if *tier == "thorough" {
			ng = 4000
		}
		if *search {
			ng *= 3
		}
		seenG := map[string]bool{}
		for i := 0; i < ng; i++ {
			fails, line := core.SchemaGrowScenario(*seed*100003 + int64(i))
			for _, f := range fails {
				k := strings.SplitN(f, ":", 2)[0]
				if seenG[k] {
					continue
				}
				seenG[k] = true
				file := filepath.Join(*out, fmt.Sprintf("C06-seed%d-grow%d.gcase", *seed, len(res.Failures)))
				os.WriteFile(file, []byte("# subscriptions across SetSchema: "+f+"\n"+line+"\n"), 0o644)
				res.Failures = append(res.Failures, core.FailRec{Prop: "C06", Msg: f + " [" + line + "]", File: file})
			}
		}
		res.Evaluations += ng
		if res.Extra == nil {
			res.Extra = map[string]any{}
		}
		res.Extra["schema_growth_scenarios"] = ng
	}
	if *prop == "C08" {
		// the deadline path: a handler stalls beyond timeout and deadline, then returns
		nd := 6
		if *tier == "thorough" {
			nd = 60
		}
		if *search {
			nd *= 2
		}
		type dout struct {
			fs   []string
			line string
		}
		ch := make(chan dout, nd)
		sem := make(chan struct{}, 6)
		for i := 0; i < nd; i++ {
			go func(i int) {
				sem <- struct{}{}
				defer func() { <-sem }()
				fs, line := core.DeadlineScenario(*seed*100193 + int64(i))
				ch <- dout{fs, line}
			}(i)
		}
		seenD := false
		for i := 0; i < nd; i++ {
			o := <-ch
			res.Evaluations++
			if len(o.fs) > 0 && !seenD {
				seenD = true
				file := filepath.Join(*out, fmt.Sprintf("C08-seed%d-deadline.lcase", *seed))
				os.WriteFile(file, []byte("# "+o.fs[0]+"\n"+o.line+"\n"), 0o644)
				res.Failures = append(res.Failures, core.FailRec{Prop: "C08", Msg: o.fs[0] + " [" + o.line + "]", File: file})
			}
		}
		if res.Extra == nil {
			res.Extra = map[string]any{}
		}
		res.Extra["deadline_scenarios"] = nd
	}
	if *prop == "C14" {
		// many goroutines, two tracers
		d := 300 * time.Millisecond
		if *tier == "thorough" {
			d = 5 * time.Second
		}
		if *search {
			d *= 4
		}
		res.Failures = append(res.Failures, core.TracerStress(*seed, d, *out)...)
		if res.Extra == nil {
			res.Extra = map[string]any{}
		}
		res.Extra["tracer_stress"] = core.TracerStats
	}
	b, _ := json.MarshalIndent(res, "", " ")
	if *result != "" {
		os.WriteFile(*result, b, 0o644)
	}
	fmt.Printf("cases=%d evaluations=%d transitions=%d disagreements=%d failures=%d wall=%.1fs\n",
		res.Cases, res.Evaluations, res.Transitions, len(res.Disagreements), len(res.Failures), res.WallS)
	for _, d := range res.Disagreements {
		fmt.Printf("DISAGREE %s line %d: %s\n  impl : %s\n  model: %s\n", d.File, d.Line, d.Op, d.Impl, d.Model)
	}
	for _, f := range res.Failures {
		fmt.Printf("MONITOR-FAIL finding=%q %s (%s)\n", f.Finding, f.Msg, f.File)
	}
	if len(res.Disagreements) > 0 || len(res.Failures) > 0 {
		return 1
	}
	return 0
}

// cmdSchemas: the shipped schemas (regenerated by amextract) run through the
// core correspondence with random Add1/Remove1 walks, plus monitors for Require
// closure and the mutually-Removing groups.
func cmdSchemas(tier string, seed int64, driver, out, result string, search bool) int {
	b, err := os.ReadFile("/verif/out/schemas.json")
	if err != nil {
		fmt.Println("schemas.json missing (run amextract):", err)
		return 2
	}
	var meta struct {
		Schemas []struct {
			Id, Pkg, Name string
			Names         []string
			Defs          []map[string]any
			Raw           map[string]core.RawState
			Groups        map[string][]int
		} `json:"schemas"`
		UndefinedRefs []struct {
			Schema, Name string
			Kinds        []string
		} `json:"undefined_refs"`
		Uncovered []string `json:"uncovered_groups"`
		Skipped   []string `json:"skipped"`
	}
	if err := json.Unmarshal(b, &meta); err != nil {
		fmt.Println(err)
		return 2
	}
	walks, steps := 6, 40
	if tier == "thorough" {
		walks, steps = 60, 80
	}
	if search {
		walks *= 4
	}
	var cases []core.Case
	type reachJob struct {
		id     string
		sch    *core.Schema
		groups map[string][]int
		raw    map[string]core.RawState
	}
	var reachJobs []reachJob
	r := rand.New(rand.NewSource(seed))
	toInts := func(v any) []int {
		var o []int
		if l, ok := v.([]any); ok {
			for _, x := range l {
				if f, ok := x.(float64); ok {
					o = append(o, int(f))
				}
			}
		}
		return o
	}
	for _, s := range meta.Schemas {
		sch := &core.Schema{Names: append([]string{}, s.Names...)}
		n := len(s.Names)
		clip := func(l []int) []int {
			var o []int
			for _, x := range l {
				if x < n {
					o = append(o, x)
				}
			}
			return o
		}
		for _, d := range s.Defs {
			sch.Defs = append(sch.Defs, core.StateDef{Auto: d["auto"] == true, Multi: d["multi"] == true,
				Require: toInts(d["require"]), Add: clip(toInts(d["add"])), Remove: clip(toInts(d["remove"])), After: clip(toInts(d["after"]))})
		}
		sch.Exc = -1
		for i, nm := range sch.Names {
			if nm == "Exception" {
				sch.Exc = i
			}
			if nm == "Healthcheck" || nm == "Heartbeat" {
				sch.Health = append(sch.Health, i)
			}
		}
		if sch.Exc < 0 {
			// New() defines Exception; undefined Require refs to it resolve here
			sch.Exc = n
			sch.Names = append(sch.Names, "Exception")
			sch.Defs = append(sch.Defs, core.StateDef{Multi: true})
		}
		total := len(sch.Names)
		for i := range sch.Defs {
			var rq []int
			for _, x := range sch.Defs[i].Require {
				if x < n {
					rq = append(rq, x)
				} else if x == n && total > n {
					// implicit Exception got index n only when it was the first undefined name;
					// other undefined Require targets can never be met: keep them out of range
					rq = append(rq, x)
				} else {
					rq = append(rq, total+5)
				}
			}
			sch.Defs[i].Require = rq
		}
		sch.Alpha = core.ComputeAlpha(sch.Names)
		reachJobs = append(reachJobs, reachJob{id: s.Id, sch: sch, groups: s.Groups, raw: s.Raw})
		var gparts []string
		for g, l := range s.Groups {
			gparts = append(gparts, g+":"+core.ShowList(l))
		}
		sort.Strings(gparts)
		line := sch.Line() + " id=" + s.Id + " groups=" + strings.Join(gparts, ";")
		for w := 0; w < walks; w++ {
			lines := []string{line}
			for k := 0; k < steps; k++ {
				st := r.Intn(total)
				x := r.Float64()
				switch {
				case x < 0.55:
					lines = append(lines, fmt.Sprintf("add %d", st))
				case x < 0.9:
					lines = append(lines, fmt.Sprintf("remove %d", st))
				case x < 0.95:
					lines = append(lines, fmt.Sprintf("add %d,%d", st, r.Intn(total)))
				default:
					lines = append(lines, fmt.Sprintf("set %d", st))
				}
			}
			cases = append(cases, core.Case{Lines: lines, Tag: s.Pkg[strings.LastIndex(s.Pkg, "asyncmachine-go/")+16:] + "." + s.Name})
		}
	}
	p := &core.Pipeline{Prop: "C19", Seed: seed, Tier: tier, Driver: driver, OutDir: out, Workers: 12, Search: search, Fixed: cases}
	res := p.Run()
	// undefined references (other than Require on the built-in Exception)
	for _, u := range meta.UndefinedRefs {
		onlyReq := len(u.Kinds) == 1 && u.Kinds[0] == "require"
		if u.Name == "Exception" && onlyReq {
			continue
		}
		file := out + "/C19-undefined-" + strings.ReplaceAll(strings.ReplaceAll(u.Schema, "/", "_"), ".", "_") + "-" + u.Name + ".txt"
		os.WriteFile(file, []byte(fmt.Sprintf("schema %s references state %q (in %v) which it does not define\n", u.Schema, u.Name, u.Kinds)), 0o644)
		res.Failures = append(res.Failures, core.FailRec{Prop: "C19", Finding: "C19-mixin-undefined-refs:" + u.Schema,
			Msg: fmt.Sprintf("schema %s references undefined state %s (%v)", u.Schema, u.Name, u.Kinds), File: file})
	}
	// exhaustive breadth-first search over the reachable active sets, on the real machine
	budget := 6000
	if tier == "thorough" {
		budget = 400000
	}
	reach := make([]core.ReachResult, len(reachJobs))
	var rwg sync.WaitGroup
	sem := make(chan struct{}, 12)
	for i := range reachJobs {
		rwg.Add(1)
		sem <- struct{}{}
		go func(i int) {
			defer rwg.Done()
			defer func() { <-sem }()
			reach[i] = core.ReachSchema(reachJobs[i].id, reachJobs[i].sch, reachJobs[i].groups, budget, reachJobs[i].raw)
		}(i)
	}
	rwg.Wait()
	visited, exhausted := 0, 0
	var notExhausted []string
	for i, rr := range reach {
		visited += rr.Visited
		res.Evaluations += rr.Visited
		if rr.Exhausted {
			exhausted++
		} else {
			notExhausted = append(notExhausted, fmt.Sprintf("%s (%d sets visited)", reachJobs[i].id, rr.Visited))
		}
		for k, f := range rr.Failures {
			file := out + fmt.Sprintf("/C19-seed%d-reach-%d-%d.txt", seed, i, k)
			os.WriteFile(file, []byte("# breadth-first search over the reachable active sets of a shipped schema, real machine\n"+f+"\n"), 0o644)
			res.Failures = append(res.Failures, core.FailRec{Prop: "C19", Msg: f, File: file})
		}
	}
	res.Extra = map[string]any{"schemas": len(meta.Schemas), "uncovered_groups": meta.Uncovered, "skipped": meta.Skipped,
		"bfs_active_sets_visited": visited, "bfs_schemas_exhausted": exhausted, "bfs_budget_reached": notExhausted}
	jb, _ := json.MarshalIndent(res, "", " ")
	if result != "" {
		os.WriteFile(result, jb, 0o644)
	}
	fmt.Printf("schemas=%d cases=%d evaluations=%d disagreements=%d failures=%d wall=%.1fs\n", len(meta.Schemas), res.Cases, res.Evaluations, len(res.Disagreements), len(res.Failures), res.WallS)
	for _, d := range res.Disagreements {
		if d.File != "" {
			fmt.Printf("DISAGREE %s line %d: %s\n", d.File, d.Line, d.Op)
		}
	}
	for _, f := range res.Failures {
		fmt.Printf("MONITOR-FAIL finding=%q %s (%s)\n", f.Finding, f.Msg, f.File)
	}
	return 0
}
