package main

// Lock-table extractor (C12): for the structs that hold the machine's shared
// state, every syntactic access to a field is recorded with the locks that are
// held at that point — locks taken in the same function body plus the locks
// every internal caller holds (a fixed point over the package's call graph).
// The table is regenerated from /repo on every run and checked in Lean against
// the hand-written guard expectations.

import (
	"fmt"
	"go/ast"
	"go/importer"
	"go/parser"
	"go/token"
	"go/types"
	"os"
	"sort"
	"strings"
)

type lockSet map[string]bool // lock name -> held in write mode (false = read mode)

func (l lockSet) clone() lockSet {
	c := lockSet{}
	for k, v := range l {
		c[k] = v
	}
	return c
}

func (l lockSet) key() string {
	var ks []string
	for k, w := range l {
		m := "R"
		if w {
			m = "W"
		}
		ks = append(ks, k+":"+m)
	}
	sort.Strings(ks)
	return strings.Join(ks, ",")
}

func intersect(a, b lockSet) lockSet {
	out := lockSet{}
	for k, wa := range a {
		if wb, ok := b[k]; ok {
			out[k] = wa && wb
		}
	}
	return out
}

func union(a, b lockSet) lockSet {
	out := a.clone()
	for k, w := range b {
		out[k] = out[k] || w
	}
	return out
}

// effective: what is held at a point = what the callers hold, minus what the function has released
// of it ("!lock" markers), plus what it took itself.
func effective(entry, local lockSet) lockSet {
	out := lockSet{}
	for k, w := range entry {
		if _, rel := local["!"+k]; !rel {
			out[k] = w
		}
	}
	for k, w := range local {
		if !strings.HasPrefix(k, "!") {
			out[k] = out[k] || w
		}
	}
	return out
}

type access struct {
	Field string // Struct.field
	Func  string
	Write bool
	Local lockSet
	InGo  bool // inside a go statement / function literal (runs elsewhere)
	Pos   string
}

type callSite struct {
	Caller, Callee string
	Held           lockSet
	InLit          bool
}

type lockExtract struct {
	fset     *token.FileSet
	info     *types.Info
	targets  map[string]bool // struct names
	accesses []access
	calls    []callSite
	funcs    map[string]bool
	exported map[string]bool // entry with nothing held
	fieldTy  map[string]string
	locks    map[string]bool
	acq      map[string]int // "func|lock" -> acquisition sites in the function's own body
	pkgPath  string
	// wrappers: functions whose whole body is one lock operation on a target struct's mutex
	// (eg NetMachInternal.Lock -> NetworkMachine.clockMx Lock); a call to one is that operation
	wrappers map[string][2]string
}

func typeName(t types.Type) string {
	for {
		switch x := t.(type) {
		case *types.Pointer:
			t = x.Elem()
			continue
		case *types.Named:
			return x.Obj().Name()
		case *types.Alias:
			t = types.Unalias(x)
			continue
		}
		return ""
	}
}

func isMutex(t types.Type) bool {
	s := t.String()
	return s == "sync.Mutex" || s == "sync.RWMutex"
}

// fieldOf resolves a selector to Struct.field when it selects a field of a target struct.
func (x *lockExtract) fieldOf(sel *ast.SelectorExpr) (string, types.Type, bool) {
	s := x.info.Selections[sel]
	if s == nil || s.Kind() != types.FieldVal {
		return "", nil, false
	}
	owner := typeName(s.Recv())
	// embedded promotion: find the struct that declares the field
	if v, ok := s.Obj().(*types.Var); ok && v.IsField() {
		if !x.targets[owner] {
			return "", nil, false
		}
		return owner + "." + v.Name(), v.Type(), true
	}
	return "", nil, false
}

func funcName(fd *ast.FuncDecl) string {
	if fd.Recv != nil && len(fd.Recv.List) > 0 {
		t := fd.Recv.List[0].Type
		if st, ok := t.(*ast.StarExpr); ok {
			t = st.X
		}
		if ix, ok := t.(*ast.IndexExpr); ok {
			t = ix.X
		}
		if id, ok := t.(*ast.Ident); ok {
			return id.Name + "." + fd.Name.Name
		}
	}
	return fd.Name.Name
}

func (x *lockExtract) calleeName(call *ast.CallExpr) string {
	var obj types.Object
	switch f := call.Fun.(type) {
	case *ast.Ident:
		obj = x.info.Uses[f]
	case *ast.SelectorExpr:
		if s := x.info.Selections[f]; s != nil {
			obj = s.Obj()
		} else {
			obj = x.info.Uses[f.Sel]
		}
	}
	fn, ok := obj.(*types.Func)
	if !ok || fn.Pkg() == nil || fn.Pkg().Path() != x.pkgPath {
		return ""
	}
	sig := fn.Type().(*types.Signature)
	if sig.Recv() != nil {
		return typeName(sig.Recv().Type()) + "." + fn.Name()
	}
	return fn.Name()
}

// lockOp: X.Lock()/RLock()/Unlock()/RUnlock() on a mutex field of a target struct.
func (x *lockExtract) lockOp(call *ast.CallExpr) (lock string, op string, ok bool) {
	sel, is := call.Fun.(*ast.SelectorExpr)
	if !is {
		return
	}
	switch sel.Sel.Name {
	case "Lock", "RLock", "Unlock", "RUnlock":
	default:
		return
	}
	inner, is := sel.X.(*ast.SelectorExpr)
	if !is {
		return
	}
	name, ty, isField := x.fieldOf(inner)
	if !isField || !isMutex(ty) {
		return
	}
	return name, sel.Sel.Name, true
}

type walker struct {
	x     *lockExtract
	fn    string
	inLit bool
}

func (w *walker) expr(e ast.Expr, held lockSet, write bool) {
	if e == nil {
		return
	}
	switch v := e.(type) {
	case *ast.SelectorExpr:
		if name, ty, ok := w.x.fieldOf(v); ok {
			if !isMutex(ty) {
				w.x.fieldTy[name] = ty.String()
				w.x.accesses = append(w.x.accesses, access{Field: name, Func: w.fn, Write: write, Local: held.clone(), InGo: w.inLit,
					Pos: w.x.fset.Position(v.Pos()).String()})
			}
		}
		w.expr(v.X, held, false)
	case *ast.IndexExpr:
		w.expr(v.X, held, write)
		w.expr(v.Index, held, false)
	case *ast.SliceExpr:
		w.expr(v.X, held, write)
		w.expr(v.Low, held, false)
		w.expr(v.High, held, false)
		w.expr(v.Max, held, false)
	case *ast.StarExpr:
		w.expr(v.X, held, write)
	case *ast.ParenExpr:
		w.expr(v.X, held, write)
	case *ast.UnaryExpr:
		if v.Op == token.AND {
			// taking the address: treated as a write unless it is a sync/atomic receiver
			w.expr(v.X, held, true)
		} else {
			w.expr(v.X, held, false)
		}
	case *ast.BinaryExpr:
		w.expr(v.X, held, false)
		w.expr(v.Y, held, false)
	case *ast.CallExpr:
		if _, _, ok := w.x.lockOp(v); ok {
			return // handled at statement level
		}
		if id, ok := v.Fun.(*ast.Ident); ok && (id.Name == "delete" || id.Name == "clear") && len(v.Args) > 0 {
			w.expr(v.Args[0], held, true)
			for _, a := range v.Args[1:] {
				w.expr(a, held, false)
			}
			return
		}
		if cn := w.x.calleeName(v); cn != "" {
			w.x.calls = append(w.x.calls, callSite{Caller: w.fn, Callee: cn, Held: held.clone(), InLit: w.inLit})
		}
		// method call on a field: x.f.M(): reading the field value (atomics etc. are exempt by type)
		w.expr(v.Fun, held, false)
		for _, a := range v.Args {
			w.expr(a, held, false)
		}
	case *ast.FuncLit:
		// runs later / elsewhere: nothing is known to be held
		lw := &walker{x: w.x, fn: w.fn, inLit: true}
		lw.block(v.Body.List, lockSet{})
	case *ast.CompositeLit:
		for _, el := range v.Elts {
			w.expr(el, held, false)
		}
	case *ast.KeyValueExpr:
		w.expr(v.Key, held, false)
		w.expr(v.Value, held, false)
	case *ast.TypeAssertExpr:
		w.expr(v.X, held, false)
	}
}

func (w *walker) block(stmts []ast.Stmt, held lockSet) lockSet {
	for _, s := range stmts {
		held = w.stmt(s, held)
	}
	return held
}

func (w *walker) stmt(s ast.Stmt, held lockSet) lockSet {
	switch v := s.(type) {
	case *ast.ExprStmt:
		if call, ok := v.X.(*ast.CallExpr); ok {
			lock, op, ok := w.x.lockOp(call)
			if !ok {
				if wr, is := w.x.wrappers[w.x.calleeName(call)]; is {
					lock, op, ok = wr[0], wr[1], true
				}
			}
			if ok {
				w.x.locks[lock] = true
				held = held.clone()
				if (op == "Lock" || op == "RLock") && !w.inLit {
					w.x.acq[w.fn+"|"+lock]++
				}
				switch op {
				case "Lock":
					held[lock] = true
					delete(held, "!"+lock)
				case "RLock":
					if !held[lock] {
						held[lock] = false
					}
					delete(held, "!"+lock)
				case "Unlock", "RUnlock":
					if _, mine := held[lock]; mine {
						delete(held, lock)
					} else {
						// a lock the caller took: released for the rest of this function
						held["!"+lock] = true
					}
				}
				return held
			}
		}
		w.expr(v.X, held, false)
	case *ast.DeferStmt:
		if _, _, ok := w.x.lockOp(v.Call); ok {
			return held // released at return
		}
		if lit, ok := v.Call.Fun.(*ast.FuncLit); ok {
			// deferred closure: runs at return with what is held then; approximated by what is held now
			lw := &walker{x: w.x, fn: w.fn, inLit: w.inLit}
			lw.block(lit.Body.List, held.clone())
			return held
		}
		w.expr(v.Call, held, false)
	case *ast.GoStmt:
		if lit, ok := v.Call.Fun.(*ast.FuncLit); ok {
			lw := &walker{x: w.x, fn: w.fn, inLit: true}
			lw.block(lit.Body.List, lockSet{})
			for _, a := range v.Call.Args {
				w.expr(a, held, false)
			}
			return held
		}
		if cn := w.x.calleeName(v.Call); cn != "" {
			w.x.exported[cn] = true // entered on a fresh goroutine
		}
		for _, a := range v.Call.Args {
			w.expr(a, held, false)
		}
	case *ast.AssignStmt:
		for _, r := range v.Rhs {
			w.expr(r, held, false)
		}
		for _, l := range v.Lhs {
			w.expr(l, held, true)
		}
	case *ast.IncDecStmt:
		w.expr(v.X, held, true)
	case *ast.ReturnStmt:
		for _, r := range v.Results {
			w.expr(r, held, false)
		}
	case *ast.BlockStmt:
		w.block(v.List, held.clone())
	case *ast.IfStmt:
		h := held
		if v.Init != nil {
			h = w.stmt(v.Init, h)
		}
		w.expr(v.Cond, h, false)
		after := w.block(v.Body.List, h.clone())
		if v.Else != nil {
			w.stmt(v.Else, h.clone())
		}
		// locks taken in the body and released by a defer in the same body stay held
		// until the function returns (eg `if !force { mx.Lock(); defer mx.Unlock() }`)
		deferred := map[string]bool{}
		for _, bs := range v.Body.List {
			if ds, ok := bs.(*ast.DeferStmt); ok {
				if lock, _, ok := w.x.lockOp(ds.Call); ok {
					deferred[lock] = true
				}
			}
		}
		if len(deferred) > 0 {
			held = held.clone()
			for l := range deferred {
				if wm, ok := after[l]; ok {
					held[l] = wm
				}
			}
		}
	case *ast.ForStmt:
		h := held
		if v.Init != nil {
			h = w.stmt(v.Init, h)
		}
		w.expr(v.Cond, h, false)
		if v.Post != nil {
			w.stmt(v.Post, h.clone())
		}
		w.block(v.Body.List, h.clone())
	case *ast.RangeStmt:
		w.expr(v.X, held, false)
		w.block(v.Body.List, held.clone())
	case *ast.SwitchStmt:
		h := held
		if v.Init != nil {
			h = w.stmt(v.Init, h)
		}
		w.expr(v.Tag, h, false)
		for _, c := range v.Body.List {
			cc := c.(*ast.CaseClause)
			for _, e := range cc.List {
				w.expr(e, h, false)
			}
			w.block(cc.Body, h.clone())
		}
	case *ast.TypeSwitchStmt:
		for _, c := range v.Body.List {
			cc := c.(*ast.CaseClause)
			w.block(cc.Body, held.clone())
		}
	case *ast.SelectStmt:
		for _, c := range v.Body.List {
			cc := c.(*ast.CommClause)
			if cc.Comm != nil {
				w.stmt(cc.Comm, held.clone())
			}
			w.block(cc.Body, held.clone())
		}
	case *ast.SendStmt:
		w.expr(v.Chan, held, false)
		w.expr(v.Value, held, false)
	case *ast.DeclStmt:
		if gd, ok := v.Decl.(*ast.GenDecl); ok {
			for _, sp := range gd.Specs {
				if vs, ok := sp.(*ast.ValueSpec); ok {
					for _, e := range vs.Values {
						w.expr(e, held, false)
					}
				}
			}
		}
	case *ast.LabeledStmt:
		return w.stmt(v.Stmt, held)
	}
	return held
}

// CallRow: one internal call site with the locks held there.
type CallRow struct {
	Caller, Callee string
	Locks          []string
}

// lastCalls: the internal call sites of the last extraction.
var lastCalls []CallRow

// lastLockAcq: acquisition sites per "func|lock" of the last extraction.
var lastLockAcq map[string]int

// LockRow: one line of the generated table.
type LockRow struct {
	Field string   `json:"field"`
	Func  string   `json:"func"`
	Write bool     `json:"write"`
	Locks []string `json:"locks"` // "Struct.lock:W" / ":R"
	Async bool     `json:"async"` // inside a function literal / go statement
	Type  string   `json:"type"`
}

func extractLocks(dir, pkgPath string, targets []string) ([]LockRow, error) {
	fset := token.NewFileSet()
	pkgs, err := parser.ParseDir(fset, dir, func(fi os.FileInfo) bool {
		n := fi.Name()
		return !strings.HasSuffix(n, "_test.go") && !strings.HasPrefix(n, "verif_")
	}, 0)
	if err != nil {
		return nil, err
	}
	var files []*ast.File
	var names []string
	for _, p := range pkgs {
		for n := range p.Files {
			names = append(names, n)
		}
		sort.Strings(names)
		for _, n := range names {
			files = append(files, p.Files[n])
		}
	}
	// the verif hook stubs are needed for type checking only
	for _, extra := range []string{"verif_off.go"} {
		if f, err := parser.ParseFile(fset, dir+"/"+extra, nil, 0); err == nil {
			files = append(files, f)
		}
	}
	wd, _ := os.Getwd()
	os.Chdir("/repo")
	defer os.Chdir(wd)
	conf := types.Config{Importer: importer.ForCompiler(fset, "source", nil), Error: func(err error) {}}
	info := &types.Info{Types: map[ast.Expr]types.TypeAndValue{}, Selections: map[*ast.SelectorExpr]*types.Selection{}, Uses: map[*ast.Ident]types.Object{}}
	if _, err := conf.Check(pkgPath, fset, files, info); err != nil {
		return nil, fmt.Errorf("type check %s: %w", pkgPath, err)
	}
	x := &lockExtract{fset: fset, info: info, targets: map[string]bool{}, funcs: map[string]bool{}, exported: map[string]bool{},
		fieldTy: map[string]string{}, locks: map[string]bool{}, acq: map[string]int{}, pkgPath: pkgPath, wrappers: map[string][2]string{}}
	for _, t := range targets {
		x.targets[t] = true
	}
	for _, f := range files {
		for _, d := range f.Decls {
			fd, ok := d.(*ast.FuncDecl)
			if !ok || fd.Body == nil || len(fd.Body.List) != 1 {
				continue
			}
			if es, ok := fd.Body.List[0].(*ast.ExprStmt); ok {
				if call, ok := es.X.(*ast.CallExpr); ok {
					if lock, op, ok := x.lockOp(call); ok {
						x.wrappers[funcName(fd)] = [2]string{lock, op}
					}
				}
			}
		}
	}
	for _, f := range files {
		for _, d := range f.Decls {
			fd, ok := d.(*ast.FuncDecl)
			if !ok || fd.Body == nil {
				continue
			}
			fn := funcName(fd)
			x.funcs[fn] = true
			if fd.Name.IsExported() {
				x.exported[fn] = true
			}
			w := &walker{x: x, fn: fn}
			w.block(fd.Body.List, lockSet{})
		}
	}
	// functions referenced as values (handlers, callbacks) are entered with nothing held
	for id, obj := range info.Uses {
		if fn, ok := obj.(*types.Func); ok && fn.Pkg() != nil && fn.Pkg().Path() == pkgPath {
			_ = id
		}
	}
	// entry locksets: intersection over the internal call sites
	entry := map[string]lockSet{}
	top := map[string]bool{} // not yet constrained
	for fn := range x.funcs {
		if x.exported[fn] {
			entry[fn] = lockSet{}
		} else {
			top[fn] = true
		}
	}
	called := map[string]bool{}
	for _, c := range x.calls {
		called[c.Callee] = true
	}
	for fn := range top {
		if !called[fn] {
			// never called inside the package (callbacks, interface implementations)
			entry[fn] = lockSet{}
			delete(top, fn)
		}
	}
	for iter := 0; iter < 50; iter++ {
		changed := false
		for _, c := range x.calls {
			if !x.funcs[c.Callee] {
				continue
			}
			ce, known := entry[c.Caller]
			if !known {
				continue // caller still unconstrained
			}
			var at lockSet
			if c.InLit {
				at = effective(lockSet{}, c.Held) // a literal's body knows only its own locks
			} else {
				at = effective(ce, c.Held)
			}
			if x.exported[c.Callee] {
				continue
			}
			old, has := entry[c.Callee]
			var nw lockSet
			if !has {
				nw = at
			} else {
				nw = intersect(old, at)
			}
			if !has || nw.key() != old.key() {
				entry[c.Callee] = nw
				delete(top, c.Callee)
				changed = true
			}
		}
		if !changed {
			break
		}
	}
	for fn := range top {
		entry[fn] = lockSet{}
	}
	lastLockAcq = x.acq
	lastCalls = nil
	for _, c := range x.calls {
		ce := lockSet{}
		if !c.InLit {
			ce = entry[c.Caller]
		}
		at := effective(ce, c.Held)
		var ls []string
		for k, wmode := range at {
			m := "R"
			if wmode {
				m = "W"
			}
			ls = append(ls, k+":"+m)
		}
		sort.Strings(ls)
		lastCalls = append(lastCalls, CallRow{Caller: c.Caller, Callee: c.Callee, Locks: ls})
	}
	seen := map[string]bool{}
	var rows []LockRow
	for _, a := range x.accesses {
		eff := effective(lockSet{}, a.Local)
		if !a.InGo {
			eff = effective(entry[a.Func], a.Local)
		}
		var ls []string
		for k, wmode := range eff {
			m := "R"
			if wmode {
				m = "W"
			}
			ls = append(ls, k+":"+m)
		}
		// a lock of the caller's that the function has released before this access
		for k := range a.Local {
			if strings.HasPrefix(k, "!") {
				ls = append(ls, "released "+k[1:]+":W")
			}
		}
		sort.Strings(ls)
		r := LockRow{Field: a.Field, Func: a.Func, Write: a.Write, Locks: ls, Async: a.InGo, Type: x.fieldTy[a.Field]}
		k := fmt.Sprintf("%s|%s|%v|%v|%s", r.Field, r.Func, r.Write, r.Async, strings.Join(ls, ","))
		if seen[k] {
			continue
		}
		seen[k] = true
		rows = append(rows, r)
	}
	sort.Slice(rows, func(i, j int) bool {
		a, b := rows[i], rows[j]
		if a.Field != b.Field {
			return a.Field < b.Field
		}
		if a.Func != b.Func {
			return a.Func < b.Func
		}
		if a.Write != b.Write {
			return !a.Write
		}
		return strings.Join(a.Locks, ",") < strings.Join(b.Locks, ",")
	})
	return rows, nil
}
