// amextract regenerates Lean data from /repo's current source (schemas, facts).
package main

import (
	"encoding/json"
	"flag"
	"fmt"
	"os"
	"path/filepath"
)

func main() {
	out := flag.String("out", "/verif/lean/AmVerif/Generated", "output directory")
	flag.Parse()
	os.MkdirAll(*out, 0o755)
	if err := extractAll(*out); err != nil {
		fmt.Println("amextract:", err)
		os.Exit(1)
	}
}

func writeIfChanged(path string, content string) error {
	old, err := os.ReadFile(path)
	if err == nil && string(old) == content {
		return nil
	}
	return os.WriteFile(path, []byte(content), 0o644)
}

func extractAll(out string) error {
	// stale files are removed first, then everything is regenerated
	keep := map[string]bool{}
	gens := []func(string) (string, string, error){}
	gens = append(gens, registered...)
	for _, g := range gens {
		name, content, err := g(out)
		if err != nil {
			return err
		}
		keep[name] = true
		if err := writeIfChanged(filepath.Join(out, name), content); err != nil {
			return err
		}
	}
	files, _ := filepath.Glob(filepath.Join(out, "*.lean"))
	for _, f := range files {
		if !keep[filepath.Base(f)] && !keepExtra[filepath.Base(f)] {
			os.Remove(f)
		}
	}
	return nil
}

var registered []func(string) (string, string, error)

// files written directly by a generator (besides its main output)
var keepExtra = map[string]bool{}

func jsonMarshal(v any) ([]byte, error) { return json.MarshalIndent(v, "", " ") }
