// amrace: generated concurrent programs over the public API of a real machine
// (and a network machine fed by real clock updates), meant to be built with
// `go build -race`. One program at a time; the Go race detector is the oracle:
// with GORACE=halt_on_error=1 the process stops at the first report and the
// parent reads which program was running from the last PROGRAM line.
package main

import (
	"context"
	"errors"
	"flag"
	"fmt"
	"math/rand"
	"net"
	"os"
	"runtime"
	"strings"
	"sync"
	"time"

	am "github.com/pancsta/asyncmachine-go/pkg/machine"
	arpc "github.com/pancsta/asyncmachine-go/pkg/rpc"
	ssrpc "github.com/pancsta/asyncmachine-go/pkg/rpc/states"
)

var names = am.S{"A", "B", "C", "D", "E", "Exception"}

func schema() am.Schema {
	return am.Schema{
		"A": {Add: am.S{"B"}},
		"B": {},
		"C": {Remove: am.S{"B"}, Multi: true},
		"D": {Require: am.S{"A"}},
		"E": {Auto: true, Require: am.S{"C"}},
	}
}

type call struct {
	name string
	f    func(r *rand.Rand)
}

type noopTracer struct{ *am.TracerNoOp }

func pick(r *rand.Rand) string { return names[r.Intn(5)] }
func pickS(r *rand.Rand) am.S {
	s := am.S{pick(r)}
	if r.Intn(3) == 0 {
		s = append(s, pick(r))
	}
	return s
}

// apiTable: the public method set of *am.Machine (what a user may call from any goroutine).
func apiTable(m *am.Machine, ctx context.Context) []call {
	args := func(r *rand.Rand) am.A {
		if r.Intn(3) == 0 {
			return am.A{"x": r.Intn(3)}
		}
		return nil
	}
	// a context canceled right after the call: the binding is registered, then expires
	// at the next transition
	var pending []context.CancelFunc
	var cmx sync.Mutex
	short := func() context.Context {
		c, cancel := context.WithCancel(ctx)
		cmx.Lock()
		pending = append(pending, cancel)
		cmx.Unlock()
		return c
	}
	flush := func() {
		cmx.Lock()
		p := pending
		pending = nil
		cmx.Unlock()
		for _, c := range p {
			c()
		}
	}
	t := []call{
		{"Add", func(r *rand.Rand) { m.Add(pickS(r), args(r)) }},
		{"Add1", func(r *rand.Rand) { m.Add1(pick(r), args(r)) }},
		{"Remove", func(r *rand.Rand) { m.Remove(pickS(r), args(r)) }},
		{"Remove1", func(r *rand.Rand) { m.Remove1(pick(r), args(r)) }},
		{"Set", func(r *rand.Rand) { m.Set(pickS(r), args(r)) }},
		{"Toggle1", func(r *rand.Rand) { m.Toggle1(pick(r), nil) }},
		{"AddErr", func(r *rand.Rand) { m.AddErr(errors.New("x"), nil) }},
		{"RemoveErr", func(r *rand.Rand) { m.Remove1("Exception", nil) }},
		{"EvAdd1", func(r *rand.Rand) { m.EvAdd1(nil, pick(r), nil) }},
		{"EvRemove1", func(r *rand.Rand) { m.EvRemove1(nil, pick(r), nil) }},
		{"CanAdd1", func(r *rand.Rand) { m.CanAdd1(pick(r), nil) }},
		{"CanRemove1", func(r *rand.Rand) { m.CanRemove1(pick(r), nil) }},
		{"Eval", func(r *rand.Rand) { m.Eval("race", func() { m.Is1("A") }, nil) }},
		{"Is", func(r *rand.Rand) { m.Is(pickS(r)) }},
		{"Is1", func(r *rand.Rand) { m.Is1(pick(r)) }},
		{"Any1", func(r *rand.Rand) { m.Any1(pick(r), pick(r)) }},
		{"Not", func(r *rand.Rand) { m.Not(pickS(r)) }},
		{"Not1", func(r *rand.Rand) { m.Not1(pick(r)) }},
		{"Has1", func(r *rand.Rand) { m.Has1(pick(r)) }},
		{"IsErr", func(r *rand.Rand) { m.IsErr() }},
		{"Err", func(r *rand.Rand) { _ = m.Err() }},
		{"Tick", func(r *rand.Rand) { m.Tick(pick(r)) }},
		{"Time", func(r *rand.Rand) { m.Time(nil) }},
		{"TimeS", func(r *rand.Rand) { m.Time(pickS(r)) }},
		{"Clock", func(r *rand.Rand) { m.Clock(nil) }},
		{"IsClock", func(r *rand.Rand) { m.IsClock(am.Clock{pick(r): 1}) }},
		{"WasClock", func(r *rand.Rand) { m.WasClock(am.Clock{pick(r): 1}) }},
		{"IsTime", func(r *rand.Rand) { m.IsTime(am.Time{1}, am.S{pick(r)}) }},
		{"WasTime", func(r *rand.Rand) { m.WasTime(am.Time{1}, am.S{pick(r)}) }},
		{"ActiveStates", func(r *rand.Rand) { m.ActiveStates(nil) }},
		{"StateNames", func(r *rand.Rand) { m.StateNames() }},
		{"Schema", func(r *rand.Rand) { m.Schema() }},
		{"SchemaVer", func(r *rand.Rand) { m.SchemaVer() }},
		{"Index", func(r *rand.Rand) { m.Index(pickS(r)) }},
		{"Index1", func(r *rand.Rand) { m.Index1(pick(r)) }},
		{"ParseStates", func(r *rand.Rand) { m.ParseStates(pickS(r)) }},
		{"Switch", func(r *rand.Rand) { m.Switch(am.S{"A", "B"}, am.S{"C"}) }},
		{"String", func(r *rand.Rand) { _ = m.String() }},
		{"StringAll", func(r *rand.Rand) { _ = m.StringAll() }},
		{"Inspect", func(r *rand.Rand) { _ = m.Inspect(nil) }},
		{"Export", func(r *rand.Rand) { m.Export() }},
		{"MachineTick", func(r *rand.Rand) { m.MachineTick() }},
		{"Queue", func(r *rand.Rand) { m.Queue() }},
		{"QueueLen", func(r *rand.Rand) { m.QueueLen() }},
		{"QueueTick", func(r *rand.Rand) { m.QueueTick() }},
		{"IsQueued", func(r *rand.Rand) {
			m.IsQueued(am.MutationAdd, pickS(r), false, false, 0, false, am.PositionAny)
		}},
		{"IsQueuedAbove", func(r *rand.Rand) { m.IsQueuedAbove(1, am.MutationAdd, pickS(r), false, false, 0) }},
		{"WillBe1", func(r *rand.Rand) { m.WillBe1(pick(r)) }},
		{"WillBeRemoved1", func(r *rand.Rand) { m.WillBeRemoved1(pick(r)) }},
		// the returned *Transition belongs to the queue's goroutine; only the getter itself is drawn
		{"Transition", func(r *rand.Rand) { _ = m.Transition() }},
		{"When1", func(r *rand.Rand) { m.When1(pick(r), short()); flush() }},
		{"When", func(r *rand.Rand) { m.When(pickS(r), nil) }},
		{"WhenNot1", func(r *rand.Rand) { m.WhenNot1(pick(r), short()); flush() }},
		{"WhenTime1", func(r *rand.Rand) { m.WhenTime1(pick(r), uint64(r.Intn(20)), short()); flush() }},
		{"WhenTicks", func(r *rand.Rand) { m.WhenTicks(pick(r), 1+r.Intn(3), short()); flush() }},
		{"WhenNextActive", func(r *rand.Rand) { m.WhenNextActive(pick(r), short()); flush() }},
		{"WhenArgs", func(r *rand.Rand) { m.WhenArgs("C", am.A{"x": r.Intn(3)}, short()); flush() }},
		{"WhenQuery", func(r *rand.Rand) { m.WhenQuery(func(c am.Clock) bool { return c["A"] > 3 }, short()); flush() }},
		{"WhenErr", func(r *rand.Rand) { m.WhenErr(short()); flush() }},
		{"WhenQueue", func(r *rand.Rand) { m.WhenQueue(am.Result(m.QueueTick() + uint64(r.Intn(3)))) }},
		{"WhenQueueEnds", func(r *rand.Rand) { m.WhenQueueEnds() }},
		{"WhenDisposed", func(r *rand.Rand) { m.WhenDisposed() }},
		{"NewStateCtx", func(r *rand.Rand) { m.NewStateCtx(pick(r)) }},
		// the event-bound variant, as called by a goroutine forked from a handler which kept its event
		{"NewStateCtxEv", func(r *rand.Rand) {
			m.NewStateCtx(pick(r), &am.Event{Name: "AState", MachineId: m.Id(), TransitionId: "t"})
		}},
		{"HandlersBind", func(r *rand.Rand) {
			id, err := m.HandlersBindMaps(map[string]am.HandlerNegotiation{"BEnter": func(e *am.Event) bool { return true }},
				map[string]am.HandlerFinal{"BState": func(e *am.Event) { m.Is1("A") }}, am.BindOpts{})
			if err == nil && r.Intn(2) == 0 {
				m.HandlersDetach(id)
			}
		}},
		{"Handlers", func(r *rand.Rand) { m.Handlers() }},
		{"TracerBind", func(r *rand.Rand) {
			id := fmt.Sprintf("t%d", r.Intn(1<<30))
			m.TracerBind(&noopTracer{&am.TracerNoOp{Id: id}})
			if r.Intn(2) == 0 {
				m.TracerDetach(id)
			}
		}},
		{"Tracers", func(r *rand.Rand) { m.Tracers() }},
		{"SemLogger", func(r *rand.Rand) {
			l := m.SemLogger()
			l.SetLevel(am.LogLevel(r.Intn(5)))
			l.Level()
			l.IsSteps()
		}},
		{"Log", func(r *rand.Rand) { m.Log("x %d", 1) }},
		{"SetTags", func(r *rand.Rand) { m.SetTags([]string{"a"}); m.Tags() }},
		{"Groups", func(r *rand.Rand) { m.Groups() }},
		// not drawn: SetGroupsString / SetSchema / VerifyStates take schemaMx.Lock while processQueue
		// re-enters schemaMx.RLock (schemaSafe inside emitEvents): a deadlock, not a data race
		{"OnChange", func(r *rand.Rand) { m.OnChange(func(mach *am.Machine, before, after am.Time) {}) }},
		{"OnError", func(r *rand.Rand) { m.OnError(func(mach *am.Machine, err error) {}) }},
		{"OnDispose", func(r *rand.Rand) { m.OnDispose(func(id string, ctx context.Context) {}) }},
		{"AddBreakpoint1", func(r *rand.Rand) { m.AddBreakpoint1(pick(r), "", false) }},
		{"Backoff", func(r *rand.Rand) { m.Backoff() }},
		{"Id", func(r *rand.Rand) { m.Id(); m.ParentId(); m.IsDisposed(); m.StatesVerified(); m.Context() }},
		{"PoolSetLimit", func(r *rand.Rand) { m.PoolSetLimitGlobal(4) }},
		{"Fork", func(r *rand.Rand) { m.Fork(ctx, nil, func() { m.Is1("A") }) }},
		{"Go", func(r *rand.Rand) { m.Go(ctx, func() { m.Tick("A") }) }},
		{"Resolver", func(r *rand.Rand) { m.Resolver() }},
	}
	return t
}

var only = flag.String("only", "", "comma separated call names to draw from (replay / minimisation)")

func runMachineProgram(seed int64, g, ops int, handlers bool, theme int) {
	r0 := rand.New(rand.NewSource(seed))
	ctx, cancel := context.WithCancel(context.Background())
	defer cancel()
	m := am.New(ctx, schema(), &am.Opts{Id: "race", HandlerTimeout: 5 * time.Second, DontLogStackTrace: true,
		Tracers: []am.Tracer{&noopTracer{&am.TracerNoOp{Id: "t0"}}}})
	m.VerifyStates(names)
	if handlers {
		fault := r0.Intn(4) == 0
		m.HandlersBindMaps(
			map[string]am.HandlerNegotiation{"AEnter": func(e *am.Event) bool { return m.Tick("B") < 1000 }},
			map[string]am.HandlerFinal{
				"AState": func(e *am.Event) { m.Add1("C", am.A{"x": 1}) },
				"CState": func(e *am.Event) {
					m.Is1("A")
					e.Transition().TargetStates()
				},
				"DState": func(e *am.Event) {
					if fault {
						panic("boom")
					}
				},
				"BEnd": func(e *am.Event) { m.Remove1("D", nil) },
			}, am.BindOpts{Id: "h0"})
	}
	table := apiTable(m, ctx)
	// themes: a small set of calls so that specific pairs meet often
	themes := [][]string{
		nil, nil, // the whole table
		{"Add1", "Remove1", "Toggle1", "WhenArgs", "Is1", "Set"},
		{"Add", "Remove", "When1", "WhenNot1", "WhenTime1", "WhenTicks", "WhenQuery", "NewStateCtx", "NewStateCtxEv", "WhenQueue", "WhenQueueEnds"},
		{"Add1", "Remove1", "HandlersBind", "Handlers", "TracerBind", "Tracers", "Eval"},
		{"Add1", "Remove1", "AddErr", "RemoveErr", "Err", "IsErr", "WhenErr", "String", "Inspect", "Export", "Clock", "Time"},
		{"Add", "Set", "Queue", "IsQueued", "WillBe1", "WillBeRemoved1", "QueueLen", "CanAdd1", "CanRemove1", "PrependMut"},
		{"Add1", "Remove1", "SemLogger", "Log", "SetTags", "Groups", "OnChange", "OnError", "OnDispose", "AddBreakpoint1", "Fork", "Go"},
	}
	if th := themes[theme%len(themes)]; th != nil && *only == "" {
		var sub []call
		for _, c := range table {
			for _, n := range th {
				if c.name == n {
					sub = append(sub, c)
				}
			}
		}
		table = sub
	}
	if *only != "" {
		var sub []call
		for _, c := range table {
			for _, n := range strings.Split(*only, ",") {
				if c.name == n {
					sub = append(sub, c)
				}
			}
		}
		table = sub
	}
	var wg sync.WaitGroup
	for i := 0; i < g; i++ {
		wg.Add(1)
		r := rand.New(rand.NewSource(r0.Int63()))
		// each goroutine leans towards a few calls so that pairs meet often
		fav := []int{r.Intn(len(table)), r.Intn(len(table)), r.Intn(len(table))}
		go func() {
			defer wg.Done()
			defer func() { recover() }()
			for k := 0; k < ops; k++ {
				c := table[r.Intn(len(table))]
				if r.Intn(2) == 0 {
					c = table[fav[r.Intn(len(fav))]]
				}
				c.f(r)
				if r.Intn(4) == 0 {
					runtime.Gosched()
				}
			}
		}()
	}
	done := make(chan struct{})
	go func() { wg.Wait(); close(done) }()
	select {
	case <-done:
	case <-time.After(20 * time.Second):
		fmt.Println("HANG program", seed)
		if os.Getenv("AMRACE_DUMP") != "" {
			buf := make([]byte, 1<<22)
			n := runtime.Stack(buf, true)
			os.Stderr.Write(buf[:n])
		}
	}
	m.Dispose()
	select {
	case <-m.WhenDisposed():
	case <-time.After(3 * time.Second):
	}
}

// runNetProgram: a network machine receiving real clock updates while being read.
func runNetProgram(seed int64, g, ops int) {
	r0 := rand.New(rand.NewSource(seed))
	ctx, cancel := context.WithCancel(context.Background())
	defer cancel()
	src := am.New(ctx, schema(), &am.Opts{Id: "racesrc"})
	src.VerifyStates(names)
	v, err := arpc.NewVerifCodec(ctx, src, true, r0.Intn(2) == 0, false, nil, nil)
	if err != nil {
		fmt.Println("netprogram setup:", err)
		return
	}
	nm := v.C.NetMach
	var wg sync.WaitGroup
	wg.Add(1)
	wseed := r0.Int63()
	go func() {
		defer wg.Done()
		r := rand.New(rand.NewSource(wseed))
		step := func() {
			// (a queue tick that goes back and forward again makes the network machine close a flushed
			// WhenQueue channel a second time: a panic, not a data race - recovered here, DESIGN §10)
			defer func() { recover() }()
			switch r.Intn(3) {
			case 0:
				src.Add1(pick(r), nil)
			case 1:
				src.Remove1(pick(r), nil)
			default:
				src.Toggle1(pick(r), nil)
			}
			if u := v.Push(); u != nil {
				v.Apply(u)
			}
			if r.Intn(12) == 0 {
				// the source restarted: an update whose queue tick is behind the mirror's (queue
				// subscriptions of the mirror are flushed), then the real value again
				q, mt := nm.QueueTick(), nm.MachineTick()
				arpc.VerifSetClientMirror(v.C, nm.Time(nil), q+7, mt)
				arpc.VerifSetClientMirror(v.C, nm.Time(nil), q, mt)
			}
		}
		for k := 0; k < ops; k++ {
			step()
		}
	}()
	for i := 0; i < g; i++ {
		wg.Add(1)
		r := rand.New(rand.NewSource(r0.Int63()))
		go func() {
			defer wg.Done()
			defer func() { recover() }()
			for k := 0; k < ops; k++ {
				pickOp := r.Intn(34)
				if seed%3 == 0 {
					// theme: queue subscriptions against updates whose queue tick goes back
					pickOp = []int{33, 33, 11, 0}[r.Intn(4)]
				}
				switch pickOp {
				case 14:
					_ = nm.StringAll()
				case 15:
					_ = nm.Inspect(nil)
				case 16:
					nm.IsTime(nm.Time(nil), nil)
				case 17:
					nm.IsClock(nm.Clock(nil))
				case 18:
					// (NetworkMachine.Export always deadlocks: it takes schemaMx in read mode and then
					// calls StateNames, which takes it in write mode - not a data race, not drawn)
					nm.Has1(pick(r))
				case 19:
					nm.Schema()
				case 20:
					nm.StateNames()
				case 21:
					nm.Tracers()
				case 22:
					nm.Tags()
				case 23:
					nm.Has1(pick(r))
				case 24:
					nm.Index1(pick(r))
				case 25:
					nm.Err()
				case 26:
					nm.Transition()
				case 27:
					c, cancel := context.WithCancel(ctx)
					nm.WhenTime1(pick(r), nm.Tick(pick(r))+1, c)
					cancel()
				case 28:
					c, cancel := context.WithCancel(ctx)
					nm.WhenQuery(func(cl am.Clock) bool { return false }, c)
					cancel()
				case 29:
					nm.Switch(am.S{pick(r), pick(r)})
				case 30:
					nm.Handlers()
				case 31:
					nm.ParseStates(am.S{pick(r), "Nope"})
				case 32:
					nm.WasTime(nm.Time(nil), nil)
				case 33:
					nm.QueueLen()
					nm.WhenQueue(am.Result(nm.QueueTick() + uint64(1+r.Intn(50))))
				case 0:
					nm.Is1(pick(r))
				case 1:
					nm.Tick(pick(r))
				case 2:
					nm.Time(nil)
				case 3:
					nm.ActiveStates(nil)
				case 4:
					nm.Clock(nil)
				case 5:
					_ = nm.String()
				case 6:
					c, cancel := context.WithCancel(ctx)
					nm.When1(pick(r), c)
					cancel()
				case 7:
					c, cancel := context.WithCancel(ctx)
					nm.WhenNot1(pick(r), c)
					cancel()
				case 8:
					nm.Not1(pick(r))
				case 9:
					nm.Any1(pick(r), pick(r))
				case 10:
					nm.MachineTick()
				case 11:
					nm.QueueTick()
				case 12:
					nm.NewStateCtx(pick(r))
				case 13:
					c, cancel := context.WithCancel(ctx)
					nm.WhenTicks(pick(r), 1, c)
					cancel()
				}
			}
		}()
	}
	done := make(chan struct{})
	go func() { wg.Wait(); close(done) }()
	select {
	case <-done:
	case <-time.After(20 * time.Second):
		fmt.Println("HANG program", seed)
	}
}

// runPairProgram: a real rpc server / client pair over loopback: the source changes (ticker pushes),
// mutations are made through the network machine (replies), full syncs are asked for, while readers
// use the network machine.
func runPairProgram(seed int64, g, ops int) {
	r0 := rand.New(rand.NewSource(seed))
	ctx, cancel := context.WithCancel(context.Background())
	defer cancel()
	src := am.New(ctx, schema(), &am.Opts{Id: fmt.Sprintf("pairsrc%d", seed%100000)})
	src.VerifyStates(names)
	l, err := net.Listen("tcp4", "127.0.0.1:0")
	if err != nil {
		fmt.Println("pair setup:", err)
		return
	}
	addr := l.Addr().String()
	srv, err := arpc.NewServer(ctx, addr, fmt.Sprintf("ps%d", seed%100000), src, &arpc.ServerOpts{Parent: src})
	if err != nil {
		fmt.Println("pair setup:", err)
		return
	}
	srv.Listener.Store(&l)
	iv := 2 * time.Millisecond
	srv.PushInterval.Store(&iv)
	cli, err := arpc.NewClient(ctx, addr, fmt.Sprintf("pc%d", seed%100000), src.Schema(), &arpc.ClientOpts{SyncShallowClocks: r0.Intn(3) == 0})
	if err != nil {
		fmt.Println("pair setup:", err)
		return
	}
	srv.Start(nil)
	cli.Start(nil)
	select {
	case <-cli.Mach.When1(ssrpc.ClientStates.Ready, nil):
	case <-time.After(5 * time.Second):
		fmt.Println("pair setup: client not ready")
		return
	}
	nm := cli.NetMach
	var wg sync.WaitGroup
	spawn := func(f func(r *rand.Rand)) {
		wg.Add(1)
		r := rand.New(rand.NewSource(r0.Int63()))
		go func() {
			defer wg.Done()
			defer func() { recover() }()
			f(r)
		}()
	}
	spawn(func(r *rand.Rand) {
		for k := 0; k < ops; k++ {
			switch r.Intn(3) {
			case 0:
				src.Add1(pick(r), nil)
			case 1:
				src.Remove1(pick(r), nil)
			default:
				src.Toggle1(pick(r), nil)
			}
			time.Sleep(time.Duration(r.Intn(1500)) * time.Microsecond)
		}
	})
	spawn(func(r *rand.Rand) {
		for k := 0; k < ops/4; k++ {
			cli.Sync()
			time.Sleep(time.Duration(r.Intn(2000)) * time.Microsecond)
		}
	})
	spawn(func(r *rand.Rand) {
		for k := 0; k < ops/3; k++ {
			if r.Intn(2) == 0 {
				nm.Add1(pick(r), nil)
			} else {
				nm.Remove1(pick(r), nil)
			}
		}
	})
	for i := 0; i < g; i++ {
		spawn(func(r *rand.Rand) {
			for k := 0; k < ops; k++ {
				switch r.Intn(10) {
				case 0:
					nm.Is1(pick(r))
				case 1:
					nm.Tick(pick(r))
				case 2:
					nm.Time(nil)
				case 3:
					nm.ActiveStates(nil)
				case 4:
					nm.Clock(nil)
				case 5:
					_ = nm.String()
				case 6:
					c, cancel := context.WithCancel(ctx)
					nm.When1(pick(r), c)
					cancel()
				case 7:
					nm.MachineTick()
				case 8:
					nm.QueueTick()
				case 9:
					nm.IsTime(nm.Time(nil), nil)
				}
			}
		})
	}
	done := make(chan struct{})
	go func() { wg.Wait(); close(done) }()
	select {
	case <-done:
	case <-time.After(20 * time.Second):
		fmt.Println("HANG program", seed)
	}
	cli.Stop(ctx, nil, true)
	srv.Stop(nil, true)
	src.Dispose()
}

func main() {
	seed := flag.Int64("seed", 1, "first program seed")
	n := flag.Int("programs", 10, "number of programs")
	g := flag.Int("g", 8, "goroutines per program")
	ops := flag.Int("ops", 60, "calls per goroutine")
	kind := flag.String("kind", "all", "machine|net|all")
	flag.Parse()
	for i := 0; i < *n; i++ {
		s := *seed + int64(i)
		r := rand.New(rand.NewSource(s))
		gg := 2 + r.Intn(*g-1)
		k := "machine"
		if *kind == "net" || (*kind == "all" && i%5 == 4) {
			k = "net"
		}
		if *kind == "pair" || (*kind == "all" && i%10 == 9) {
			k = "pair"
		}
		fmt.Printf("PROGRAM seed=%d kind=%s g=%d ops=%d\n", s, k, gg, *ops)
		os.Stdout.Sync()
		if k == "pair" {
			runPairProgram(s, gg, *ops)
		} else if k == "net" {
			runNetProgram(s, gg, *ops)
		} else {
			runMachineProgram(s, gg, *ops, r.Intn(3) != 0, r.Intn(64))
		}
	}
	fmt.Println("DONE")
}
