package conc

// Disposal schedule engine (C13): Dispose / DisposeForce / parent-context
// cancel landing at the points the property quantifies over, on a real machine
// with outstanding subscriptions and contexts; monitors for what must hold once
// disposal has completed.

import (
	"context"
	"fmt"
	"math/rand"
	"os"
	"path/filepath"
	"runtime"
	"runtime/debug"
	"strings"
	"sync"
	"sync/atomic"
	"time"

	am "github.com/pancsta/asyncmachine-go/pkg/machine"
)

type DCase struct {
	N        int
	Handlers bool
	Subs     []string // when:s whennot:s whentime:s whenticks:s whenargs:s whenqueue whenqueueends statectx:s whenquery:s whenerr
	Pre      []Op
	Trigger  string // idle-dispose idle-force idle-parent twice twice-conc dispose+force in-neg in-final in-eval during-queue mid-dispose
	Stage    string // point at which the other party acts (during-queue: pq:*, mid-dispose: dd:*)
	Graceful int    // 0 none; 1 schema has Disposing/Disposed without handlers; 2 with the ss_disposed handlers
	Tag      string
}

func (c DCase) Lines() []string {
	var pre []string
	for _, o := range c.Pre {
		pre = append(pre, o.String())
	}
	h := 0
	if c.Handlers {
		h = 1
	}
	return []string{
		fmt.Sprintf("dispose-case n=%d handlers=%d trigger=%s stage=%s graceful=%d", c.N, h, c.Trigger, orDash(c.Stage), c.Graceful),
		"subs " + strings.Join(c.Subs, " "),
		"pre " + strings.Join(pre, " "),
	}
}

func orDash(s string) string {
	if s == "" {
		return "-"
	}
	return s
}

func ParseDCase(lines []string) (DCase, error) {
	var c DCase
	for _, l := range lines {
		l = strings.TrimSpace(l)
		if l == "" || strings.HasPrefix(l, "#") {
			continue
		}
		toks := strings.Fields(l)
		switch toks[0] {
		case "dispose-case":
			for _, t := range toks[1:] {
				k, v, _ := strings.Cut(t, "=")
				switch k {
				case "n":
					fmt.Sscan(v, &c.N)
				case "handlers":
					c.Handlers = v == "1"
				case "graceful":
					fmt.Sscan(v, &c.Graceful)
				case "trigger":
					c.Trigger = v
				case "stage":
					if v != "-" {
						c.Stage = v
					}
				}
			}
		case "subs":
			c.Subs = toks[1:]
		case "pre":
			for _, t := range toks[1:] {
				if o, ok := parseOp(t); ok {
					c.Pre = append(c.Pre, o)
				}
			}
		default:
			return c, fmt.Errorf("bad line %q", l)
		}
	}
	if c.N == 0 || c.Trigger == "" {
		return c, fmt.Errorf("incomplete dispose case")
	}
	return c, nil
}

type DRun struct {
	Failures []Fail
	Checks   int
	Subs     int
	WallMs   int64
	// script for the Lean disposal-protocol model (Am.DP) and what the implementation showed at each
	// line, in the model's output format (`*` = not observed)
	Lines []string
	Obs   []string
}

// parker: a re-armable schedule point (one goroutine parked at a time).
type parker struct {
	mu      sync.Mutex
	at      string
	parked  chan struct{}
	release chan struct{}
	prev    chan struct{} // release channel of the point armed before
}

func (p *parker) arm(id string) {
	p.mu.Lock()
	p.at = id
	p.prev = p.release
	p.parked = make(chan struct{}, 1)
	p.release = make(chan struct{})
	p.mu.Unlock()
}

func (p *parker) hit(id string) {
	p.mu.Lock()
	if p.at == "" || p.at != id {
		p.mu.Unlock()
		return
	}
	p.at = ""
	pk, rl := p.parked, p.release
	p.mu.Unlock()
	pk <- struct{}{}
	select {
	case <-rl:
	case <-time.After(4 * time.Second):
	}
}

func (p *parker) wait(d time.Duration) bool {
	p.mu.Lock()
	pk := p.parked
	p.mu.Unlock()
	if pk == nil {
		return false
	}
	select {
	case <-pk:
		return true
	case <-time.After(d):
		return false
	}
}

// letGoKeepArm releases the goroutine parked at the previous point; the point armed since stays armed.
func (p *parker) letGoKeepArm() {
	p.mu.Lock()
	if p.prev != nil {
		select {
		case <-p.prev:
		default:
			close(p.prev)
		}
	}
	p.mu.Unlock()
}

func (p *parker) letGo() {
	p.mu.Lock()
	if p.release != nil {
		select {
		case <-p.release:
		default:
			close(p.release)
		}
	}
	if p.prev != nil {
		select {
		case <-p.prev:
		default:
			close(p.prev)
		}
	}
	p.at = ""
	p.mu.Unlock()
}

func countHandlerLoops() int {
	buf := make([]byte, 1<<20)
	for {
		n := runtime.Stack(buf, true)
		if n < len(buf) {
			buf = buf[:n]
			break
		}
		buf = make([]byte, 2*len(buf))
	}
	return strings.Count(string(buf), "machine.(*Machine).handlerLoop(")
}

func isClosed(ch <-chan struct{}) bool {
	select {
	case <-ch:
		return true
	default:
		return false
	}
}

// guarded runs f with a watchdog; returns "", "PANIC: ..." or "BLOCKED".
func guarded(d time.Duration, f func()) string {
	done := make(chan string, 1)
	go func() {
		defer func() {
			if p := recover(); p != nil {
				msg := fmt.Sprintf("PANIC: %v", p)
				if os.Getenv("CONC_STACK") != "" {
					msg += "\n" + string(debug.Stack())
				}
				done <- msg
				return
			}
			done <- ""
		}()
		f()
	}()
	select {
	case r := <-done:
		return r
	case <-time.After(d):
		return "BLOCKED"
	}
}

var dMu sync.Mutex // disposal cases run one at a time (goroutine accounting)

// ExecDispose runs one disposal case.
func ExecDispose(c DCase) *DRun {
	dMu.Lock()
	defer dMu.Unlock()
	hookOnce.Do(func() { am.VerifPoint = hook })
	t0 := time.Now()
	run := &DRun{}
	var fmu sync.Mutex
	fail := func(f string, a ...any) {
		fmu.Lock()
		defer fmu.Unlock()
		msg := fmt.Sprintf(f, a...)
		for _, x := range run.Failures {
			if x.Msg == msg {
				return
			}
		}
		run.Failures = append(run.Failures, Fail{Msg: msg})
	}
	loops0 := countHandlerLoops()
	names := am.S{}
	schema := am.Schema{}
	for i := 0; i < c.N; i++ {
		n := fmt.Sprintf("S%d", i)
		names = append(names, n)
		schema[n] = am.State{Multi: i == c.N-1}
	}
	if c.Graceful > 0 && c.Graceful < 3 {
		schema[am.StateDisposing] = am.State{Remove: am.S{"Disposed"}}
		schema["Disposed"] = am.State{Remove: am.S{am.StateDisposing}}
	}
	if c.Graceful == 3 {
		// the schema has a Start state and it is active when the disposal lands (Dispose() then first
		// removes Start and grants a grace period)
		schema[am.StateStart] = am.State{}
	}
	parent, cancelParent := context.WithCancel(context.Background())
	defer cancelParent()
	m := am.New(parent, schema, &am.Opts{Id: "dm", HandlerTimeout: 3 * time.Second, DontLogStackTrace: true})
	m.DisposeTimeout = 150 * time.Millisecond
	m.EvalTimeout = 300 * time.Millisecond

	// schedule points
	var parkAt atomic.Value // string
	parkAt.Store("")
	parked := make(chan struct{}, 1)
	release := make(chan struct{})
	var parkedOnce atomic.Bool
	pk := &parker{}
	defer pk.letGo()
	var ddMu sync.Mutex
	ddHits := map[string]int{}
	registry.Store(m, func(id string) {
		if strings.HasPrefix(id, "dd:") {
			ddMu.Lock()
			ddHits[id]++
			ddMu.Unlock()
		}
		pk.hit(id)
		if want := parkAt.Load().(string); want != "" && id == want && parkedOnce.CompareAndSwap(false, true) {
			parked <- struct{}{}
			<-release
		}
	})
	defer registry.Delete(m)

	// dispose handlers
	var dh1, dh2 atomic.Int32
	m.OnDispose(func(id string, ctx context.Context) { dh1.Add(1) })
	m.OnDispose(func(id string, ctx context.Context) { dh2.Add(1) })

	// handlers: S0Enter / S0State can dispose
	var disposeInNeg, disposeInFinal atomic.Bool
	var inHandler atomic.Int32
	if c.Handlers {
		neg := map[string]am.HandlerNegotiation{
			"S0Enter": func(e *am.Event) bool {
				inHandler.Add(1)
				defer inHandler.Add(-1)
				if disposeInNeg.Load() {
					m.Dispose()
				}
				return true
			},
		}
		fin := map[string]am.HandlerFinal{
			"S0State": func(e *am.Event) {
				inHandler.Add(1)
				defer inHandler.Add(-1)
				if disposeInFinal.Load() {
					m.Dispose()
				}
			},
			"S1State": func(e *am.Event) {
				m.Add1(names[c.N-1], am.A{"x": 1})
			},
		}
		if c.N < 2 {
			delete(fin, "S1State")
		}
		if c.Graceful == 2 {
			fin["DisposingState"] = func(e *am.Event) { go m.Add1("Disposed", nil) }
			fin["DisposedState"] = func(e *am.Event) { go m.Dispose() }
		}
		if _, err := m.HandlersBindMaps(neg, fin, am.BindOpts{Id: "d"}); err != nil {
			fail("bind: %v", err)
			return run
		}
	}
	if c.Graceful == 3 {
		m.Add1(am.StateStart, nil)
	}
	one := func(i int) string { return names[i%c.N] }
	// a tracer whose TransitionEnd can dispose: the transition then goes on (subscriptions are
	// processed after the tracers) while the disposal has already begun
	var disposeInTracer atomic.Bool
	m.BindTracer(&endTracer{TracerNoOp: &am.TracerNoOp{Id: "verif-end"}, f: func(tx *am.Transition) {
		if !tx.IsAccepted.Load() || tx.Mutation.IsCheck || !disposeInTracer.CompareAndSwap(true, false) {
			return
		}
		parkAt.Store("dd:disposing")
		m.Dispose()
		select {
		case <-parked:
		case <-time.After(time.Second):
		}
	}})
	// workload before
	for _, o := range c.Pre {
		var args am.A
		if o.Args {
			args = am.A{"x": 1}
		}
		st := am.S{}
		for _, i := range o.States {
			st = append(st, one(i))
		}
		switch o.Kind {
		case "add":
			m.Add(st, args)
		case "remove":
			m.Remove(st, args)
		case "set":
			m.Set(st, args)
		}
	}
	// outstanding subscriptions
	type sub struct {
		kind string
		ch   <-chan struct{}
		ctx  context.Context
	}
	var subs []sub
	var nearQ []<-chan struct{}
	hasNear := false
	for _, sreq := range c.Subs {
		if strings.HasPrefix(sreq, "whenqueue1") {
			hasNear = true
		}
	}
	for pass := 0; pass < 2; pass++ {
		if pass == 1 {
			if len(nearQ) > 0 && !m.IsDisposed() {
				m.Toggle1(one(0), nil)
				for _, ch := range nearQ {
					if !isClosed(ch) {
						fail("precondition: a WhenQueue waiter for the next queue tick was not released by the next mutation")
					}
				}
			}
		}
		for _, sreq := range c.Subs {
			// with near / far queue waiters: those first, then the mutation, then the rest
			isQ := strings.HasPrefix(sreq, "whenqueue1") || (hasNear && strings.HasPrefix(sreq, "whenqueue:"))
			if (pass == 0) != isQ && hasNear {
				continue
			}
			if !hasNear && pass == 1 {
				continue
			}
			p := strings.Split(sreq, ":")
			si := 0
			if len(p) > 1 {
				fmt.Sscan(p[1], &si)
			}
			st := one(si)
			switch p[0] {
			case "when":
				if !m.Is1(st) {
					subs = append(subs, sub{kind: sreq, ch: m.When1(st, nil)})
				}
			case "whennot":
				if m.Is1(st) {
					subs = append(subs, sub{kind: sreq, ch: m.WhenNot1(st, nil)})
				}
			case "whentime":
				subs = append(subs, sub{kind: sreq, ch: m.WhenTime1(st, m.Tick(st)+6, nil)})
			case "whenticks":
				subs = append(subs, sub{kind: sreq, ch: m.WhenTicks(st, 5, nil)})
			case "whentick1":
				subs = append(subs, sub{kind: sreq, ch: m.WhenTicks(st, 1, nil)})
			case "whenquery1":
				base := m.Tick(st)
				subs = append(subs, sub{kind: sreq, ch: m.WhenQuery(func(cl am.Clock) bool { return cl[st] > base }, nil)})
			case "whentime1":
				subs = append(subs, sub{kind: sreq, ch: m.WhenTime1(st, m.Tick(st)+1, nil)})
			case "whenargs":
				subs = append(subs, sub{kind: sreq, ch: m.WhenArgs(st, am.A{"never": 1}, nil)})
			case "whenqueue":
				subs = append(subs, sub{kind: sreq, ch: m.WhenQueue(am.Result(m.QueueTick() + 50))})
			case "whenqueue1":
				// a waiter for the very next queue tick: served by the mutation made below, before the
				// disposal (registered around a far waiter, which must survive that and be released by
				// the disposal)
				nearQ = append(nearQ, m.WhenQueue(am.Result(m.QueueTick()+1)))
			case "whenqueueends":
				// only outstanding while the queue runs; registered anyway
				ch := m.WhenQueueEnds()
				if !isClosed(ch) {
					subs = append(subs, sub{kind: sreq, ch: ch})
				}
			case "whenquery":
				subs = append(subs, sub{kind: sreq, ch: m.WhenQuery(func(cl am.Clock) bool { return cl[st] > 1000 }, nil)})
			case "whenerr":
				subs = append(subs, sub{kind: sreq, ch: m.WhenErr(nil)})
			case "statectx":
				if m.Is1(st) {
					subs = append(subs, sub{kind: sreq, ctx: m.NewStateCtx(st)})
				}
			}
		}
	}
	run.Subs = len(subs)
	for _, s := range subs {
		if s.ch != nil && isClosed(s.ch) {
			fail("precondition: %s already closed before disposal", s.kind)
		}
	}

	if (c.Trigger == "in-neg" || c.Trigger == "in-final") && m.Is1(names[0]) {
		m.Remove1(names[0], nil)
	}
	// the trigger
	wait := 5 * time.Second
	callerDone := make(chan struct{})
	close(callerDone)
	switch c.Trigger {
	case "idle-dispose":
		m.Dispose()
	case "idle-force":
		if r := guarded(wait, m.DisposeForce); r != "" {
			fail("DisposeForce on an idle machine: %s", r)
		}
	case "idle-parent":
		cancelParent()
	case "twice":
		m.Dispose()
		m.Dispose()
	case "twice-after":
		m.Dispose()
		select {
		case <-m.WhenDisposed():
		case <-time.After(wait):
		}
		if r := guarded(wait, m.Dispose); r != "" {
			fail("second Dispose after completion: %s", r)
		}
		if r := guarded(wait, m.DisposeForce); r != "" {
			fail("DisposeForce after completion: %s", r)
		}
	case "twice-conc":
		var wg sync.WaitGroup
		for i := 0; i < 4; i++ {
			wg.Add(1)
			go func() { defer wg.Done(); m.Dispose() }()
		}
		wg.Wait()
	case "dispose+force":
		m.Dispose()
		if r := guarded(wait, m.DisposeForce); r != "" {
			fail("DisposeForce racing Dispose: %s", r)
		}
	case "parent+dispose":
		cancelParent()
		m.Dispose()
	case "in-neg":
		disposeInNeg.Store(true)
		if r := guarded(wait, func() { m.Add1(names[0], nil) }); r != "" {
			fail("Add whose negotiation handler disposes: %s", r)
		}
	case "in-final":
		disposeInFinal.Store(true)
		if r := guarded(wait, func() { m.Add1(names[0], nil) }); r != "" {
			fail("Add whose final handler disposes: %s", r)
		}
	case "in-eval":
		if r := guarded(wait, func() { m.Eval("verif", func() { m.Dispose() }, nil) }); r != "" {
			fail("Eval whose function disposes: %s", r)
		}
	case "during-queue":
		// a caller is parked inside processQueue; Dispose lands from another goroutine. Without
		// handlers (one mutation, nothing nested) the scenario is a schedule of the Lean model Am.DP
		// (caller 0 parked at the stage's program counter, disposer 1): replayed there
		var inTx, started atomic.Int32
		var overlap atomic.Bool
		m.BindTracer(&spanTracer{TracerNoOp: &am.TracerNoOp{Id: "verif-span"}, n: &inTx, over: &overlap, started: &started})
		pcOfStage := map[string]string{"qm:appended": "pre", "pq:preOk": "cas", "pq:casOk": "loop", "pq:shifted": "running",
			"pq:loopExit": "release", "pq:released": "recheck"}
		bi := func(b bool) int {
			if b {
				return 1
			}
			return 0
		}
		script := !c.Handlers && pcOfStage[c.Stage] != ""
		observe := func(line, pc, lock, disposed, st, rn, body string) {
			if lock == "" {
				lock = fmt.Sprint(bi(am.VerifQueueProcessing(m)))
			}
			if disposed == "" {
				disposed = fmt.Sprint(bi(m.IsDisposed()))
			}
			if st == "" {
				st = fmt.Sprint(started.Load())
			}
			if rn == "" {
				rn = fmt.Sprint(inTx.Load())
			}
			if body == "" {
				body = fmt.Sprint(dh1.Load())
			}
			run.Lines = append(run.Lines, line)
			run.Obs = append(run.Obs, fmt.Sprintf("pc=%s lock=%s disposing=%d disposed=%s q=%d started=%s running=%s body=%s", pc,
				lock, bi(am.VerifDisposing(m)), disposed, m.QueueLen(), st, rn, body))
		}
		parkAt.Store(c.Stage)
		callerDone = make(chan struct{})
		go func() {
			defer close(callerDone)
			if r := guarded(wait, func() { m.Add(am.S{one(1), one(2)}, am.A{"x": 1}) }); r != "" {
				fail("mutation running while Dispose landed (%s): %s", c.Stage, r)
			}
		}()
		select {
		case <-parked:
			if script {
				started.Store(0)
				if c.Stage == "pq:loopExit" || c.Stage == "pq:released" {
					started.Store(1)
				}
				run.Lines = append(run.Lines, "dp init 1", "dp spawn caller", "dp spawn dispose")
				run.Obs = append(run.Obs, "ok", "thread=0", "thread=1")
				if c.Stage == "pq:shifted" {
					// shifted, the transition not created yet: the model starts it in the same step
					observe("dp run 0 running", "running", "", "", "*", "*", "")
				} else {
					observe("dp run 0 "+pcOfStage[c.Stage], pcOfStage[c.Stage], "", "", "", "", "")
				}
			}
			m.Dispose()
			time.Sleep(20 * time.Millisecond)
			if script {
				// the disposal has been flagged; how far doDispose has got by now is up to the timers
				st := ""
				if c.Stage == "pq:shifted" {
					st = "*"
				}
				observe("dp run 1 wait", "wait", "", "*", st, st, "*")
			}
			close(release)
			if script {
				select {
				case <-callerDone:
				case <-time.After(wait):
				}
				select {
				case <-m.WhenDisposed():
				case <-time.After(wait):
				}
				st := ""
				if c.Stage == "pq:shifted" {
					// the shifted mutation is dropped when disposal is already flagged (newTransition is
					// not reached): not a transition the tracer sees
					st = "*"
				}
				if overlap.Load() {
					fail("two transitions of one machine ran at the same time around a Dispose that landed at %s", c.Stage)
				}
				observe("dp run 0 done", "done", "*", "*", st, "0", "*")
				observe("dp run 1 done", "done", "*", "", st, "0", "")
			}
		case <-time.After(time.Second):
			// the point was not reached (nothing to park on): plain dispose
			m.Dispose()
		}
	case "in-tracer-end":
		// Dispose lands after the handlers of a transition and before its subscriptions are processed:
		// the subscriptions matched by exactly that transition must still be released
		if m.IsDisposed() {
			break
		}
		disposeInTracer.Store(true)
		if r := guarded(wait, func() { m.Add(am.S{one(1), one(2)}, am.A{"x": 1}) }); r != "" {
			fail("Add during whose TransitionEnd tracer callback Dispose landed: %s", r)
		}
		time.Sleep(20 * time.Millisecond)
		if parkedOnce.Load() {
			close(release)
		}
	case "eval-pending":
		// an Eval is waiting behind a busy handler when Dispose lands; the parent context stays alive.
		// The Eval caller is a waiter like any other: it returns (false), it does not hang and it does
		// not panic, whatever its timeout is relative to the stages of the disposal
		evalMs := 400
		fmt.Sscan(c.Stage, &evalMs)
		m.EvalTimeout = time.Duration(evalMs) * time.Millisecond
		busy := make(chan struct{})
		var busyOnce sync.Once
		unbusy := func() { busyOnce.Do(func() { close(busy) }) }
		defer unbusy()
		entered := make(chan struct{}, 1)
		if _, err := m.HandlersBindMaps(nil, map[string]am.HandlerFinal{one(1) + "State": func(e *am.Event) {
			select {
			case entered <- struct{}{}:
			default:
			}
			<-busy
		}}, am.BindOpts{Id: "busy"}); err != nil {
			fail("bind: %v", err)
			return run
		}
		if m.Is1(one(1)) {
			m.Remove1(one(1), nil)
		}
		go m.Add1(one(1), nil)
		select {
		case <-entered:
		case <-time.After(time.Second):
			fail("eval-pending: the busy handler never started")
			return run
		}
		callerDone = make(chan struct{})
		var evalRet atomic.Int32 // 0 pending, 1 false, 2 true, 3 panicked
		var evalPanic atomic.Value
		var fnRan atomic.Bool
		evalStart := time.Now()
		var evalTook atomic.Int64
		go func() {
			defer close(callerDone)
			defer func() {
				if r := recover(); r != nil {
					evalPanic.Store(fmt.Sprint(r))
					evalRet.Store(3)
				}
				evalTook.Store(int64(time.Since(evalStart)))
			}()
			if m.Eval("verif-pending", func() { fnRan.Store(true) }, nil) {
				evalRet.Store(2)
			} else {
				evalRet.Store(1)
			}
		}()
		time.Sleep(15 * time.Millisecond)
		m.Dispose()
		// the handler stays busy beyond the graceful wait of the disposal
		go func() {
			time.Sleep(time.Duration(20+min(evalMs/2, 250)) * time.Millisecond)
			unbusy()
		}()
		// once the disposal has completed the pending Eval is released with it, not by its own timeout
		select {
		case <-m.WhenDisposed():
			select {
			case <-callerDone:
			case <-time.After(300 * time.Millisecond):
				fail("an Eval that was pending when Dispose landed is still blocked 300ms after the disposal completed (eval timeout %dms): disposal did not release it", evalMs)
			}
		case <-time.After(wait):
		}
		select {
		case <-callerDone:
		case <-time.After(wait):
		}
		switch evalRet.Load() {
		case 0:
			fail("an Eval that was pending when Dispose landed never returned (eval timeout %dms, handler busy)", evalMs)
		case 3:
			fail("an Eval that was pending when Dispose landed panicked in its caller: %v (eval timeout %dms)", evalPanic.Load(), evalMs)
		case 2:
			if !fnRan.Load() {
				fail("an Eval pending across Dispose reported success although its function never ran")
			}
		}
		if d := time.Duration(evalTook.Load()); evalRet.Load() == 1 && d > time.Duration(evalMs)*time.Millisecond+400*time.Millisecond {
			fail("an Eval that was pending when Dispose landed returned only after %v (eval timeout %dms)", d, evalMs)
		}
	case "unlock-window":
		// a transition is running (its handler is busy) when Dispose lands from another goroutine; the
		// disposer is parked at a stage (right after it let go of the queue lock, or after disposal has
		// been flagged) while a third goroutine mutates the machine: whatever that call returns, its
		// transition must not run next to the one that is still running. The scenario is a schedule of
		// the Lean model Am.DP (callers 0 and 2, disposer 1): replayed there, observations compared
		var inside, inTx, started atomic.Int32
		var overlap atomic.Bool
		m.BindTracer(&spanTracer{TracerNoOp: &am.TracerNoOp{Id: "verif-span"}, n: &inTx, over: &overlap, started: &started})
		busy := make(chan struct{})
		var busyOnce sync.Once
		unbusy := func() { busyOnce.Do(func() { close(busy) }) }
		defer unbusy()
		entered := make(chan struct{}, 1)
		track := func(block bool) am.HandlerFinal {
			return func(e *am.Event) {
				if inside.Add(1) > 1 {
					overlap.Store(true)
				}
				defer inside.Add(-1)
				if block {
					select {
					case entered <- struct{}{}:
					default:
					}
					select {
					case <-busy:
					case <-time.After(2 * time.Second):
					}
				} else {
					time.Sleep(5 * time.Millisecond)
				}
			}
		}
		if _, err := m.HandlersBindMaps(nil, map[string]am.HandlerFinal{
			one(1) + "State": track(true),
			one(2) + "State": track(false),
		}, am.BindOpts{Id: "window"}); err != nil {
			fail("bind: %v", err)
			return run
		}
		for _, i := range []int{1, 2} {
			if m.Is1(one(i)) {
				m.Remove1(one(i), nil)
			}
		}
		started.Store(0)
		bi := func(b bool) int {
			if b {
				return 1
			}
			return 0
		}
		observe := func(line, pc string, q string) {
			run.Lines = append(run.Lines, line)
			run.Obs = append(run.Obs, fmt.Sprintf("pc=%s lock=%d disposing=%d disposed=%d q=%s started=%d running=%d body=%d", pc,
				bi(am.VerifQueueProcessing(m)), bi(am.VerifDisposing(m)), bi(m.IsDisposed()), q, started.Load(), inTx.Load(), dh1.Load()))
		}
		model := c.Stage == "dd:unlocked" || c.Stage == "dd:disposing"
		for _, l := range []string{"dp init 1", "dp spawn caller", "dp spawn dispose", "dp spawn caller"} {
			run.Lines = append(run.Lines, l)
		}
		run.Obs = append(run.Obs, "ok", "thread=0", "thread=1", "thread=2")
		aDone := make(chan struct{})
		go func() { defer close(aDone); m.Add1(one(1), nil) }()
		select {
		case <-entered:
		case <-time.After(time.Second):
			fail("unlock-window: the busy handler never started")
			run.Lines, run.Obs = nil, nil
			return run
		}
		observe("dp run 0 running", "running", fmt.Sprint(m.QueueLen()))
		if model {
			pk.arm(c.Stage)
		}
		m.Dispose()
		parkedNow := model && pk.wait(time.Second)
		if model && !parkedNow {
			// the schedule the script describes did not happen: monitors only
			run.Lines, run.Obs = nil, nil
		}
		if parkedNow {
			if c.Stage == "dd:unlocked" {
				observe("dp run 1 enter", "enter", fmt.Sprint(m.QueueLen()))
			} else {
				observe("dp run 1 wait", "wait", fmt.Sprint(m.QueueLen()))
			}
		}
		callerDone = make(chan struct{})
		go func() {
			defer close(callerDone)
			if r := guarded(wait, func() { m.Add1(one(2), nil) }); r != "" {
				fail("a mutation made while Dispose was at %s (a transition still running): %s", c.Stage, r)
			}
		}()
		select {
		case <-callerDone:
		case <-time.After(300 * time.Millisecond):
		}
		time.Sleep(30 * time.Millisecond)
		if overlap.Load() {
			fail("two transitions of one machine ran at the same time: Dispose landed while a handler was running (disposer at %s) and a mutation from a third goroutine was executed next to it", c.Stage)
		}
		if parkedNow && run.Lines != nil {
			observe("dp run 2 done", "done", fmt.Sprint(m.QueueLen()))
		}
		// the disposal gets flagged, then the running transition ends, then the disposal completes
		if parkedNow && c.Stage == "dd:unlocked" {
			pk.arm("dd:disposing")
			pk.letGoKeepArm()
			if pk.wait(time.Second) {
				if run.Lines != nil {
					observe("dp run 1 wait", "wait", "*")
				}
			} else {
				run.Lines, run.Obs = nil, nil
			}
		}
		unbusy()
		select {
		case <-aDone:
		case <-time.After(2 * time.Second):
			fail("the mutation whose handler was running when Dispose landed never returned")
		}
		if parkedNow && run.Lines != nil {
			observe("dp run 0 done", "done", "*")
		}
		pk.letGo()
		select {
		case <-m.WhenDisposed():
		case <-time.After(wait):
		}
		if overlap.Load() {
			fail("two transitions of one machine ran at the same time: Dispose landed while a handler was running (disposer at %s) and a mutation from a third goroutine was executed next to it", c.Stage)
		}
		if parkedNow && run.Lines != nil && m.IsDisposed() {
			observe("dp run 1 done", "done", "*")
		}
	case "force-in-neg-queued":
		// a mutation waits in the queue with a WhenQueue waiter on its tick; when it finally runs, its
		// negotiation handler force-disposes the machine and vetoes: the waiter's channel has been
		// closed by the disposal already - nothing may panic, the caller returns, the waiter is released
		busy := make(chan struct{})
		var busyOnce sync.Once
		unbusy := func() { busyOnce.Do(func() { close(busy) }) }
		defer unbusy()
		entered := make(chan struct{}, 1)
		veto := c.Stage != "accept"
		if _, err := m.HandlersBindMaps(map[string]am.HandlerNegotiation{
			one(2) + "Enter": func(e *am.Event) bool {
				m.DisposeForce()
				return !veto
			},
		}, map[string]am.HandlerFinal{
			one(1) + "State": func(e *am.Event) {
				select {
				case entered <- struct{}{}:
				default:
				}
				select {
				case <-busy:
				case <-time.After(2 * time.Second):
				}
			},
		}, am.BindOpts{Id: "forceneg"}); err != nil {
			fail("bind: %v", err)
			return run
		}
		for _, i := range []int{1, 2} {
			if m.Is1(one(i)) {
				m.Remove1(one(i), nil)
			}
		}
		holder := make(chan string, 1)
		go func() {
			holder <- guarded(wait, func() { m.Add1(one(1), nil) })
		}()
		select {
		case <-entered:
		case <-time.After(time.Second):
			fail("force-in-neg-queued: the busy handler never started")
			return run
		}
		res := m.Add1(one(2), nil)
		var wq <-chan struct{}
		if res > am.Queued {
			wq = m.WhenQueue(res)
			subs = append(subs, sub{kind: fmt.Sprintf("whenqueue-of-the-disposing-mutation(%d)", res), ch: wq})
		}
		unbusy()
		select {
		case r := <-holder:
			if r != "" {
				fail("the caller draining the queue when a negotiation handler force-disposed the machine: %s", r)
			}
		case <-time.After(wait):
			fail("the caller draining the queue when a negotiation handler force-disposed the machine never returned")
		}
	case "mid-dispose":
		// the disposer is parked at a stage of doDispose; other callers use the machine
		parkAt.Store(c.Stage)
		m.Dispose()
		select {
		case <-parked:
			callerDone = make(chan struct{})
			go func() {
				defer close(callerDone)
				for _, nc := range apiCalls(m, names) {
					if r := guarded(wait, nc.f); r != "" {
						fail("%s called while doDispose was at %s: %s", nc.name, c.Stage, r)
					}
				}
			}()
			time.Sleep(30 * time.Millisecond)
			close(release)
		case <-time.After(2 * time.Second):
			fail("doDispose never reached stage %s", c.Stage)
		}
	default:
		fail("unknown trigger %s", c.Trigger)
		return run
	}
	if !parkedOnce.Load() {
		// nobody parked: make a late arrival pass straight through
		parkAt.Store("")
	}

	// completion
	select {
	case <-m.WhenDisposed():
	case <-time.After(wait):
		fail("disposal (%s) never completes: WhenDisposed still open after %v", c.Trigger, wait)
	}
	select {
	case <-callerDone:
	case <-time.After(wait):
		fail("the caller that was running when Dispose landed never returned")
	}
	disposedOK := isClosed(m.WhenDisposed())
	if disposedOK {
		// the two CAS gates of doDispose: whatever the number of concurrent disposers, one passes
		ddMu.Lock()
		won, body := ddHits["dd:disposing"], ddHits["dd:disposed"]
		ddMu.Unlock()
		if won != 1 || body != 1 {
			fail("%d goroutines passed the CAS on the disposing flag and %d the CAS on the disposed flag (want one each; trigger %s)", won, body, c.Trigger)
		}
		// several disposers at once: the final state does not depend on the interleaving; the model's
		// after any complete schedule
		nG, nF := 0, 0
		switch c.Trigger {
		case "twice-conc":
			nG = 4
		case "twice":
			nG = 2
		case "dispose+force":
			nG, nF = 1, 1
		}
		if nG+nF > 0 && len(run.Lines) == 0 {
			run.Lines = append(run.Lines, "dp init 1")
			run.Obs = append(run.Obs, "ok")
			for i := 0; i < nG; i++ {
				run.Lines = append(run.Lines, "dp spawn dispose")
				run.Obs = append(run.Obs, fmt.Sprintf("thread=%d", i))
			}
			for i := 0; i < nF; i++ {
				run.Lines = append(run.Lines, "dp spawn force")
				run.Obs = append(run.Obs, fmt.Sprintf("thread=%d", nG+i))
			}
			for i := 0; i < nG+nF; i++ {
				run.Lines = append(run.Lines, fmt.Sprintf("dp run %d done", i))
				run.Obs = append(run.Obs, "*")
			}
			b2 := func(b bool) int {
				if b {
					return 1
				}
				return 0
			}
			run.Obs[len(run.Obs)-1] = fmt.Sprintf("pc=done lock=%d disposing=%d disposed=%d q=* started=* running=* body=%d",
				b2(am.VerifQueueProcessing(m)), b2(am.VerifDisposing(m)), b2(m.IsDisposed()), dh1.Load())
		}
		// let the delayed channel closing (100ms) and the handler goroutine settle
		time.Sleep(260 * time.Millisecond)
		for _, s := range subs {
			run.Checks++
			if s.ch != nil && !isClosed(s.ch) {
				fail("channel of %s still open after disposal completed (trigger %s)", s.kind, c.Trigger)
			}
			if s.ctx != nil && s.ctx.Err() == nil {
				fail("state context %s still alive after disposal completed (trigger %s)", s.kind, c.Trigger)
			}
		}
		if a, b := dh1.Load(), dh2.Load(); a != 1 || b != 1 {
			fail("dispose handlers ran %d and %d times (want exactly once each; trigger %s)", a, b, c.Trigger)
		}
		if !m.IsDisposed() {
			fail("WhenDisposed closed but IsDisposed() is false")
		}
		// later calls: prompt and neutral
		var res am.Result
		var ch1, ch2, ch3 <-chan struct{}
		var sctx context.Context
		var evalOK, is bool
		r := guarded(2*time.Second, func() {
			res = m.Add1(one(0), nil)
			if r2 := m.Remove1(one(0), nil); r2 != am.Canceled {
				fail("Remove after disposal returned %v, want Canceled", r2)
			}
			if r2 := m.Set(am.S{one(0)}, nil); r2 != am.Canceled {
				fail("Set after disposal returned %v, want Canceled", r2)
			}
			is = m.Is1(one(0)) || m.Any1(one(0))
			ch1 = m.When1(one(0), nil)
			ch2 = m.WhenNot1(one(0), nil)
			ch3 = m.WhenQueueEnds()
			sctx = m.NewStateCtx(one(0))
			evalOK = m.Eval("verif2", func() {}, nil)
			m.Time(nil)
			m.ActiveStates(nil)
			m.Dispose()
		})
		run.Checks += 8
		for _, nc := range apiCalls(m, names) {
			run.Checks++
			if r2 := guarded(2*time.Second, nc.f); r2 != "" {
				fail("%s called after disposal completed: %s", nc.name, r2)
			}
		}
		if r != "" {
			fail("calls after disposal: %s", r)
		} else {
			if res != am.Canceled {
				fail("Add after disposal returned %v, want Canceled", res)
			}
			if is {
				fail("Is/Any after disposal reports an active state")
			}
			if !isClosed(ch1) || !isClosed(ch2) || !isClosed(ch3) {
				fail("When/WhenNot/WhenQueueEnds after disposal returned an open channel")
			}
			// NewStateCtx on a disposed machine answers with the empty context
			// (context.TODO()): prompt and neutral, which is all the property asks
			if sctx == nil {
				fail("NewStateCtx after disposal returned nil")
			}
			if evalOK {
				fail("Eval after disposal reported success")
			}
		}
		if c.Handlers {
			deadline := time.Now().Add(1500 * time.Millisecond)
			for countHandlerLoops() > loops0 && time.Now().Before(deadline) {
				time.Sleep(50 * time.Millisecond)
			}
			if n := countHandlerLoops(); n > loops0 {
				fail("the handler goroutine is still running after disposal completed (%d > %d; trigger %s)", n, loops0, c.Trigger)
			}
		}
	}
	// never leave a parked goroutine behind
	if parkedOnce.Load() {
		select {
		case <-release:
		default:
			close(release)
		}
	}
	run.WallMs = time.Since(t0).Milliseconds()
	return run
}

var subKinds = []string{"when", "whennot", "whentime", "whenticks", "whenargs", "whenqueue", "whenqueueends", "whenquery", "whenerr", "statectx"}
var queueStages = []string{"pq:casOk", "pq:shifted", "pq:loopExit", "pq:released", "qm:appended", "pq:preOk"}
var disposeStages = []string{"dd:disposing", "dd:disposed", "dd:subsDisposed", "dd:beforeCancel"}

type spanTracer struct {
	*am.TracerNoOp
	n       *atomic.Int32
	over    *atomic.Bool
	started *atomic.Int32
}

func (t *spanTracer) TransitionInit(tx *am.Transition) {
	if t.started != nil {
		t.started.Add(1)
	}
	if t.n.Add(1) > 1 {
		t.over.Store(true)
	}
}
func (t *spanTracer) TransitionEnd(tx *am.Transition) { t.n.Add(-1) }

type endTracer struct {
	*am.TracerNoOp
	f func(tx *am.Transition)
}

func (t *endTracer) TransitionEnd(tx *am.Transition) { t.f(tx) }

func GenDCase(r *rand.Rand, trigger string) DCase {
	c := DCase{N: 3 + r.Intn(3), Handlers: r.Intn(2) == 0, Trigger: trigger, Tag: trigger}
	for k := 0; k < r.Intn(4); k++ {
		c.Pre = append(c.Pre, Op{Kind: []string{"add", "add", "remove"}[r.Intn(3)], States: []int{r.Intn(c.N)}, Args: r.Intn(3) == 0})
	}
	for k := 0; k < 2+r.Intn(6); k++ {
		c.Subs = append(c.Subs, fmt.Sprintf("%s:%d", subKinds[r.Intn(len(subKinds))], r.Intn(c.N)))
	}
	if r.Intn(3) == 0 {
		c.Subs = append(c.Subs, "whenqueue1:0", "whenqueue:0", "whenqueue1:0")
	}
	switch trigger {
	case "idle-parent", "parent+dispose":
		c.Handlers = true
		c.Graceful = r.Intn(3)
	case "in-neg", "in-final":
		c.Handlers = true
		if r.Intn(2) == 0 {
			c.Graceful = 3
		}
	case "during-queue":
		c.Stage = queueStages[r.Intn(len(queueStages))]
	case "mid-dispose":
		c.Stage = disposeStages[r.Intn(len(disposeStages))]
	case "in-tracer-end":
		// subscriptions which the triggering Add(S1, S2) satisfies, next to ones it does not
		c.Pre = append(c.Pre, Op{Kind: "remove", States: []int{1, 2}})
		for k := 0; k < 2+r.Intn(3); k++ {
			c.Subs = append(c.Subs, fmt.Sprintf("%s:%d", []string{"when", "whentick1", "whenquery1", "whentime1"}[r.Intn(4)], 1+r.Intn(2)))
		}
	case "force-in-neg-queued":
		c.Handlers = false
		c.Stage = []string{"veto", "veto", "accept"}[r.Intn(3)]
	case "unlock-window":
		c.Handlers = false
		c.Stage = []string{"dd:unlocked", "dd:unlocked", "dd:disposing", "none"}[r.Intn(4)]
	case "eval-pending":
		c.Handlers = r.Intn(2) == 0
		c.Stage = fmt.Sprint([]int{60, 120, 180, 220, 260, 300, 340, 400, 500, 700, 1500, 3000}[r.Intn(12)])
	}
	return c
}

var Triggers = []string{"idle-dispose", "idle-force", "idle-parent", "twice", "twice-after", "twice-conc", "dispose+force",
	"parent+dispose", "in-neg", "in-final", "in-eval", "during-queue", "mid-dispose", "in-tracer-end", "eval-pending", "unlock-window", "force-in-neg-queued"}

// RunDispose: the disposal schedule engine; corpus first, the fixed cases, then
// every trigger `per` times.
// ProtoScript: one executed scenario as a schedule of the Lean model Am.DP.
type ProtoScript struct {
	Case  DCase
	Lines []string
	Obs   []string
}

// Scripts collected by the last RunDispose.
var Scripts []ProtoScript

// MatchObs compares an observation with the model's line; `*` in the observation matches anything.
func MatchObs(obs, model string) bool {
	if obs == "*" {
		return true
	}
	a, b := strings.Fields(obs), strings.Fields(model)
	if len(a) != len(b) {
		return false
	}
	for i := range a {
		if a[i] == b[i] {
			continue
		}
		k, v, ok := strings.Cut(a[i], "=")
		k2, _, ok2 := strings.Cut(b[i], "=")
		if ok && ok2 && k == k2 && v == "*" {
			continue
		}
		return false
	}
	return true
}

func RunDispose(seed int64, per int, outDir, prop string, corpus []string) (cases, checks int, tags map[string]int, fails []FailOut) {
	Scripts = nil
	r := rand.New(rand.NewSource(seed))
	tags = map[string]int{}
	seen := map[string]bool{}
	var all []DCase
	for _, dir := range corpus {
		files, _ := filepath.Glob(filepath.Join(dir, "*.dcase"))
		for _, f := range files {
			b, err := os.ReadFile(f)
			if err != nil {
				continue
			}
			if c, err := ParseDCase(strings.Split(string(b), "\n")); err == nil {
				c.Tag = "corpus"
				all = append(all, c)
			}
		}
	}
	// parent-context cancel on a machine without handlers (nothing watches the context)
	all = append(all, DCase{N: 3, Handlers: false, Trigger: "idle-parent", Subs: []string{"when:1", "whenticks:0"},
		Pre: []Op{{Kind: "add", States: []int{0}}}, Tag: "idle-parent-nohandlers"})
	// the graceful-shutdown paths of handlerLoop (schema defines Disposing)
	for g := 1; g <= 2; g++ {
		all = append(all, DCase{N: 3, Handlers: true, Trigger: "idle-parent", Graceful: g, Tag: "idle-parent-graceful",
			Subs: []string{"when:1", "whenticks:0", "whennot:0", "statectx:0", "whenargs:2"}, Pre: []Op{{Kind: "add", States: []int{0}}}})
	}
	// a caller parked at every stage of processQueue when Dispose lands (schedules of Am.DP)
	for _, st := range queueStages {
		all = append(all, DCase{N: 3, Handlers: false, Trigger: "during-queue", Stage: st, Tag: "during-queue-proto",
			Subs: []string{"when:1", "whenticks:0", "whenqueueends:1"}, Pre: []Op{{Kind: "add", States: []int{0}}}})
	}
	// an Eval pending behind a busy handler when Dispose lands, its own timeout short of, about and
	// far beyond the stages of the disposal
	for _, ms := range []string{"120", "700", "3000"} {
		all = append(all, DCase{N: 3, Handlers: ms != "700", Trigger: "eval-pending", Stage: ms, Tag: "eval-pending-fixed",
			Subs: []string{"when:1", "whenticks:0"}, Pre: []Op{{Kind: "add", States: []int{0}}}})
	}
	for _, tr := range Triggers {
		n := per
		if tr == "unlock-window" {
			// the schedules replayed in the Lean protocol model
			n = per * 4
		}
		for k := 0; k < n; k++ {
			all = append(all, GenDCase(r, tr))
		}
	}
	for _, c := range all {
		run := ExecDispose(c)
		cases++
		checks += run.Checks
		tags[c.Tag]++
		if len(run.Lines) > 4 && len(run.Lines) == len(run.Obs) {
			Scripts = append(Scripts, ProtoScript{Case: c, Lines: run.Lines, Obs: run.Obs})
		}
		for _, f := range run.Failures {
			key := DisposeFinding(c, f.Msg) + "|" + c.Trigger + "|" + msgKey(f.Msg)
			if seen[key] {
				continue
			}
			seen[key] = true
			file := save(outDir, fmt.Sprintf("%s-seed%d-dispose%d.dcase", prop, seed, len(fails)), c.Lines(),
				"disposal monitor failed on the real machine: "+f.Msg)
			fails = append(fails, FailOut{Msg: f.Msg, File: file, Finding: DisposeFinding(c, f.Msg)})
		}
	}
	return
}

type FailOut struct {
	Msg, File, Finding string
}

// DisposeFinding maps a failure to the id of a recorded finding (or ""): none is recorded for the
// disposal engine since fix 9a199f1.
func DisposeFinding(c DCase, msg string) string {
	return ""
}

type namedCall struct {
	name string
	f    func()
}

// apiCalls: the public method set exercised around disposal (each must return
// promptly and without panicking).
func apiCalls(m *am.Machine, names am.S) []namedCall {
	a, b := names[0], names[len(names)-1]
	return []namedCall{
		{"When", func() { m.When1(b, nil) }},
		{"WhenNot", func() { m.WhenNot1(a, nil) }},
		{"WhenTime", func() { m.WhenTime1(a, 9, nil) }},
		{"WhenTicks", func() { m.WhenTicks(a, 2, nil) }},
		{"WhenNextActive", func() { m.WhenNextActive(a, nil) }},
		{"WhenArgs", func() { m.WhenArgs(b, am.A{"x": 1}, nil) }},
		{"WhenQueue", func() { m.WhenQueue(99) }},
		{"WhenQueueEnds", func() { m.WhenQueueEnds() }},
		{"WhenErr", func() { m.WhenErr(nil) }},
		{"WhenQuery", func() { m.WhenQuery(func(c am.Clock) bool { return false }, nil) }},
		{"NewStateCtx", func() { m.NewStateCtx(a) }},
		{"Add", func() { m.Add1(b, nil) }},
		{"Remove", func() { m.Remove1(a, nil) }},
		{"Set", func() { m.Set(am.S{b}, nil) }},
		{"CanAdd", func() { m.CanAdd1(b, nil) }},
		{"CanRemove", func() { m.CanRemove1(a, nil) }},
		{"Toggle", func() { m.Toggle1(b, nil) }},
		{"EvAdd", func() { m.EvAdd1(nil, b, nil) }},
		{"AddErr", func() { m.AddErr(fmt.Errorf("x"), nil) }},
		{"Eval", func() { m.Eval("x", func() {}, nil) }},
		{"Is", func() { m.Is1(a) }},
		{"Any", func() { m.Any1(a, b) }},
		{"Not", func() { m.Not1(a) }},
		{"Has", func() { m.Has1(a) }},
		{"Tick", func() { m.Tick(a) }},
		{"Time", func() { m.Time(am.S{a}) }},
		{"Clock", func() { m.Clock(am.S{a}) }},
		{"IsClock", func() { m.IsClock(am.Clock{a: 1}) }},
		{"IsTime", func() { m.IsTime(am.Time{1}, am.S{a}) }},
		{"Switch", func() { m.Switch(am.S{a, b}) }},
		{"String", func() { _ = m.String() }},
		{"StringAll", func() { _ = m.StringAll() }},
		{"Inspect", func() { _ = m.Inspect(nil) }},
		{"Export", func() { m.Export() }},
		{"Index", func() { m.Index(am.S{a}) }},
		{"IsQueued", func() { m.IsQueued(am.MutationAdd, am.S{a}, false, false, 0, false, am.PositionAny) }},
		{"WillBe", func() { m.WillBe1(a) }},
		{"ActiveStates", func() { m.ActiveStates(nil) }},
		{"HandlersBind", func() { m.HandlersBindMaps(nil, map[string]am.HandlerFinal{a + "End": func(e *am.Event) {}}) }},
		{"OnDispose", func() { m.OnDispose(func(string, context.Context) {}) }},
		{"Dispose", func() { m.Dispose() }},
	}
}
