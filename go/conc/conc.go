// Package conc drives the real machine from several goroutines under a
// cooperative scheduler built on the `verif` schedule points of processQueue /
// queueMutation, records the protocol events in their (serialised) order and
// turns them into a line script for the Lean queue-protocol model (QP).
package conc

import (
	"bytes"
	"context"
	"fmt"
	"math/rand"
	"runtime"
	"sort"
	"strconv"
	"strings"
	"sync"
	"sync/atomic"
	"time"

	am "github.com/pancsta/asyncmachine-go/pkg/machine"
)

type Op struct {
	Kind   string // add remove set eval canadd dispose
	States []int
	Args   bool
}

func (o Op) String() string {
	s := o.Kind
	if o.Args {
		s += "!"
	}
	if o.Kind == "eval" || o.Kind == "dispose" {
		return s
	}
	return s + ":" + joinInts(o.States)
}

type Rule struct {
	State int
	Hook  string // enter state exit end
	Op    Op
}

type PlanStep struct {
	Thread int
	Until  string // point id, or "end"
}

type Case struct {
	N       int
	Multi   []int
	Rules   []Rule
	Threads [][]Op
	Plan    []PlanStep
	Sched   []int // exact picks (replay)
	Seed    int64 // picks after plan / sched are exhausted
	Tag     string
}

func joinInts(a []int) string {
	if len(a) == 0 {
		return "-"
	}
	s := make([]string, len(a))
	for i, x := range a {
		s[i] = strconv.Itoa(x)
	}
	return strings.Join(s, ",")
}

func parseInts(s string) []int {
	if s == "" || s == "-" {
		return nil
	}
	var out []int
	for _, p := range strings.Split(s, ",") {
		v, err := strconv.Atoi(p)
		if err == nil {
			out = append(out, v)
		}
	}
	return out
}

func parseOp(s string) (Op, bool) {
	var o Op
	kind, rest, _ := strings.Cut(s, ":")
	if strings.HasSuffix(kind, "!") {
		o.Args = true
		kind = strings.TrimSuffix(kind, "!")
	}
	switch kind {
	case "add", "remove", "set", "canadd", "eval", "dispose":
	default:
		return o, false
	}
	o.Kind = kind
	o.States = parseInts(rest)
	return o, true
}

// Lines renders the case (with exact picks when given).
func (c Case) Lines(picks []int) []string {
	var out []string
	head := fmt.Sprintf("conc n=%d multi=%s seed=%d", c.N, joinInts(c.Multi), c.Seed)
	if c.Tag == "check-then-add" {
		head += " family=" + c.Tag
	}
	out = append(out, head)
	for _, r := range c.Rules {
		out = append(out, fmt.Sprintf("hrule %d %s %s", r.State, r.Hook, r.Op))
	}
	for _, t := range c.Threads {
		var ops []string
		for _, o := range t {
			ops = append(ops, o.String())
		}
		out = append(out, "thread "+strings.Join(ops, " "))
	}
	if picks != nil {
		out = append(out, "sched "+joinInts(picks))
	} else if len(c.Plan) > 0 {
		var ps []string
		for _, p := range c.Plan {
			ps = append(ps, fmt.Sprintf("%d@%s", p.Thread, p.Until))
		}
		out = append(out, "plan "+strings.Join(ps, " "))
	}
	return out
}

func ParseCase(lines []string) (Case, error) {
	var c Case
	for _, l := range lines {
		l = strings.TrimSpace(l)
		if l == "" || strings.HasPrefix(l, "#") {
			continue
		}
		toks := strings.Fields(l)
		switch toks[0] {
		case "conc":
			for _, t := range toks[1:] {
				k, v, _ := strings.Cut(t, "=")
				switch k {
				case "n":
					c.N, _ = strconv.Atoi(v)
				case "multi":
					c.Multi = parseInts(v)
				case "seed":
					c.Seed, _ = strconv.ParseInt(v, 10, 64)
				case "family":
					c.Tag = v
				}
			}
		case "hrule":
			if len(toks) != 4 {
				return c, fmt.Errorf("bad hrule %q", l)
			}
			st, _ := strconv.Atoi(toks[1])
			op, ok := parseOp(toks[3])
			if !ok {
				return c, fmt.Errorf("bad op %q", toks[3])
			}
			c.Rules = append(c.Rules, Rule{State: st, Hook: toks[2], Op: op})
		case "thread":
			var ops []Op
			for _, t := range toks[1:] {
				op, ok := parseOp(t)
				if !ok {
					return c, fmt.Errorf("bad op %q", t)
				}
				ops = append(ops, op)
			}
			c.Threads = append(c.Threads, ops)
		case "sched":
			if len(toks) > 1 {
				c.Sched = parseInts(toks[1])
			}
		case "plan":
			for _, t := range toks[1:] {
				a, b, _ := strings.Cut(t, "@")
				th, _ := strconv.Atoi(a)
				c.Plan = append(c.Plan, PlanStep{Thread: th, Until: b})
			}
		default:
			return c, fmt.Errorf("bad line %q", l)
		}
	}
	if c.N == 0 || len(c.Threads) == 0 {
		return c, fmt.Errorf("incomplete case")
	}
	return c, nil
}

// ---- execution -------------------------------------------------------------

const (
	tParked = iota
	tRunning
	tBlocked
	tFinished
)

type thr struct {
	id      int
	gid     int64
	wake    chan struct{}
	state   int
	curCall int
	curOp   Op
	last    string // last point of the current call
}

// Ev is one protocol event in the serialised order.
type Ev struct {
	Thread int    // caller thread, -1 = handler goroutine
	Call   int    // model thread index
	Point  string // hook id or "ret"
	Line   string // model command
	Obs    string // what the implementation showed, in the model's output format
}

type CallRec struct {
	Call   int
	Thread int
	Op     string
	Res    am.Result
	Done   bool
}

type Run struct {
	Lines    []string // model script
	Obs      []string // expected model outputs (implementation view)
	Events   []Ev
	Picks    []int
	Calls    []CallRec
	Failures []Fail
	Err      string
	QLenEnd  int
	Handlers int
	TxOrder  []uint64
	Disposed bool
}

type Fail struct {
	Finding string
	Msg     string
}

type sched struct {
	mu        sync.Mutex
	c         Case
	m         *am.Machine
	names     am.S
	threads   []*thr
	byGo      map[int64]*thr
	sig       chan struct{}
	run       *Run
	nextCall  int
	nested    int
	inHandler atomic.Int32
	curPlan   int
	disposed  atomic.Bool
	rng       *rand.Rand
}

var registry sync.Map // *am.Machine -> *sched
var hookOnce sync.Once

func goid() int64 {
	var buf [64]byte
	n := runtime.Stack(buf[:], false)
	// "goroutine 123 [running]:"
	f := bytes.Fields(buf[:n])
	if len(f) < 2 {
		return -1
	}
	v, _ := strconv.ParseInt(string(f[1]), 10, 64)
	return v
}

func pcOf(point string) string {
	switch point {
	case "qm:appended", "qm:prepended", "pq:recheck":
		return "pre"
	case "pq:empty", "pq:casFailed", "ret":
		return "done"
	case "pq:preOk":
		return "cas"
	case "pq:casOk", "pq:shifted":
		return "loop"
	case "pq:loopExit":
		return "release"
	case "pq:released":
		return "recheck"
	}
	return "?"
}

func (s *sched) notify() {
	select {
	case s.sig <- struct{}{}:
	default:
	}
}

// record must be called with s.mu held.
func (s *sched) record(thread int, call *int, point string) {
	r := s.run
	if point == "qm:appended" || point == "qm:prepended" {
		*call = s.nextCall
		s.nextCall++
		r.Lines = append(r.Lines, "qp spawn")
		r.Obs = append(r.Obs, fmt.Sprintf("thread=%d", *call))
		r.Events = append(r.Events, Ev{Thread: thread, Call: *call, Point: "spawn", Line: "qp spawn"})
	}
	if *call < 0 {
		// an event of a call that never appended (cannot happen in the protocol)
		r.Failures = append(r.Failures, Fail{Msg: fmt.Sprintf("protocol event %s from a call that queued nothing", point)})
		return
	}
	flag := 0
	if am.VerifQueueProcessing(s.m) {
		flag = 1
	}
	q := int(s.m.QueueLen())
	holders := flag
	line := fmt.Sprintf("qp step %d", *call)
	obs := fmt.Sprintf("pc=%s flag=%d q=%d holders=%d", pcOf(point), flag, q, holders)
	r.Lines = append(r.Lines, line)
	r.Obs = append(r.Obs, obs)
	r.Events = append(r.Events, Ev{Thread: thread, Call: *call, Point: point, Line: line, Obs: obs})
}

func hook(m *am.Machine, id string) {
	v, ok := registry.Load(m)
	if !ok {
		return
	}
	v.(func(string))(id)
}

func (s *sched) onPoint(id string) {
	if s.disposed.Load() || strings.HasPrefix(id, "dd:") {
		return
	}
	m := s.m
	_ = m
	gid := goid()
	s.mu.Lock()
	t := s.byGo[gid]
	if t == nil {
		// the handler goroutine: a nested call, serial with the token holder
		s.record(-1, &s.nested, id)
		s.mu.Unlock()
		return
	}
	s.record(t.id, &t.curCall, id)
	t.last = id
	detach := t.curOp.Kind == "eval" && (id == "pq:casFailed" || id == "pq:empty")
	t.state = tParked
	s.mu.Unlock()
	s.notify()
	<-t.wake
	if detach {
		// Eval lost the race: it now waits for whoever holds the queue; the
		// controller must not wait for this thread
		s.mu.Lock()
		t.state = tBlocked
		s.mu.Unlock()
		s.notify()
	}
}

func (s *sched) stateNames(idx []int) am.S {
	out := am.S{}
	for _, i := range idx {
		if i >= 0 && i < len(s.names) {
			out = append(out, s.names[i])
		}
	}
	return out
}

func (s *sched) doOp(o Op, fromHandler bool) am.Result {
	var args am.A
	if o.Args {
		args = am.A{"x": 1}
	}
	switch o.Kind {
	case "add":
		return s.m.Add(s.stateNames(o.States), args)
	case "remove":
		return s.m.Remove(s.stateNames(o.States), args)
	case "set":
		return s.m.Set(s.stateNames(o.States), args)
	case "canadd":
		return s.m.CanAdd(s.stateNames(o.States), nil)
	case "eval":
		ok := s.m.Eval("verif", func() {
			if s.inHandler.Add(1) != 1 {
				s.fail("", "an eval function ran concurrently with a handler or another eval")
			}
			runtime.Gosched()
			s.inHandler.Add(-1)
		}, context.Background())
		if ok {
			return am.Executed
		}
		return am.Canceled
	case "dispose":
		s.disposed.Store(true)
		s.m.Dispose()
		<-s.m.WhenDisposed()
		return am.Executed
	}
	return am.Canceled
}

func (s *sched) fail(finding, msg string) {
	s.mu.Lock()
	s.failLocked(finding, msg)
	s.mu.Unlock()
}

func (s *sched) failLocked(finding, msg string) {
	for _, f := range s.run.Failures {
		if f.Msg == msg {
			return
		}
	}
	s.run.Failures = append(s.run.Failures, Fail{Finding: finding, Msg: msg})
}

func (s *sched) threadMain(t *thr, ops []Op) {
	t.gid = goid()
	s.mu.Lock()
	s.byGo[t.gid] = t
	t.state = tParked
	s.mu.Unlock()
	s.notify()
	<-t.wake
	for _, o := range ops {
		s.mu.Lock()
		t.curOp = o
		t.curCall = -1
		t.last = ""
		s.mu.Unlock()
		res := s.doOp(o, false)
		if s.disposed.Load() {
			break
		}
		s.mu.Lock()
		if t.state == tBlocked {
			// re-acquire the token before touching the trace
			t.state = tParked
			s.mu.Unlock()
			s.notify()
			<-t.wake
			s.mu.Lock()
		}
		if t.curCall >= 0 {
			if t.last == "pq:released" {
				s.record(t.id, &t.curCall, "ret")
			}
			s.run.Calls = append(s.run.Calls, CallRec{Call: t.curCall, Thread: t.id, Op: o.String(), Res: res, Done: true})
		}
		s.mu.Unlock()
	}
	s.mu.Lock()
	t.state = tFinished
	s.mu.Unlock()
	s.notify()
}

type hTracer struct {
	*am.TracerNoOp
	s *sched
}

func (t *hTracer) TransitionInit(tx *am.Transition) {
	if tx.Mutation != nil && tx.Mutation.QueueTick > 0 {
		t.s.mu.Lock()
		t.s.run.TxOrder = append(t.s.run.TxOrder, tx.Mutation.QueueTick)
		t.s.mu.Unlock()
	}
}

// Exec runs one case on the real machine.
func Exec(c Case) *Run {
	hookOnce.Do(func() { am.VerifPoint = hook })
	run := &Run{}
	s := &sched{c: c, byGo: map[int64]*thr{}, sig: make(chan struct{}, 1), run: run, nested: -1,
		rng: rand.New(rand.NewSource(c.Seed))}
	schema := am.Schema{}
	for i := 0; i < c.N; i++ {
		name := fmt.Sprintf("S%d", i)
		s.names = append(s.names, name)
		st := am.State{}
		for _, mi := range c.Multi {
			if mi == i {
				st.Multi = true
			}
		}
		schema[name] = st
	}
	ctx, cancel := context.WithCancel(context.Background())
	defer cancel()
	tr := &hTracer{TracerNoOp: &am.TracerNoOp{Id: "verif"}, s: s}
	m := am.New(ctx, schema, &am.Opts{Id: "cm", HandlerTimeout: 5 * time.Second,
		DontLogStackTrace: true, Tracers: []am.Tracer{tr}})
	m.EvalTimeout = 300 * time.Millisecond
	s.m = m
	// handlers
	neg := map[string]am.HandlerNegotiation{}
	fin := map[string]am.HandlerFinal{}
	byKey := map[string][]Op{}
	for _, r := range c.Rules {
		if r.State < 0 || r.State >= c.N {
			continue
		}
		var key string
		switch r.Hook {
		case "enter":
			key = s.names[r.State] + "Enter"
		case "exit":
			key = s.names[r.State] + "Exit"
		case "state":
			key = s.names[r.State] + "State"
		case "end":
			key = s.names[r.State] + "End"
		default:
			continue
		}
		byKey[key] = append(byKey[key], r.Op)
	}
	fired := map[string]int{}
	body := func(key string) {
		if s.inHandler.Add(1) != 1 {
			s.fail("", "two handlers (or a handler and an eval) of one machine ran concurrently: "+key)
		}
		run.Handlers++
		fired[key]++
		for _, o := range byKey[key] {
			if fired[key] > 2 {
				// a handler that re-issues its own trigger would never stop
				break
			}
			s.mu.Lock()
			s.nested = -1
			s.mu.Unlock()
			before := m.ActiveStates(nil)
			clk := m.Time(nil)
			res := s.doOp(o, true)
			after := m.ActiveStates(nil)
			clk2 := m.Time(nil)
			if !sameS(before, after) || !sameT(clk, clk2) {
				s.fail("", fmt.Sprintf("a mutation issued inside handler %s was executed nested (active %v -> %v)", key, before, after))
			}
			if res == am.Executed && o.Kind != "canadd" && o.Kind != "eval" {
				// Executed from a handler is only legal for a skipped duplicate / no-op remove
				_ = res
			}
			s.mu.Lock()
			if s.nested >= 0 {
				run.Calls = append(run.Calls, CallRec{Call: s.nested, Thread: -1, Op: o.String(), Res: res, Done: true})
			}
			s.mu.Unlock()
		}
		runtime.Gosched()
		s.inHandler.Add(-1)
	}
	for key := range byKey {
		k := key
		if strings.HasSuffix(k, "State") || strings.HasSuffix(k, "End") {
			fin[k] = func(e *am.Event) { body(k) }
		} else {
			neg[k] = func(e *am.Event) bool { body(k); return true }
		}
	}
	if len(byKey) > 0 {
		if _, err := m.HandlersBindMaps(neg, fin, am.BindOpts{Id: "conc"}); err != nil {
			run.Err = "bind: " + err.Error()
			return run
		}
	}
	registry.Store(m, s.onPoint)
	defer registry.Delete(m)
	run.Lines = append(run.Lines, "qp init 1")
	run.Obs = append(run.Obs, "ok")

	for i, ops := range c.Threads {
		t := &thr{id: i, wake: make(chan struct{}, 1), state: tRunning, curCall: -1}
		s.threads = append(s.threads, t)
		go s.threadMain(t, ops)
	}
	// controller
	deadline := time.Now().Add(30 * time.Second)
	schedPos := 0
	for {
		s.mu.Lock()
		running, blocked := false, 0
		var runnable []*thr
		for _, t := range s.threads {
			switch t.state {
			case tRunning:
				running = true
			case tBlocked:
				blocked++
			case tParked:
				runnable = append(runnable, t)
			}
		}
		if running || (len(runnable) == 0 && blocked > 0) {
			s.mu.Unlock()
			if time.Now().After(deadline) {
				run.Err = "HANG: a caller never reached its next schedule point"
				s.dumpHang()
				break
			}
			select {
			case <-s.sig:
			case <-time.After(20 * time.Millisecond):
			}
			continue
		}
		if len(runnable) == 0 {
			s.mu.Unlock()
			break
		}
		pick := s.choose(runnable, &schedPos)
		pick.state = tRunning
		run.Picks = append(run.Picks, pick.id)
		s.mu.Unlock()
		pick.wake <- struct{}{}
	}
	// quiescence: every caller has returned
	run.Disposed = s.disposed.Load()
	if run.Err == "" && !run.Disposed {
		s.afterRun()
	}
	if !run.Disposed {
		m.Dispose()
		select {
		case <-m.WhenDisposed():
		case <-time.After(2 * time.Second):
		}
	}
	// release whoever is still parked (hang case)
	s.disposed.Store(true)
	for _, t := range s.threads {
		select {
		case t.wake <- struct{}{}:
		default:
		}
	}
	return run
}

func (s *sched) dumpHang() {
	for _, t := range s.threads {
		s.run.Err += fmt.Sprintf(" [thread %d state=%d op=%s last=%s]", t.id, t.state, t.curOp, t.last)
	}
}

func sameS(a, b am.S) bool {
	if len(a) != len(b) {
		return false
	}
	x := append(am.S{}, a...)
	y := append(am.S{}, b...)
	sort.Strings(x)
	sort.Strings(y)
	for i := range x {
		if x[i] != y[i] {
			return false
		}
	}
	return true
}

func sameT(a, b am.Time) bool {
	if len(a) != len(b) {
		return false
	}
	for i := range a {
		if a[i] != b[i] {
			return false
		}
	}
	return true
}

// choose: exact picks first, then the plan, then the seeded PRNG.
func (s *sched) choose(runnable []*thr, pos *int) *thr {
	sort.Slice(runnable, func(i, j int) bool { return runnable[i].id < runnable[j].id })
	if *pos < len(s.c.Sched) {
		want := s.c.Sched[*pos]
		*pos++
		for _, t := range runnable {
			if t.id == want {
				return t
			}
		}
		return runnable[0]
	}
	for s.curPlan < len(s.c.Plan) {
		p := s.c.Plan[s.curPlan]
		if p.Thread < 0 || p.Thread >= len(s.threads) {
			s.curPlan++
			continue
		}
		t := s.threads[p.Thread]
		if t.state == tFinished || t.state == tBlocked || (p.Until != "end" && t.last == p.Until) {
			s.curPlan++
			continue
		}
		for _, r := range runnable {
			if r == t {
				return t
			}
		}
		s.curPlan++
	}
	return runnable[s.rng.Intn(len(runnable))]
}

// afterRun: the monitors at quiescence.
func (s *sched) afterRun() {
	m := s.m
	r := s.run
	r.QLenEnd = int(m.QueueLen())
	if r.QLenEnd != 0 || am.VerifQueueProcessing(m) {
		var stranded []string
		for _, q := range m.Queue() {
			stranded = append(stranded, fmt.Sprintf("%s tick=%d", q.String(), q.QueueTick))
		}
		s.failLocked("", fmt.Sprintf("every caller has returned, yet the idle machine sits on a non-empty queue (len=%d, processing=%v): %s",
			r.QLenEnd, am.VerifQueueProcessing(m), strings.Join(stranded, "; ")))
	}
	qt := m.QueueTick()
	for _, c := range r.Calls {
		if c.Res > am.Queued {
			if uint64(c.Res) > qt {
				s.failLocked("", fmt.Sprintf("call %d (%s) was promised queue tick %d but the idle machine is at queue tick %d", c.Call, c.Op, uint64(c.Res), qt))
				continue
			}
			select {
			case <-m.WhenQueue(c.Res):
			case <-time.After(200 * time.Millisecond):
				s.failLocked("", fmt.Sprintf("WhenQueue(%d) of call %d (%s) never closes", uint64(c.Res), c.Call, c.Op))
			}
		}
	}
	if s.c.Tag == "check-then-add" {
		// add-only, nothing vetoes: every state an Add named is active on the idle machine
		want := map[int]bool{}
		for _, t := range s.c.Threads {
			for _, o := range t {
				if o.Kind == "add" {
					for _, x := range o.States {
						want[x] = true
					}
				}
			}
		}
		for _, ru := range s.c.Rules {
			if ru.Op.Kind == "add" {
				for _, x := range ru.Op.States {
					want[x] = true
				}
			}
		}
		for x := range want {
			if x < len(s.names) && !m.Is1(s.names[x]) {
				s.failLocked("", fmt.Sprintf("an Add of %s was made (nothing removes or vetoes it) but the idle machine does not have it active: the mutation was lost (active: %v, calls: %v)", s.names[x], m.ActiveStates(nil), r.Calls))
			}
		}
	}
	for i := 1; i < len(r.TxOrder); i++ {
		if r.TxOrder[i] != r.TxOrder[i-1]+1 {
			s.failLocked("", fmt.Sprintf("queued mutations ran out of queue-tick order: %v", r.TxOrder))
			break
		}
	}
}
