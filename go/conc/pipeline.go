package conc

import (
	"fmt"
	"math/rand"
	"os"
	"path/filepath"
	"strings"
	"sync"
	"time"

	"amverif/core"
)

var points = []string{"qm:appended", "pq:preOk", "pq:casOk", "pq:shifted", "pq:loopExit", "pq:released", "pq:casFailed"}

func genOp(r *rand.Rand, n int, allowEval bool, dispose float64) Op {
	k := r.Intn(100)
	st := []int{r.Intn(n)}
	if r.Intn(3) == 0 {
		st = append(st, r.Intn(n))
	}
	switch {
	case k < 45:
		return Op{Kind: "add", States: st, Args: r.Intn(3) == 0}
	case k < 70:
		return Op{Kind: "remove", States: st, Args: r.Intn(4) == 0}
	case k < 80:
		return Op{Kind: "set", States: st, Args: r.Intn(4) == 0}
	case k < 88:
		return Op{Kind: "canadd", States: st}
	case allowEval:
		return Op{Kind: "eval"}
	}
	return Op{Kind: "add", States: st, Args: true}
}

// GenCase: 2..4 callers, 1..4 ops each, optional mutating handlers, and one of
// the schedule families.
func GenCase(r *rand.Rand, tier string) Case {
	n := 2 + r.Intn(4)
	c := Case{N: n, Seed: r.Int63n(1 << 40)}
	for i := 0; i < n; i++ {
		if r.Intn(3) == 0 {
			c.Multi = append(c.Multi, i)
		}
	}
	nt := 2 + r.Intn(3)
	maxOps := 3
	if tier == "thorough" {
		maxOps = 5
	}
	for t := 0; t < nt; t++ {
		var ops []Op
		for k := 0; k < 1+r.Intn(maxOps); k++ {
			ops = append(ops, genOp(r, n, true, 0))
		}
		c.Threads = append(c.Threads, ops)
	}
	if r.Intn(2) == 0 {
		for k := 0; k < 1+r.Intn(3); k++ {
			hooks := []string{"enter", "state", "exit", "end"}
			c.Rules = append(c.Rules, Rule{State: r.Intn(n), Hook: hooks[r.Intn(4)], Op: genOp(r, n, false, 0)})
		}
	}
	if r.Intn(8) == 0 {
		// a check is pending in the queue (issued from a handler) when the same states are added for
		// real right behind it: nothing removes or vetoes anything, so every added state ends active
		c = Case{N: 3 + r.Intn(2), Seed: c.Seed, Tag: "check-then-add"}
		x := 1 + r.Intn(c.N-1)
		c.Threads = [][]Op{{{Kind: "add", States: []int{0}}}}
		if r.Intn(2) == 0 {
			c.Threads = append(c.Threads, []Op{{Kind: "add", States: []int{(x % (c.N - 1)) + 1}}})
		}
		c.Rules = []Rule{{State: 0, Hook: "state", Op: Op{Kind: "canadd", States: []int{x}}},
			{State: 0, Hook: "state", Op: Op{Kind: "add", States: []int{x}}}}
		return c
	}
	switch r.Intn(4) {
	case 0:
		c.Tag = "random"
	case 1:
		// park one caller at a point, run another to the end, continue
		a := r.Intn(nt)
		b := (a + 1 + r.Intn(nt-1)) % nt
		c.Plan = []PlanStep{{a, points[r.Intn(len(points))]}, {b, "end"}}
		c.Tag = "park-run"
	case 2:
		// the window of the property: A parked after its last length check,
		// B appends and loses the CAS
		a := r.Intn(nt)
		b := (a + 1 + r.Intn(nt-1)) % nt
		c.Plan = []PlanStep{{a, "pq:loopExit"}, {b, "pq:casFailed"}, {b, "end"}, {a, "end"}}
		c.Tag = "window"
	case 3:
		// two parks
		a := r.Intn(nt)
		b := (a + 1 + r.Intn(nt-1)) % nt
		c.Plan = []PlanStep{{a, points[r.Intn(len(points))]}, {b, points[r.Intn(len(points))]}, {a, "end"}}
		c.Tag = "park-park"
	}
	return c
}

type caseOut struct {
	c   Case
	run *Run
}

func save(dir, name string, lines []string, header ...string) string {
	os.MkdirAll(dir, 0o755)
	p := filepath.Join(dir, name)
	var b strings.Builder
	for _, h := range header {
		b.WriteString("# " + h + "\n")
	}
	b.WriteString(strings.Join(lines, "\n") + "\n")
	os.WriteFile(p, []byte(b.String()), 0o644)
	return p
}

func LoadCase(path string) (Case, error) {
	b, err := os.ReadFile(path)
	if err != nil {
		return Case{}, err
	}
	return ParseCase(strings.Split(string(b), "\n"))
}

func runAll(cases []Case, workers int) []caseOut {
	out := make([]caseOut, len(cases))
	var wg sync.WaitGroup
	ch := make(chan int)
	for w := 0; w < workers; w++ {
		wg.Add(1)
		go func() {
			defer wg.Done()
			for i := range ch {
				out[i] = caseOut{c: cases[i], run: Exec(cases[i])}
			}
		}()
	}
	for i := range cases {
		ch <- i
	}
	close(ch)
	wg.Wait()
	return out
}

// firstDiff compares the implementation's view with the model's answers.
func firstDiff(run *Run, model []string) int {
	for j := range run.Obs {
		if j >= len(model) || run.Obs[j] != model[j] {
			return j
		}
	}
	return -1
}

// exact returns the case with the recorded picks as its schedule.
func exact(c Case, picks []int) Case {
	c2 := c
	c2.Plan = nil
	c2.Sched = append([]int(nil), picks...)
	return c2
}

// shrinkCase drops ops / rules / threads while pred keeps holding.
func shrinkCase(c Case, pred func(Case) bool) Case {
	cur := c
	for changed := true; changed; {
		changed = false
		for i := len(cur.Rules) - 1; i >= 0; i-- {
			cand := cur
			cand.Rules = append(append([]Rule{}, cur.Rules[:i]...), cur.Rules[i+1:]...)
			if pred(cand) {
				cur, changed = cand, true
			}
		}
		for t := range cur.Threads {
			for i := len(cur.Threads[t]) - 1; i >= 0; i-- {
				if len(cur.Threads[t]) == 1 {
					break
				}
				cand := cur
				cand.Threads = append([][]Op{}, cur.Threads...)
				cand.Threads[t] = append(append([]Op{}, cur.Threads[t][:i]...), cur.Threads[t][i+1:]...)
				if pred(cand) {
					cur, changed = cand, true
				}
			}
		}
	}
	return cur
}

func hasFail(run *Run, prefix string) bool {
	for _, f := range run.Failures {
		if strings.HasPrefix(f.Msg, prefix) {
			return true
		}
	}
	return false
}

func msgKey(m string) string {
	if i := strings.IndexAny(m, ":("); i > 0 {
		m = m[:i]
	}
	return strings.Map(func(r rune) rune {
		if r >= '0' && r <= '9' {
			return -1
		}
		return r
	}, m)
}

// RunPipeline: the concurrency engine of C04 (and of the schedule parts of C13).
func RunPipeline(prop string, seed int64, tier, driver, outDir string, n int, search bool, corpus []string) *core.Result {
	t0 := time.Now()
	res := &core.Result{Prop: prop, Seed: seed, Tier: tier, Tags: map[string]int{}, Ops: map[string]int{}, Results: map[string]int{}}
	var cases []Case
	for _, dir := range corpus {
		files, _ := filepath.Glob(filepath.Join(dir, "*.conc"))
		for _, f := range files {
			if c, err := LoadCase(f); err == nil {
				c.Tag = "corpus"
				cases = append(cases, c)
			}
		}
	}
	res.CorpusCases = len(cases)
	// the directed strand schedule of the property, always
	cases = append(cases, Case{N: 2, Seed: 1, Tag: "window",
		Threads: [][]Op{{{Kind: "add", States: []int{0}}}, {{Kind: "add", States: []int{1}}}},
		Plan:    []PlanStep{{0, "pq:loopExit"}, {1, "end"}, {0, "end"}}})
	cases = append(cases, Case{N: 2, Seed: 1, Tag: "window",
		Threads: [][]Op{{{Kind: "add", States: []int{0}}}, {{Kind: "eval"}}},
		Plan:    []PlanStep{{0, "pq:loopExit"}, {1, "end"}, {0, "end"}}})
	r := rand.New(rand.NewSource(seed))
	for i := 0; i < n; i++ {
		cases = append(cases, GenCase(r, tier))
	}
	outs := runAll(cases, 8)
	var mcases []core.Case
	for _, o := range outs {
		mcases = append(mcases, core.Case{Lines: o.run.Lines})
	}
	if d := os.Getenv("CONC_DUMP"); d != "" {
		var b strings.Builder
		for _, mc := range mcases {
			b.WriteString(strings.Join(mc.Lines, "\n") + "\n")
		}
		os.WriteFile(d, []byte(b.String()), 0o644)
	}
	var model [][]string
	if !search {
		var err error
		model, err = core.RunModel(driver, mcases)
		if err != nil {
			res.Note = "model driver failed: " + err.Error()
			res.Disagreements = append(res.Disagreements, core.DisRec{Op: "driver", Model: err.Error()})
			res.WallS = time.Since(t0).Seconds()
			return res
		}
	}
	failSeen := map[string]bool{}
	seen := map[string]bool{}
	contended, casFailed := 0, 0
	for i, o := range outs {
		res.Cases++
		res.Tags[o.c.Tag]++
		res.Evaluations += len(o.run.Events)
		res.HandlerCalls += o.run.Handlers
		res.Transitions += len(o.run.TxOrder)
		lost := false
		for _, e := range o.run.Events {
			res.Ops[e.Point]++
			if e.Point == "pq:casFailed" && e.Thread >= 0 {
				lost = true
			}
		}
		if lost {
			contended++
			key := strings.Join(o.run.Lines, ";")
			if !seen[key] {
				seen[key] = true
				res.DistinctNontrivial++
			}
		}
		for _, c := range o.run.Calls {
			switch {
			case c.Res > 2:
				res.Results["queued-tick"]++
				casFailed++
			case c.Res == 2:
				res.Results["queued"]++
			case c.Res == 1:
				res.Results["canceled"]++
			default:
				res.Results["executed"]++
			}
		}
		if len(res.Samples) < 3 && lost && i >= res.CorpusCases+2 {
			res.Samples = append(res.Samples, strings.Join(o.c.Lines(o.run.Picks), "\n"))
		}
		if o.run.Err != "" {
			key := "err|" + msgKey(o.run.Err)
			if !failSeen[key] {
				failSeen[key] = true
				file := save(outDir, fmt.Sprintf("%s-seed%d-fail%d.conc", prop, seed, len(res.Failures)),
					o.c.Lines(o.run.Picks), "concurrency engine: "+o.run.Err)
				res.Failures = append(res.Failures, core.FailRec{Prop: prop, Msg: o.run.Err, File: file})
			}
			continue
		}
		if !search {
			if j := firstDiff(o.run, model[i]); j >= 0 {
				if len(res.Disagreements) < 5 {
					mo := ""
					if j < len(model[i]) {
						mo = model[i][j]
					}
					ex := exact(o.c, o.run.Picks)
					file := save(outDir, fmt.Sprintf("%s-seed%d-disagree%d.conc", prop, seed, len(res.Disagreements)),
						ex.Lines(ex.Sched), "queue-protocol correspondence disagrees at event "+fmt.Sprint(j)+": "+o.run.Lines[j],
						"impl : "+o.run.Obs[j], "model: "+mo, "events: "+eventsStr(o.run, j))
					res.Disagreements = append(res.Disagreements, core.DisRec{File: file, Line: j, Op: o.run.Lines[j], Impl: o.run.Obs[j], Model: mo})
				} else {
					res.Disagreements = append(res.Disagreements, core.DisRec{Line: j, Op: o.run.Lines[j]})
				}
			}
		}
		for _, f := range o.run.Failures {
			key := f.Finding + "|" + msgKey(f.Msg)
			if failSeen[key] {
				continue
			}
			failSeen[key] = true
			pre := f.Msg
			if i := strings.IndexAny(pre, ":(0123456789"); i > 0 {
				pre = pre[:i]
			}
			ex := exact(o.c, o.run.Picks)
			small := ex
			if hasFail(Exec(ex), pre) {
				small = shrinkCase(ex, func(c Case) bool { return hasFail(Exec(c), pre) })
			}
			file := save(outDir, fmt.Sprintf("%s-seed%d-fail%d.conc", prop, seed, len(res.Failures)),
				small.Lines(small.Sched), "monitor "+prop+" failed on the real machine: "+f.Msg, "finding="+f.Finding,
				"schedule family: "+o.c.Tag)
			res.Failures = append(res.Failures, core.FailRec{Prop: prop, Finding: f.Finding, Msg: f.Msg, File: file})
		}
	}
	res.Extra = map[string]any{"conc_cases": len(outs), "cases_with_lost_cas": contended, "calls_with_queue_tick": casFailed}
	res.WallS = time.Since(t0).Seconds()
	return res
}

func eventsStr(run *Run, upto int) string {
	var out []string
	k := 0
	for _, e := range run.Events {
		if e.Point == "spawn" {
			k++
			continue
		}
		out = append(out, fmt.Sprintf("t%d/c%d:%s", e.Thread, e.Call, e.Point))
		k++
		if k > upto+1 {
			break
		}
	}
	return strings.Join(out, " ")
}
