package helpers

import (
	"context"
	"errors"
	"fmt"
	"math/rand"
	"reflect"
	"sort"
	"strings"
	"sync"
	"time"

	am "github.com/pancsta/asyncmachine-go/pkg/machine"
)

// SweepResult of one call.
type SweepResult struct {
	NilCtx bool
	Target string
	Phase  string
	Args   string
	Kind   string // ok | panic | hang | skipped
	Msg    string
}

var sweepNames = am.S{"A", "B", "C", "D", am.StateException}

func sweepSchema() am.Schema {
	return am.Schema{
		"A": {Add: am.S{"B"}}, "B": {}, "C": {Multi: true, Require: am.S{"A"}}, "D": {Auto: true, Require: am.S{"C"}},
		am.StateException: {Multi: true},
	}
}

type phaseEnv struct {
	name    string
	m       *am.Machine
	ev      *am.Event
	release func()
	cancel  context.CancelFunc
}

// newPhase builds a machine in one of the lifecycle phases.
func newPhase(phase string) *phaseEnv {
	ctx, cancel := context.WithCancel(context.Background())
	m := am.New(ctx, sweepSchema(), &am.Opts{Id: "sw-" + phase, HandlerTimeout: 2 * time.Second, DontLogStackTrace: true})
	m.VerifyStates(sweepNames)
	env := &phaseEnv{name: phase, m: m, cancel: cancel, release: func() {}}
	evCh := make(chan *am.Event, 1)
	block := make(chan struct{})
	started := make(chan struct{}, 1)
	m.HandlersBindMaps(nil, map[string]am.HandlerFinal{
		"BState": func(e *am.Event) {
			select {
			case evCh <- e:
			default:
			}
			if phase == "midqueue" {
				select {
				case started <- struct{}{}:
				default:
				}
				select {
				case <-block:
				case <-time.After(1500 * time.Millisecond):
				}
			}
		},
	})
	switch phase {
	case "fresh":
		m.Add1("A", nil)
	case "midqueue":
		go m.Add1("A", nil)
		select {
		case <-started:
		case <-time.After(time.Second):
		}
		go m.Add1("C", nil) // something waiting in the queue
		time.Sleep(5 * time.Millisecond)
		env.release = func() { close(block) }
	case "errored":
		m.Add1("A", nil)
		m.AddErr(errors.New("sweep"), nil)
	case "setschema":
		m.Add1("A", nil)
		sch := sweepSchema()
		sch["E"] = am.State{}
		m.SetSchema(sch, append(append(am.S{}, sweepNames...), "E"))
	case "disposed":
		m.Add1("A", nil)
		m.DisposeForce()
		time.Sleep(10 * time.Millisecond)
	}
	select {
	case env.ev = <-evCh:
	default:
	}
	return env
}

func (e *phaseEnv) close() {
	e.release()
	e.cancel()
}

var excludeTargets = []string{
	// not part of the quantifier: start servers / external processes / os-level side effects / intentionally endless
	"amhelp.MachDebug", "amhelp.MachDebugEnv", "amhelp.EnableDebugging", "amhelp.SetEnvLogLevel", "amhelp.NewMirror",
	"amhelp.Healthcheck", "amhelp.Interval", "amhelp.SlogToMachLog", "amhelp.Implements", "amhelp.CopySchema",
	"am.EnvLogLevel", "am.NewTime", "am.NewTimeIndex", "amhelp.RemoteCmd", "amhelp.NewReqAdd", "amhelp.NewReqAdd1", "amhelp.NewReqRemove", "amhelp.NewReqRemove1",
	"amhelp.NewMutRequest", "amhelp.Pool", "amhelp.NewStateLoop", "amhelp.NewCtxKey",
	"Machine.Eval", // documented: needs a source and must not run in handlers; covered by the core model
}

func excluded(name string) bool {
	for _, x := range excludeTargets {
		if x == name {
			return true
		}
	}
	return false
}

type argGen struct {
	r      *rand.Rand
	env    *phaseEnv
	nilCtx bool
}

var errSkip = errors.New("unsupported parameter type")

func (g *argGen) names() am.S {
	n := g.env.m.StateNames()
	if len(n) == 0 {
		n = sweepNames
	}
	return n
}

func (g *argGen) subset() am.S {
	n := g.names()
	k := g.r.Intn(3)
	out := am.S{}
	for i := 0; i < k; i++ {
		out = append(out, n[g.r.Intn(len(n))])
	}
	return out
}

func (g *argGen) ctx(allowNil bool) reflect.Value {
	t := reflect.TypeOf((*context.Context)(nil)).Elem()
	switch g.r.Intn(4) {
	case 0:
		if allowNil {
			g.nilCtx = true
			return reflect.Zero(t)
		}
		fallthrough
	case 1:
		c, cancel := context.WithCancel(context.Background())
		cancel()
		return reflect.ValueOf(&c).Elem()
	default:
		c, cancel := context.WithTimeout(context.Background(), 150*time.Millisecond)
		_ = cancel
		return reflect.ValueOf(&c).Elem()
	}
}

func (g *argGen) gen(t reflect.Type, pname string, isMethodOfMachine bool) (reflect.Value, error) {
	switch t.String() {
	case "context.Context":
		return g.ctx(true), nil
	case "machine.S":
		if g.r.Intn(5) == 0 {
			return reflect.Zero(t), nil
		}
		return reflect.ValueOf(g.subset()), nil
	case "[]machine.S":
		k := g.r.Intn(3)
		out := []am.S{}
		for i := 0; i < k; i++ {
			out = append(out, g.subset())
		}
		return reflect.ValueOf(out), nil
	case "string":
		n := g.names()
		return reflect.ValueOf(n[g.r.Intn(len(n))]), nil
	case "[]string":
		return reflect.ValueOf([]string(g.subset())), nil
	case "machine.A":
		switch g.r.Intn(3) {
		case 0:
			return reflect.Zero(t), nil
		case 1:
			return reflect.ValueOf(am.A{}), nil
		}
		return reflect.ValueOf(am.A{"x": 1}), nil
	case "[]machine.A":
		if g.r.Intn(2) == 0 {
			return reflect.ValueOf([]am.A{}), nil
		}
		return reflect.ValueOf([]am.A{{"x": 1}}), nil
	case "*machine.Event":
		switch g.r.Intn(3) {
		case 0:
			return reflect.Zero(t), nil
		case 1:
			return reflect.ValueOf(&am.Event{}), nil
		}
		if g.env.ev != nil {
			return reflect.ValueOf(g.env.ev), nil
		}
		return reflect.ValueOf(&am.Event{}), nil
	case "[]*machine.Event":
		return reflect.ValueOf([]*am.Event{}), nil
	case "machine.Api":
		var api am.Api = g.env.m
		return reflect.ValueOf(&api).Elem(), nil
	case "*machine.Machine":
		return reflect.ValueOf(g.env.m), nil
	case "machine.Time":
		k := g.r.Intn(len(sweepNames) + 1)
		tt := make(am.Time, k)
		for i := range tt {
			tt[i] = uint64(g.r.Intn(4))
		}
		if g.r.Intn(5) == 0 {
			return reflect.Zero(t), nil
		}
		return reflect.ValueOf(tt), nil
	case "machine.Clock":
		c := am.Clock{}
		for _, n := range g.subset() {
			c[n] = uint64(g.r.Intn(4))
		}
		return reflect.ValueOf(c), nil
	case "[]int":
		k := g.r.Intn(3)
		out := []int{}
		for i := 0; i < k; i++ {
			out = append(out, g.r.Intn(len(sweepNames)-1))
		}
		return reflect.ValueOf(out), nil
	case "[][]int":
		return reflect.ValueOf([][]int{{0}, {1, 2}}), nil
	case "int":
		return reflect.ValueOf(g.r.Intn(4)), nil
	case "int32":
		return reflect.ValueOf(int32(g.r.Intn(3))), nil
	case "uint16":
		return reflect.ValueOf(uint16(g.r.Intn(4))), nil
	case "uint32":
		return reflect.ValueOf(uint32(g.r.Intn(4))), nil
	case "uint64":
		return reflect.ValueOf(uint64(g.r.Intn(6))), nil
	case "bool":
		return reflect.ValueOf(g.r.Intn(2) == 0), nil
	case "time.Duration":
		return reflect.ValueOf(time.Duration(1+g.r.Intn(20)) * time.Millisecond), nil
	case "error":
		if g.r.Intn(3) == 0 {
			return reflect.Zero(t), nil
		}
		e := errors.New("sweep-err")
		return reflect.ValueOf(&e).Elem(), nil
	case "machine.Tracer":
		var tr am.Tracer = &am.TracerNoOp{Id: "sweep"}
		return reflect.ValueOf(&tr).Elem(), nil
	case "machine.Schema":
		sch := sweepSchema()
		sch["E"] = am.State{}
		sch["F"] = am.State{}
		return reflect.ValueOf(sch), nil
	case "machine.State":
		return reflect.ValueOf(am.State{Require: am.S{"A"}}), nil
	case "machine.MutationType":
		return reflect.ValueOf(am.MutationType(g.r.Intn(3))), nil
	case "machine.Position":
		return reflect.ValueOf(am.Position(g.r.Intn(3))), nil
	case "[]machine.Position":
		if g.r.Intn(2) == 0 {
			return reflect.ValueOf([]am.Position{}), nil
		}
		return reflect.ValueOf([]am.Position{am.Position(g.r.Intn(3))}), nil
	case "machine.Result":
		return reflect.ValueOf(am.Result(g.r.Intn(5))), nil
	case "machine.LogLevel":
		return reflect.ValueOf(am.LogLevel(g.r.Intn(5))), nil
	case "*machine.Serialized":
		ser, _, err := g.env.m.Export()
		if err != nil || ser == nil {
			return reflect.ValueOf(&am.Serialized{ID: g.env.m.Id(), StateNames: sweepNames, Time: make(am.Time, len(sweepNames))}), nil
		}
		return reflect.ValueOf(ser), nil
	case "interface {}":
		x := &struct{ Foo int }{}
		var a any = x
		return reflect.ValueOf(&a).Elem(), nil
	case "<-chan struct {}":
		ch := make(chan struct{})
		if g.r.Intn(2) == 0 {
			close(ch)
		}
		var ro <-chan struct{} = ch
		return reflect.ValueOf(ro), nil
	case "[]<-chan struct {}":
		ch := make(chan struct{})
		close(ch)
		return reflect.ValueOf([]<-chan struct{}{ch}), nil
	case "[]context.Context":
		return reflect.ValueOf([]context.Context{}), nil
	}
	if t.Kind() == reflect.Func {
		outs := make([]reflect.Value, t.NumOut())
		for i := range outs {
			outs[i] = reflect.Zero(t.Out(i))
		}
		return reflect.MakeFunc(t, func([]reflect.Value) []reflect.Value { return outs }), nil
	}
	return reflect.Value{}, errSkip
}

// Progress, when set, is told which target is about to be called (the parent
// process uses it to attribute a crash of the whole process).
var Progress func(target string)

// SkipTargets are left out (targets that killed a previous child process).
var SkipTargets = map[string]bool{}

// Sweep calls every target in every phase with generated arguments.
func Sweep(r *rand.Rand, samples int) ([]SweepResult, map[string]int) {
	var out []SweepResult
	stats := map[string]int{}
	phases := []string{"fresh", "midqueue", "errored", "setschema", "disposed"}
	type target struct {
		name string
		fn   func(env *phaseEnv) (reflect.Value, bool) // bound function value
	}
	var targets []target
	// package-level functions
	var fnNames []string
	for n := range Registry {
		fnNames = append(fnNames, n)
	}
	sort.Strings(fnNames)
	for _, n := range fnNames {
		v := reflect.ValueOf(Registry[n])
		targets = append(targets, target{n, func(*phaseEnv) (reflect.Value, bool) { return v, true }})
	}
	// methods
	addMethods := func(prefix string, recv func(env *phaseEnv) reflect.Value) {
		sample := recv(newPhaseCached("fresh"))
		t := sample.Type()
		for i := 0; i < t.NumMethod(); i++ {
			mn := t.Method(i).Name
			idx := i
			targets = append(targets, target{prefix + "." + mn, func(env *phaseEnv) (reflect.Value, bool) {
				rv := recv(env)
				if !rv.IsValid() {
					return reflect.Value{}, false
				}
				return rv.Method(idx), true
			}})
		}
	}
	addMethods("Machine", func(env *phaseEnv) reflect.Value { return reflect.ValueOf(env.m) })
	addMethods("S", func(env *phaseEnv) reflect.Value { return reflect.ValueOf(am.S{"A", "B", "A"}) })
	addMethods("Time", func(env *phaseEnv) reflect.Value { return reflect.ValueOf(am.Time{1, 2, 0, 3}) })
	addMethods("TimeIndex", func(env *phaseEnv) reflect.Value {
		return reflect.ValueOf(am.NewTimeIndex(sweepNames, []int{0, 2}))
	})
	addMethods("Event", func(env *phaseEnv) reflect.Value {
		if env.ev != nil {
			return reflect.ValueOf(env.ev)
		}
		return reflect.ValueOf(&am.Event{})
	})
	addMethods("EventNoMach", func(env *phaseEnv) reflect.Value { return reflect.ValueOf(&am.Event{Name: "AState"}) })
	addMethods("Schema", func(env *phaseEnv) reflect.Value { return reflect.ValueOf(sweepSchema()) })

	var mx sync.Mutex
	var wg sync.WaitGroup
	sem := make(chan struct{}, 24)
	seedBase := r.Int63()
	for ti, tg := range targets {
		if excluded(tg.name) {
			stats["excluded"]++
			continue
		}
		if SkipTargets[tg.name] {
			continue
		}
		tg := tg
		r := rand.New(rand.NewSource(seedBase + int64(ti)))
		wg.Add(1)
		sem <- struct{}{}
		go func() {
			defer wg.Done()
			defer func() { <-sem }()
			if Progress != nil {
				Progress(tg.name)
			}
			for _, ph := range phases {
				if !strings.HasPrefix(tg.name, "Machine.") && !strings.HasPrefix(tg.name, "am") && !strings.HasPrefix(tg.name, "Event.") && ph != "fresh" {
					// value types do not depend on the machine phase
					if !(strings.HasPrefix(tg.name, "amhelp.") || strings.HasPrefix(tg.name, "amint.")) {
						continue
					}
				}
				for k := 0; k < samples; k++ {
					env := newPhase(ph)
					res := callOne(r, tg.name, tg.fn, env)
					env.close()
					mx.Lock()
					stats[res.Kind]++
					if res.Kind != "ok" {
						out = append(out, res)
					}
					mx.Unlock()
					if res.Kind == "skipped" {
						break
					}
				}
			}
		}()
	}
	wg.Wait()
	return out, stats
}

var cachedFresh *phaseEnv

func newPhaseCached(p string) *phaseEnv {
	if cachedFresh == nil {
		cachedFresh = newPhase(p)
	}
	return cachedFresh
}

func callOne(r *rand.Rand, name string, bind func(env *phaseEnv) (reflect.Value, bool), env *phaseEnv) SweepResult {
	res := SweepResult{Target: name, Phase: env.name, Kind: "ok"}
	fn, ok := bind(env)
	if !ok {
		res.Kind = "skipped"
		return res
	}
	ft := fn.Type()
	g := &argGen{r: r, env: env}
	var args []reflect.Value
	var desc []string
	for i := 0; i < ft.NumIn(); i++ {
		pt := ft.In(i)
		v, err := g.gen(pt, "", strings.HasPrefix(name, "Machine."))
		if err != nil {
			res.Kind = "skipped"
			res.Msg = "parameter type " + pt.String()
			return res
		}
		args = append(args, v)
		desc = append(desc, fmt.Sprintf("%v", safeIface(v)))
	}
	res.Args = strings.Join(desc, ", ")
	res.NilCtx = g.nilCtx
	done := make(chan string, 1)
	go func() {
		defer func() {
			if p := recover(); p != nil {
				done <- fmt.Sprint("panic: ", p)
			}
		}()
		if ft.IsVariadic() {
			fn.CallSlice(args)
		} else {
			fn.Call(args)
		}
		done <- ""
	}()
	select {
	case msg := <-done:
		if msg != "" {
			res.Kind = "panic"
			res.Msg = msg
		}
	case <-time.After(1500 * time.Millisecond):
		// a call made while a handler is parked may legitimately wait for the
		// running transition: let it finish and look again
		env.release()
		env.release = func() {}
		select {
		case msg := <-done:
			if msg != "" {
				res.Kind = "panic"
				res.Msg = msg
			} else if env.name != "midqueue" {
				res.Kind = "hang"
				res.Msg = "no return within 1.5s"
			}
		case <-time.After(2 * time.Second):
			res.Kind = "hang"
			res.Msg = "no return within 3.5s"
		}
	}
	return res
}

func safeIface(v reflect.Value) (out any) {
	defer func() {
		if recover() != nil {
			out = "?"
		}
	}()
	if !v.IsValid() {
		return "<invalid>"
	}
	if v.Kind() == reflect.Func {
		return "func"
	}
	if v.Kind() == reflect.Interface && v.IsNil() {
		return "nil"
	}
	if v.Kind() == reflect.Ptr && v.IsNil() {
		return "nil"
	}
	s := fmt.Sprintf("%v", v.Interface())
	if len(s) > 60 {
		s = s[:60] + "…"
	}
	return s
}
