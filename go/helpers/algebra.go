// Package helpers: C20 — helper algebra correspondence and the reflective
// totality sweep over the exported API.
package helpers

import (
	"context"
	"fmt"
	"math/rand"
	"strconv"
	"strings"

	am "github.com/pancsta/asyncmachine-go/pkg/machine"
)

func name(i int) string { return "N" + strconv.Itoa(i) }

func toS(l []int) am.S {
	out := make(am.S, len(l))
	for i, v := range l {
		out[i] = name(v)
	}
	return out
}

func fromS(s am.S) []int {
	out := make([]int, len(s))
	for i, v := range s {
		n, err := strconv.Atoi(strings.TrimPrefix(v, "N"))
		if err != nil {
			n = 9999
		}
		out[i] = n
	}
	return out
}

func showI(l []int) string {
	if len(l) == 0 {
		return "-"
	}
	p := make([]string, len(l))
	for i, v := range l {
		p[i] = strconv.Itoa(v)
	}
	return strings.Join(p, ",")
}

func showT(l am.Time) string {
	if len(l) == 0 {
		return "-"
	}
	p := make([]string, len(l))
	for i, v := range l {
		p[i] = strconv.FormatUint(v, 10)
	}
	return strings.Join(p, ",")
}

func b01(x bool) string {
	if x {
		return "1"
	}
	return "0"
}

func rlist(r *rand.Rand, max, maxLen int) []int {
	k := r.Intn(maxLen + 1)
	out := make([]int, k)
	for i := range out {
		out[i] = r.Intn(max)
	}
	return out
}

func rlists(r *rand.Rand, max int) [][]int {
	k := r.Intn(3)
	var out [][]int
	for i := 0; i < k; i++ {
		out = append(out, rlist(r, max, 4))
	}
	return out
}

func showLists(ls [][]int) string {
	if len(ls) == 0 {
		return "none"
	}
	p := make([]string, len(ls))
	for i, l := range ls {
		p[i] = showI(l)
	}
	return strings.Join(p, ";")
}

func toSS(ls [][]int) []am.S {
	out := make([]am.S, len(ls))
	for i, l := range ls {
		out[i] = toS(l)
	}
	return out
}

func rtime(r *rand.Rand) am.Time {
	k := r.Intn(6)
	t := make(am.Time, k)
	for i := range t {
		t[i] = uint64(r.Intn(6))
	}
	return t
}

func ridx(r *rand.Rand, n int) []int {
	k := r.Intn(4)
	out := make([]int, k)
	for i := range out {
		out[i] = r.Intn(n+2) - 1
	}
	return out
}

// AlgCase is one helper call: the protocol line and what the real code returned.
type AlgCase struct {
	Line string
	Out  string
	Err  string
	// for the algebra monitors
	Kind string
	A, B []int
	Ls   [][]int
	Res  []int
	ResB bool
}

var parseMach *am.Machine

func machN(n int) *am.Machine {
	schema := am.Schema{}
	names := am.S{}
	for i := 0; i < n; i++ {
		schema[name(i)] = am.State{}
		names = append(names, name(i))
	}
	m := am.New(context.Background(), schema, &am.Opts{Id: "alg"})
	names = append(names, am.StateException)
	m.VerifyStates(names)
	return m
}

// GenAlg produces one random helper call and executes it on the real code.
func GenAlg(r *rand.Rand) (c AlgCase) {
	defer func() {
		if p := recover(); p != nil {
			c.Err = fmt.Sprint("panic: ", p)
			c.Out = "PANIC"
		}
	}()
	const U = 6
	switch r.Intn(25) {
	case 0:
		a, ls := rlist(r, U, 5), rlists(r, U)
		c = AlgCase{Kind: "add", A: a, Ls: ls, Line: fmt.Sprintf("hs add %s %s", showI(a), showLists(ls))}
		c.Res = fromS(toS(a).Add(toSS(ls)...))
		c.Out = showI(c.Res)
	case 1:
		a, b := rlist(r, U, 5), rlist(r, U, 3)
		c = AlgCase{Kind: "add1", A: a, B: b, Line: fmt.Sprintf("hs add1 %s %s", showI(a), showI(b))}
		c.Res = fromS(toS(a).Add1(toS(b)...))
		c.Out = showI(c.Res)
	case 2:
		a, ls := rlist(r, U, 5), rlists(r, U)
		c = AlgCase{Kind: "delete", A: a, Ls: ls, Line: fmt.Sprintf("hs delete %s %s", showI(a), showLists(ls))}
		c.Res = fromS(toS(a).Delete(toSS(ls)...))
		c.Out = showI(c.Res)
	case 3:
		a, b := rlist(r, U, 5), rlist(r, U, 3)
		c = AlgCase{Kind: "delete1", A: a, B: b, Line: fmt.Sprintf("hs delete1 %s %s", showI(a), showI(b))}
		c.Res = fromS(toS(a).Delete1(toS(b)...))
		c.Out = showI(c.Res)
	case 4:
		ls := rlists(r, U)
		c = AlgCase{Kind: "sadd", Ls: ls, Line: fmt.Sprintf("hs sadd %s", showLists(ls))}
		c.Res = fromS(am.SAdd(toSS(ls)...))
		c.Out = showI(c.Res)
	case 5:
		a, b := rlist(r, U, 5), rlist(r, U, 5)
		c = AlgCase{Kind: "sub", A: a, B: b, Line: fmt.Sprintf("hs sub %s %s", showI(a), showI(b))}
		c.Res = fromS(toS(a).Sub(toS(b)))
		c.Out = showI(c.Res)
	case 6:
		a, b := rlist(r, U, 5), rlist(r, U, 5)
		c = AlgCase{Kind: "shared", A: a, B: b, Line: fmt.Sprintf("hs shared %s %s", showI(a), showI(b))}
		c.Res = fromS(toS(a).Shared(toS(b)))
		c.Out = showI(c.Res)
	case 7:
		a, b := rlist(r, 4, 4), rlist(r, 4, 4)
		if r.Intn(3) == 0 {
			b = append([]int{}, a...)
			r.Shuffle(len(b), func(i, j int) { b[i], b[j] = b[j], b[i] })
		}
		c = AlgCase{Kind: "equal", A: a, B: b, Line: fmt.Sprintf("hs equal %s %s", showI(a), showI(b))}
		c.ResB = toS(a).Equal(toS(b))
		c.Out = b01(c.ResB)
	case 8:
		a, b := rlist(r, 3, 3), rlist(r, 3, 3)
		c = AlgCase{Kind: "equalorder", A: a, B: b, Line: fmt.Sprintf("hs equalorder %s %s", showI(a), showI(b))}
		c.ResB = toS(a).EqualOrder(toS(b))
		c.Out = b01(c.ResB)
	case 9:
		a := rlist(r, U, 6)
		c = AlgCase{Kind: "unique", A: a, Line: fmt.Sprintf("hs unique %s", showI(a))}
		c.Res = fromS(toS(a).Unique())
		c.Out = showI(c.Res)
	case 10:
		if parseMach == nil {
			parseMach = machN(4)
		}
		a := rlist(r, 7, 6)
		c = AlgCase{Kind: "parse", A: a, Line: fmt.Sprintf("hs parse 4 %s", showI(a))}
		c.Res = fromS(parseMach.ParseStates(toS(a)))
		c.Out = showI(c.Res)
	case 11:
		t, i := rtime(r), r.Intn(7)-1
		c = AlgCase{Kind: "t", Line: fmt.Sprintf("ht is1 %s %d", showT(t), i), Out: b01(t.Is1(i))}
	case 12:
		t, i := rtime(r), r.Intn(7)-1
		c = AlgCase{Kind: "t", Line: fmt.Sprintf("ht not1 %s %d", showT(t), i), Out: b01(t.Not1(i))}
	case 13:
		t, l := rtime(r), ridx(r, 6)
		c = AlgCase{Kind: "t", Line: fmt.Sprintf("ht is %s %s", showT(t), showI(l)), Out: b01(t.Is(l))}
	case 14:
		t, l := rtime(r), ridx(r, 6)
		c = AlgCase{Kind: "t", Line: fmt.Sprintf("ht not %s %s", showT(t), showI(l)), Out: b01(t.Not(l))}
	case 15:
		t, l := rtime(r), ridx(r, 6)
		c = AlgCase{Kind: "t", Line: fmt.Sprintf("ht any1 %s %s", showT(t), showI(l)), Out: b01(t.Any1(l...))}
	case 16:
		t := rtime(r)
		if r.Intn(2) == 0 {
			c = AlgCase{Kind: "t", Line: fmt.Sprintf("ht active %s nil", showT(t)), Out: showI(t.ActiveStates(nil))}
		} else {
			l := rlist(r, 6, 4)
			c = AlgCase{Kind: "t", Line: fmt.Sprintf("ht active %s %s", showT(t), showI(l)), Out: showI(t.ActiveStates(append([]int{}, l...)))}
		}
	case 17:
		t, l := rtime(r), rlist(r, 7, 4)
		c = AlgCase{Kind: "t", Line: fmt.Sprintf("ht filter %s %s", showT(t), showI(l)), Out: showT(t.Filter(l))}
	case 18:
		t := rtime(r)
		if r.Intn(2) == 0 {
			c = AlgCase{Kind: "t", Line: fmt.Sprintf("ht sum %s nil", showT(t)), Out: fmt.Sprint(t.Sum(nil))}
		} else {
			l := rlist(r, 7, 4)
			c = AlgCase{Kind: "t", Line: fmt.Sprintf("ht sum %s %s", showT(t), showI(l)), Out: fmt.Sprint(t.Sum(append([]int{}, l...)))}
		}
	case 19:
		t := rtime(r)
		c = AlgCase{Kind: "t", Line: fmt.Sprintf("ht nonzero %s", showT(t)), Out: showI(t.NonZeroStates())}
	case 20:
		t, b := rtime(r), rtime(r)
		if r.Intn(2) == 0 {
			b = make(am.Time, len(t))
			for i := range b {
				b[i] = uint64(r.Intn(6))
			}
		}
		c = AlgCase{Kind: "t", Line: fmt.Sprintf("ht diffsince %s %s", showT(t), showT(b)), Out: showT(t.DiffSince(b))}
	case 21:
		t, b, st := rtime(r), rtime(r), r.Intn(2) == 0
		if r.Intn(2) == 0 {
			b = append(am.Time{}, t...)
			if len(b) > 0 && r.Intn(2) == 0 {
				b = b[:len(b)-1]
			}
		}
		c = AlgCase{Kind: "t", Line: fmt.Sprintf("ht equal %s %s %s", b01(st), showT(t), showT(b)), Out: b01(t.Equal(st, b))}
	case 22:
		t, b, oe := rtime(r), rtime(r), r.Intn(2) == 0
		c = AlgCase{Kind: "t", Line: fmt.Sprintf("ht after %s %s %s", b01(oe), showT(t), showT(b)), Out: b01(t.After(oe, b))}
	case 23:
		t, b, oe := rtime(r), rtime(r), r.Intn(2) == 0
		c = AlgCase{Kind: "t", Line: fmt.Sprintf("ht before %s %s %s", b01(oe), showT(t), showT(b)), Out: b01(t.Before(oe, b))}
	default:
		t, i := rtime(r), r.Intn(7)
		c = AlgCase{Kind: "t", Line: fmt.Sprintf("ht tick %s %d", showT(t), i), Out: fmt.Sprint(t.Tick(i))}
	}
	return
}

func setOf(l []int) map[int]bool {
	m := map[int]bool{}
	for _, v := range l {
		m[v] = true
	}
	return m
}

func hasDup(l []int) bool { return len(setOf(l)) != len(l) }

// AlgMonitor checks the set algebra directly on the real results; returns
// (message, finding id).
func AlgMonitor(c AlgCase) (string, string) {
	if c.Err != "" {
		return c.Err, ""
	}
	res := setOf(c.Res)
	flat := func() map[int]bool {
		m := map[int]bool{}
		for _, l := range c.Ls {
			for _, v := range l {
				m[v] = true
			}
		}
		return m
	}
	switch c.Kind {
	case "add", "sadd", "add1":
		want := map[int]bool{}
		for _, v := range c.A {
			want[v] = true
		}
		for _, v := range c.B {
			want[v] = true
		}
		for v := range flat() {
			want[v] = true
		}
		if c.Kind == "add" && len(c.Ls) == 0 {
			return "", "" // S.Add() with no arguments returns the receiver as is
		}
		if hasDup(c.Res) {
			return "S.Add result has duplicates", ""
		}
		if len(res) != len(want) {
			return "S.Add is not the union", ""
		}
		for v := range want {
			if !res[v] {
				return "S.Add is not the union", ""
			}
		}
	case "delete", "delete1":
		rm := flat()
		for _, v := range c.B {
			rm[v] = true
		}
		finding := ""
		if hasDup(c.A) {
			finding = "C20-delete-keeps-duplicates"
		}
		for _, v := range c.A {
			if !rm[v] && !res[v] {
				return "S.Delete dropped a state it was not asked to", ""
			}
		}
		for v := range res {
			if rm[v] {
				return fmt.Sprintf("S.Delete did not remove state %d", v), finding
			}
		}
	case "sub":
		b := setOf(c.B)
		for _, v := range c.A {
			if b[v] == res[v] {
				return "Sub is not set difference", ""
			}
		}
	case "shared":
		b := setOf(c.B)
		for _, v := range c.A {
			if b[v] != res[v] {
				return "Shared is not intersection", ""
			}
		}
	case "equal":
		a, b := setOf(c.A), setOf(c.B)
		eq := len(a) == len(b)
		for v := range a {
			if !b[v] {
				eq = false
			}
		}
		if eq != c.ResB {
			return "Equal is not set equality", ""
		}
	case "parse":
		seen := map[int]bool{}
		var want []int
		for _, v := range c.A {
			if v < 4 && !seen[v] {
				seen[v] = true
				want = append(want, v)
			}
		}
		if showI(want) != showI(c.Res) {
			return "ParseStates does not drop unknown names / duplicates in order", ""
		}
	}
	return "", ""
}
