package helpers

// Two callers wait for the same thing with different contexts (C20: "the wait ... helpers return
// according to what actually happened to the machine"): the first caller's context ends, a
// transition short of the condition runs - the second caller, whose context is alive (or nil), must
// still be waiting; when the condition is finally met it is woken.

import (
	"context"
	"fmt"
	"math/rand"
	"time"

	am "github.com/pancsta/asyncmachine-go/pkg/machine"
)

// TwoCtxScenario: one generated scenario.
func TwoCtxScenario(seed int64) (fails []string, line string) {
	r := rand.New(rand.NewSource(seed))
	kinds := []string{"WhenTime1", "WhenTicks", "WhenTime", "When1", "WhenNot1", "WhenArgs", "WhenQuery", "WhenNextActive", "When", "WhenArgsSubset"}
	kind := kinds[r.Intn(len(kinds))]
	secondNil := r.Intn(2) == 0
	line = fmt.Sprintf("twoctx seed=%d kind=%s second_nil=%v", seed, kind, secondNil)
	bg := context.Background()
	m := am.New(bg, am.Schema{"A": {Multi: true}, "B": {}, "C": {}}, &am.Opts{Id: fmt.Sprintf("twoctx%d", seed)})
	if err := m.VerifyStates(am.S{"A", "B", "C", am.StateException}); err != nil {
		return []string{"setup: " + err.Error()}, line
	}
	defer m.Dispose()
	for i, k := 0, r.Intn(3); i < k; i++ {
		m.Add1("A", nil)
	}
	if kind == "WhenNot1" {
		m.Add1("B", nil)
	}
	ctx1, cancel1 := context.WithCancel(bg)
	defer cancel1()
	var ctx2 context.Context
	if !secondNil {
		c, cancel2 := context.WithCancel(bg)
		defer cancel2()
		ctx2 = c
	}
	tA := m.Tick("A")
	sub := func(ctx context.Context) <-chan struct{} {
		switch kind {
		case "WhenTime1":
			return m.WhenTime1("A", tA+6, ctx)
		case "WhenTicks":
			return m.WhenTicks("A", 6, ctx)
		case "WhenTime":
			return m.WhenTime(am.S{"A", "B"}, am.Time{tA + 6, 1}, ctx)
		case "When1":
			return m.When1("B", ctx)
		case "When":
			return m.When(am.S{"B", "C"}, ctx)
		case "WhenNot1":
			return m.WhenNot1("B", ctx)
		case "WhenArgs":
			return m.WhenArgs("B", am.A{"k": 7}, ctx)
		case "WhenQuery":
			return m.WhenQuery(func(c am.Clock) bool { return c["B"] > 0 }, ctx)
		case "WhenNextActive":
			return m.WhenNextActive("B", ctx)
		}
		return nil
	}
	if kind == "WhenArgsSubset" {
		// two callers wait for B with arguments, the second asks for fewer of them: the mutation that
		// carries exactly those must wake the second caller (and only it)
		chMore := m.WhenArgs("B", am.A{"k": 7, "j": 1}, nil)
		chLess := m.WhenArgs("B", am.A{"k": 7}, nil)
		m.Add1("B", am.A{"k": 7})
		select {
		case <-chLess:
		case <-time.After(200 * time.Millisecond):
			fails = append(fails, "WhenArgs: a caller waiting for B with arguments {k:7} was not woken by Add1(B, {k:7}) because another caller had asked for {k:7, j:1} before (it was handed that caller's channel)")
		}
		select {
		case <-chMore:
			fails = append(fails, "WhenArgs: a caller waiting for B with arguments {k:7, j:1} was woken by Add1(B, {k:7})")
		default:
		}
		return fails, line
	}
	ch1 := sub(ctx1)
	ch2 := sub(ctx2)
	open := func(ch <-chan struct{}) bool {
		select {
		case <-ch:
			return false
		default:
			return true
		}
	}
	if !open(ch2) {
		return []string{kind + ": the second waiter's channel is closed before anything happened"}, line
	}
	// the first caller gives up; transitions short of the condition run
	cancel1()
	m.Add1("A", nil)
	m.Add1("C", nil)
	m.Remove1("C", nil)
	time.Sleep(time.Millisecond)
	if !open(ch2) {
		fails = append(fails, fmt.Sprintf("%s: two callers waited for the same condition with different contexts; the first one's context ended, a transition short of the condition ran, and the second caller (context %s) was woken although the condition was never met", kind,
			map[bool]string{true: "nil", false: "alive"}[secondNil]))
		return fails, line
	}
	_ = ch1
	// now the condition is met
	switch kind {
	case "WhenTime1", "WhenTicks":
		for i := 0; i < 4; i++ {
			m.Add1("A", nil)
		}
	case "WhenTime":
		for i := 0; i < 4; i++ {
			m.Add1("A", nil)
		}
		m.Add1("B", nil)
	case "When1", "WhenQuery", "WhenNextActive":
		m.Add1("B", nil)
	case "When":
		m.Add(am.S{"B", "C"}, nil)
	case "WhenNot1":
		m.Remove1("B", nil)
	case "WhenArgs":
		m.Add1("B", am.A{"k": 7})
	}
	select {
	case <-ch2:
	case <-time.After(300 * time.Millisecond):
		fails = append(fails, fmt.Sprintf("%s: the second of two callers waiting for the same condition (the first one's context had ended) was never woken when the condition was met", kind))
	}
	return fails, line
}

// msgHead: the part of a failure message that identifies what failed (up to the first semicolon or
// parenthesis).
func msgHead(f string) string {
	for i, c := range f {
		if c == ';' || c == '(' || c == '[' {
			return f[:i]
		}
	}
	return f
}
