package helpers

// "Values the getters document as copies (active states, schema, clock, time, tags, queue, tracers)
// are the caller's to modify: changing them never alters the machine."

import (
	"context"
	"fmt"
	"math/rand"
	"reflect"

	am "github.com/pancsta/asyncmachine-go/pkg/machine"
)

type blockH struct {
	in, gate chan struct{}
}

func (h *blockH) GState(e *am.Event) {
	close(h.in)
	<-h.gate
}

// CopyScenario scribbles over everything the getters hand out and compares what the machine
// reports afterwards with what it reported before.
func CopyScenario(seed int64) (fails []string, line string) {
	r := rand.New(rand.NewSource(seed))
	line = fmt.Sprintf("copies seed=%d", seed)
	ctx := context.Background()
	m := am.New(ctx, am.Schema{
		"A": {Multi: true, Add: am.S{"B"}}, "B": {Require: am.S{"A"}, After: am.S{"A"}}, "C": {Remove: am.S{"B", "D"}}, "D": {Tags: []string{"t1", "t2"}}, "G": {},
	}, &am.Opts{Id: fmt.Sprintf("copies%d", seed), Tags: []string{"x:1", "y"}})
	names := am.S{"A", "B", "C", "D", "G", am.StateException}
	if err := m.VerifyStates(names); err != nil {
		return []string{"setup: " + err.Error()}, line
	}
	m.BindTracer(&am.TracerNoOp{Id: "copies-tracer"})
	for i, k := 0, r.Intn(5); i < k; i++ {
		m.Add1(names[r.Intn(4)], nil)
	}
	// a busy machine with a non-empty queue
	h := &blockH{in: make(chan struct{}), gate: make(chan struct{})}
	m.BindHandlers(h)
	go m.Add1("G", nil)
	<-h.in
	m.Add1("C", nil)
	m.Remove1("A", nil)
	snap := func() string {
		q := m.Queue()
		qs := ""
		for _, mu := range q {
			if mu == nil {
				qs += "<nil>;"
				continue
			}
			qs += fmt.Sprintf("%v:%v;", mu.Type, mu.Called)
		}
		trs := ""
		for _, t := range m.Tracers() {
			if t == nil {
				trs += "<nil>;"
				continue
			}
			trs += t.TracerId() + ";"
		}
		return fmt.Sprintf("active=%v time=%v clock=%v schema=%v tags=%v queue=%s tracers=%s", m.ActiveStates(nil), m.Time(nil), m.Clock(nil), m.Schema(), m.Tags(), qs, trs)
	}
	before := snap()
	broken := false
	check := func(what string) {
		if broken {
			return
		}
		if after := snap(); after != before {
			fails = append(fails, fmt.Sprintf("modifying the value returned by %s changed the machine: before %s, after %s", what, before, after))
			// the machine now holds scribbled values: it is left parked (its handler never returns)
			broken = true
		}
	}
	if a := m.ActiveStates(nil); len(a) > 0 {
		a[0] = "Scribble"
		a = append(a[:0], "X", "Y")
		_ = a
	}
	check("ActiveStates(nil)")
	if a := m.ActiveStates(am.S{"A", "B", "G"}); !broken && len(a) > 0 {
		a[0] = "Scribble"
	}
	check("ActiveStates(states)")
	if t := m.Time(nil); !broken && len(t) > 0 {
		t[0] = 99
		t[len(t)-1] = 77
	}
	check("Time(nil)")
	if t := m.Time(am.S{"A", "B"}); !broken && len(t) > 0 {
		t[0] = 99
	}
	check("Time(states)")
	if !broken {
		c := m.Clock(nil)
		for k := range c {
			c[k] = 1234
		}
		c["New"] = 1
	}
	check("Clock(nil)")
	s := am.Schema{}
	if !broken {
		s = m.Schema()
	}
	for k, st := range s {
		if len(st.Remove) > 0 {
			st.Remove[0] = "Scribble"
		}
		if len(st.Require) > 0 {
			st.Require[0] = "Scribble"
		}
		if len(st.Add) > 0 {
			st.Add[0] = "Scribble"
		}
		if len(st.After) > 0 {
			st.After[0] = "Scribble"
		}
		if len(st.Tags) > 0 {
			st.Tags[0] = "Scribble"
		}
		st.Multi = !st.Multi
		s[k] = st
	}
	s["Extra"] = am.State{}
	check("Schema()")
	if tg := m.Tags(); !broken && len(tg) > 0 {
		tg[0] = "scribble"
	}
	check("Tags()")
	if q := m.Queue(); !broken && len(q) > 0 {
		q[0] = nil
		q = append(q[:0], nil)
		_ = q
	}
	check("Queue()")
	if tr := m.Tracers(); !broken && len(tr) > 0 {
		tr[0] = nil
	}
	check("Tracers()")
	// a list handed to a getter stays what it was (the shared StateNames() list included)
	if !broken {
		type argCall struct {
			what string
			f    func(l am.S)
		}
		calls := []argCall{
			{"ActiveStates(states)", func(l am.S) { m.ActiveStates(l) }},
			{"Time(states)", func(l am.S) { m.Time(l) }},
			{"Clock(states)", func(l am.S) { m.Clock(l) }},
			{"Is(states)", func(l am.S) { m.Is(l) }},
			{"Not(states)", func(l am.S) { m.Not(l) }},
			{"Any(states)", func(l am.S) { m.Any(l) }},
			{"Has(states)", func(l am.S) { m.Has(l) }},
			{"Index(states)", func(l am.S) { m.Index(l) }},
			{"ParseStates(states)", func(l am.S) { m.ParseStates(l) }},
			{"WillBe(states)", func(l am.S) { m.WillBe(l) }},
		}
		lists := []am.S{{"B", "A", "G", "D"}, {"D", "C", "B", "A", "G"}, append(make(am.S, 0, 8), "C", "G", "A")}
		for _, ac := range calls {
			for _, orig := range lists {
				arg := append(make(am.S, 0, cap(orig)), orig...)
				ac.f(arg)
				if !reflect.DeepEqual(arg, orig) {
					fails = append(fails, fmt.Sprintf("modifying its argument: %s rewrote the list it was given, %v became %v", ac.what, orig, arg))
					broken = true
					break
				}
			}
			if broken {
				break
			}
			// the machine's own shared list as the argument
			ac.f(m.StateNames())
			if !reflect.DeepEqual(m.StateNames(), names) {
				fails = append(fails, fmt.Sprintf("modifying its argument: %s called with StateNames() rewrote the machine's state names to %v", ac.what, m.StateNames()))
				broken = true
				break
			}
		}
		check("a getter called with a list")
	}
	if broken {
		return fails, line
	}
	close(h.gate)
	// the machine still works
	if !reflect.DeepEqual(m.StateNames(), names) {
		fails = append(fails, fmt.Sprintf("the state names changed: %v", m.StateNames()))
	}
	m.Dispose()
	return fails, line
}
