package helpers

// Wait helpers under contention (C20: "the wait and ask helpers return according to what actually
// happened to the machine", on a machine that is mid-queue): a handler keeps the machine busy while
// several goroutines queue mutations through AddSync / RemoveSync and wait on WhenQueue for the
// same and for later queue ticks; when the handler is released every waiter must be woken, every
// helper must return what happened, nothing may panic.

import (
	"context"
	"fmt"
	"math/rand"
	"sync"
	"time"

	amhelp "github.com/pancsta/asyncmachine-go/pkg/helpers"
	am "github.com/pancsta/asyncmachine-go/pkg/machine"
)

type WaiterFail struct {
	Msg  string
	Line string
}

type gateHandlers struct {
	entered chan struct{}
	gate    chan struct{}
	once    sync.Once
}

func (h *gateHandlers) GState(e *am.Event) {
	h.once.Do(func() { close(h.entered) })
	<-h.gate
}

// WaiterScenario: one generated scenario; the returned line replays it (seed).
func WaiterScenario(seed int64) (fails []WaiterFail, line string) {
	r := rand.New(rand.NewSource(seed))
	line = fmt.Sprintf("waiters seed=%d", seed)
	add := func(format string, a ...any) {
		fails = append(fails, WaiterFail{Msg: fmt.Sprintf(format, a...), Line: line})
	}
	names := am.S{"G", "B", "C", "D", "E", am.StateException}
	ctx, cancel := context.WithCancel(context.Background())
	defer cancel()
	m := am.New(ctx, am.Schema{"G": {}, "B": {}, "C": {}, "D": {}, "E": {}}, &am.Opts{Id: fmt.Sprintf("waiters%d", seed)})
	if err := m.VerifyStates(names); err != nil {
		add("setup: %v", err)
		return
	}
	defer m.Dispose()
	h := &gateHandlers{entered: make(chan struct{}), gate: make(chan struct{})}
	if _, err := m.BindHandlers(h); err != nil {
		add("setup: %v", err)
		return
	}
	var wg sync.WaitGroup
	guard := func(what string, f func()) {
		wg.Add(1)
		go func() {
			defer wg.Done()
			defer func() {
				if p := recover(); p != nil {
					add("%s panicked: %v", what, p)
				}
			}()
			f()
		}()
	}
	// the machine becomes busy inside G's State handler
	guard("Add1(G)", func() { m.Add1("G", nil) })
	select {
	case <-h.entered:
	case <-time.After(3 * time.Second):
		add("the handler of G never started")
		close(h.gate)
		return
	}
	// queued mutations (distinct states, so none is a duplicate), each with its queue tick
	type queued struct {
		state string
		res   am.Result
	}
	var qs []queued
	for _, s := range []string{"B", "C", "D", "E"}[:2+r.Intn(3)] {
		res := m.Add1(s, nil)
		if res <= am.Queued {
			add("Add1(%s) on a busy machine returned %s instead of a queue tick", s, res)
			continue
		}
		qs = append(qs, queued{s, res})
	}
	// several waiters per tick, the later ticks included
	type waiter struct {
		ch   <-chan struct{}
		what string
	}
	var ws []waiter
	for _, q := range qs {
		for k, n := 0, 1+r.Intn(3); k < n; k++ {
			ws = append(ws, waiter{m.WhenQueue(q.res), fmt.Sprintf("WhenQueue(%d) #%d (Add1 %s)", q.res, k, q.state)})
		}
	}
	r.Shuffle(len(ws), func(i, j int) { ws[i], ws[j] = ws[j], ws[i] })
	// helpers that queue and wait on their own
	type hres struct {
		what string
		ok   bool
		done bool
	}
	var hmu sync.Mutex
	var hrs []*hres
	for k, n := 0, 1+r.Intn(3); k < n; k++ {
		st := []string{"B", "C", "D", "E"}[r.Intn(4)]
		hr := &hres{what: "Add1Sync(" + st + ")"}
		hrs = append(hrs, hr)
		guard(hr.what, func() {
			hctx, hcancel := context.WithTimeout(ctx, 5*time.Second)
			defer hcancel()
			ok := amhelp.Add1Sync(hctx, m, st, nil)
			hmu.Lock()
			hr.ok, hr.done = ok, true
			hmu.Unlock()
			if !ok && hctx.Err() != nil {
				add("Add1Sync(%s) was still waiting 5s after the machine went idle", st)
			} else if !ok {
				add("Add1Sync(%s) returned false although nothing vetoes the activation", st)
			} else if !m.Is1(st) && false {
				// (another helper may remove it again: not judged)
			}
		})
	}
	time.Sleep(time.Duration(1+r.Intn(5)) * time.Millisecond)
	close(h.gate)
	// every waiter is woken once the queue has drained
	deadline := time.After(4 * time.Second)
	for _, w := range ws {
		select {
		case <-w.ch:
		case <-deadline:
			add("%s never closed although the queue was processed (queue tick now %d, queue length %d)", w.what, m.QueueTick(), m.QueueLen())
			deadline = time.After(10 * time.Millisecond)
		}
	}
	done := make(chan struct{})
	go func() { wg.Wait(); close(done) }()
	select {
	case <-done:
	case <-time.After(8 * time.Second):
		add("a caller never returned")
	}
	for _, q := range qs {
		if !m.Is1(q.state) {
			add("%s is not active although its queued Add1 was processed and nothing removes it", q.state)
		}
	}
	// a late subscriber: the queue has drained, every tick handed out above has been processed - the
	// last one included, with no mutation after it - so WhenQueue answers with a closed channel (this
	// is what AddSync and friends wait on when the machine was faster than the caller)
	if len(fails) == 0 && m.QueueLen() == 0 {
		for _, q := range qs {
			if uint64(q.res) > m.QueueTick() {
				continue
			}
			select {
			case <-m.WhenQueue(q.res):
			case <-time.After(300 * time.Millisecond):
				add("WhenQueue(%d) asked for after that mutation had been processed (queue tick %d, queue empty) returned a channel that stays open", q.res, m.QueueTick())
			}
		}
	}
	return
}
