package helpers

import (
	"encoding/json"
	"fmt"
	"math/rand"
	"os"
	"os/exec"
	"path/filepath"
	"sort"
	"strings"
	"time"

	"amverif/core"
)

func RunPipeline(seed int64, tier, driver, outDir string, search bool) *core.Result {
	t0 := time.Now()
	res := &core.Result{Prop: "C20", Seed: seed, Tier: tier, Tags: map[string]int{}, Ops: map[string]int{}, Results: map[string]int{}}
	r := rand.New(rand.NewSource(seed))
	n := 6000
	samples := 3
	if tier == "thorough" {
		n, samples = 100000, 12
	}
	// (a) algebra correspondence
	var cases []AlgCase
	var mc []core.Case
	for i := 0; i < n; i++ {
		c := GenAlg(r)
		cases = append(cases, c)
	}
	lines := make([]string, len(cases))
	for i, c := range cases {
		lines[i] = c.Line
	}
	mc = append(mc, core.Case{Lines: lines})
	var model [][]string
	if !search {
		var err error
		model, err = core.RunModel(driver, mc)
		if err != nil {
			res.Note = "model driver failed: " + err.Error()
			res.Disagreements = append(res.Disagreements, core.DisRec{Op: "driver", Model: err.Error()})
		}
	}
	seen := map[string]bool{}
	failSeen := map[string]bool{}
	os.MkdirAll(outDir, 0o755)
	for i, c := range cases {
		res.Evaluations++
		op := strings.Join(strings.Fields(c.Line)[:2], " ")
		res.Ops[op]++
		if !seen[c.Line] {
			seen[c.Line] = true
			res.DistinctNontrivial++
		}
		if len(res.Samples) < 3 {
			res.Samples = append(res.Samples, c.Line+" => "+c.Out)
		}
		if model != nil && model[0][i] != c.Out && len(res.Disagreements) < 8 {
			file := filepath.Join(outDir, fmt.Sprintf("C20-seed%d-disagree%d.txt", seed, len(res.Disagreements)))
			os.WriteFile(file, []byte(fmt.Sprintf("# helper algebra: model and implementation disagree\n%s\n# impl : %s\n# model: %s\n", c.Line, c.Out, model[0][i])), 0o644)
			res.Disagreements = append(res.Disagreements, core.DisRec{File: file, Line: i, Op: c.Line, Impl: c.Out, Model: model[0][i]})
		}
		if msg, finding := AlgMonitor(c); msg != "" {
			key := finding + "|" + msg
			if !failSeen[key] {
				failSeen[key] = true
				file := filepath.Join(outDir, fmt.Sprintf("C20-seed%d-fail%d.txt", seed, len(res.Failures)))
				os.WriteFile(file, []byte(fmt.Sprintf("# helper algebra monitor: %s\n%s\n# returned: %s\n", msg, c.Line, c.Out)), 0o644)
				res.Failures = append(res.Failures, core.FailRec{Prop: "C20", Finding: finding, Msg: msg + " [" + c.Line + "]", File: file})
			}
		}
	}
	res.Cases = 1
	// (b) reflective totality sweep, in child processes: library code that
	// panics in a goroutine of its own kills the process, which is itself a
	// finding attributed to the target being called
	sw, stats := sweepInChildren(seed, samples)
	res.Extra = map[string]any{"sweep": stats, "registry_functions": len(Registry)}
	var skipped []string
	nilWaits := map[string]int{}
	for _, s := range sw {
		if s.Kind == "skipped" {
			skipped = append(skipped, s.Target+" ("+s.Msg+")")
			continue
		}
		res.Evaluations++
		if s.NilCtx && s.Kind == "hang" {
			// a nil context is a context that never ends: a wait helper given one waits for as long
			// as its condition is not met - the same call is made with live contexts too, where a
			// wait that outlasts the context is reported
			nilWaits[s.Target]++
			continue
		}
		finding := "C20-" + s.Kind + ":" + s.Target
		if s.NilCtx && s.Kind != "ok" {
			finding = "C20-nilctx-" + s.Kind + ":" + s.Target
		}
		key := finding
		if failSeen[key] {
			continue
		}
		failSeen[key] = true
		file := filepath.Join(outDir, fmt.Sprintf("C20-seed%d-sweep-%s-%s.txt", seed, s.Kind, strings.ReplaceAll(s.Target, ".", "_")))
		os.WriteFile(file, []byte(fmt.Sprintf("# reflective sweep: %s %s in phase %s\n# args: %s\n# %s\n", s.Target, s.Kind, s.Phase, s.Args, s.Msg)), 0o644)
		res.Failures = append(res.Failures, core.FailRec{Prop: "C20", Finding: finding,
			Msg: fmt.Sprintf("%s %ss (phase %s, args %s): %s", s.Target, s.Kind, s.Phase, s.Args, s.Msg), File: file})
	}
	// (c) wait helpers under contention
	nw := 40
	if tier == "thorough" {
		nw = 600
	}
	if search {
		nw *= 3
	}
	wfails := 0
	for i := 0; i < nw; i++ {
		fs, line := WaiterScenario(seed*100003 + int64(i))
		res.Evaluations++
		for _, f := range fs {
			wfails++
			key := "waiters|" + strings.SplitN(f.Msg, "(", 2)[0]
			if failSeen[key] {
				continue
			}
			failSeen[key] = true
			file := filepath.Join(outDir, fmt.Sprintf("C20-seed%d-waiters%d.wcase", seed, len(res.Failures)))
			os.WriteFile(file, []byte(fmt.Sprintf("# wait helpers under contention: %s\n%s\n", f.Msg, line)), 0o644)
			res.Failures = append(res.Failures, core.FailRec{Prop: "C20", Msg: f.Msg + " [" + line + "]", File: file})
		}
	}
	res.Extra["waiter_scenarios"] = nw
	// (d) the getters' copies are the caller's to modify
	nc := 30
	if tier == "thorough" {
		nc = 400
	}
	for i := 0; i < nc; i++ {
		fs, line := CopyScenario(seed*100019 + int64(i))
		res.Evaluations++
		for _, f := range fs {
			key := "copies|" + strings.SplitN(f, " changed the machine", 2)[0]
			if failSeen[key] {
				continue
			}
			failSeen[key] = true
			file := filepath.Join(outDir, fmt.Sprintf("C20-seed%d-copies%d.ccase", seed, len(res.Failures)))
			os.WriteFile(file, []byte(fmt.Sprintf("# getter copies: %s\n%s\n", f, line)), 0o644)
			res.Failures = append(res.Failures, core.FailRec{Prop: "C20", Msg: f + " [" + line + "]", File: file})
		}
	}
	res.Extra["copy_scenarios"] = nc
	// (d') the index based views describe one machine, whatever order the states were verified in
	ni := 200
	if tier == "thorough" {
		ni = 5000
	}
	for i := 0; i < ni; i++ {
		fs, line := IndexViewScenario(seed*100057 + int64(i))
		res.Evaluations++
		for _, f := range fs {
			key := "indexviews|" + strings.SplitN(f, " after ", 2)[0]
			if failSeen[key] {
				continue
			}
			failSeen[key] = true
			file := filepath.Join(outDir, fmt.Sprintf("C20-seed%d-index%d.xcase", seed, len(res.Failures)))
			os.WriteFile(file, []byte(fmt.Sprintf("# index views: %s\n%s\n", f, line)), 0o644)
			res.Failures = append(res.Failures, core.FailRec{Prop: "C20", Msg: f + " [" + line + "]", File: file})
		}
	}
	res.Extra["index_view_scenarios"] = ni
	// (e') two callers, one condition, two contexts
	nt := 300
	if tier == "thorough" {
		nt = 6000
	}
	for i := 0; i < nt; i++ {
		fs, line := TwoCtxScenario(seed*100069 + int64(i))
		res.Evaluations++
		for _, f := range fs {
			key := "twoctx|" + msgHead(f)
			if failSeen[key] {
				continue
			}
			failSeen[key] = true
			file := filepath.Join(outDir, fmt.Sprintf("C20-seed%d-twoctx%d.ycase", seed, len(res.Failures)))
			os.WriteFile(file, []byte(fmt.Sprintf("# two contexts: %s\n%s\n", f, line)), 0o644)
			res.Failures = append(res.Failures, core.FailRec{Prop: "C20", Msg: f + " [" + line + "]", File: file})
		}
	}
	res.Extra["two_context_scenarios"] = nt
	// (e) what the wait helpers report
	nsem := 60
	if tier == "thorough" {
		nsem = 600
	}
	type semOut struct {
		fs   []string
		line string
	}
	semCh := make(chan semOut, nsem)
	semSem := make(chan struct{}, 16)
	for i := 0; i < nsem; i++ {
		semSem <- struct{}{}
		go func(i int) {
			defer func() { <-semSem }()
			fs, line := WaitSemScenario(seed*100043 + int64(i))
			semCh <- semOut{fs, line}
		}(i)
	}
	for i := 0; i < nsem; i++ {
		o := <-semCh
		res.Evaluations++
		for _, f := range o.fs {
			finding := ""
			fnName := strings.Fields(f)[0]
			if strings.HasPrefix(f, "nilctx-panic ") {
				fnName = strings.Fields(f)[1]
				finding = "C20-nilctx-panic:amhelp." + fnName
			}
			key := "waitsem|" + fnName + "|" + finding
			if failSeen[key] {
				continue
			}
			failSeen[key] = true
			file := filepath.Join(outDir, fmt.Sprintf("C20-seed%d-waitsem%d.scase", seed, len(res.Failures)))
			os.WriteFile(file, []byte(fmt.Sprintf("# wait helpers: %s\n%s\n", f, o.line)), 0o644)
			res.Failures = append(res.Failures, core.FailRec{Prop: "C20", Finding: finding, Msg: f + " [" + o.line + "]", File: file})
		}
	}
	res.Extra["wait_semantics_scenarios"] = nsem
	sort.Strings(skipped)
	res.Extra["skipped_targets"] = uniqStrings(skipped)
	res.Extra["waits_on_a_nil_context"] = nilWaits
	res.Evaluations += stats["ok"]
	res.WallS = time.Since(t0).Seconds()
	return res
}

func uniqStrings(l []string) []string {
	var out []string
	for i, s := range l {
		if i == 0 || s != l[i-1] {
			out = append(out, s)
		}
	}
	return out
}

// sweepInChildren runs `amverif sweepchild` and restarts it after a crash.
func sweepInChildren(seed int64, samples int) ([]SweepResult, map[string]int) {
	var all []SweepResult
	stats := map[string]int{}
	skip := []string{}
	deaths := map[string]int{}
	self, _ := os.Executable()
	for round := 0; round < 25; round++ {
		kept := len(all)
		cmd := exec.Command(self, "sweepchild", fmt.Sprint(seed), fmt.Sprint(samples), strings.Join(skip, ","))
		out, err := cmd.CombinedOutput()
		last := ""
		done := false
		for _, line := range strings.Split(string(out), "\n") {
			switch {
			case strings.HasPrefix(line, "@start "):
				last = strings.TrimPrefix(line, "@start ")
			case strings.HasPrefix(line, "@res "):
				var r SweepResult
				if json.Unmarshal([]byte(strings.TrimPrefix(line, "@res ")), &r) == nil {
					all = append(all, r)
				}
			case strings.HasPrefix(line, "@stats "):
				var st map[string]int
				if json.Unmarshal([]byte(strings.TrimPrefix(line, "@stats ")), &st) == nil {
					for k, v := range st {
						stats[k] += v
					}
				}
				done = true
			}
		}
		if done && err == nil {
			break
		}
		if last == "" {
			all = append(all, SweepResult{Target: "sweep", Kind: "panic", Msg: "sweep child failed to start: " + fmt.Sprint(err)})
			break
		}
		// the child died while calling `last`: a death that leaves no panic behind (a kill from
		// outside, a loaded machine) is judged only when it happens again on a second try - results
		// of the first try are dropped, the child starts over
		if !strings.Contains(string(out), "panic:") && !strings.Contains(string(out), "fatal error:") && deaths[last] == 0 {
			deaths[last]++
			all = all[:kept]
			continue
		}
		msg := string(out)
		if i := strings.Index(msg, "panic:"); i >= 0 {
			msg = msg[i:]
		}
		if len(msg) > 300 {
			msg = msg[:300]
		}
		all = append(all, SweepResult{Target: last, Phase: "?", Kind: "crash", Msg: "the process was killed (" + fmt.Sprint(err) + "): " + strings.ReplaceAll(msg, "\n", " | ")})
		stats["crash"]++
		skip = append(skip, last)
	}
	return all, stats
}

// SweepChild is the body of the child process.
func SweepChild(seed int64, samples int, skip string) {
	for _, s := range strings.Split(skip, ",") {
		if s != "" {
			SkipTargets[s] = true
		}
	}
	Progress = func(t string) { fmt.Println("@start " + t) }
	res, stats := Sweep(rand.New(rand.NewSource(seed)), samples)
	for _, r := range res {
		b, _ := json.Marshal(r)
		fmt.Println("@res " + string(b))
	}
	// results of already finished targets are only reported by a child that
	// survives; a crashed child's partial results are re-done by the next one
	b, _ := json.Marshal(stats)
	fmt.Println("@stats " + string(b))
}
