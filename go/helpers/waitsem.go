package helpers

// "The wait and ask helpers (AddSync/RemoveSync/WaitFor*/Ask*/Cant*) return according to what
// actually happened to the machine": WaitForAll / WaitForAny / WaitForErrAll / WaitForErrAny / Wait
// are called while exactly one thing happens first - the channels close, the context ends, the
// machine errs, or the timeout passes - well before anything else; the result must name that.

import (
	"context"
	"errors"
	"fmt"
	"math/rand"
	"time"

	amhelp "github.com/pancsta/asyncmachine-go/pkg/helpers"
	am "github.com/pancsta/asyncmachine-go/pkg/machine"
)

// WaitSemScenario: one generated scenario.
func WaitSemScenario(seed int64) (fails []string, line string) {
	r := rand.New(rand.NewSource(seed))
	fn := []string{"WaitForAll", "WaitForAny", "WaitForErrAll", "WaitForErrAny", "Wait"}[r.Intn(5)]
	winners := []string{"chans", "timeout", "ctx"}
	if fn == "WaitForErrAll" || fn == "WaitForErrAny" {
		winners = append(winners, "macherr", "macherr")
	}
	if fn == "Wait" {
		winners = []string{"timeout", "ctx"}
	}
	win := winners[r.Intn(len(winners))]
	nch := 1 + r.Intn(3)
	nilCtx := win != "ctx" && r.Intn(4) == 0
	line = fmt.Sprintf("waitsem seed=%d fn=%s first=%s chans=%d nilctx=%v", seed, fn, win, nch, nilCtx)
	bg := context.Background()
	m := am.New(bg, am.Schema{"A": {}}, &am.Opts{Id: fmt.Sprintf("waitsem%d", seed)})
	m.VerifyStates(am.S{"A", am.StateException})
	defer m.Dispose()
	ctx, cancel := context.WithCancel(bg)
	defer cancel()
	var chans []<-chan struct{}
	var raw []chan struct{}
	for i := 0; i < nch; i++ {
		c := make(chan struct{})
		raw = append(raw, c)
		chans = append(chans, c)
	}
	timeout := 400 * time.Millisecond
	if win == "timeout" {
		timeout = 30 * time.Millisecond
	}
	first := 10 * time.Millisecond
	go func() {
		time.Sleep(first)
		switch win {
		case "chans":
			if fn == "WaitForAny" || fn == "WaitForErrAny" {
				close(raw[r.Intn(nch)])
			} else {
				for _, c := range raw {
					close(c)
				}
			}
		case "ctx":
			cancel()
		case "macherr":
			m.AddErr(errors.New("waitsem-err"), nil)
		}
	}()
	var callCtx context.Context = ctx
	if nilCtx {
		callCtx = nil
	}
	type outT struct {
		err error
		ok  bool
		pan any
	}
	done := make(chan outT, 1)
	go func() {
		var o outT
		defer func() {
			if p := recover(); p != nil {
				o.pan = p
			}
			done <- o
		}()
		switch fn {
		case "WaitForAll":
			o.err = amhelp.WaitForAll(callCtx, timeout, chans...)
		case "WaitForAny":
			o.err = amhelp.WaitForAny(callCtx, timeout, chans...)
		case "WaitForErrAll":
			o.err = amhelp.WaitForErrAll(callCtx, timeout, m, chans...)
		case "WaitForErrAny":
			o.err = amhelp.WaitForErrAny(callCtx, timeout, m, chans...)
		case "Wait":
			o.ok = amhelp.Wait(callCtx, timeout)
		}
	}()
	var o outT
	select {
	case o = <-done:
	case <-time.After(3 * time.Second):
		return []string{fmt.Sprintf("%s never returned (first event: %s)", fn, win)}, line
	}
	if o.pan != nil {
		if nilCtx {
			return []string{fmt.Sprintf("nilctx-panic %s panicked with a nil context: %v", fn, o.pan)}, line
		}
		return []string{fmt.Sprintf("%s panicked: %v", fn, o.pan)}, line
	}
	got := "nil"
	switch {
	case fn == "Wait" && o.ok:
		got = "timeout" // the duration passed
	case fn == "Wait":
		got = "ctx"
	case o.err == nil:
		got = "chans"
	case errors.Is(o.err, am.ErrTimeout):
		got = "timeout"
	case errors.Is(o.err, context.Canceled):
		got = "ctx"
	default:
		got = "macherr"
	}
	if got != win {
		fails = append(fails, fmt.Sprintf("%s reported %q (%v) although what happened first was %q", fn, got, o.err, win))
	}
	return fails, line
}
