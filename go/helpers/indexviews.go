package helpers

// The index based views describe one machine (C20: the state-list and time types obey their
// algebra - Time.Is(Index(states)) is Is(states), Time(nil)[Index1(s)] is Tick(s), a TimeIndex over
// StateNames() names the active states) on machines in every lifecycle phase, including the ones
// the sequential model does not have: states verified in an order other than the sorted one, after
// the names had already been looked at; verified twice; grown by SetSchema.

import (
	"context"
	"fmt"
	"math/rand"
	"strings"

	am "github.com/pancsta/asyncmachine-go/pkg/machine"
)

// IndexViewScenario: one generated scenario.
func IndexViewScenario(seed int64) (fails []string, line string) {
	r := rand.New(rand.NewSource(seed))
	ctx, cancel := context.WithCancel(context.Background())
	defer cancel()
	base := am.S{"A", "B", "C", "D", "E"}[:3+r.Intn(3)]
	schema := am.Schema{}
	for _, n := range base {
		schema[n] = am.State{Multi: r.Intn(4) == 0}
	}
	m := am.New(ctx, schema, &am.Opts{Id: fmt.Sprintf("idx%d", seed)})
	defer m.Dispose()
	var hist []string
	// the fresh machine is looked at (or not) before its order is declared
	switch r.Intn(4) {
	case 0:
		m.StateNames()
		hist = append(hist, "StateNames")
	case 1:
		m.Index1(base[0])
		hist = append(hist, "Index1")
	case 2:
		m.Add1(base[r.Intn(len(base))], nil)
		hist = append(hist, "Add1")
	}
	perm := func() am.S {
		o := append(am.S{}, base...)
		r.Shuffle(len(o), func(i, j int) { o[i], o[j] = o[j], o[i] })
		return append(o, am.StateException)
	}
	order := perm()
	if err := m.VerifyStates(order); err != nil {
		return []string{"VerifyStates failed: " + err.Error()}, fmt.Sprintf("indexviews seed=%d", seed)
	}
	hist = append(hist, "VerifyStates("+strings.Join(order, ",")+")")
	check := func(after string) {
		names := m.StateNames()
		mt := m.Time(nil)
		if len(names) != len(mt) {
			fails = append(fails, fmt.Sprintf("index views disagree after %s: StateNames() has %d names, Time(nil) %d ticks", after, len(names), len(mt)))
			return
		}
		if !names.EqualOrder(order) {
			fails = append(fails, fmt.Sprintf("index views disagree after %s: StateNames() = %v, the verified order is %v", after, names, order))
			return
		}
		ti := mt.ToIndex(names)
		for _, s := range order {
			i := m.Index1(s)
			if i < 0 || i >= len(mt) {
				fails = append(fails, fmt.Sprintf("index views disagree after %s: Index1(%s) = %d", after, s, i))
				return
			}
			if mt[i] != m.Tick(s) {
				fails = append(fails, fmt.Sprintf("index views disagree after %s: Time(nil)[Index1(%s)=%d] = %d but Tick(%s) = %d", after, s, i, mt[i], s, m.Tick(s)))
				return
			}
			if mt.Is(m.Index(am.S{s})) != m.Is1(s) {
				fails = append(fails, fmt.Sprintf("index views disagree after %s: Time(nil).Is(Index(%s)) = %v but Is1(%s) = %v", after, s, !m.Is1(s), s, m.Is1(s)))
				return
			}
			if ti.Is1(s) != m.Is1(s) {
				fails = append(fails, fmt.Sprintf("index views disagree after %s: Time(nil).ToIndex(StateNames()).Is1(%s) = %v but Is1(%s) = %v", after, s, ti.Is1(s), s, m.Is1(s)))
				return
			}
		}
		if ex, _, err := m.Export(); err == nil && ex != nil {
			for i, s := range ex.StateNames {
				if i < len(ex.Time) && ex.Time[i] != m.Tick(s) {
					fails = append(fails, fmt.Sprintf("index views disagree after %s: Export() pairs %s with tick %d, Tick(%s) = %d", after, s, ex.Time[i], s, m.Tick(s)))
					return
				}
			}
		}
	}
	check(strings.Join(hist, " "))
	for i, k := 0, 3+r.Intn(8); i < k && len(fails) == 0; i++ {
		switch x := r.Intn(10); {
		case x < 5:
			s := order[r.Intn(len(order)-1)]
			m.Add1(s, nil)
			hist = append(hist, "+"+s)
		case x < 8:
			s := order[r.Intn(len(order)-1)]
			m.Remove1(s, nil)
			hist = append(hist, "-"+s)
		case x < 9:
			// the order is declared again, differently
			order = perm()
			if err := m.VerifyStates(order); err != nil {
				fails = append(fails, "VerifyStates failed: "+err.Error())
				break
			}
			hist = append(hist, "VerifyStates("+strings.Join(order, ",")+")")
		default:
			// the schema grows
			nn := fmt.Sprintf("X%d", i)
			ns := am.Schema{}
			for k, v := range m.Schema() {
				ns[k] = v
			}
			ns[nn] = am.State{}
			no := append(append(am.S{}, order[:len(order)-1]...), nn, am.StateException)
			if err := m.SetSchema(ns, no); err != nil {
				fails = append(fails, "SetSchema failed: "+err.Error())
				break
			}
			order = no
			base = append(base, nn)
			hist = append(hist, "SetSchema(+"+nn+")")
		}
		check(strings.Join(hist, " "))
	}
	return fails, fmt.Sprintf("indexviews seed=%d", seed)
}
