package rpcconv

// Per-mutation clock updates across reconnects (SyncMutations), without a network: the real
// sourceTracer / RemoteHello / calcUpdateMutations / clockUpdateMutations driven through the verif
// codec, one Multi state ticking. Every step is a step of the Lean model Am.RpcMuts (tick, push,
// hello); the source's tick, the server's last pushed tick, the mirror's tick and the number of
// recorded entries are compared after each.

import (
	"context"
	"fmt"
	"math/rand"

	am "github.com/pancsta/asyncmachine-go/pkg/machine"
	arpc "github.com/pancsta/asyncmachine-go/pkg/rpc"
)

// MutsScenario: one generated scenario as model lines and observations.
func MutsScenario(seed int64) (lines, obs []string, err error) {
	r := rand.New(rand.NewSource(seed))
	ctx, cancel := context.WithCancel(context.Background())
	defer cancel()
	src := am.New(ctx, am.Schema{"C": {Multi: true}}, &am.Opts{Id: fmt.Sprintf("muts%d", seed%1000000)})
	if e := src.VerifyStates(am.S{"C", am.StateException}); e != nil {
		return nil, nil, e
	}
	defer src.Dispose()
	v, e := arpc.NewVerifCodec(ctx, src, true, false, true, nil, nil)
	if e != nil {
		return nil, nil, e
	}
	show := func() string {
		t, _, _ := v.Mirror()
		sum, _ := arpc.VerifLastPush(v.S)
		_ = sum
		return fmt.Sprintf("src=%d mirror=%d", src.Tick("C"), t[0])
	}
	lines = append(lines, "muts init 1", "muts hello")
	obs = append(obs, "ok", show())
	for i, k := 0, 4+r.Intn(10); i < k; i++ {
		switch x := r.Intn(10); {
		case x < 5:
			before := src.Tick("C")
			src.Add1("C", nil)
			d := src.Tick("C") - before
			if d == 0 {
				continue
			}
			lines = append(lines, fmt.Sprintf("muts tick %d", d-1))
			obs = append(obs, show())
		case x < 8:
			if u := v.PushMuts(); u != nil {
				if !v.ApplyMuts(u) {
					return lines, obs, fmt.Errorf("the client rejected a per-mutation update after %v", lines)
				}
			}
			lines = append(lines, "muts push")
			obs = append(obs, show())
		default:
			if e := v.Rehello(); e != nil {
				return lines, obs, e
			}
			lines = append(lines, "muts hello")
			obs = append(obs, show())
		}
	}
	if u := v.PushMuts(); u != nil {
		if !v.ApplyMuts(u) {
			return lines, obs, fmt.Errorf("the client rejected the last per-mutation update after %v", lines)
		}
	}
	lines = append(lines, "muts push")
	obs = append(obs, show())
	return lines, obs, nil
}
