package rpcconv

import (
	"bytes"
	"encoding/json"
	"fmt"
	"math/rand"
	"os"
	"os/exec"
	"path/filepath"
	"strings"
	"sync"
	"time"

	"amverif/core"
)

func save(dir, name string, lines []string, header ...string) string {
	os.MkdirAll(dir, 0o755)
	p := filepath.Join(dir, name)
	var b strings.Builder
	for _, h := range header {
		b.WriteString("# " + h + "\n")
	}
	b.WriteString(strings.Join(lines, "\n") + "\n")
	os.WriteFile(p, []byte(b.String()), 0o644)
	return p
}

func LoadCase(path string) (Case, error) {
	b, err := os.ReadFile(path)
	if err != nil {
		return Case{}, err
	}
	return ParseCase(strings.Split(string(b), "\n"))
}

func field(s, k string) string {
	for _, f := range strings.Fields(s) {
		if strings.HasPrefix(f, k+"=") {
			return f[len(k)+1:]
		}
	}
	return ""
}

func execChild(c Case, outDir string, idx int) *Run {
	os.MkdirAll(outDir, 0o755)
	in := filepath.Join(outDir, fmt.Sprintf("convchild-%d-%d.in", os.Getpid(), idx))
	os.WriteFile(in, []byte(strings.Join(c.Lines(), "\n")+"\n"), 0o644)
	defer os.Remove(in)
	self, _ := os.Executable()
	cmd := exec.Command(self, "convchild", in)
	var out bytes.Buffer
	cmd.Stdout = &out
	cmd.Stderr = &out
	done := make(chan error, 1)
	if err := cmd.Start(); err != nil {
		return &Run{Err: err.Error()}
	}
	go func() { done <- cmd.Wait() }()
	select {
	case <-done:
	case <-time.After(60 * time.Second):
		cmd.Process.Kill()
		return &Run{Err: "scenario timed out"}
	}
	i := bytes.LastIndex(out.Bytes(), []byte("RESULT "))
	if i < 0 {
		o := out.String()
		if len(o) > 400 {
			o = o[:400]
		}
		return &Run{Err: "scenario process died: " + o}
	}
	var run Run
	if err := json.Unmarshal(out.Bytes()[i+7:], &run); err != nil {
		return &Run{Err: "bad child output: " + err.Error()}
	}
	return &run
}

// Child: run one scenario and print the result as JSON.
func Child(path string) {
	c, err := LoadCase(path)
	if err != nil {
		fmt.Println("RESULT {\"Err\":\"bad case\"}")
		return
	}
	run := Exec(c)
	b, _ := json.Marshal(run)
	fmt.Println("RESULT " + string(b))
}

func RunPipeline(seed int64, tier, driver, outDir string, n int, search bool, corpus []string, fixed []Case) *core.Result {
	t0 := time.Now()
	res := &core.Result{Prop: "C09", Seed: seed, Tier: tier, Tags: map[string]int{}, Ops: map[string]int{}, Results: map[string]int{}}
	var cases []Case
	for _, dir := range corpus {
		files, _ := filepath.Glob(filepath.Join(dir, "*.ccase"))
		for _, f := range files {
			if c, err := LoadCase(f); err == nil {
				c.Tag = "corpus"
				cases = append(cases, c)
			}
		}
	}
	res.CorpusCases = len(cases)
	cases = append(cases, fixed...)
	if len(fixed) == 0 {
		// an allowlist that is not a prefix of the source's states, every combination of shallow clocks
		// and schema
		for i, sh := range []bool{true, true, false, false} {
			cases = append(cases, Case{Seed: int64(30 + i), Tag: "tail-allowlist", Shallow: sh, NoSchema: i%2 == 0, Allowed: true, Tail: true,
				Ops: []string{"loc:add:c", "wait", "loc:add:d", "wait", "loc:rem:c", "wait", "loc:add:c", "loc:add:c", "wait"}})
		}
		// the connection drops again and again, each time after a reconnect that succeeded (more often
		// than the client's retry budget for one outage)
		cases = append(cases, Case{Seed: 34, Tag: "many-cuts", Ops: []string{"loc:add:a", "wait", "cut:+b", "wait", "cut:+c", "wait", "cut:-b", "wait", "cut:+c", "wait", "cut:+b", "wait", "cut:+c", "wait"}})
		// the window of the property: the reply to a client mutation is computed, the source moves on and
		// pushes, the push reaches the client first
		cases = append(cases, Case{Seed: 11, Tag: "window", Ops: []string{"hold", "cli:add:a", "loc:add:b", "wait", "release", "wait"}})
		cases = append(cases, Case{Seed: 12, Tag: "window", Shallow: true, Ops: []string{"hold", "cli:add:a", "loc:add:b", "wait", "release", "wait"}})
		cases = append(cases, Case{Seed: 13, Tag: "drift", Ops: []string{"loc:add:a", "wait", "drift", "loc:add:b", "wait"}})
		// a drifted copy and a mutation made through the network machine: visible when the call returns
		cases = append(cases, Case{Seed: 14, Tag: "drift-visible", Ops: []string{"loc:add:a", "wait", "drift", "cli:add:b", "cli:add:c", "cli:rem:a", "wait"}})
		// a source with a past (ticks above 1 at handshake time), shallow clocks
		cases = append(cases, Case{Seed: 15, Tag: "past", Shallow: true, Pre: []string{"add:a", "rem:a", "add:a", "add:b", "rem:b"}, Ops: []string{"cli:add:c", "wait", "loc:add:b", "wait"}})
		cases = append(cases, Case{Seed: 16, Tag: "past", Pre: []string{"add:a", "rem:a", "add:a", "add:b", "rem:b"}, Ops: []string{"cli:add:c", "wait", "loc:add:b", "wait"}})
		cases = append(cases, Case{Seed: 20, Tag: "past-slowpush", Shallow: true, SlowPush: true, Pre: []string{"add:a", "rem:a", "add:a", "add:b", "rem:b"}, Ops: []string{"cli:add:c", "wait"}})
		cases = append(cases, Case{Seed: 21, Tag: "past-slowpush", SlowPush: true, Pre: []string{"add:a", "rem:a", "add:a", "add:b", "rem:b"}, Ops: []string{"loc:add:b", "cli:add:c", "wait"}})
		// one transition swaps an active state for another (D removes A): the number of active states
		// stays, the activity does not
		cases = append(cases, Case{Seed: 22, Tag: "swap", Shallow: true, Ops: []string{"loc:add:a", "wait", "loc:add:d", "wait"}})
		cases = append(cases, Case{Seed: 23, Tag: "swap", Ops: []string{"loc:add:a", "wait", "loc:add:d", "wait"}})
		cases = append(cases, Case{Seed: 24, Tag: "cut", Ops: []string{"loc:add:a", "wait", "cut:+b:+c", "wait", "loc:add:d", "wait", "cli:add:b", "wait"}})
		cases = append(cases, Case{Seed: 25, Tag: "cut", Shallow: true, Ops: []string{"loc:add:a", "cli:add:c", "wait", "cut:-a:+d", "loc:add:b", "wait", "cut", "cli:rem:c", "wait"}})
		cases = append(cases, Case{Seed: 17, Tag: "config", Allowed: true, Ops: []string{"loc:add:d", "loc:add:a", "wait", "cli:add:b", "loc:rem:d", "wait"}})
		cases = append(cases, Case{Seed: 18, Tag: "config", Skipped: true, Ops: []string{"loc:add:d", "loc:add:b", "wait", "cli:add:c", "loc:rem:d", "wait"}})
		cases = append(cases, Case{Seed: 19, Tag: "config", NoSchema: true, Ops: []string{"loc:add:a", "cli:add:b", "wait", "cli:rem:a", "loc:add:c", "wait"}})
	}
	r := rand.New(rand.NewSource(seed))
	for i := 0; i < n; i++ {
		cases = append(cases, GenCase(r))
	}
	runs := make([]*Run, len(cases))
	var wg sync.WaitGroup
	ch := make(chan int)
	for w := 0; w < 8; w++ {
		wg.Add(1)
		go func() {
			defer wg.Done()
			for i := range ch {
				runs[i] = execChild(cases[i], outDir, i)
				if runs[i].Err != "" {
					runs[i] = execChild(cases[i], outDir, i)
				}
			}
		}()
	}
	for i := range cases {
		ch <- i
	}
	close(ch)
	wg.Wait()
	var mcases []core.Case
	for _, run := range runs {
		mcases = append(mcases, core.Case{Lines: run.Lines})
	}
	var model [][]string
	if !search {
		var err error
		model, err = core.RunModel(driver, mcases)
		if err != nil {
			res.Note = "model driver failed: " + err.Error()
			res.Disagreements = append(res.Disagreements, core.DisRec{Op: "driver", Model: err.Error()})
			res.WallS = time.Since(t0).Seconds()
			return res
		}
	}
	failSeen := map[string]bool{}
	pushes, replies, syncs, reorders, drops, climuts, cuts, windows, qchecks, lost, rewr := 0, 0, 0, 0, 0, 0, 0, 0, 0, 0, 0
	for i, run := range runs {
		c := cases[i]
		res.Cases++
		res.Tags[c.Tag]++
		res.Evaluations += len(run.Lines)
		pushes += run.Pushes
		replies += run.Replies
		syncs += run.Syncs
		drops += run.SyncDrops
		windows += run.SyncWindows
		lost += run.LostInFlight
		rewr += run.CalledRewritten
		qchecks += run.QuiescentChecks
		climuts += run.CliMuts
		cuts += run.Cuts
		reorders += run.Reorders
		if run.Pushes+run.Replies > 1 {
			res.DistinctNontrivial++
		}
		if len(res.Samples) < 2 && run.Reorders > 0 {
			res.Samples = append(res.Samples, strings.Join(c.Lines(), "\n"))
		}
		if run.Err != "" {
			res.Note += "impl error: " + run.Err + "; "
			continue
		}
		if !search {
			for j := range run.Obs {
				if run.Obs[j] == "-" || run.Obs[j] == "ok" || run.Obs[j] == "mirror=-1" {
					continue // nothing to compare / the client's copy is corrupted (drift injected)
				}
				mo := ""
				if j < len(model[i]) {
					mo = model[i][j]
				}
				if field(mo, "mirror") != field(run.Obs[j], "mirror") {
					if len(res.Disagreements) < 5 {
						hdr := []string{fmt.Sprintf("rpc mirror correspondence disagrees at step %d: %s", j, run.Lines[j]), "impl : " + run.Obs[j], "model: " + mo}
						for k := 0; k <= j && k < len(run.Lines); k++ {
							mm := ""
							if k < len(model[i]) {
								mm = model[i][k]
							}
							hdr = append(hdr, fmt.Sprintf("  [%d] %s => %s || %s", k, run.Lines[k], run.Obs[k], mm))
						}
						file := save(outDir, fmt.Sprintf("C09-seed%d-disagree%d.ccase", seed, len(res.Disagreements)), c.Lines(), hdr...)
						res.Disagreements = append(res.Disagreements, core.DisRec{File: file, Line: j, Op: run.Lines[j], Impl: run.Obs[j], Model: mo})
					} else {
						res.Disagreements = append(res.Disagreements, core.DisRec{Line: j, Op: run.Lines[j]})
					}
					break
				}
			}
		}
		for _, msg := range run.Failures {
			k := strings.SplitN(msg, ",", 2)[0]
			if len(k) > 60 {
				k = k[:60]
			}
			if failSeen[k] {
				continue
			}
			failSeen[k] = true
			file := save(outDir, fmt.Sprintf("C09-seed%d-fail%d.ccase", seed, len(res.Failures)), c.Lines(), "monitor C09 failed on the real rpc pair: "+msg)
			res.Failures = append(res.Failures, core.FailRec{Prop: "C09", Msg: msg, File: file})
		}
	}
	// per-mutation updates over reconnects, without a network: every step replayed in Am.RpcMuts
	nmuts, mutLines := 40, 0
	if tier == "thorough" {
		nmuts = 1500
	}
	if !search {
		var mc []core.Case
		var mobs [][]string
		for i := 0; i < nmuts; i++ {
			ls, ob, err := MutsScenario(seed*100151 + int64(i))
			if err != nil {
				file := filepath.Join(outDir, fmt.Sprintf("C09-seed%d-muts%d.txt", seed, i))
				os.WriteFile(file, []byte("# per-mutation updates over reconnects: "+err.Error()+"\n"+strings.Join(ls, "\n")+"\n"), 0o644)
				res.Failures = append(res.Failures, core.FailRec{Prop: "C09", Msg: "per-mutation updates over reconnects: " + err.Error(), File: file})
				break
			}
			mc = append(mc, core.Case{Lines: ls})
			mobs = append(mobs, ob)
		}
		if len(mc) > 0 {
			model, err := core.RunModel(driver, mc)
			if err != nil {
				res.Disagreements = append(res.Disagreements, core.DisRec{Op: "driver", Model: err.Error()})
			} else {
			outer:
				for i := range mc {
					for j := range mc[i].Lines {
						mutLines++
						if model[i][j] != mobs[i][j] {
							file := filepath.Join(outDir, fmt.Sprintf("C09-seed%d-mutsdisagree.txt", seed))
							os.WriteFile(file, []byte("# per-mutation updates over reconnects: the real codec and the Lean model Am.RpcMuts disagree at `"+mc[i].Lines[j]+"`\n# impl : "+mobs[i][j]+"\n# model: "+model[i][j]+"\n"+strings.Join(mc[i].Lines[:j+1], "\n")+"\n"), 0o644)
							res.Disagreements = append(res.Disagreements, core.DisRec{File: file, Line: j, Op: mc[i].Lines[j], Impl: mobs[i][j], Model: model[i][j]})
							break outer
						}
					}
				}
			}
		}
	}
	res.Evaluations += mutLines
	res.Extra = map[string]any{"per_mutation_reconnect_lines_compared": mutLines, "pushes": pushes, "replies": replies, "full_syncs": syncs, "sync_answers_dropped": drops, "client_mutations_judged": climuts, "connection_cuts": cuts, "out_of_order_deliveries": reorders, "sync_answer_windows": windows, "quiescent_moments_judged": qchecks, "replies_lost_with_a_dropped_connection": lost, "observation_scenarios_where_the_rpc_tracer_rewrote_mutation_called": rewr}
	res.WallS = time.Since(t0).Seconds()
	return res
}
