// Package rpcconv drives a real pkg/rpc Server and Client over loopback: the
// source machine is mutated locally and through the network machine, the reply
// to a client-issued mutation can be held back (verif schedule point, after the
// export lock has been released) until a later push has been written, the
// client's mirror can be drifted, and the connection can be cut. Production and
// delivery events are observed through the verif points and replayed in the Lean
// model Am.Conv; at quiescence the mirror must equal the source.
package rpcconv

import (
	"context"
	"fmt"
	"math/rand"
	"net"
	"runtime"
	"slices"
	"strings"
	"sync"
	"time"

	am "github.com/pancsta/asyncmachine-go/pkg/machine"
	arpc "github.com/pancsta/asyncmachine-go/pkg/rpc"
	ssrpc "github.com/pancsta/asyncmachine-go/pkg/rpc/states"
)

var ssC = ssrpc.ClientStates
var ssS = ssrpc.ServerStates

type Case struct {
	Shallow  bool
	NoSchema bool
	Allowed  bool     // AllowedStates A,B,C (D and Exception are not synchronised)
	Skipped  bool     // SkippedStates D
	SyncMut  bool     // SyncMutations (per-mutation clock updates)
	Tail     bool     // with Allowed: the allowlist is {D, C} (not a prefix of the source's states)
	SlowPush bool     // push interval far beyond the scenario: only mutation replies carry diffs
	Pre      []string // add:<s> / rem:<s> applied to the source before the client connects
	Ops      []string // loc:<add|rem>:<s> cli:<add|rem>:<s> hold (park the next reply) release wait drift
	Seed     int64
	Tag      string
}

func b2i(b bool) int {
	if b {
		return 1
	}
	return 0
}

// messageLevel: the scenario is compared with the Lean model step by step (deep clocks over the
// whole state list); the other configurations are judged by the monitors.
func (c Case) messageLevel() bool {
	return !c.Shallow && !c.NoSchema && !c.Allowed && !c.Skipped && !c.SyncMut
}

func (c Case) Lines() []string {
	l := []string{fmt.Sprintf("conv-case shallow=%d seed=%d noschema=%d allowed=%d skipped=%d syncmut=%d slowpush=%d",
		b2i(c.Shallow), c.Seed, b2i(c.NoSchema), b2i(c.Allowed)+b2i(c.Allowed && c.Tail), b2i(c.Skipped), b2i(c.SyncMut), b2i(c.SlowPush))}
	if len(c.Pre) > 0 {
		l = append(l, "pre "+strings.Join(c.Pre, " "))
	}
	return append(l, "ops "+strings.Join(c.Ops, " "))
}

func ParseCase(lines []string) (Case, error) {
	var c Case
	for _, l := range lines {
		l = strings.TrimSpace(l)
		if l == "" || strings.HasPrefix(l, "#") {
			continue
		}
		t := strings.Fields(l)
		switch t[0] {
		case "conv-case":
			for _, f := range t[1:] {
				kv := strings.SplitN(f, "=", 2)
				if len(kv) != 2 {
					continue
				}
				switch kv[0] {
				case "seed":
					fmt.Sscan(kv[1], &c.Seed)
				case "shallow":
					c.Shallow = kv[1] == "1"
				case "noschema":
					c.NoSchema = kv[1] == "1"
				case "allowed":
					c.Allowed = kv[1] == "1" || kv[1] == "2"
					c.Tail = kv[1] == "2"
				case "skipped":
					c.Skipped = kv[1] == "1"
				case "syncmut":
					c.SyncMut = kv[1] == "1"
				case "slowpush":
					c.SlowPush = kv[1] == "1"
				}
			}
		case "pre":
			c.Pre = t[1:]
		case "ops":
			c.Ops = t[1:]
		}
	}
	if len(c.Ops) == 0 {
		return c, fmt.Errorf("incomplete conv case")
	}
	return c, nil
}

type Run struct {
	Lines           []string
	Obs             []string
	Failures        []string
	Err             string
	Pushes          int
	Replies         int
	Syncs           int
	CliMuts         int
	Cuts            int
	SyncDrops       int
	SyncWindows     int
	LostInFlight    int
	CalledRewritten int
	QuiescentChecks int
	Reorders        int
}

type msgRec struct {
	kind  string
	held  bool
	empty bool // a reply that carries no change: not a message of the model
}

type harness struct {
	mu        sync.Mutex
	run       *Run
	src       *am.Machine
	srv       *arpc.Server
	cli       *arpc.Client
	snaps     []string // distinct source snapshots in order (time vector + queue tick)
	inflight  []msgRec
	holdNext  bool
	held      chan struct{}
	heldSet   bool
	parked    chan struct{}
	quiet     bool
	lastCliEv time.Time
	// full syncs asked for (a diff was rejected) and not yet applied
	pendingSync int
	// the snapshot the server last produced a diff for
	lastProduced string
	shallow      bool // no message-level comparison (see Case.messageLevel)
	txCount      int  // transitions the source has finished
	down         bool // the connection is cut: hook events are ignored, changes still recorded
	txAccepted   bool // the last of them was accepted
	syncOut      bool // a full sync has been executed by the server and not applied by the client yet
	calledSeen   map[string][]int
	calledNote   string
	// the next full sync is parked on the server after its answer has been computed
	holdSyncNext bool
	heldSync     chan struct{}
	syncParked   chan struct{}
}

type srcTracer struct {
	*am.TracerNoOp
	h *harness
}

// bound before the rpc server's own tracer: the change is recorded before the push it causes
// afterTracer is bound after the rpc server's tracer: what a later tracer (a history, the debugger)
// is shown of the same transition.
type afterTracer struct {
	*am.TracerNoOp
	h *harness
}

func (t *afterTracer) TransitionEnd(tx *am.Transition) {
	h := t.h
	h.mu.Lock()
	defer h.mu.Unlock()
	want, ok := h.calledSeen[tx.Id]
	if !ok || tx.Mutation == nil {
		return
	}
	delete(h.calledSeen, tx.Id)
	if fmt.Sprint(want) != fmt.Sprint(tx.Mutation.Called) && h.calledNote == "" {
		h.calledNote = fmt.Sprintf("the transition's Mutation.Called was %v when the first tracer saw it and %v for a tracer bound after the rpc server's (another tracer rewrote the machine's mutation)", want, tx.Mutation.Called)
	}
}

func (t *srcTracer) TransitionEnd(tx *am.Transition) {
	h := t.h
	h.mu.Lock()
	if tx.Mutation != nil {
		if h.calledSeen == nil {
			h.calledSeen = map[string][]int{}
		}
		h.calledSeen[tx.Id] = slices.Clone(tx.Mutation.Called)
	}
	h.txCount++
	h.txAccepted = tx.IsAccepted.Load()
	h.mu.Unlock()
	if snapKey(tx.TimeBefore) == snapKey(tx.TimeAfter) {
		return
	}
	h.mu.Lock()
	if !h.quiet {
		k := snapKey(tx.TimeAfter)
		h.snaps = append(h.snaps, k)
		h.run.Lines = append(h.run.Lines, "conv change")
		h.run.Obs = append(h.run.Obs, "-")
	}
	h.mu.Unlock()
}

var registry sync.Map // *arpc.Server / *arpc.Client -> *harness
var hookOnce sync.Once

func snapKey(t am.Time) string {
	s := make([]string, len(t))
	for i, v := range t {
		s[i] = fmt.Sprint(v)
	}
	return strings.Join(s, ",")
}

func hook(who any, id string) {
	v, ok := registry.Load(who)
	if !ok {
		return
	}
	v.(*harness).point(id)
}

func callerKind() string {
	buf := make([]byte, 16384)
	n := runtime.Stack(buf, false)
	s := string(buf[:n])
	if strings.Contains(s, "RemoteUpdate") {
		return "push"
	}
	return "reply"
}

// srcIndex: the index of the source's current snapshot in the model's numbering.
func (h *harness) srcIndexLocked() int {
	k := snapKey(h.src.Time(nil))
	for i, s := range h.snaps {
		if s == k {
			return i
		}
	}
	return -1
}

func (h *harness) mirrorIndexLocked() int {
	k := snapKey(h.cli.NetMach.Time(nil))
	for i, s := range h.snaps {
		if s == k {
			return i
		}
	}
	return -1
}

func (h *harness) emit(line string) {
	h.run.Lines = append(h.run.Lines, line)
	if h.shallow {
		// shallow clocks carry activity only: a mirror value does not identify a snapshot; the
		// message-level correspondence is made for deep clocks, the monitors for both
		h.run.Obs = append(h.run.Obs, "-")
		return
	}
	h.run.Obs = append(h.run.Obs, fmt.Sprintf("mirror=%d", h.mirrorIndexLocked()))
}

func (h *harness) point(id string) {
	h.mu.Lock()
	down := h.down
	h.mu.Unlock()
	if down {
		// the connection is being re-established: the handshake is not a message of the model
		return
	}
	switch id {
	case "srv:push":
		h.mu.Lock()
		if h.quiet {
			h.mu.Unlock()
			return
		}
		h.run.Pushes++
		h.lastProduced = snapKey(h.src.Time(nil))
		h.inflight = append(h.inflight, msgRec{kind: "push"})
		// lastPush moves after the Notify: the observation of this step is taken at delivery time
		h.run.Lines = append(h.run.Lines, "conv produce push")
		h.run.Obs = append(h.run.Obs, "-")
		h.mu.Unlock()
	case "srv:reply":
		h.mu.Lock()
		if h.quiet {
			h.mu.Unlock()
			return
		}
		h.run.Replies++
		hold := h.holdNext
		h.holdNext = false
		cur := snapKey(h.src.Time(nil))
		empty := cur == h.lastProduced
		h.lastProduced = cur
		h.inflight = append(h.inflight, msgRec{kind: "reply", held: hold, empty: empty})
		h.run.Lines = append(h.run.Lines, "conv produce reply")
		h.run.Obs = append(h.run.Obs, "-")
		var ch chan struct{}
		if hold {
			h.held = make(chan struct{})
			h.heldSet = true
			ch = h.held
			select {
			case h.parked <- struct{}{}:
			default:
			}
		}
		h.mu.Unlock()
		if ch != nil {
			<-ch
		}
	case "cli:applied", "cli:mismatch":
		kind := callerKind()
		h.mu.Lock()
		if h.quiet {
			h.mu.Unlock()
			return
		}
		idx := -1
		for i, m := range h.inflight {
			if m.kind == kind {
				idx = i
				break
			}
		}
		if idx < 0 {
			// eg the diffs inside the hello / a sync-less path: not a protocol message of this model
			h.mu.Unlock()
			return
		}
		wasEmpty := h.inflight[idx].empty
		midx := 0 // the message's index among the model's in-flight messages
		for _, m := range h.inflight[:idx] {
			if !m.empty {
				midx++
			}
		}
		if midx > 0 {
			h.run.Reorders++
		}
		h.inflight = append(h.inflight[:idx], h.inflight[idx+1:]...)
		if wasEmpty {
			if id == "cli:mismatch" {
				h.pendingSync++
				h.emit("conv drift") // an empty diff that does not apply: the copy is off
				h.run.Lines[len(h.run.Lines)-1] = "conv needsync"
			}
			h.lastCliEv = time.Now()
			h.mu.Unlock()
			return
		}
		idx = midx
		if id == "cli:applied" {
			h.emit(fmt.Sprintf("conv deliver %d", idx))
		} else {
			// rejected: the mirror stays, a full sync should follow
			h.pendingSync++
			h.emit(fmt.Sprintf("conv delsync %d", idx))
		}
		h.lastCliEv = time.Now()
		h.mu.Unlock()
	case "srv:sync":
		h.mu.Lock()
		var ch chan struct{}
		if !h.quiet {
			h.syncOut = true
			// the answer carries the source's snapshot of this moment
			h.run.Lines = append(h.run.Lines, "conv syncexec")
			h.run.Obs = append(h.run.Obs, "-")
			if h.holdSyncNext {
				h.holdSyncNext = false
				h.heldSync = make(chan struct{})
				ch = h.heldSync
				select {
				case h.syncParked <- struct{}{}:
				default:
				}
			}
		}
		h.mu.Unlock()
		if ch != nil {
			select {
			case <-ch:
			case <-time.After(4 * time.Second):
			}
		}
	case "cli:synced":
		h.mu.Lock()
		if h.quiet {
			h.mu.Unlock()
			return
		}
		h.run.Syncs++
		if h.pendingSync > 0 {
			h.pendingSync = 0
		}
		h.syncOut = false
		h.emit("conv syncapply")
		h.lastCliEv = time.Now()
		h.mu.Unlock()
	case "cli:syncdropped":
		// a clock update overtook the answer: dropped, the client asks again
		h.mu.Lock()
		if h.quiet {
			h.mu.Unlock()
			return
		}
		h.run.SyncDrops++
		h.syncOut = false
		h.emit("conv syncdrop")
		h.lastCliEv = time.Now()
		h.mu.Unlock()
	}
}

var names = am.S{"A", "B", "C", "D", am.StateException}

// Exec runs one scenario over a real server / client pair.
func Exec(c Case) *Run {
	hookOnce.Do(func() { arpc.VerifPoint = hook })
	run := &Run{}
	ctx, cancel := context.WithCancel(context.Background())
	defer cancel()
	src := am.New(ctx, am.Schema{"A": {}, "B": {}, "C": {Multi: true}, "D": {Remove: am.S{"A"}}}, &am.Opts{Id: fmt.Sprintf("src%d", c.Seed%1000000)})
	if err := src.VerifyStates(names); err != nil {
		run.Err = err.Error()
		return run
	}
	st := func(s string) string {
		if len(s) > 0 {
			return strings.ToUpper(s[:1])
		}
		return "A"
	}
	// the source has a history before anybody connects
	for _, op := range c.Pre {
		p := strings.Split(op, ":")
		if len(p) < 2 {
			continue
		}
		if p[0] == "add" {
			src.Add1(st(p[1]), nil)
		} else {
			src.Remove1(st(p[1]), nil)
		}
	}
	// the states the client synchronises
	tracked := append(am.S{}, names...)
	copts := &arpc.ClientOpts{SyncShallowClocks: c.Shallow, NoSchema: c.NoSchema, SyncMutations: c.SyncMut}
	if c.Allowed {
		// not in schema order: the index space of the diffs is the one agreed in the handshake
		copts.AllowedStates = am.S{"C", "A", "B"}
		tracked = am.S{"A", "B", "C"}
		if c.Tail {
			copts.AllowedStates = am.S{"D", "C"}
			tracked = am.S{"C", "D"}
		}
	}
	if c.Skipped {
		copts.SkippedStates = am.S{"D"}
		tracked = slices.DeleteFunc(tracked, func(n string) bool { return n == "D" })
	}
	h := &harness{run: run, src: src, parked: make(chan struct{}, 1), syncParked: make(chan struct{}, 1), quiet: true, shallow: !c.messageLevel()}
	src.BindTracer(&srcTracer{TracerNoOp: &am.TracerNoOp{Id: "verif-src"}, h: h})
	l, err := net.Listen("tcp4", "127.0.0.1:0")
	if err != nil {
		run.Err = err.Error()
		return run
	}
	addr := l.Addr().String()
	srv, err := arpc.NewServer(ctx, addr, fmt.Sprintf("s%d", c.Seed%1000000), src, &arpc.ServerOpts{Parent: src})
	if err != nil {
		run.Err = err.Error()
		return run
	}
	tl := &trackListener{Listener: l}
	var wl net.Listener = tl
	srv.Listener.Store(&wl)
	iv := 3 * time.Millisecond
	if c.SlowPush {
		iv = 10 * time.Minute
	}
	srv.PushInterval.Store(&iv)
	cli, err := arpc.NewClient(ctx, addr, fmt.Sprintf("c%d", c.Seed%1000000), src.Schema(), copts)
	if err != nil {
		run.Err = err.Error()
		return run
	}
	h.srv, h.cli = srv, cli // the handshake is not part of the message-level model (quiet)
	registry.Store(srv, h)
	registry.Store(cli, h)
	defer registry.Delete(srv)
	defer registry.Delete(cli)
	srv.Start(nil)
	src.BindTracer(&afterTracer{TracerNoOp: &am.TracerNoOp{Id: "verif-after"}, h: h})
	// a small budget of reconnect attempts per outage (the default is 50): it is a budget per outage,
	// an established connection may drop any number of times
	cli.ConnRetries = 4
	cli.ConnRetryDelay = 20 * time.Millisecond
	cli.ConnRetryBackoff = 0
	cli.Start(nil)
	select {
	case <-cli.Mach.When1(ssC.Ready, nil):
	case <-time.After(5 * time.Second):
		run.Err = "client never became Ready"
		return run
	}
	select {
	case <-srv.Mach.When1(ssS.Ready, nil):
	case <-time.After(5 * time.Second):
		run.Err = "server never became Ready: " + srv.Mach.String() + " client: " + cli.Mach.String()
		return run
	}
	nm := cli.NetMach
	h.mu.Lock()
	h.snaps = []string{snapKey(src.Time(nil))}
	h.lastProduced = h.snaps[0]
	h.quiet = false
	h.mu.Unlock()
	run.Lines = append(run.Lines, "conv init all")
	run.Obs = append(run.Obs, "ok")
	settle := func() bool {
		// nothing in flight (as far as the harness knows) and the client has been idle for a while
		dl := time.Now().Add(3 * time.Second)
		for time.Now().Before(dl) {
			h.mu.Lock()
			n := 0
			for _, m := range h.inflight {
				if !m.held {
					n++
				}
			}
			idle := time.Since(h.lastCliEv) > 25*time.Millisecond
			ps := h.pendingSync
			h.mu.Unlock()
			if n == 0 && idle && (ps == 0 || time.Since(h.lastCliEv) > 600*time.Millisecond) {
				return ps == 0
			}
			time.Sleep(3 * time.Millisecond)
		}
		return false
	}
	// the property's conclusion: every synchronised state has the source's tick (parity for shallow
	// clocks) and the source's activity on the network machine
	quiescent := func(where string) {
		run.QuiescentChecks++
		for _, n := range tracked {
			if c.NoSchema && n == am.StateException && !nm.Has1(n) {
				continue
			}
			st, mt := src.Tick(n), nm.Tick(n)
			same := st == mt
			if c.Shallow {
				same = st%2 == mt%2
			}
			if !same {
				run.Failures = append(run.Failures, fmt.Sprintf("%s, yet state %s has tick %d on the network machine and %d on the source (network machine %v, source %v, shallow=%v)", where, n, mt, st, nm.Time(nil), src.Time(nil), c.Shallow))
				return
			}
		}
		for i, n := range tracked {
			if c.NoSchema && n == am.StateException && !nm.Has1(n) {
				continue
			}
			if src.Is1(n) != nm.Is1(n) {
				run.Failures = append(run.Failures, fmt.Sprintf("%s, yet state %s (index %d) is active=%v on the source and %v on the network machine (ticks %d / %d)", where, n, i, src.Is1(n), nm.Is1(n), src.Tick(n), nm.Tick(n)))
				return
			}
		}
	}
	// a settle point inside a scenario is a quiescent moment too when the harness can tell that the
	// server has told what it knows (the last diff it produced is the source's current snapshot, or the
	// handshake of a reconnect handed it over) and nothing is parked
	midCheck := func(where string) {
		if c.SlowPush || len(run.Failures) > 0 {
			return
		}
		if !settle() {
			return
		}
		time.Sleep(20 * time.Millisecond)
		if !settle() {
			return
		}
		h.mu.Lock()
		ok := !h.heldSet && !h.holdNext && h.heldSync == nil && !h.holdSyncNext && len(h.inflight) == 0 &&
			h.pendingSync == 0 && !h.syncOut && h.lastProduced == snapKey(src.Time(nil))
		h.mu.Unlock()
		if ok {
			quiescent(where)
		}
	}
	var cliWG sync.WaitGroup
	waitCalls := func(where string) {
		done := make(chan struct{})
		go func() { cliWG.Wait(); close(done) }()
		select {
		case <-done:
		case <-time.After(6 * time.Second):
			run.Failures = append(run.Failures, "a mutation made through the network machine had not returned 6s after "+where)
		}
	}
opsLoop:
	for _, op := range c.Ops {
		p := strings.Split(op, ":")
		switch p[0] {
		case "loc":
			if p[1] == "add" {
				src.Add1(st(p[2]), nil)
			} else {
				src.Remove1(st(p[2]), nil)
			}
			// the ticker pushes within the push interval
			time.Sleep(8 * time.Millisecond)
		case "cli":
			h.mu.Lock()
			hold := h.holdNext
			if h.heldSet {
				// the client makes one call at a time: the held reply goes out first
				close(h.held)
				h.heldSet = false
				for i := range h.inflight {
					h.inflight[i].held = false
				}
				h.mu.Unlock()
				waitCalls("its held reply was let go")
				h.mu.Lock()
			}
			h.mu.Unlock()
			name := st(p[2])
			if !slices.Contains(tracked, name) {
				// a mutation of a state the client does not know is a usage error, not a protocol input
				continue
			}
			doit := func() am.Result {
				if p[1] == "add" {
					return nm.Add1(name, nil)
				}
				return nm.Remove1(name, nil)
			}
			if hold {
				cliWG.Add(1)
				go func() { defer cliWG.Done(); doit() }()
				select {
				case <-h.parked:
				case <-time.After(2 * time.Second):
				}
			} else {
				h.mu.Lock()
				n0 := h.txCount
				h.mu.Unlock()
				res := doit()
				h.mu.Lock()
				n1, acc := h.txCount, h.txAccepted
				h.mu.Unlock()
				run.CliMuts++
				// the result is the one the source produced (nothing else mutates the source meanwhile)
				if n1 == n0+1 {
					want := am.Canceled
					if acc {
						want = am.Executed
					}
					if res != want {
						run.Failures = append(run.Failures, fmt.Sprintf("the mutation %s %s made through the network machine returned %s, the source produced %s", p[1], name, res, want))
					}
				}
				// its effect is already visible locally when the call returns
				if n1 > n0 {
					st, mt := src.Tick(name), nm.Tick(name)
					vis := st == mt
					if c.Shallow {
						vis = st%2 == mt%2
					}
					if !vis || src.Is1(name) != nm.Is1(name) {
						run.Failures = append(run.Failures, fmt.Sprintf("visibility: when %s %s made through the network machine returned, the source had %s at tick %d (active=%v) and the network machine at tick %d (active=%v)", p[1], name, name, st, src.Is1(name), mt, nm.Is1(name)))
					}
				}
			}
		case "hold":
			h.mu.Lock()
			h.holdNext = true
			h.mu.Unlock()
		case "holdsync":
			// the window of a full sync: its answer is computed and parked on the server while the
			// source moves on (p[1:] = the changes, each pushed by the ticker), then the answer goes out
			settle()
			h.mu.Lock()
			h.holdSyncNext = true
			select {
			case <-h.syncParked:
			default:
			}
			h.mu.Unlock()
		case "syncwindow":
			// wait for the parked answer, make the changes, let the answer go
			parkedNow := false
			select {
			case <-h.syncParked:
				parkedNow = true
			case <-time.After(1500 * time.Millisecond):
			}
			if parkedNow {
				run.SyncWindows++
				for _, q := range p[1:] {
					if len(q) >= 2 {
						if q[0] == '+' {
							src.Add1(st(q[1:]), nil)
						} else {
							src.Remove1(st(q[1:]), nil)
						}
						time.Sleep(12 * time.Millisecond)
					}
				}
			}
			h.mu.Lock()
			h.holdSyncNext = false
			if h.heldSync != nil {
				close(h.heldSync)
				h.heldSync = nil
			}
			h.mu.Unlock()
		case "release":
			h.mu.Lock()
			if h.heldSet {
				close(h.held)
				h.heldSet = false
				for i := range h.inflight {
					h.inflight[i].held = false
				}
			}
			h.mu.Unlock()
			waitCalls("its held reply was let go")
		case "wait":
			settle()
			midCheck("at a settle point inside the scenario (nothing in flight, no sync pending, the server has told what it knows)")
		case "cut":
			// the connection drops (every accepted conn is closed on the server side); the source may
			// change while the client is away; the client reconnects and the handshake hands over
			// the source's clocks of that moment
			settle()
			h.mu.Lock()
			h.down = true
			for _, m := range h.inflight {
				if m.held {
					// a reply parked on the server is lost with the connection
					run.LostInFlight++
				}
			}
			h.mu.Unlock()
			tl.closeAll()
			select {
			case <-cli.Mach.WhenNot1(ssC.Ready, nil):
			case <-time.After(3 * time.Second):
				run.Failures = append(run.Failures, "the connection was cut but the client never left Ready")
			}
			for _, q := range p[1:] {
				if len(q) >= 2 {
					// q = "+a" / "-a": a local change of the source during the outage
					if q[0] == '+' {
						src.Add1(st(q[1:]), nil)
					} else {
						src.Remove1(st(q[1:]), nil)
					}
				}
			}
			back := false
			select {
			case <-cli.Mach.When1(ssC.Ready, nil):
				back = true
			case <-time.After(8 * time.Second):
				run.Failures = append(run.Failures, "after a dropped connection the client did not come back (not Ready within 8s): "+cli.Mach.String())
			}
			if back {
				select {
				case <-srv.Mach.When1(ssS.Ready, nil):
				case <-time.After(3 * time.Second):
				}
				time.Sleep(15 * time.Millisecond)
			}
			h.mu.Lock()
			h.inflight = nil
			h.pendingSync = 0
			h.syncOut = false
			h.lastProduced = snapKey(src.Time(nil))
			h.down = false
			if back {
				run.Cuts++
				h.emit("conv reconnect")
			}
			h.lastCliEv = time.Now()
			h.mu.Unlock()
			if !back {
				break opsLoop
			}
		case "drift":
			// the client's copy is off by a tick on one state
			// nothing in flight: what the next diff will be computed against is the server's lastPush
			settle()
			t := nm.Time(nil)
			if len(t) > 0 {
				t2 := append(am.Time{}, t...)
				// the checksum is a sum over time, queue tick and machine tick: the injected error must
				// not cancel a queue-tick lag the copy may already have (no-op mutations of the source
				// move its queue tick without a diff being applied)
				lpSum, lpQ := arpc.VerifLastPush(srv)
				var sum uint64
				for _, v := range t {
					sum += v
				}
				d := uint64(2)
				if uint8(sum+d+nm.QueueTick()) == uint8(lpSum+lpQ) {
					d = 4
				}
				t2[0] += d
				arpc.VerifSetClientMirror(cli, t2, nm.QueueTick(), nm.MachineTick())
				h.mu.Lock()
				run.Lines = append(run.Lines, "conv drift")
				run.Obs = append(run.Obs, "-")
				h.mu.Unlock()
			}
		}
	}
	h.mu.Lock()
	if h.heldSet {
		close(h.held)
		h.heldSet = false
		for i := range h.inflight {
			h.inflight[i].held = false
		}
	}
	h.holdSyncNext = false
	if h.heldSync != nil {
		close(h.heldSync)
		h.heldSync = nil
	}
	h.mu.Unlock()
	waitCalls("the end of the scenario")
	settle()
	time.Sleep(20 * time.Millisecond)
	settle()
	// the property at quiescence
	h.mu.Lock()
	h.quiet = true
	srcT, mirT := src.Time(nil), nm.Time(nil)
	left := len(h.inflight)
	neverSynced := h.pendingSync
	// deliveries whose full sync never came are observed now
	for i, o := range run.Obs {
		if o == "pending" {
			run.Obs[i] = fmt.Sprintf("mirror=%d", h.mirrorIndexLocked())
		}
	}
	h.mu.Unlock()
	h.mu.Lock()
	if h.calledNote != "" {
		// not part of the property (C09 speaks of the mirror): counted as an observation, see DESIGN §10
		run.CalledRewritten++
	}
	h.mu.Unlock()
	if neverSynced > 0 {
		run.Failures = append(run.Failures, "a diff was rejected by the client (clock drift detected) but no full sync followed")
	}
	_, _ = srcT, mirT
	if left == 0 {
		quiescent("the source stopped changing and nothing is in flight")
	}
	cli.Stop(ctx, nil, true)
	srv.Stop(nil, true)
	src.Dispose()
	return run
}

func GenCase(r *rand.Rand) Case {
	c := Case{Seed: r.Int63n(1 << 40)}
	// half of the scenarios run the default configuration (compared with the model message by
	// message), the others draw from the sync configurations
	if r.Intn(2) == 0 {
		switch r.Intn(8) {
		case 7:
			// an allowlist that is not a prefix of the source's states, shallow clocks, no schema
			c.Allowed, c.Tail = true, true
			c.NoSchema = r.Intn(3) != 0
			c.Shallow = r.Intn(3) != 0
		case 6:
			// schema-less client with an allowlist
			c.NoSchema, c.Allowed = true, true
		case 0, 1:
			c.Shallow = true
		case 2:
			c.NoSchema = true
		case 3:
			c.Allowed = true
		case 4:
			c.Skipped = true
		case 5:
			c.Shallow = true
			c.Allowed = r.Intn(2) == 0
			c.NoSchema = !c.Allowed
		}
		if r.Intn(4) == 0 {
			// per-mutation diffs with a partly tracked source: D (untracked) removes A (tracked)
			c.SyncMut = true
			c.Shallow, c.NoSchema = false, false
			if r.Intn(2) == 0 {
				c.Allowed, c.Skipped = true, false
			} else {
				c.Allowed, c.Skipped = false, true
			}
		}
	}
	states := []string{"a", "b", "c", "d"}
	if r.Intn(6) == 0 {
		// no ticker pushes inside the scenario: the replies carry everything; the last operation is a
		// mutation made through the network machine, whose reply brings the mirror up to date
		c.SlowPush = true
		for i, k := 0, r.Intn(8); i < k; i++ {
			c.Pre = append(c.Pre, []string{"add:", "add:", "rem:"}[r.Intn(3)]+states[r.Intn(4)])
		}
		for i, k := 0, 2+r.Intn(8); i < k; i++ {
			op := []string{"loc:", "cli:", "cli:"}[r.Intn(3)]
			c.Ops = append(c.Ops, op+[]string{"add:", "add:", "rem:"}[r.Intn(3)]+states[r.Intn(4)])
		}
		tr := states
		if c.Allowed && c.Tail {
			tr = states[2:4]
		} else if c.Allowed {
			tr = states[:3]
		} else if c.Skipped {
			tr = states[:3]
		}
		c.Ops = append(c.Ops, "cli:"+[]string{"add:", "rem:"}[r.Intn(2)]+tr[r.Intn(len(tr))], "wait")
		c.Tag = "slowpush"
		return c
	}
	// a source with a past: ticks beyond 0/1 at handshake time
	if r.Intn(3) == 0 {
		for i, k := 0, r.Intn(8); i < k; i++ {
			s := states[r.Intn(4)]
			c.Pre = append(c.Pre, []string{"add:", "add:", "rem:"}[r.Intn(3)]+s)
		}
	}
	n := 4 + r.Intn(10)
	held := false
	for i := 0; i < n; i++ {
		s := states[r.Intn(4)]
		k := []string{"add", "add", "rem"}[r.Intn(3)]
		x := r.Intn(100)
		switch {
		case x < 35:
			c.Ops = append(c.Ops, "loc:"+k+":"+s)
		case x < 60:
			c.Ops = append(c.Ops, "cli:"+k+":"+s)
		case x < 72 && !held:
			// the window of the property: a reply held back while the source moves on and pushes
			c.Ops = append(c.Ops, "hold", "cli:"+k+":"+s, "loc:add:c", "wait")
			held = true
		case x < 80 && held:
			c.Ops = append(c.Ops, "release")
			held = false
		case x < 83 && !held:
			c.Ops = append(c.Ops, "drift", "loc:add:c", "wait")
		case x < 86 && !held && !c.SlowPush:
			// the window of a full sync: the answer is computed, the source moves on and pushes, the
			// client handles those pushes while the sync is still pending, then the answer arrives
			op := "syncwindow"
			for j, m := 0, 1+r.Intn(2); j < m; j++ {
				op += ":" + []string{"+", "+", "-"}[r.Intn(3)] + states[r.Intn(4)]
			}
			c.Ops = append(c.Ops, "drift", "holdsync", "loc:add:c", op, "wait")
		case x < 89 && !held && !c.SlowPush:
			// the connection drops with a reply still on the server (lost in flight) and a push behind it
			op := "cut"
			for j, m := 0, r.Intn(3); j < m; j++ {
				op += ":" + []string{"+", "+", "-"}[r.Intn(3)] + states[r.Intn(4)]
			}
			c.Ops = append(c.Ops, "hold", "cli:"+k+":"+s, "loc:add:c", op, "release", "wait")
		case x < 92 && !held && !c.SlowPush:
			// the connection drops; the source may move on meanwhile
			op := "cut"
			for j, m := 0, r.Intn(3); j < m; j++ {
				op += ":" + []string{"+", "+", "-"}[r.Intn(3)] + states[r.Intn(4)]
			}
			c.Ops = append(c.Ops, op, "wait")
		default:
			c.Ops = append(c.Ops, "wait")
		}
	}
	if held {
		c.Ops = append(c.Ops, "release")
	}
	if c.SyncMut {
		// the last mutation before the source goes quiet calls an untracked state only (D), whose
		// relation changes a tracked one (D removes A)
		c.Ops = append(c.Ops, "loc:rem:d", "loc:add:a", "wait", "loc:add:d", "wait")
	}
	c.Tag = "random"
	return c
}

// trackListener remembers the accepted connections so that a scenario can cut them.
type trackListener struct {
	net.Listener
	mu    sync.Mutex
	conns []net.Conn
}

func (t *trackListener) Accept() (net.Conn, error) {
	c, err := t.Listener.Accept()
	if err == nil {
		t.mu.Lock()
		t.conns = append(t.conns, c)
		t.mu.Unlock()
	}
	return c, err
}

func (t *trackListener) closeAll() {
	t.mu.Lock()
	cs := t.conns
	t.conns = nil
	t.mu.Unlock()
	for _, c := range cs {
		c.Close()
	}
}
