package codec

import (
	"crypto/sha1"
	"encoding/hex"
	"fmt"
	"math/rand"
	"os"
	"path/filepath"
	"strings"
	"time"

	"amverif/core"
)

func save(dir, name string, lines []string, header ...string) string {
	os.MkdirAll(dir, 0o755)
	p := filepath.Join(dir, name)
	var b strings.Builder
	for _, h := range header {
		b.WriteString("# " + h + "\n")
	}
	b.WriteString(strings.Join(lines, "\n") + "\n")
	os.WriteFile(p, []byte(b.String()), 0o644)
	return p
}

// RunPipeline: generate, execute on the real codec, compare with the model, monitor.
func RunPipeline(seed int64, tier, driver, outDir string, n int, search bool) *core.Result {
	t0 := time.Now()
	res := &core.Result{Prop: "C10", Seed: seed, Tier: tier, Tags: map[string]int{}, Ops: map[string]int{}, Results: map[string]int{}}
	r := rand.New(rand.NewSource(seed))
	var cases []Case
	for i := 0; i < n; i++ {
		cases = append(cases, GenCase(r, tier))
	}
	// exhaustive small box: 1..3 states (quick) / 1..4 (thorough), every tracked subset via skip lists,
	// both index spaces, both modes, all delta vectors in 0..2 (quick) / 0..4 (thorough)
	cases = append(cases, exhaustive(tier)...)
	var runs []Run
	var mcases []core.Case
	for _, c := range cases {
		run := Exec(c)
		runs = append(runs, run)
		mcases = append(mcases, core.Case{Lines: run.Lines})
	}
	var model [][]string
	var err error
	if !search {
		model, err = core.RunModel(driver, mcases)
		if err != nil {
			res.Note = "model driver failed: " + err.Error()
			res.Disagreements = append(res.Disagreements, core.DisRec{Op: "driver", Model: err.Error()})
			res.WallS = time.Since(t0).Seconds()
			return res
		}
	}
	seen := map[string]bool{}
	failSeen := map[string]bool{}
	for i, run := range runs {
		res.Cases++
		res.Tags[strings.SplitN(cases[i].Tag, "/", 2)[0]]++
		nontrivial := false
		for _, st := range run.Steps {
			res.Evaluations++
			res.Ops[st.Kind]++
			if st.Kind == "snap" || st.Kind == "pushmuts" {
				if st.Acc {
					res.Results["accepted"]++
				} else {
					res.Results["rejected"]++
				}
				nontrivial = true
			}
		}
		h := sha1.Sum([]byte(strings.Join(run.Lines, "\n")))
		hk := hex.EncodeToString(h[:])
		if nontrivial && !seen[hk] {
			seen[hk] = true
			res.DistinctNontrivial++
		}
		if len(res.Samples) < 3 && nontrivial && i < n {
			res.Samples = append(res.Samples, strings.Join(run.Lines, "\n"))
		}
		if !search && run.Err == "" {
			for j, st := range run.Steps {
				if j < len(model[i]) && st.Out != model[i][j] {
					if len(res.Disagreements) < 5 {
						file := save(outDir, fmt.Sprintf("C10-seed%d-disagree%d.case", seed, len(res.Disagreements)), run.Lines[:j+1],
							"codec correspondence disagrees at line "+fmt.Sprint(j), "impl : "+st.Out, "model: "+model[i][j], "case: "+cases[i].Tag)
						res.Disagreements = append(res.Disagreements, core.DisRec{File: file, Line: j, Op: st.Line, Impl: st.Out, Model: model[i][j]})
					} else {
						res.Disagreements = append(res.Disagreements, core.DisRec{Line: j, Op: st.Line})
					}
					break
				}
			}
		}
		for _, f := range Monitor(cases[i], run) {
			key := f.Finding + "|" + strings.SplitN(f.Msg, "(", 2)[0]
			if failSeen[key] {
				continue
			}
			failSeen[key] = true
			file := save(outDir, fmt.Sprintf("C10-seed%d-fail%d.case", seed, len(res.Failures)), run.Lines[:min(f.Line+1, len(run.Lines))],
				"monitor C10 failed on the real codec: "+f.Msg, "finding="+f.Finding, "case: "+cases[i].Tag)
			res.Failures = append(res.Failures, core.FailRec{Prop: "C10", Finding: f.Finding, Msg: f.Msg, File: file, Line: f.Line})
		}
	}
	res.WallS = time.Since(t0).Seconds()
	return res
}

// exhaustive enumerates the small box of the property's quantifier.
func exhaustive(tier string) []Case {
	maxN, maxD := 2, 2
	if tier == "thorough" {
		maxN, maxD = 3, 4
	}
	var out []Case
	for n := 1; n <= maxN; n++ {
		names := []string{}
		for i := 0; i < n; i++ {
			names = append(names, fmt.Sprintf("S%d", i))
		}
		names = append(names, "Exception")
		total := len(names)
		for skipMask := 0; skipMask < 1<<total-1; skipMask++ {
			var skipped []string
			for i := 0; i < total; i++ {
				if skipMask&(1<<i) != 0 {
					skipped = append(skipped, names[i])
				}
			}
			for _, sync := range []bool{true, false} {
				for _, shallow := range []bool{false, true} {
					// all delta vectors
					cnt := 1
					for i := 0; i < total; i++ {
						cnt *= maxD + 1
					}
					c := Case{Names: names, Skipped: skipped, Sync: sync, Shallow: shallow,
						Tag: fmt.Sprintf("exh%d/sync%v/shallow%v", n, sync, shallow)}
					cur := make([]uint64, total)
					for i := range cur {
						cur[i] = uint64(i % 2)
					}
					c.Script = append(c.Script, scriptOp{kind: "hello", time: append([]uint64{}, cur...)})
					for v := 0; v < cnt; v++ {
						x := v
						next := append([]uint64{}, cur...)
						for i := 0; i < total; i++ {
							next[i] += uint64(x % (maxD + 1))
							x /= maxD + 1
						}
						cur = next
						c.Script = append(c.Script, scriptOp{kind: "snap", time: append([]uint64{}, cur...), dq: 1})
					}
					out = append(out, c)
				}
			}
		}
	}
	return out
}
