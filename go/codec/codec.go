// Package codec: correspondence and monitors for the RPC clock-update codec (C10).
package codec

import (
	"context"
	"fmt"
	"math/rand"
	"sort"
	"strconv"
	"strings"

	"amverif/core"

	am "github.com/pancsta/asyncmachine-go/pkg/machine"
	arpc "github.com/pancsta/asyncmachine-go/pkg/rpc"
)

func showU(l []uint64) string {
	if len(l) == 0 {
		return "-"
	}
	s := make([]string, len(l))
	for i, v := range l {
		s[i] = strconv.FormatUint(v, 10)
	}
	return strings.Join(s, ",")
}

func showI(l []int) string {
	if len(l) == 0 {
		return "-"
	}
	s := make([]string, len(l))
	for i, v := range l {
		s[i] = strconv.Itoa(v)
	}
	return strings.Join(s, ",")
}

func parseU(s string) []uint64 {
	if s == "-" || s == "" {
		return nil
	}
	var out []uint64
	for _, p := range strings.Split(s, ",") {
		v, _ := strconv.ParseUint(p, 10, 64)
		out = append(out, v)
	}
	return out
}

// Step is one protocol line with what the real code answered and what the
// monitors need.
type Step struct {
	Line    string
	Out     string
	Kind    string
	Src     []uint64 // source time after the step
	SrcQ    uint64
	SrcM    uint32
	Acc     bool
	Mirror  []uint64
	MQ      uint64
	MM      uint32
	Drifted bool // mirror was tampered with before this step
	DriftDetectable bool
}

type Case struct {
	Names   []string
	Allowed []string
	Skipped []string
	Sync    bool
	Shallow bool
	Muts    bool
	Import  bool
	Script  []scriptOp
	Tag     string
}

type scriptOp struct {
	kind  string // hello snap qsnap pushmuts setmirror
	time  []uint64
	dq    int
	drift []uint64 // for setmirror: delta added to the mirror
	dqm   int
}

type Run struct {
	Steps   []Step
	Tracked []int // server view (machine indexes)
	CTracked []int
	Lines   []string
	Err     string
}

func GenCase(r *rand.Rand, tier string) Case {
	n := 1 + r.Intn(6)
	c := Case{Sync: r.Intn(2) == 0, Shallow: r.Float64() < 0.3, Muts: r.Float64() < 0.25, Import: r.Float64() < 0.15}
	if c.Muts {
		c.Shallow = false
	}
	for i := 0; i < n; i++ {
		c.Names = append(c.Names, fmt.Sprintf("S%d", i))
	}
	c.Names = append(c.Names, "Exception")
	r.Shuffle(len(c.Names), func(a, b int) { c.Names[a], c.Names[b] = c.Names[b], c.Names[a] })
	mode := r.Intn(4)
	sub := func() []string {
		var out []string
		for _, nm := range c.Names {
			if r.Intn(2) == 0 {
				out = append(out, nm)
			}
		}
		// a list is written in any order, and may name a state twice: the index space of the diffs
		// is the machine's order whatever the list looks like
		if len(out) > 1 && r.Intn(2) == 0 {
			r.Shuffle(len(out), func(a, b int) { out[a], out[b] = out[b], out[a] })
		}
		if len(out) > 0 && r.Intn(5) == 0 {
			out = append(out, out[r.Intn(len(out))])
		}
		return out
	}
	switch mode {
	case 1:
		c.Allowed = sub()
		if c.Allowed == nil {
			c.Allowed = []string{c.Names[0]}
		}
	case 2:
		c.Skipped = sub()
	case 3:
		c.Allowed = sub()
		if c.Allowed == nil {
			c.Allowed = []string{c.Names[0]}
		}
		c.Skipped = sub()
	}
	c.Tag = fmt.Sprintf("n%d/sync%v/shallow%v/muts%v/mode%d", n, c.Sync, c.Shallow, c.Muts, mode)
	cur := make([]uint64, len(c.Names))
	for i := range cur {
		cur[i] = uint64(r.Intn(6))
	}
	c.Script = append(c.Script, scriptOp{kind: "hello", time: append([]uint64{}, cur...)})
	steps := 3 + r.Intn(6)
	bounds := []uint64{65535, 65536, 65537, 4294967295, 4294967296, 255, 256, 131075}
	for s := 0; s < steps; s++ {
		next := append([]uint64{}, cur...)
		for i := range next {
			d := uint64(r.Intn(5))
			if r.Float64() < 0.04 {
				d = bounds[r.Intn(len(bounds))]
			}
			next[i] += d
		}
		cur = next
		if r.Float64() < 0.12 {
			drift := make([]uint64, len(c.Names))
			drift[r.Intn(len(drift))] = uint64(1 + r.Intn(300))
			c.Script = append(c.Script, scriptOp{kind: "setmirror", drift: drift, dqm: r.Intn(2)})
		}
		if c.Muts {
			k := 1 + r.Intn(3)
			for j := 0; j < k; j++ {
				c.Script = append(c.Script, scriptOp{kind: "qsnap", time: append([]uint64{}, cur...), dq: 1})
				if j+1 < k {
					next := append([]uint64{}, cur...)
					for i := range next {
						next[i] += uint64(r.Intn(3))
					}
					cur = next
				}
			}
			c.Script = append(c.Script, scriptOp{kind: "pushmuts"})
		} else {
			c.Script = append(c.Script, scriptOp{kind: "snap", time: append([]uint64{}, cur...), dq: 1 + r.Intn(3)})
		}
	}
	return c
}

// Exec runs the case on the real codec and produces the protocol lines.
func Exec(c Case) (run Run) {
	defer func() {
		if p := recover(); p != nil {
			run.Err = fmt.Sprint("panic: ", p)
		}
	}()
	ctx, cancel := context.WithCancel(context.Background())
	defer cancel()
	schema := am.Schema{}
	for _, nm := range c.Names {
		schema[nm] = am.State{Multi: nm == "Exception"}
	}
	src := am.New(ctx, schema, &am.Opts{Id: "src"})
	if err := src.VerifyStates(am.S(c.Names)); err != nil {
		run.Err = err.Error()
		return
	}
	if c.Import {
		ser, _, err := src.Export()
		if err == nil {
			src.Import(ser)
		}
	}
	mock := func(t []uint64) {
		cl := am.Clock{}
		for i, nm := range c.Names {
			cl[nm] = t[i]
		}
		am.TestMockClock(src, cl)
	}
	var v *arpc.VerifCodec
	for _, op := range c.Script {
		st := Step{Kind: op.kind}
		switch op.kind {
		case "hello":
			mock(op.time)
			var err error
			v, err = arpc.NewVerifCodec(ctx, src, c.Sync, c.Shallow, c.Muts, am.S(c.Allowed), am.S(c.Skipped))
			if err != nil {
				run.Err = err.Error()
				return
			}
			run.Tracked, run.CTracked = v.Tracked()
			sort.Ints(run.Tracked)
			b := func(x bool) string {
				if x {
					return "1"
				}
				return "0"
			}
			run.Lines = append(run.Lines, fmt.Sprintf("codec sync=%s shallow=%s tracked=%s", b(c.Sync), b(c.Shallow), showI(run.Tracked)))
			run.Steps = append(run.Steps, Step{Kind: "codec", Line: run.Lines[0], Out: "ok"})
			st.Line = fmt.Sprintf("hello %s %d %d", showU(op.time), src.QueueTick(), src.MachineTick())
			mt, q, m := v.Mirror()
			st.Out = fmt.Sprintf("mirror=%s q=%d m=%d", showU(mt), q, m)
		case "snap", "qsnap":
			mock(op.time)
			for i := 0; i < op.dq; i++ {
				src.Remove1(c.Names[0], nil)
			}
			st.Line = fmt.Sprintf("%s %s %d %d", op.kind, showU(op.time), src.QueueTick(), src.MachineTick())
			if op.kind == "qsnap" {
				st.Out = "ok"
				break
			}
			u := v.Push()
			if u == nil {
				st.Out = "nothing"
				break
			}
			st.Acc = v.Apply(u)
			mt, q, m := v.Mirror()
			st.Out = fmt.Sprintf("upd=%s acc=%s mirror=%s q=%d m=%d", showUpd(u), b01(st.Acc), showU(mt), q, m)
		case "pushmuts":
			st.Line = "pushmuts"
			us := v.PushMuts()
			if us == nil {
				st.Out = "nothing"
				break
			}
			st.Acc = v.ApplyMuts(us)
			mt, q, m := v.Mirror()
			var parts []string
			for i := range us.Updates {
				parts = append(parts, showUpd(&us.Updates[i]))
			}
			st.Out = fmt.Sprintf("upds=%s acc=%s mirror=%s q=%d m=%d", strings.Join(parts, " "), b01(st.Acc), showU(mt), q, m)
		case "setmirror":
			mt, q, m := v.Mirror()
			for i := range mt {
				if i < len(op.drift) {
					mt[i] += op.drift[i]
				}
			}
			q += uint64(op.dqm)
			v.SetMirror(mt, q, m)
			st.Line = fmt.Sprintf("setmirror %s %d %d", showU(mt), q, m)
			st.Out = "ok"
		}
		st.Src = src.Time(nil)
		st.SrcQ, st.SrcM = src.QueueTick(), src.MachineTick()
		if v != nil {
			st.Mirror, st.MQ, st.MM = v.Mirror()
		}
		run.Lines = append(run.Lines, st.Line)
		run.Steps = append(run.Steps, st)
	}
	return
}

func b01(x bool) string {
	if x {
		return "1"
	}
	return "0"
}

func showUpd(u *arpc.MsgSrvUpdate) string {
	idx := make([]int, len(u.Indexes))
	for i, v := range u.Indexes {
		idx[i] = int(v)
	}
	tk := make([]uint64, len(u.Ticks))
	for i, v := range u.Ticks {
		tk[i] = uint64(v)
	}
	return fmt.Sprintf("%s/%s/%d/%d/%d", showI(idx), showU(tk), u.QueueTick, u.MachTick, u.Checksum)
}

// Monitor checks C10 on what the real codec did. `finding` is non-empty when
// the failure matches a recorded signature.
func Monitor(c Case, run Run) []core.Failure {
	var fails []core.Failure
	add := func(line int, finding, f string, a ...any) {
		fails = append(fails, core.Failure{Prop: "C10", Line: line, Msg: fmt.Sprintf(f, a...), Finding: finding})
	}
	if run.Err != "" {
		add(0, "", "codec error: %s", run.Err)
		return fails
	}
	msum := func(st Step) uint64 {
		if !c.Shallow {
			return (sumU(st.Mirror) + st.MQ + uint64(st.MM)) % 256
		}
		// shallow clocks: the checksum is over the parity of the tracked states
		var n uint64
		for k, mi := range run.Tracked {
			ci := mi
			if !c.Sync {
				ci = k
			}
			if ci < len(st.Mirror) && st.Mirror[ci]%2 == 1 {
				n++
			}
		}
		return (n + st.MQ + uint64(st.MM)) % 256
	}
	drift := false        // the mirror no longer holds the previous snapshot
	driftVisible := false // ... and the 8-bit checksum can see it
	var base uint64
	for li, st := range run.Steps {
		switch st.Kind {
		case "hello":
			base = msum(st)
		case "setmirror":
			drift = true
			now := msum(st)
			driftVisible = now != base
		case "snap", "pushmuts":
			if st.Out == "nothing" {
				continue
			}
			if drift {
				// deep clocks only: the deep checksum is additive in the ticks, so
				// a visible drift survives the update; the shallow parity count is not
				if driftVisible && st.Acc && !c.Shallow {
					add(li, "", "update applied to a drifted mirror was accepted")
				}
				// after a rejected/drifted step the mirror is stale by design
				return fails
			}
			finding := ""
			if c.Shallow {
				finding = "C10-shallow-checksum-counts-all-tracked"
			} else if st.SrcM%256 != 0 {
				finding = "C10-machtick-counted-twice-after-hello"
			}
			if !st.Acc {
				add(li, finding, "valid update rejected by the checksum")
				return fails
			}
			for k, mi := range run.Tracked {
				ci := mi
				if !c.Sync {
					ci = k
				}
				if ci >= len(st.Mirror) || mi >= len(st.Src) {
					add(li, "", "index out of range")
					continue
				}
				want, got := st.Src[mi], st.Mirror[ci]
				if c.Shallow {
					if want%2 != got%2 {
						add(li, finding, "parity of tracked state %d differs (src %d, mirror %d)", mi, want, got)
					}
				} else if want != got {
					big := false
					// silent truncation is outside the stated box (delta >= 2^32)
					if want-got >= 1<<32 || got > want {
						big = true
					}
					if !big {
						add(li, finding, "tick of tracked state %d differs (src %d, mirror %d)", mi, want, got)
					}
				}
			}
			if st.MQ != st.SrcQ {
				add(li, finding, "queue tick differs (src %d, mirror %d)", st.SrcQ, st.MQ)
			}
			if st.MM != st.SrcM {
				add(li, finding, "machine tick differs (src %d, mirror %d)", st.SrcM, st.MM)
			}
			base = msum(st)
		}
	}
	return fails
}

func sumU(l []uint64) uint64 {
	var s uint64
	for _, v := range l {
		s += v
	}
	return s
}
