// Package race runs the race-instrumented program generator (bin/amrace) in
// parallel child processes and turns race reports into failures.
package race

import (
	"bytes"
	"fmt"
	"os"
	"os/exec"
	"path/filepath"
	"regexp"
	"sort"
	"strings"
	"sync"
	"time"

	"amverif/core"
)

var bracket = regexp.MustCompile(`\[.*\]`)

// Signature: innermost asyncmachine frames of both accesses.
func Signature(report string) string {
	parts := strings.Split(strings.TrimSpace(report), "\n\n")
	var tops []string
	for i, p := range parts {
		if i >= 2 {
			break
		}
		top := "?"
		for _, l := range strings.Split(p, "\n") {
			if strings.HasPrefix(l, "  ") && !strings.HasPrefix(l, "      ") && strings.Contains(l, "asyncmachine-go") {
				top = strings.TrimSpace(l)
				top = strings.ReplaceAll(top, "github.com/pancsta/asyncmachine-go/pkg/", "")
				top = strings.ReplaceAll(top, "()", "")
				top = bracket.ReplaceAllString(top, "")
				break
			}
		}
		tops = append(tops, top)
	}
	sort.Strings(tops)
	return strings.Join(tops, " | ")
}

// InScope: the property is about the machine's API and about a network machine that receives
// clock updates while being read. A report counts when the innermost asyncmachine frame of one of
// the two accesses is code of pkg/machine, or a method of the network machine; races between the
// rpc server's / client's own goroutines (eg inside the rpc2 transport at shutdown) do not.
func InScope(sig string) bool {
	for _, side := range strings.Split(sig, " | ") {
		side = strings.TrimSpace(side)
		if strings.HasPrefix(side, "machine.") || strings.HasPrefix(side, "rpc.(*NetworkMachine)") ||
			strings.HasPrefix(side, "rpc.(*NetMachInternal)") {
			return true
		}
	}
	return false
}

type childOut struct {
	programs int
	last     string
	report   string
	hang     []string
	err      string
}

func runChild(bin string, seed int64, n int, outDir string, idx int, extra []string) childOut {
	var co childOut
	logp := filepath.Join(outDir, fmt.Sprintf("racelog-%d", idx))
	old, _ := filepath.Glob(logp + ".*")
	for _, f := range old {
		os.Remove(f)
	}
	args := append([]string{"-seed", fmt.Sprint(seed), "-programs", fmt.Sprint(n)}, extra...)
	cmd := exec.Command(bin, args...)
	cmd.Env = append(os.Environ(), "GORACE=halt_on_error=1 exitcode=66 log_path="+logp)
	var out bytes.Buffer
	cmd.Stdout = &out
	cmd.Stderr = &out
	done := make(chan error, 1)
	if err := cmd.Start(); err != nil {
		co.err = err.Error()
		return co
	}
	go func() { done <- cmd.Wait() }()
	select {
	case <-done:
	case <-time.After(time.Duration(60+n*2) * time.Second):
		cmd.Process.Kill()
		co.err = "child timed out"
	}
	for _, l := range strings.Split(out.String(), "\n") {
		if strings.HasPrefix(l, "PROGRAM ") {
			co.programs++
			co.last = l
		}
		if strings.HasPrefix(l, "HANG") {
			co.hang = append(co.hang, l)
		}
	}
	logs, _ := filepath.Glob(logp + ".*")
	for _, f := range logs {
		b, _ := os.ReadFile(f)
		if i := bytes.Index(b, []byte("WARNING: DATA RACE")); i >= 0 {
			co.report = string(b[i:])
			if j := strings.Index(co.report, "=================="); j > 0 {
				co.report = co.report[:j]
			}
		}
		os.Remove(f)
	}
	return co
}

// RunPipeline: quick = ~400 programs, thorough = ~6000.
func RunPipeline(bin string, seed int64, tier, outDir string, n int, search bool) *core.Result {
	t0 := time.Now()
	res := &core.Result{Prop: "C12", Seed: seed, Tier: tier, Tags: map[string]int{}, Ops: map[string]int{}, Results: map[string]int{}}
	if _, err := os.Stat(bin); err != nil {
		res.Note = "race binary missing: " + bin
		return res
	}
	os.MkdirAll(outDir, 0o755)
	workers := 8
	per := (n + workers - 1) / workers
	outs := make([]childOut, workers)
	// a child stops at its first report: restart it after the offending program
	var wg sync.WaitGroup
	var mu sync.Mutex
	seen := map[string]bool{}
	hangs := 0
	outOfScope := map[string]int{}
	for w := 0; w < workers; w++ {
		wg.Add(1)
		go func(w int) {
			defer wg.Done()
			start := seed*1000003 + int64(w*per)
			left := per
			for left > 0 {
				co := runChild(bin, start, left, outDir, w, nil)
				mu.Lock()
				outs[w].programs += co.programs
				res.Cases += co.programs
				for _, h := range co.hang {
					// a program that never finished is not a data race: the property is about
					// races only, so it is counted and named in the evidence, not reported
					hangs++
					if !seen["hang"] {
						seen["hang"] = true
						res.Note += "program did not finish (no race reported): " + h + "; "
					}
				}
				if co.report != "" && !InScope(Signature(co.report)) {
					outOfScope[Signature(co.report)]++
				} else if co.report != "" {
					sig := Signature(co.report)
					if !seen[sig] {
						seen[sig] = true
						file := filepath.Join(outDir, fmt.Sprintf("C12-seed%d-race%d.race", seed, len(res.Failures)))
						os.WriteFile(file, []byte("# data race reported by the Go race detector: "+sig+"\n"+co.last+"\n\n"+co.report), 0o644)
						res.Failures = append(res.Failures, core.FailRec{Prop: "C12", Msg: "data race: " + sig, File: file, Finding: "C12-race:" + sig})
					}
				}
				if co.err != "" && !seen["err:"+co.err] {
					seen["err:"+co.err] = true
					res.Note += "child: " + co.err + "; "
				}
				mu.Unlock()
				if co.programs == 0 {
					break
				}
				start += int64(co.programs)
				left -= co.programs
				if co.report == "" {
					break
				}
			}
		}(w)
	}
	wg.Wait()
	res.Evaluations = res.Cases
	res.DistinctNontrivial = res.Cases
	res.Extra = map[string]any{"programs": res.Cases, "workers": workers, "programs_not_finished": hangs, "race_reports_outside_the_property": outOfScope}
	res.WallS = time.Since(t0).Seconds()
	return res
}
