import AmVerif.Model.Driver
open Am

partial def loop (h : IO.FS.Stream) (out : IO.FS.Stream) (d : DState) : IO Unit := do
  let line ← h.getLine
  if line.isEmpty then return ()
  let (d', o) := stepLine d line
  out.putStrLn o
  loop h out d'

def main : IO Unit := do
  let out ← IO.getStdout
  loop (← IO.getStdin) out {}
  out.flush
