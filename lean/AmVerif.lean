import AmVerif.Model.ListSet
import AmVerif.Model.Schema
import AmVerif.Model.Resolver
import AmVerif.Model.Machine
import AmVerif.Model.Driver
