-- This module serves as the root of the `AmVerif` library.
-- Import modules here that should be built as part of the library.
import AmVerif.Basic
