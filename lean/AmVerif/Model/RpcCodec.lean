/-
  R1 — the RPC clock-update codec.
  Anchors: /repo/pkg/rpc/rpc.go (sourceTracer.TransitionEnd: tracerData,
  Checksum), rpc_server.go (calcUpdate, calcUpdateMutations, genDeepUpdate,
  genShallowUpdate, RemoteHello export), rpc_client.go (clockFromUpdate,
  clockUpdate, tracked indexes). Message fields are truncated to
  uint16/uint8/uint32 exactly as the Go conversions do (explicit `%`).
-/
namespace Am.Rpc

structure Cfg where
  syncSchema : Bool
  shallow : Bool
  /-- tracked states: machine indexes, in state-name order -/
  tracked : List Nat
deriving Repr, DecidableEq

/-- a source snapshot: full machine time, queue tick, machine tick. -/
structure Snap where
  time : List Nat
  q : Nat
  m : Nat
deriving Repr, DecidableEq

/-- `tracerData` -/
structure TData where
  mTime : List Nat
  sum : Nat
  q : Nat
  m : Nat
  checksum : Nat
deriving Repr, DecidableEq

def lsum (l : List Nat) : Nat := l.sum

/-- `Time.Filter(idxs)` (out-of-range ↦ 0). -/
def filterT (t : List Nat) (idxs : List Nat) : List Nat := idxs.map (fun i => t.getD i 0)

/-- `Checksum`. -/
def checksum (sum q m : Nat) : Nat := (sum + q + m) % 256

/-- the `tracerData` built by `sourceTracer.TransitionEnd`. -/
def mkData (c : Cfg) (s : Snap) : TData :=
  let trackedSum := lsum (filterT s.time c.tracked)
  let mTime1 := if !c.syncSchema then filterT s.time c.tracked else s.time
  if c.shallow then
    let mt := mTime1.map (· % 2)
    let sum := if c.syncSchema then lsum (filterT mt c.tracked) else lsum mt
    { mTime := mt, sum := sum, q := s.q, m := s.m, checksum := checksum sum s.q s.m }
  else
    { mTime := mTime1, sum := trackedSum, q := s.q, m := s.m, checksum := checksum trackedSum s.q s.m }

/-- the vector sent by `RemoteHello` and memorised as `lastPushData.mTime`:
    non-tracked zeroed (schema synced) or tracked-only (no schema). -/
def helloTime (c : Cfg) (s : Snap) : List Nat :=
  if !c.syncSchema then filterT s.time c.tracked
  else (List.range s.time.length).map (fun i => if c.tracked.contains i then s.time.getD i 0 else 0)

/-- `lastPushData` right after `RemoteHello` (the checksum stays 0). -/
def helloData (c : Cfg) (s : Snap) : TData :=
  { mTime := helloTime c s, sum := lsum (filterT s.time c.tracked), q := s.q, m := s.m, checksum := 0 }

structure Update where
  idxs : List Nat
  ticks : List Nat
  q : Nat
  m : Nat
  checksum : Nat
deriving Repr, DecidableEq

/-- Go's `uintN(a - b)` on uint64 operands. -/
def subMod (a b n : Nat) : Nat := (((a : Int) - (b : Int)) % (n : Int)).toNat

def pushedIdx (c : Cfg) (trackedIdx stateIdx : Nat) : Nat :=
  if c.syncSchema then stateIdx else trackedIdx

/-- `genDeepUpdate`. -/
def genDeep (c : Cfg) (now prev : List Nat) : List (Nat × Nat) :=
  (List.range c.tracked.length).filterMap (fun trackedIdx =>
    let p := pushedIdx c trackedIdx (c.tracked.getD trackedIdx 0)
    if trackedIdx ≥ prev.length then
      if now.getD trackedIdx 0 == 0 then none
      else some (p % 65536, now.getD p 0 % 4294967296)
    else if prev.getD p 0 != now.getD p 0 then
      some (p % 65536, subMod (now.getD p 0) (prev.getD p 0) 4294967296)
    else none)

/-- `genShallowUpdate`. -/
def genShallow (c : Cfg) (now prev : List Nat) : List (Nat × Nat) :=
  (List.range c.tracked.length).filterMap (fun trackedIdx =>
    let p := pushedIdx c trackedIdx (c.tracked.getD trackedIdx 0)
    if p % 65536 ≥ prev.length then
      if now.getD p 0 == 0 then none
      else some (p % 65536, now.getD p 0 % 2)
    else if prev.getD p 0 % 2 != now.getD p 0 % 2 then some (p % 65536, 1)
    else none)

/-- `calcUpdate`. -/
def calcUpdate (c : Cfg) (shallow : Bool) (data last : TData) : Update :=
  let pairs := if shallow then genShallow c data.mTime last.mTime else genDeep c data.mTime last.mTime
  { idxs := pairs.map (·.1), ticks := pairs.map (·.2),
    q := subMod data.q last.q 65536, m := subMod data.m last.m 256, checksum := data.checksum }

/-- `calcUpdateMutations`: one deep diff per queued mutation, each against the
    previous one. -/
def calcUpdateMuts (c : Cfg) : List TData → TData → List Update
  | [], _ => []
  | d :: rest, prev => calcUpdate c false d prev :: calcUpdateMuts c rest d

/-- the client's copy. -/
structure Mirror where
  time : List Nat
  q : Nat
  m : Nat
deriving Repr, DecidableEq

def addAt (t : List Nat) (i v : Nat) : List Nat := t.modify i (· + v)

/-- `clockFromUpdate`. -/
def clockFromUpdate (u : Update) (mi : Mirror) : Mirror :=
  let time := (u.idxs.zip u.ticks).foldl (fun t p => if p.1 < t.length then addAt t p.1 p.2 else t) mi.time
  { time := time, q := mi.q + u.q, m := (mi.m + u.m) % 4294967296 }

/-- the client's tracked indexes into its own name list. -/
def clientTracked (c : Cfg) : List Nat :=
  if c.syncSchema then c.tracked else List.range c.tracked.length

/-- the checksum the client computes in `clockUpdate`. -/
def clientChecksum (c : Cfg) (after : Mirror) : Nat :=
  let s := if c.shallow then
      ((clientTracked c).filter (fun i => i < after.time.length && after.time.getD i 0 % 2 == 1)).eraseDups.length
    else lsum after.time
  checksum s after.q after.m

/-- `clockUpdate`: `none` = rejected (clock drift → full sync requested). -/
def clientApply (c : Cfg) (u : Update) (mi : Mirror) : Option Mirror :=
  let after := clockFromUpdate u mi
  if clientChecksum c after == u.checksum then some after else none

/-- `clockUpdateMutations`: stops at the first rejected update. -/
def clientApplyMuts (c : Cfg) : List Update → Mirror → Mirror × Bool
  | [], mi => (mi, true)
  | u :: rest, mi =>
    match clientApply c u mi with
    | some mi' => clientApplyMuts c rest mi'
    | none => (mi, false)

/-- the mirror right after the handshake. -/
def helloMirror (c : Cfg) (s : Snap) : Mirror := { time := helloTime c s, q := s.q, m := s.m }

end Am.Rpc
