/-
  L3c — the queue-processing protocol of `Machine.processQueue` as a small-step
  model for any number of caller goroutines (machine.go: queueMutation,
  processQueue). Shared: the CAS flag `queueProcessing`, the queue length.
  Per goroutine a program counter:

    idle    → (queueMutation: append)                     → pre
    pre     → queue empty: return Canceled                 → done
            → otherwise                                    → cas
    cas     → flag free: take it                           → loop
            → flag taken: return Queued                    → done
    loop    → queue non-empty: shift one, run it            → loop
            → queue empty                                  → release
    release → flag := false                                → recheck / done

  `recheck = true` is the protocol with the re-check after the release (the
  repair discussed in DESIGN.md); `recheck = false` is the pinned code.
-/
namespace Am.QP

inductive Pc | idle | pre | cas | loop | release | recheck | done
deriving Repr, DecidableEq

structure St where
  flag : Bool
  queue : Nat
  pcs : List Pc
deriving Repr, DecidableEq

def setPc (l : List Pc) (i : Nat) (p : Pc) : List Pc := l.set i p

/-- one step of goroutine `i`; `none` = that goroutine cannot move. -/
def step (recheck : Bool) (s : St) (i : Nat) : Option St :=
  match s.pcs[i]? with
  | none => none
  | some pc =>
    match pc with
    | .idle => some { s with queue := s.queue + 1, pcs := setPc s.pcs i .pre }
    | .pre =>
      if s.queue > 0 then some { s with pcs := setPc s.pcs i .cas }
      else some { s with pcs := setPc s.pcs i .done }
    | .cas =>
      if s.flag then some { s with pcs := setPc s.pcs i .done }
      else some { s with flag := true, pcs := setPc s.pcs i .loop }
    | .loop =>
      if s.queue > 0 then some { s with queue := s.queue - 1 }
      else some { s with pcs := setPc s.pcs i .release }
    | .release =>
      some { s with flag := false, pcs := setPc s.pcs i (if recheck then .recheck else .done) }
    | .recheck =>
      if s.queue > 0 then some { s with pcs := setPc s.pcs i .pre }
      else some { s with pcs := setPc s.pcs i .done }
    | .done => none

/-- run a schedule (list of goroutine indexes; moves that are not enabled are skipped). -/
def run (recheck : Bool) (s : St) (sched : List Nat) : St :=
  sched.foldl (fun s i => (step recheck s i).getD s) s

def init (n : Nat) : St := { flag := false, queue := 0, pcs := List.replicate n .idle }

/-- goroutines inside the critical region (they hold the flag). -/
def holders (s : St) : Nat := (s.pcs.filter (fun p => p == .loop || p == .release)).length

/-- a goroutine that is certain to look at the queue length again. -/
def watching (s : St) (p : Pc) : Bool :=
  p == .pre || p == .loop || p == .release || p == .recheck || (p == .cas && !s.flag)

def quiescent (s : St) : Bool := s.pcs.all (· == .done)

end Am.QP
