/-
  L3f — lock discipline (C12). Two parts:

  * a trace model of threads acquiring / releasing reader-writer locks and
    accessing shared locations (`Ev`, `stepL`, `runL`);
  * the shape of the generated lock table (`Row`) and of the hand-written guard
    expectations (`Guard`, `rowOK`), checked against each other by `decide`.
-/
namespace Am.Lockset

/-! ### traces -/

inductive Act
  | acq (l : Nat) (w : Bool)
  | rel (l : Nat)
  | access (x : Nat) (w : Bool)
deriving Repr, DecidableEq

structure Ev where
  tid : Nat
  act : Act
deriving Repr, DecidableEq

/-- who holds what: (thread, lock, write mode). -/
abbrev Held := List (Nat × Nat × Bool)

/-- sync.RWMutex: a writer needs the lock free, a reader needs no writer. Not re-entrant. -/
def canAcq (h : Held) (l : Nat) (w : Bool) : Bool :=
  if w then h.all (fun e => e.2.1 != l) else h.all (fun e => !(e.2.1 == l && e.2.2))

/-- one event; `none` = the event is impossible in this state (a blocked acquire,
    a release of something not held). -/
def stepL (h : Held) (e : Ev) : Option Held :=
  match e.act with
  | .acq l w => if canAcq h l w then some ((e.tid, l, w) :: h) else none
  | .rel l =>
    if h.any (fun x => x.1 == e.tid && x.2.1 == l) then
      some (h.eraseP (fun x => x.1 == e.tid && x.2.1 == l))
    else none
  | .access _ _ => some h

def runL : Held → List Ev → Option Held
  | h, [] => some h
  | h, e :: r => match stepL h e with | some h' => runL h' r | none => none

def holds (h : Held) (t l : Nat) (w : Bool) : Bool := h.any (fun e => e.1 == t && e.2.1 == l && (e.2.2 || !w))

/-! ### the generated table and the expectations -/

structure Row where
  field : String
  func : String
  write : Bool
  locks : List (String × Bool)
  async : Bool
  kind : String
deriving Repr, DecidableEq

inductive Guard
  /-- writes hold `l` in write mode, reads hold it in any mode -/
  | lock (l : String)
  /-- written only by constructors, before the object is shared -/
  | initOnly
  /-- sync/atomic value or channel: synchronised by its type -/
  | byType
  /-- not covered by the discipline; the reason is in the expectation file -/
  | exempt
deriving Repr, DecidableEq

def hasLock (r : Row) (l : String) (needW : Bool) : Bool :=
  r.locks.any (fun x => x.1 == l && (x.2 || !needW))

/-- is the row inside the discipline of its field's guard, or a listed exception? -/
def rowOK (guards : List (String × Guard)) (ctors : List String)
    (exceptions : List (String × String × Bool)) (r : Row) : Bool :=
  if r.kind == "atomic" || r.kind == "chan" then true else
  match guards.lookup r.field with
  | none => false                      -- an unknown field needs a decision
  | some .byType => false              -- declared synchronised by type but is not
  | some .exempt => true
  | some .initOnly => !r.write || ctors.contains r.func
  | some (.lock l) =>
    ctors.contains r.func || hasLock r l r.write || exceptions.contains (r.field, r.func, r.write)

end Am.Lockset
