/-
  L1 — the default relations resolver.
  Anchors: /repo/pkg/machine/relations.go
    NewSchema / TopologicalSort, TargetStates, parseAdd, parseRequire,
    stateBlockedBy, SortStates, sortRequire.
  Go's `sort.SliceStable` runs plain insertion sort for n ≤ 20
  (sort/zsortfunc.go: stable_func, insertionSort_func); modelled literally.
-/
import AmVerif.Model.Schema
namespace Am

/-! ### insertion sort exactly as `insertionSort_func` -/

/-- insert `x` into the already processed prefix, given reversed (head = last).
    `for j := i; j > a && less(j, j-1); j-- { swap }`. -/
def insertRev (less : Nat → Nat → Bool) (x : Nat) : S → S
  | [] => [x]
  | y :: ys => if less x y then y :: insertRev less x ys else x :: y :: ys

def isort (less : Nat → Nat → Bool) (l : S) : S :=
  (l.foldl (fun acc x => insertRev less x acc) []).reverse

/-! ### topology (`NewSchema`) -/

structure TopoSt where
  visited : S := []
  temp : S := []
  stack : S := []
deriving Repr, DecidableEq

/-- `visit` of `TopologicalSort`; `none` = Require cycle.  Fuel bounds the
    recursion depth (a path longer than `n` nodes repeats one, which `temp`
    catches first). -/
def topoVisit (sch : Schema) : Nat → Nat → TopoSt → Option TopoSt
  | 0, _, _ => none
  | fuel + 1, node, st =>
    if st.temp.contains node then none
    else if st.visited.contains node then some st
    else
      let st1 := { st with temp := node :: st.temp }
      match (sch.get node).require.foldlM (fun s nb => topoVisit sch fuel nb s) st1 with
      | none => none
      | some st2 =>
        some { st2 with temp := st2.temp.erase node, visited := node :: st2.visited,
                        stack := st2.stack ++ [node] }

/-- `rr.topology`: computed over `index` (the state-name order the machine had
    when `NewSchema` ran); empty when there is a Require cycle. -/
def topology (sch : Schema) (index : S) : S :=
  let srcs := index.filter (fun i => !(sch.get i).require.isEmpty)
  match srcs.foldlM (fun s node => topoVisit sch (sch.n + 1) node s) ({} : TopoSt) with
  | none => []
  | some st => st.stack

/-! ### resolver context -/

structure RCtx where
  sch : Schema
  /-- `rr.statesBefore` -/
  before : S
  /-- `t.Type() == MutationRemove` -/
  isRemove : Bool
  /-- `t.Mutation.Called` -/
  called : S
  /-- `rr.topology` -/
  topo : S
deriving Repr

/-- the Add relation of `name`, minus states called for removal. -/
def addStatesOf (c : RCtx) (name : Nat) : S :=
  (c.sch.get name).add.filter (fun a => !(c.isRemove && c.called.contains a))

/-- one `for _, name := range ret` pass of `parseAdd` over the snapshot. -/
def parseAddPass (c : RCtx) : S → S → S → Bool → S × S × Bool
  | [], ret, visited, changed => (ret, visited, changed)
  | name :: rest, ret, visited, changed =>
    if c.before.contains name && !(c.sch.get name).multi then
      parseAddPass c rest ret visited changed
    else if visited.contains name then
      parseAddPass c rest ret visited changed
    else
      let adds := addStatesOf c name
      if adds.isEmpty then parseAddPass c rest ret visited changed
      else parseAddPass c rest (ret ++ adds) (visited ++ [name]) true

def parseAddLoop (c : RCtx) : Nat → S → S → S
  | 0, ret, _ => ret
  | fuel + 1, ret, visited =>
    let (ret', visited', changed) := parseAddPass c ret ret visited false
    if changed then parseAddLoop c fuel ret' visited' else ret'

/-- `parseAdd` (after the `fix:` commit: ranges over the growing result). Every
    productive pass visits a new state with a non-empty Add list, so `n + 1`
    passes suffice. -/
def parseAdd (c : RCtx) (states : S) : S := parseAddLoop c (c.sch.n + 1) states []

/-- `parseAdd` as the pinned snapshot had it: it ranges over its *input*, so a
    single call follows one hop. -/
def parseAddPinned (c : RCtx) (states : S) : S :=
  (parseAddPass c states states [] false).1

/-- one filter pass of `parseRequire`. -/
def reqPass (sch : Schema) (states : S) : S :=
  states.filter (fun name => (sch.get name).require.all (fun r => states.contains r))

/-- `parseRequire`: filter until the length stops changing. -/
def parseRequireLoop (sch : Schema) : Nat → S → S
  | 0, states => states
  | fuel + 1, states =>
    let next := reqPass sch states
    if next.length == states.length then next else parseRequireLoop sch fuel next

def parseRequire (sch : Schema) (states : S) : S :=
  parseRequireLoop sch (states.length + 1) states

/-- `stateBlockedBy`. -/
def blockedBy (sch : Schema) (blocking : S) (blocked : Nat) : S :=
  blocking.filter (fun b => (sch.get b).remove.contains blocked)

/-- the reverse scan of `TargetStates` with `alreadyBlocked`. -/
def scanBlocked (sch : Schema) (blocking : S) : S → S → S
  | [], _ => []
  | name :: rest, already =>
    let bb := (blockedBy sch blocking name).filter (fun b => !already.contains b)
    if bb.isEmpty then name :: scanBlocked sch blocking rest already
    else scanBlocked sch blocking rest (name :: already)

def topoKey (topo : S) (x : Nat) : Nat :=
  match indexOf? topo x with
  | some i => i + 1
  | none => 0

def sortRequire (topo : S) (l : S) : S :=
  isort (fun a b => topoKey topo a < topoKey topo b) l

def afterLess (sch : Schema) (a b : Nat) : Bool :=
  !(sch.get a).after.contains b && (sch.get b).after.contains a

/-- `SortStates`. -/
def sortStates (sch : Schema) (topo : S) (l : S) : S :=
  isort (afterLess sch) (sortRequire topo l)

/-- the list just before the final sort. -/
def targetUnsorted (c : RCtx) (statesToSet : S) : S :=
  let s1 := parseRequire c.sch (uniq (parseAdd c statesToSet))
  let resolved := scanBlocked c.sch s1 s1.reverse []
  let toRemove := (resolved.map (fun n => (c.sch.get n).remove)).flatten
  let r2 := uniq ((parseAdd c resolved).filter (fun n => !toRemove.contains n))
  parseRequire c.sch r2.reverse

/-- `TargetStates`. -/
def targetStates (c : RCtx) (statesToSet : S) : S :=
  sortStates c.sch c.topo (targetUnsorted c statesToSet)

/-- `Transition.statesToSet`. -/
inductive MutKind | add | remove | set
deriving Repr, DecidableEq, Inhabited

def statesToSet (kind : MutKind) (active called : S) : S :=
  match kind with
  | .remove => active.filter (fun s => !called.contains s)
  | .add => called ++ active
  | .set => called

end Am
