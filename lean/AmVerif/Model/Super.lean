/-
  L3h — node supervisor bookkeeping (pkg/node/supervisor.go): the worker map,
  the fork gates, PoolReady's Enter/Exit gates, the error counter and the kill
  request. Workers are identified by a number (their address). How many workers
  are ready is an input (it comes from the workers), everything else is state.
-/
namespace Am.Super

structure Cfg where
  min : Nat
  max : Nat
  warm : Nat
  errKill : Nat
deriving Repr, DecidableEq

/-- `Supervisor.min()`: Min capped by Max. -/
def Cfg.minEff (c : Cfg) : Nat := if c.min > c.max then c.max else c.min

structure St where
  tracked : List (Nat × Nat) := []   -- (address, long-term error count)
  inflight : Nat := 0                -- pinned gates only (`stepPinned`): forks past the gate whose SetWorker has not run yet
  poolReady : Bool := false
  killReq : List Nat := []
deriving Repr, DecidableEq

inductive Ev
  /-- ForkWorkerEnter / ForkingWorkerEnter + ForkingWorkerState: the fork with boot address `a`
      asks to pass; when it does it is entered in the map at once -/
  | forkGate (a : Nat)
  /-- an Add of SetWorker with a WorkerInfo for address `a` (SetWorkerEnter + SetWorkerState) -/
  | setWorker (a : Nat)
  /-- pinned gates only: a fork failed after the gate (never reached SetWorker) -/
  | forkFailed
  /-- SetWorkerState without info / WorkerKilledState: the entry is deleted -/
  | delWorker (a : Nat)
  /-- WorkerForkedState: the boot address `a` is replaced by the local address `b` -/
  | workerForked (a b : Nat)
  /-- ErrWorkerState for worker `a` (not the kill sentinel) -/
  | errWorker (a : Nat)
  /-- an attempt to add PoolReady while `ready` workers are ready -/
  | addPoolReady (ready : Nat)
  /-- an attempt to remove PoolReady while `ready` workers are ready -/
  | remPoolReady (ready : Nat)
deriving Repr, DecidableEq

/-- what one supervisor transition answers. -/
inductive Out
  | ok
  | vetoed
  | kill (a : Nat)
deriving Repr, DecidableEq

def hasW (s : St) (a : Nat) : Bool := s.tracked.any (fun w => w.1 == a)

/-- a map: setting an address overwrites its entry. -/
def setW (s : St) (a : Nat) : St := { s with tracked := (s.tracked.filter (fun w => w.1 != a)) ++ [(a, 0)] }

def step (c : Cfg) (s : St) : Ev → St × Out
  | .forkGate a =>
    -- fix 06f8e10: a fork that passes the gate is tracked from that moment on
    if s.tracked.length < c.max then (setW s a, .ok) else (s, .vetoed)
  | .setWorker a =>
    -- fix 06f8e10: SetWorkerEnter lets an entry in when the address is tracked already or there is room
    if hasW s a || s.tracked.length < c.max then (setW s a, .ok) else (s, .vetoed)
  | .forkFailed => (s, .ok)
  | .delWorker a => ({ s with tracked := s.tracked.filter (fun w => w.1 != a) }, .ok)
  | .workerForked a b =>
    match s.tracked.find? (fun w => w.1 == a) with
    | none => (s, .vetoed)   -- ErrWorkerMissing
    | some w => ({ s with tracked := (s.tracked.filter (fun x => x.1 != a && x.1 != b)) ++ [(b, w.2)] }, .ok)
  | .errWorker a =>
    match s.tracked.find? (fun w => w.1 == a) with
    | none => (s, .ok)
    | some w =>
      let s' := { s with tracked := s.tracked.map (fun x => if x.1 == a then (x.1, x.2 + 1) else x) }
      if w.2 + 1 > c.errKill then ({ s' with killReq := s'.killReq ++ [a] }, .kill a) else (s', .ok)
  | .addPoolReady ready =>
    if s.poolReady then (s, .ok)
    else if ready ≥ c.minEff then ({ s with poolReady := true }, .ok) else (s, .vetoed)
  | .remPoolReady ready =>
    if !s.poolReady then (s, .ok)
    else if ready < c.minEff then ({ s with poolReady := false }, .ok) else (s, .vetoed)

def run (c : Cfg) (s : St) (evs : List Ev) : St := evs.foldl (fun s e => (step c s e).1) s

/-- the gates of the pinned commit (before fix 06f8e10): they look at the map only, and a fork
    enters the map with SetWorker, which nothing gates. Every other event as in `step`. -/
def stepPinned (c : Cfg) (s : St) : Ev → St × Out
  | .forkGate _ =>
    if s.tracked.length < c.max then ({ s with inflight := s.inflight + 1 }, .ok) else (s, .vetoed)
  | .setWorker a => ({ setW s a with inflight := s.inflight - 1 }, .ok)
  | .forkFailed => ({ s with inflight := s.inflight - 1 }, .ok)
  | e => step c s e

def runPinned (c : Cfg) (s : St) (evs : List Ev) : St := evs.foldl (fun s e => (stepPinned c s e).1) s

/-- forks a normalizing round asks for: up to `min()+Warm`, never beyond `Max`. -/
def forksWanted (c : Cfg) (tracked : Nat) : Nat := (Nat.min (c.minEff + c.warm) c.max) - tracked

end Am.Super
