/-
  Schema after `Schema.Parse` + `VerifyStates`: state `i` is `states[i]`.
  Anchors: /repo/pkg/machine/mach_utils.go (type State), machine.go New().
-/
import AmVerif.Model.ListSet
namespace Am

structure StateDef where
  auto : Bool := false
  multi : Bool := false
  require : S := []
  add : S := []
  remove : S := []
  after : S := []
deriving Repr, DecidableEq, Inhabited

structure Schema where
  states : List StateDef
  /-- index of the `Exception` state (always defined by `New`). -/
  exc : Nat := 0
  /-- indices of `Healthcheck` / `Heartbeat` when the schema defines them. -/
  health : S := []
deriving Repr, DecidableEq, Inhabited

namespace Schema
def n (s : Schema) : Nat := s.states.length
/-- `m.schema[name]`; the Go map returns the zero `State` for a missing key. -/
def get (s : Schema) (i : Nat) : StateDef := s.states.getD i {}
def idx (s : Schema) : S := List.range s.n
end Schema

end Am
