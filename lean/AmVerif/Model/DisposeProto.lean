/-
  L3d — the disposal protocol of `Machine.Dispose` / `DisposeForce` / `doDispose`
  against the queue loop of `processQueue`, as a small-step model for any number
  of mutating and disposing goroutines (machine.go). Shared: the queue lock
  `queueProcessing`, the flags `disposing`, `disposed`, `unlockDisposed`, the
  queue length. Per goroutine a program counter.

  A mutating caller (Add / Remove / Set → queueMutation → processQueue):

    idle    → disposing: return Canceled                          → done
            → otherwise append                                     → pre
    pre     → queue empty or disposing: return                     → done
            → otherwise                                            → cas
    cas     → lock free: take it                                   → loop
            → lock taken: return Queued                            → done
    loop    → queue non-empty, disposing: return (lock kept)       → done
            → queue non-empty: shift one, a transition starts       → running
            → queue empty                                          → release
    running → the transition ends                                  → loop
    release → lock := false                                        → recheck
    recheck → queue non-empty and not disposing                    → pre
            → otherwise                                            → done

  A disposer (graceful: `Dispose()`'s goroutine; force: `DisposeForce()`):

    start   → disposing: return                                    → done
            → (pinned order: lock := false) unlockDisposed := true → enter
    enter   → disposed, or CAS(disposing) lost: return             → done
            → disposing := true (fixed order: if unlockDisposed, lock := false)
                                                                   → wait / gate
    wait    → (the wait for the queue to end or DisposeTimeout)     → gate
    gate    → CAS(disposed) lost: return                           → done
            → disposed := true                                     → body
    body    → close(errInternal), subscriptions, dispose handlers,
              cancel, close(whenDisposed): once                    → tail
    tail    → if unlockDisposed: unlockDisposed := false, lock := false → done

  `fixed = true` is the order after fix dbdc9be (the lock is let go after the
  disposal has been flagged), `fixed = false` the pinned order.
-/
namespace Am.DP

inductive MPc | idle | pre | cas | loop | running | release | recheck | done
deriving Repr, DecidableEq

inductive DPc | start | enter | wait | gate | body | tail | done
deriving Repr, DecidableEq

inductive Th
  | caller (pc : MPc)
  | disp (force : Bool) (pc : DPc)
deriving Repr, DecidableEq

structure St where
  lock : Bool := false
  disposing : Bool := false
  disposed : Bool := false
  unlockD : Bool := false
  queue : Nat := 0
  /-- transitions started so far -/
  started : Nat := 0
  /-- how many times the body of doDispose has run -/
  bodyRuns : Nat := 0
  /-- the tracer callbacks that bracket a transition, in the order they are made by whichever
      goroutine runs it: `true` = TransitionInit, `false` = TransitionEnd -/
  trace : List Bool := []
  ths : List Th := []
deriving Repr, DecidableEq

def setTh (s : St) (i : Nat) (t : Th) : St := { s with ths := s.ths.set i t }

def stepMut (s : St) (i : Nat) : MPc → Option St
  | .idle =>
    if s.disposing then some (setTh s i (.caller .done))
    else some (setTh { s with queue := s.queue + 1 } i (.caller .pre))
  | .pre =>
    if s.queue = 0 ∨ s.disposing then some (setTh s i (.caller .done))
    else some (setTh s i (.caller .cas))
  | .cas =>
    if s.lock then some (setTh s i (.caller .done))
    else some (setTh { s with lock := true } i (.caller .loop))
  | .loop =>
    if s.queue > 0 then
      if s.disposing then some (setTh s i (.caller .done))
      else some (setTh { s with queue := s.queue - 1, started := s.started + 1, trace := s.trace ++ [true] } i
        (.caller .running))
    else some (setTh s i (.caller .release))
  | .running => some (setTh { s with trace := s.trace ++ [false] } i (.caller .loop))
  | .release => some (setTh { s with lock := false } i (.caller .recheck))
  | .recheck =>
    if s.queue > 0 ∧ ¬ s.disposing then some (setTh s i (.caller .pre))
    else some (setTh s i (.caller .done))
  | .done => none

def stepDisp (fixed : Bool) (s : St) (i : Nat) (force : Bool) : DPc → Option St
  | .start =>
    if s.disposing then some (setTh s i (.disp force .done))
    else some (setTh { s with lock := if fixed then s.lock else false, unlockD := true } i (.disp force .enter))
  | .enter =>
    if s.disposed ∨ s.disposing then some (setTh s i (.disp force .done))
    else some (setTh { s with disposing := true, lock := if fixed && s.unlockD then false else s.lock } i
      (.disp force (if force then .gate else .wait)))
  | .wait => some (setTh s i (.disp force .gate))
  | .gate =>
    if s.disposed then some (setTh s i (.disp force .done))
    else some (setTh { s with disposed := true } i (.disp force .body))
  | .body => some (setTh { s with bodyRuns := s.bodyRuns + 1 } i (.disp force .tail))
  | .tail =>
    if s.unlockD then some (setTh { s with unlockD := false, lock := false } i (.disp force .done))
    else some (setTh s i (.disp force .done))
  | .done => none

/-- one step of goroutine `i`; `none` = that goroutine cannot move. -/
def step (fixed : Bool) (s : St) (i : Nat) : Option St :=
  match s.ths[i]? with
  | none => none
  | some (.caller pc) => stepMut s i pc
  | some (.disp force pc) => stepDisp fixed s i force pc

/-- run a schedule (moves that are not enabled are skipped). -/
def run (fixed : Bool) (s : St) (sched : List Nat) : St :=
  sched.foldl (fun s i => (step fixed s i).getD s) s

/-- `n` mutating callers, `g` graceful and `f` forced disposers (a forced one starts inside doDispose). -/
def init (n g f : Nat) : St :=
  { ths := List.replicate n (.caller .idle) ++ List.replicate g (.disp false .start) ++
      List.replicate f (.disp true .enter) }

def isRunning : Th → Bool
  | .caller .running => true
  | _ => false

def isHolder : Th → Bool
  | .caller .loop => true
  | .caller .running => true
  | .caller .release => true
  | _ => false

def inBody : Th → Bool
  | .disp _ .body => true
  | _ => false

/-- a disposer past the CAS on `disposing`. -/
def pastEnter : Th → Bool
  | .disp _ .wait => true
  | .disp _ .gate => true
  | .disp _ .body => true
  | .disp _ .tail => true
  | _ => false

/-- reading a callback trace: the number of transitions open at its end, `none` when a
    TransitionInit comes while one is open or a TransitionEnd while none is. -/
def trStep (o : Option Nat) (b : Bool) : Option Nat :=
  o.bind (fun n => if b then (if n = 0 then some 1 else none) else (if n = 1 then some 0 else none))

def openAfter (l : List Bool) : Option Nat := l.foldl trStep (some 0)

/-- goroutines inside a transition. -/
def running (s : St) : Nat := (s.ths.filter isRunning).length
def holders (s : St) : Nat := (s.ths.filter isHolder).length
def bodies (s : St) : Nat := (s.ths.filter inBody).length

end Am.DP
