/-
  L3e — pkg/history, in-memory backend: the tracer's match rule, record
  construction, rotation, and FindLatest; plus Machine.Export / Import.
  States are machine state indexes; `tracked` is the list of tracked state
  indexes in the order of `Cfg.TrackedStates` (after `NewMemory`'s
  normalisation). Human time is a slot number handed in by the harness.
-/
import AmVerif.Model.ListSet
import AmVerif.Model.Time
namespace Am.Hist

structure Cfg where
  called : S := []
  calledExclude : Bool := false
  changed : S := []
  changedExclude : Bool := false
  trackRejected : Bool := false
  tracked : S := []
  maxRecords : Nat := 1000
deriving Repr, DecidableEq

/-- what the tracer sees of one transition. -/
structure Tx where
  accepted : Bool
  isCheck : Bool
  called : S
  before : List Nat
  after : List Nat
  machTick : Nat
  /-- human-time slot of `TransitionEnd` -/
  slot : Nat
  mutType : Nat := 0
deriving Repr, DecidableEq

structure Rec where
  mutType : Nat
  sum : Nat
  trackedSum : Nat
  diffSum : Nat
  trackedDiffSum : Nat
  recordDiff : Nat
  machTick : Nat
  slot : Nat
  tracked : List Nat
  trackedDiff : List Nat
deriving Repr, DecidableEq

def tsum (t : List Nat) : Nat := t.foldl (· + ·) 0
def tfilter (t : List Nat) (idxs : S) : List Nat := idxs.map (fun i => t.getD i 0)
/-- `Time.DiffSince`: element-wise `after - before`. -/
def tdiff (after before : List Nat) : List Nat :=
  (List.range after.length).map (fun i => after.getD i 0 - before.getD i 0)
/-- states whose tick changed. -/
def changedStates (tx : Tx) : S :=
  (List.range tx.after.length).filter (fun i => tx.after.getD i 0 != tx.before.getD i 0)

/-- the allow/block list loop of `TransitionEnd`: the first listed name decides. -/
def listLoop (names : S) (hit : Nat → Bool) (exclude : Bool) (m : Bool) : Bool :=
  match names.find? hit with
  | some _ => !exclude
  | none => m

/-- `tracer.TransitionEnd`: does the transition yield a record? -/
def txMatches (c : Cfg) (tx : Tx) : Bool :=
  if (!tx.accepted && !c.trackRejected) || tx.isCheck then false else
  let m0 := (c.changedExclude || c.changed.isEmpty) && (c.calledExclude || c.called.isEmpty)
  let m1 := listLoop c.called (fun n => tx.called.contains n) c.calledExclude m0
  listLoop c.changed (fun n => (changedStates tx).contains n) c.changedExclude m1

def mkRec (c : Cfg) (last : Option Rec) (tx : Tx) : Rec :=
  let sum := tsum tx.after
  let tr := tfilter tx.after c.tracked
  { mutType := tx.mutType, sum := sum, trackedSum := tsum tr,
    diffSum := sum - tsum tx.before,
    trackedDiffSum := tsum tr - tsum (tfilter tx.before c.tracked),
    recordDiff := match last with | some r => sum - r.sum | none => 0,
    machTick := tx.machTick, slot := tx.slot, tracked := tr,
    trackedDiff := tdiff tr (tfilter tx.before c.tracked) }

/-- one `TransitionEnd` on the in-memory store. -/
def track (c : Cfg) (db : List Rec) (tx : Tx) : List Rec :=
  if txMatches c tx then
    let r := mkRec c db.getLast? tx
    (if db.length ≥ c.maxRecords then db.drop 1 else db) ++ [r]
  else db

def trackAll (c : Cfg) (txs : List Tx) : List Rec := txs.foldl (track c) []

/-! ### queries -/

structure Cond where
  mtime : List Nat := []   -- with `mtimeStates` (positions in `tracked`)
  slot : Nat := 0          -- human time; 0 = unset
  sum : Nat := 0
  trackedSum : Nat := 0
  diff : Nat := 0
  trackedDiff : Nat := 0
  recordDiff : Nat := 0
  machTick : Nat := 0
deriving Repr, DecidableEq

structure Query where
  /-- positions in `tracked` -/
  active : S := []
  activated : S := []
  inactive : S := []
  deactivated : S := []
  mtimeStates : S := []
  start : Cond := {}
  stop : Cond := {}
deriving Repr, DecidableEq

def isActiveTick (t : Nat) : Bool := t % 2 == 1
def rng (s e v : Nat) : Bool := !(s != 0 && e != 0 && (v < s || v > e))

/-- does record `r` (with its older neighbour) satisfy the query? -/
def sat (q : Query) (r : Rec) (older : Option Rec) : Bool :=
  let tick := fun (x : Rec) (p : Nat) => x.tracked.getD p 0
  q.active.all (fun p => isActiveTick (tick r p)) &&
  q.activated.all (fun p => isActiveTick (tick r p) &&
    !(match older with | some o => isActiveTick (tick o p) | none => false)) &&
  q.inactive.all (fun p => !isActiveTick (tick r p)) &&
  q.deactivated.all (fun p => !isActiveTick (tick r p) &&
    !(match older with | some o => !isActiveTick (tick o p) | none => false)) &&
  (q.mtimeStates.isEmpty ||
    !(Am.tBefore false (q.mtimeStates.map (tick r)) q.start.mtime ||
      Am.tAfter false (q.mtimeStates.map (tick r)) q.stop.mtime)) &&
  rng q.start.slot q.stop.slot r.slot &&
  rng q.start.sum q.stop.sum r.sum &&
  rng q.start.trackedSum q.stop.trackedSum r.trackedSum &&
  rng q.start.diff q.stop.diff r.diffSum &&
  rng q.start.trackedDiff q.stop.trackedDiff r.trackedDiffSum &&
  rng q.start.recordDiff q.stop.recordDiff r.recordDiff &&
  rng q.start.machTick q.stop.machTick r.machTick

/-- the loop of `FindLatest`: newest first, each record judged with the record
    before it, stop at `limit` (0 = no limit). `rev` is the store reversed. -/
def findLoop (q : Query) (limit : Nat) : List Rec → List Rec → List Rec
  | [], acc => acc
  | r :: rest, acc =>
    if sat q r rest.head? then
      let acc' := acc ++ [r]
      if limit > 0 && acc'.length ≥ limit then acc' else findLoop q limit rest acc'
    else findLoop q limit rest acc

def findLatest (q : Query) (limit : Nat) (db : List Rec) : List Rec := findLoop q limit db.reverse []

/-! ### Export / Import -/

structure Ser where
  time : List Nat
  machTick : Nat
deriving Repr, DecidableEq

structure MState where
  clock : List Nat
  active : S
  machTick : Nat
deriving Repr, DecidableEq

def exportS (m : MState) : Ser := { time := m.clock, machTick := m.machTick }

/-- `Machine.Import` into a fresh machine of the same schema. -/
def importS (d : Ser) : MState :=
  { clock := d.time,
    active := (List.range d.time.length).filter (fun i => isActiveTick (d.time.getD i 0)),
    machTick := d.machTick + 1 }

end Am.Hist
