/-
  L3g — am-dbg: what the debugger derives from a telemetry stream and how it
  looks transitions up (tools/debugger/debugger.go hParseMsg, hFilterTx,
  hFilterTxCursor1; tools/debugger/server/dbg_server.go TxAtQueueTick,
  TxAtMachTime, TxIndex, HadErrSinceTx, TxExecutedBy; pkg/helpers
  GetTransitionStates).
-/
import AmVerif.Model.ListSet
namespace Am.Dbg

structure Msg where
  id : Nat
  clocks : List Nat
  qtick : Nat
  mutQTick : Nat := 0
  mutQToken : Nat := 0
  accepted : Bool := true
  isAuto : Bool := false
  isCheck : Bool := false
  isQueued : Bool := false
  /-- the called states are exactly one of Healthcheck / Heartbeat -/
  healthOnly : Bool := false
deriving Repr, DecidableEq, Inhabited

structure Parsed where
  timeSum : Nat
  timeDiff : Nat
  added : S
  removed : S
deriving Repr, DecidableEq

def isActiveTick (t : Nat) : Bool := t % 2 == 1
def csum (c : List Nat) : Nat := c.foldl (· + ·) 0

/-- `GetTransitionStates` over a state index of `n` names. `before = none` is the
    first record (its "previous clock" is nil). -/
def transitionStates (n : Nat) (before : Option (List Nat)) (after : List Nat) : S × S :=
  let isB := fun i => match before with | some b => isActiveTick (b.getD i 0) | none => false
  let isA := fun i => isActiveTick (after.getD i 0)
  let idx := List.range n
  let added := idx.filter (fun i =>
    (!isB i && isA i) ||
    (!(isB i && !isA i) && !(!isB i && isA i) &&
      (match before with | some b => b.getD i 0 != after.getD i 0 | none => false)))
  let removed := idx.filter (fun i => isB i && !isA i)
  (added, removed)

/-- `hParseMsg` for the record at the end of `prev` (newest last). -/
def parse (n : Nat) (prev : Option (Msg × Parsed)) (m : Msg) : Parsed :=
  let sum := csum m.clocks
  match prev with
  | none =>
    let ar := transitionStates n none m.clocks
    { timeSum := sum, timeDiff := sum, added := ar.1, removed := ar.2 }
  | some (pm, pp) =>
    if sum < csum pm.clocks then { timeSum := sum, timeDiff := 0, added := [], removed := [] }
    else
      let ar := transitionStates n (some pm.clocks) m.clocks
      { timeSum := sum, timeDiff := sum - pp.timeSum, added := ar.1, removed := ar.2 }

structure Client where
  n : Nat
  /-- index of Exception -/
  exc : Nat
  /-- indexes of the states whose name starts with `Err` -/
  errSt : List Nat := []
  msgs : List Msg := []
  parsed : List Parsed := []
  /-- indexes of records with an active error state, newest first -/
  errors : List Nat := []
deriving Repr

def Client.push (c : Client) (m : Msg) : Client :=
  let prev := match c.msgs.getLast?, c.parsed.getLast? with
    | some pm, some pp => some (pm, pp)
    | _, _ => none
  let p := parse c.n prev m
  let idx := c.msgs.length
  let bad := match prev with | some (pm, _) => csum m.clocks < csum pm.clocks | none => false
  let isErr := !bad && (c.errSt.any (fun e => isActiveTick (m.clocks.getD e 0)) || isActiveTick (m.clocks.getD c.exc 0))
  { c with msgs := c.msgs ++ [m], parsed := c.parsed ++ [p],
           errors := if isErr then idx :: c.errors else c.errors }

/-! ### lookups -/

/-- Go's `sort.Search(n, f)`: bisection. -/
def bisectLoop (f : Nat → Bool) : Nat → Nat → Nat → Nat
  | 0, i, _ => i
  | fuel + 1, i, j =>
    if i < j then
      let h := (i + j) / 2
      if !f h then bisectLoop f fuel (h + 1) j else bisectLoop f fuel i h
    else i

def bisect (n : Nat) (f : Nat → Bool) : Nat := bisectLoop f (n + 1) 0 n

/-- the linear scan it stands for: the first index `< n` where `f` holds, else `n`. -/
def firstTrue (n : Nat) (f : Nat → Bool) : Nat :=
  ((List.range n).find? f).getD n

def txAtQueueTick (c : Client) (q : Nat) : Int :=
  let l := c.msgs.length
  if l == 0 then -1 else
  let i := bisect l (fun i => (c.msgs.getD i default).qtick ≥ q)
  if i == l then (l - 1 : Nat) else i

/-- `slices.BinarySearchFunc` on `TimeSum`; not found = 0. -/
def txAtMachTime (c : Client) (sum : Nat) : Nat :=
  let l := c.parsed.length
  let i := bisect l (fun i => (c.parsed.getD i ⟨0, 0, [], []⟩).timeSum ≥ sum)
  if i < l && (c.parsed.getD i ⟨0, 0, [], []⟩).timeSum == sum then i else 0

def txIndex (c : Client) (id : Nat) : Int :=
  match c.msgs.findIdx? (fun m => m.id == id) with
  | some i => i
  | none => -1

def hadErrSince (c : Client) (tx distance : Nat) : Bool :=
  if c.errors.contains tx then true else
  let i := bisect c.errors.length (fun i => c.errors.getD i 0 < tx)
  if i ≥ c.errors.length then false else decide (tx - c.errors.getD i 0 < distance)

/-- `TxExecutedBy`: the execution record of a queued record. -/
def txExecutedBy (c : Client) (idx : Nat) : Option Msg :=
  match c.msgs[idx]? with
  | none => none
  | some tx =>
    if !tx.isQueued then none else
    (c.msgs.drop (idx + 1)).find? (fun ch =>
      !ch.isQueued && (ch.qtick == tx.mutQTick || (ch.mutQToken > 0 && ch.mutQToken == tx.mutQToken)))

/-! ### filters and navigation -/

structure Filters where
  skipCanceled : Bool := false
  skipAuto : Bool := false
  skipAutoCanceled : Bool := false
  skipEmpty : Bool := false
  skipHealth : Bool := false
  skipQueued : Bool := false
  skipChecks : Bool := false
deriving Repr, DecidableEq

/-- `filtersActive()`: any state of the debugger's `Filters` group. -/
def Filters.active (f : Filters) : Bool :=
  f.skipCanceled || f.skipAuto || f.skipAutoCanceled || f.skipEmpty || f.skipHealth || f.skipQueued ||
  f.skipChecks

/-- the Filters group as pinned, before the repair: `FilterChecks` was not in it. -/
def Filters.activePinned (f : Filters) : Bool :=
  f.skipCanceled || f.skipAuto || f.skipAutoCanceled || f.skipEmpty || f.skipHealth || f.skipQueued

/-- `hFilterTx`: does record `idx` pass the filters? (every branch of the Go
    function that returns false, in order; none of them has a side effect) -/
def filterTx (c : Client) (f : Filters) (idx : Nat) : Bool :=
  match c.msgs[idx]?, c.parsed[idx]? with
  | some tx, some p =>
    !(f.skipAuto && tx.isAuto) &&
    !(f.skipAutoCanceled && tx.isAuto && !tx.accepted) &&
    !(f.skipAutoCanceled && tx.isAuto && tx.isQueued &&
      (match txExecutedBy c idx with | some e => !e.accepted | none => false)) &&
    !(f.skipCanceled && !tx.accepted) &&
    !(f.skipQueued && tx.isQueued) &&
    !(f.skipChecks && tx.isCheck) &&
    !(f.skipEmpty && p.timeDiff == 0 && !tx.isQueued && tx.accepted) &&
    !(f.skipHealth && tx.healthOnly)
  | _, _ => false

/-- what the debugger treats as shown: with no group filter active nothing is
    skipped (`hIsTxSkipped`), whatever `MsgTxsFiltered` holds. -/
def shown (c : Client) (f : Filters) (idx : Nat) : Bool :=
  if f.active then filterTx c f idx else decide (idx < c.msgs.length)

def filtered (c : Client) (f : Filters) : List Nat :=
  (List.range c.msgs.length).filter (filterTx c f)

/-- `hFilterTxCursor1`: move a 1-based cursor off filtered-out records. `cur` is
    the cursor before the move (the fallback). -/
def fixCursorLoop (skipped : Nat → Bool) (len cur : Nat) (back : Bool) : Nat → Nat → Nat
  | 0, c => c
  | fuel + 1, c =>
    if c < 1 then 0
    else if c > len then (if cur ≥ 1 && !skipped (cur - 1) then cur else 0)
    else if skipped (c - 1) then
      (if back then fixCursorLoop skipped len cur back fuel (c - 1)
       else fixCursorLoop skipped len cur back fuel (c + 1))
    else c

def fixCursor (c : Client) (f : Filters) (cur new : Nat) (back : Bool) : Nat :=
  if !f.active then new else
  fixCursorLoop (fun i => !(filterTx c f i)) c.msgs.length cur back (c.msgs.length + 2) new

/-- the view: the filtered list when a group filter is active, everything otherwise. -/
def view (c : Client) (f : Filters) : List Nat :=
  if f.active then filtered c f else List.range c.msgs.length

def viewPinned (c : Client) (f : Filters) : List Nat :=
  if f.activePinned then filtered c f else List.range c.msgs.length

/-- `Fwd` / `Back` by `amount ≥ 1` (the Enter handlers' guards included). -/
def fwd (c : Client) (f : Filters) (cur amount : Nat) : Nat :=
  if cur + amount ≤ c.msgs.length then fixCursor c f cur (cur + amount) false else cur

def back (c : Client) (f : Filters) (cur amount : Nat) : Nat :=
  if amount ≤ cur then fixCursor c f cur (cur - amount) true else cur

end Am.Dbg
