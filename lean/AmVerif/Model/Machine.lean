/-
  L2/L3 — transition, handlers (as an oracle), sequential queue, tracer stream.
  Anchors: /repo/pkg/machine/transition.go (newTransition, setupAccepted,
  setupExitEnter, emit*Events, emitEvents), machine.go (Add/Remove/Set/CanAdd/
  CanRemove/AddErr guards, queueMutation, PrependMut, processQueue, handle,
  processHandlers, recoverToErr, recoverFinalPhase, setActiveStates,
  detectQueueDuplicates/IsQueued), relations.go (NewAutoMutation).
  Bug-for-bug; Go panics on the caller goroutine are `crashed`.
-/
import AmVerif.Model.Resolver
import AmVerif.Model.Subs
namespace Am

/-! ### handler names, oracle -/

inductive HName
  | enter (i : Nat) | exit (i : Nat) | state (i : Nat) | end_ (i : Nat)
  | trans (i j : Nat)         -- `FooBar`, `FooFoo` (self)
  | anyEnter | anyState
deriving Repr, DecidableEq, Inhabited

def HName.isFinalName : HName → Bool
  | .state _ | .end_ _ | .anyState => true
  | _ => false

/-- what a handler does when called. `timeout` = overruns HandlerTimeout but
    returns within HandlerDeadline. -/
inductive Action | ret (b : Bool) | panic | timeout
  | detach (b : Nat)      -- `HandlersDetach` of binding `b` from inside the handler, then `true`
deriving Repr, DecidableEq, Inhabited

/-- a mutation issued from inside a handler (or by the user). -/
structure MutReq where
  kind : MutKind
  states : S
  hasArgs : Bool := false
  /-- the args carry `x: 1` (matched by `WhenArgs`) -/
  hasX : Bool := false
deriving Repr, DecidableEq, Inhabited

/-- a subscription call (made by the user between transitions or by a handler). -/
inductive SubReq
  | when (neg : Bool) (states : S) (ctx : Option Nat)
  | time (states : S) (times : List Nat) (ctx : Option Nat)
  | ticks (state n : Nat) (ctx : Option Nat)
  | next (state : Nat) (ctx : Option Nat)
  | query (state minTick : Nat) (ctx : Option Nat)
  | args (state : Nat) (needsX : Bool) (ctx : Option Nat)
  | queue (tick : Nat)
  | queueEnds
  | stateCtx (state : Nat)
deriving Repr, DecidableEq, Inhabited

structure Behaviour where
  muts : List MutReq := []
  subs : List SubReq := []
  act : Action := .ret true
deriving Repr, DecidableEq, Inhabited

/-- `oracle bind name nth`: behaviour of the `nth` (0-based) call of handler
    `name` of binding `bind`; `none` = the binding does not define the handler. -/
abbrev Oracle := Nat → HName → Nat → Option Behaviour

/-! ### mutations, events, machine -/

structure Mut where
  kind : MutKind
  called : S
  isAuto : Bool := false
  isCheck : Bool := false
  hasArgs : Bool := false
  hasX : Bool := false
  /-- `QueueTick`; 0 for prepended mutations. -/
  qtick : Nat := 0
  /-- prepended `Exception` produced by `recoverToErr` (for the trace only). -/
  isRecover : Bool := false
  /-- `Mutation.Called` as stored (CanAdd/CanRemove keep duplicates there;
      `CalledStates()` is the uniq'd `called`). -/
  raw : S := called
deriving Repr, DecidableEq, Inhabited

inductive Res | executed | canceled | queued (tick : Nat)
deriving Repr, DecidableEq, Inhabited

inductive Ev
  | h (bind : Nat) (name : HName) (active : S)
  | tInit (m : Mut) (before : S) (tb ta : List Nat) (target : S) (acc : Bool)
  | tStart (acc : Bool)
  | tFinals (ta : List Nat) (active : S)
  | tEnd (tb ta : List Nat) (acc : Bool) (active : S) (qlen : Nat)
  | mq (m : Mut)
  | qEnd
  | errInternal
  /-- a mutation call made from inside a handler: queue length seen, result -/
  | nested (r : MutReq) (qlen : Nat) (res : Res)
  /-- a subscription made from inside a handler and the channel / context id it got
      (`none` = the shared closed channel) -/
  | subbed (r : SubReq) (out : Option Nat)
deriving Repr, DecidableEq, Inhabited

structure Mach where
  sch : Schema
  /-- `rr.topology` (fixed at `New`) -/
  topo : S
  /-- number of handler bindings -/
  nbind : Nat := 0
  active : S := []
  clock : List Nat
  queue : List Mut := []
  queueTick : Nat := 1
  pending : Nat := 0
  limit : Nat := 1000
  backoff : Bool := false
  /-- `handlerLoopRunning` -/
  hasHandlers : Bool := false
  /-- bindings removed by `HandlersDetach` -/
  detached : S := []
  /-- per (binding, handler) call counters -/
  counts : List ((Nat × HName) × Nat) := []
  /-- `m.t != nil` (set while the queue drains) -/
  inTx : Bool := false
  /-- a Go panic escaped on the caller goroutine -/
  crashed : Bool := false
  subs : Subs := {}
  disposed : Bool := false
  log : List Ev := []
deriving Repr, Inhabited

def Mach.tick (m : Mach) (i : Nat) : Nat := m.clock.getD i 0
def Mach.isActive (m : Mach) (i : Nat) : Bool := m.active.contains i
/-- `m.is(states)` -/
def Mach.is (m : Mach) (l : S) : Bool := l.all (fun s => s < m.sch.n && m.active.contains s)
/-- `m.not(states)` -/
def Mach.not (m : Mach) (l : S) : Bool := noneOf l m.active
def Mach.emit (m : Mach) (e : Ev) : Mach := { m with log := m.log ++ [e] }

def incr (clock : List Nat) (i d : Nat) : List Nat := clock.modify i (· + d)

/-- tick step of a target state in `setActiveStates`: +1 when newly active,
    +2 for an already active, directly called Multi state, else 0. -/
def tickDelta (sch : Schema) (active called : S) (name : Nat) : Nat :=
  if !active.contains name then 1
  else if called.contains name && (sch.get name).multi then 2
  else 0

/-- the clock part of `setActiveStates(called, target, _)`. -/
def tickClock (sch : Schema) (active : S) (clock : List Nat) (called target : S) : List Nat :=
  let clock1 := target.foldl (fun c name => incr c name (tickDelta sch active called name)) clock
  (diff active target).foldl (fun c name => incr c name 1) clock1

/-- `setActiveStates(called, target, _)` applied to the machine. -/
def applyActive (m : Mach) (called target : S) : Mach :=
  { m with active := target, clock := tickClock m.sch m.active m.clock called target }

/-! ### the transition record -/

/-- `latestHandlerToState`: `""`, a state, or `"Any"`. -/
inductive ToState | none | st (i : Nat) | any
deriving Repr, DecidableEq, Inhabited

structure Tx where
  mu : Mut
  before : S
  timeBefore : List Nat
  timeAfter : List Nat
  target : S
  accepted : Bool := true
  enters : S := []
  exits : S := []
  latestTo : ToState := .none
  latestIsEnter : Bool := false
  latestIsFinal : Bool := false
  /-- `cacheActivated` / `cacheDeactivated` (for the subscription manager) -/
  activated : S := []
  deactivated : S := []
deriving Repr, Inhabited

def Mach.rctx (m : Mach) (t : Tx) : RCtx :=
  { sch := m.sch, before := t.before, isRemove := t.mu.kind == .remove,
    called := t.mu.called, topo := m.topo }

/-- `setupExitEnter`. -/
def setupExitEnter (m : Mach) (t : Tx) : Tx :=
  let exits := sortStates m.sch m.topo (diff m.active t.target)
  let enters := t.target.filter (fun s =>
    !m.is [s] || ((m.sch.get s).multi && t.mu.called.contains s))
  { t with exits := exits, enters := enters }

/-- `setupAccepted`. -/
def setupAccepted (m : Mach) (t : Tx) : Tx :=
  if t.mu.kind == .remove then t else
  let called := t.mu.called
  let notAccepted := diff called t.target
  if t.mu.isAuto && notAccepted.length < called.length then t else
  let t1 := if t.mu.isAuto then { t with accepted := false } else t
  if notAccepted.length == 0 then t1 else
  let isMulti := called.any (fun s => (m.sch.get s).multi)
  if t.mu.isCheck && isMulti then t1 else { t1 with accepted := false }

/-- predicted `TimeAfter` of `newTransition` (the same arithmetic as
    `setActiveStates`, skipped for checks). -/
def predictTimeAfter (m : Mach) (mu : Mut) (target : S) : List Nat :=
  if mu.isCheck then m.clock else tickClock m.sch m.active m.clock mu.called target

/-- `newTransition` (tracer `TransitionInit` included). -/
def newTx (m : Mach) (mu : Mut) : Mach × Tx :=
  let t0 : Tx := { mu := mu, before := m.active, timeBefore := m.clock,
                   timeAfter := m.clock, target := [] }
  let toSet := statesToSet mu.kind m.active mu.called
  let target := targetStates (m.rctx t0) toSet
  let t1 := { t0 with target := target, timeAfter := predictTimeAfter m mu target }
  let t2 := setupAccepted m t1
  let t3 := if t2.accepted then setupExitEnter m t2 else t2
  ({ m with inTx := true }.emit (.tInit mu t3.before t3.timeBefore t3.timeAfter t3.target t3.accepted), t3)

/-! ### queueing -/

/-- `detectQueueDuplicates`, newest queued mutation first: an equal arg-less
    mutation is a duplicate unless a counter mutation (a `Set`, or the opposite kind
    touching one of the states) is scheduled after it. -/
def dupScan (kind : MutKind) (states : S) : List Mut → Bool
  | [] => false
  | q :: rest =>
    if q.isCheck then dupScan kind states rest else
    let same := q.kind == kind && q.called.length == states.length && every q.called states
    if same && !q.hasArgs then true
    else if same then dupScan kind states rest
    else if q.kind == .set || kind == .set then false
    else if q.kind != kind && !(noneOf q.called states) then false
    else dupScan kind states rest

def isDuplicate (m : Mach) (kind : MutKind) (states : S) : Bool :=
  dupScan kind states m.queue.reverse

/-- `queueMutation`: returns the queue tick, or `none` for "duplicate, skipped". -/
def queueMutation (m : Mach) (r : MutReq) : Mach × Option Nat :=
  let states := uniq r.states
  let multi := states.any (fun s => (m.sch.get s).multi)
  if !multi && !r.hasArgs && isDuplicate m r.kind states then (m, none) else
  let pending := m.pending + 1
  let mu : Mut := { kind := r.kind, called := states, hasArgs := r.hasArgs, hasX := r.hasX,
                     qtick := pending + m.queueTick }
  let m1 := { m with queue := m.queue ++ [mu], pending := pending }
  (m1.emit (.mq mu), some mu.qtick)

/-- `PrependMut` up to (not including) `processQueue`. -/
def prepend (m : Mach) (mu : Mut) : Mach :=
  { m with queue := mu :: m.queue }.emit (.mq mu)

def Mach.isErr (m : Mach) : Bool := m.is [m.sch.exc]

/-- entry guards of `Add` / `Remove` / `Set`; `true` = return `Canceled`. -/
def entryCanceled (m : Mach) (r : MutReq) : Bool :=
  match r.kind with
  | .add => m.backoff ||
      (m.queue.length ≥ m.limit && (!r.states.contains m.sch.exc || m.isErr))
  | .remove => m.backoff ||
      (m.queue.length ≥ m.limit && (!r.states.contains m.sch.exc || !m.isErr))
  | .set => m.queue.length ≥ m.limit

/-- a mutation call made while the queue lock is held by someone else
    (from a handler): everything up to the failed CAS. -/
def issueNested (m : Mach) (r : MutReq) : Mach × Res :=
  if entryCanceled m r then (m, .canceled) else
  if r.kind == .remove && m.queue.isEmpty && m.inTx &&
     !(r.states.any (fun s => m.is [s])) then (m, .executed) else
  match queueMutation m r with
  | (m1, none) => (m1, .executed)
  | (m1, some tick) => (m1, .queued tick)

/-- `issueNested` plus the trace entry the harness records. -/
def issueLogged (m : Mach) (r : MutReq) : Mach :=
  ((issueNested m r).1).emit (.nested r m.queue.length (issueNested m r).2)

/-- a subscription call on the machine (the `Machine.When*` entry points). -/
def doSub (m : Mach) (r : SubReq) : Mach × Option Nat :=
  let isAct := fun i => m.is [i]
  let wrap := fun (p : Subs × Option Nat) => ({ m with subs := p.1 }, p.2)
  if m.disposed then
    match r with
    | .stateCtx _ => (m, none)
    | _ => (m, none)
  else
  match r with
  | .when neg states ctx => wrap (m.subs.subWhen neg isAct (uniq states) ctx)
  | .time states times ctx => wrap (m.subs.subTime m.clock states times ctx)
  | .ticks st n ctx => wrap (m.subs.subTime m.clock [st] [n + m.tick st] ctx)
  | .next st ctx =>
    let n := if m.tick st % 2 == 1 then 2 else 1
    wrap (m.subs.subTime m.clock [st] [n + m.tick st] ctx)
  | .query st mt ctx => wrap (m.subs.subQuery st mt ctx)
  | .args st nx ctx => wrap (m.subs.subArgs st nx ctx)
  | .queue tick => if m.queueTick ≥ tick then (m, none) else wrap (m.subs.subQueue tick)
  | .queueEnds => if !m.inTx then (m, none) else wrap m.subs.subQueueEnds
  | .stateCtx st =>
    let p := m.subs.subStateCtx st
    ({ m with subs := p.1 }, some p.2)

/-- `doSub` plus the trace entry the harness records. -/
def subLogged (m : Mach) (r : SubReq) : Mach :=
  ((doSub m r).1).emit (.subbed r (doSub m r).2)

/-- release the given channels. -/
def Mach.closeCh (m : Mach) (ids : List Nat) : Mach := { m with subs := m.subs.close ids }

/-! ### calling handlers -/

def getCount (m : Mach) (k : Nat × HName) : Nat :=
  match m.counts.find? (fun p => p.1 == k) with
  | some p => p.2
  | none => 0

def bumpCount (m : Mach) (k : Nat × HName) : Mach :=
  let c := getCount m k
  { m with counts := (k, c + 1) :: m.counts.filter (fun p => p.1 != k) }

/-- the walk of `recoverFinalPhase` over `finals`: from the state of the latest
    handler on, undo activations (Enter side) or re-append exits. -/
def recoverWalk (t : Tx) : S → S → Bool → S
  | [], acc, _ => acc
  | s :: rest, acc, found =>
    if !(found || (t.latestTo == .st s)) then recoverWalk t rest acc false
    else if t.latestIsEnter then recoverWalk t rest (without acc s) true
    else recoverWalk t rest (acc ++ [s]) true

/-- `recoverFinalPhase`. -/
def recoverFinalPhase (m : Mach) (t : Tx) : Mach :=
  applyActive m t.mu.called (recoverWalk t (t.exits ++ t.enters) m.active false)

/-- `recoverToErr`. -/
def recoverToErr (m : Mach) (t : Tx) : Mach × Tx :=
  if t.mu.called.contains m.sch.exc then (m, t) else
  let m1 := if t.latestIsFinal then recoverFinalPhase m t else m
  let t1 := { t with accepted := false }
  let errMut : Mut := { kind := .add, called := [m.sch.exc], hasArgs := true, isRecover := true }
  (prepend m1 errMut, t1)

/-- result of `processHandlers` for one event. -/
structure HOut where
  res : Bool          -- true = Executed, false = Canceled
  panicked : Bool := false

/-- the handler is entered (counter, trace) and issues its mutations and
    subscriptions. -/
def handlerBody (m : Mach) (b : Nat) (name : HName) (beh : Behaviour) : Mach :=
  beh.subs.foldl (fun mm r => subLogged mm r)
    (beh.muts.foldl (fun mm r => issueLogged mm r) ((bumpCount m (b, name)).emit (.h b name m.active)))

/-- the tail of `processHandlers`: `ProcessWhenArgs(e)`. -/
def whenArgsStage (m : Mach) (t : Tx) (name : HName) : Mach :=
  let st := match name with | .state s => some s | _ => none
  let p := m.subs.processArgs st t.mu.hasX
  { m with subs := p.1.close p.2 }

/-- `HandlersDetach(b)`. -/
def markDetached (m : Mach) (d : Nat) : Mach := { m with detached := d :: m.detached }

/-- `processHandlers`: walk the bindings in order. The list of bindings is the
    clone taken by `getHandlers` at entry (`live`), so a handler that detaches a
    binding affects later events only. -/
def processHandlers (orc : Oracle) (name : HName) :
    List Nat → Mach → Tx → Bool → Mach × Tx × HOut
  | [], m, t, pk => (whenArgsStage m t name, t, { res := true, panicked := pk })
  | b :: rest, m, t, pk =>
    let k := (b, name)
    match orc b name (getCount m k) with
    | none => processHandlers orc name rest m t pk
    | some beh =>
      -- `handlerLoop`: `if call.event.IsValid()` — once the transition is no
      -- longer accepted (a handler panicked) the handler body is skipped and
      -- `false` is reported back.
      if !t.accepted then
        if name.isFinalName then processHandlers orc name rest m t pk
        else (m, t, { res := false, panicked := pk })
      else
      let m2 := handlerBody m b name beh
      match beh.act with
      | .ret ok =>
        if name.isFinalName || ok then processHandlers orc name rest m2 t pk
        else (m2, t, { res := false, panicked := pk })
      | .detach d =>
        processHandlers orc name rest (markDetached m2 d) t pk
      | .timeout => (m2.emit .errInternal, t, { res := false, panicked := pk })
      | .panic =>
        if name.isFinalName then
          processHandlers orc name rest (recoverToErr m2 t).1 (recoverToErr m2 t).2 true
        else ((recoverToErr m2 t).1, (recoverToErr m2 t).2, { res := false, panicked := true })

/-- bindings alive right now, in binding order. -/
def Mach.live (m : Mach) : List Nat := (List.range m.nbind).filter (fun b => !m.detached.contains b)

/-- `handle` + `emitHandler`: returns `true` for Executed. -/
def handle (orc : Oracle) (m : Mach) (t : Tx) (name : HName) (to : ToState)
    (isFinal isEnter : Bool) : Mach × Tx × Bool :=
  let t1 := { t with latestTo := to, latestIsEnter := isEnter, latestIsFinal := isFinal }
  let (m2, t2, out) := processHandlers orc name m.live m t1 false
  (m2, t2, out.res && !out.panicked)

def isAutoState (m : Mach) (s : Nat) : Bool := (m.sch.get s).auto

/-- `emitExitEvents` (after the `fix:` commit: an Auto state's Exit veto inside an
    auto transition cancels; the pinned code called `slices.Delete(_, -1, 0)`
    and panicked on the caller's goroutine). -/
def emitExits (orc : Oracle) : S → Mach → Tx → Mach × Tx × Bool
  | [], m, t => (m, t, true)
  | s :: rest, m, t =>
    let (m1, t1, ok) := handle orc m t (.exit s) .none false false
    if ok then emitExits orc rest m1 t1
    else if t1.mu.isAuto && isAutoState m1 s then
      if t1.target.contains s then emitExits orc rest m1 { t1 with target := without t1.target s }
      else (m1, t1, false)
    else (m1, t1, false)

/-- `emitEnterEvents`. -/
def emitEnters (orc : Oracle) : S → Mach → Tx → Mach × Tx × Bool
  | [], m, t => (m, t, true)
  | s :: rest, m, t =>
    let (m1, t1, ok) := handle orc m t (.enter s) (.st s) false true
    if ok then emitEnters orc rest m1 t1
    else if t1.mu.isAuto && isAutoState m1 s then
      if t1.target.contains s then emitEnters orc rest m1 { t1 with target := without t1.target s }
      else ({ m1 with crashed := true }, t1, false)
    else (m1, t1, false)

/-- `emitSelfEvents`: the loop ranges over the slice header taken at loop
    entry while `slices.Delete` shifts the shared backing array, so after a
    partial rejection at position `i` the element that followed is skipped and
    the tail is zeroed (`none`). `arr` is that backing array. -/
def emitSelfs (orc : Oracle) : Nat → Nat → List (Option Nat) → Mach → Tx → Mach × Tx × Bool
  | 0, _, _, m, t => (m, t, true)
  | fuel + 1, i, arr, m, t =>
    if i ≥ arr.length then (m, t, true) else
    match arr.getD i none with
    | none => emitSelfs orc fuel (i + 1) arr m t
    | some s =>
      if !m.is [s] then emitSelfs orc fuel (i + 1) arr m t else
      let (m1, t1, ok) := handle orc m t (.trans s s) (.st s) false false
      if ok then emitSelfs orc fuel (i + 1) arr m1 t1
      else if t1.mu.isAuto && isAutoState m1 s then
        match indexOf? t1.target s with
        | none => ({ m1 with crashed := true }, t1, false)
        | some idx =>
          let arr' := (arr.eraseIdx idx) ++ [none]
          emitSelfs orc fuel (i + 1) arr' m1 { t1 with target := t1.target.eraseIdx idx }
      else (m1, t1, false)

/-- inner loop of `emitStateStateEvents` for a fixed `before[i]`. -/
def emitSSInner (orc : Oracle) (b : Nat) : S → Mach → Tx → Mach × Tx × Bool
  | [], m, t => (m, t, true)
  | a :: rest, m, t =>
    if b == a then emitSSInner orc b rest m t else
    let (m1, t1, ok) := handle orc m t (.trans b a) .none false false
    if ok then emitSSInner orc b rest m1 t1
    else if t1.mu.isAuto && isAutoState m1 a then
      emitSSInner orc b rest m1 { t1 with target := without t1.target a }
    else (m1, t1, false)

def emitSS (orc : Oracle) (after : S) : S → Mach → Tx → Mach × Tx × Bool
  | [], m, t => (m, t, true)
  | b :: rest, m, t =>
    let (m1, t1, ok) := emitSSInner orc b after m t
    if ok then emitSS orc after rest m1 t1 else (m1, t1, false)

/-- `emitFinalEvents`. -/
def emitFinals (orc : Oracle) (enters : S) : S → Mach → Tx → Mach × Tx × Bool
  | [], m, t => (m, t, true)
  | s :: rest, m, t =>
    let isEnter := enters.contains s
    let (m1, t1, ok) :=
      if isEnter then handle orc m t (.state s) (.st s) true true
      else handle orc m t (.end_ s) .none true false
    if ok then emitFinals orc enters rest m1 t1 else (m1, t1, false)

/-- `NewAutoMutation` (after the `fix:` commit: index order). -/
def newAutoMutation (m : Mach) : Option Mut :=
  let toAdd := m.sch.idx.filter (fun s =>
    isAutoState m s && !m.is [s] &&
    !(m.active.any (fun a => (m.sch.get a).remove.contains s)))
  if toAdd.isEmpty then none
  else some { kind := .add, called := toAdd, isAuto := true }

def isHealth (m : Mach) (mu : Mut) : Bool :=
  mu.kind == .add && mu.called.length == 1 && m.sch.health.contains (mu.called.getD 0 0)

/-- one stage of the negotiation phase: skipped once the result is `Canceled`
    (or the caller goroutine crashed). -/
def negStep (f : Mach → Tx → Mach × Tx × Bool) (p : Mach × Tx × Bool) : Mach × Tx × Bool :=
  if p.1.crashed then (p.1, p.2.1, false)
  else if p.2.2 then f p.1 p.2.1
  else p

def stageSelfs (orc : Oracle) (m : Mach) (t : Tx) : Mach × Tx × Bool :=
  if t.mu.kind != .remove then emitSelfs orc t.target.length 0 (t.target.map some) m t
  else (m, t, true)

/-- none of the auto states accepted → cancel; then the global `AnyEnter`. -/
def stageAnyEnter (orc : Oracle) (m : Mach) (t : Tx) : Mach × Tx × Bool :=
  if t.mu.isAuto && t.target.isEmpty then (m, t, false)
  else handle orc m t .anyEnter .any false true

/-- negotiation phase of `emitEvents`. -/
def negotiate (orc : Oracle) (m : Mach) (t : Tx) (res0 : Bool) : Mach × Tx × Bool :=
  if !m.hasHandlers then (m, t, res0) else
  let p1 := negStep (fun m t => emitExits orc t.exits m t) (m, t, res0)
  let p2 := negStep (fun m t => emitEnters orc t.enters m t) p1
  let p3 := negStep (stageSelfs orc) p2
  let p4 := negStep (fun m t => emitSS orc t.target t.before m t) p3
  negStep (stageAnyEnter orc) p4

/-- final result of `emitEvents` after a non-canceled run. -/
def postCheck (m : Mach) (t : Tx) : Res :=
  if t.mu.kind == .remove then
    if m.not t.mu.called then .executed else .canceled
  else if t.mu.isAuto then
    if t.target.length > t.before.length then .executed else .canceled
  else if m.is t.target then .executed else .canceled

/-- tail of `emitEvents`: `TransitionEnd` tracers and the returned result. -/
def finish (m : Mach) (t : Tx) (r : Bool) : Mach × Tx × Res :=
  let m' := m.emit (.tEnd t.timeBefore t.timeAfter t.accepted m.active m.queue.length)
  if !r then (m', t, Res.canceled)
  else if t.mu.isCheck then (m', t, Res.executed)
  else (m', t, postCheck m' t)

/-- "recheck auto txs": re-resolve with the rejected Auto states dropped. -/
def recheckAuto (m : Mach) (t : Tx) : Tx :=
  if t.mu.isAuto then
    let called := t.mu.called
    let rejected := diff called t.target
    let calledClean := diff called rejected
    let toSet := statesToSet .add m.active calledClean
    setupExitEnter m { t with target := targetStates (m.rctx t) toSet }
  else t

/-- queue the auto mutation after an accepted, state-changing, non-auto,
    non-health transition. -/
def autoStage (m : Mach) (t : Tx) (changed : Bool) : Mach :=
  if changed && !t.mu.isAuto && !isHealth m t.mu then
    match newAutoMutation m with
    | some am => prepend m am
    | none => m
  else m

/-- after the final handlers: recovery, `AnyState`, auto mutation, tail. -/
def afterFinals (orc : Oracle) (m4 : Mach) (t4 : Tx) (r4 : Bool) : Mach × Tx × Res :=
  let m5 := if !r4 then recoverFinalPhase m4 t4 else m4
  let changed := m5.clock != t4.timeBefore
  let p6 := if r4 && m5.hasHandlers then handle orc m5 t4 .anyState .any true true
            else (m5, t4, r4)
  if !p6.2.2 then finish p6.1 { p6.2.1 with accepted := false } false
  else finish (autoStage p6.1 p6.2.1 changed) p6.2.1 true

/-- `setActiveStates` on the target, the activated/deactivated caches, state
    contexts, the corrected `TimeAfter` and the `TransitionFinals` tracers. -/
def applyTarget (m1 : Mach) (t2 : Tx) : Mach × Tx :=
  let m2a := applyActive m1 t2.mu.called t2.target
  let act := if t2.mu.isAuto then diff m2a.active t2.before else t2.enters
  let deact := if t2.mu.isAuto then diff t2.before m2a.active else t2.exits
  let m2 : Mach := { m2a with subs := m2a.subs.processStateCtx act deact }
  let t3 : Tx := { t2 with timeAfter := m2.clock, activated := act, deactivated := deact }
  (m2.emit (.tFinals t3.timeAfter m2.active), t3)

/-- the final handlers run when handlers are bound or a `WhenArgs` waits. -/
def runFinals (orc : Oracle) (m3 : Mach) (t3 : Tx) : Mach × Tx × Bool :=
  if m3.hasHandlers || !m3.subs.args.isEmpty then
    emitFinals orc t3.enters (t3.exits ++ t3.enters) m3 t3
  else (m3, t3, true)

/-- the accepted branch of `emitEvents`: apply the target, run the finals. -/
def applyPhase (orc : Oracle) (m1 : Mach) (t2 : Tx) : Mach × Tx × Res :=
  let p := applyTarget m1 t2
  let p4 := runFinals orc p.1 p.2
  afterFinals orc p4.1 p4.2.1 p4.2.2

/-- `emitEvents`. -/
def emitEvents (orc : Oracle) (m0 : Mach) (t0 : Tx) : Mach × Tx × Res :=
  let m := m0.emit (.tStart t0.accepted)
  let p := negotiate orc m t0 t0.accepted
  if p.1.crashed then (p.1, p.2.1, .canceled)
  else if p.2.1.mu.isCheck then
    finish p.1 (if !p.2.2 then { p.2.1 with accepted := false } else p.2.1) p.2.2
  else
    let t2 := recheckAuto p.1 p.2.1
    if p.2.2 then applyPhase orc p.1 t2
    else finish p.1 { t2 with timeAfter := p.1.clock, accepted := false } false

/-! ### the queue -/

/-- shift the queue head (`processQueue`: "shift the queue"). -/
def shiftQueue (m : Mach) (mu : Mut) (rest : List Mut) : Mach :=
  let m1 := { m with queue := rest }
  if mu.qtick > 0 then
    { m1 with pending := m1.pending - 1, queueTick := m1.queueTick + 1 } else m1

/-- `processSubscriptions(t)`. -/
def processSubscriptions (m : Mach) (t : Tx) : Mach :=
  let p1 := m.subs.processWhen t.activated t.deactivated
  let p2 := p1.1.processTime t.timeBefore m.clock
  let p3 := p2.1.processQueueSubs m.queueTick
  let p4 := p3.1.processQuery m.clock
  { m with subs := p4.1.close (p1.2 ++ p2.2 ++ p3.2 ++ p4.2) }

/-- one iteration of the drain loop: shift, `newTransition`, `emitEvents`,
    `processSubscriptions`. -/
def runOne (orc : Oracle) (m : Mach) (mu : Mut) (rest : List Mut) : Mach × Res :=
  let p := newTx (shiftQueue m mu rest) mu
  let q := emitEvents orc p.1 p.2
  let m' :=
    if q.1.crashed || mu.isCheck then q.1
    else if q.2.1.accepted then processSubscriptions q.1 q.2.1
    else
      -- a canceled mutation has been processed too: its `WhenQueue` waiters go
      let p := q.1.subs.processQueueSubs q.1.queueTick
      { q.1 with subs := p.1.close p.2 }
  (m', q.2.2)

/-- the drain loop of `processQueue`; returns the results in order. -/
def drain (orc : Oracle) : Nat → Mach → List Res → Mach × List Res
  | 0, m, rets => (m, rets)
  | fuel + 1, m, rets =>
    match m.queue with
    | [] => (m, rets)
    | mu :: rest =>
      let q := runOne orc m mu rest
      if q.1.crashed then (q.1, rets ++ [q.2]) else
      drain orc fuel q.1 (rets ++ [q.2])

/-- `processQueue` from an idle caller. -/
def processQueue (orc : Oracle) (fuel : Nat) (m : Mach) : Mach × Res :=
  if m.queue.isEmpty then (m, .canceled) else
  let (m1, rets) := drain orc fuel m []
  if m1.crashed then (m1, .canceled) else
  let pe := m1.subs.processQueueEnds
  let m2 := { m1 with inTx := false, subs := pe.1.close pe.2 }.emit .qEnd
  (m2, rets.headD .canceled)

/-- user-level `Add` / `Remove` / `Set` on an idle machine. -/
def mutate (orc : Oracle) (fuel : Nat) (m : Mach) (r : MutReq) : Mach × Res :=
  if m.crashed || m.disposed then (m, .canceled) else
  if entryCanceled m r then (m, .canceled) else
  if r.kind == .remove && m.queue.isEmpty && m.inTx &&
     !(r.states.any (fun s => m.is [s])) then (m, .executed) else
  match queueMutation m r with
  | (m1, none) => (m1, .executed)
  | (m1, some tick) =>
    let (m2, res) := processQueue orc fuel m1
    match res with
    | .queued _ => (m2, .queued tick)
    | r => (m2, r)

/-- `CanAdd` / `CanRemove`. -/
def check (orc : Oracle) (fuel : Nat) (m : Mach) (kind : MutKind) (states : S) : Mach × Res :=
  if m.crashed || m.disposed then (m, .canceled) else
  if m.backoff then (m, .canceled) else
  let mu : Mut := { kind := kind, called := uniq states, isCheck := true, raw := states }
  processQueue orc fuel (prepend m mu)

/-- `Toggle`. -/
def toggle (orc : Oracle) (fuel : Nat) (m : Mach) (states : S) : Mach × Res :=
  if m.is states then mutate orc fuel m { kind := .remove, states := states }
  else mutate orc fuel m { kind := .add, states := states }

/-- `AddErr` (non-nil error). -/
def addErr (orc : Oracle) (fuel : Nat) (m : Mach) : Mach × Res :=
  if m.disposed || m.backoff || m.queue.length ≥ m.limit then (m, .canceled) else
  mutate orc fuel m { kind := .add, states := [m.sch.exc, m.sch.exc], hasArgs := true }

/-- `DisposeForce` on an idle machine: every waiter is released, the queue is
    dropped, later calls get neutral answers. -/
def disposeMach (m : Mach) : Mach :=
  { m with disposed := true, subs := m.subs.disposeAll, queue := [] }

def Mach.init (sch : Schema) (alpha : S) : Mach :=
  { sch := sch, topo := topology sch alpha, clock := List.replicate sch.n 0 }

end Am
