/-
  L3d — pipes (pkg/states/pipes): a source state piped to a target state with
  Add on activation / Remove on deactivation.

  The source produces a list of events in transition order (`true` = the State
  handler fired → `target.EvAdd`, `false` = the End handler fired →
  `target.EvRemove1`). A delivery is one call reaching the target's queue. The
  target is reduced to what the pipe drives: the piped state's activity, the
  pending piped mutations, and whether the target is busy (its queue is being
  drained by someone, so a delivered mutation is queued instead of executed).

  `dupNew` is `detectQueueDuplicates` with the counter-mutation check (an equal
  mutation is a duplicate only if no opposite mutation is queued after it);
  `dupOld` is the pinned rule (any equal arg-less mutation anywhere in the queue).
-/
namespace Am.Pipes

structure Ev where
  add : Bool
  /-- mutations with args are never treated as duplicates -/
  hasArgs : Bool := false
deriving Repr, DecidableEq

structure Target where
  act : Bool := false
  queue : List Ev := []
  busy : Bool := false
  /-- the piped target state is `Multi`: no duplicate detection -/
  multi : Bool := false
deriving Repr, DecidableEq

/-- pinned rule: an equal arg-less mutation anywhere in the queue. -/
def dupOld (q : List Ev) (e : Ev) : Bool :=
  !e.hasArgs && q.any (fun x => !x.hasArgs && x.add == e.add)

/-- the last queued piped mutation, if any. -/
def lastEv (q : List Ev) : Option Ev := q.getLast?

/-- newest queued mutation first: an equal arg-less one is a duplicate, an equal
    one with args is looked past, an opposite one ends the search. -/
def dupScan (e : Ev) : List Ev → Bool
  | [] => false
  | x :: r => if x.add == e.add then (if !x.hasArgs then true else dupScan e r) else false

/-- rule with the counter-mutation check, as implemented (for the single piped
    state): the most recent queued piped mutation that is not an equal one with
    args must be an equal arg-less one. -/
def dupNew (q : List Ev) (e : Ev) : Bool := !e.hasArgs && dupScan e q.reverse

inductive Step
  | deliver (e : Ev)
  | beginBusy
  | endBusy
deriving Repr, DecidableEq

def applyQueue (act : Bool) (q : List Ev) : Bool := q.foldl (fun _ e => e.add) act

def step (dup : List Ev → Ev → Bool) (t : Target) : Step → Target
  | .deliver e =>
    if t.busy then
      -- `Remove` of inactive states on an empty queue during a transition: no-op
      if !e.add && t.queue.isEmpty && !t.act then t
      else if !t.multi && dup t.queue e then t else { t with queue := t.queue ++ [e] }
    else { t with act := e.add }
  | .beginBusy => { t with busy := true }
  | .endBusy =>
    if t.busy then { t with act := applyQueue t.act t.queue, queue := [], busy := false } else t

def run (dup : List Ev → Ev → Bool) (t : Target) (s : List Step) : Target := s.foldl (step dup) t

/-- the flat variants (`AddFlat` / `RemoveFlat`) skip the call when the target
    already shows the wanted activity — judged on the active states alone. -/
def stepFlat (dup : List Ev → Ev → Bool) (t : Target) : Step → Target
  | .deliver e => if t.act == e.add then t else step dup t (.deliver e)
  | st => step dup t st

def runFlat (dup : List Ev → Ev → Bool) (t : Target) (s : List Step) : Target :=
  s.foldl (stepFlat dup) t

/-- what the target will show once it has drained. -/
def settled (t : Target) : Bool := applyQueue t.act t.queue

/-- the deliveries of a schedule, in order. -/
def deliveries : List Step → List Ev
  | [] => []
  | .deliver e :: r => e :: deliveries r
  | _ :: r => deliveries r

/-- the source's activity after its events (what the target should follow). -/
def sourceFinal (init : Bool) (evs : List Ev) : Bool := evs.foldl (fun _ e => e.add) init

end Am.Pipes

/-! ### BindAny: the whole active set is piped with Set -/
namespace Am.Pipes

/-- `names` = the source's state names, `tgt` = the target's active set, `states` = the source
    transition's target states. `exact = true`: the Set is skipped only when exactly those states of
    the source are active on the target (fix 8d7ab55); `false`: the pinned subset test. -/
def bindAnyStep (exact : Bool) (names tgt states : List Nat) : List Nat :=
  let sub := states.all (fun x => tgt.contains x)
  let none' := (names.filter (fun n => !states.contains n)).all (fun n => !tgt.contains n)
  if sub && (!exact || none') then tgt else states

end Am.Pipes
