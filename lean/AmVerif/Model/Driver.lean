/-
  Line-protocol driver for the machine model (one output line per input line).
  Pure part (parsing / printing / stepping); `Main.lean` does the IO.
-/
import AmVerif.Model.Machine
import AmVerif.Model.QueueProto
import AmVerif.Model.DisposeProto
import AmVerif.Model.RpcMuts
import AmVerif.Model.Pipes
import AmVerif.Model.History
import AmVerif.Model.Dbg
import AmVerif.Model.Super
import AmVerif.Model.RpcConv
import AmVerif.Model.RpcCodec
import AmVerif.Model.Time
namespace Am

def parseList (s : String) : S :=
  if s == "" || s == "-" then [] else (s.splitOn ",").filterMap (·.toNat?)

def showList (l : List Nat) : String :=
  if l.isEmpty then "-" else ",".intercalate (l.map toString)

def parseHName (s : String) : Option HName :=
  match s.splitOn ":" with
  | ["enter", i] => i.toNat?.map .enter
  | ["exit", i] => i.toNat?.map .exit
  | ["state", i] => i.toNat?.map .state
  | ["end", i] => i.toNat?.map .end_
  | ["trans", i, j] => do let a ← i.toNat?; let b ← j.toNat?; pure (.trans a b)
  | ["anyenter"] => some .anyEnter
  | ["anystate"] => some .anyState
  | _ => none

def showHName : HName → String
  | .enter i => s!"enter:{i}" | .exit i => s!"exit:{i}"
  | .state i => s!"state:{i}" | .end_ i => s!"end:{i}"
  | .trans i j => s!"trans:{i}:{j}" | .anyEnter => "anyenter" | .anyState => "anystate"

def parseKind : String → Option MutKind
  | "add" => some .add | "remove" => some .remove | "set" => some .set | _ => none
def showKind : MutKind → String
  | .add => "add" | .remove => "remove" | .set => "set"

/-- `+add:1,2` or `+add:1,2!` (with args) -/
def parseMutReq (s : String) : Option MutReq :=
  let s := (s.drop 1).toString
  let (s, args) := if s.endsWith "!" then ((s.dropEnd 1).toString, true) else (s, false)
  match s.splitOn ":" with
  | [k, l] => (parseKind k).map (fun kind => { kind := kind, states := parseList l, hasArgs := args, hasX := args })
  | _ => none

structure Rule where
  bind : Nat
  name : HName
  nth : Option Nat
  beh : Behaviour
deriving Repr

def oracleOf (rules : List Rule) : Oracle := fun b name nth =>
  let mine := rules.filter (fun r => r.bind == b && r.name == name)
  if mine.isEmpty then none else
  match mine.find? (fun r => r.nth == some nth) with
  | some r => some r.beh
  | none =>
    match mine.find? (fun r => r.nth == none) with
    | some r => some r.beh
    | none => some {}

def showRes : Res → String
  | .executed => "executed" | .canceled => "canceled" | .queued t => s!"queued:{t}"

def showB (b : Bool) : String := if b then "1" else "0"

def showMut (m : Mut) : String :=
  s!"{showKind m.kind}:{showList m.raw}:{showB m.isAuto}{showB m.isCheck}{showB m.hasArgs}:{m.qtick}"

def showCtx : Option Nat → String
  | none => "-" | some c => toString c

def showChan : Option Nat → String
  | none => "c" | some c => toString c

def showSub : SubReq → String
  | .when neg st ctx => s!"{if neg then "whennot" else "when"}:{showList st}:{showCtx ctx}"
  | .time st ts ctx => s!"whentime:{showList st}:{showList ts}:{showCtx ctx}"
  | .ticks st n ctx => s!"whenticks:{st}:{n}:{showCtx ctx}"
  | .next st ctx => s!"whennext:{st}:{showCtx ctx}"
  | .query st mt ctx => s!"whenquery:{st}:{mt}:{showCtx ctx}"
  | .args st nx ctx => s!"whenargs:{st}:{showB nx}:{showCtx ctx}"
  | .queue t => s!"whenqueue:{t}"
  | .queueEnds => "whenqueueends"
  | .stateCtx st => s!"statectx:{st}"

def parseCtx (s : String) : Option Nat := if s == "-" then none else s.toNat?

/-- `when:1,2:-`, `whentime:1,2:3,4:7`, `whenqueue:5`, `statectx:2`, … -/
def parseSub (s : String) : Option SubReq :=
  match s.splitOn ":" with
  | ["when", st, c] => some (.when false (parseList st) (parseCtx c))
  | ["whennot", st, c] => some (.when true (parseList st) (parseCtx c))
  | ["whentime", st, ts, c] => some (.time (parseList st) (parseList ts) (parseCtx c))
  | ["whenticks", st, n, c] => do pure (.ticks (← st.toNat?) (← n.toNat?) (parseCtx c))
  | ["whennext", st, c] => do pure (.next (← st.toNat?) (parseCtx c))
  | ["whenquery", st, mt, c] => do pure (.query (← st.toNat?) (← mt.toNat?) (parseCtx c))
  | ["whenargs", st, nx, c] => do pure (.args (← st.toNat?) (nx == "1") (parseCtx c))
  | ["whenqueue", t] => t.toNat?.map .queue
  | ["whenqueueends"] => some .queueEnds
  | ["statectx", st] => st.toNat?.map .stateCtx
  | _ => none

def showEv : Ev → String
  | .h b n a => s!"H({b}|{showHName n}|{showList a})"
  | .tInit m bf tb ta tg acc => s!"TI({showMut m}|{showList bf}|{showList tb}|{showList ta}|{showList tg}|{showB acc})"
  | .tStart acc => s!"TS({showB acc})"
  | .tFinals ta a => s!"TF({showList ta}|{showList a})"
  | .tEnd tb ta acc a q => s!"TE({showList tb}|{showList ta}|{showB acc}|{showList a}|{q})"
  | .mq m => s!"MQ({showMut m})"
  | .qEnd => "QE"
  | .nested r q res => s!"N({showKind r.kind}:{showList r.states}:{showB r.hasArgs}|{q}|{showRes res})"
  | .subbed r out => s!"W({showSub r}|{showChan out})"
  | .errInternal => "EI"

structure CodecState where
  cfg : Rpc.Cfg := { syncSchema := true, shallow := false, tracked := [] }
  last : Rpc.TData := { mTime := [], sum := 0, q := 0, m := 0, checksum := 0 }
  mirror : Rpc.Mirror := { time := [], q := 0, m := 0 }
  queue : List Rpc.TData := []

structure DState where
  m : Mach := default
  rules : List Rule := []
  fuel : Nat := 200
  codec : CodecState := {}
  qp : QP.St := { flag := false, queue := 0, pcs := [] }
  dp : DP.St := {}
  muts : RpcMuts.St := {}
  mutsFixed : Bool := true
  dpFixed : Bool := true
  pipe : Pipes.Target := {}
  hcfg : Hist.Cfg := {}
  dbgc : Dbg.Client := { n := 0, exc := 0 }
  dbgf : Dbg.Filters := {}
  conv : Conv.St := {}
  convAll : Bool := true
  supc : Super.Cfg := { min := 0, max := 0, warm := 0, errKill := 3 }
  sups : Super.St := {}
  hdb : List Hist.Rec := []
  pipeNew : Bool := true
  pipeFlat : Bool := false
  qprc : Bool := true

def showState (m : Mach) (res : String) : String :=
  let evs := " ".intercalate ((m.log.filter (· != .errInternal)).map showEv)
  let ei := (m.log.filter (· == .errInternal)).length
  let crash := if m.crashed then " CRASH" else ""
  -- a disposed machine answers its getters with neutral values
  let act := if m.disposed then [] else m.active
  let clk := if m.disposed then [] else m.clock
  s!"res={res} act={showList act} clk={showList clk} qt={m.queueTick} q={m.queue.length} ei={ei}{crash} cl={showList (isort (fun a b => decide (a < b)) (uniq m.subs.closed))} xc={showList (isort (fun a b => decide (a < b)) (uniq m.subs.canceled))} log={evs}"

def parseStateDef (s : String) : Option StateDef :=
  match s.splitOn ":" with
  | [_, fl, rq, ad, rm, af] =>
    some { auto := fl.contains 'a', multi := fl.contains 'm', require := parseList rq,
           add := parseList ad, remove := parseList rm, after := parseList af }
  | _ => none

def kv (toks : List String) (key : String) : Option String :=
  toks.findSome? (fun t => if t.startsWith (key ++ "=") then some (t.drop (key.length + 1)).toString else none)

def showUpdate (u : Rpc.Update) : String :=
  s!"{showList u.idxs}/{showList u.ticks}/{u.q}/{u.m}/{u.checksum}"

def showMirror (mi : Rpc.Mirror) : String := s!"mirror={showList mi.time} q={mi.q} m={mi.m}"

def parseSnap (toks : List String) : Option Rpc.Snap :=
  match toks with
  | [t, q, m] => do
    let q ← q.toNat?
    let m ← m.toNat?
    pure { time := parseList t, q := q, m := m }
  | _ => none

def stepCodec (cs : CodecState) (toks : List String) : Option (CodecState × String) :=
  match toks with
  | "codec" :: rest =>
    let cfg : Rpc.Cfg := { syncSchema := (kv rest "sync") == some "1", shallow := (kv rest "shallow") == some "1",
                           tracked := parseList ((kv rest "tracked").getD "") }
    some ({ cfg := cfg }, "ok")
  | "hello" :: rest =>
    (parseSnap rest).map fun s =>
      let mi := Rpc.helloMirror cs.cfg s
      ({ cs with last := Rpc.helloData cs.cfg s, mirror := mi, queue := [] }, showMirror mi)
  | "snap" :: rest =>
    (parseSnap rest).map fun s =>
      let data := Rpc.mkData cs.cfg s
      let u := Rpc.calcUpdate cs.cfg cs.cfg.shallow data cs.last
      match Rpc.clientApply cs.cfg u cs.mirror with
      | some mi => ({ cs with last := data, mirror := mi }, s!"upd={showUpdate u} acc=1 {showMirror mi}")
      | none => ({ cs with last := data }, s!"upd={showUpdate u} acc=0 {showMirror cs.mirror}")
  | "qsnap" :: rest =>
    (parseSnap rest).map fun s => ({ cs with queue := cs.queue ++ [Rpc.mkData cs.cfg s] }, "ok")
  | ["pushmuts"] =>
    match cs.queue.getLast? with
    | none => some (cs, "nothing")
    | some latest =>
      let us := Rpc.calcUpdateMuts cs.cfg cs.queue cs.last
      let (mi, ok) := Rpc.clientApplyMuts cs.cfg us cs.mirror
      some ({ cs with last := latest, mirror := mi, queue := [] },
        s!"upds={" ".intercalate (us.map showUpdate)} acc={showB ok} {showMirror mi}")
  | "setmirror" :: rest =>
    (parseSnap rest).map fun s =>
      ({ cs with mirror := { time := s.time, q := s.q, m := s.m } }, "ok")
  | _ => none

def parseOptIdx (s : String) : Option Nat := if s == "-1" then none else s.toNat?

def parseOptList (s : String) : List (Option Nat) :=
  if s == "" || s == "-" then [] else (s.splitOn ",").map parseOptIdx

def parseLists (s : String) : List S :=
  if s == "" || s == "none" then [] else (s.splitOn ";").map parseList

/-- helper algebra commands (`hs …` for state lists, `ht …` for Time). -/
def stepHelpers (toks : List String) : Option String :=
  match toks with
  | ["hs", "add", a, ls] => some (showList (sMethodAdd (parseList a) (parseLists ls)))
  | ["hs", "add1", a, names] => some (showList (sMethodAdd1 (parseList a) (parseList names)))
  | ["hs", "delete", a, ls] => some (showList (sRem (parseList a) (parseLists ls)))
  | ["hs", "delete1", a, names] => some (showList (sRem (parseList a) [parseList names]))
  | ["hs", "sadd", ls] => some (showList (sAdd (parseLists ls)))
  | ["hs", "sub", a, b] => some (showList (diff (parseList a) (parseList b)))
  | ["hs", "shared", a, b] => some (showList (shared (parseList a) (parseList b)))
  | ["hs", "equal", a, b] => some (showB (equal (parseList a) (parseList b)))
  | ["hs", "equalorder", a, b] => some (showB (equalOrder (parseList a) (parseList b)))
  | ["hs", "unique", a] => some (showList (uniq (parseList a)))
  | ["hs", "parse", n, a] => n.toNat?.map (fun n => showList (parseStates n (parseList a)))
  | ["ht", "is1", t, i] => some (showB (tIs1 (parseList t) (parseOptIdx i)))
  | ["ht", "not1", t, i] => some (showB (tNot1 (parseList t) (parseOptIdx i)))
  | ["ht", "is", t, l] => some (showB (tIs (parseList t) (parseOptList l)))
  | ["ht", "not", t, l] => some (showB (tNot (parseList t) (parseOptList l)))
  | ["ht", "any1", t, l] => some (showB (tAny1 (parseList t) (parseOptList l)))
  | ["ht", "active", t, l] => some (showList (tActive (parseList t) (if l == "nil" then none else some (parseList l))))
  | ["ht", "filter", t, l] => some (showList (tFilter (parseList t) (parseList l)))
  | ["ht", "sum", t, l] => some (toString (tSum (parseList t) (if l == "nil" then none else some (parseList l))))
  | ["ht", "nonzero", t] => some (showList (tNonZero (parseList t)))
  | ["ht", "diffsince", t, b] => some (showList (tDiffSince (parseList t) (parseList b)))
  | ["ht", "equal", st, t, b] => some (showB (tEqual (st == "1") (parseList t) (parseList b)))
  | ["ht", "after", oe, t, b] => some (showB (tAfter (oe == "1") (parseList t) (parseList b)))
  | ["ht", "before", oe, t, b] => some (showB (tBefore (oe == "1") (parseList t) (parseList b)))
  | ["ht", "tick", t, i] => i.toNat?.map (fun i => toString (tTick (parseList t) i))
  | _ => none

def showPc : QP.Pc → String
  | .idle => "idle" | .pre => "pre" | .cas => "cas" | .loop => "loop"
  | .release => "release" | .recheck => "recheck" | .done => "done"

/-- queue protocol commands (C04): `qp init <recheck>`, `qp spawn`, `qp step <i>`. -/
def stepQP (d : DState) (toks : List String) : Option (DState × String) :=
  match toks with
  | ["qp", "init", rc] =>
    some ({ d with qp := { flag := false, queue := 0, pcs := [] }, qprc := rc == "1" }, "ok")
  | ["qp", "spawn"] =>
    some ({ d with qp := { d.qp with pcs := d.qp.pcs ++ [.idle] } }, s!"thread={d.qp.pcs.length}")
  | ["qp", "step", i] =>
    match i.toNat? with
    | none => some (d, "bad-op")
    | some i =>
      match QP.step d.qprc d.qp i with
      | none => some (d, "stuck")
      | some s' =>
        some ({ d with qp := s' },
          s!"pc={showPc (s'.pcs.getD i .idle)} flag={if s'.flag then 1 else 0} q={s'.queue} holders={QP.holders s'}")
  | _ => none

/-- disposal protocol commands (C13): `dp init <fixed 0|1>`, `dp spawn <caller|dispose|force>`,
    `dp step <i>` (one step) / `dp run <i> <pc>` (steps of goroutine `i` until its pc is `pc`, at most 16). -/
def showTh : DP.Th → String
  | .caller .idle => "idle" | .caller .pre => "pre" | .caller .cas => "cas" | .caller .loop => "loop"
  | .caller .running => "running" | .caller .release => "release" | .caller .recheck => "recheck"
  | .caller .done => "done"
  | .disp _ .start => "start" | .disp _ .enter => "enter" | .disp _ .wait => "wait" | .disp _ .gate => "gate"
  | .disp _ .body => "body" | .disp _ .tail => "tail" | .disp _ .done => "done"

def showDP (s : DP.St) (i : Nat) : String :=
  let b := fun (x : Bool) => if x then 1 else 0
  s!"pc={showTh (s.ths.getD i (.caller .done))} lock={b s.lock} disposing={b s.disposing} disposed={b s.disposed} q={s.queue} started={s.started} running={DP.running s} body={s.bodyRuns}"

def dpRunUntil (fixed : Bool) (s : DP.St) (i : Nat) (pc : String) : Nat → DP.St
  | 0 => s
  | fuel + 1 =>
    if showTh (s.ths.getD i (.caller .done)) == pc then s
    else match DP.step fixed s i with
      | none => s
      | some s' => dpRunUntil fixed s' i pc fuel

def stepDP (d : DState) (toks : List String) : Option (DState × String) :=
  match toks with
  | ["dp", "init", fx] => some ({ d with dp := {}, dpFixed := fx == "1" }, "ok")
  | ["dp", "spawn", k] =>
    let t : DP.Th := if k == "dispose" then .disp false .start else if k == "force" then .disp true .enter
      else .caller .idle
    some ({ d with dp := { d.dp with ths := d.dp.ths ++ [t] } }, s!"thread={d.dp.ths.length}")
  | ["dp", "step", i] =>
    match i.toNat? with
    | none => some (d, "bad-op")
    | some i =>
      match DP.step d.dpFixed d.dp i with
      | none => some (d, "stuck")
      | some s' => some ({ d with dp := s' }, showDP s' i)
  | ["dp", "run", i, pc] =>
    match i.toNat? with
    | none => some (d, "bad-op")
    | some i =>
      let s' := dpRunUntil d.dpFixed d.dp i pc 16
      some ({ d with dp := s' }, showDP s' i)
  | _ => none

/-- per-mutation updates over reconnects (C09): `muts init <fixed>`, `muts tick <k>`, `muts push`, `muts hello`. -/
def stepMuts (d : DState) (toks : List String) : Option (DState × String) :=
  let go := fun (st : RpcMuts.Step) =>
    let s' := RpcMuts.step d.mutsFixed d.muts st
    some ({ d with muts := s' }, s!"src={s'.src} mirror={s'.mirror}")
  match toks with
  | ["muts", "init", fx] => some ({ d with muts := {}, mutsFixed := fx == "1" }, "ok")
  | ["muts", "tick", k] => go (.tick (k.toNat?.getD 0))
  | ["muts", "push"] => go .push
  | ["muts", "hello"] => go .hello
  | _ => none

/-- pipe commands (C18): `pipes init <new|old> <flat 0|1> <act 0|1>`,
    `pipes deliver <add|rem> <args 0|1>`, `pipes begin`, `pipes end`. -/
def stepPipes (d : DState) (toks : List String) : Option (DState × String) :=
  let show_ := fun (t : Pipes.Target) =>
    s!"act={if t.act then 1 else 0} q={t.queue.length} busy={if t.busy then 1 else 0}"
  let go := fun (st : Pipes.Step) =>
    let dup := if d.pipeNew then Pipes.dupNew else Pipes.dupOld
    let t' := if d.pipeFlat then Pipes.stepFlat dup d.pipe st else Pipes.step dup d.pipe st
    some ({ d with pipe := t' }, show_ t')
  match toks with
  | ["pipes", "init", rule, flat, act, multi] =>
    some ({ d with pipe := { act := act == "1", multi := multi == "1" }, pipeNew := rule == "new", pipeFlat := flat == "1" }, "ok")
  | ["pipes", "deliver", k, a] => go (.deliver { add := k == "add", hasArgs := a == "1" })
  | ["pipes", "begin"] => go .beginBusy
  | ["pipes", "end"] => go .endBusy
  | ["pipes", "any", ex, names, tgt, states] =>
    -- BindAny's handler for one source transition; the target's active set afterwards, in the
    -- order of `names`
    let r := Pipes.bindAnyStep (ex == "1") (parseList names) (parseList tgt) (parseList states)
    some (d, s!"target={showList ((parseList names).filter (fun n => r.contains n))}")
  | _ => none

def showRec (r : Hist.Rec) : String :=
  s!"{r.mutType}/{r.sum}/{r.trackedSum}/{r.diffSum}/{r.trackedDiffSum}/{r.recordDiff}/{r.machTick}/{r.slot}/{showList r.tracked}/{showList r.trackedDiff}"

def parseCond (s : String) : Hist.Cond :=
  -- slot/sum/trackedSum/diff/trackedDiff/recordDiff/machTick/mtime
  match s.splitOn "/" with
  | [a, b, c, d', e, f, g, mt] =>
    { slot := a.toNat?.getD 0, sum := b.toNat?.getD 0, trackedSum := c.toNat?.getD 0,
      diff := d'.toNat?.getD 0, trackedDiff := e.toNat?.getD 0, recordDiff := f.toNat?.getD 0,
      machTick := g.toNat?.getD 0, mtime := parseList mt }
  | _ => {}

/-- history commands (C17). -/
def stepHist (d : DState) (toks : List String) : Option (DState × String) :=
  match toks with
  | "hist" :: "cfg" :: rest =>
    let n := ((kv rest "n").bind (·.toNat?)).getD 0
    let called := parseList ((kv rest "called").getD "")
    let changed := parseList ((kv rest "changed").getD "")
    let cx := (kv rest "cx") == some "1"
    let chx := (kv rest "chx") == some "1"
    let raw := parseList ((kv rest "tracked").getD "")
    -- NewMemory: allow-lists are tracked too; ParseStates
    let tr := parseStates n (raw ++ (if cx then [] else called) ++ (if chx then [] else changed))
    let mx := ((kv rest "max").bind (·.toNat?)).getD 0
    let rej := (kv rest "rej") == some "1"
    let mx' := if mx == 0 then 1000 else mx
    let c : Hist.Cfg := Hist.Cfg.mk called cx changed chx rej tr mx'
    some ({ d with hcfg := c, hdb := [] }, s!"tracked={showList tr}")
  | ["hist", "tx", acc, chk, called, before, after, mtick, slot, mt] =>
    let tx : Hist.Tx :=
      { accepted := acc == "1", isCheck := chk == "1", called := parseList called,
        before := parseList before, after := parseList after, machTick := mtick.toNat?.getD 0,
        slot := slot.toNat?.getD 0, mutType := mt.toNat?.getD 0 }
    let db := Hist.track d.hcfg d.hdb tx
    let last := match db.getLast? with | some r => showRec r | none => "-"
    some ({ d with hdb := db }, s!"n={db.length} last={last}")
  | ["hist", "find", limit, act, actd, inact, deact, mts, st, en] =>
    let q : Hist.Query :=
      { active := parseList act, activated := parseList actd, inactive := parseList inact,
        deactivated := parseList deact, mtimeStates := parseList mts, start := parseCond st,
        stop := parseCond en }
    let bad := (q.active ++ q.activated ++ q.inactive ++ q.deactivated ++ q.mtimeStates).any
      (fun p => p ≥ d.hcfg.tracked.length) ||
      q.mtimeStates.length != q.start.mtime.length || q.mtimeStates.length != q.stop.mtime.length
    if bad then some (d, "ERR") else
    let res := Hist.findLatest q (limit.toNat?.getD 0) d.hdb
    let recs := String.intercalate ";" (res.map showRec)
    some (d, s!"k={res.length} recs={recs}")
  | ["hist", "import", time, mtick] =>
    let m := Hist.importS { time := parseList time, machTick := mtick.toNat?.getD 0 }
    some (d, s!"clock={showList m.clock} act={showList m.active} mtick={m.machTick}")
  | _ => none

def bit (s : String) (i : Nat) : Bool := (s.toList.getD i '0') == '1'

/-- debugger commands (C16). -/
def stepDbg (d : DState) (toks : List String) : Option (DState × String) :=
  match toks with
  | ["dbg", "init", n, exc] =>
    some ({ d with dbgc := { n := n.toNat?.getD 0, exc := exc.toNat?.getD 0 }, dbgf := {} }, "ok")
  | ["dbg", "init", n, exc, errs] =>
    some ({ d with dbgc := { n := n.toNat?.getD 0, exc := exc.toNat?.getD 0, errSt := parseList errs }, dbgf := {} }, "ok")
  | ["dbg", "msg", id, clocks, qt, mqt, mtok, flags] =>
    let m : Dbg.Msg :=
      { id := id.toNat?.getD 0, clocks := parseList clocks, qtick := qt.toNat?.getD 0,
        mutQTick := mqt.toNat?.getD 0, mutQToken := mtok.toNat?.getD 0,
        accepted := bit flags 0, isAuto := bit flags 1, isCheck := bit flags 2,
        isQueued := bit flags 3, healthOnly := bit flags 4 }
    let c := d.dbgc.push m
    match c.parsed.getLast? with
    | some p =>
      some ({ d with dbgc := c },
        s!"sum={p.timeSum} diff={p.timeDiff} add={showList p.added} rem={showList p.removed} errs={showList c.errors}")
    | none => some (d, "bad-op")
  | ["dbg", "atq", q] => some (d, s!"{Dbg.txAtQueueTick d.dbgc (q.toNat?.getD 0)}")
  | ["dbg", "atm", s] => some (d, s!"{Dbg.txAtMachTime d.dbgc (s.toNat?.getD 0)}")
  | ["dbg", "idx", id] => some (d, s!"{Dbg.txIndex d.dbgc (id.toNat?.getD 0)}")
  | ["dbg", "errs", tx, dist] =>
    some (d, s!"{Dbg.hadErrSince d.dbgc (tx.toNat?.getD 0) (dist.toNat?.getD 0)}")
  | ["dbg", "filter", flags] =>
    let f : Dbg.Filters :=
      { skipCanceled := bit flags 0, skipAuto := bit flags 1, skipAutoCanceled := bit flags 2,
        skipEmpty := bit flags 3, skipHealth := bit flags 4, skipQueued := bit flags 5,
        skipChecks := bit flags 6 }
    some ({ d with dbgf := f }, s!"shown={showList (Dbg.view d.dbgc f)}")
  | ["dbg", "nav", cur, dir, amount] =>
    let cu := cur.toNat?.getD 0
    let am := amount.toNat?.getD 1
    let r := if dir == "fwd" then Dbg.fwd d.dbgc d.dbgf cu am
      else if dir == "set" then Dbg.fixCursor d.dbgc d.dbgf cu am false
      else Dbg.back d.dbgc d.dbgf cu am
    some (d, s!"cursor={r}")
  | _ => none

/-- supervisor commands (C15). -/
def stepSuper (d : DState) (toks : List String) : Option (DState × String) :=
  let n := fun (s : String) => s.toNat?.getD 0
  let go := fun (e : Super.Ev) =>
    let r := Super.step d.supc d.sups e
    let o := match r.2 with | .ok => "ok" | .vetoed => "vetoed" | .kill a => s!"kill:{a}"
    some ({ d with sups := r.1 },
      s!"out={o} tracked={r.1.tracked.length} pr={if r.1.poolReady then 1 else 0}")
  match toks with
  | ["sup", "init", mn, mx, wm, ek] =>
    some ({ d with supc := { min := n mn, max := n mx, warm := n wm, errKill := n ek }, sups := {} }, "ok")
  | ["sup", "fork", a] => go (.forkGate (n a))
  | ["sup", "failed"] => go .forkFailed
  | ["sup", "set", a] => go (.setWorker (n a))
  | ["sup", "del", a] => go (.delWorker (n a))
  | ["sup", "forked", a, b] => go (.workerForked (n a) (n b))
  | ["sup", "err", a] => go (.errWorker (n a))
  | ["sup", "addpr", r] => go (.addPoolReady (n r))
  | ["sup", "rempr", r] => go (.remPoolReady (n r))
  | _ => none

/-- RPC mirror protocol commands (C09). -/
def stepConv (d : DState) (toks : List String) : Option (DState × String) :=
  let pol : Conv.Policy := if d.convAll then Conv.policyAll else Conv.policyPinned
  let go := fun (st : Conv.Step) =>
    let s' := Conv.step pol d.conv st
    some ({ d with conv := s' },
      s!"src={s'.src} last={s'.lastPush} mirror={s'.mirror} inflight={s'.inflight.length} needsync={if s'.needSync then 1 else 0}")
  match toks with
  | ["conv", "init", p] => some ({ d with conv := {}, convAll := p == "all" }, "ok")
  | ["conv", "change"] => go .change
  | ["conv", "produce", k] => go (.produce (if k == "push" then .push else .reply))
  | ["conv", "deliver", i] => go (.deliver (i.toNat?.getD 0))
  | ["conv", "delsync", i] => go (.deliverSync (i.toNat?.getD 0))
  | ["conv", "syncexec"] => go .syncExec
  | ["conv", "syncapply"] => go .syncApply
  | ["conv", "syncdrop"] => go .syncDrop
  | ["conv", "drift"] => go .drift
  | ["conv", "needsync"] => go .askSync
  | ["conv", "reconnect"] => go .reconnect
  | _ => none

def stepLine (d : DState) (line : String) : DState × String :=
  let toks0 := (line.trimAscii.toString.splitOn " ").filter (· != "")
  match stepConv d toks0 with
  | some r => r
  | none =>
  match stepSuper d toks0 with
  | some r => r
  | none =>
  match stepDbg d toks0 with
  | some r => r
  | none =>
  match stepHist d toks0 with
  | some r => r
  | none =>
  match stepPipes d toks0 with
  | some r => r
  | none =>
  match stepQP d toks0 with
  | some r => r
  | none =>
  match stepDP d toks0 with
  | some r => r
  | none =>
  match stepMuts d toks0 with
  | some r => r
  | none =>
  match stepHelpers toks0 with
  | some out => (d, out)
  | none =>
  match stepCodec d.codec toks0 with
  | some (cs, out) => ({ d with codec := cs }, out)
  | none =>
  let toks := (line.trimAscii.toString.splitOn " ").filter (· != "")
  let runOp := fun (f : Oracle → Nat → Mach → Mach × Res) =>
    let m0 := { d.m with log := [] }
    let (m1, r) := f (oracleOf d.rules) d.fuel m0
    ({ d with m := m1 }, showState m1 (showRes r))
  match toks with
  | "schema" :: rest =>
    let defs := rest.filter (fun t => !(t.contains '='))
    match defs.mapM parseStateDef with
    | none => (d, "bad-op")
    | some sds =>
      let sch : Schema := { states := sds, exc := ((kv rest "exc").bind (·.toNat?)).getD 0,
                            health := parseList ((kv rest "health").getD "") }
      let alpha := parseList ((kv rest "alpha").getD "")
      let m := Mach.init sch alpha
      ({ d with m := m, rules := [] }, s!"ok topo={showList m.topo}")
  | ["bind", k] =>
    match k.toNat? with
    | some k => ({ d with m := { d.m with nbind := k, hasHandlers := d.m.hasHandlers || k > 0 } }, "ok")
    | none => (d, "bad-op")
  | "rule" :: b :: hn :: nth :: act :: extras =>
    let muts := extras.filter (fun t => !t.startsWith "~")
    let subs := (extras.filter (fun t => t.startsWith "~")).filterMap (fun t => parseSub (t.drop 1).toString)
    match b.toNat?, parseHName hn, muts.mapM parseMutReq with
    | some b, some hn, some ms =>
      let a? : Option Action := match act with
        | "t" => some (.ret true) | "f" => some (.ret false)
        | "panic" => some .panic | "panicstr" => some .panic | "timeout" => some .timeout
        | a => if a.startsWith "detach:" then (a.drop 7).toString.toNat?.map Action.detach else none
      match a? with
      | none => (d, "bad-op")
      | some a =>
        let nth? := if nth == "*" then none else nth.toNat?
        ({ d with rules := d.rules ++ [{ bind := b, name := hn, nth := nth?, beh := { muts := ms, subs := subs, act := a } }] }, "ok")
    | _, _, _ => (d, "bad-op")
  | ["limit", k] =>
    match k.toNat? with
    | some k => ({ d with m := { d.m with limit := k } }, "ok")
    | none => (d, "bad-op")
  | ["backoff", k] => ({ d with m := { d.m with backoff := k == "1" } }, "ok")
  | ["fuel", k] => ({ d with fuel := k.toNat?.getD 200 }, "ok")
  | ["sub", r] =>
    match parseSub r with
    | none => (d, "bad-op")
    | some sr =>
      let m0 := { d.m with log := [] }
      let p := doSub m0 sr
      ({ d with m := p.1 }, s!"ch={showChan p.2} cl={showList (isort (fun a b => decide (a < b)) (uniq p.1.subs.closed))} xc={showList (isort (fun a b => decide (a < b)) (uniq p.1.subs.canceled))}")
  | ["ctx", "new"] =>
    let p := d.m.subs.newCtx
    ({ d with m := { d.m with subs := p.1 } }, s!"ctx={p.2}")
  | ["ctx", "cancel", c] =>
    match c.toNat? with
    | some c => ({ d with m := { d.m with subs := d.m.subs.cancelCtx c } }, "ok")
    | none => (d, "bad-op")
  | ["dispose"] =>
    let m1 := disposeMach d.m
    ({ d with m := m1 }, s!"disposed cl={showList (isort (fun a b => decide (a < b)) (uniq m1.subs.closed))} xc={showList (isort (fun a b => decide (a < b)) (uniq m1.subs.canceled))}")
  | [op, l] =>
    let st := parseList l
    match op with
    | "add" => runOp (fun o f m => mutate o f m { kind := .add, states := st })
    | "remove" => runOp (fun o f m => mutate o f m { kind := .remove, states := st })
    | "set" => runOp (fun o f m => mutate o f m { kind := .set, states := st })
    | "add!" => runOp (fun o f m => mutate o f m { kind := .add, states := st, hasArgs := true, hasX := true })
    | "remove!" => runOp (fun o f m => mutate o f m { kind := .remove, states := st, hasArgs := true, hasX := true })
    | "set!" => runOp (fun o f m => mutate o f m { kind := .set, states := st, hasArgs := true, hasX := true })
    | "toggle" => runOp (fun o f m => toggle o f m st)
    | "canadd" => runOp (fun o f m => check o f m .add st)
    | "canremove" => runOp (fun o f m => check o f m .remove st)
    | _ => (d, "bad-op")
  | ["adderr"] => runOp (fun o f m => addErr o f m)
  | _ => (d, "bad-op")

end Am
