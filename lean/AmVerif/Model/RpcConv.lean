/-
  L3i — the RPC mirror protocol at message level (pkg/rpc rpc_server.go
  pushClient / newMsgMutation / RemoteSync / RemoteHello; rpc_client.go
  RemoteUpdate / clockUpdate / Sync). The source's history is the sequence of its
  clock snapshots, numbered 0, 1, 2, …; a snapshot index stands for the whole
  (time, queue tick, machine tick) triple — C10 proves that applying a diff to the
  base it was computed against yields exactly the target snapshot, and that a
  mirror drifted from the base is rejected by the checksum (deep clocks).

  The server remembers what it believes the client has (`lastPush`); every diff it
  produces — a push or the reply to a client-issued mutation — is computed against
  that and then `lastPush` moves. Messages reach the client in any order.
-/
namespace Am.Conv

inductive Kind | push | reply
deriving Repr, DecidableEq

structure Msg where
  kind : Kind
  base : Nat
  target : Nat
deriving Repr, DecidableEq

structure St where
  /-- index of the source's current snapshot -/
  src : Nat := 0
  lastPush : Nat := 0
  /-- snapshot the client mirrors -/
  mirror : Nat := 0
  inflight : List Msg := []
  delivered : List Msg := []
  /-- snapshot handed over by the last hello (connection start) -/
  hello : Nat := 0
  /-- a diff did not apply: a full sync has been asked for and not yet executed by the server -/
  needSync : Bool := false
  /-- the server has answered a full sync with this snapshot; the answer is on its way -/
  syncVal : Option Nat := none
  /-- a diff has been applied since the outstanding full sync was executed -/
  moved : Bool := false
  /-- the client's copy has been corrupted (fault injection): it matches no base -/
  drifted : Bool := false
deriving Repr, DecidableEq

inductive Step
  /-- the source machine makes a transition that changes its clocks -/
  | change
  /-- the server produces a diff against `lastPush` (nothing when there is no change) -/
  | produce (k : Kind)
  /-- the `i`-th in-flight message reaches the client -/
  | deliver (i : Nat)
  /-- the `i`-th in-flight message reaches the client and is rejected although its base
      may match (the checksum also covers the queue tick, which is not part of a snapshot
      here): a full sync is asked for -/
  | deliverSync (i : Nat)
  /-- the server executes a full sync (asked for after a rejection, or by the client's user
      at any time): the answer carries the source's snapshot of that moment. Syncs are made
      one at a time -/
  | syncExec
  /-- the answer reaches the client: applied, unless a diff has overtaken it -/
  | syncApply
  /-- the answer reaches the client and is dropped; the sync is asked for again (the client
      may always do that: it samples its update counter before the call is even sent) -/
  | syncDrop
  /-- the client's copy is corrupted (clock drift) -/
  | drift
  /-- an empty diff (a reply without change) did not apply: a full sync is asked for -/
  | askSync
  /-- the connection drops and is re-established: hello hands over the current snapshot -/
  | reconnect
deriving Repr, DecidableEq

/-- the client's policy: does it fall back to a full sync when a diff of this kind
    does not apply, and does it refuse a full-sync answer that a diff has overtaken
    (asking again instead)? -/
structure Policy where
  fallback : Kind → Bool
  genCheck : Bool

/-- the pinned client: replies fall back to `Sync`, pushes (`RemoteUpdate`) do not. -/
def policyPinned : Policy := ⟨fun k => match k with | .push => false | .reply => true, false⟩
/-- every rejected diff is followed by `Sync`, whose answer is applied whatever happened meanwhile. -/
def policyNaive : Policy := ⟨fun _ => true, false⟩
/-- every rejected diff is followed by `Sync`; an answer overtaken by a diff is dropped and asked again. -/
def policyAll : Policy := ⟨fun _ => true, true⟩

def step (p : Policy) (s : St) : Step → St
  | .change => { s with src := s.src + 1 }
  | .produce k =>
    if s.lastPush = s.src then s
    else { s with inflight := s.inflight ++ [⟨k, s.lastPush, s.src⟩], lastPush := s.src }
  | .deliver i =>
    match s.inflight[i]? with
    | none => s
    | some m =>
      let s1 := { s with inflight := s.inflight.eraseIdx i, delivered := m :: s.delivered }
      if s.mirror = m.base && !s.drifted then { s1 with mirror := m.target, moved := true }
      else if p.fallback m.kind then { s1 with needSync := true }   -- fall back to Sync
      else s1
  | .deliverSync i =>
    match s.inflight[i]? with
    | none => s
    | some m => { s with inflight := s.inflight.eraseIdx i, delivered := m :: s.delivered, needSync := true }
  | .syncExec =>
    if s.syncVal.isNone then { s with needSync := false, syncVal := some s.src, moved := false }
    else s
  | .syncApply =>
    match s.syncVal with
    | some v =>
      if p.genCheck && s.moved then { s with syncVal := none, needSync := true }   -- overtaken: ask again
      else { s with mirror := v, syncVal := none, drifted := false }
    | none => s
  | .syncDrop =>
    match s.syncVal with
    | some _ => { s with syncVal := none, needSync := true }
    | none => s
  | .drift => { s with drifted := true }
  | .askSync => { s with needSync := true }
  | .reconnect =>
    { s with
      mirror := s.src, lastPush := s.src, hello := s.src, inflight := [], delivered := [],
      needSync := false, syncVal := none, drifted := false }

def run (p : Policy) (s : St) (l : List Step) : St := l.foldl (step p) s

/-- nothing is on its way and the server has told everything it knows. -/
def Quiescent (s : St) : Prop :=
  s.inflight = [] ∧ s.lastPush = s.src ∧ s.needSync = false ∧ s.syncVal = none ∧ s.drifted = false

end Am.Conv
