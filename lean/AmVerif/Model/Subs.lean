/-
  L4 — the subscription manager (pkg/machine/subscriptions.go) on the index
  form: When / WhenNot / WhenTime / WhenQuery / WhenArgs / WhenQueue /
  WhenQueueEnds bindings, state contexts, user contexts. Channels and contexts
  are natural-number ids; `closed` / `canceled` accumulate what was released.
-/
import AmVerif.Model.ListSet
namespace Am

/-- association-list maps (Go maps keyed by state / context). -/
def mget {α : Type} (m : List (Nat × α)) (k : Nat) : Option α := (m.find? (·.1 == k)).map (·.2)
def mdel {α : Type} (m : List (Nat × α)) (k : Nat) : List (Nat × α) := m.filter (·.1 != k)
def mset {α : Type} (m : List (Nat × α)) (k : Nat) (v : α) : List (Nat × α) :=
  if (m.any (·.1 == k)) then m.map (fun p => if p.1 == k then (k, v) else p) else m ++ [(k, v)]

structure WhenB where
  id : Nat
  neg : Bool
  states : List (Nat × Bool)
  total : Nat
  matched : Int
  ctx : Option Nat
deriving Repr, DecidableEq, Inhabited

structure TimeB where
  id : Nat
  index : List (Nat × Nat)
  completed : List (Nat × Bool)
  total : Nat
  matched : Nat
  times : List Nat
  ctx : Option Nat
deriving Repr, DecidableEq, Inhabited

structure ArgsB where
  id : Nat
  state : Nat
  /-- the binding asks for `{x: 1}` (else: no args, matches every call) -/
  needsX : Bool
  ctx : Option Nat
deriving Repr, DecidableEq, Inhabited

/-- the query family used by the harness: `tick(state) ≥ minTick`. -/
structure QueryB where
  id : Nat
  state : Nat
  minTick : Nat
  ctx : Option Nat
deriving Repr, DecidableEq, Inhabited

structure Subs where
  whens : List WhenB := []
  whenIdx : List (Nat × List Nat) := []
  whenCtx : List (Nat × List Nat) := []
  times : List TimeB := []
  timeIdx : List (Nat × List Nat) := []
  timeCtx : List (Nat × List Nat) := []
  args : List ArgsB := []
  argsCtx : List (Nat × List Nat) := []
  queries : List QueryB := []
  queryCtx : List (Nat × List Nat) := []
  queueEnds : List Nat := []
  queue : List (Nat × Nat) := []          -- (channel id, tick)
  stateCtx : List (Nat × Nat) := []       -- state ↦ context id
  doneCtx : List Nat := []                -- user contexts already canceled
  closed : List Nat := []                 -- channels closed so far
  canceled : List Nat := []               -- state contexts canceled so far
  next : Nat := 1                         -- next channel / state-context id
  nextCtx : Nat := 1                      -- next user-context id
deriving Repr, Inhabited

namespace Subs

def ctxDone (s : Subs) (c : Option Nat) : Bool :=
  match c with | none => false | some k => s.doneCtx.contains k

def close (s : Subs) (ids : List Nat) : Subs := { s with closed := s.closed ++ ids }

def getWhen (s : Subs) (id : Nat) : Option WhenB := s.whens.find? (·.id == id)
def putWhen (s : Subs) (b : WhenB) : Subs :=
  { s with whens := s.whens.map (fun x => if x.id == b.id then b else x) }

/-- `gcWhenBinding`. -/
def gcWhen (s : Subs) (b : WhenB) (gcCtx : Bool) : Subs :=
  b.states.foldl (fun s st =>
    let s1 := match b.ctx with
      | some c => if gcCtx then
          let l := ((mget s.whenCtx c).getD []).erase b.id
          { s with whenCtx := if l.isEmpty then mdel s.whenCtx c else mset s.whenCtx c l }
        else s
      | none => s
    let l := (mget s1.whenIdx st.1).getD []
    if l.length == 1 then { s1 with whenIdx := mdel s1.whenIdx st.1 }
    else { s1 with whenIdx := mset s1.whenIdx st.1 (l.erase b.id) }) s

/-- `processWhenCtx`. -/
def processWhenCtx (s : Subs) : Subs × List Nat :=
  s.whenCtx.foldl (fun (acc : Subs × List Nat) (e : Nat × List Nat) =>
    if !acc.1.doneCtx.contains e.1 then acc else
    let s1 := { acc.1 with whenCtx := mdel acc.1.whenCtx e.1 }
    e.2.foldl (fun (a : Subs × List Nat) bid =>
      match a.1.getWhen bid with
      | some b => (gcWhen a.1 b false, a.2 ++ [bid])
      | none => a) (s1, acc.2)) (s, [])

/-- the index update of one binding for one changed state (`ProcessWhen`). -/
def _root_.Am.WhenB.touch (b : WhenB) (activatedHere : Bool) (st : Nat) : WhenB :=
  let cur := ((b.states.find? (·.1 == st)).map (·.2)).getD false
  let matched : Int :=
    if activatedHere then
      if !b.neg then (if !cur then b.matched + 1 else b.matched)
      else (if !cur then b.matched - 1 else b.matched)
    else
      if !b.neg then (if cur then b.matched - 1 else b.matched)
      else (if cur then b.matched + 1 else b.matched)
  { b with matched := matched, states := mset b.states st activatedHere }

/-- first pass of `ProcessWhen`: the binding's index is updated for state `st`. -/
def touchWhen (s : Subs) (activatedHere : Bool) (st : Nat) (bid : Nat) : Subs :=
  match s.getWhen bid with
  | none => s
  | some b => s.putWhen (b.touch activatedHere st)

/-- second pass: a touched binding that is complete (or whose context ended) is
    collected. -/
def judgeWhen (s : Subs) (bid : Nat) : Subs × List Nat :=
  match s.getWhen bid with
  | none => (s, [])
  | some b =>
    if b.matched < (b.total : Int) && !s.ctxDone b.ctx then (s, [])
    else (gcWhen s b true, [bid])

/-- `ProcessWhen(activated, deactivated)` (after the `fix:` commit: all changed
    states are applied before any binding is judged). -/
def processWhen (s : Subs) (activated deactivated : S) : Subs × List Nat :=
  let (s0, ret0) := processWhenCtx s
  let all := activated ++ deactivated
  let s1 := all.foldl (fun acc st =>
    ((mget acc.whenIdx st).getD []).foldl (fun a bid => touchWhen a (activated.contains st) st bid) acc) s0
  let touched := uniq ((all.map (fun st => (mget s0.whenIdx st).getD [])).flatten)
  touched.foldl (fun (acc : Subs × List Nat) bid =>
    let r := judgeWhen acc.1 bid
    (r.1, acc.2 ++ r.2)) (s1, ret0)

def getTime (s : Subs) (id : Nat) : Option TimeB := s.times.find? (·.id == id)
def putTime (s : Subs) (b : TimeB) : Subs :=
  { s with times := s.times.map (fun x => if x.id == b.id then b else x) }

/-- `gcWhenTimeBinding`. -/
def gcTime (s : Subs) (b : TimeB) (gcCtx : Bool) : Subs :=
  b.index.foldl (fun s st =>
    let s1 := match b.ctx with
      | some c => if gcCtx then
          let l := ((mget s.timeCtx c).getD []).erase b.id
          { s with timeCtx := if l.isEmpty then mdel s.timeCtx c else mset s.timeCtx c l }
        else s
      | none => s
    let l := (mget s1.timeIdx st.1).getD []
    if l.length == 1 then { s1 with timeIdx := mdel s1.timeIdx st.1 }
    else { s1 with timeIdx := mset s1.timeIdx st.1 (l.erase b.id) }) s

def processTimeCtx (s : Subs) : Subs × List Nat :=
  s.timeCtx.foldl (fun (acc : Subs × List Nat) (e : Nat × List Nat) =>
    if !acc.1.doneCtx.contains e.1 then acc else
    let s1 := { acc.1 with timeCtx := mdel acc.1.timeCtx e.1 }
    e.2.foldl (fun (a : Subs × List Nat) bid =>
      match a.1.getTime bid with
      | some b => (gcTime a.1 b false, a.2 ++ [bid])
      | none => a) (s1, acc.2)) (s, [])

/-- `ProcessWhenTime(before)`: `clock` is the clock the manager reads. -/
def processTime (s : Subs) (before clock : List Nat) : Subs × List Nat :=
  let (s0, ret0) := processTimeCtx s
  let ticked := (List.range before.length).filter (fun i => clock.getD i 0 != before.getD i 0)
  ticked.foldl (fun (acc : Subs × List Nat) st =>
    let ids := (mget acc.1.timeIdx st).getD []
    ids.foldl (fun (a : Subs × List Nat) bid =>
      match a.1.getTime bid with
      | none => a
      | some b =>
        let done := ((b.completed.find? (·.1 == st)).map (·.2)).getD false
        let pos := ((b.index.find? (·.1 == st)).map (·.2)).getD 0
        let b' := if !done && clock.getD st 0 ≥ b.times.getD pos 0
          then { b with matched := b.matched + 1, completed := mset b.completed st true } else b
        let s1 := a.1.putTime b'
        if b'.matched < b'.total && !s1.ctxDone b'.ctx then (s1, a.2)
        else (gcTime s1 b' true, a.2 ++ [bid])) acc) (s0, ret0)

/-- `ProcessWhenQueue(queueTick)`. -/
def processQueueSubs (s : Subs) (queueTick : Nat) : Subs × List Nat :=
  ({ s with queue := s.queue.filter (fun b => b.2 > queueTick) },
   (s.queue.filter (fun b => b.2 ≤ queueTick)).map (·.1))

/-- `ProcessWhenQuery` (`clock` = the manager's clock). -/
def processQuery (s : Subs) (clock : List Nat) : Subs × List Nat :=
  -- expired contexts first
  let expired := s.queries.filter (fun b => s.ctxDone b.ctx)
  let s0 := { s with queries := s.queries.filter (fun b => !s.ctxDone b.ctx),
                     queryCtx := s.queryCtx.filter (fun e => !s.doneCtx.contains e.1) }
  let hit := s0.queries.filter (fun b => clock.getD b.state 0 ≥ b.minTick)
  ({ s0 with queries := s0.queries.filter (fun b => !(clock.getD b.state 0 ≥ b.minTick)) },
   expired.map (·.id) ++ hit.map (·.id))

/-- `ProcessWhenQueueEnds`. -/
def processQueueEnds (s : Subs) : Subs × List Nat := ({ s with queueEnds := [] }, s.queueEnds)

/-- `ProcessStateCtx(activated, deactivated)`: returns the contexts to cancel. -/
def processStateCtx (s : Subs) (activated deactivated : S) : Subs :=
  (activated ++ deactivated).foldl (fun s st =>
    match mget s.stateCtx st with
    | some c => { s with stateCtx := mdel s.stateCtx st, canceled := s.canceled ++ [c] }
    | none => s) s

/-- `ProcessWhenArgs(e)`: runs at the end of `processHandlers` for every event;
    expired contexts are collected for any event, arguments are matched only
    when the event is `<state>State` (`state = some s`; `hasX` = the call
    carries `{x: 1}`). -/
def processArgs (s : Subs) (state : Option Nat) (hasX : Bool) : Subs × List Nat :=
  let expired := s.args.filter (fun b => s.ctxDone b.ctx)
  let s0 := { s with args := s.args.filter (fun b => !s.ctxDone b.ctx) }
  match state with
  | none => (s0, expired.map (·.id))
  | some st =>
    let hit := s0.args.filter (fun b => b.state == st && (!b.needsX || hasX))
    ({ s0 with args := s0.args.filter (fun b => !(b.state == st && (!b.needsX || hasX))) },
     expired.map (·.id) ++ hit.map (·.id))

/-- `subs.dispose()` (walks the live indexes). -/
def disposeAll (s : Subs) : Subs :=
  { s with closed := s.closed ++ (s.whenIdx.map (·.2)).flatten ++ (s.timeIdx.map (·.2)).flatten
             ++ s.args.map (·.id) ++ s.queries.map (·.id) ++ s.queueEnds ++ s.queue.map (·.1),
           canceled := s.canceled ++ s.stateCtx.map (·.2) }

/-! ### subscribing -/

/-- `Subscriptions.When` / `WhenNot`; `isAct i` = the machine's `is([i])`.
    `none` = the shared already-closed channel. -/
def subWhen (s : Subs) (neg : Bool) (isAct : Nat → Bool) (states : S) (ctx : Option Nat) :
    Subs × Option Nat :=
  let early := if neg then states.all (fun x => !isAct x) else states.all isAct
  if early || s.ctxDone ctx then (s, none) else
  -- reuse
  let first := states.headD 0
  let cand := ((mget s.whenIdx first).getD []).filterMap s.getWhen
  match cand.find? (fun b => b.neg == neg && equal (b.states.map (·.1)) states && b.ctx == ctx) with
  | some b => (s, some b.id)
  | none =>
    let id := s.next
    let setMap := states.foldl (fun m x => mset m x (isAct x)) ([] : List (Nat × Bool))
    let matched := if neg then (states.filter (fun x => !isAct x)).length else (states.filter isAct).length
    let b : WhenB := { id := id, neg := neg, states := setMap, total := states.length,
                       matched := matched, ctx := ctx }
    let idx := states.foldl (fun m x => mset m x (((mget m x).getD []) ++ [id])) s.whenIdx
    let cx := match ctx with
      | some c => mset s.whenCtx c (((mget s.whenCtx c).getD []) ++ [id])
      | none => s.whenCtx
    ({ s with whens := s.whens ++ [b], whenIdx := idx, whenCtx := cx, next := id + 1 }, some id)

/-- `Subscriptions.WhenTime` (`clock` = the manager's clock). -/
def subTime (s : Subs) (clock : List Nat) (states : S) (times : List Nat) (ctx : Option Nat) :
    Subs × Option Nat :=
  let index := (List.range states.length).foldl (fun m i => mset m (states.getD i 0) i) ([] : List (Nat × Nat))
  let first := states.headD 0
  let cand := ((mget s.timeIdx first).getD []).filterMap s.getTime
  match cand.find? (fun b => b.times == times && b.index.length == index.length &&
      index.all (fun e => mget b.index e.1 == some e.2) && b.ctx == ctx) with
  | some b => (s, some b.id)
  | none =>
    let passed := (List.range states.length).all (fun i => clock.getD (states.getD i 0) 0 ≥ times.getD i 0)
    if passed || s.ctxDone ctx then (s, none) else
    let id := s.next
    let completed := (List.range states.length).foldl (fun m i =>
      mset m (states.getD i 0) (decide (clock.getD (states.getD i 0) 0 ≥ times.getD i 0))) ([] : List (Nat × Bool))
    let matched := ((List.range states.length).filter (fun i => clock.getD (states.getD i 0) 0 ≥ times.getD i 0)).length
    let b : TimeB := { id := id, index := index, completed := completed, total := states.length,
                       matched := matched, times := times, ctx := ctx }
    let idx := states.foldl (fun m x => mset m x (((mget m x).getD []) ++ [id])) s.timeIdx
    let cx := match ctx with
      | some c => mset s.timeCtx c (((mget s.timeCtx c).getD []) ++ [id])
      | none => s.timeCtx
    ({ s with times := s.times ++ [b], timeIdx := idx, timeCtx := cx, next := id + 1 }, some id)

/-- `Subscriptions.WhenQuery`. -/
def subQuery (s : Subs) (state minTick : Nat) (ctx : Option Nat) : Subs × Option Nat :=
  if s.ctxDone ctx then (s, none) else
  let id := s.next
  let cx := match ctx with
    | some c => mset s.queryCtx c (((mget s.queryCtx c).getD []) ++ [id])
    | none => s.queryCtx
  ({ s with queries := s.queries ++ [{ id := id, state := state, minTick := minTick, ctx := ctx }],
            queryCtx := cx, next := id + 1 }, some id)

/-- `Subscriptions.WhenArgs`: a channel is reused for the same arguments and the same context only
    (fix 71ec5b8; before, any earlier binding whose arguments contained the requested ones was
    reused, whatever its context). -/
def subArgs (s : Subs) (state : Nat) (needsX : Bool) (ctx : Option Nat) : Subs × Option Nat :=
  if s.ctxDone ctx then (s, none) else
  match s.args.find? (fun b => b.state == state && b.needsX == needsX && b.ctx == ctx) with
  | some b => (s, some b.id)
  | none =>
    let id := s.next
    ({ s with args := s.args ++ [{ id := id, state := state, needsX := needsX, ctx := ctx }], next := id + 1 }, some id)

/-- `Machine.WhenQueue(tick)` after the `queueTick >= tick` early exit. -/
def subQueue (s : Subs) (tick : Nat) : Subs × Option Nat :=
  let id := s.next
  ({ s with queue := s.queue ++ [(id, tick)], next := id + 1 }, some id)

/-- `Subscriptions.WhenQueueEnds`. -/
def subQueueEnds (s : Subs) : Subs × Option Nat :=
  let id := s.next
  ({ s with queueEnds := s.queueEnds ++ [id], next := id + 1 }, some id)

/-- `Subscriptions.NewStateCtx`: one context per state until it ticks. -/
def subStateCtx (s : Subs) (state : Nat) : Subs × Nat :=
  match mget s.stateCtx state with
  | some c => (s, c)
  | none =>
    let id := s.next
    ({ s with stateCtx := s.stateCtx ++ [(state, id)], next := id + 1 }, id)

/-- a fresh user context. -/
def newCtx (s : Subs) : Subs × Nat := ({ s with nextCtx := s.nextCtx + 1 }, s.nextCtx)
def cancelCtx (s : Subs) (c : Nat) : Subs := { s with doneCtx := s.doneCtx ++ [c] }

end Subs
end Am
