/-
  `Schema.Parse` (pkg/machine/mach_utils.go) on the index form, and the static
  checks of C19 over schemas regenerated from /repo (AmVerif/Generated).
  State `i` is `names[i]`; a reference to a name the schema does not define is
  an index ≥ `names.length`.
-/
import AmVerif.Model.Resolver
namespace Am

/-- drop undefined references: `for _, n := range l { if !contains(states, n) { l = without(l, n) } }`
    (ranges over the list as it was at loop entry). -/
def dropUndefined (n : Nat) (l : S) : S :=
  l.foldl (fun r x => if x < n then r else without r x) l

/-- the body of `Parse`'s loop for state `i`; second component = a
    Require–Remove conflict was reported. -/
def parseState (n i : Nat) (d : StateDef) : StateDef × Bool :=
  let remove0 := if d.remove.contains i then without d.remove i else d.remove
  -- don't Remove if in Add; drop undefined Add targets
  let ra := d.add.foldl (fun (ra : S × S) a =>
    if ra.1.contains a then (without ra.1 a, ra.2)
    else if a < n then ra else (ra.1, without ra.2 a)) (remove0, d.add)
  let after1 := if d.after.contains i then without d.after i else d.after
  let conflict := d.require.any (fun r => ra.1.contains r)
  let remove2 := dropUndefined n ra.1
  let after2 := dropUndefined n after1
  let remove3 := dropUndefined n remove2
  ({ auto := d.auto, multi := d.multi, require := d.require, add := ra.2,
     remove := remove3, after := after2 }, conflict)

/-- `Schema.Parse`: parsed states and "an error was reported". -/
def parseSchema (raw : List StateDef) : List StateDef × Bool :=
  let rs := (List.range raw.length).map (fun i => parseState raw.length i (raw.getD i {}))
  (rs.map (·.1), rs.any (·.2))

/-- no Require cycle: the DFS of `TopologicalSort` succeeds. -/
def requireAcyclic (sch : Schema) : Bool :=
  ((sch.idx.filter (fun i => !(sch.get i).require.isEmpty)).foldlM
    (fun s node => topoVisit sch (sch.n + 1) node s) ({} : TopoSt)).isSome

structure GenSchema where
  id : String
  names : List String
  typed : List String
  keys : List String
  raw : List StateDef
  parsed : List StateDef
  parseErr : Bool
  groups : List (String × S)
  /-- the index (≥ names.length) that stands for the built-in `Exception` state
      when the schema itself does not define it (`New` adds it) -/
  implicitExc : Option Nat := none
  /-- undefined references recorded as known findings (mixin schemas) -/
  allowedUndef : S := []
deriving Repr

namespace GenSchema

def n (g : GenSchema) : Nat := g.names.length
def schema (g : GenSchema) : Schema := { states := g.parsed }

/-- every relation of the raw schema points at a defined state; `Require` may
    also point at the built-in `Exception`; recorded mixin references excepted. -/
def refsDefined (g : GenSchema) : Bool :=
  g.raw.all (fun d =>
    (d.add ++ d.remove ++ d.after).all (fun r => r < g.n || g.allowedUndef.contains r) &&
    d.require.all (fun r => r < g.n || some r == g.implicitExc || g.allowedUndef.contains r))

def noRequireRemoveConflict (g : GenSchema) : Bool :=
  g.raw.all (fun d => d.require.all (fun r => !d.remove.contains r))

/-- the typed state-name list (when the package has one) names exactly the
    schema's keys, without duplicates. -/
def typedAgrees (g : GenSchema) : Bool :=
  let keys := if g.implicitExc.isSome then g.keys ++ ["Exception"] else g.keys
  g.typed.isEmpty ||
    (g.typed.all (keys.contains ·) && keys.all (g.typed.contains ·) &&
     g.typed.length == keys.length)

/-- the Lean model of `Parse` reproduces what the real `Parse` returned. -/
def parseAgrees (g : GenSchema) : Bool :=
  (parseSchema g.raw).1 == g.parsed && (parseSchema g.raw).2 == g.parseErr

/-- members of the group Remove one another. -/
def mutualRemove (g : GenSchema) (grp : S) : Bool :=
  grp.all (fun x => grp.all (fun y => x == y || (g.schema.get x).remove.contains y))

/-- states that appear in some Add relation. -/
def addTargets (g : GenSchema) : S := (g.parsed.map (·.add)).flatten

/-- side condition of the static mutual-exclusion theorem. -/
def mutexStatic (g : GenSchema) (grp : S) : Bool :=
  (uniq (grp.filter (g.addTargets.contains ·))).length ≤ 1

/-- the C19 static obligations for one schema. -/
def check (g : GenSchema) : Bool :=
  g.names.length == g.raw.length && g.raw.length == g.parsed.length &&
  !g.parseErr && g.parseAgrees && g.refsDefined && g.noRequireRemoveConflict &&
  g.typedAgrees && requireAcyclic g.schema

end GenSchema
end Am
