/-
  L3i — per-mutation clock updates over reconnects (pkg/rpc: sourceTracer.dataQueue,
  calcUpdateMutations, RemoteHello, Client.clockUpdateMutations), for one state's tick.

  The tracer records the source's tick after every mutation, connected or not. A push sends the
  recorded ticks as deltas, each against the one before it, the first against the last pushed
  tick; a delta is a uint32 on the wire and is added to the mirror's uint64 tick. A handshake
  (first connection or reconnect) hands the current tick over and makes it the last pushed one.
  `fixed = true`: the handshake also drops what the tracer recorded for the old connection
  (fix e5973a3); `false`: the pinned server keeps it.
-/
namespace Am.RpcMuts

def W32 : Nat := 4294967296

structure St where
  src : Nat := 0
  queue : List Nat := []
  lastPush : Nat := 0
  mirror : Nat := 0
deriving Repr, DecidableEq

/-- `uint32(now - prev)` as the server computes it (the subtraction wraps). -/
def delta32 (now prev : Nat) : Nat := (now + W32 - prev % W32) % W32

/-- the client adds the deltas one after the other. -/
def applyQueue : Nat → Nat → List Nat → Nat
  | mirror, _, [] => mirror
  | mirror, prev, q :: r => applyQueue (mirror + delta32 q prev) q r

/-- the last recorded tick, `d` when nothing is recorded. -/
def lastD : Nat → List Nat → Nat
  | d, [] => d
  | _, q :: r => lastD q r

inductive Step
  /-- a mutation of the source advances the tick by `k + 1` -/
  | tick (k : Nat)
  /-- the push ticker fires while connected -/
  | push
  /-- a handshake: first connection or reconnect -/
  | hello
deriving Repr, DecidableEq

def step (fixed : Bool) (s : St) : Step → St
  | .tick k => { s with src := s.src + k + 1, queue := s.queue ++ [s.src + k + 1] }
  | .push =>
    { s with mirror := applyQueue s.mirror s.lastPush s.queue,
             lastPush := lastD s.lastPush s.queue, queue := [] }
  | .hello => { s with mirror := s.src, lastPush := s.src, queue := if fixed then [] else s.queue }

def run (fixed : Bool) (s : St) (l : List Step) : St := l.foldl (step fixed) s

end Am.RpcMuts
