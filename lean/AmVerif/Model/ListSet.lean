/-
  L0 — list-sets.  Anchored in /repo/pkg/machine/mach_utils.go
  (slicesUniq, slicesWithout, slicesFilter, slicesReverse, slicesEvery,
  slicesNone, StatesDiff, StatesShared, StatesEqual, SAdd, SRem, S.Add,
  S.Add1, S.Delete, S.Delete1, S.Sub, S.Shared, S.Equal, S.EqualOrder).
  State names are natural numbers (indices into the verified name list).
  Core Lean only.
-/
namespace Am

abbrev S := List Nat

/-- `slicesUniq`: keep the first occurrence of every element. -/
def uniq : S → S
  | [] => []
  | x :: xs => x :: (uniq xs).filter (fun y => y != x)

/-- `slicesWithout`: drop the first occurrence of `x`. -/
def without (l : S) (x : Nat) : S := l.erase x

/-- `StatesDiff a b`: elements of `a` not in `b` (order and duplicates of `a`). -/
def diff (a b : S) : S := a.filter (fun x => !b.contains x)

/-- `StatesShared a b`. -/
def shared (a b : S) : S := a.filter (fun x => b.contains x)

/-- `slicesEvery col1 col2`: every element of `col2` is in `col1`. -/
def every (col1 col2 : S) : Bool := col2.all (fun x => col1.contains x)

/-- `slicesNone col1 col2`: no element of `col2` is in `col1`. -/
def noneOf (col1 col2 : S) : Bool := col2.all (fun x => !col1.contains x)

/-- `StatesEqual`. -/
def equal (a b : S) : Bool := every a b && every b a

/-- `S.EqualOrder`. -/
def equalOrder (a b : S) : Bool := a == b

/-- `SAdd(lists...)`: concatenate and uniq; no lists ↦ empty. -/
def sAdd (ls : List S) : S := uniq ls.flatten

/-- `S.Add(lists...)` on receiver `s`: with no arguments returns `s` itself
    (not uniq'd), otherwise uniq of the concatenation. -/
def sMethodAdd (s : S) (ls : List S) : S :=
  if ls.isEmpty then s else uniq (s ++ ls.flatten)

/-- `S.Add1(names...)`. -/
def sMethodAdd1 (s : S) (names : S) : S := uniq (s ++ names)

/-- `SRem(src, lists...)` (after the `fix:` commit: the loop starts at 0). -/
def sRem (src : S) (ls : List S) : S :=
  ls.flatten.foldl without src

/-- `SRem` exactly as the pinned snapshot had it: the first list is skipped. -/
def sRemPinned (src : S) (ls : List S) : S :=
  (ls.drop 1).flatten.foldl without src

/-- index of `x` in `l`, `none` for Go's `-1`. -/
def indexOf? (l : S) (x : Nat) : Option Nat :=
  let i := l.idxOf x
  if i < l.length then some i else none

end Am
