/-
  L0 — `Time` helpers (pkg/machine/mach_misc.go) and `ParseStates`
  (machine.go), after the `fix:` commits. Indexes that Go passes as `-1`
  ("not found") are `none`.
-/
import AmVerif.Model.ListSet
namespace Am

abbrev TimeV := List Nat

def isActiveTick (t : Nat) : Bool := t % 2 == 1

/-- `Time.Tick`. -/
def tTick (t : TimeV) (i : Nat) : Nat := t.getD i 0

/-- `Time.Is1`. -/
def tIs1 (t : TimeV) (i : Option Nat) : Bool :=
  match i with
  | none => false
  | some i => i < t.length && isActiveTick (t.getD i 0)

/-- `Time.Not1`. -/
def tNot1 (t : TimeV) (i : Option Nat) : Bool :=
  match i with
  | none => false
  | some i => i < t.length && !isActiveTick (t.getD i 0)

/-- `Time.Is`: empty list ↦ false. -/
def tIs (t : TimeV) (idxs : List (Option Nat)) : Bool :=
  !idxs.isEmpty && idxs.all (fun i => tIs1 t i)

/-- `Time.Not`: `-1` entries and out-of-range entries are ignored. -/
def tNot (t : TimeV) (idxs : List (Option Nat)) : Bool :=
  idxs.all (fun i => !tIs1 t i)

/-- `Time.Any`. -/
def tAny (t : TimeV) (lists : List (List (Option Nat))) : Bool := lists.any (tIs t)

/-- `Time.Any1`. -/
def tAny1 (t : TimeV) (idxs : List (Option Nat)) : Bool := idxs.any (tIs1 t)

/-- `Time.ActiveStates(idxs)`; `none` = nil = all. -/
def tActive (t : TimeV) (idxs : Option (List Nat)) : List Nat :=
  (List.range t.length).filter (fun i => isActiveTick (t.getD i 0) &&
    (match idxs with | none => true | some l => l.contains i))

/-- `Time.Filter`. -/
def tFilter (t : TimeV) (idxs : List Nat) : TimeV := idxs.map (fun i => t.getD i 0)

/-- `Time.Sum(nil)` / `Time.Sum(idxs)`. -/
def tSum (t : TimeV) (idxs : Option (List Nat)) : Nat :=
  match idxs with
  | none => t.sum
  | some l => (l.map (fun i => t.getD i 0)).sum

/-- `Time.NonZeroStates`. -/
def tNonZero (t : TimeV) : List Nat := (List.range t.length).filter (fun i => t.getD i 0 != 0)

/-- `Time.DiffSince` (uint64 subtraction; all zero when the lengths differ). -/
def tDiffSince (t before : TimeV) : TimeV :=
  if t.length != before.length then List.replicate t.length 0
  else (List.range t.length).map (fun i => (t.getD i 0 + 18446744073709551616 - before.getD i 0) % 18446744073709551616)

/-- `Time.Equal`. -/
def tEqual (strict : Bool) (t t2 : TimeV) : Bool :=
  if strict && t.length != t2.length then false
  else (List.range (min t.length t2.length)).all (fun i => t.getD i 0 == t2.getD i 0)

/-- `Time.After`. -/
def tAfter (orEqual : Bool) (t t2 : TimeV) : Bool :=
  (List.range (min t.length t2.length)).all (fun i =>
    !(t.getD i 0 < t2.getD i 0 || (t.getD i 0 == t2.getD i 0 && !orEqual)))

/-- `Time.Before`. -/
def tBefore (orEqual : Bool) (t t2 : TimeV) : Bool :=
  (List.range (min t.length t2.length)).all (fun i =>
    !(t.getD i 0 > t2.getD i 0 || (t.getD i 0 == t2.getD i 0 && !orEqual)))

/-- `Machine.ParseStates`: known names, first occurrences, input order. -/
def parseStates (n : Nat) (states : S) : S := uniq (states.filter (· < n))

/-- `Machine.ParseStates` as the pinned snapshot had it when the input contains
    a duplicate: `slicesUniq(states)`, unknown names kept. -/
def parseStatesPinnedDup (states : S) : S := uniq states

end Am
