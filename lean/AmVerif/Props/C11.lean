/- C11 — determinism. Property theorems only. -/
import AmVerif.Props.Common
namespace Am

/-- C11: the whole run is a function of (schema, name order used at New,
    handler behaviour, history) — the model takes no other input: in particular
    no map-iteration-order oracle (after the two `fix:` commits that made
    `NewAutoMutation` and `TopologicalSort` follow the state-name index). -/
theorem C11_run_is_function (sch : Schema) (alpha : S) (orc : Oracle) (fuel : Nat) (ops : List Op)
    (m1 m2 : Mach) (h1 : m1 = runOps orc fuel (Mach.init sch alpha) ops)
    (h2 : m2 = runOps orc fuel (Mach.init sch alpha) ops) : m1.active = m2.active ∧
    m1.clock = m2.clock ∧ m1.log = m2.log := by
  subst h1 h2; exact ⟨rfl, rfl, rfl⟩

/-- C11 (auto states are called in state-index order, whatever order the schema
    literal was written in). -/
theorem C11_auto_called_sorted (m : Mach) (am : Mut) (h : newAutoMutation m = some am) :
    am.called.Pairwise (· < ·) := by
  simp only [newAutoMutation] at h
  split at h
  · exact absurd h (by simp)
  · simp only [Option.some.injEq] at h
    subst h
    exact List.Pairwise.filter _ (List.pairwise_lt_range)

end Am
