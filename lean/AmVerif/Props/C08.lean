/-
  C08 — handler faults are contained. Property theorems only.
-/
import AmVerif.Props.Common
namespace Am

/-- C08 (a fault during negotiation leaves active states and ticks untouched):
    whatever any Exit/Enter/self/state-state/AnyEnter handler of any binding does
    — return false, panic, overrun its timeout, issue mutations — the
    negotiation phase never changes the active states or a tick. -/
theorem C08_negotiation_fault_noop (orc : Oracle) (m : Mach) (t : Tx) (r : Bool) :
    (negotiate orc m t r).1.active = m.active ∧ (negotiate orc m t r).1.clock = m.clock :=
  ⟨(negotiate_keeps orc m t r).chg.active, (negotiate_keeps orc m t r).chg.clock⟩

/-- C08 (tick parity still matches activity after any sequence of faults):
    C01's parity theorem holds for *every* oracle, faulting ones included. -/
theorem C08_parity_after_faults (sch : Schema) (alpha : S) (orc : Oracle) (fuel : Nat)
    (ops : List Op) :
    let m := runOps orc fuel (Mach.init sch alpha) ops
    ∀ j, j < sch.n → (j ∈ m.active ↔ m.tick j % 2 = 1) := by
  intro m j hj
  have g := good_runOps orc fuel ops (Mach.init sch alpha)
  have h := g.inv (inv_init sch alpha)
  have hl : m.clock.length = sch.n := by rw [g.len]; simp [Mach.init]
  exact h.parity j (hl ▸ hj)

/-- C08 (what a fault in a final handler can do): the only writes to the active
    states in a faulting run are the resolver's target (`apply`) and
    `recoverFinalPhase` called with a record whose latest handler was an
    Enter-side final handler or had no target state — in which case the recovery
    only *removes* states (no duplicates, no resurrection). -/
theorem C08_recovery_only_removes (m : Mach) (t : Tx) (hok : FinalOk t) :
    ∀ x ∈ (recoverFinalPhase m t).active, x ∈ m.active := by
  intro x hx
  simp only [recoverFinalPhase, applyActive] at hx
  rcases hok with he | hnone
  · -- only `without` steps
    have : ∀ (fin : S) (acc : S) (f : Bool), (∀ y ∈ recoverWalk t fin acc f, y ∈ acc) := by
      intro fin
      induction fin with
      | nil => intro acc f y hy; exact hy
      | cons s rest ih =>
        intro acc f y hy
        simp only [recoverWalk, he, if_true] at hy
        split at hy
        · exact ih _ _ y hy
        · exact mem_of_mem_without (ih _ _ y hy)
    exact this _ _ _ x hx
  · rw [recoverWalk_none t hnone] at hx; exact hx

/-- C08 full statement of the rollback clause, recorded as *false of the code*:
    "a fault in a final handler rolls back exactly the (de)activations whose
    final handlers had not completed". A panic in an `End` handler undoes
    nothing, because `latestHandlerToState` is empty for `End` handlers. -/
def C08_final_rollback_full : Prop :=
  ∀ (m : Mach) (t : Tx) (s : Nat), s ∈ t.exits → t.latestIsFinal = true →
    t.latestIsEnter = false → s ∈ (recoverFinalPhase m t).active

theorem C08_final_rollback_full_false : ¬ C08_final_rollback_full := by
  intro h
  -- Set [C] from {A}: A exits; its `AEnd` handler (latestTo = none) panics
  let sch : Schema := { states := [{ multi := true }, {}, {}], exc := 0 }
  let m : Mach := { sch := sch, topo := [], active := [2], clock := [0, 2, 1] }
  let t : Tx := { mu := { kind := .set, called := [2] }, before := [1], timeBefore := [0, 1, 0],
                  timeAfter := [0, 2, 1], target := [2], exits := [1], enters := [2],
                  latestTo := .none, latestIsEnter := false, latestIsFinal := true }
  have := h m t 1 (by decide) rfl rfl
  revert this
  decide

end Am
