/-
  C04 — one queue, one transition at a time, in order, none lost.
  Property theorems only (helper lemmas about counting are local and private).
-/
import AmVerif.Model.QueueProto
import AmVerif.Props.Common
namespace Am.QP

/-! ### counting lemmas -/

def isHolder (p : Pc) : Bool := p == .loop || p == .release

theorem holders_eq (s : St) : holders s = (s.pcs.filter isHolder).length := rfl

private theorem filter_set_length (l : List Pc) (i : Nat) (p q : Pc) (f : Pc → Bool)
    (h : l[i]? = some q) :
    ((l.set i p).filter f).length + (if f q then 1 else 0)
      = (l.filter f).length + (if f p then 1 else 0) := by
  induction l generalizing i with
  | nil => simp at h
  | cons x xs ih =>
    cases i with
    | zero =>
      simp only [List.getElem?_cons_zero, Option.some.injEq] at h
      subst h
      simp only [List.set_cons_zero, List.filter_cons]
      cases f x <;> cases f p <;> simp <;> omega
    | succ j =>
      simp only [List.getElem?_cons_succ] at h
      have := ih j h
      simp only [List.set_cons_succ, List.filter_cons]
      cases f x <;> simp <;> omega

/-- the mutual-exclusion invariant: the flag is set iff exactly one goroutine
    is between a successful CAS and the release, and never more than one is. -/
def MutexInv (s : St) : Prop := holders s = if s.flag then 1 else 0

theorem mutex_init (n : Nat) : MutexInv (init n) := by
  simp only [MutexInv, init, holders]
  induction n with
  | zero => rfl
  | succ k ih => simpa [List.replicate_succ, List.filter_cons] using ih

theorem mutex_step (rc : Bool) (s s' : St) (i : Nat) (h : MutexInv s)
    (hs : step rc s i = some s') : MutexInv s' := by
  unfold step at hs
  cases hp : s.pcs[i]? with
  | none => simp [hp] at hs
  | some pc =>
    simp only [hp] at hs
    unfold MutexInv at *
    rw [holders_eq] at *
    have key := fun p => filter_set_length s.pcs i p pc isHolder hp
    cases pc <;> simp only at hs
    · -- idle
      cases hs
      have := key .pre
      change _ + 0 = _ + 0 at this
      simp only [setPc]; omega
    · -- pre
      split at hs <;> cases hs
      · have := key .cas
        change _ + 0 = _ + 0 at this
        simp only [setPc]; omega
      · have := key .done
        change _ + 0 = _ + 0 at this
        simp only [setPc]; omega
    · -- cas
      split at hs <;> cases hs
      · have := key .done
        change _ + 0 = _ + 0 at this
        simp only [setPc]; omega
      · rename_i hf
        have := key .loop
        change _ + 0 = _ + 1 at this
        simp only [hf, Bool.false_eq_true, if_false] at h
        simp only [setPc, if_true]; omega
    · -- loop
      split at hs <;> cases hs
      · exact h
      · have := key .release
        change _ + 1 = _ + 1 at this
        simp only [setPc]; omega
    · -- release
      cases hs
      have hm : (s.pcs.filter isHolder).length ≥ 1 := by
        have : Pc.release ∈ s.pcs.filter isHolder := by
          simp only [List.mem_filter]
          exact ⟨List.mem_of_getElem? hp, by simp [isHolder]⟩
        exact List.length_pos_of_mem this
      have hf : s.flag = true := by
        cases hf : s.flag
        · simp only [hf, Bool.false_eq_true, if_false] at h; omega
        · rfl
      simp only [hf, if_true] at h
      cases rc
      · have := key .done
        change _ + 1 = _ + 0 at this
        simp only [setPc, Bool.false_eq_true, if_false]; omega
      · have := key .recheck
        change _ + 1 = _ + 0 at this
        simp only [setPc, if_true, Bool.false_eq_true, if_false]; omega
    · -- recheck
      split at hs <;> cases hs
      · have := key .pre
        change _ + 0 = _ + 0 at this
        simp only [setPc]; omega
      · have := key .done
        change _ + 0 = _ + 0 at this
        simp only [setPc]; omega
    · cases hs

theorem mutex_run (rc : Bool) (s : St) (sched : List Nat) (h : MutexInv s) :
    MutexInv (run rc s sched) := by
  induction sched generalizing s with
  | nil => exact h
  | cons i is ih =>
    simp only [run, List.foldl_cons]
    cases hs : step rc s i with
    | none => exact ih s h
    | some s' => exact ih s' (mutex_step rc s s' i h hs)

/-- **C04 (one at a time)**: for every number of caller goroutines, every
    schedule, and both protocol variants, at most one goroutine is ever inside
    the drain loop (between its successful CAS and its release), and the flag
    tells exactly whether one is. Since the only place a transition is created
    and its handlers are run is that loop, no two transitions of one machine
    overlap. -/
theorem C04_one_at_a_time (rc : Bool) (n : Nat) (sched : List Nat) :
    holders (run rc (init n) sched) ≤ 1 ∧
    (holders (run rc (init n) sched) = 1 ↔ (run rc (init n) sched).flag = true) := by
  have h := mutex_run rc (init n) sched (mutex_init n)
  unfold MutexInv at h
  cases hf : (run rc (init n) sched).flag <;> simp [hf] at h ⊢ <;> omega

/-! ### none lost -/

/-- no-strand invariant: a non-empty queue always has a goroutine that is
    certain to test the queue length again. -/
def WatchInv (s : St) : Prop := s.queue > 0 → ∃ p ∈ s.pcs, watching s p = true

private theorem mem_set_self (l : List Pc) (i : Nat) (p q : Pc) (h : l[i]? = some q) :
    p ∈ l.set i p := by
  have hi : i < l.length := by
    rcases List.getElem?_eq_some_iff.mp h with ⟨hi, _⟩; exact hi
  exact List.mem_iff_getElem.mpr ⟨i, by simpa using hi, by simp⟩

private theorem holder_exists (s : St) (h : MutexInv s) (hf : s.flag = true) :
    ∃ p ∈ s.pcs, isHolder p = true := by
  unfold MutexInv at h
  rw [holders_eq, hf] at h
  simp only [if_true] at h
  have : 0 < (s.pcs.filter isHolder).length := by omega
  obtain ⟨p, hp⟩ := List.exists_mem_of_length_pos this
  simp only [List.mem_filter] at hp
  exact ⟨p, hp.1, hp.2⟩

private theorem mem_set_other (l : List Pc) (i : Nat) (p q x : Pc) (h : l[i]? = some q)
    (hx : x ∈ l) (hne : x ≠ q) : x ∈ l.set i p := by
  obtain ⟨j, hj, rfl⟩ := List.mem_iff_getElem.mp hx
  have hij : i ≠ j := by
    intro e; subst e
    rw [List.getElem?_eq_getElem hj] at h
    exact hne (Option.some.inj h)
  exact List.mem_iff_getElem.mpr ⟨j, by simpa using hj, by simp [List.getElem_set, hij]⟩

theorem watch_step (s s' : St) (i : Nat) (hm : MutexInv s) (h : WatchInv s)
    (hs : step true s i = some s') : WatchInv s' := by
  unfold step at hs
  cases hp : s.pcs[i]? with
  | none => simp [hp] at hs
  | some pc =>
    simp only [hp] at hs
    cases pc <;> simp only at hs
    · cases hs
      intro _
      exact ⟨.pre, mem_set_self _ _ _ _ hp, by simp [watching]⟩
    · split at hs <;> cases hs
      · intro _
        cases hf : s.flag
        · exact ⟨.cas, mem_set_self _ _ _ _ hp, by simp [watching, hf]⟩
        · obtain ⟨p, hpm, hph⟩ := holder_exists s hm hf
          refine ⟨p, mem_set_other _ _ _ _ _ hp hpm ?_, ?_⟩
          · intro e; subst e; simp [isHolder] at hph
          · simp only [isHolder, Bool.or_eq_true, beq_iff_eq] at hph
            rcases hph with rfl | rfl <;> simp [watching]
      · rename_i hq
        intro hq'
        exact absurd hq' hq
    · split at hs <;> cases hs
      · rename_i hf
        intro _
        obtain ⟨p, hpm, hph⟩ := holder_exists s hm hf
        refine ⟨p, mem_set_other _ _ _ _ _ hp hpm ?_, ?_⟩
        · intro e; subst e; simp [isHolder] at hph
        · simp only [isHolder, Bool.or_eq_true, beq_iff_eq] at hph
          rcases hph with rfl | rfl <;> simp [watching]
      · intro _
        exact ⟨.loop, mem_set_self _ _ _ _ hp, by simp [watching]⟩
    · split at hs <;> cases hs
      · intro _
        exact ⟨.loop, List.mem_of_getElem? hp, by simp [watching]⟩
      · intro _
        exact ⟨.release, mem_set_self _ _ _ _ hp, by simp [watching]⟩
    · cases hs
      intro _
      exact ⟨.recheck, mem_set_self _ _ _ _ hp, by simp [watching]⟩
    · split at hs <;> cases hs
      · intro _
        exact ⟨.pre, mem_set_self _ _ _ _ hp, by simp [watching]⟩
      · rename_i hq
        intro hq'
        exact absurd hq' hq
    · cases hs

theorem watch_init (n : Nat) : WatchInv (init n) := by
  intro h; simp [init] at h

theorem watch_run (s : St) (sched : List Nat) (hm : MutexInv s) (h : WatchInv s) :
    WatchInv (run true s sched) := by
  induction sched generalizing s with
  | nil => exact h
  | cons i is ih =>
    simp only [run, List.foldl_cons]
    cases hs : step true s i with
    | none => exact ih s hm h
    | some s' => exact ih s' (mutex_step true s s' i hm hs) (watch_step s s' i hm h hs)

/-- **C04 (none lost, protocol with the re-check after the release)**: for every
    number of callers and every schedule, when all callers have returned the
    queue is empty — an idle machine never sits on a non-empty queue. -/
theorem C04_no_strand_recheck (n : Nat) (sched : List Nat)
    (hq : quiescent (run true (init n) sched) = true) :
    (run true (init n) sched).queue = 0 := by
  have h := watch_run (init n) sched (mutex_init n) (watch_init n)
  generalize run true (init n) sched = s at *
  by_cases h0 : s.queue = 0
  · exact h0
  · obtain ⟨p, hp, hw⟩ := h (by omega)
    simp only [quiescent, List.all_eq_true, beq_iff_eq] at hq
    have := hq p hp
    subst this
    simp [watching] at hw

/-- **C04 (none lost) is false of the protocol without the re-check** — the
    pinned code before the repair: two callers, the second appends after the
    first one's last length check and loses the CAS before the release. -/
theorem C04_no_strand_full_false :
    ∃ sched, quiescent (run false (init 2) sched) = true ∧ (run false (init 2) sched).queue = 1 :=
  ⟨[0, 0, 0, 0, 0, 1, 1, 1, 0], by decide⟩

/-- non-vacuity: the quiescence hypothesis is reachable with work done. -/
example : quiescent (run true (init 2) [0,0,0,0,0,1,1,1,0,0,0,0,0,0,0,0]) = true ∧
    (run true (init 2) [0,0,0,0,0,1,1,1,0,0,0,0,0,0,0,0]).queue = 0 := by decide

end Am.QP

namespace Am

/-! ### the sequential side: queued, not nested; queue ticks are positions -/

/-- queue ticks promised to callers that are still waiting, in queue order. -/
def tickedOf (q : List Mut) : List Nat := (q.filter (fun mu => mu.qtick > 0)).map (·.qtick)

/-- the tick promise: the waiting ticked mutations carry, in queue order, exactly
    the next `pending` queue ticks. -/
def TickInv (m : Mach) : Prop := tickedOf m.queue = List.range' (m.queueTick + 1) m.pending

/-- **C04 (queued, not nested)**: a mutation issued while a transition is in
    progress changes neither the active states nor any tick; it is appended to the
    queue (or refused) and the caller gets `Queued` with the position. -/
theorem C04_nested_is_queued (m : Mach) (r : MutReq) :
    (issueNested m r).1.active = m.active ∧ (issueNested m r).1.clock = m.clock ∧
    ((issueNested m r).1.queue = m.queue ∨
      ∃ mu : Mut, (issueNested m r).1.queue = m.queue ++ [mu] ∧
        mu.qtick = m.queueTick + m.pending + 1 ∧
        (issueNested m r).2 = .queued mu.qtick) := by
  unfold issueNested
  split
  · exact ⟨rfl, rfl, Or.inl rfl⟩
  · split
    · exact ⟨rfl, rfl, Or.inl rfl⟩
    · unfold queueMutation
      simp only
      split
      · rename_i h
        split at h
        · cases h; exact ⟨rfl, rfl, Or.inl rfl⟩
        · cases h
      · rename_i tick h
        split at h
        · cases h
        · cases h
          refine ⟨rfl, rfl, Or.inr ⟨_, rfl, ?_, rfl⟩⟩
          simp only; omega

theorem tickInv_queueMutation (m : Mach) (r : MutReq) (h : TickInv m) :
    TickInv (queueMutation m r).1 := by
  unfold queueMutation
  simp only
  split
  · exact h
  · unfold TickInv tickedOf at *
    simp only [Mach.emit, List.filter_append, List.map_append, h, List.filter_cons,
      List.filter_nil]
    have : decide (m.pending + 1 + m.queueTick > 0) = true := by
      simp only [decide_eq_true_eq]; omega
    simp only [this, if_true, List.map_cons, List.map_nil]
    rw [List.range'_concat]
    congr 2; omega

theorem tickInv_prepend (m : Mach) (mu : Mut) (h0 : mu.qtick = 0) (h : TickInv m) :
    TickInv (prepend m mu) := by
  unfold TickInv tickedOf prepend Mach.emit at *
  simp only [List.filter_cons, h0, Nat.lt_irrefl, decide_false, Bool.false_eq_true, if_false]
  exact h

/-- **C04 (in tick order), one step**: when the drain loop shifts a mutation that
    was promised a queue tick, that tick is exactly the machine's next queue
    tick — so promised ticks are honoured in order — and the promise is kept for
    everything still waiting. -/
theorem C04_shift_in_tick_order (m : Mach) (mu : Mut) (rest : List Mut)
    (hq : m.queue = mu :: rest) (h : TickInv m) :
    TickInv (shiftQueue m mu rest) ∧
    (mu.qtick > 0 → (shiftQueue m mu rest).queueTick = mu.qtick) := by
  unfold TickInv tickedOf at h
  rw [hq] at h
  unfold shiftQueue
  simp only
  by_cases hk : mu.qtick > 0
  · simp only [hk, if_true]
    simp only [List.filter_cons, hk, decide_true, if_true, List.map_cons] at h
    cases hp : m.pending with
    | zero => rw [hp] at h; simp at h
    | succ k =>
      rw [hp, List.range'_succ] at h
      simp only [List.cons.injEq] at h
      refine ⟨?_, fun _ => by omega⟩
      unfold TickInv tickedOf
      simp only [Nat.add_sub_cancel]
      exact h.2
  · simp only [hk, if_false]
    have hk' := hk
    refine ⟨?_, fun h' => h'.elim⟩
    simp only [List.filter_cons, hk, decide_false, Bool.false_eq_true, if_false] at h
    exact h

/-- the tick promise holds initially. -/
theorem tickInv_init (sch : Schema) (alpha : S) : TickInv (Mach.init sch alpha) := by
  simp [TickInv, tickedOf, Mach.init]

/-- non-vacuity: a machine with two waiting callers. -/
def exMach : Mach :=
  { sch := default, topo := [], clock := [], queueTick := 4, pending := 2,
    queue := [({ kind := MutKind.add, called := [0], qtick := 5 } : Mut),
              ({ kind := MutKind.add, called := [1] } : Mut),
              ({ kind := MutKind.remove, called := [0], qtick := 6 } : Mut)] }
example : TickInv exMach := by unfold TickInv; decide

end Am
