/-
  C01 — tick parity is activity, ticks only grow, by the documented step.
  Property theorems only; helper lemmas live in AmVerif/Lemmas.
-/
import AmVerif.Props.Common
namespace Am

/-- C01 (parity, all histories): for every schema, every handler oracle
    (including vetoes, panics, timeouts and handlers that mutate) and every
    finite history of Add/Remove/Set/Toggle/AddErr/CanAdd/CanRemove and
    configuration changes, a state is in the active list exactly when its tick
    is odd, and the active list has no duplicates. -/
theorem C01_parity_all_histories (sch : Schema) (alpha : S) (orc : Oracle) (fuel : Nat)
    (ops : List Op) :
    let m := runOps orc fuel (Mach.init sch alpha) ops
    m.active.Nodup ∧ ∀ j, j < sch.n → (j ∈ m.active ↔ m.tick j % 2 = 1) := by
  intro m
  have g := good_runOps orc fuel ops (Mach.init sch alpha)
  have h := g.inv (inv_init sch alpha)
  refine ⟨h.nodup, fun j hj => ?_⟩
  have hl : m.clock.length = sch.n := by
    rw [g.len]; simp [Mach.init]
  exact h.parity j (hl ▸ hj)

/-- C01 (monotone): extending a history never decreases any tick. -/
theorem C01_ticks_monotone (sch : Schema) (alpha : S) (orc : Oracle) (fuel : Nat)
    (ops more : List Op) (j : Nat) (hj : j < sch.n) :
    (runOps orc fuel (Mach.init sch alpha) ops).tick j ≤
      (runOps orc fuel (Mach.init sch alpha) (ops ++ more)).tick j := by
  have g0 := good_runOps orc fuel ops (Mach.init sch alpha)
  have h0 := g0.inv (inv_init sch alpha)
  have e : runOps orc fuel (Mach.init sch alpha) (ops ++ more) =
      runOps orc fuel (runOps orc fuel (Mach.init sch alpha) ops) more := by
    simp [runOps, List.foldl_append]
  rw [e]
  have g := good_runOps orc fuel more (runOps orc fuel (Mach.init sch alpha) ops)
  have hl : (runOps orc fuel (Mach.init sch alpha) ops).clock.length = sch.n := by
    rw [g0.len]; simp [Mach.init]
  exact g.mono h0 j (hl ▸ hj)

/-- C01 (views agree): `Is1`/`Not1`/`Any1` are the membership test and hence,
    by parity, functions of the tick. -/
theorem C01_views_agree (sch : Schema) (alpha : S) (orc : Oracle) (fuel : Nat)
    (ops : List Op) (j : Nat) (hj : j < sch.n) :
    let m := runOps orc fuel (Mach.init sch alpha) ops
    (m.is [j] = true ↔ m.tick j % 2 = 1) ∧ (m.not [j] = true ↔ m.tick j % 2 ≠ 1) := by
  intro m
  have hp := (C01_parity_all_histories sch alpha orc fuel ops).2 j hj
  have hs : m.sch.n = sch.n := by
    show (runOps orc fuel (Mach.init sch alpha) ops).sch.n = sch.n
    rw [runOps_sch]; rfl
  constructor
  · simp only [Mach.is, List.all_cons, List.all_nil, Bool.and_true, Bool.and_eq_true,
      decide_eq_true_eq, List.contains_iff_mem, hs]
    exact ⟨fun h => hp.1 h.2, fun h => ⟨hj, hp.2 h⟩⟩
  · rw [Mach.not, noneOf_iff]
    constructor
    · intro h e
      exact h j (hp.2 e) (by simp)
    · intro h x hx hxj
      have : x = j := by simpa using hxj
      subst this
      exact h (hp.1 hx)

/-- C01 (documented step): one application of the target states moves a tick by
    exactly +1 (activity flipped), +2 (an active, directly called Multi state
    stays active) or 0. -/
theorem C01_documented_step (sch : Schema) (active : S) (clock : List Nat) (called target : S)
    (ht : target.Nodup) (ha : active.Nodup) (j : Nat) (hj : j < clock.length) :
    (tickClock sch active clock called target).getD j 0 - clock.getD j 0 =
      if (j ∈ active) ≠ (j ∈ target) then 1
      else if j ∈ active ∧ j ∈ target ∧ j ∈ called ∧ (sch.get j).multi = true then 2
      else 0 :=
  step_tickClock sch active clock called target ht ha j hj

/-- non-vacuity: a concrete schema with a Multi state, run through the model. -/
example :
    let sch : Schema := { states := [{ multi := true }, { add := [0] }], exc := 0 }
    let m := runOps (fun _ _ _ => none) 50 (Mach.init sch [0, 1])
      [.mutate { kind := .add, states := [1] }, .mutate { kind := .add, states := [0] }]
    m.active = [0, 1] ∧ m.clock = [3, 1] := by decide

end Am
