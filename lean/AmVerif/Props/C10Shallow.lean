/-
  C10 — the round trip for shallow clocks: parity of every synchronised state, queue and machine
  ticks, and acceptance by the (activity-count) checksum.
-/
import AmVerif.Props.C10
namespace Am.Rpc
open Am

/-- abstract form of the shallow diff over a list of pushed indices. -/
def shallowPairs (dnow dprev : List Nat) (P : List Nat) : List (Nat × Nat) :=
  P.filterMap (fun p => if dprev.getD p 0 % 2 != dnow.getD p 0 % 2 then some (p, 1) else none)

/-- the flip a state gets: 1 when its parity changed. -/
def flip (dnow dprev : List Nat) (p : Nat) : Nat :=
  if dprev.getD p 0 % 2 != dnow.getD p 0 % 2 then 1 else 0

theorem applyPairs_shallowPairs (dnow dprev : List Nat) (P : List Nat) : ∀ (t : List Nat),
    (∀ p ∈ P, p < t.length) →
    applyPairs (shallowPairs dnow dprev P) t = P.foldl (fun t p => incr t p (flip dnow dprev p)) t := by
  induction P with
  | nil => intro t _; rfl
  | cons a r ih =>
    intro t hlt
    simp only [shallowPairs, List.filterMap_cons, List.foldl_cons]
    have hlen : (incr t a (flip dnow dprev a)).length = t.length := by simp
    by_cases he : (dprev.getD a 0 % 2 != dnow.getD a 0 % 2) = true
    · simp only [he, if_true]
      have hf : flip dnow dprev a = 1 := by unfold flip; rw [if_pos he]
      rw [hf] at hlen ⊢
      simp only [applyPairs, List.foldl_cons, hlt a (by simp), if_true]
      have := ih (incr t a 1) (by intro p hp; rw [hlen]; exact hlt p (List.mem_cons_of_mem _ hp))
      simpa [applyPairs, shallowPairs, addAt_eq_incr] using this
    · have he' : (dprev.getD a 0 % 2 != dnow.getD a 0 % 2) = false := by simpa using he
      simp only [he', Bool.false_eq_true, if_false]
      have hf : flip dnow dprev a = 0 := by unfold flip; rw [if_neg he]
      rw [hf, incr_zero]
      have := ih t (by intro p hp; exact hlt p (List.mem_cons_of_mem _ hp))
      simpa [shallowPairs] using this

/-- under the stated guards `genShallowUpdate` is the abstract shallow diff. -/
theorem genShallow_eq (c : Cfg) (now prev : List Nat)
    (hP : ∀ p ∈ pushedList c, p < 65536 ∧ p < prev.length) :
    genShallow c now prev = shallowPairs now prev (pushedList c) := by
  have key : ∀ k, k < c.tracked.length → pushedIdx c k (c.tracked.getD k 0) ∈ pushedList c := by
    intro k hk'
    unfold pushedIdx pushedList
    split
    · simp only [List.getD_eq_getElem?_getD, List.getElem?_eq_getElem hk', Option.getD_some]
      exact List.getElem_mem hk'
    · simpa using hk'
  have hfun : ∀ k ∈ List.range c.tracked.length,
      (let p := pushedIdx c k (c.tracked.getD k 0)
       if p % 65536 ≥ prev.length then
         if now.getD p 0 == 0 then none else some (p % 65536, now.getD p 0 % 2)
       else if prev.getD p 0 % 2 != now.getD p 0 % 2 then some (p % 65536, 1)
       else none) =
      (fun p => if prev.getD p 0 % 2 != now.getD p 0 % 2 then some (p, 1) else none)
        (pushedIdx c k (c.tracked.getD k 0)) := by
    intro k hkr
    have hk' : k < c.tracked.length := by simpa using hkr
    obtain ⟨h1, h2⟩ := hP _ (key k hk')
    simp only [Nat.mod_eq_of_lt h1]
    have hlt : ¬ pushedIdx c k (c.tracked.getD k 0) ≥ prev.length := by omega
    simp only [hlt, if_false]
  unfold genShallow shallowPairs
  rw [filterMap_congr' hfun]
  unfold pushedList
  split
  · rename_i hs
    have : (fun k => (fun p => if (prev.getD p 0 % 2 != now.getD p 0 % 2) = true
        then some (p, 1) else none) (pushedIdx c k (c.tracked.getD k 0))) =
        (fun p => if (prev.getD p 0 % 2 != now.getD p 0 % 2) = true
        then some (p, 1) else none) ∘ (fun k => c.tracked.getD k 0) := by
      funext k; simp [pushedIdx, hs]
    rw [this, ← List.filterMap_map, map_getD_range]
  · rename_i hs
    have : (fun k => (fun p => if (prev.getD p 0 % 2 != now.getD p 0 % 2) = true
        then some (p, 1) else none) (pushedIdx c k (c.tracked.getD k 0))) =
        (fun p => if (prev.getD p 0 % 2 != now.getD p 0 % 2) = true
        then some (p, 1) else none) := by
      funext k; simp [pushedIdx, hs]
    rw [this]

theorem eraseDups_of_nodup : ∀ (l : List Nat), l.Nodup → l.eraseDups = l := by
  intro l
  induction l with
  | nil => intro _; rfl
  | cons a as ih =>
    intro h
    rw [List.nodup_cons] at h
    rw [List.eraseDups_cons]
    have hf : as.filter (fun b => !b == a) = as := by
      apply List.filter_eq_self.2
      intro b hb
      have : b ≠ a := fun e => h.1 (e ▸ hb)
      simpa using this
    rw [hf, ih h.2]

/-- counting the odd entries of a duplicate-free index list = summing the parities. -/
theorem count_odd_eq_sum (t : List Nat) (P : List Nat) (hnd : P.Nodup) (hlt : ∀ p ∈ P, p < t.length) :
    ((P.filter (fun i => decide (i < t.length) && t.getD i 0 % 2 == 1)).eraseDups).length =
      (P.map (fun p => t.getD p 0 % 2)).sum := by
  have hnd' : (P.filter (fun i => decide (i < t.length) && t.getD i 0 % 2 == 1)).Nodup :=
    List.Nodup.sublist List.filter_sublist hnd
  rw [eraseDups_of_nodup _ hnd']
  clear hnd' hnd
  induction P with
  | nil => rfl
  | cons a r ih =>
    have ha := hlt a (by simp)
    have ihr := ih (fun p hp => hlt p (List.mem_cons_of_mem _ hp))
    simp only [List.filter_cons, List.map_cons, List.sum_cons]
    have hmod : t.getD a 0 % 2 = 0 ∨ t.getD a 0 % 2 = 1 := by omega
    rcases hmod with h0 | h1
    · have hc : (decide (a < t.length) && t.getD a 0 % 2 == 1) = false := by rw [h0]; simp
      rw [hc]; simp only [Bool.false_eq_true, if_false]; rw [ihr, h0]; omega
    · have hc : (decide (a < t.length) && t.getD a 0 % 2 == 1) = true := by rw [h1]; simp [ha]
      rw [hc]; simp only [if_true, List.length_cons]; rw [ihr, h1]; omega

theorem getD_map_mod2 (l : List Nat) (i : Nat) : (l.map (· % 2)).getD i 0 = l.getD i 0 % 2 := by
  simp only [List.getD_eq_getElem?_getD, List.getElem?_map]
  cases l[i]? <;> simp

/-- the sum the server puts in the shallow checksum is the number of odd ticks over the pushed indexes. -/
theorem shallowSum_eq (c : Cfg) (hs : c.shallow = true) (s : Snap) :
    (mkData c s).sum = ((pushedList c).map (fun p => (dataOf c s).getD p 0 % 2)).sum := by
  unfold mkData pushedList dataOf lsum filterT
  simp only [hs, if_true]
  cases hsc : c.syncSchema
  · simp only [Bool.not_false, if_true, Bool.false_eq_true, if_false]
    have := map_getD_range ((c.tracked.map (fun i => s.time.getD i 0)).map (· % 2))
    simp only [List.length_map] at this
    conv => lhs; rw [← this]
    congr 1
    apply List.map_congr_left
    intro p _
    exact getD_map_mod2 _ p
  · simp only [Bool.not_true, Bool.false_eq_true, if_false, if_true, List.map_map]
    congr 1
    apply List.map_congr_left
    intro p _
    exact getD_map_mod2 _ p

/-- the client's mirror agrees with snapshot `s` in parity on every synchronised state. -/
structure HoldsParity (c : Cfg) (mi : Mirror) (s : Snap) : Prop where
  len : mi.time.length = (dataOf c s).length
  agree : ∀ p ∈ pushedList c, mi.time.getD p 0 % 2 = (dataOf c s).getD p 0 % 2
  q : mi.q = s.q
  m : mi.m = s.m

/-- C10 (shallow round trip): with shallow clocks the update derived from two successive
    snapshots, applied to a mirror that agrees with the first in the parity of every synchronised
    state (whatever ticks it holds - after the handshake they are the deep ones), is accepted by the
    activity-count checksum and leaves the mirror agreeing with the second in parity, with the
    right queue and machine ticks. `last` is whatever the server memorised for the first snapshot
    (the hello export with deep ticks, or the previous 0/1 tracer data). -/
theorem C10_roundtrip_shallow (c : Cfg) (n : Nat) (wf : WF c n) (hs : c.shallow = true)
    (prev now : Snap) (hp : prev.time.length = n) (hn : now.time.length = n)
    (hq : prev.q ≤ now.q ∧ now.q - prev.q < 65536)
    (hm : prev.m ≤ now.m ∧ now.m - prev.m < 256 ∧ now.m < 4294967296)
    (last : TData) (hl1 : last.mTime.length = (dataOf c prev).length)
    (hl2 : ∀ p ∈ pushedList c, last.mTime.getD p 0 % 2 = (dataOf c prev).getD p 0 % 2)
    (hl3 : last.q = prev.q ∧ last.m = prev.m)
    (mi : Mirror) (hh : HoldsParity c mi prev) :
    ∃ mi', clientApply c (calcUpdate c true (mkData c now) last) mi = some mi' ∧
      HoldsParity c mi' now := by
  have hdn : (mkData c now).mTime = (dataOf c now).map (· % 2) := by
    simp [mkData, hs, dataOf]
  have hlenEq : (dataOf c now).length = (dataOf c prev).length := by
    rw [dataOf_length, dataOf_length, hp, hn]
  have hPlt := pushed_lt wf prev hp
  have hgen : genShallow c ((dataOf c now).map (· % 2)) last.mTime =
      shallowPairs ((dataOf c now).map (· % 2)) last.mTime (pushedList c) := by
    apply genShallow_eq
    intro p hpp
    exact ⟨(hPlt p hpp).2, by rw [hl1]; exact (hPlt p hpp).1⟩
  have htime : (clockFromUpdate (calcUpdate c true (mkData c now) last) mi).time =
      (pushedList c).foldl (fun t p => incr t p (flip ((dataOf c now).map (· % 2)) last.mTime p)) mi.time := by
    simp only [clockFromUpdate, calcUpdate, if_true, hdn, hgen, zip_map_fst_snd]
    exact applyPairs_shallowPairs _ _ _ _ (by intro p hpp; rw [hh.len]; exact (hPlt p hpp).1)
  have hqm : (clockFromUpdate (calcUpdate c true (mkData c now) last) mi).q = now.q ∧
      (clockFromUpdate (calcUpdate c true (mkData c now) last) mi).m = now.m := by
    simp only [clockFromUpdate, calcUpdate, hh.q, hh.m]
    have e1 : (mkData c now).q = now.q := by simp [mkData, hs]
    have e2 : (mkData c now).m = now.m := by simp [mkData, hs]
    rw [e1, e2, hl3.1, hl3.2, subMod_eq hq.1 hq.2, subMod_eq hm.1 hm.2.1]
    constructor
    · omega
    · rw [Nat.mod_eq_of_lt] <;> omega
  have hpoint : ∀ p ∈ pushedList c,
      (clockFromUpdate (calcUpdate c true (mkData c now) last) mi).time.getD p 0 % 2 =
        (dataOf c now).getD p 0 % 2 := by
    intro p hpp
    rw [htime, getD_foldl_incr _ _ (pushed_nodup wf) _ p (by rw [hh.len]; exact (hPlt p hpp).1)]
    simp only [hpp, if_true]
    have h1 := hh.agree p hpp
    have h2 := hl2 p hpp
    have h3 := getD_map_mod2 (dataOf c now) p
    unfold flip
    rw [h3]
    by_cases he : (last.mTime.getD p 0 % 2 != (dataOf c now).getD p 0 % 2 % 2) = true
    · rw [if_pos he]
      have : last.mTime.getD p 0 % 2 ≠ (dataOf c now).getD p 0 % 2 % 2 := by simpa using he
      omega
    · rw [if_neg he]
      have : last.mTime.getD p 0 % 2 = (dataOf c now).getD p 0 % 2 % 2 := by simpa using he
      omega
  have hlenAfter : (clockFromUpdate (calcUpdate c true (mkData c now) last) mi).time.length =
      (dataOf c now).length := by
    rw [htime, length_foldl_incr, hh.len, hlenEq]
  refine ⟨clockFromUpdate (calcUpdate c true (mkData c now) last) mi, ?_,
    ⟨hlenAfter, hpoint, hqm.1, hqm.2⟩⟩
  simp only [clientApply]
  have hcount : (((clientTracked c).filter (fun i =>
        decide (i < (clockFromUpdate (calcUpdate c true (mkData c now) last) mi).time.length) &&
        (clockFromUpdate (calcUpdate c true (mkData c now) last) mi).time.getD i 0 % 2 == 1)).eraseDups).length =
      (mkData c now).sum := by
    have hct : clientTracked c = pushedList c := rfl
    rw [hct, count_odd_eq_sum _ _ (pushed_nodup wf)
      (by intro p hpp; rw [hlenAfter, hlenEq]; exact (hPlt p hpp).1), shallowSum_eq c hs now]
    congr 1
    apply List.map_congr_left
    intro p hpp
    exact hpoint p hpp
  have : clientChecksum c (clockFromUpdate (calcUpdate c true (mkData c now) last) mi) =
      (calcUpdate c true (mkData c now) last).checksum := by
    simp only [clientChecksum, hs, if_true, hcount, hqm.1, hqm.2]
    simp [calcUpdate, mkData, hs]
  simp [this]

/-- non-vacuity: after a handshake with deep ticks (A = 3, B = 2) the first shallow diff is exact. -/
example :
    let c : Cfg := { syncSchema := true, shallow := true, tracked := [0, 1, 2] }
    let prev : Snap := { time := [3, 2, 0], q := 5, m := 0 }
    let now : Snap := { time := [3, 2, 1], q := 6, m := 0 }
    (clientApply c (calcUpdate c true (mkData c now) (helloData c prev)) (helloMirror c prev)).map (·.time) =
      some [3, 2, 1] := by decide

end Am.Rpc
