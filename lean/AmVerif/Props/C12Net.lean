/-
  C12 — "the same holds for a network machine that is receiving clock updates while being
  read": obligations over the access table of pkg/rpc's NetworkMachine, regenerated from /repo
  on every run (Generated/LocksNet.lean). The mirror's clock lives in four fields guarded by
  `clockMx`; an update arrives through `NetMachInternal.UpdateClock`, whose contract is "the
  caller holds `clockMx` in write mode" (it releases it itself before calling tracers). With
  `Lockset.C12_writer_excludes_all` the four obligations give: no access to a clock field is
  concurrent with a write to it.
-/
import AmVerif.Generated.LocksNet
namespace Am.C12N
open Am.Lockset

def clockFields : List String :=
  ["NetworkMachine.machTime", "NetworkMachine.machClock", "NetworkMachine.queueTick",
   "NetworkMachine.machTick"]

def clockLock : String := "NetworkMachine.clockMx"

def isClockField (f : String) : Bool := clockFields.contains f

/-- the row's access holds `clockMx` (in write mode for a write). -/
def holds (r : Row) : Bool := r.locks.any (fun l => l.1 == clockLock && (l.2 || !r.write))

/-- the access comes after the function has released its caller's `clockMx`. -/
def afterRelease (r : Row) : Bool := r.locks.any (fun l => l.1 == "released " ++ clockLock)

/-- **writers are confined**: the clock fields are written by the update path, by the schema
    update of the handshake and by the constructor only. -/
theorem C12_net_writers_confined :
    Gen.netLockRows.all (fun r => !(isClockField r.field && r.write) ||
      r.func == "NetworkMachine.updateClock" || r.func == "Client.updateStatesSchema" ||
      r.func == "NewNetworkMachine") = true := by decide +kernel

/-- **every other access is guarded**: outside `updateClock` (covered by its contract) and the
    constructor, every access to a clock field holds `clockMx`, writes in write mode. -/
theorem C12_net_clock_guarded :
    Gen.netLockRows.all (fun r => !(isClockField r.field) ||
      r.func == "NetworkMachine.updateClock" || r.func == "NewNetworkMachine" ||
      (!r.async && holds r)) = true := by decide +kernel

/-- **the update touches the clock only while it still holds its caller's lock**. -/
theorem C12_net_update_before_release :
    Gen.netLockRows.all (fun r => !(isClockField r.field && r.func == "NetworkMachine.updateClock") ||
      !afterRelease r) = true := by decide +kernel

/-- **the contract is honoured**: every caller of `UpdateClock` holds `clockMx` in write mode,
    and `updateClock` is reached through `UpdateClock` only. -/
theorem C12_net_update_contract :
    Gen.netContractCalls.all (fun c =>
      if c.2.1 == "NetMachInternal.UpdateClock" then c.2.2.any (fun l => l.1 == clockLock && l.2)
      else c.1 == "NetMachInternal.UpdateClock") = true := by decide +kernel

/-- non-vacuity: the table has the update path and guarded readers in it. -/
example : Gen.netLockRows.any (fun r => r.func == "NetworkMachine.updateClock" && r.write && isClockField r.field) = true ∧
    Gen.netLockRows.any (fun r => r.func == "NetworkMachine.Clock" && holds r) = true ∧
    Gen.netContractCalls.length ≥ 2 := by decide +kernel

end Am.C12N
