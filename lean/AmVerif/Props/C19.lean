/-
  C19 — shipped schemas are well-formed; exclusive groups hold in every
  reachable state. Property theorems only; per-schema obligations are in
  AmVerif/Generated (regenerated from /repo on every run).
-/
import AmVerif.Props.Common
import AmVerif.Model.SchemaParse
namespace Am

/-- C19 (mutual exclusion, resolver level, *every* active set): if the members of
    a group Remove one another and at most one of them is an Add target of any
    state, the resolved target never contains two members — whatever the active
    states before, the mutation and the rest of the schema. -/
theorem C19_mutex_target (c : RCtx) (toSet : S) (grp : S)
    (hmr : ∀ x ∈ grp, ∀ y ∈ grp, x ≠ y → y ∈ (c.sch.get x).remove)
    (hadd : ∀ x ∈ grp, ∀ y ∈ grp, IsAddTarget c.sch x → IsAddTarget c.sch y → x = y) :
    ∀ x ∈ targetStates c toSet, ∀ y ∈ targetStates c toSet, x ∈ grp → y ∈ grp → x = y := by
  intro x hx y hy hxg hyg
  obtain ⟨cx, rx⟩ := mem_targetStates_cases hx
  obtain ⟨cy, ry⟩ := mem_targetStates_cases hy
  apply Classical.byContradiction
  intro hne
  rcases cx with sx | ax
  · exact ry x sx (hmr x hxg y hyg hne)
  · rcases cy with sy | ay
    · exact rx y sy (hmr y hyg x hxg (fun e => hne e.symm))
    · exact hne (hadd x hxg y hyg ax ay)

/-- the decidable side conditions imply the hypotheses of `C19_mutex_target`. -/
theorem groupOK_spec (g : GenSchema) (grp : S)
    (h : (g.mutualRemove grp && g.mutexStatic grp) = true) :
    (∀ x ∈ grp, ∀ y ∈ grp, x ≠ y → y ∈ (g.schema.get x).remove) ∧
    (∀ x ∈ grp, ∀ y ∈ grp, IsAddTarget g.schema x → IsAddTarget g.schema y → x = y) := by
  simp only [Bool.and_eq_true] at h
  obtain ⟨h1, h2⟩ := h
  constructor
  · intro x hx y hy hne
    simp only [GenSchema.mutualRemove, List.all_eq_true, Bool.or_eq_true, beq_iff_eq,
      List.contains_iff_mem] at h1
    rcases h1 x hx y hy with e | e
    · exact absurd e hne
    · exact e
  · intro x hx y hy ⟨wx, hwx⟩ ⟨wy, hwy⟩
    have inAT : ∀ z w, z ∈ (g.schema.get w).add → z ∈ g.addTargets := by
      intro z w hz
      simp only [GenSchema.addTargets, List.mem_flatten, List.mem_map]
      by_cases hw : w < g.parsed.length
      · refine ⟨_, ⟨g.parsed[w], List.getElem_mem hw, rfl⟩, ?_⟩
        simpa [GenSchema.schema, Schema.get, List.getD_eq_getElem?_getD, hw] using hz
      · have : (g.schema.get w).add = [] := by
          simp [GenSchema.schema, Schema.get, List.getD_eq_getElem?_getD,
            List.getElem?_eq_none (by omega : g.parsed.length ≤ w)]
        rw [this] at hz; simp at hz
    have mx : x ∈ uniq (grp.filter (g.addTargets.contains ·)) := by
      simp only [mem_uniq, List.mem_filter, List.contains_iff_mem]
      exact ⟨hx, by simpa using inAT x wx hwx⟩
    have my : y ∈ uniq (grp.filter (g.addTargets.contains ·)) := by
      simp only [mem_uniq, List.mem_filter, List.contains_iff_mem]
      exact ⟨hy, by simpa using inAT y wy hwy⟩
    simp only [GenSchema.mutexStatic, decide_eq_true_eq] at h2
    generalize uniq (grp.filter (g.addTargets.contains ·)) = l at mx my h2
    match l, h2 with
    | [], _ => simp at mx
    | [a], _ =>
      simp only [List.mem_singleton] at mx my
      rw [mx, my]
    | _ :: _ :: _, h2 => simp at h2

/-- C19 (exclusive groups, all histories): on a machine built from a schema whose
    group passes the static check, no finite history of mutations (any Add /
    Remove / Set, with any non-faulting handlers) reaches an active set with two
    members of the group. -/
theorem C19_mutex_all_histories (g : GenSchema) (grp : S)
    (h : (g.mutualRemove grp && g.mutexStatic grp) = true)
    (alpha : S) (orc : Oracle) (hff : FaultFree orc) (fuel : Nat) (ops : List Op) :
    let m := runOps orc fuel (Mach.init g.schema alpha) ops
    ∀ x ∈ m.active, ∀ y ∈ m.active, x ∈ grp → y ∈ grp → x = y := by
  intro m
  obtain ⟨hmr, hadd⟩ := groupOK_spec g grp h
  have hc := chg_runOps orc hff fuel ops (Mach.init g.schema alpha)
  exact hc.inv_faultfree
    (fun a => a.sch = g.schema ∧ ∀ x ∈ a.active, ∀ y ∈ a.active, x ∈ grp → y ∈ grp → x = y)
    (fun a b hs ha _ hp => ⟨hs.trans hp.1, by rw [ha]; exact hp.2⟩)
    (fun a c ts cl hcs hp => by
      refine ⟨by rw [applyActive_sch]; exact hp.1, ?_⟩
      rw [applyActive_active]
      have hs : c.sch = g.schema := hcs.trans hp.1
      exact C19_mutex_target c ts grp (by rw [hs]; exact hmr) (by rw [hs]; exact hadd))
    ⟨rfl, by intro x hx; simp [Mach.init] at hx⟩ |>.2

/-- C19 (Require closure, all histories) is C02's theorem: nothing per schema. -/
theorem C19_require_all_histories (sch : Schema) (alpha : S) (orc : Oracle)
    (hff : FaultFree orc) (fuel : Nat) (ops : List Op) :
    let m := runOps orc fuel (Mach.init sch alpha) ops
    ∀ x ∈ m.active, ∀ r ∈ (sch.get x).require, r ∈ m.active := by
  intro m
  have h := chg_runOps orc hff fuel ops (Mach.init sch alpha)
  have key := h.inv_faultfree (fun a => ReqClosed a.sch a.active)
    (fun a b hs ha _ hp => by rw [hs, ha]; exact hp)
    (fun a c ts cl hc _ => by
      rw [applyActive_sch, applyActive_active, ← hc]; exact targetStates_closed c ts)
    (by intro x hx; simp [Mach.init] at hx)
  have hs : m.sch = sch := by
    show (runOps orc fuel (Mach.init sch alpha) ops).sch = sch
    rw [runOps_sch]; rfl
  intro x hx r hr
  rw [← hs] at hr
  exact key x hx r hr

end Am
