/-
  C14 — tracers see every transition once, in order, never interleaved: the shape of the callback
  stream over whole histories. The model's log records the tracer callbacks `TransitionInit`,
  `TransitionStart`, `TransitionFinals`, `TransitionEnd` among the other events; projected on those
  four, the log of every history is a word of (Init Start [Finals] End)*, for every schema, handler
  oracle (nested mutations, vetoes, panics, timeouts, detaching) and operation list - unless the
  model's caller goroutine crashed (a Go panic escaping `emitEvents`, which the pinned code can
  still do in one auto-transition corner).
-/
import AmVerif.Props.C04Lift
namespace Am

/-- the four life-cycle callbacks. -/
def Ev.isTx : Ev → Bool
  | .tInit _ _ _ _ _ _ => true
  | .tStart _ => true
  | .tFinals _ _ => true
  | .tEnd _ _ _ _ _ => true
  | _ => false

/-- where a tracer is within a transition. -/
inductive Ph | idle | inited | started | finals
deriving DecidableEq, Repr

def Ph.step : Ph → Ev → Option Ph
  | .idle, .tInit _ _ _ _ _ _ => some .inited
  | .inited, .tStart _ => some .started
  | .started, .tFinals _ _ => some .finals
  | .started, .tEnd _ _ _ _ _ => some .idle
  | .finals, .tEnd _ _ _ _ _ => some .idle
  | p, e => if e.isTx then none else some p

def runPh : Ph → List Ev → Option Ph
  | p, [] => some p
  | p, e :: r => match p.step e with
    | some q => runPh q r
    | none => none

theorem runPh_append (p : Ph) (a b : List Ev) :
    runPh p (a ++ b) = (runPh p a).bind (fun q => runPh q b) := by
  induction a generalizing p with
  | nil => simp [runPh]
  | cons e r ih =>
    simp only [List.cons_append, runPh]
    cases p.step e with
    | none => rfl
    | some q => exact ih q

/-- the log grew by a word that takes a tracer from phase `p` to phase `q`. -/
def LX (p q : Ph) (m m' : Mach) : Prop := ∃ ext, m'.log = m.log ++ ext ∧ runPh p ext = some q

/-- the log grew by events that are none of the four callbacks (or not at all). -/
def NX (m m' : Mach) : Prop := ∃ ext, m'.log = m.log ++ ext ∧ ∀ e ∈ ext, e.isTx = false

theorem runPh_neutral (p : Ph) (ext : List Ev) (h : ∀ e ∈ ext, e.isTx = false) : runPh p ext = some p := by
  induction ext with
  | nil => rfl
  | cons e r ih =>
    have he := h e (by simp)
    have hs : p.step e = some p := by
      cases p <;> cases e <;> simp_all [Ph.step, Ev.isTx]
    simp only [runPh, hs]
    exact ih (fun x hx => h x (List.mem_cons_of_mem _ hx))

theorem NX.toLX {m m' : Mach} (h : NX m m') (p : Ph) : LX p p m m' := by
  obtain ⟨ext, hl, hn⟩ := h
  exact ⟨ext, hl, runPh_neutral p ext hn⟩

theorem NX.refl (m : Mach) : NX m m := ⟨[], by simp, by simp⟩
theorem NX.of_log {m m' : Mach} (h : m'.log = m.log) : NX m m' := ⟨[], by simp [h], by simp⟩

theorem NX.trans {a b c : Mach} (h1 : NX a b) (h2 : NX b c) : NX a c := by
  obtain ⟨e1, l1, n1⟩ := h1
  obtain ⟨e2, l2, n2⟩ := h2
  refine ⟨e1 ++ e2, by rw [l2, l1, List.append_assoc], ?_⟩
  intro e he
  rcases List.mem_append.1 he with h | h
  · exact n1 e h
  · exact n2 e h

theorem LX.trans {p q r : Ph} {a b c : Mach} (h1 : LX p q a b) (h2 : LX q r b c) : LX p r a c := by
  obtain ⟨e1, l1, r1⟩ := h1
  obtain ⟨e2, l2, r2⟩ := h2
  refine ⟨e1 ++ e2, by rw [l2, l1, List.append_assoc], ?_⟩
  rw [runPh_append, r1]; exact r2

theorem nx_emit (m : Mach) (e : Ev) (h : e.isTx = false) : NX m (m.emit e) :=
  ⟨[e], rfl, by intro x hx; simp at hx; subst hx; exact h⟩

/-! ### leaves -/

theorem nx_bump (m : Mach) (k : Nat × HName) : NX m (bumpCount m k) := NX.of_log rfl
theorem nx_markDetached (m : Mach) (d : Nat) : NX m (markDetached m d) := NX.of_log rfl
theorem nx_recoverFinalPhase (m : Mach) (t : Tx) : NX m (recoverFinalPhase m t) := NX.of_log rfl
theorem nx_crash (m : Mach) : NX m { m with crashed := true } := NX.of_log rfl

theorem nx_queueMutation (m : Mach) (r : MutReq) : NX m (queueMutation m r).1 := by
  unfold queueMutation
  simp only
  split
  · exact NX.refl m
  · exact (NX.of_log (m' := { m with queue := _, pending := _ }) rfl).trans (nx_emit _ _ rfl)

theorem nx_prepend (m : Mach) (mu : Mut) : NX m (prepend m mu) :=
  (NX.of_log (m' := { m with queue := mu :: m.queue }) rfl).trans (nx_emit _ _ rfl)

theorem nx_issueNested (m : Mach) (r : MutReq) : NX m (issueNested m r).1 := by
  unfold issueNested
  split
  · exact NX.refl m
  · split
    · exact NX.refl m
    · have h := nx_queueMutation m r
      split <;> (rename_i heq; rw [heq] at h; exact h)

theorem nx_issueLogged (m : Mach) (r : MutReq) : NX m (issueLogged m r) :=
  (nx_issueNested m r).trans (nx_emit _ _ rfl)

theorem nx_foldl_issue (l : List MutReq) : ∀ m : Mach, NX m (l.foldl (fun mm r => issueLogged mm r) m) := by
  induction l with
  | nil => intro m; exact NX.refl m
  | cons a t ih => intro m; exact (nx_issueLogged m a).trans (ih _)

theorem nx_doSub (m : Mach) (r : SubReq) : NX m (doSub m r).1 := by
  unfold doSub
  split
  · split <;> exact NX.refl m
  · split
    all_goals first
      | exact NX.of_log rfl
      | (split <;> first | exact NX.refl m | exact NX.of_log rfl)

theorem nx_subLogged (m : Mach) (r : SubReq) : NX m (subLogged m r) :=
  (nx_doSub m r).trans (nx_emit _ _ rfl)

theorem nx_foldl_sub (l : List SubReq) : ∀ m : Mach, NX m (l.foldl (fun mm r => subLogged mm r) m) := by
  induction l with
  | nil => intro m; exact NX.refl m
  | cons a t ih => intro m; exact (nx_subLogged m a).trans (ih _)

theorem nx_handlerBody (m : Mach) (b : Nat) (name : HName) (beh : Behaviour) :
    NX m (handlerBody m b name beh) :=
  (((nx_bump m _).trans (nx_emit _ _ rfl)).trans (nx_foldl_issue _ _)).trans (nx_foldl_sub _ _)

theorem nx_whenArgsStage (m : Mach) (t : Tx) (name : HName) : NX m (whenArgsStage m t name) :=
  NX.of_log rfl

theorem nx_recoverToErr (m : Mach) (t : Tx) : NX m (recoverToErr m t).1 := by
  unfold recoverToErr
  split
  · exact NX.refl m
  · split
    · exact (nx_recoverFinalPhase m t).trans (nx_prepend _ _)
    · exact nx_prepend _ _

/-! ### handlers and loops -/

theorem nx_processHandlers (orc : Oracle) (name : HName) :
    ∀ (live : List Nat) (m : Mach) (t : Tx) (pk : Bool), NX m (processHandlers orc name live m t pk).1 := by
  intro live
  induction live with
  | nil => intro m t pk; exact nx_whenArgsStage m t name
  | cons b rest ih =>
    intro m t pk
    simp only [processHandlers]
    split
    · exact ih _ _ _
    · rename_i beh _
      split
      · split
        · exact ih _ _ _
        · exact NX.refl m
      · have g1 := nx_handlerBody m b name beh
        split
        · split
          · exact g1.trans (ih _ _ _)
          · exact g1
        · exact (g1.trans (nx_markDetached _ _)).trans (ih _ _ _)
        · exact g1.trans (nx_emit _ _ rfl)
        · split
          · exact (g1.trans (nx_recoverToErr _ _)).trans (ih _ _ _)
          · exact g1.trans (nx_recoverToErr _ _)

theorem nx_handle (orc : Oracle) (m : Mach) (t : Tx) (name : HName) (to : ToState) (isFinal isEnter : Bool) :
    NX m (handle orc m t name to isFinal isEnter).1 := by
  simp only [handle]
  exact nx_processHandlers orc name m.live m _ false

theorem nx_emitExits (orc : Oracle) : ∀ (l : S) (m : Mach) (t : Tx), NX m (emitExits orc l m t).1 := by
  intro l
  induction l with
  | nil => intro m t; exact NX.refl m
  | cons s rest ih =>
    intro m t
    simp only [emitExits]
    have k1 := nx_handle orc m t (.exit s) .none false false
    split
    · exact k1.trans (ih _ _)
    · split
      · split
        · exact k1.trans (ih _ _)
        · exact k1
      · exact k1

theorem nx_emitEnters (orc : Oracle) : ∀ (l : S) (m : Mach) (t : Tx), NX m (emitEnters orc l m t).1 := by
  intro l
  induction l with
  | nil => intro m t; exact NX.refl m
  | cons s rest ih =>
    intro m t
    simp only [emitEnters]
    have k1 := nx_handle orc m t (.enter s) (.st s) false true
    split
    · exact k1.trans (ih _ _)
    · split
      · split
        · exact k1.trans (ih _ _)
        · exact k1.trans (nx_crash _)
      · exact k1

theorem nx_emitSelfs (orc : Oracle) : ∀ (fuel i : Nat) (arr : List (Option Nat)) (m : Mach) (t : Tx),
    NX m (emitSelfs orc fuel i arr m t).1 := by
  intro fuel
  induction fuel with
  | zero => intro i arr m t; exact NX.refl m
  | succ n ih =>
    intro i arr m t
    simp only [emitSelfs]
    split
    · exact NX.refl m
    · split
      · exact ih _ _ _ _
      · rename_i s _
        split
        · exact ih _ _ _ _
        · have k1 := nx_handle orc m t (.trans s s) (.st s) false false
          split
          · exact k1.trans (ih _ _ _ _)
          · split
            · split
              · exact k1.trans (nx_crash _)
              · exact k1.trans (ih _ _ _ _)
            · exact k1

theorem nx_emitSSInner (orc : Oracle) (b : Nat) : ∀ (l : S) (m : Mach) (t : Tx),
    NX m (emitSSInner orc b l m t).1 := by
  intro l
  induction l with
  | nil => intro m t; exact NX.refl m
  | cons a rest ih =>
    intro m t
    simp only [emitSSInner]
    split
    · exact ih m t
    · have k1 := nx_handle orc m t (.trans b a) .none false false
      split
      · exact k1.trans (ih _ _)
      · split
        · exact k1.trans (ih _ _)
        · exact k1

theorem nx_emitSS (orc : Oracle) (after : S) : ∀ (l : S) (m : Mach) (t : Tx),
    NX m (emitSS orc after l m t).1 := by
  intro l
  induction l with
  | nil => intro m t; exact NX.refl m
  | cons b rest ih =>
    intro m t
    simp only [emitSS]
    have k := nx_emitSSInner orc b after m t
    split
    · exact k.trans (ih _ _)
    · exact k

theorem nx_emitFinals (orc : Oracle) (enters : S) : ∀ (l : S) (m : Mach) (t : Tx),
    NX m (emitFinals orc enters l m t).1 := by
  intro l
  induction l with
  | nil => intro m t; exact NX.refl m
  | cons s rest ih =>
    intro m t
    simp only [emitFinals]
    split
    · have k := nx_handle orc m t (.state s) (.st s) true true
      split
      · exact k.trans (ih _ _)
      · exact k
    · have k := nx_handle orc m t (.end_ s) .none true false
      split
      · exact k.trans (ih _ _)
      · exact k

theorem nx_negStep (f : Mach → Tx → Mach × Tx × Bool) (hf : ∀ m t, NX m (f m t).1)
    (p : Mach × Tx × Bool) : NX p.1 (negStep f p).1 := by
  unfold negStep
  split
  · exact NX.refl _
  · split
    · exact hf _ _
    · exact NX.refl _

theorem nx_stageSelfs (orc : Oracle) (m : Mach) (t : Tx) : NX m (stageSelfs orc m t).1 := by
  unfold stageSelfs
  split
  · exact nx_emitSelfs orc _ _ _ _ _
  · exact NX.refl m

theorem nx_stageAnyEnter (orc : Oracle) (m : Mach) (t : Tx) : NX m (stageAnyEnter orc m t).1 := by
  unfold stageAnyEnter
  split
  · exact NX.refl m
  · exact nx_handle orc m t _ _ _ _

theorem nx_negotiate (orc : Oracle) (m : Mach) (t : Tx) (r : Bool) : NX m (negotiate orc m t r).1 := by
  unfold negotiate
  split
  · exact NX.refl m
  · have h1 := nx_negStep (fun m t => emitExits orc t.exits m t) (fun m t => nx_emitExits orc _ m t) (m, t, r)
    have h2 := nx_negStep (fun m t => emitEnters orc t.enters m t) (fun m t => nx_emitEnters orc _ m t)
      (negStep (fun m t => emitExits orc t.exits m t) (m, t, r))
    have h3 := nx_negStep (stageSelfs orc) (nx_stageSelfs orc)
      (negStep (fun m t => emitEnters orc t.enters m t) (negStep (fun m t => emitExits orc t.exits m t) (m, t, r)))
    have h4 := nx_negStep (fun m t => emitSS orc t.target t.before m t) (fun m t => nx_emitSS orc _ _ m t)
      (negStep (stageSelfs orc) (negStep (fun m t => emitEnters orc t.enters m t)
        (negStep (fun m t => emitExits orc t.exits m t) (m, t, r))))
    have h5 := nx_negStep (stageAnyEnter orc) (nx_stageAnyEnter orc)
      (negStep (fun m t => emitSS orc t.target t.before m t) (negStep (stageSelfs orc)
        (negStep (fun m t => emitEnters orc t.enters m t) (negStep (fun m t => emitExits orc t.exits m t) (m, t, r)))))
    exact (((h1.trans h2).trans h3).trans h4).trans h5

theorem nx_autoStage (m : Mach) (t : Tx) (c : Bool) : NX m (autoStage m t c) := by
  unfold autoStage
  split
  · split
    · exact nx_prepend _ _
    · exact NX.refl m
  · exact NX.refl m

/-! ### the life cycle -/

theorem lx_emit {p q : Ph} (m : Mach) (e : Ev) (h : p.step e = some q) : LX p q m (m.emit e) :=
  ⟨[e], rfl, by simp [runPh, h]⟩

/-- `finish` reports `TransitionEnd`: from `started` (canceled, checks) or from `finals`. -/
theorem lx_finish (p : Ph) (hp : p = .started ∨ p = .finals) (m : Mach) (t : Tx) (r : Bool) :
    LX p .idle m (finish m t r).1 := by
  have hs : ∀ e1 e2 e3 e4 e5, p.step (.tEnd e1 e2 e3 e4 e5) = some .idle := by
    intro e1 e2 e3 e4 e5
    rcases hp with rfl | rfl <;> rfl
  unfold finish
  simp only
  split
  · exact lx_emit _ _ (hs _ _ _ _ _)
  · split <;> exact lx_emit _ _ (hs _ _ _ _ _)

theorem lx_afterFinals (orc : Oracle) (m4 : Mach) (t4 : Tx) (r4 : Bool) :
    LX .finals .idle m4 (afterFinals orc m4 t4 r4).1 := by
  simp only [afterFinals]
  have g5 : NX m4 (if (!r4) = true then recoverFinalPhase m4 t4 else m4) := by
    split
    · exact nx_recoverFinalPhase m4 t4
    · exact NX.refl m4
  generalize (if (!r4) = true then recoverFinalPhase m4 t4 else m4) = m5 at g5 ⊢
  have g6 : NX m5 (if (r4 && m5.hasHandlers) = true then
      handle orc m5 t4 .anyState .any true true else (m5, t4, r4)).1 := by
    split
    · exact nx_handle orc m5 t4 _ _ _ _
    · exact NX.refl m5
  generalize (if (r4 && m5.hasHandlers) = true then
      handle orc m5 t4 .anyState .any true true else (m5, t4, r4)) = p6 at g6 ⊢
  split
  · exact ((g5.trans g6).toLX .finals).trans (lx_finish .finals (Or.inr rfl) _ _ _)
  · exact (((g5.trans g6).trans (nx_autoStage _ _ _)).toLX .finals).trans
      (lx_finish .finals (Or.inr rfl) _ _ _)

/-- `applyTarget` reports `TransitionFinals`. -/
theorem lx_applyTarget (m1 : Mach) (t2 : Tx) : LX .started .finals m1 (applyTarget m1 t2).1 := by
  unfold applyTarget
  simp only
  exact ((NX.of_log (m' := { applyActive m1 t2.mu.called t2.target with subs := _ }) rfl).toLX .started).trans
    (lx_emit _ _ rfl)

theorem nx_runFinals (orc : Oracle) (m3 : Mach) (t3 : Tx) : NX m3 (runFinals orc m3 t3).1 := by
  unfold runFinals
  split
  · exact nx_emitFinals orc _ _ m3 t3
  · exact NX.refl m3

theorem lx_applyPhase (orc : Oracle) (m1 : Mach) (t2 : Tx) : LX .started .idle m1 (applyPhase orc m1 t2).1 := by
  simp only [applyPhase]
  exact ((lx_applyTarget m1 t2).trans ((nx_runFinals orc _ _).toLX .finals)).trans (lx_afterFinals orc _ _ _)

/-- `emitEvents`: `TransitionStart`, the negotiation, then either the applied branch (Finals, End)
    or End alone - unless the caller goroutine crashed on the way. -/
theorem lx_emitEvents (orc : Oracle) (m0 : Mach) (t0 : Tx) :
    (emitEvents orc m0 t0).1.crashed = true ∨ LX .inited .idle m0 (emitEvents orc m0 t0).1 := by
  simp only [emitEvents]
  have q0 : LX .inited .started m0 (negotiate orc (m0.emit (.tStart t0.accepted)) t0 t0.accepted).1 :=
    (lx_emit m0 _ rfl).trans ((nx_negotiate orc _ t0 t0.accepted).toLX .started)
  generalize negotiate orc (m0.emit (.tStart t0.accepted)) t0 t0.accepted = p at q0 ⊢
  split
  · rename_i hc; exact Or.inl hc
  · split
    · exact Or.inr (q0.trans (lx_finish .started (Or.inl rfl) _ _ _))
    · split
      · exact Or.inr (q0.trans (lx_applyPhase orc _ _))
      · exact Or.inr (q0.trans (lx_finish .started (Or.inl rfl) _ _ _))

/-- `newTransition` reports `TransitionInit`. -/
theorem lx_newTx (m : Mach) (mu : Mut) : LX .idle .inited m (newTx m mu).1 := by
  unfold newTx
  simp only
  exact ((NX.of_log (m' := { m with inTx := true }) rfl).toLX .idle).trans (lx_emit _ _ rfl)

/-! ### the queue, the operations, the histories -/

/-- what every operation keeps: a crashed caller, or a closed callback stream. -/
def Shape (m : Mach) : Prop := m.crashed = true ∨ runPh .idle m.log = some .idle

theorem Shape.of_lx {m m' : Mach} (h : runPh .idle m.log = some .idle) (x : LX .idle .idle m m') :
    runPh .idle m'.log = some .idle := by
  obtain ⟨ext, hl, hr⟩ := x
  rw [hl, runPh_append, h]; exact hr

theorem shape_runOne (orc : Oracle) (m : Mach) (mu : Mut) (rest : List Mut)
    (h : runPh .idle m.log = some .idle) : Shape (runOne orc m mu rest).1 := by
  simp only [runOne]
  have h1 : LX .idle .inited m (newTx (shiftQueue m mu rest) mu).1 := by
    have hs : NX m (shiftQueue m mu rest) := by
      unfold shiftQueue; simp only; split <;> exact NX.of_log rfl
    exact (hs.toLX .idle).trans (lx_newTx _ mu)
  have h2 := lx_emitEvents orc (newTx (shiftQueue m mu rest) mu).1 (newTx (shiftQueue m mu rest) mu).2
  generalize emitEvents orc (newTx (shiftQueue m mu rest) mu).1 (newTx (shiftQueue m mu rest) mu).2 = q at h2 ⊢
  rcases h2 with hc | hx
  · simp only [hc, Bool.true_or, if_true]
    exact Or.inl hc
  · have hq : runPh .idle q.1.log = some .idle := Shape.of_lx h (h1.trans hx)
    split
    · exact Or.inr hq
    · split
      · exact Or.inr (Shape.of_lx hq ((NX.of_log (m' := processSubscriptions q.1 q.2.1) rfl).toLX .idle))
      · exact Or.inr (Shape.of_lx hq ((NX.of_log (m' := { q.1 with subs := _ }) rfl).toLX .idle))

theorem shape_drain (orc : Oracle) : ∀ (fuel : Nat) (m : Mach) (rets : List Res),
    runPh .idle m.log = some .idle → Shape (drain orc fuel m rets).1 := by
  intro fuel
  induction fuel with
  | zero => intro m rets h; exact Or.inr h
  | succ n ih =>
    intro m rets h
    simp only [drain]
    split
    · exact Or.inr h
    · rename_i mu rest hq
      have h1 := shape_runOne orc m mu rest h
      split
      · rename_i hc; exact Or.inl hc
      · rename_i hc
        rcases h1 with hcr | hok
        · exact absurd hcr hc
        · exact ih _ _ hok

theorem shape_processQueue (orc : Oracle) (fuel : Nat) (m : Mach) (h : runPh .idle m.log = some .idle) :
    Shape (processQueue orc fuel m).1 := by
  unfold processQueue
  split
  · exact Or.inr h
  · have h1 := shape_drain orc fuel m [] h
    generalize drain orc fuel m [] = d at h1 ⊢
    obtain ⟨m1, rets⟩ := d
    simp only
    split
    · rename_i hc; exact Or.inl hc
    · rename_i hc
      rcases h1 with hcr | hok
      · exact absurd hcr hc
      · exact Or.inr (Shape.of_lx hok (((NX.of_log (m' := { m1 with inTx := false, subs := _ }) rfl).trans
          (nx_emit _ _ rfl)).toLX .idle))

theorem shape_mutate (orc : Oracle) (fuel : Nat) (m : Mach) (r : MutReq) (h : Shape m) :
    Shape (mutate orc fuel m r).1 := by
  unfold mutate
  split
  · exact h
  · rename_i hcd
    have hnc : m.crashed = false := by
      cases hc : m.crashed <;> simp_all
    have hl : runPh .idle m.log = some .idle := by
      rcases h with h | h
      · rw [hnc] at h; cases h
      · exact h
    split
    · exact Or.inr hl
    · split
      · exact Or.inr hl
      · have h1 : runPh .idle (queueMutation m r).1.log = some .idle :=
          Shape.of_lx hl ((nx_queueMutation m r).toLX .idle)
        split
        · rename_i m1 heq
          rw [heq] at h1; exact Or.inr h1
        · rename_i m1 tick heq
          rw [heq] at h1
          have h2 := shape_processQueue orc fuel m1 h1
          generalize processQueue orc fuel m1 = pq at h2 ⊢
          obtain ⟨m2, res⟩ := pq
          simp only
          split <;> exact h2

theorem shape_check (orc : Oracle) (fuel : Nat) (m : Mach) (k : MutKind) (st : S) (h : Shape m) :
    Shape (check orc fuel m k st).1 := by
  unfold check
  split
  · exact h
  · rename_i hcd
    have hnc : m.crashed = false := by
      cases hc : m.crashed <;> simp_all
    have hl : runPh .idle m.log = some .idle := by
      rcases h with h | h
      · rw [hnc] at h; cases h
      · exact h
    split
    · exact Or.inr hl
    · exact shape_processQueue orc fuel _ (Shape.of_lx hl ((nx_prepend m _).toLX .idle))

theorem shape_toggle (orc : Oracle) (fuel : Nat) (m : Mach) (st : S) (h : Shape m) :
    Shape (toggle orc fuel m st).1 := by
  unfold toggle
  split <;> exact shape_mutate orc fuel m _ h

theorem shape_addErr (orc : Oracle) (fuel : Nat) (m : Mach) (h : Shape m) :
    Shape (addErr orc fuel m).1 := by
  unfold addErr
  split
  · exact h
  · exact shape_mutate orc fuel m _ h

theorem shape_applyOp (orc : Oracle) (fuel : Nat) (m : Mach) (op : Op) (h : Shape m) :
    Shape (applyOp orc fuel m op) := by
  cases op with
  | mutate r => exact shape_mutate orc fuel m r h
  | check k st => exact shape_check orc fuel m k st h
  | toggle st => exact shape_toggle orc fuel m st h
  | addErr => exact shape_addErr orc fuel m h
  | setBackoff b => exact h
  | setLimit n => exact h
  | bind k => exact h

/-- **C14 (every transition once, in order, never interleaved — all histories)**: for every
    schema, every handler oracle and every finite history of operations, the stream of
    `TransitionInit` / `TransitionStart` / `TransitionFinals` / `TransitionEnd` callbacks is a
    sequence of complete, non-overlapping transitions Init, Start, [Finals], End — unless the
    caller goroutine crashed. -/
theorem C14_callbacks_well_formed (sch : Schema) (alpha : S) (orc : Oracle) (fuel : Nat) (ops : List Op) :
    Shape (runOps orc fuel (Mach.init sch alpha) ops) := by
  have key : ∀ (ops : List Op) (m : Mach), Shape m → Shape (runOps orc fuel m ops) := by
    intro ops
    induction ops with
    | nil => intro m h; exact h
    | cons op rest ih => intro m h; exact ih _ (shape_applyOp orc fuel m op h)
  exact key ops _ (Or.inr (by simp [Mach.init, runPh]))

/-- non-vacuity: an accepted and a canceled transition, with handler noise between the callbacks. -/
example : runPh .idle [.tInit default [] [] [] [] true, .mq default, .tStart true, .h 0 (.enter 1) [],
    .tFinals [] [], .h 0 (.state 1) [], .tEnd [] [] true [] 0, .qEnd,
    .tInit default [] [] [] [] false, .tStart false, .tEnd [] [] false [] 0] = some .idle := by decide

/-- ... and an interleaved stream is rejected. -/
example : runPh .idle [.tInit default [] [] [] [] true, .tInit default [] [] [] [] true] = none := by decide

end Am
