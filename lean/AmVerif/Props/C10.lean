/-
  C10 — RPC clock diffs round-trip exactly and the checksum catches any drift.
  Property theorems only.
-/
import AmVerif.Lemmas.RpcCodec
namespace Am.Rpc
open Am

/-- the tracked list names distinct states of an `n`-state machine; message
    indexes are `uint16`. -/
structure WF (c : Cfg) (n : Nat) : Prop where
  nodup : c.tracked.Nodup
  lt : ∀ i ∈ c.tracked, i < n
  /-- (implied by the two above; stated to keep the proofs in core Lean) -/
  len_le : c.tracked.length ≤ n
  small : n ≤ 65536

/-- the time vector the server keeps for a snapshot (deep mode). -/
def dataOf (c : Cfg) (s : Snap) : List Nat :=
  if !c.syncSchema then filterT s.time c.tracked else s.time

/-- the client's mirror holds snapshot `s`: every synchronised state has the
    source's tick, nothing else is counted, queue and machine ticks agree. -/
structure Holds (c : Cfg) (mi : Mirror) (s : Snap) : Prop where
  len : mi.time.length = (dataOf c s).length
  agree : ∀ p ∈ pushedList c, mi.time.getD p 0 = (dataOf c s).getD p 0
  sum : mi.time.sum = ((pushedList c).map (fun p => (dataOf c s).getD p 0)).sum
  q : mi.q = s.q
  m : mi.m = s.m

theorem sum_add_sub (P : List Nat) (a b : Nat → Nat) (h : ∀ p ∈ P, a p ≤ b p) :
    (P.map a).sum + (P.map (fun p => b p - a p)).sum = (P.map b).sum := by
  induction P with
  | nil => rfl
  | cons x t ih =>
    have hx := h x (by simp)
    have := ih (fun p hp => h p (List.mem_cons_of_mem _ hp))
    simp only [List.map_cons, List.sum_cons]
    omega

theorem pushed_nodup {c : Cfg} {n : Nat} (wf : WF c n) : (pushedList c).Nodup := by
  unfold pushedList; split
  · exact wf.nodup
  · exact List.nodup_range

theorem dataOf_length (c : Cfg) (s : Snap) :
    (dataOf c s).length = if c.syncSchema then s.time.length else c.tracked.length := by
  unfold dataOf filterT; cases c.syncSchema <;> simp

theorem pushed_lt {c : Cfg} {n : Nat} (wf : WF c n) (s : Snap) (hn : s.time.length = n) :
    ∀ p ∈ pushedList c, p < (dataOf c s).length ∧ p < 65536 := by
  intro p hp
  rw [dataOf_length]
  unfold pushedList at hp
  have := wf.len_le
  have := wf.small
  cases hs : c.syncSchema <;> simp only [hs, Bool.false_eq_true, if_false, if_true] at hp ⊢
  · have : p < c.tracked.length := by simpa using hp
    omega
  · have := wf.lt p hp
    omega

/-- the sum the server puts in the checksum is the sum over the pushed indexes. -/
theorem trackedSum_eq (c : Cfg) (s : Snap) :
    lsum (filterT s.time c.tracked) = ((pushedList c).map (fun p => (dataOf c s).getD p 0)).sum := by
  unfold pushedList dataOf lsum filterT
  cases c.syncSchema
  · simp only [Bool.not_false, if_true, Bool.false_eq_true, if_false]
    have := map_getD_range (c.tracked.map (fun i => s.time.getD i 0))
    simp only [List.length_map] at this
    rw [this]
  · simp

/-- C10 (deep round trip): the update derived from two successive snapshots,
    applied to a mirror holding the first, is accepted by the checksum and leaves
    the mirror holding exactly the second — every synchronised tick, the queue
    tick and the machine tick — for every state count, tracked subset and index
    space, provided the per-state / queue / machine deltas fit the uint32 /
    uint16 / uint8 message fields. `last` is whatever the server memorised for
    the first snapshot (the hello export or the previous tracer data). -/
theorem C10_roundtrip_deep (c : Cfg) (n : Nat) (wf : WF c n) (hd : c.shallow = false)
    (prev now : Snap) (hp : prev.time.length = n) (hn : now.time.length = n)
    (hmono : ∀ p ∈ pushedList c, (dataOf c prev).getD p 0 ≤ (dataOf c now).getD p 0 ∧
      (dataOf c now).getD p 0 - (dataOf c prev).getD p 0 < 4294967296)
    (hq : prev.q ≤ now.q ∧ now.q - prev.q < 65536)
    (hm : prev.m ≤ now.m ∧ now.m - prev.m < 256 ∧ now.m < 4294967296)
    (last : TData) (hl1 : last.mTime.length = (dataOf c prev).length)
    (hl2 : ∀ p ∈ pushedList c, last.mTime.getD p 0 = (dataOf c prev).getD p 0)
    (hl3 : last.q = prev.q ∧ last.m = prev.m)
    (mi : Mirror) (hh : Holds c mi prev) :
    ∃ mi', clientApply c (calcUpdate c false (mkData c now) last) mi = some mi' ∧ Holds c mi' now := by
  have hdn : (mkData c now).mTime = dataOf c now := by simp [mkData, hd, dataOf]
  have hck : (mkData c now).checksum = checksum (lsum (filterT now.time c.tracked)) now.q now.m := by
    simp [mkData, hd]
  have hlenEq : (dataOf c now).length = (dataOf c prev).length := by
    rw [dataOf_length, dataOf_length, hp, hn]
  have hPlt := pushed_lt wf prev hp
  have hk : c.tracked.length ≤ last.mTime.length := by
    rw [hl1, dataOf_length, hp]; have := wf.len_le; split <;> omega
  have hgen : genDeep c (dataOf c now) last.mTime = deepPairs (dataOf c now) last.mTime (pushedList c) := by
    apply genDeep_eq c _ _ hk
    intro p hpp
    rw [hl2 p hpp]
    exact ⟨(hPlt p hpp).2, (hmono p hpp).1, (hmono p hpp).2⟩
  have htime : (clockFromUpdate (calcUpdate c false (mkData c now) last) mi).time =
      (pushedList c).foldl (fun t p => incr t p ((dataOf c now).getD p 0 - last.mTime.getD p 0)) mi.time := by
    simp only [clockFromUpdate, calcUpdate, Bool.false_eq_true, if_false, hdn, hgen, zip_map_fst_snd]
    exact applyPairs_deepPairs _ _ _ _
      (by intro p hpp; rw [hh.len]; exact (hPlt p hpp).1)
      (by intro p hpp; rw [hl2 p hpp]; exact (hmono p hpp).1)
  have hqm : (clockFromUpdate (calcUpdate c false (mkData c now) last) mi).q = now.q ∧
      (clockFromUpdate (calcUpdate c false (mkData c now) last) mi).m = now.m := by
    simp only [clockFromUpdate, calcUpdate, hh.q, hh.m]
    have e1 : (mkData c now).q = now.q := by simp [mkData, hd]
    have e2 : (mkData c now).m = now.m := by simp [mkData, hd]
    rw [e1, e2, hl3.1, hl3.2, subMod_eq hq.1 hq.2, subMod_eq hm.1 hm.2.1]
    constructor
    · omega
    · rw [Nat.mod_eq_of_lt] <;> omega
  have hpoint : ∀ p ∈ pushedList c,
      (clockFromUpdate (calcUpdate c false (mkData c now) last) mi).time.getD p 0 = (dataOf c now).getD p 0 := by
    intro p hpp
    rw [htime, getD_foldl_incr _ _ (pushed_nodup wf) _ p (by rw [hh.len]; exact (hPlt p hpp).1)]
    simp only [hpp, if_true, hh.agree p hpp, hl2 p hpp]
    have := (hmono p hpp).1
    omega
  have hsumAfter : (clockFromUpdate (calcUpdate c false (mkData c now) last) mi).time.sum =
      ((pushedList c).map (fun p => (dataOf c now).getD p 0)).sum := by
    rw [htime, sum_foldl_incr _ _ _ (by intro p hpp; rw [hh.len]; exact (hPlt p hpp).1), hh.sum]
    have : (pushedList c).map (fun p => (dataOf c now).getD p 0 - last.mTime.getD p 0) =
        (pushedList c).map (fun p => (dataOf c now).getD p 0 - (dataOf c prev).getD p 0) := by
      apply List.map_congr_left
      intro p hpp; rw [hl2 p hpp]
    rw [this]
    exact sum_add_sub _ _ _ (fun p hpp => (hmono p hpp).1)
  have hlenAfter : (clockFromUpdate (calcUpdate c false (mkData c now) last) mi).time.length =
      (dataOf c now).length := by
    rw [htime, length_foldl_incr, hh.len, hlenEq]
  refine ⟨clockFromUpdate (calcUpdate c false (mkData c now) last) mi, ?_,
    ⟨hlenAfter, hpoint, hsumAfter, hqm.1, hqm.2⟩⟩
  simp only [clientApply]
  have : clientChecksum c (clockFromUpdate (calcUpdate c false (mkData c now) last) mi) =
      (calcUpdate c false (mkData c now) last).checksum := by
    simp only [clientChecksum, hd, Bool.false_eq_true, if_false, lsum, hsumAfter, hqm.1, hqm.2]
    simp only [calcUpdate, hck, trackedSum_eq]
  simp [this]

end Am.Rpc

namespace Am.Rpc
open Am

/-- C10 (drift is caught, deep clocks): the deep checksum is additive in the
    ticks, so if two mirrors of the same length differ in
    (tick sum + queue tick + machine tick) modulo 256, no update can be accepted
    by both — in particular an update that fits the mirror holding the first
    snapshot is rejected by a drifted one. -/
theorem C10_reject_drift_deep (c : Cfg) (hd : c.shallow = false) (u : Update) (m1 m2 : Mirror)
    (hlen : m1.time.length = m2.time.length)
    (hdiff : (m1.time.sum + m1.q + m1.m) % 256 ≠ (m2.time.sum + m2.q + m2.m) % 256)
    (hacc : (clientApply c u m1).isSome) : clientApply c u m2 = none := by
  have hs : ∀ (mi : Mirror), clientChecksum c (clockFromUpdate u mi) =
      (mi.time.sum + (((u.idxs.zip u.ticks).filter (fun p => p.1 < mi.time.length)).map (·.2)).sum
        + (mi.q + u.q) + (mi.m + u.m) % 4294967296) % 256 := by
    intro mi
    simp only [clientChecksum, hd, Bool.false_eq_true, if_false, checksum, lsum, clockFromUpdate]
    have := sum_applyPairs (u.idxs.zip u.ticks) mi.time
    simp only [applyPairs] at this
    rw [this]
  have h1 : clientChecksum c (clockFromUpdate u m1) = u.checksum := by
    simp only [clientApply] at hacc
    split at hacc
    · rename_i h; simpa using h
    · simp at hacc
  simp only [clientApply]
  have h2 : clientChecksum c (clockFromUpdate u m2) ≠ u.checksum := by
    rw [← h1, hs m1, hs m2, hlen]
    intro heq
    apply hdiff
    omega
  simp [h2]

theorem sum_map_zero (l : List Nat) : (l.map (fun _ => 0)).sum = 0 := by
  induction l with
  | nil => rfl
  | cons a t ih => simp [ih]

theorem sum_map_add' (l : List Nat) (f g : Nat → Nat) :
    (l.map (fun i => f i + g i)).sum = (l.map f).sum + (l.map g).sum := by
  induction l with
  | nil => rfl
  | cons a t ih => simp only [List.map_cons, List.sum_cons, ih]; omega

theorem sum_single (n a v : Nat) (h : a < n) :
    ((List.range n).map (fun i => if i = a then v else 0)).sum = v := by
  induction n with
  | zero => omega
  | succ k ih =>
    rw [List.range_succ, List.map_append, List.sum_append]
    by_cases hk : a < k
    · rw [ih hk]
      have : k ≠ a := by omega
      simp [this]
    · have hak : a = k := by omega
      subst hak
      have : ((List.range a).map (fun i => if i = a then v else 0)) = (List.range a).map (fun _ => 0) := by
        apply List.map_congr_left
        intro i hi
        have : i < a := by simpa using hi
        have : i ≠ a := by omega
        simp [this]
      rw [this, sum_map_zero]
      simp

/-- summing `f` over the positions listed in a duplicate-free `l`. -/
theorem sum_indicator (n : Nat) (f : Nat → Nat) : ∀ (l : List Nat), l.Nodup → (∀ i ∈ l, i < n) →
    ((List.range n).map (fun i => if l.contains i then f i else 0)).sum = (l.map f).sum := by
  intro l
  induction l with
  | nil => intro _ _; simp [sum_map_zero]
  | cons a t ih =>
    intro hnd hlt
    rw [List.nodup_cons] at hnd
    have hfun : (List.range n).map (fun i => if (a :: t).contains i then f i else 0) =
        (List.range n).map (fun i => (if i = a then f a else 0) + (if t.contains i then f i else 0)) := by
      apply List.map_congr_left
      intro i _
      by_cases hia : i = a
      · subst hia
        have hni : i ∉ t := hnd.1
        simp [hni]
      · have : (a :: t).contains i = t.contains i := by
          simp [List.contains_cons, hia]
        simp [this, hia]
    rw [hfun, sum_map_add', sum_single n a (f a) (hlt a (by simp)),
      ih hnd.2 (fun i hi => hlt i (List.mem_cons_of_mem _ hi))]
    simp

/-- C10: the mirror built from the hello message holds the hello snapshot. -/
theorem C10_hello_holds (c : Cfg) (n : Nat) (wf : WF c n) (s : Snap) (hn : s.time.length = n) :
    Holds c (helloMirror c s) s := by
  have hP := pushed_lt wf s hn
  refine ⟨?_, ?_, ?_, rfl, rfl⟩
  · simp only [helloMirror, helloTime, dataOf]
    cases c.syncSchema <;> simp [filterT]
  · intro p hp
    simp only [helloMirror, helloTime, dataOf]
    cases hs : c.syncSchema
    · simp
    · simp only [Bool.not_true, Bool.false_eq_true, if_false]
      have hpt : p ∈ c.tracked := by simpa [pushedList, hs] using hp
      have hlt : p < s.time.length := by rw [hn]; exact wf.lt p hpt
      simp [List.getD_eq_getElem?_getD, hlt, hpt]
  · simp only [helloMirror, helloTime, dataOf, pushedList]
    cases hs : c.syncSchema
    · simp only [Bool.not_false, if_true, Bool.false_eq_true, if_false]
      have := map_getD_range (filterT s.time c.tracked)
      simp only [filterT, List.length_map] at this ⊢
      rw [this]
    · simp only [Bool.not_true, Bool.false_eq_true, if_false, if_true]
      rw [hn]
      exact sum_indicator n (fun i => s.time.getD i 0) c.tracked wf.nodup wf.lt

end Am.Rpc

namespace Am.Rpc
open Am

/-- successive snapshots whose deltas fit the message fields. -/
def ChainOK (c : Cfg) (n : Nat) : Snap → List Snap → Prop
  | _, [] => True
  | prev, s :: rest =>
    s.time.length = n ∧
    (∀ p ∈ pushedList c, (dataOf c prev).getD p 0 ≤ (dataOf c s).getD p 0 ∧
      (dataOf c s).getD p 0 - (dataOf c prev).getD p 0 < 4294967296) ∧
    (prev.q ≤ s.q ∧ s.q - prev.q < 65536) ∧
    (prev.m ≤ s.m ∧ s.m - prev.m < 256 ∧ s.m < 4294967296) ∧ ChainOK c n s rest

/-- the last snapshot of a chain (the start when the chain is empty). -/
def lastSnap : Snap → List Snap → Snap
  | p, [] => p
  | _, s :: rest => lastSnap s rest

/-- C10 (chains of per-mutation updates): a batch of per-mutation diffs, each
    taken against the previous mutation's snapshot, is accepted update by update
    and leaves the mirror holding the last snapshot. -/
theorem C10_chain_deep (c : Cfg) (n : Nat) (wf : WF c n) (hd : c.shallow = false) :
    ∀ (snaps : List Snap) (prev : Snap) (last : TData) (mi : Mirror),
    prev.time.length = n →
    last.mTime.length = (dataOf c prev).length →
    (∀ p ∈ pushedList c, last.mTime.getD p 0 = (dataOf c prev).getD p 0) →
    (last.q = prev.q ∧ last.m = prev.m) →
    Holds c mi prev → ChainOK c n prev snaps →
    ∃ mi', clientApplyMuts c (calcUpdateMuts c (snaps.map (mkData c)) last) mi = (mi', true) ∧
      Holds c mi' (lastSnap prev snaps) := by
  intro snaps
  induction snaps with
  | nil => intro prev last mi _ _ _ _ hh _; exact ⟨mi, rfl, hh⟩
  | cons s rest ih =>
    intro prev last mi hp hl1 hl2 hl3 hh hc
    obtain ⟨hn, hmono, hq, hm, hrest⟩ := hc
    obtain ⟨mi1, ha, hh1⟩ := C10_roundtrip_deep c n wf hd prev s hp hn hmono hq hm last hl1 hl2 hl3 mi hh
    have hdn : (mkData c s).mTime = dataOf c s := by simp [mkData, hd, dataOf]
    have hqm : (mkData c s).q = s.q ∧ (mkData c s).m = s.m := by simp [mkData, hd]
    obtain ⟨mi2, hb, hh2⟩ := ih s (mkData c s) mi1 hn (by rw [hdn]) (by intro p _; rw [hdn]) hqm hh1 hrest
    refine ⟨mi2, ?_, ?_⟩
    · simp only [List.map_cons, calcUpdateMuts, clientApplyMuts, ha]
      exact hb
    · exact hh2

/-- non-vacuity: a concrete configuration (schema-less index space, a proper
    tracked subset) meets every hypothesis of the round-trip theorem. -/
example :
    let c : Cfg := { syncSchema := false, shallow := false, tracked := [0, 2] }
    let prev : Snap := { time := [1, 7, 2], q := 3, m := 0 }
    let now : Snap := { time := [4, 9, 2], q := 5, m := 0 }
    WF c 3 ∧ Holds c (helloMirror c prev) prev ∧
    clientApply c (calcUpdate c false (mkData c now) (helloData c prev)) (helloMirror c prev)
      = some { time := [4, 2], q := 5, m := 0 } := by
  refine ⟨⟨by decide, by decide, by decide, by decide⟩, ⟨by decide, by decide, by decide, rfl, rfl⟩, by decide⟩

end Am.Rpc
