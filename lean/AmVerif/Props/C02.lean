/-
  C02 — relations keep the active set consistent after every transition.
  Property theorems only.
-/
import AmVerif.Props.Common
namespace Am

/-- C02(a), resolver level, unconditional: whatever the schema (cycles, chains,
    self references), the active set, the mutation and the topology, every state
    of the resolved target has all its Require states in the target. -/
theorem C02_require_closed (c : RCtx) (toSet : S) :
    ∀ x ∈ targetStates c toSet, ∀ r ∈ (c.sch.get x).require, r ∈ targetStates c toSet :=
  targetStates_closed c toSet

/-- C02(e): the resolved target never lists a state twice. -/
theorem C02_target_nodup (c : RCtx) (toSet : S) : (targetStates c toSet).Nodup :=
  targetStates_nodup c toSet

/-- C02(a), all histories: after any history without handler panics/timeouts,
    with any vetoes, nested mutations, auto mutations and partial auto
    acceptance, every active state has all its Require states active. -/
theorem C02_require_closed_all_histories (sch : Schema) (alpha : S) (orc : Oracle)
    (hff : FaultFree orc) (fuel : Nat) (ops : List Op) :
    let m := runOps orc fuel (Mach.init sch alpha) ops
    ∀ x ∈ m.active, ∀ r ∈ (sch.get x).require, r ∈ m.active := by
  intro m
  have h := chg_runOps orc hff fuel ops (Mach.init sch alpha)
  have key := h.inv_faultfree (fun a => ReqClosed a.sch a.active)
    (fun a b hs ha _ hp => by rw [hs, ha]; exact hp)
    (fun a c ts cl hc _ => by
      rw [applyActive_sch, applyActive_active, ← hc]; exact targetStates_closed c ts)
    (by intro x hx; simp [Mach.init] at hx)
  have hs : m.sch = sch := by
    show (runOps orc fuel (Mach.init sch alpha) ops).sch = sch
    rw [runOps_sch]; rfl
  intro x hx r hr
  rw [← hs] at hr
  exact key x hx r hr

/-! #### Remove consistency: the full statement is false of the code -/

/-- C02(b) at full strength. -/
def C02_remove_consistent_full : Prop :=
  ∀ (c : RCtx) (toSet : S) (x y : Nat),
    x ∈ targetStates c toSet → y ∈ targetStates c toSet → y ∉ (c.sch.get x).remove

/-- survivors of the reverse scan of `TargetStates`. -/
def scanSurvivors (c : RCtx) (toSet : S) : S :=
  let s1 := parseRequire c.sch (uniq (parseAdd c toSet))
  scanBlocked c.sch s1 s1.reverse []

/-- known-finding signature `C02-readd-after-blocked-blocker` for an offending
    pair (x Removes y): the remover `x` is not a survivor of the reverse scan —
    it was blocked there and re-introduced by the second `parseAdd`.
    Implemented identically in the Go monitor (`sigC02Readd`). -/
def sigC02Readd (c : RCtx) (toSet : S) (x : Nat) : Bool :=
  !(scanSurvivors c toSet).contains x

/-- witness: `S{Add A} A{Remove B} C{Remove A} D{Remove C}`, active `{B, C}`,
    `Add [S, D]`. Indices: 0 Exception, 1 S, 2 A, 3 B, 4 C, 5 D. -/
def c02WitnessCtx : RCtx :=
  { sch := { states := [{ multi := true }, { add := [2] }, { remove := [3] }, {},
                        { remove := [2] }, { remove := [4] }], exc := 0 },
    before := [3, 4], isRemove := false, called := [1, 5], topo := [] }

theorem C02_remove_consistent_full_false : ¬ C02_remove_consistent_full := by
  intro h
  exact h c02WitnessCtx (statesToSet .add [3, 4] [1, 5]) 2 3 (by decide) (by decide) (by decide)

/-- the witness is an instance of the recorded signature (A = 2 Removes B = 3). -/
example : sigC02Readd c02WitnessCtx (statesToSet .add [3, 4] [1, 5]) 2 = true := by decide

/-- C02(b), partial: outside the recorded signature the statement holds — a
    state that survives the reverse scan and is in the target excludes every
    state it Removes from the target. Together with the signature this is the
    full statement: `full ↔ no pair matches the signature`. -/
theorem C02_remove_consistent_partial (c : RCtx) (toSet : S) (x y : Nat)
    (hsig : sigC02Readd c toSet x = false)
    (hy : y ∈ (c.sch.get x).remove) : y ∉ targetStates c toSet := by
  intro hyt
  have hx : x ∈ scanSurvivors c toSet := by
    simpa [sigC02Readd] using hsig
  simp only [targetStates, mem_sortStates] at hyt
  unfold targetUnsorted at hyt
  have h2 := (parseRequire_sublist _ _).subset hyt
  simp only [List.mem_reverse, mem_uniq, List.mem_filter] at h2
  have : y ∈ ((scanBlocked c.sch (parseRequire c.sch (uniq (parseAdd c toSet)))
      (parseRequire c.sch (uniq (parseAdd c toSet))).reverse []).map
      (fun n => (c.sch.get n).remove)).flatten := by
    simp only [List.mem_flatten, List.mem_map]
    exact ⟨_, ⟨x, hx, rfl⟩, hy⟩
  simp [this] at h2

/-- non-vacuity of the partial theorem: in the witness, D (= 5) survives the scan
    and Removes C (= 4), which is indeed absent from the target. -/
example : sigC02Readd c02WitnessCtx (statesToSet .add [3, 4] [1, 5]) 5 = false ∧
    4 ∈ (c02WitnessCtx.sch.get 5).remove := by decide

end Am
