/-
  C02 — relations keep the active set consistent after every transition.
  Property theorems only.
-/
import AmVerif.Props.Common
namespace Am

/-- C02(a), resolver level, unconditional: whatever the schema (cycles, chains,
    self references), the active set, the mutation and the topology, every state
    of the resolved target has all its Require states in the target. -/
theorem C02_require_closed (c : RCtx) (toSet : S) :
    ∀ x ∈ targetStates c toSet, ∀ r ∈ (c.sch.get x).require, r ∈ targetStates c toSet :=
  targetStates_closed c toSet

/-- C02(e): the resolved target never lists a state twice. -/
theorem C02_target_nodup (c : RCtx) (toSet : S) : (targetStates c toSet).Nodup :=
  targetStates_nodup c toSet

/-- C02(a), all histories: after any history without handler panics/timeouts,
    with any vetoes, nested mutations, auto mutations and partial auto
    acceptance, every active state has all its Require states active. -/
theorem C02_require_closed_all_histories (sch : Schema) (alpha : S) (orc : Oracle)
    (hff : FaultFree orc) (fuel : Nat) (ops : List Op) :
    let m := runOps orc fuel (Mach.init sch alpha) ops
    ∀ x ∈ m.active, ∀ r ∈ (sch.get x).require, r ∈ m.active := by
  intro m
  have h := chg_runOps orc hff fuel ops (Mach.init sch alpha)
  have key := h.inv_faultfree (fun a => ReqClosed a.sch a.active)
    (fun a b hs ha _ hp => by rw [hs, ha]; exact hp)
    (fun a c ts cl hc _ => by
      rw [applyActive_sch, applyActive_active, ← hc]; exact targetStates_closed c ts)
    (by intro x hx; simp [Mach.init] at hx)
  have hs : m.sch = sch := by
    show (runOps orc fuel (Mach.init sch alpha) ops).sch = sch
    rw [runOps_sch]; rfl
  intro x hx r hr
  rw [← hs] at hr
  exact key x hx r hr

/-! #### Remove consistency: the full statement is false of the code -/

/-- C02(b) at full strength. -/
def C02_remove_consistent_full : Prop :=
  ∀ (c : RCtx) (toSet : S) (x y : Nat),
    x ∈ targetStates c toSet → y ∈ targetStates c toSet → y ∉ (c.sch.get x).remove

/-- states dropped by the reverse scan of `TargetStates`. -/
def blockedInScan (c : RCtx) (toSet : S) : S :=
  let s1 := parseRequire c.sch (uniq (parseAdd c toSet))
  diff s1 (scanBlocked c.sch s1 s1.reverse [])

/-- known-finding signature `C02-readd-after-blocked-blocker`: a state that the
    reverse scan blocked is back in the final target (re-introduced by the
    second `parseAdd`). Implemented identically in the Go monitor. -/
def sigC02Readd (c : RCtx) (toSet : S) : Bool :=
  (blockedInScan c toSet).any (fun b => (targetStates c toSet).contains b)

/-- witness: `S{Add A} A{Remove B} C{Remove A} D{Remove C}`, active `{B, C}`,
    `Add [S, D]`. Indices: 0 Exception, 1 S, 2 A, 3 B, 4 C, 5 D. -/
def c02WitnessCtx : RCtx :=
  { sch := { states := [{ multi := true }, { add := [2] }, { remove := [3] }, {},
                        { remove := [2] }, { remove := [4] }], exc := 0 },
    before := [3, 4], isRemove := false, called := [1, 5], topo := [] }

theorem C02_remove_consistent_full_false : ¬ C02_remove_consistent_full := by
  intro h
  exact h c02WitnessCtx (statesToSet .add [3, 4] [1, 5]) 2 3 (by decide) (by decide) (by decide)

/-- the witness is an instance of the recorded signature. -/
example : sigC02Readd c02WitnessCtx (statesToSet .add [3, 4] [1, 5]) = true := by decide

end Am
