/-
  C04 — the tick promise over whole histories: the only things that ever touch the queue, the
  queue tick or the pending counter are `queueMutation` (append, tick promised), `prepend`
  (tick-less) and the drain loop's shift; everything else a transition does leaves the three
  alone. Hence `TickInv` — the waiting ticked mutations carry, in queue order, exactly the next
  `pending` queue ticks — holds after every finite history of operations, handlers that mutate,
  panic or time out included.
-/
import AmVerif.Props.C04
namespace Am

/-- how a step may change (queue, queueTick, pending). -/
inductive QP : Mach → Mach → Prop
  | same {m m' : Mach} : m'.queue = m.queue → m'.queueTick = m.queueTick → m'.pending = m.pending → QP m m'
  | enq {m : Mach} (r : MutReq) : QP m (queueMutation m r).1
  | pre {m : Mach} (mu : Mut) : mu.qtick = 0 → QP m (prepend m mu)
  | trans {a b c : Mach} : QP a b → QP b c → QP a c

theorem QP.refl (m : Mach) : QP m m := QP.same rfl rfl rfl

theorem tickInv_of_same {m m' : Mach} (hq : m'.queue = m.queue) (ht : m'.queueTick = m.queueTick)
    (hp : m'.pending = m.pending) (h : TickInv m) : TickInv m' := by
  unfold TickInv at *; rw [hq, ht, hp]; exact h

theorem QP.tickInv {m m' : Mach} (h : QP m m') : TickInv m → TickInv m' := by
  induction h with
  | same hq ht hp => exact tickInv_of_same hq ht hp
  | enq r => exact tickInv_queueMutation _ r
  | pre mu h0 => exact tickInv_prepend _ mu h0
  | trans _ _ ih1 ih2 => exact fun h => ih2 (ih1 h)

/-! ### leaves -/

theorem qp_emit (m : Mach) (e : Ev) : QP m (m.emit e) := QP.same rfl rfl rfl
theorem qp_bump (m : Mach) (k : Nat × HName) : QP m (bumpCount m k) := QP.same rfl rfl rfl
theorem qp_markDetached (m : Mach) (d : Nat) : QP m (markDetached m d) := QP.same rfl rfl rfl
theorem qp_applyActive (m : Mach) (c t : S) : QP m (applyActive m c t) := QP.same rfl rfl rfl
theorem qp_recoverFinalPhase (m : Mach) (t : Tx) : QP m (recoverFinalPhase m t) := QP.same rfl rfl rfl
theorem qp_crash (m : Mach) : QP m { m with crashed := true } := QP.same rfl rfl rfl

theorem qp_issueNested (m : Mach) (r : MutReq) : QP m (issueNested m r).1 := by
  unfold issueNested
  split
  · exact QP.refl m
  · split
    · exact QP.refl m
    · have h := QP.enq (m := m) r
      split <;> (rename_i heq; rw [heq] at h; exact h)

theorem qp_issueLogged (m : Mach) (r : MutReq) : QP m (issueLogged m r) :=
  (qp_issueNested m r).trans (qp_emit _ _)

theorem qp_foldl_issue (l : List MutReq) : ∀ m : Mach, QP m (l.foldl (fun mm r => issueLogged mm r) m) := by
  induction l with
  | nil => intro m; exact QP.refl m
  | cons a t ih => intro m; exact (qp_issueLogged m a).trans (ih _)

theorem qp_doSub (m : Mach) (r : SubReq) : QP m (doSub m r).1 := by
  unfold doSub
  split
  · split <;> exact QP.refl m
  · split
    all_goals first
      | exact QP.same rfl rfl rfl
      | (split <;> first | exact QP.refl m | exact QP.same rfl rfl rfl)

theorem qp_subLogged (m : Mach) (r : SubReq) : QP m (subLogged m r) :=
  (qp_doSub m r).trans (qp_emit _ _)

theorem qp_foldl_sub (l : List SubReq) : ∀ m : Mach, QP m (l.foldl (fun mm r => subLogged mm r) m) := by
  induction l with
  | nil => intro m; exact QP.refl m
  | cons a t ih => intro m; exact (qp_subLogged m a).trans (ih _)

theorem qp_handlerBody (m : Mach) (b : Nat) (name : HName) (beh : Behaviour) :
    QP m (handlerBody m b name beh) :=
  (((qp_bump m _).trans (qp_emit _ _)).trans (qp_foldl_issue _ _)).trans (qp_foldl_sub _ _)

theorem qp_whenArgsStage (m : Mach) (t : Tx) (name : HName) : QP m (whenArgsStage m t name) :=
  QP.same rfl rfl rfl

theorem qp_recoverToErr (m : Mach) (t : Tx) : QP m (recoverToErr m t).1 := by
  unfold recoverToErr
  split
  · exact QP.refl m
  · split
    · exact (qp_recoverFinalPhase m t).trans (QP.pre _ rfl)
    · exact QP.pre _ rfl

/-! ### handlers -/

theorem qp_processHandlers (orc : Oracle) (name : HName) :
    ∀ (live : List Nat) (m : Mach) (t : Tx) (pk : Bool),
    QP m (processHandlers orc name live m t pk).1 := by
  intro live
  induction live with
  | nil => intro m t pk; exact qp_whenArgsStage m t name
  | cons b rest ih =>
    intro m t pk
    simp only [processHandlers]
    split
    · exact ih _ _ _
    · rename_i beh _
      split
      · split
        · exact ih _ _ _
        · exact QP.refl m
      · have g1 := qp_handlerBody m b name beh
        split
        · split
          · exact g1.trans (ih _ _ _)
          · exact g1
        · exact (g1.trans (qp_markDetached _ _)).trans (ih _ _ _)
        · exact g1.trans (qp_emit _ _)
        · split
          · exact (g1.trans (qp_recoverToErr _ _)).trans (ih _ _ _)
          · exact g1.trans (qp_recoverToErr _ _)

theorem qp_handle (orc : Oracle) (m : Mach) (t : Tx) (name : HName) (to : ToState) (isFinal isEnter : Bool) :
    QP m (handle orc m t name to isFinal isEnter).1 := by
  simp only [handle]
  exact qp_processHandlers orc name m.live m _ false

/-! ### negotiation and final loops -/

theorem qp_emitExits (orc : Oracle) : ∀ (l : S) (m : Mach) (t : Tx), QP m (emitExits orc l m t).1 := by
  intro l
  induction l with
  | nil => intro m t; exact QP.refl m
  | cons s rest ih =>
    intro m t
    simp only [emitExits]
    have k1 := qp_handle orc m t (.exit s) .none false false
    split
    · exact k1.trans (ih _ _)
    · split
      · split
        · exact k1.trans (ih _ _)
        · exact k1
      · exact k1

theorem qp_emitEnters (orc : Oracle) : ∀ (l : S) (m : Mach) (t : Tx), QP m (emitEnters orc l m t).1 := by
  intro l
  induction l with
  | nil => intro m t; exact QP.refl m
  | cons s rest ih =>
    intro m t
    simp only [emitEnters]
    have k1 := qp_handle orc m t (.enter s) (.st s) false true
    split
    · exact k1.trans (ih _ _)
    · split
      · split
        · exact k1.trans (ih _ _)
        · exact k1.trans (qp_crash _)
      · exact k1

theorem qp_emitSelfs (orc : Oracle) : ∀ (fuel i : Nat) (arr : List (Option Nat)) (m : Mach) (t : Tx),
    QP m (emitSelfs orc fuel i arr m t).1 := by
  intro fuel
  induction fuel with
  | zero => intro i arr m t; exact QP.refl m
  | succ n ih =>
    intro i arr m t
    simp only [emitSelfs]
    split
    · exact QP.refl m
    · split
      · exact ih _ _ _ _
      · rename_i s _
        split
        · exact ih _ _ _ _
        · have k1 := qp_handle orc m t (.trans s s) (.st s) false false
          split
          · exact k1.trans (ih _ _ _ _)
          · split
            · split
              · exact k1.trans (qp_crash _)
              · exact k1.trans (ih _ _ _ _)
            · exact k1

theorem qp_emitSSInner (orc : Oracle) (b : Nat) : ∀ (l : S) (m : Mach) (t : Tx),
    QP m (emitSSInner orc b l m t).1 := by
  intro l
  induction l with
  | nil => intro m t; exact QP.refl m
  | cons a rest ih =>
    intro m t
    simp only [emitSSInner]
    split
    · exact ih m t
    · have k1 := qp_handle orc m t (.trans b a) .none false false
      split
      · exact k1.trans (ih _ _)
      · split
        · exact k1.trans (ih _ _)
        · exact k1

theorem qp_emitSS (orc : Oracle) (after : S) : ∀ (l : S) (m : Mach) (t : Tx),
    QP m (emitSS orc after l m t).1 := by
  intro l
  induction l with
  | nil => intro m t; exact QP.refl m
  | cons b rest ih =>
    intro m t
    simp only [emitSS]
    have k := qp_emitSSInner orc b after m t
    split
    · exact k.trans (ih _ _)
    · exact k

theorem qp_emitFinals (orc : Oracle) (enters : S) : ∀ (l : S) (m : Mach) (t : Tx),
    QP m (emitFinals orc enters l m t).1 := by
  intro l
  induction l with
  | nil => intro m t; exact QP.refl m
  | cons s rest ih =>
    intro m t
    simp only [emitFinals]
    split
    · have k := qp_handle orc m t (.state s) (.st s) true true
      split
      · exact k.trans (ih _ _)
      · exact k
    · have k := qp_handle orc m t (.end_ s) .none true false
      split
      · exact k.trans (ih _ _)
      · exact k

theorem qp_negStep (f : Mach → Tx → Mach × Tx × Bool) (hf : ∀ m t, QP m (f m t).1)
    (p : Mach × Tx × Bool) : QP p.1 (negStep f p).1 := by
  unfold negStep
  split
  · exact QP.refl _
  · split
    · exact hf _ _
    · exact QP.refl _

theorem qp_stageSelfs (orc : Oracle) (m : Mach) (t : Tx) : QP m (stageSelfs orc m t).1 := by
  unfold stageSelfs
  split
  · exact qp_emitSelfs orc _ _ _ _ _
  · exact QP.refl m

theorem qp_stageAnyEnter (orc : Oracle) (m : Mach) (t : Tx) : QP m (stageAnyEnter orc m t).1 := by
  unfold stageAnyEnter
  split
  · exact QP.refl m
  · exact qp_handle orc m t _ _ _ _

theorem qp_negotiate (orc : Oracle) (m : Mach) (t : Tx) (r : Bool) : QP m (negotiate orc m t r).1 := by
  unfold negotiate
  split
  · exact QP.refl m
  · have h1 := qp_negStep (fun m t => emitExits orc t.exits m t) (fun m t => qp_emitExits orc _ m t) (m, t, r)
    have h2 := qp_negStep (fun m t => emitEnters orc t.enters m t) (fun m t => qp_emitEnters orc _ m t)
      (negStep (fun m t => emitExits orc t.exits m t) (m, t, r))
    have h3 := qp_negStep (stageSelfs orc) (qp_stageSelfs orc)
      (negStep (fun m t => emitEnters orc t.enters m t) (negStep (fun m t => emitExits orc t.exits m t) (m, t, r)))
    have h4 := qp_negStep (fun m t => emitSS orc t.target t.before m t) (fun m t => qp_emitSS orc _ _ m t)
      (negStep (stageSelfs orc) (negStep (fun m t => emitEnters orc t.enters m t)
        (negStep (fun m t => emitExits orc t.exits m t) (m, t, r))))
    have h5 := qp_negStep (stageAnyEnter orc) (qp_stageAnyEnter orc)
      (negStep (fun m t => emitSS orc t.target t.before m t) (negStep (stageSelfs orc)
        (negStep (fun m t => emitEnters orc t.enters m t) (negStep (fun m t => emitExits orc t.exits m t) (m, t, r)))))
    exact (((h1.trans h2).trans h3).trans h4).trans h5

theorem qp_finish (m : Mach) (t : Tx) (r : Bool) : QP m (finish m t r).1 := by
  unfold finish
  simp only
  split
  · exact qp_emit _ _
  · split <;> exact qp_emit _ _

theorem qp_autoStage (m : Mach) (t : Tx) (c : Bool) : QP m (autoStage m t c) := by
  unfold autoStage
  split
  · split
    · rename_i am h
      have h0 : am.qtick = 0 := by
        unfold newAutoMutation at h
        simp only at h
        split at h
        · cases h
        · cases h; rfl
      exact QP.pre am h0
    · exact QP.refl m
  · exact QP.refl m

theorem qp_afterFinals (orc : Oracle) (m4 : Mach) (t4 : Tx) (r4 : Bool) :
    QP m4 (afterFinals orc m4 t4 r4).1 := by
  simp only [afterFinals]
  have g5 : QP m4 (if (!r4) = true then recoverFinalPhase m4 t4 else m4) := by
    split
    · exact qp_recoverFinalPhase m4 t4
    · exact QP.refl m4
  generalize (if (!r4) = true then recoverFinalPhase m4 t4 else m4) = m5 at g5 ⊢
  have g6 : QP m5 (if (r4 && m5.hasHandlers) = true then
      handle orc m5 t4 .anyState .any true true else (m5, t4, r4)).1 := by
    split
    · exact qp_handle orc m5 t4 _ _ _ _
    · exact QP.refl m5
  generalize (if (r4 && m5.hasHandlers) = true then
      handle orc m5 t4 .anyState .any true true else (m5, t4, r4)) = p6 at g6 ⊢
  split
  · exact (g5.trans g6).trans (qp_finish _ _ _)
  · exact ((g5.trans g6).trans (qp_autoStage _ _ _)).trans (qp_finish _ _ _)

theorem qp_applyTarget (m1 : Mach) (t2 : Tx) : QP m1 (applyTarget m1 t2).1 := QP.same rfl rfl rfl

theorem qp_runFinals (orc : Oracle) (m3 : Mach) (t3 : Tx) : QP m3 (runFinals orc m3 t3).1 := by
  unfold runFinals
  split
  · exact qp_emitFinals orc _ _ m3 t3
  · exact QP.refl m3

theorem qp_applyPhase (orc : Oracle) (m1 : Mach) (t2 : Tx) : QP m1 (applyPhase orc m1 t2).1 := by
  simp only [applyPhase]
  exact ((qp_applyTarget m1 t2).trans (qp_runFinals orc _ _)).trans (qp_afterFinals orc _ _ _)

theorem qp_emitEvents (orc : Oracle) (m0 : Mach) (t0 : Tx) : QP m0 (emitEvents orc m0 t0).1 := by
  simp only [emitEvents]
  have q0 : QP m0 (negotiate orc (m0.emit (.tStart t0.accepted)) t0 t0.accepted).1 :=
    (qp_emit m0 _).trans (qp_negotiate orc _ t0 t0.accepted)
  generalize negotiate orc (m0.emit (.tStart t0.accepted)) t0 t0.accepted = p at q0 ⊢
  split
  · exact q0
  · split
    · exact q0.trans (qp_finish _ _ _)
    · split
      · exact q0.trans (qp_applyPhase orc _ _)
      · exact q0.trans (qp_finish _ _ _)

theorem qp_newTx (m : Mach) (mu : Mut) : QP m (newTx m mu).1 := QP.same rfl rfl rfl

theorem qp_processSubscriptions (m : Mach) (t : Tx) : QP m (processSubscriptions m t) :=
  QP.same rfl rfl rfl

/-! ### the drain loop: shift, then a transition -/

theorem tickInv_runOne (orc : Oracle) (m : Mach) (mu : Mut) (rest : List Mut)
    (hq : m.queue = mu :: rest) (h : TickInv m) : TickInv (runOne orc m mu rest).1 := by
  simp only [runOne]
  have h1 : TickInv (shiftQueue m mu rest) := (C04_shift_in_tick_order m mu rest hq h).1
  have h2 : TickInv (emitEvents orc (newTx (shiftQueue m mu rest) mu).1 (newTx (shiftQueue m mu rest) mu).2).1 :=
    ((qp_newTx _ mu).trans (qp_emitEvents orc _ _)).tickInv h1
  generalize emitEvents orc (newTx (shiftQueue m mu rest) mu).1 (newTx (shiftQueue m mu rest) mu).2 = q at h2 ⊢
  split
  · exact h2
  · split
    · exact (qp_processSubscriptions _ _).tickInv h2
    · exact tickInv_of_same rfl rfl rfl h2

theorem tickInv_drain (orc : Oracle) : ∀ (fuel : Nat) (m : Mach) (rets : List Res),
    TickInv m → TickInv (drain orc fuel m rets).1 := by
  intro fuel
  induction fuel with
  | zero => intro m rets h; exact h
  | succ n ih =>
    intro m rets h
    simp only [drain]
    split
    · exact h
    · rename_i mu rest hq
      have h1 := tickInv_runOne orc m mu rest hq h
      split
      · exact h1
      · exact ih _ _ h1

theorem tickInv_processQueue (orc : Oracle) (fuel : Nat) (m : Mach) (h : TickInv m) :
    TickInv (processQueue orc fuel m).1 := by
  unfold processQueue
  split
  · exact h
  · have h1 := tickInv_drain orc fuel m [] h
    generalize drain orc fuel m [] = d at h1 ⊢
    obtain ⟨m1, rets⟩ := d
    simp only
    split
    · exact h1
    · exact tickInv_of_same rfl rfl rfl h1

theorem tickInv_mutate (orc : Oracle) (fuel : Nat) (m : Mach) (r : MutReq) (h : TickInv m) :
    TickInv (mutate orc fuel m r).1 := by
  unfold mutate
  split
  · exact h
  · split
    · exact h
    · split
      · exact h
      · have h1 := tickInv_queueMutation m r h
        split
        · rename_i m1 heq
          rw [heq] at h1; exact h1
        · rename_i m1 tick heq
          rw [heq] at h1
          have h2 := tickInv_processQueue orc fuel m1 h1
          generalize processQueue orc fuel m1 = pq at h2 ⊢
          obtain ⟨m2, res⟩ := pq
          simp only
          split <;> exact h2

theorem tickInv_check (orc : Oracle) (fuel : Nat) (m : Mach) (k : MutKind) (st : S) (h : TickInv m) :
    TickInv (check orc fuel m k st).1 := by
  unfold check
  split
  · exact h
  · split
    · exact h
    · exact tickInv_processQueue orc fuel _ (tickInv_prepend m _ rfl h)

theorem tickInv_toggle (orc : Oracle) (fuel : Nat) (m : Mach) (st : S) (h : TickInv m) :
    TickInv (toggle orc fuel m st).1 := by
  unfold toggle
  split <;> exact tickInv_mutate orc fuel m _ h

theorem tickInv_addErr (orc : Oracle) (fuel : Nat) (m : Mach) (h : TickInv m) :
    TickInv (addErr orc fuel m).1 := by
  unfold addErr
  split
  · exact h
  · exact tickInv_mutate orc fuel m _ h

theorem tickInv_applyOp (orc : Oracle) (fuel : Nat) (m : Mach) (op : Op) (h : TickInv m) :
    TickInv (applyOp orc fuel m op) := by
  cases op with
  | mutate r => exact tickInv_mutate orc fuel m r h
  | check k st => exact tickInv_check orc fuel m k st h
  | toggle st => exact tickInv_toggle orc fuel m st h
  | addErr => exact tickInv_addErr orc fuel m h
  | setBackoff b => exact tickInv_of_same rfl rfl rfl h
  | setLimit n => exact tickInv_of_same rfl rfl rfl h
  | bind k => exact tickInv_of_same rfl rfl rfl h

/-- **C04 (queued mutations run in the order of their queue ticks, none is lost — all
    histories)**: for every schema, every handler oracle (handlers that issue nested mutations,
    veto, panic, time out or detach bindings) and every finite history of operations, the
    mutations still waiting with a promised queue tick carry, in queue order, exactly the next
    `pending` ticks after the machine's current queue tick — so each shift honours the oldest
    promise (`C04_shift_in_tick_order`) and no promised tick is skipped or issued twice. -/
theorem C04_tick_promise_all_histories (sch : Schema) (alpha : S) (orc : Oracle) (fuel : Nat)
    (ops : List Op) : TickInv (runOps orc fuel (Mach.init sch alpha) ops) := by
  have key : ∀ (ops : List Op) (m : Mach), TickInv m → TickInv (runOps orc fuel m ops) := by
    intro ops
    induction ops with
    | nil => intro m h; exact h
    | cons op rest ih => intro m h; exact ih _ (tickInv_applyOp orc fuel m op h)
  exact key ops _ (tickInv_init sch alpha)

/-- non-vacuity: a handler that queues two nested mutations leaves two promises behind while it runs. -/
example : TickInv exMach ∧ exMach.pending = 2 := ⟨by unfold TickInv; decide, rfl⟩

end Am
