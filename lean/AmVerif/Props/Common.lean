/- Operation histories over the sequential machine model. -/
import AmVerif.Lemmas.Chain
namespace Am

/-- everything a single goroutine can do to the machine between transitions. -/
inductive Op
  | mutate (r : MutReq)            -- Add / Remove / Set (with or without args)
  | check (k : MutKind) (st : S)   -- CanAdd / CanRemove
  | toggle (st : S)
  | addErr
  | setBackoff (b : Bool)
  | setLimit (n : Nat)
  | bind (k : Nat)                 -- number of handler bindings
deriving Repr

def applyOp (orc : Oracle) (fuel : Nat) (m : Mach) : Op → Mach
  | .mutate r => (mutate orc fuel m r).1
  | .check k st => (check orc fuel m k st).1
  | .toggle st => (toggle orc fuel m st).1
  | .addErr => (addErr orc fuel m).1
  | .setBackoff b => { m with backoff := b }
  | .setLimit n => { m with limit := n }
  | .bind k => { m with nbind := k, hasHandlers := m.hasHandlers || decide (k > 0) }

def runOps (orc : Oracle) (fuel : Nat) (m : Mach) (ops : List Op) : Mach :=
  ops.foldl (applyOp orc fuel) m

/-- the oracle never panics and never times out. -/
def FaultFree (orc : Oracle) : Prop := OrcF False orc

theorem orcF_true (orc : Oracle) : OrcF True orc := fun _ _ _ _ _ _ => trivial

theorem chg_applyOp {F : Prop} (orc : Oracle) (hF : OrcF F orc) (fuel : Nat) (m : Mach) (op : Op) :
    Chg F m (applyOp orc fuel m op) := by
  cases op with
  | mutate r => exact chg_mutate orc hF fuel m r
  | check k st => exact chg_check orc hF fuel m k st
  | toggle st => exact chg_toggle orc hF fuel m st
  | addErr => exact chg_addErr orc hF fuel m
  | setBackoff b => exact Chg.of_eq rfl rfl rfl rfl
  | setLimit n => exact Chg.of_eq rfl rfl rfl rfl
  | bind k => exact Chg.of_eq rfl rfl rfl rfl

/-- structural theorem, history form. -/
theorem chg_runOps {F : Prop} (orc : Oracle) (hF : OrcF F orc) (fuel : Nat) :
    ∀ (ops : List Op) (m : Mach), Chg F m (runOps orc fuel m ops) := by
  intro ops
  induction ops with
  | nil => intro m; exact Chg.refl m
  | cons op rest ih => intro m; exact (chg_applyOp orc hF fuel m op).trans (ih _)

theorem good_runOps (orc : Oracle) (fuel : Nat) (ops : List Op) (m : Mach) :
    Good m (runOps orc fuel m ops) := (chg_runOps orc (orcF_true orc) fuel ops m).good

theorem runOps_sch (orc : Oracle) (fuel : Nat) (ops : List Op) (m : Mach) :
    (runOps orc fuel m ops).sch = m.sch := (chg_runOps orc (orcF_true orc) fuel ops m).sch

/-- an invariant of fault-free histories: it only has to survive `apply`. -/
theorem Chg.inv_faultfree {m m' : Mach} (h : Chg False m m') (P : Mach → Prop)
    (hq : ∀ a b : Mach, b.sch = a.sch → b.active = a.active → b.clock = a.clock → P a → P b)
    (ha : ∀ (a : Mach) (c : RCtx) (toSet called : S), c.sch = a.sch → P a →
      P (applyActive a called (targetStates c toSet))) : P m → P m' := by
  induction h with
  | quiet hs _ hact hc => exact hq _ _ hs hact hc
  | apply c ts cl hc => exact ha _ c ts cl hc
  | recover _ f _ => exact f.elim
  | trans _ _ ih1 ih2 => exact fun h => ih2 (ih1 h)

theorem inv_init (sch : Schema) (alpha : S) : Inv (Mach.init sch alpha) := by
  refine ⟨by simp [Mach.init], ?_⟩
  intro j hj
  simp only [Mach.init, List.length_replicate] at hj
  simp [Mach.init, List.getD_eq_getElem?_getD, List.getElem?_replicate, hj]

end Am
