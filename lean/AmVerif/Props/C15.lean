/-
  C15 — supervision keeps the pool within bounds, never calls a short pool
  ready. Property theorems (bookkeeping part); the state-group part is C19's
  generated obligations for the shipped supervisor / worker schemas.
-/
import AmVerif.Model.Super
namespace Am.Super

/-- **C15 (PoolReady only when enough are ready)**: the only step that activates
    PoolReady is an Add of PoolReady made while at least `min()` workers are ready. -/
theorem C15_poolready_enter (c : Cfg) (s : St) (e : Ev)
    (h0 : s.poolReady = false) (h1 : (step c s e).1.poolReady = true) :
    ∃ ready, e = .addPoolReady ready ∧ ready ≥ c.minEff := by
  cases e <;> simp only [step] at h1
  case forkGate a => split at h1 <;> simp_all [setW]
  case setWorker a => split at h1 <;> simp_all [setW]
  case forkFailed => simp_all
  case delWorker a => simp_all
  case workerForked a b => split at h1 <;> simp_all
  case errWorker a =>
    split at h1
    · simp_all
    · split at h1 <;> simp_all
  case addPoolReady ready =>
    simp only [h0, Bool.false_eq_true, if_false] at h1
    split at h1
    · rename_i hr; exact ⟨ready, rfl, hr⟩
    · simp_all
  case remPoolReady ready => simp [h0] at h1

/-- **C15 (PoolReady is not withdrawn while enough are ready)**: the only step that
    deactivates PoolReady is a Remove made while fewer than `min()` workers are
    ready; with `min()` ready the removal is vetoed. -/
theorem C15_poolready_exit (c : Cfg) (s : St) (e : Ev)
    (h0 : s.poolReady = true) (h1 : (step c s e).1.poolReady = false) :
    ∃ ready, e = .remPoolReady ready ∧ ready < c.minEff := by
  cases e <;> simp only [step] at h1
  case forkGate a => split at h1 <;> simp_all [setW]
  case setWorker a => split at h1 <;> simp_all [setW]
  case forkFailed => simp_all
  case delWorker a => simp_all
  case workerForked a b => split at h1 <;> simp_all
  case errWorker a =>
    split at h1
    · simp_all
    · split at h1 <;> simp_all
  case addPoolReady ready => simp [h0] at h1
  case remPoolReady ready =>
    simp only [h0, Bool.not_true, Bool.false_eq_true, if_false] at h1
    split at h1
    · rename_i hr; exact ⟨ready, rfl, hr⟩
    · simp_all

theorem C15_poolready_exit_vetoed (c : Cfg) (s : St) (ready : Nat)
    (h0 : s.poolReady = true) (hr : ready ≥ c.minEff) :
    step c s (.remPoolReady ready) = (s, .vetoed) := by
  have : ¬ ready < c.minEff := by omega
  simp [step, h0, this]

/-- **C15 (never forks while at Max)**: the fork gate is closed whenever the
    supervisor tracks `Max` workers or more. -/
theorem C15_fork_gate_closed (c : Cfg) (s : St) (a : Nat) (h : s.tracked.length ≥ c.max) :
    step c s (.forkGate a) = (s, .vetoed) := by
  have : ¬ s.tracked.length < c.max := by omega
  simp [step, this]

/-- **C15 (too many errors ⇒ kill requested)**: the error that takes a tracked
    worker's count above `WorkerErrKill` requests its kill. -/
theorem C15_kill_requested (c : Cfg) (s : St) (a n : Nat)
    (hw : s.tracked.find? (fun w => w.1 == a) = some (a, n)) (hn : n + 1 > c.errKill) :
    (step c s (.errWorker a)).2 = .kill a ∧ a ∈ (step c s (.errWorker a)).1.killReq := by
  simp [step, hw, hn]

/-! ### the worker map stays within Max — for every sequence of events -/

theorem filter_length_le (l : List (Nat × Nat)) (p : Nat × Nat → Bool) : (l.filter p).length ≤ l.length :=
  List.length_filter_le p l

theorem setW_length_le (s : St) (a : Nat) : (setW s a).tracked.length ≤ s.tracked.length + 1 := by
  have := filter_length_le s.tracked (fun w => w.1 != a)
  simp only [setW, List.length_append, List.length_cons, List.length_nil]
  omega

/-- overwriting a tracked address does not grow the map. -/
theorem setW_length_tracked (s : St) (a : Nat) (h : hasW s a = true) :
    (setW s a).tracked.length ≤ s.tracked.length := by
  have hlt : (s.tracked.filter (fun w => w.1 != a)).length < s.tracked.length := by
    apply List.length_filter_lt_length_iff_exists.mpr
    simp only [hasW, List.any_eq_true] at h
    obtain ⟨w, hin, hw⟩ := h
    exact ⟨w, hin, by simp at hw; simp [hw]⟩
  simp only [setW, List.length_append, List.length_cons, List.length_nil]
  omega

/-- one step never takes the map beyond Max. -/
theorem within_step (c : Cfg) (s : St) (e : Ev) (hw : s.tracked.length ≤ c.max) :
    (step c s e).1.tracked.length ≤ c.max := by
  cases e <;> simp only [step]
  case forkGate a =>
    split
    · have := setW_length_le s a; dsimp only; omega
    · exact hw
  case setWorker a =>
    split
    · rename_i h
      cases ht : hasW s a
      · simp only [ht, Bool.false_or, decide_eq_true_eq] at h
        have := setW_length_le s a; dsimp only; omega
      · have := setW_length_tracked s a ht; dsimp only; omega
    · exact hw
  case forkFailed => exact hw
  case delWorker a =>
    have := filter_length_le s.tracked (fun w => w.1 != a)
    omega
  case workerForked a b =>
    split
    · exact hw
    · rename_i w hf
      have hlt : (s.tracked.filter (fun x => x.1 != a && x.1 != b)).length < s.tracked.length := by
        have hx := List.find?_some hf
        have hin := List.mem_of_find?_eq_some hf
        apply List.length_filter_lt_length_iff_exists.mpr
        exact ⟨w, hin, by simp at hx; simp [hx]⟩
      simp only [List.length_append, List.length_cons, List.length_nil]
      omega
  case errWorker a =>
    split
    · exact hw
    · split <;> simp only [List.length_map] <;> exact hw
  case addPoolReady r =>
    split
    · exact hw
    · split <;> exact hw
  case remPoolReady r =>
    split
    · exact hw
    · split <;> exact hw

/-- **C15 (never more than Max tracked)**: after every sequence of fork requests,
    registrations, failures, kills, address switches, errors and PoolReady attempts,
    in any order, the supervisor tracks at most Max workers (fix 06f8e10: a fork is
    tracked from the moment it passes the gate, SetWorker adds no new entry at Max). -/
theorem C15_tracked_le_max (c : Cfg) (evs : List Ev) :
    ∀ s, s.tracked.length ≤ c.max → (run c s evs).tracked.length ≤ c.max := by
  induction evs with
  | nil => intro s hw; simpa [run] using hw
  | cons e r ih =>
    intro s hw
    have := ih (step c s e).1 (within_step c s e hw)
    simpa [run] using this

theorem C15_tracked_le_max_init (c : Cfg) (evs : List Ev) : (run c {} evs).tracked.length ≤ c.max :=
  C15_tracked_le_max c evs {} (by simp)

/-- **C15 (never forks while at Max)**, as a fact about histories: a fork that is
    let through found fewer than Max workers tracked - forks in flight included,
    because they are tracked. -/
theorem C15_fork_passes_below_max (c : Cfg) (s : St) (a : Nat) (h : (step c s (.forkGate a)).2 = .ok) :
    s.tracked.length < c.max := by
  simp only [step] at h
  split at h
  · assumption
  · simp at h

/-- forks a normalizing round asks for never exceed the room that is left. -/
theorem round_within (c : Cfg) (tracked : Nat) (h : tracked ≤ c.max) :
    tracked + forksWanted c tracked ≤ c.max := by
  unfold forksWanted
  have : Nat.min (c.minEff + c.warm) c.max ≤ c.max := Nat.min_le_right _ _
  omega

/-- **the pinned gates did not have the property** (before fix 06f8e10): they
    counted the map only and a fork entered the map with SetWorker, so a second
    round of forks that passed the gate before the first round had registered made
    the supervisor track more than Max (Min = Max = 2: four forks pass with an empty
    map, four registrations follow). -/
theorem C15_tracked_le_max_pinned_false :
    ∃ (c : Cfg) (evs : List Ev), (runPinned c {} evs).tracked.length > c.max ∧
      (run c {} evs).tracked.length ≤ c.max := by
  refine ⟨⟨2, 2, 0, 3⟩, [.forkGate 1, .forkGate 2, .forkGate 3, .forkGate 4, .setWorker 1, .setWorker 2,
    .setWorker 3, .setWorker 4], by decide, by decide⟩

/-- non-vacuity: a round on a pool 2/3/1, a fourth request refused, a late registration for an
    address that was killed meanwhile refused at Max. -/
example : (run ⟨2, 3, 1, 3⟩ {} [.forkGate 1, .forkGate 2, .forkGate 3, .forkGate 4, .setWorker 1, .setWorker 2,
    .setWorker 3, .workerForked 1 11, .addPoolReady 2]).tracked.length = 3 ∧
    (run ⟨2, 3, 1, 3⟩ {} [.forkGate 1, .forkGate 2, .forkGate 3, .setWorker 1, .setWorker 2, .setWorker 3,
    .workerForked 1 11, .addPoolReady 2]).poolReady = true ∧
    (step ⟨2, 3, 1, 3⟩ (run ⟨2, 3, 1, 3⟩ {} [.forkGate 1, .forkGate 2, .forkGate 3]) (.forkGate 4)).2 = .vetoed ∧
    (step ⟨2, 3, 1, 3⟩ (run ⟨2, 3, 1, 3⟩ {} [.forkGate 1, .forkGate 2, .delWorker 1, .forkGate 3, .forkGate 4])
      (.setWorker 1)).2 = .vetoed := by decide

end Am.Super
