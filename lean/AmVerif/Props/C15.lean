/-
  C15 — supervision keeps the pool within bounds, never calls a short pool
  ready. Property theorems (bookkeeping part); the state-group part is C19's
  generated obligations for the shipped supervisor / worker schemas.
-/
import AmVerif.Model.Super
namespace Am.Super

/-- **C15 (PoolReady only when enough are ready)**: the only step that activates
    PoolReady is an Add of PoolReady made while at least `min()` workers are ready. -/
theorem C15_poolready_enter (c : Cfg) (s : St) (e : Ev)
    (h0 : s.poolReady = false) (h1 : (step c s e).1.poolReady = true) :
    ∃ ready, e = .addPoolReady ready ∧ ready ≥ c.minEff := by
  cases e <;> simp only [step] at h1
  case forkGate => split at h1 <;> simp_all
  case setWorker a => simp_all
  case forkFailed => simp_all
  case delWorker a => simp_all
  case workerForked a b => split at h1 <;> simp_all
  case errWorker a =>
    split at h1
    · simp_all
    · split at h1 <;> simp_all
  case addPoolReady ready =>
    simp only [h0, Bool.false_eq_true, if_false] at h1
    split at h1
    · rename_i hr; exact ⟨ready, rfl, hr⟩
    · simp_all
  case remPoolReady ready => simp [h0] at h1

/-- **C15 (PoolReady is not withdrawn while enough are ready)**: the only step that
    deactivates PoolReady is a Remove made while fewer than `min()` workers are
    ready; with `min()` ready the removal is vetoed. -/
theorem C15_poolready_exit (c : Cfg) (s : St) (e : Ev)
    (h0 : s.poolReady = true) (h1 : (step c s e).1.poolReady = false) :
    ∃ ready, e = .remPoolReady ready ∧ ready < c.minEff := by
  cases e <;> simp only [step] at h1
  case forkGate => split at h1 <;> simp_all
  case setWorker a => simp_all
  case forkFailed => simp_all
  case delWorker a => simp_all
  case workerForked a b => split at h1 <;> simp_all
  case errWorker a =>
    split at h1
    · simp_all
    · split at h1 <;> simp_all
  case addPoolReady ready => simp [h0] at h1
  case remPoolReady ready =>
    simp only [h0, Bool.not_true, Bool.false_eq_true, if_false] at h1
    split at h1
    · rename_i hr; exact ⟨ready, rfl, hr⟩
    · simp_all

theorem C15_poolready_exit_vetoed (c : Cfg) (s : St) (ready : Nat)
    (h0 : s.poolReady = true) (hr : ready ≥ c.minEff) :
    step c s (.remPoolReady ready) = (s, .vetoed) := by
  have : ¬ ready < c.minEff := by omega
  simp [step, h0, this]

/-- **C15 (never forks while at Max)**: the fork gate is closed whenever the
    supervisor tracks `Max` workers or more. -/
theorem C15_fork_gate_closed (c : Cfg) (s : St) (h : s.tracked.length ≥ c.max) :
    step c s .forkGate = (s, .vetoed) := by
  have : ¬ s.tracked.length < c.max := by omega
  simp [step, this]

/-- **C15 (too many errors ⇒ kill requested)**: the error that takes a tracked
    worker's count above `WorkerErrKill` requests its kill. -/
theorem C15_kill_requested (c : Cfg) (s : St) (a n : Nat)
    (hw : s.tracked.find? (fun w => w.1 == a) = some (a, n)) (hn : n + 1 > c.errKill) :
    (step c s (.errWorker a)).2 = .kill a ∧ a ∈ (step c s (.errWorker a)).1.killReq := by
  simp [step, hw, hn]

/-! ### the worker map stays within Max — when rounds do not overlap -/

/-- the accounting invariant: tracked plus in-flight forks. -/
def Within (c : Cfg) (s : St) : Prop := s.tracked.length + s.inflight ≤ c.max

/-- what a non-overlapping schedule guarantees about each event: a fork passes the
    gate only with room for it, a registration belongs to a fork in flight and
    brings a new address. -/
def Disciplined (c : Cfg) (s : St) : Ev → Prop
  | .forkGate => s.tracked.length + s.inflight < c.max
  | .setWorker a => 1 ≤ s.inflight ∧ hasW s a = false
  | .forkFailed => 1 ≤ s.inflight
  | _ => True

theorem filter_length_le (l : List (Nat × Nat)) (p : Nat × Nat → Bool) : (l.filter p).length ≤ l.length :=
  List.length_filter_le p l

theorem within_step (c : Cfg) (s : St) (e : Ev) (hw : Within c s) (hd : Disciplined c s e) :
    Within c (step c s e).1 := by
  unfold Within at *
  cases e <;> simp only [step]
  case forkGate =>
    simp only [Disciplined] at hd
    split <;> simp only <;> omega
  case setWorker a =>
    simp only [Disciplined] at hd
    have := filter_length_le s.tracked (fun w => w.1 != a)
    simp only [List.length_append, List.length_cons, List.length_nil]
    omega
  case forkFailed => simp only [Disciplined] at hd; omega
  case delWorker a =>
    have := filter_length_le s.tracked (fun w => w.1 != a)
    omega
  case workerForked a b =>
    split
    · exact hw
    · rename_i w hf
      -- the boot entry leaves, the local entry comes: the filter drops at least the boot entry
      have hmem : (a, w.2) ∈ s.tracked ∨ True := Or.inr trivial
      have hlt : (s.tracked.filter (fun x => x.1 != a && x.1 != b)).length < s.tracked.length := by
        have hx := List.find?_some hf
        have hin := List.mem_of_find?_eq_some hf
        apply List.length_filter_lt_length_iff_exists.mpr
        exact ⟨w, hin, by simp at hx; simp [hx]⟩
      simp only [List.length_append, List.length_cons, List.length_nil]
      omega
  case errWorker a =>
    split
    · exact hw
    · split <;> simp only [List.length_map] <;> exact hw
  case addPoolReady r =>
    split
    · exact hw
    · split <;> exact hw
  case remPoolReady r =>
    split
    · exact hw
    · split <;> exact hw

/-- **C15 (never more than Max tracked) — for schedules whose rounds do not
    overlap**: if every fork passes the gate only while tracked + in-flight is
    below Max (what one normalizing round started with nothing in flight
    guarantees, see `round_disciplined`), the supervisor never tracks more than Max
    workers. -/
theorem C15_tracked_le_max_partial (c : Cfg) (evs : List Ev) :
    ∀ s, Within c s →
      (∀ (pre : List Ev) (e : Ev) (post : List Ev), evs = pre ++ e :: post → Disciplined c (run c s pre) e) →
      (run c s evs).tracked.length ≤ c.max := by
  induction evs with
  | nil => intro s hw _; unfold Within at hw; simp [run]; omega
  | cons e r ih =>
    intro s hw hd
    have h1 : Disciplined c s e := by simpa [run] using hd [] e r rfl
    have hw' := within_step c s e hw h1
    have := ih (step c s e).1 hw' (by
      intro pre e' post hr
      have := hd (e :: pre) e' post (by simp [hr])
      simpa [run] using this)
    simpa [run] using this

/-- one normalizing round that starts with nothing in flight asks for
    `forksWanted` forks: each of them passes the gate with room to spare. -/
theorem round_disciplined (c : Cfg) (s : St) (h0 : s.inflight = 0) (k : Nat)
    (hk : k < forksWanted c s.tracked.length) :
    s.tracked.length + (s.inflight + k) < c.max := by
  unfold forksWanted at hk
  have : Nat.min (c.minEff + c.warm) c.max ≤ c.max := Nat.min_le_right _ _
  omega

/-- **the full statement is false of the gates alone**: they count tracked workers
    only, so a second round of forks that passes the gate before the first round
    has registered makes the supervisor track more than Max (Min = Max = 2: four
    forks pass with an empty map, four registrations follow). -/
theorem C15_tracked_le_max_full_false :
    ∃ (c : Cfg) (evs : List Ev), (∀ pre e post, evs = pre ++ e :: post →
        e = .forkGate → (step c (run c {} pre) e).2 = .ok) ∧
      (run c {} evs).tracked.length > c.max := by
  refine ⟨⟨2, 2, 0, 3⟩, [.forkGate, .forkGate, .forkGate, .forkGate, .setWorker 1, .setWorker 2,
    .setWorker 3, .setWorker 4], ?_, by decide⟩
  intro pre e post h he
  subst he
  have hl : pre.length < 8 := by
    have := congrArg List.length h
    simp at this; omega
  -- the only fork gates are the first four events
  match pre, h with
  | [], _ => decide
  | [_], h => simp at h; obtain ⟨rfl, _⟩ := h; decide
  | [_, _], h => simp at h; obtain ⟨rfl, rfl, _⟩ := h; decide
  | [_, _, _], h => simp at h; obtain ⟨rfl, rfl, rfl, _⟩ := h; decide
  | _ :: _ :: _ :: _ :: rest, h =>
    simp at h
    obtain ⟨_, _, _, _, h⟩ := h
    -- from the fifth event on there is no forkGate
    exfalso
    match rest, h with
    | [], h => simp at h
    | [_], h => simp at h
    | [_, _], h => simp at h
    | [_, _, _], h => simp at h
    | _ :: _ :: _ :: _ :: r2, h =>
      simp at h

/-- non-vacuity: a disciplined round on a pool 2/3/1. -/
example : (run ⟨2, 3, 1, 3⟩ {} [.forkGate, .forkGate, .forkGate, .setWorker 1, .setWorker 2, .setWorker 3,
    .workerForked 1 11, .addPoolReady 2]).tracked.length = 3 ∧
    (run ⟨2, 3, 1, 3⟩ {} [.forkGate, .forkGate, .forkGate, .setWorker 1, .setWorker 2, .setWorker 3,
    .workerForked 1 11, .addPoolReady 2]).poolReady = true := by decide

end Am.Super
