/-
  C16 — the debugger shows each transition as it happened and navigates
  consistently. Property theorems (with their local lemmas).
-/
import AmVerif.Model.Dbg
namespace Am.Dbg

/-! ### bisection = linear scan on monotone predicates -/

/-- `f` is monotone on `[0, n)`: once true it stays true. -/
def Mono (n : Nat) (f : Nat → Bool) : Prop := ∀ i j, i ≤ j → j < n → f i = true → f j = true

theorem firstTrue_char (n : Nat) (f : Nat → Bool) (i : Nat) (hle : i ≤ n)
    (hlow : ∀ k, k < i → f k = false) (hat : i < n → f i = true) : firstTrue n f = i := by
  unfold firstTrue
  induction n generalizing i with
  | zero =>
    have : i = 0 := by omega
    subst this; rfl
  | succ m ih =>
    rw [List.range_succ, List.find?_append]
    by_cases him : i ≤ m
    · have := ih i him hlow
      by_cases hlt : i < m
      · have h1 := this (fun _ => hat (by omega))
        cases hf : (List.range m).find? f with
        | none => simp [hf] at h1; omega
        | some v => simp [hf] at h1 ⊢; exact h1
      · have hi : i = m := by omega
        subst hi
        have hnone : (List.range i).find? f = none := by
          rw [List.find?_eq_none]
          intro x hx
          simp only [List.mem_range] at hx
          simp [hlow x hx]
        simp [hnone, hat (by omega)]
    · have hi : i = m + 1 := by omega
      subst hi
      have hnone : (List.range m).find? f = none := by
        rw [List.find?_eq_none]
        intro x hx
        simp only [List.mem_range] at hx
        simp [hlow x (by omega)]
      simp [hnone, hlow m (by omega)]

theorem bisectLoop_spec (n : Nat) (f : Nat → Bool) (hm : Mono n f) :
    ∀ fuel i j, j - i < fuel → i ≤ j → j ≤ n →
      (∀ k, k < i → f k = false) → (∀ k, j ≤ k → k < n → f k = true) →
      bisectLoop f fuel i j = firstTrue n f := by
  intro fuel
  induction fuel with
  | zero => intro i j h; omega
  | succ fu ih =>
    intro i j hf hij hjn hlow hhigh
    simp only [bisectLoop]
    split
    · rename_i hlt
      have hh : (i + j) / 2 < j := by omega
      have hh2 : i ≤ (i + j) / 2 := by omega
      cases hfh : f ((i + j) / 2) with
      | false =>
        simp only [Bool.not_false, if_true]
        apply ih _ _ (by omega) (by omega) hjn _ hhigh
        intro k hk
        by_cases hk2 : k < i
        · exact hlow k hk2
        · -- i ≤ k ≤ h and f h = false: by monotonicity f k = false
          cases hfk : f k with
          | false => rfl
          | true =>
            have := hm k ((i + j) / 2) (by omega) (by omega) hfk
            rw [hfh] at this; cases this
      | true =>
        simp only [Bool.not_true, Bool.false_eq_true, if_false]
        apply ih _ _ (by omega) hh2 (by omega) hlow
        intro k hk hkn
        exact hm _ k hk hkn hfh
    · have : i = j := by omega
      subst this
      exact (firstTrue_char n f i hjn hlow (fun h => hhigh i (Nat.le_refl _) h)).symm

/-- **C16 (binary search = linear scan)**: on a monotone predicate Go's
    `sort.Search` returns what a linear scan returns. -/
theorem bisect_eq_firstTrue (n : Nat) (f : Nat → Bool) (hm : Mono n f) :
    bisect n f = firstTrue n f :=
  bisectLoop_spec n f hm (n + 1) 0 n (by omega) (Nat.zero_le _) (Nat.le_refl _)
    (fun k hk => by omega) (fun k hk hkn => by omega)

/-- queue ticks of the records never decrease. -/
def QSorted (c : Client) : Prop :=
  ∀ i j, i ≤ j → j < c.msgs.length → (c.msgs.getD i default).qtick ≤ (c.msgs.getD j default).qtick

/-- time sums of the parsed records never decrease. -/
def SumSorted (c : Client) : Prop :=
  ∀ i j, i ≤ j → j < c.parsed.length →
    (c.parsed.getD i ⟨0, 0, [], []⟩).timeSum ≤ (c.parsed.getD j ⟨0, 0, [], []⟩).timeSum

/-- **C16 (lookup by queue tick)**: with non-decreasing queue ticks (what a real
    machine produces, C04) `TxAtQueueTick` is the linear scan: the first record whose
    queue tick is at least `q`, else the last record; -1 for an empty stream. -/
theorem C16_txAtQueueTick_linear (c : Client) (q : Nat) (hs : QSorted c) :
    txAtQueueTick c q =
      if c.msgs.length = 0 then -1 else
      let i := firstTrue c.msgs.length (fun i => (c.msgs.getD i default).qtick ≥ q)
      if i = c.msgs.length then ((c.msgs.length - 1 : Nat) : Int) else (i : Int) := by
  have hm : Mono c.msgs.length (fun i => decide ((c.msgs.getD i default).qtick ≥ q)) := by
    intro i j hij hj hi
    simp only [decide_eq_true_eq] at hi ⊢
    exact Nat.le_trans hi (hs i j hij hj)
  simp only [txAtQueueTick, bisect_eq_firstTrue _ _ hm]
  by_cases h0 : c.msgs.length = 0
  · simp [h0]
  · simp only [h0, beq_iff_eq, if_false]

/-- **C16 (lookup by machine time)**: with non-decreasing time sums (C01: ticks
    only grow) `TxAtMachTime` returns the first record whose time sum equals `sum`,
    and 0 when there is none. -/
theorem C16_txAtMachTime_linear (c : Client) (sum : Nat) (hs : SumSorted c) :
    txAtMachTime c sum =
      let i := firstTrue c.parsed.length (fun i => (c.parsed.getD i ⟨0, 0, [], []⟩).timeSum ≥ sum)
      if i < c.parsed.length ∧ (c.parsed.getD i ⟨0, 0, [], []⟩).timeSum = sum then i else 0 := by
  have hm : Mono c.parsed.length (fun i => decide ((c.parsed.getD i ⟨0, 0, [], []⟩).timeSum ≥ sum)) := by
    intro i j hij hj hi
    simp only [decide_eq_true_eq] at hi ⊢
    exact Nat.le_trans hi (hs i j hij hj)
  simp only [txAtMachTime, bisect_eq_firstTrue _ _ hm, Bool.and_eq_true, decide_eq_true_eq, beq_iff_eq]

/-- **C16 (lookup by transition id)** is the linear scan by definition: the first
    record carrying the id, -1 when no record does — whatever was looked up before. -/
theorem C16_txIndex_linear (c : Client) (id : Nat) :
    txIndex c id = match c.msgs.findIdx? (fun m => m.id == id) with | some i => (i : Int) | none => -1 :=
  rfl

/-! ### derived data follow from consecutive records -/

theorem mem_transitionStates_removed (n : Nat) (b a : List Nat) (s : Nat) :
    s ∈ (transitionStates n (some b) a).2 ↔
      s < n ∧ isActiveTick (b.getD s 0) = true ∧ isActiveTick (a.getD s 0) = false := by
  simp [transitionStates, List.mem_filter]

theorem mem_transitionStates_added (n : Nat) (b a : List Nat) (s : Nat) (hs : s < n)
    (hb : isActiveTick (b.getD s 0) = false) (ha : isActiveTick (a.getD s 0) = true) :
    s ∈ (transitionStates n (some b) a).1 := by
  simp only [transitionStates, List.mem_filter, List.mem_range, hs, true_and, Bool.or_eq_true,
    Bool.and_eq_true, Bool.not_eq_true']
  exact Or.inl ⟨hb, ha⟩

theorem added_active (n : Nat) (b a : List Nat) (s : Nat)
    (h : s ∈ (transitionStates n (some b) a).1) :
    isActiveTick (a.getD s 0) = true ∨ b.getD s 0 ≠ a.getD s 0 := by
  simp only [transitionStates, List.mem_filter, List.mem_range, Bool.or_eq_true, Bool.and_eq_true,
    Bool.not_eq_true', bne_iff_ne, ne_eq] at h
  rcases h.2 with h1 | h2
  · exact Or.inl h1.2
  · exact Or.inr h2.2

/-- **C16 (states added / removed)**: for consecutive records, a state is listed
    as removed exactly when it was active before and is not after; every state that
    became active is listed as added, and a listed state is active after or had its
    tick changed (a Multi state re-entered). -/
theorem C16_added_removed (n : Nat) (b a : List Nat) (s : Nat) (hs : s < n) :
    (s ∈ (transitionStates n (some b) a).2 ↔
      (isActiveTick (b.getD s 0) = true ∧ isActiveTick (a.getD s 0) = false)) ∧
    ((isActiveTick (b.getD s 0) = false ∧ isActiveTick (a.getD s 0) = true) →
      s ∈ (transitionStates n (some b) a).1) ∧
    (s ∈ (transitionStates n (some b) a).1 →
      isActiveTick (a.getD s 0) = true ∨ b.getD s 0 ≠ a.getD s 0) := by
  refine ⟨?_, fun h => mem_transitionStates_added n b a s hs h.1 h.2, added_active n b a s⟩
  rw [mem_transitionStates_removed]
  exact ⟨fun h => ⟨h.2.1, h.2.2⟩, fun h => ⟨hs, h.1, h.2⟩⟩

/-- **C16 (time sum / time diff)**: a parsed record carries the sum of its clocks,
    and — when time did not run backwards — the difference to the previous
    record's sum. -/
theorem C16_sum_diff (n : Nat) (pm : Msg) (pp : Parsed) (m : Msg) (h : csum pm.clocks ≤ csum m.clocks) :
    (parse n (some (pm, pp)) m).timeSum = csum m.clocks ∧
    (parse n (some (pm, pp)) m).timeDiff = csum m.clocks - pp.timeSum := by
  unfold parse
  simp only
  have : ¬ csum m.clocks < csum pm.clocks := by omega
  simp [this]

theorem push_lengths (c : Client) (m : Msg) :
    (c.push m).msgs.length = c.msgs.length + 1 ∧ (c.push m).parsed.length = c.parsed.length + 1 := by
  simp [Client.push]


/-! ### the error index equals what follows from the records -/

/-- a record counts as an error when an `Err*` state or Exception is active in it (and the
    time sum did not go back against the record before). -/
def errRec (c : Client) (i : Nat) : Bool :=
  let m := c.msgs.getD i default
  let bad := if i = 0 then false else csum m.clocks < csum (c.msgs.getD (i - 1) default).clocks
  !bad && (c.errSt.any (fun e => isActiveTick (m.clocks.getD e 0)) || isActiveTick (m.clocks.getD c.exc 0))

/-- the linear scan: every error record, newest first. -/
def errorsSpec (c : Client) : List Nat := ((List.range c.msgs.length).filter (errRec c)).reverse

theorem errRec_push_old (c : Client) (m : Msg) (i : Nat) (hi : i < c.msgs.length) :
    errRec (c.push m) i = errRec c i := by
  have h1 : (c.push m).msgs = c.msgs ++ [m] := by simp [Client.push]
  have h2 : (c.push m).errSt = c.errSt := by simp [Client.push]
  have h3 : (c.push m).exc = c.exc := by simp [Client.push]
  unfold errRec
  simp only [h1, h2, h3]
  have g1 : (c.msgs ++ [m]).getD i default = c.msgs.getD i default := by
    simp [List.getD, List.getElem?_append_left hi]
  have g2 : (c.msgs ++ [m]).getD (i - 1) default = c.msgs.getD (i - 1) default := by
    have : i - 1 < c.msgs.length := by omega
    simp [List.getD, List.getElem?_append_left this]
  rw [g1, g2]

theorem push_errors (c : Client) (m : Msg) (hl : c.msgs.length = c.parsed.length) :
    (c.push m).errors =
      if errRec (c.push m) c.msgs.length then c.msgs.length :: c.errors else c.errors := by
  have h1 : (c.push m).msgs = c.msgs ++ [m] := by simp [Client.push]
  have h2 : (c.push m).errSt = c.errSt := by simp [Client.push]
  have h3 : (c.push m).exc = c.exc := by simp [Client.push]
  have g1 : (c.msgs ++ [m]).getD c.msgs.length default = m := by simp [List.getD]
  unfold errRec
  simp only [h1, h2, h3, g1]
  rcases List.eq_nil_or_concat c.msgs with hm | ⟨ms, pm, hm⟩
  · have hp : c.parsed = [] := by
      have : c.parsed.length = 0 := by rw [← hl, hm]; rfl
      exact List.eq_nil_of_length_eq_zero this
    simp [Client.push, hm, hp]
  · rcases List.eq_nil_or_concat c.parsed with hp | ⟨ps, pp, hp⟩
    · rw [hm, hp] at hl; simp at hl
    · have g2 : (c.msgs ++ [m]).getD (c.msgs.length - 1) default = pm := by
        rw [hm]; simp [List.getD]
      have hne : c.msgs.length ≠ 0 := by rw [hm]; simp
      simp only [g2, hne, if_false]
      simp [Client.push, hm, hp]

/-- **C16 (error index)**: pushing a record keeps the error index equal to the linear scan
    over all records (newest first), for any set of `Err*` states. -/
theorem C16_errors_step (c : Client) (m : Msg) (hl : c.msgs.length = c.parsed.length)
    (he : c.errors = errorsSpec c) : (c.push m).errors = errorsSpec (c.push m) := by
  have hlen : (c.push m).msgs.length = c.msgs.length + 1 := (push_lengths c m).1
  rw [push_errors c m hl]
  unfold errorsSpec at *
  rw [hlen, List.range_succ, List.filter_append, List.reverse_append]
  have hold : (List.range c.msgs.length).filter (errRec (c.push m)) =
      (List.range c.msgs.length).filter (errRec c) := by
    apply List.filter_congr
    intro i hi
    exact errRec_push_old c m i (List.mem_range.mp hi)
  rw [hold, ← he]
  cases hb : errRec (c.push m) c.msgs.length <;> simp [List.filter, hb]

/-- **C16 (error index), every stream**: after any sequence of records the error index is
    the linear scan over them. -/
theorem C16_errors_exact (n exc : Nat) (errSt : List Nat) (ms : List Msg) :
    let c := ms.foldl Client.push ({ n := n, exc := exc, errSt := errSt } : Client)
    c.errors = errorsSpec c := by
  suffices h : ∀ (c : Client), c.msgs.length = c.parsed.length → c.errors = errorsSpec c →
      (ms.foldl Client.push c).errors = errorsSpec (ms.foldl Client.push c) by
    exact h _ rfl rfl
  induction ms with
  | nil => intro c _ he; exact he
  | cons m ms ih =>
    intro c hl he
    simp only [List.foldl_cons]
    apply ih
    · have := push_lengths c m; omega
    · exact C16_errors_step c m hl he

/-- non-vacuity: a second `Err*` state alone (no Exception) puts the record into the index. -/
example : (({ n := 3, exc := 0, errSt := [1, 2] } : Client).push
    { id := 1, clocks := [0, 0, 1], qtick := 1 }).errors = [0] := by decide

/-! ### filters never show a transition that does not match them -/

/-- **C16 (filters)**: the filtered view lists exactly the records that pass the
    filters, in stream order. -/
theorem C16_filtered_exact (c : Client) (f : Filters) (i : Nat) :
    i ∈ filtered c f ↔ i < c.msgs.length ∧ filterTx c f i = true := by
  simp [filtered, List.mem_filter]

/-- with "skip queued" on, no queued record is shown — whatever the other filters. -/
theorem C16_skip_queued (c : Client) (f : Filters) (i : Nat) (hq : f.skipQueued = true)
    (hi : i ∈ filtered c f) : ∃ tx, c.msgs[i]? = some tx ∧ tx.isQueued = false := by
  rw [C16_filtered_exact] at hi
  obtain ⟨hlt, hf⟩ := hi
  unfold filterTx at hf
  cases hm : c.msgs[i]? with
  | none => simp [hm] at hf
  | some tx =>
    refine ⟨tx, rfl, ?_⟩
    cases hp : c.parsed[i]? with
    | none => simp [hm, hp] at hf
    | some p =>
      simp only [hm, hp, hq, Bool.true_and, Bool.and_eq_true, Bool.not_eq_true'] at hf
      exact hf.1.1.1.2

/-! ### navigation -/

/-- where the forward skip lands: the first shown position ≥ `c` (1-based) within the
    stream, if there is one. -/
theorem fixLoop_fwd (skipped : Nat → Bool) (len cur : Nat) :
    ∀ fuel c, 1 ≤ c → len + 1 - c < fuel →
      ∀ r, (c ≤ r ∧ r ≤ len ∧ skipped (r - 1) = false ∧ ∀ k, c ≤ k → k < r → skipped (k - 1) = true) →
      fixCursorLoop skipped len cur false fuel c = r := by
  intro fuel
  induction fuel with
  | zero => intro c _ h; omega
  | succ fu ih =>
    intro c hc hf r ⟨hcr, hrl, hrs, hbet⟩
    simp only [fixCursorLoop]
    have h1 : ¬ c < 1 := by omega
    have h2 : ¬ c > len := by omega
    simp only [h1, h2, if_false]
    by_cases hcr2 : c = r
    · subst hcr2; simp [hrs]
    · have hsk : skipped (c - 1) = true := hbet c (Nat.le_refl _) (by omega)
      simp only [hsk, if_true, Bool.false_eq_true, if_false]
      exact ih (c + 1) (by omega) (by omega) r ⟨by omega, hrl, hrs, fun k hk hkr => hbet k (by omega) hkr⟩

/-- where the backward skip lands: the last shown position ≤ `c`. -/
theorem fixLoop_back (skipped : Nat → Bool) (len cur : Nat) :
    ∀ fuel c, c ≤ len → c < fuel →
      ∀ r, (1 ≤ r ∧ r ≤ c ∧ skipped (r - 1) = false ∧ ∀ k, r < k → k ≤ c → skipped (k - 1) = true) →
      fixCursorLoop skipped len cur true fuel c = r := by
  intro fuel
  induction fuel with
  | zero => intro c _ h; omega
  | succ fu ih =>
    intro c hcl hf r ⟨hr1, hrc, hrs, hbet⟩
    simp only [fixCursorLoop]
    have h1 : ¬ c < 1 := by omega
    have h2 : ¬ c > len := by omega
    simp only [h1, h2, if_false]
    by_cases hcr2 : c = r
    · subst hcr2; simp [hrs]
    · have hsk : skipped (c - 1) = true := hbet c (by omega) (Nat.le_refl _)
      simp only [hsk, if_true]
      exact ih (c - 1) (by omega) (by omega) r ⟨hr1, by omega, hrs, fun k hk hkc => hbet k hk (by omega)⟩

/-- **C16 (forward then back returns)**: with any filters, stepping forward from a
    shown transition to the next shown one and then back lands on the transition
    one started from. ("shown" is the debugger's own notion: the filtered list when
    a filter of the Filters group is active, every record otherwise.) -/
theorem C16_fwd_back_returns (c : Client) (f : Filters) (cur r : Nat)
    (hcur : 1 ≤ cur) (hshown : shown c f (cur - 1) = true)
    (hr : cur < r ∧ r ≤ c.msgs.length ∧ shown c f (r - 1) = true ∧
      ∀ k, cur < k → k < r → shown c f (k - 1) = false) :
    fwd c f cur 1 = r ∧ back c f r 1 = cur := by
  obtain ⟨hcr, hrl, hrs, hbet⟩ := hr
  by_cases hact : f.active = true
  · simp only [shown, hact, if_true] at hshown hrs hbet
    constructor
    · unfold fwd fixCursor
      have : cur + 1 ≤ c.msgs.length := by omega
      simp only [this, if_true, hact, Bool.not_true, Bool.false_eq_true, if_false]
      apply fixLoop_fwd _ _ _ _ _ (by omega) (by omega)
      refine ⟨by omega, hrl, by simp [hrs], fun k hk hkr => ?_⟩
      simp [hbet k (by omega) hkr]
    · unfold back fixCursor
      have : 1 ≤ r := by omega
      simp only [this, if_true, hact, Bool.not_true, Bool.false_eq_true, if_false]
      apply fixLoop_back _ _ _ _ _ (by omega) (by omega)
      refine ⟨hcur, by omega, by simp [hshown], fun k hk hkr => ?_⟩
      simp [hbet k hk (by omega)]
  · -- no group filter active: every record is shown, so r = cur + 1
    have hna : f.active = false := by simpa using hact
    simp only [shown, hna, Bool.false_eq_true, if_false, decide_eq_true_eq, decide_eq_false_iff_not] at hshown hrs hbet
    have hr1 : r = cur + 1 := by
      by_cases h : r = cur + 1
      · exact h
      · exact absurd (by omega : cur + 1 - 1 < c.msgs.length) (hbet (cur + 1) (by omega) (by omega))
    subst hr1
    constructor
    · unfold fwd fixCursor
      have : cur + 1 ≤ c.msgs.length := by omega
      simp [this, hna]
    · unfold back fixCursor
      simp [hna]

/-- **C16 (the view honours every filter that is on)**: whatever is in the view
    passes the filters — in particular no check transition with "skip checks" on. -/
theorem C16_view_sound (c : Client) (f : Filters) (i : Nat) (hi : i ∈ view c f) (ha : f.active = true) :
    filterTx c f i = true := by
  simp only [view, ha, if_true] at hi
  exact ((C16_filtered_exact c f i).mp hi).2

/-- with the pinned Filters group (no `FilterChecks` in it, repaired since) "skip
    checks" alone was not honoured: the view still showed check transitions. -/
theorem C16_skip_checks_alone_pinned_false :
    ∃ (c : Client) (f : Filters) (i : Nat), f.skipChecks = true ∧ i ∈ viewPinned c f ∧
      (∃ tx, c.msgs[i]? = some tx ∧ tx.isCheck = true) :=
  ⟨(({ n := 1, exc := 0 } : Client).push { id := 1, clocks := [0], qtick := 1, isCheck := true }),
   { skipChecks := true }, 0, rfl, by decide, by decide⟩

end Am.Dbg
