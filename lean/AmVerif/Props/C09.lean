/-
  C09 — the RPC mirror converges. Property theorems (with their invariant).
-/
import AmVerif.Model.RpcConv
namespace Am.Conv

/-- the invariant: the mirror is a genuine snapshot not ahead of the source, at or
    past the hello snapshot, and — when no full sync is outstanding and the copy is
    not corrupted — at or past the target of every message that has been delivered;
    an answer on its way is at or past every delivered target unless a further sync
    has been asked for; what the server believes the client has is the hello
    snapshot or the target of some message of this connection. -/
structure Inv (s : St) : Prop where
  mirror_le : s.mirror ≤ s.src
  push_le : s.lastPush ≤ s.src
  hello_le : s.hello ≤ s.mirror
  targets : ∀ m ∈ s.inflight ++ s.delivered, m.target ≤ s.src
  based : ∀ m ∈ s.inflight ++ s.delivered, m.base ≤ m.target
  past : s.needSync = false → s.syncVal = none → s.drifted = false →
    ∀ m ∈ s.delivered, m.target ≤ s.mirror
  answer : ∀ v, s.syncVal = some v → v ≤ s.src ∧ s.hello ≤ v ∧
    (s.needSync = false → s.moved = false → ∀ m ∈ s.delivered, m.target ≤ v)
  link : s.lastPush = s.hello ∨ ∃ m ∈ s.inflight ++ s.delivered, m.target = s.lastPush

theorem inv_init : Inv {} := by
  refine ⟨Nat.le_refl _, Nat.le_refl _, Nat.le_refl _, ?_, ?_, ?_, ?_, Or.inl rfl⟩
  · intro m hm; simp at hm
  · intro m hm; simp at hm
  · intro _ _ _ m hm; simp at hm
  · intro v hv; simp at hv

theorem mem_eraseIdx_or (l : List Msg) (i : Nat) (m x : Msg) (hm : l[i]? = some m) (hx : x ∈ l) :
    x = m ∨ x ∈ l.eraseIdx i := by
  by_cases hxm : x = m
  · exact Or.inl hxm
  · right
    rcases List.mem_iff_getElem?.mp hx with ⟨j, hj⟩
    have hji : j ≠ i := by
      intro e; subst e; rw [hm] at hj; exact hxm (Option.some.inj hj).symm
    rw [List.mem_iff_getElem?]
    by_cases hlt : j < i
    · exact ⟨j, by rw [List.getElem?_eraseIdx]; simp [hlt, hj]⟩
    · refine ⟨j - 1, ?_⟩
      rw [List.getElem?_eraseIdx]
      have h1 : ¬ j - 1 < i := by omega
      simp only [h1, if_false]
      have : j - 1 + 1 = j := by omega
      rw [this]; exact hj

/-- what consuming the `i`-th in-flight message does to the two lists. -/
theorem consume_facts (s : St) (i : Nat) (m : Msg) (h : Inv s) (hm : s.inflight[i]? = some m) :
    (∀ x, x ∈ s.inflight.eraseIdx i ++ m :: s.delivered → x ∈ s.inflight ++ s.delivered) ∧
    (s.lastPush = s.hello ∨ ∃ x ∈ s.inflight.eraseIdx i ++ m :: s.delivered, x.target = s.lastPush) := by
  have hmem : m ∈ s.inflight := List.mem_of_getElem? hm
  constructor
  · intro x hx
    simp only [List.mem_append, List.mem_cons] at hx ⊢
    rcases hx with hx | rfl | hx
    · exact Or.inl (List.mem_of_mem_eraseIdx hx)
    · exact Or.inl hmem
    · exact Or.inr hx
  · rcases h.link with hl | ⟨x, hx, hxt⟩
    · exact Or.inl hl
    · refine Or.inr ⟨x, ?_, hxt⟩
      simp only [List.mem_append, List.mem_cons] at hx ⊢
      rcases hx with hx | hx
      · rcases mem_eraseIdx_or s.inflight i m x hm hx with rfl | hx
        · exact Or.inr (Or.inl rfl)
        · exact Or.inl hx
      · exact Or.inr (Or.inr hx)

theorem inv_step (s : St) (st : Step) (h : Inv s) : Inv (step policyAll s st) := by
  cases st with
  | change =>
    simp only [step]
    exact ⟨Nat.le_succ_of_le h.mirror_le, Nat.le_succ_of_le h.push_le, h.hello_le,
      fun m hm => Nat.le_succ_of_le (h.targets m hm), h.based, h.past,
      fun v hv => ⟨Nat.le_succ_of_le (h.answer v hv).1, (h.answer v hv).2⟩, h.link⟩
  | produce k =>
    simp only [step]
    split
    · exact h
    · have hmem : ∀ m, m ∈ (s.inflight ++ [⟨k, s.lastPush, s.src⟩]) ++ s.delivered →
          m = ⟨k, s.lastPush, s.src⟩ ∨ m ∈ s.inflight ++ s.delivered := by
        intro m hm
        simp only [List.append_assoc, List.mem_append, List.mem_cons, List.not_mem_nil, or_false] at hm ⊢
        rcases hm with hm | rfl | hm
        · exact Or.inr (Or.inl hm)
        · exact Or.inl rfl
        · exact Or.inr (Or.inr hm)
      refine ⟨h.mirror_le, Nat.le_refl _, h.hello_le, ?_, ?_, h.past, h.answer,
        Or.inr ⟨⟨k, s.lastPush, s.src⟩, by simp, rfl⟩⟩
      · intro m hm
        rcases hmem m hm with rfl | hm
        · exact Nat.le_refl _
        · exact h.targets m hm
      · intro m hm
        rcases hmem m hm with rfl | hm
        · exact h.push_le
        · exact h.based m hm
  | deliver i =>
    simp only [step]
    cases hm : s.inflight[i]? with
    | none => exact h
    | some m =>
      have hmem : m ∈ s.inflight := List.mem_of_getElem? hm
      have hmt : m.target ≤ s.src := h.targets m (by simp [hmem])
      have hmb : m.base ≤ m.target := h.based m (by simp [hmem])
      obtain ⟨hsub, hlink⟩ := consume_facts s i m h hm
      simp only
      split
      · -- accepted: the mirror moves from the base to the target
        rename_i hb
        simp only [Bool.and_eq_true, decide_eq_true_eq, Bool.not_eq_true'] at hb
        obtain ⟨hbase, hdr⟩ := hb
        refine ⟨hmt, h.push_le, ?_, fun x hx => h.targets x (hsub x hx),
          fun x hx => h.based x (hsub x hx), ?_, ?_, hlink⟩
        · show s.hello ≤ m.target
          exact Nat.le_trans h.hello_le (hbase ▸ hmb)
        · intro hn hs hd x hx
          show x.target ≤ m.target
          simp only [List.mem_cons] at hx
          rcases hx with rfl | hx
          · exact Nat.le_refl _
          · exact Nat.le_trans (h.past hn hs hd x hx) (hbase ▸ hmb)
        · intro v hv
          exact ⟨(h.answer v hv).1, (h.answer v hv).2.1, fun _ hmv => by cases hmv⟩
      · -- rejected: a full sync is asked for
        simp only [policyAll, if_true]
        refine ⟨h.mirror_le, h.push_le, h.hello_le,
          fun x hx => h.targets x (hsub x hx), fun x hx => h.based x (hsub x hx), ?_, ?_, hlink⟩
        · intro hn; cases hn
        · intro v hv
          exact ⟨(h.answer v hv).1, (h.answer v hv).2.1, fun hn => by cases hn⟩
  | deliverSync i =>
    simp only [step]
    cases hm : s.inflight[i]? with
    | none => exact h
    | some m =>
      obtain ⟨hsub, hlink⟩ := consume_facts s i m h hm
      simp only
      refine ⟨h.mirror_le, h.push_le, h.hello_le,
        fun x hx => h.targets x (hsub x hx), fun x hx => h.based x (hsub x hx), ?_, ?_, hlink⟩
      · intro hn; cases hn
      · intro v hv
        exact ⟨(h.answer v hv).1, (h.answer v hv).2.1, fun hn => by cases hn⟩
  | askSync =>
    simp only [step]
    exact ⟨h.mirror_le, h.push_le, h.hello_le, h.targets, h.based, fun hn => Bool.noConfusion hn,
      fun v hv => ⟨(h.answer v hv).1, (h.answer v hv).2.1, fun hn => Bool.noConfusion hn⟩, h.link⟩
  | drift =>
    simp only [step]
    exact ⟨h.mirror_le, h.push_le, h.hello_le, h.targets, h.based, fun _ _ hd => Bool.noConfusion hd,
      h.answer, h.link⟩
  | syncExec =>
    simp only [step]
    split
    · rename_i hc
      simp only [Option.isNone_iff_eq_none] at hc
      refine ⟨h.mirror_le, h.push_le, h.hello_le, h.targets, h.based, ?_, ?_, h.link⟩
      · intro _ hs; cases hs
      · intro v hv
        simp only [Option.some.injEq] at hv
        subst hv
        exact ⟨Nat.le_refl _, Nat.le_trans h.hello_le h.mirror_le,
          fun _ _ x hx => h.targets x (by simp [hx])⟩
    · exact h
  | syncApply =>
    simp only [step]
    cases hv : s.syncVal with
    | none => exact h
    | some v =>
      obtain ⟨hvs, hhv, hpast⟩ := h.answer v hv
      simp only [policyAll, Bool.true_and]
      split
      · -- overtaken by a diff: dropped, asked again
        refine ⟨h.mirror_le, h.push_le, h.hello_le, h.targets, h.based, ?_, ?_, h.link⟩
        · intro hn; cases hn
        · intro w hw; cases hw
      · rename_i hmv
        have hmv' : s.moved = false := by simpa using hmv
        refine ⟨hvs, h.push_le, hhv, h.targets, h.based, ?_, ?_, h.link⟩
        · intro hn _ _ x hx
          exact hpast hn hmv' x hx
        · intro w hw; cases hw
  | syncDrop =>
    simp only [step]
    cases hv : s.syncVal with
    | none => exact h
    | some v =>
      refine ⟨h.mirror_le, h.push_le, h.hello_le, h.targets, h.based, ?_, ?_, h.link⟩
      · intro hn; cases hn
      · intro w hw; cases hw
  | reconnect =>
    simp only [step]
    refine ⟨Nat.le_refl _, Nat.le_refl _, Nat.le_refl _, ?_, ?_, ?_, ?_, Or.inl rfl⟩
    · intro m hm; simp at hm
    · intro m hm; simp at hm
    · intro _ _ _ m hm; simp at hm
    · intro v hv; cases hv

theorem inv_run (l : List Step) : ∀ s, Inv s → Inv (run policyAll s l) := by
  induction l with
  | nil => intro s h; exact h
  | cons st r ih => intro s h; exact ih _ (inv_step s st h)

/-- **C09 (the mirror converges)**: with a full sync after every diff that does not
    apply, for every history of source changes, every mix of pushes and mutation
    replies, every delivery order, injected clock drifts and every sequence of
    reconnects — with a full sync after every diff that does not apply, and a sync
    answer that a diff has overtaken dropped and asked again — whenever nothing is
    in flight any more, no sync is outstanding and the server has told what it
    knows, the client mirrors exactly the source's snapshot. -/
theorem C09_mirror_converges (l : List Step) (hq : Quiescent (run policyAll {} l)) :
    (run policyAll {} l).mirror = (run policyAll {} l).src := by
  have h := inv_run l {} inv_init
  generalize run policyAll {} l = s at *
  obtain ⟨hi, hp, hn, hs, hd⟩ := hq
  rcases h.link with hl | ⟨m, hm, hmt⟩
  · have := h.hello_le; have := h.mirror_le; omega
  · rw [hi] at hm
    simp only [List.nil_append] at hm
    have := h.past hn hs hd m hm; have := h.mirror_le; omega

/-- **C09 (a detected drift is followed by a resynchronisation)**: a diff reaching a
    client whose copy is corrupted is rejected and a full sync is asked for. -/
theorem C09_drift_detected (s : St) (i : Nat) (m : Msg) (hd : s.drifted = true)
    (hm : s.inflight[i]? = some m) : (step policyAll s (.deliver i)).needSync = true := by
  simp [step, hm, hd, policyAll]

/-- **C09 (a mutation's effect is visible when the call returns)**: the reply is
    processed inside the client's call; when it applies, the mirror is the snapshot
    the reply describes when the call returns. -/
theorem C09_reply_effect_visible (s : St) (i : Nat) (m : Msg)
    (hm : s.inflight[i]? = some m) (hb : s.mirror = m.base) (hd : s.drifted = false) :
    (step policyAll s (.deliver i)).mirror = m.target := by
  simp [step, hm, hb, hd]

/-! ### refusing diffs while a sync is pending (fix 8336b00) -/

/-- a schedule in which no diff is applied while a full sync is asked for or outstanding:
    every `deliver` step finds `needSync = false` and `syncVal = none` (what the client
    guarantees for the syncs its update handlers start; a refused diff is a `deliverSync`). -/
def RefusesWhilePending : St → List Step → Prop
  | _, [] => True
  | s, st :: r =>
    (match st with
      | .deliver _ => s.needSync = false ∧ s.syncVal = none
      | _ => True) ∧ RefusesWhilePending (step policyAll s st) r

/-- the bookkeeping invariant of such schedules: an answer on its way has not been overtaken. -/
theorem fresh_step (s : St) (st : Step)
    (hd : match st with
      | .deliver _ => s.needSync = false ∧ s.syncVal = none
      | _ => True)
    (h : s.syncVal.isSome → s.moved = false) :
    (step policyAll s st).syncVal.isSome → (step policyAll s st).moved = false := by
  cases st with
  | change => simpa [step] using h
  | produce k => simp only [step]; split <;> simpa using h
  | deliver i =>
    simp only [step]
    obtain ⟨_, hs⟩ := hd
    cases hm : s.inflight[i]? with
    | none => simpa using h
    | some m =>
      simp only
      split
      · simp [hs]
      · simp [policyAll, hs]
  | deliverSync i =>
    simp only [step]
    cases hm : s.inflight[i]? with
    | none => simpa using h
    | some m => simpa using h
  | syncExec =>
    simp only [step]
    split
    · simp
    · simpa using h
  | syncApply =>
    simp only [step]
    cases hv : s.syncVal with
    | none => simp [hv] at h ⊢
    | some v =>
      simp only [policyAll, Bool.true_and]
      split <;> simp
  | syncDrop =>
    simp only [step]
    cases hv : s.syncVal with
    | none => simp [hv] at h ⊢
    | some v => simp
  | drift => simpa [step] using h
  | askSync => simpa [step] using h
  | reconnect => simp [step]

/-- **C09 (no answer is ever overtaken when diffs are refused while a sync is pending)**:
    in every such schedule the generation check never has to drop an answer — at every
    `syncApply` the answer is applied. -/
theorem C09_no_overtaking_when_pending_refused (l : List Step) :
    ∀ s, (s.syncVal.isSome → s.moved = false) → RefusesWhilePending s l →
      ∀ pre post, l = pre ++ .syncApply :: post → ∀ v, (run policyAll s pre).syncVal = some v →
        (step policyAll (run policyAll s pre) .syncApply).mirror = v := by
  induction l with
  | nil => intro s _ _ pre post h; simp at h
  | cons st r ih =>
    intro s hf hr pre post h v hv
    obtain ⟨hd, hr'⟩ := hr
    cases pre with
    | nil =>
      simp only [List.nil_append, List.cons.injEq] at h
      obtain ⟨rfl, _⟩ := h
      simp only [run, List.foldl_nil] at hv ⊢
      have hm : s.moved = false := hf (by simp [hv])
      simp [step, hv, hm, policyAll]
    | cons p pre' =>
      simp only [List.cons_append, List.cons.injEq] at h
      obtain ⟨rfl, h⟩ := h
      have := ih (step policyAll s st) (fresh_step s st hd hf) hr' pre' post h v
      simpa [run] using this (by simpa [run] using hv)

/-- **falling back to `Sync` alone is not enough**: the answer carries the snapshot
    of the moment the server executed it; a diff produced afterwards and applied
    before the answer is overwritten by the late answer — with nothing left in
    flight. Hence the generation check of `policyAll`. -/
theorem C09_sync_answer_overtaken_false :
    ∃ l : List Step, Quiescent (run policyNaive {} l) ∧
      (run policyNaive {} l).mirror ≠ (run policyNaive {} l).src :=
  ⟨[.change, .askSync, .syncExec, .syncApply,       -- the copy is at 1, the server believes 0
    .produce .push, .deliver 0,                     -- ⟨0,1⟩ rejected: a sync is asked for
    .syncExec,                                      -- answered with snapshot 1 …
    .change, .produce .push, .deliver 0,            -- … ⟨1,2⟩ overtakes the answer and applies
    .syncApply],                                    -- the late answer: back to 1
   by unfold Quiescent; decide, by decide⟩

/-- **C09 is false of the pinned client**, whose `RemoteUpdate` ignored a push that
    does not apply: a reply computed first but delivered after the following push
    leaves the mirror one snapshot behind for good (repaired, see known_findings). -/
theorem C09_pinned_policy_false :
    ∃ l : List Step, Quiescent (run policyPinned {} l) ∧
      (run policyPinned {} l).mirror ≠ (run policyPinned {} l).src :=
  ⟨[.change, .produce .reply, .change, .produce .push, .deliver 1, .deliver 0],
   by unfold Quiescent; decide, by decide⟩

/-- non-vacuity: the same schedule converges with the fallback. -/
example : Quiescent (run policyAll {} [.change, .produce .reply, .change, .produce .push, .deliver 1,
      .syncExec, .syncApply, .deliver 0, .syncExec, .syncApply]) ∧
    (run policyAll {} [.change, .produce .reply, .change, .produce .push, .deliver 1,
      .syncExec, .syncApply, .deliver 0, .syncExec, .syncApply]).mirror = 2 := by
  unfold Quiescent; decide

/-- non-vacuity: the window of the property, with the diffs refused while the sync is pending. -/
example : RefusesWhilePending {} [.change, .produce .reply, .change, .produce .push, .deliver 1,
      .deliverSync 0, .syncExec, .syncApply] ∧
    (run policyAll {} [.change, .produce .reply, .change, .produce .push, .deliver 1,
      .deliverSync 0, .syncExec, .syncApply]).mirror = 2 := by
  refine ⟨?_, by decide⟩
  simp [RefusesWhilePending, step, policyAll]

end Am.Conv
