/-
  C18 — pipes make the target follow the source. Property theorems (plus the
  two local lemmas they rest on).
-/
import AmVerif.Model.Pipes
namespace Am.Pipes

theorem applyQueue_append (a : Bool) (q : List Ev) (e : Ev) :
    applyQueue a (q ++ [e]) = e.add := by
  simp [applyQueue, List.foldl_append]

theorem applyQueue_all (a b : Bool) (q : List Ev) (h : ∀ x ∈ q, x.add = b) (hne : q ≠ []) :
    applyQueue a q = b := by
  induction q generalizing a with
  | nil => exact absurd rfl hne
  | cons x xs ih =>
    simp only [applyQueue, List.foldl_cons]
    by_cases hx : xs = []
    · subst hx; simpa using h x (by simp)
    · exact ih x.add (fun y hy => h y (by simp [hy])) hx

theorem applyQueue_split (a : Bool) (q1 q2 : List Ev) :
    applyQueue a (q1 ++ q2) = applyQueue (applyQueue a q1) q2 := by
  simp [applyQueue, List.foldl_append]

theorem applyQueue_reverse (a : Bool) (q : List Ev) :
    applyQueue a q = match q.reverse with | [] => a | x :: _ => x.add := by
  rcases List.eq_nil_or_concat q with rfl | ⟨xs, x, rfl⟩
  · rfl
  · simp [applyQueue, List.foldl_append]

/-- a mutation the counter-checking rule calls a duplicate would not change what
    the queue settles to. -/
theorem dupNew_sound (a : Bool) (q : List Ev) (e : Ev) (h : dupNew q e = true) :
    applyQueue a q = e.add := by
  unfold dupNew at h
  simp only [Bool.and_eq_true] at h
  rw [applyQueue_reverse]
  cases hr : q.reverse with
  | nil => rw [hr] at h; simp [dupScan] at h
  | cons x r =>
    rw [hr] at h
    simp only [dupScan] at h
    split at h
    · rename_i hx; simpa using hx
    · exact absurd h.2 (by simp)

/-- invariant: an idle target has nothing pending. -/
def Idle (t : Target) : Prop := t.busy = false → t.queue = []

theorem step_inv (t : Target) (st : Step) (h : Idle t) : Idle (step dupNew t st) := by
  cases st with
  | deliver e =>
    unfold step; simp only
    split
    · rename_i hb
      split
      · exact h
      · split <;> (intro hb'; simp_all)
    · intro _; simpa using h (by simpa using ‹¬t.busy = true›)
  | beginBusy => intro hb; simp [step] at hb
  | endBusy =>
    unfold step; simp only
    split
    · intro _; rfl
    · exact h

theorem step_settled_deliver (t : Target) (e : Ev) (h : Idle t) :
    settled (step dupNew t (.deliver e)) = e.add := by
  unfold step settled; simp only
  split
  · split
    · rename_i hn
      simp only [Bool.and_eq_true, Bool.not_eq_true', List.isEmpty_iff] at hn
      simp [applyQueue, hn.1.2, hn.2, hn.1.1]
    · split
      · rename_i hd
        simp only [Bool.and_eq_true] at hd
        exact dupNew_sound _ _ _ hd.2
      · exact applyQueue_append _ _ _
  · rename_i hb
    have : t.queue = [] := h (by simpa using hb)
    simp [applyQueue, this]

theorem step_settled_other (t : Target) (st : Step) (hs : ∀ e, st ≠ .deliver e) :
    settled (step dupNew t st) = settled t := by
  cases st with
  | deliver e => exact absurd rfl (hs e)
  | beginBusy => rfl
  | endBusy =>
    unfold step settled; simp only
    split
    · simp [applyQueue]
    · rfl

theorem run_inv (t : Target) (s : List Step) (h : Idle t) : Idle (run dupNew t s) := by
  induction s generalizing t with
  | nil => exact h
  | cons st r ih => exact ih _ (step_inv t st h)

/-- **C18 (in-order delivery)**: when the pipe's calls reach the target in the
    order of the source's transitions (the synchronous local pipe), then for every
    toggle history, every rhythm of the target being busy or idle, with or without
    args, what the target settles to is the source's final activity — no matter how
    quickly the source toggled. -/
theorem C18_target_follows_inorder (t : Target) (s : List Step) (h : Idle t) :
    settled (run dupNew t s) = sourceFinal (settled t) (deliveries s) := by
  induction s generalizing t with
  | nil => rfl
  | cons st r ih =>
    simp only [run, List.foldl_cons]
    have := ih (step dupNew t st) (step_inv t st h)
    simp only [run] at this
    rw [this]
    cases st with
    | deliver e =>
      rw [step_settled_deliver t e h]
      simp [deliveries, sourceFinal]
    | beginBusy => rw [step_settled_other _ _ (by intro e; simp)]; rfl
    | endBusy => rw [step_settled_other _ _ (by intro e; simp)]; rfl

/-- corollary in the property's words: once the source has stopped and the target
    is idle again, the piped state is active exactly when the source state is. -/
theorem C18_quiescent_equal (s : List Step) (src0 : Bool)
    (hidle : (run dupNew { act := src0 } s).busy = false) :
    (run dupNew { act := src0 } s).act = sourceFinal src0 (deliveries s) := by
  have h0 : Idle ({ act := src0 } : Target) := fun _ => rfl
  have hq := run_inv _ s h0 hidle
  have := C18_target_follows_inorder { act := src0 } s h0
  simp only [settled, hq, applyQueue, List.foldl_nil] at this
  exact this

/-- **forked delivery does not have the property**: each event forwarded in its
    own goroutine may reach the target in any order; an Add overtaken by the later
    Remove leaves the target active while the source is not. -/
theorem C18_forked_delivery_false :
    ∃ (evs perm : List Ev), perm.Perm evs ∧
      (run dupNew {} (perm.map Step.deliver)).act ≠ sourceFinal false evs :=
  ⟨[⟨true, false⟩, ⟨false, false⟩], [⟨false, false⟩, ⟨true, false⟩], by decide, by decide⟩

/-- **the pinned duplicate rule does not have the property** even in order: Add,
    Remove, Add arriving while the target is busy — the second Add is dropped as a
    duplicate of the first although a Remove sits between them. -/
theorem C18_old_duplicate_rule_false :
    ∃ s : List Step, (run dupOld {} s).busy = false ∧
      (run dupOld {} s).act ≠ sourceFinal false (deliveries s) :=
  ⟨[.beginBusy, .deliver ⟨true, false⟩, .deliver ⟨false, false⟩, .deliver ⟨true, false⟩, .endBusy],
   by decide, by decide⟩

/-- **the flat variants do not have the property** on a busy target: the Remove is
    queued, the following Add is skipped because the target still shows the state
    active, and the drain then removes it. -/
theorem C18_flat_variant_false :
    ∃ s : List Step, (runFlat dupNew { act := true } s).busy = false ∧
      (runFlat dupNew { act := true } s).act ≠ sourceFinal true (deliveries s) :=
  ⟨[.beginBusy, .deliver ⟨false, false⟩, .deliver ⟨true, false⟩, .endBusy], by decide, by decide⟩

/-- non-vacuity: a busy target, a burst, a suppressed duplicate. -/
example : (run dupNew {} [.beginBusy, .deliver ⟨true, false⟩, .deliver ⟨true, false⟩,
    .deliver ⟨false, false⟩, .deliver ⟨true, false⟩, .endBusy]).act = true ∧
    (run dupNew {} [.beginBusy, .deliver ⟨true, false⟩, .deliver ⟨true, false⟩]).queue.length = 1 := by
  decide

end Am.Pipes

namespace Am.Pipes

/-- **C18 (BindAny: the target's active set equals the source's)**: after the
    handler has run for a source transition with target states `states`, a state
    of the source is active on the target iff it is among `states` — whatever the
    target held before (fix 8d7ab55). -/
theorem C18_bindany_equal (names tgt states : List Nat) (hs : ∀ x ∈ states, x ∈ names) :
    ∀ n ∈ names, (n ∈ bindAnyStep true names tgt states ↔ n ∈ states) := by
  intro n hn
  unfold bindAnyStep
  simp only [Bool.not_true, Bool.false_or]
  split
  · rename_i h
    simp only [Bool.and_eq_true, List.all_eq_true, List.contains_iff_mem, List.mem_filter,
      Bool.not_eq_true', and_imp] at h
    constructor
    · intro hm
      apply Classical.byContradiction
      intro hns
      have := h.2 n hn (by simpa using hns)
      simp [hm] at this
    · intro hm
      simpa using h.1 n hm
  · exact Iff.rfl

/-- **the pinned subset test did not have the property**: a source that shrinks
    its active set from (0 1) to (0) leaves the target at (0 1). -/
theorem C18_bindany_pinned_false :
    ∃ names tgt states, (∀ x ∈ states, x ∈ names) ∧
      ¬ (∀ n ∈ names, (n ∈ bindAnyStep false names tgt states ↔ n ∈ states)) := by
  refine ⟨[0, 1], [0, 1], [0], by decide, ?_⟩
  intro h
  have := (h 1 (by decide)).1 (by decide)
  simp at this

end Am.Pipes
