/- C07 — auto states. Property theorems only. -/
import AmVerif.Props.Common
namespace Am

/-- C07 (which states the auto mutation calls): exactly the Auto states that are
    inactive and not Removed by an active state. -/
theorem C07_auto_called_set (m : Mach) (am : Mut) (h : newAutoMutation m = some am) (x : Nat) :
    x ∈ am.called ↔ (x < m.sch.n ∧ (m.sch.get x).auto = true ∧ x ∉ m.active ∧
      ∀ a ∈ m.active, x ∉ (m.sch.get a).remove) := by
  simp only [newAutoMutation] at h
  split at h
  · exact absurd h (by simp)
  · have : am.called = m.sch.idx.filter (fun s => isAutoState m s && !m.is [s] &&
        !(m.active.any (fun a => (m.sch.get a).remove.contains s))) := by
      simp only [Option.some.injEq] at h; rw [← h]
    rw [this]
    simp only [List.mem_filter, Schema.idx, List.mem_range, isAutoState, Mach.is, List.all_cons,
      List.all_nil, Bool.and_true, Bool.and_eq_true, Bool.not_eq_true', List.any_eq_false,
      List.contains_iff_mem]
    constructor
    · rintro ⟨hx, ⟨ha, hn⟩, hr⟩
      refine ⟨hx, ha, ?_, fun a hma hc => hr a hma hc⟩
      intro hm
      simp [hx, hm] at hn
    · rintro ⟨hx, ha, hn, hr⟩
      refine ⟨hx, ⟨ha, ?_⟩, fun a hma hc => hr a hma hc⟩
      simp [hn]

/-- C07 (the auto mutation is an Add, flagged auto, never empty). -/
theorem C07_auto_shape (m : Mach) (am : Mut) (h : newAutoMutation m = some am) :
    am.kind = .add ∧ am.isAuto = true ∧ am.isCheck = false ∧ am.called ≠ [] := by
  simp only [newAutoMutation] at h
  split at h
  · exact absurd h (by simp)
  · rename_i hne
    simp only [Option.some.injEq] at h
    subst h
    refine ⟨rfl, rfl, rfl, ?_⟩
    intro he
    apply hne
    simpa using he

/-- C07 (no chains, nothing after a no-op, nothing after a health mutation): an
    auto transition, an unchanged clock or a Healthcheck/Heartbeat mutation never
    queue an auto mutation. -/
theorem C07_no_auto_after (m : Mach) (t : Tx) (changed : Bool)
    (h : t.mu.isAuto = true ∨ changed = false ∨ isHealth m t.mu = true) :
    autoStage m t changed = m := by
  unfold autoStage
  rcases h with h | h | h <;> simp [h]

/-- C07 (otherwise it is the very next transition): after an accepted, changed,
    non-auto, non-health transition the auto mutation is *prepended*, so it is
    the head of the queue. -/
theorem C07_auto_is_next (m : Mach) (t : Tx) (am : Mut)
    (h1 : t.mu.isAuto = false) (h2 : isHealth m t.mu = false)
    (h3 : newAutoMutation m = some am) :
    (autoStage m t true).queue = am :: m.queue := by
  unfold autoStage
  simp [h1, h2, h3, prepend, Mach.emit]

end Am
