/-
  C13 — Dispose is safe from anywhere: the disposal protocol against the queue
  loop, for every number of mutating and disposing goroutines and every
  interleaving. Property theorems (counting lemmas are local).
-/
import AmVerif.Model.DisposeProto
namespace Am.DP

/-! ### counting over `List.set` -/

def cnt (f : Th → Bool) (s : St) : Nat := (s.ths.filter f).length

private theorem filter_set_length (l : List Th) (i : Nat) (p q : Th) (f : Th → Bool)
    (h : l[i]? = some q) :
    ((l.set i p).filter f).length + (if f q then 1 else 0)
      = (l.filter f).length + (if f p then 1 else 0) := by
  induction l generalizing i with
  | nil => simp at h
  | cons x xs ih =>
    cases i with
    | zero =>
      simp only [List.getElem?_cons_zero, Option.some.injEq] at h
      subst h
      simp only [List.set_cons_zero, List.filter_cons]
      cases f x <;> cases f p <;> simp <;> omega
    | succ j =>
      simp only [List.getElem?_cons_succ] at h
      have := ih j h
      simp only [List.set_cons_succ, List.filter_cons]
      cases f x <;> simp <;> omega

theorem cnt_setTh (s : St) (i : Nat) (p q : Th) (f : Th → Bool) (h : s.ths[i]? = some q) :
    cnt f (setTh s i p) + (if f q then 1 else 0) = cnt f s + (if f p then 1 else 0) :=
  filter_set_length s.ths i p q f h

def isLR : Th → Bool
  | .caller .loop => true
  | .caller .release => true
  | _ => false

theorem running_eq (s : St) : running s = cnt isRunning s := rfl
theorem bodies_eq (s : St) : bodies s = cnt inBody s := rfl

/-! ### the invariant -/

def b2n (b : Bool) : Nat := if b then 1 else 0
@[simp] theorem b2n_true : b2n true = 1 := rfl
@[simp] theorem b2n_false : b2n false = 0 := rfl

theorem cnt_set (s s0 : St) (i : Nat) (p q : Th) (f : Th → Bool) (h : s.ths[i]? = some q)
    (h0 : s0.ths = s.ths) : cnt f (setTh s0 i p) + b2n (f q) = cnt f s + b2n (f p) := by
  have := filter_set_length s.ths i p q f h
  simp only [cnt, setTh, h0, b2n]
  exact this

structure Inv (s : St) : Prop where
  /-- while disposal has not been flagged the lock tells exactly whether one
      goroutine is between its CAS and its release -/
  mutex : s.disposing = false → cnt isRunning s + cnt isLR s = b2n s.lock
  /-- at most one goroutine is inside a transition -/
  one : cnt isRunning s ≤ 1
  /-- a disposer past the first CAS has flagged the disposal -/
  past : ∀ t ∈ s.ths, pastEnter t = true → s.disposing = true
  /-- the body of doDispose: never entered before `disposed` is set, at most once -/
  body0 : s.disposed = false → cnt inBody s + s.bodyRuns = 0
  body1 : cnt inBody s + s.bodyRuns ≤ 1
  /-- the tracer callbacks so far are well bracketed, and a transition is open exactly when a
      goroutine is inside one -/
  tr : openAfter s.trace = some (cnt isRunning s)

theorem openAfter_append (l : List Bool) (b : Bool) : openAfter (l ++ [b]) = trStep (openAfter l) b := by
  simp [openAfter, List.foldl_append]

private theorem mem_set_cases {l : List Th} {i : Nat} {p t : Th} (h : t ∈ l.set i p) : t = p ∨ t ∈ l := by
  rcases List.mem_or_eq_of_mem_set h with h | h
  · exact Or.inr h
  · exact Or.inl h

theorem inv_init (n g f : Nat) : Inv (init n g f) := by
  have hz : ∀ (p : Th → Bool), (∀ t ∈ (init n g f).ths, p t = false) → cnt p (init n g f) = 0 := by
    intro p hp
    simp only [cnt, List.length_eq_zero_iff, List.filter_eq_nil_iff]
    intro t ht; simp [hp t ht]
  have hm : ∀ t ∈ (init n g f).ths, t = .caller .idle ∨ t = .disp false .start ∨ t = .disp true .enter := by
    intro t ht
    simp only [init, List.mem_append, List.mem_replicate] at ht
    rcases ht with (⟨_, rfl⟩ | ⟨_, rfl⟩) | ⟨_, rfl⟩ <;> simp
  have h1 := hz isRunning (by intro t ht; rcases hm t ht with rfl | rfl | rfl <;> rfl)
  have h2 := hz isLR (by intro t ht; rcases hm t ht with rfl | rfl | rfl <;> rfl)
  have h3 := hz inBody (by intro t ht; rcases hm t ht with rfl | rfl | rfl <;> rfl)
  refine ⟨?_, by omega, ?_, ?_, ?_, ?_⟩
  · intro _; rw [h1, h2]; rfl
  · intro t ht hp; rcases hm t ht with rfl | rfl | rfl <;> simp [pastEnter] at hp
  · intro _; rw [h3]; rfl
  · rw [h3]; show 0 + 0 ≤ 1; omega
  · rw [h1]; rfl

/-- the invariant after goroutine `i` moved from `q` to `p` and the shared fields became those of `s0`:
    the five clauses in terms of the new counts. -/
theorem inv_upd (s s0 : St) (i : Nat) (p q : Th) (h : Inv s) (hq : s.ths[i]? = some q) (h0 : s0.ths = s.ths)
    (hm : ∀ r l, r + b2n (isRunning q) = cnt isRunning s + b2n (isRunning p) →
      l + b2n (isLR q) = cnt isLR s + b2n (isLR p) → s0.disposing = false → r + l = b2n s0.lock)
    (ho : ∀ r, r + b2n (isRunning q) = cnt isRunning s + b2n (isRunning p) → r ≤ 1)
    (hpp : pastEnter p = true → s0.disposing = true)
    (hmono : s.disposing = true → s0.disposing = true)
    (hb0 : ∀ b, b + b2n (inBody q) = cnt inBody s + b2n (inBody p) → s0.disposed = false → b + s0.bodyRuns = 0)
    (hb1 : ∀ b, b + b2n (inBody q) = cnt inBody s + b2n (inBody p) → b + s0.bodyRuns ≤ 1)
    (htr : ∀ r, r + b2n (isRunning q) = cnt isRunning s + b2n (isRunning p) → openAfter s0.trace = some r) :
    Inv (setTh s0 i p) := by
  have r := cnt_set s s0 i p q isRunning hq h0
  have l := cnt_set s s0 i p q isLR hq h0
  have b := cnt_set s s0 i p q inBody hq h0
  refine ⟨fun hd => hm _ _ r l hd, ho _ r, ?_, fun hd => hb0 _ b hd, hb1 _ b, htr _ r⟩
  intro t ht hpt
  simp only [setTh] at ht ⊢
  rw [h0] at ht
  rcases mem_set_cases ht with rfl | ht
  · exact hpp hpt
  · exact hmono (h.past t ht hpt)

/-- a move that changes none of the counted classes and none of the flags the invariant reads. -/
theorem inv_same (s s0 : St) (i : Nat) (p q : Th) (h : Inv s) (hq : s.ths[i]? = some q) (h0 : s0.ths = s.ths)
    (hl : s0.lock = s.lock) (hd : s0.disposing = s.disposing) (hdd : s0.disposed = s.disposed)
    (hb : s0.bodyRuns = s.bodyRuns) (ht : s0.trace = s.trace)
    (eR : isRunning p = isRunning q) (eL : isLR p = isLR q) (eB : inBody p = inBody q)
    (eP : pastEnter p = true → s.disposing = true) : Inv (setTh s0 i p) := by
  apply inv_upd s s0 i p q h hq h0
  · intro r l hr hl' hd'
    rw [eR] at hr; rw [eL] at hl'
    have := h.mutex (hd ▸ hd')
    rw [hl]; omega
  · intro r hr; rw [eR] at hr; have := h.one; omega
  · intro hp; rw [hd]; exact eP hp
  · intro hx; rw [hd]; exact hx
  · intro b hb' hx; rw [eB] at hb'; have := h.body0 (hdd ▸ hx); rw [hb]; omega
  · intro b hb'; rw [eB] at hb'; have := h.body1; rw [hb]; omega
  · intro r hr; rw [eR] at hr; rw [ht, h.tr]; congr 1; omega

/-- every step of every goroutine keeps the invariant (fixed order). -/
theorem inv_step (s s' : St) (i : Nat) (h : Inv s) (hs : step true s i = some s') : Inv s' := by
  unfold step at hs
  cases hp : s.ths[i]? with
  | none => simp [hp] at hs
  | some th =>
    simp only [hp] at hs
    have hmem : th ∈ s.ths := List.mem_of_getElem? hp
    cases th with
    | caller pc =>
      simp only at hs
      cases pc <;> simp only [stepMut] at hs
      · -- idle
        split at hs <;> cases hs
        · exact inv_same s s i _ _ h hp rfl rfl rfl rfl rfl rfl rfl rfl rfl (by simp [pastEnter])
        · exact inv_same s _ i _ _ h hp rfl rfl rfl rfl rfl rfl rfl rfl rfl (by simp [pastEnter])
      · -- pre
        split at hs <;> cases hs
        · exact inv_same s s i _ _ h hp rfl rfl rfl rfl rfl rfl rfl rfl rfl (by simp [pastEnter])
        · exact inv_same s s i _ _ h hp rfl rfl rfl rfl rfl rfl rfl rfl rfl (by simp [pastEnter])
      · -- cas
        split at hs <;> cases hs
        · exact inv_same s s i _ _ h hp rfl rfl rfl rfl rfl rfl rfl rfl rfl (by simp [pastEnter])
        · rename_i hf
          have hff : s.lock = false := by simpa using hf
          apply inv_upd s { s with lock := true } i _ _ h hp rfl
          · intro r l hr hl hd
            simp [isRunning, isLR] at hr hl
            have := h.mutex hd
            simp only [hff, b2n_false] at this
            simp only [b2n_true]; omega
          · intro r hr; simp [isRunning] at hr; have := h.one; omega
          · simp [pastEnter]
          · exact id
          · intro b hb hx; simp [inBody] at hb; have := h.body0 hx; simp only at *; omega
          · intro b hb; simp [inBody] at hb; have := h.body1; simp only at *; omega
          · intro r hr; simp [isRunning] at hr; show openAfter s.trace = some r; rw [h.tr]; congr 1; omega
      · -- loop
        split at hs
        · split at hs <;> cases hs
          · -- a holder leaves without releasing: only once disposal is flagged
            rename_i hd
            have hdt : s.disposing = true := by simpa using hd
            apply inv_upd s s i _ _ h hp rfl
            · intro r l _ _ hd'; rw [hdt] at hd'; cases hd'
            · intro r hr; simp [isRunning] at hr; have := h.one; omega
            · simp [pastEnter]
            · exact id
            · intro b hb hx; simp [inBody] at hb; have := h.body0 hx; omega
            · intro b hb; simp [inBody] at hb; have := h.body1; omega
            · intro r hr; simp [isRunning] at hr; show openAfter s.trace = some r; rw [h.tr]; congr 1; omega
          · rename_i hd
            have hdf : s.disposing = false := by simpa using hd
            have hm := h.mutex hdf
            have hlr : cnt isLR s ≥ 1 := by
              have : Th.caller .loop ∈ s.ths.filter isLR := by
                simp only [List.mem_filter]; exact ⟨hmem, rfl⟩
              exact List.length_pos_of_mem this
            have hlk : s.lock = true := by
              cases hl : s.lock
              · simp only [hl, b2n_false] at hm; omega
              · rfl
            simp only [hlk, b2n_true] at hm
            apply inv_upd s { s with queue := s.queue - 1, started := s.started + 1, trace := s.trace ++ [true] } i _ _ h hp rfl
            · intro r l hr hl _
              simp [isRunning, isLR] at hr hl
              simp only [hlk, b2n_true]; omega
            · intro r hr; simp [isRunning] at hr; omega
            · simp [pastEnter]
            · exact id
            · intro b hb hx; simp [inBody] at hb; have := h.body0 hx; simp only at *; omega
            · intro b hb; simp [inBody] at hb; have := h.body1; simp only at *; omega
            · intro r hr; simp [isRunning] at hr
              show openAfter (s.trace ++ [true]) = some r
              have h0 : cnt isRunning s = 0 := by omega
              rw [openAfter_append, h.tr, h0]; simp [trStep]; omega
        · cases hs
          exact inv_same s s i _ _ h hp rfl rfl rfl rfl rfl rfl rfl rfl rfl (by simp [pastEnter])
      · -- running
        cases hs
        apply inv_upd s { s with trace := s.trace ++ [false] } i _ _ h hp rfl
        · intro r l hr hl hd
          simp [isRunning, isLR] at hr hl
          have := h.mutex hd; simp only at *; omega
        · intro r hr; simp [isRunning] at hr; have := h.one; omega
        · simp [pastEnter]
        · exact id
        · intro b hb hx; simp [inBody] at hb; have := h.body0 hx; simp only at *; omega
        · intro b hb; simp [inBody] at hb; have := h.body1; simp only at *; omega
        · intro r hr; simp [isRunning] at hr
          show openAfter (s.trace ++ [false]) = some r
          have h1 : cnt isRunning s = 1 := by have := h.one; omega
          rw [openAfter_append, h.tr, h1]; simp [trStep]; omega
      · -- release
        cases hs
        apply inv_upd s { s with lock := false } i _ _ h hp rfl
        · intro r l hr hl hd
          simp [isRunning, isLR] at hr hl
          have hm := h.mutex hd
          have hlr : cnt isLR s ≥ 1 := by
            have : Th.caller .release ∈ s.ths.filter isLR := by
              simp only [List.mem_filter]; exact ⟨hmem, rfl⟩
            exact List.length_pos_of_mem this
          have hlk : s.lock = true := by
            cases hl' : s.lock
            · simp only [hl', b2n_false] at hm; omega
            · rfl
          simp only [hlk, b2n_true] at hm
          simp only [b2n_false]; omega
        · intro r hr; simp [isRunning] at hr; have := h.one; omega
        · simp [pastEnter]
        · exact id
        · intro b hb hx; simp [inBody] at hb; have := h.body0 hx; simp only at *; omega
        · intro b hb; simp [inBody] at hb; have := h.body1; simp only at *; omega
        · intro r hr; simp [isRunning] at hr; show openAfter s.trace = some r; rw [h.tr]; congr 1; omega
      · -- recheck
        split at hs <;> cases hs
        · exact inv_same s s i _ _ h hp rfl rfl rfl rfl rfl rfl rfl rfl rfl (by simp [pastEnter])
        · exact inv_same s s i _ _ h hp rfl rfl rfl rfl rfl rfl rfl rfl rfl (by simp [pastEnter])
      · -- done
        cases hs
    | disp force pc =>
      simp only at hs
      cases pc <;> simp only [stepDisp] at hs
      · -- start
        split at hs <;> cases hs
        · exact inv_same s s i _ _ h hp rfl rfl rfl rfl rfl rfl rfl rfl rfl (by simp [pastEnter])
        · exact inv_same s _ i _ _ h hp rfl (by simp) rfl rfl rfl rfl rfl rfl rfl (by simp [pastEnter])
      · -- enter
        split at hs <;> cases hs
        · exact inv_same s s i _ _ h hp rfl rfl rfl rfl rfl rfl rfl rfl rfl (by simp [pastEnter])
        · have e1 : isRunning (.disp force (if force = true then .gate else .wait)) = false := by cases force <;> rfl
          have e2 : isLR (.disp force (if force = true then .gate else .wait)) = false := by cases force <;> rfl
          have e3 : inBody (.disp force (if force = true then .gate else .wait)) = false := by cases force <;> rfl
          apply inv_upd s { s with disposing := true, lock := if (true && s.unlockD) = true then false else s.lock } i _ _ h hp rfl
          · intro r l _ _ hd; simp at hd
          · intro r hr; rw [e1] at hr; simp [isRunning] at hr; have := h.one; omega
          · intro _; rfl
          · intro _; rfl
          · intro b hb hx; rw [e3] at hb; simp [inBody] at hb; have := h.body0 hx; simp only at *; omega
          · intro b hb; rw [e3] at hb; simp [inBody] at hb; have := h.body1; simp only at *; omega
          · intro r hr; rw [e1] at hr; simp [isRunning] at hr; show openAfter s.trace = some r; rw [h.tr]; congr 1; omega
      · -- wait
        cases hs
        have hd : s.disposing = true := h.past _ hmem rfl
        exact inv_same s s i _ _ h hp rfl rfl rfl rfl rfl rfl rfl rfl rfl (fun _ => hd)
      · -- gate
        have hd : s.disposing = true := h.past _ hmem rfl
        split at hs <;> cases hs
        · exact inv_same s s i _ _ h hp rfl rfl rfl rfl rfl rfl rfl rfl rfl (by simp [pastEnter])
        · rename_i hdd
          have hddf : s.disposed = false := by simpa using hdd
          have hb := h.body0 hddf
          apply inv_upd s { s with disposed := true } i _ _ h hp rfl
          · intro r l _ _ hd'; simp only at hd'; rw [hd] at hd'; cases hd'
          · intro r hr; simp [isRunning] at hr; have := h.one; omega
          · intro _; exact hd
          · exact id
          · intro b _ hx; simp at hx
          · intro b hb'; simp [inBody] at hb'; simp only at *; omega
          · intro r hr; simp [isRunning] at hr; show openAfter s.trace = some r; rw [h.tr]; congr 1; omega
      · -- body
        have hd : s.disposing = true := h.past _ hmem rfl
        cases hs
        have hin : cnt inBody s ≥ 1 := by
          have : Th.disp force .body ∈ s.ths.filter inBody := by
            simp only [List.mem_filter]; exact ⟨hmem, rfl⟩
          exact List.length_pos_of_mem this
        have hdd : s.disposed = true := by
          cases hx : s.disposed
          · have := h.body0 hx; omega
          · rfl
        apply inv_upd s { s with bodyRuns := s.bodyRuns + 1 } i _ _ h hp rfl
        · intro r l _ _ hd'; simp only at hd'; rw [hd] at hd'; cases hd'
        · intro r hr; simp [isRunning] at hr; have := h.one; omega
        · intro _; exact hd
        · exact id
        · intro b _ hx; simp only at hx; rw [hdd] at hx; cases hx
        · intro b hb'; simp [inBody] at hb'; have := h.body1; simp only at *; omega
        · intro r hr; simp [isRunning] at hr; show openAfter s.trace = some r; rw [h.tr]; congr 1; omega
      · -- tail
        have hd : s.disposing = true := h.past _ hmem rfl
        split at hs <;> cases hs
        · apply inv_upd s { s with unlockD := false, lock := false } i _ _ h hp rfl
          · intro r l _ _ hd'; simp only at hd'; rw [hd] at hd'; cases hd'
          · intro r hr; simp [isRunning] at hr; have := h.one; omega
          · simp [pastEnter]
          · exact id
          · intro b hb' hx; simp [inBody] at hb'; have := h.body0 hx; simp only at *; omega
          · intro b hb'; simp [inBody] at hb'; have := h.body1; simp only at *; omega
          · intro r hr; simp [isRunning] at hr; show openAfter s.trace = some r; rw [h.tr]; congr 1; omega
        · exact inv_same s s i _ _ h hp rfl rfl rfl rfl rfl rfl rfl rfl rfl (by simp [pastEnter])
      · -- done
        cases hs

theorem inv_run (s : St) (sched : List Nat) (h : Inv s) : Inv (run true s sched) := by
  induction sched generalizing s with
  | nil => exact h
  | cons i is ih =>
    simp only [run, List.foldl_cons]
    cases hs : step true s i with
    | none => exact ih s h
    | some s' => exact ih s' (inv_step s s' i h hs)

/-- **C13 (Dispose concurrently with mutations: never two transitions at once)**:
    for every number of mutating callers, graceful and forced disposers and every
    interleaving of their steps, at most one goroutine is inside a transition —
    the mutual exclusion of the queue loop survives a disposal that lands while a
    transition is running (order of fix dbdc9be). -/
theorem C13_no_overlap_during_dispose (n g f : Nat) (sched : List Nat) :
    running (run true (init n g f) sched) ≤ 1 :=
  (inv_run _ sched (inv_init n g f)).one

/-- **C13 (dispose handlers exactly once, at most)**: whatever the number of
    concurrent Dispose / DisposeForce calls and their interleaving, the body of
    doDispose (closing errInternal, releasing the subscriptions, the registered
    dispose handlers, closing WhenDisposed) runs at most once, and not before
    `disposed` is set. -/
theorem C13_body_at_most_once (n g f : Nat) (sched : List Nat) :
    (run true (init n g f) sched).bodyRuns ≤ 1 ∧
    ((run true (init n g f) sched).disposed = false → (run true (init n g f) sched).bodyRuns = 0) := by
  have h := inv_run _ sched (inv_init n g f)
  exact ⟨by have := h.body1; omega, fun hd => by have := h.body0 hd; omega⟩

/-- **C14 (callbacks never interleave, any number of goroutines)**: the
    TransitionInit / TransitionEnd callbacks, made by whichever goroutine happens to
    run a transition, form a well-bracketed sequence for every number of callers
    and disposers and every interleaving of their steps — an Init never comes while
    a transition is open, an End never while none is — and a transition is open at
    the end of the trace exactly when a goroutine is inside one. (The sequential
    shape of the four callbacks within one transition is `C14_callbacks_well_formed`.) -/
theorem C14_callbacks_bracketed_all_interleavings (n g f : Nat) (sched : List Nat) :
    openAfter (run true (init n g f) sched).trace = some (running (run true (init n g f) sched)) ∧
    running (run true (init n g f) sched) ≤ 1 :=
  ⟨(inv_run _ sched (inv_init n g f)).tr, (inv_run _ sched (inv_init n g f)).one⟩

/-- a prefix of a well-bracketed trace is well bracketed: `openAfter` of the whole being defined
    makes it defined for every prefix. -/
theorem foldl_trStep_none (l : List Bool) : l.foldl trStep none = none := by
  induction l with
  | nil => rfl
  | cons b l ih => simpa [trStep] using ih

theorem openAfter_prefix (l₁ l₂ : List Bool) (h : (openAfter (l₁ ++ l₂)).isSome) : (openAfter l₁).isSome := by
  unfold openAfter at *
  rw [List.foldl_append] at h
  cases hx : l₁.foldl trStep (some 0) with
  | none => rw [hx, foldl_trStep_none] at h; simp at h
  | some v => simp

/-! ### nothing starts once disposal is flagged -/

theorem step_disposing_mono (fx : Bool) (s s' : St) (i : Nat) (hs : step fx s i = some s')
    (hd : s.disposing = true) : s'.disposing = true ∧ s'.started = s.started := by
  unfold step at hs
  cases hp : s.ths[i]? with
  | none => simp [hp] at hs
  | some th =>
    simp only [hp] at hs
    cases th with
    | caller pc =>
      cases pc <;> simp only [stepMut] at hs <;>
        (repeat' split at hs) <;> first | (cases hs; simp_all [setTh]) | simp_all
    | disp force pc =>
      cases pc <;> simp only [stepDisp] at hs <;>
        (repeat' split at hs) <;> first | (cases hs; simp_all [setTh]) | simp_all

/-- **C13 (every later call is neutral)**: once the disposal is flagged no
    transition starts any more, whatever callers do and in whatever order —
    both orders of letting go of the lock. -/
theorem C13_nothing_starts_after_disposing (fx : Bool) (s : St) (sched : List Nat)
    (hd : s.disposing = true) :
    (run fx s sched).disposing = true ∧ (run fx s sched).started = s.started := by
  induction sched generalizing s with
  | nil => exact ⟨hd, rfl⟩
  | cons i is ih =>
    simp only [run, List.foldl_cons]
    cases hs : step fx s i with
    | none => exact ih s hd
    | some s' =>
      have h1 := step_disposing_mono fx s s' i hs hd
      have h2 := ih s' h1.1
      simp only [run] at h2
      simp only [Option.getD_some]
      exact ⟨h2.1, by rw [h2.2, h1.2]⟩

/-- **the pinned order did not have the property** (before fix dbdc9be): `Dispose()`
    let go of the queue lock before `doDispose` had flagged the disposal; a
    mutation made in that window took the lock and started a transition next to
    the one still running. Callers 0 and 2 mutate, goroutine 1 is `Dispose()`. -/
theorem C13_overlap_pinned_false :
    ∃ sched, running (run false (init 2 1 0) sched) = 2 ∧ running (run true (init 2 1 0) sched) ≤ 1 := by
  refine ⟨[0, 0, 0, 0, 2, 1, 1, 1, 1], by decide, by decide⟩

/-- non-vacuity: a disposal that lands while a transition runs, a third caller in
    the window, everything running to the end: one body, two transitions never,
    the queued mutation never started. -/
example :
    let s := run true (init 2 1 1) [0, 0, 0, 0, 2, 1, 1, 1, 1, 3, 2, 2, 2, 0, 0, 2, 2, 2, 2, 3, 3]
    s.bodyRuns = 1 ∧ s.started = 1 ∧ s.disposed = true ∧ s.lock = false := by decide

end Am.DP
