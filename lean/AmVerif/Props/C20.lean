/- C20 — public helpers obey their algebra. Property theorems only. -/
import AmVerif.Model.Time
import AmVerif.Lemmas.ListSet
namespace Am

/-- C20 (`S.Add` / `SAdd` union without duplicates). -/
theorem C20_sAdd (ls : List S) :
    (sAdd ls).Nodup ∧ ∀ x, x ∈ sAdd ls ↔ ∃ l ∈ ls, x ∈ l := by
  refine ⟨nodup_uniq _, fun x => ?_⟩
  simp [sAdd, List.mem_flatten]

/-- C20 (`S.Add1`). -/
theorem C20_sAdd1 (s names : S) :
    (sMethodAdd1 s names).Nodup ∧ ∀ x, x ∈ sMethodAdd1 s names ↔ x ∈ s ∨ x ∈ names := by
  refine ⟨nodup_uniq _, fun x => ?_⟩
  simp [sMethodAdd1]

/-- C20 (`S.Delete` removes) at full strength. -/
def C20_delete_full : Prop :=
  ∀ (src : S) (ls : List S) (x : Nat), x ∈ sRem src ls ↔ x ∈ src ∧ ∀ l ∈ ls, x ∉ l

/-- … false of the code for a source list with duplicates: `slicesWithout`
    drops one occurrence per listed name. -/
theorem C20_delete_full_false : ¬ C20_delete_full := by
  intro h
  have := (h [1, 1] [[1]] 1).1 (by decide)
  exact this.2 [1] (by simp) (by simp)

/-- C20 (`S.Delete`, partial): on a duplicate-free receiver it is set
    difference (signature of the recorded finding: the receiver has a
    duplicate). -/
theorem C20_delete_partial (src : S) (ls : List S) (h : src.Nodup) (x : Nat) :
    x ∈ sRem src ls ↔ x ∈ src ∧ ∀ l ∈ ls, x ∉ l := by
  unfold sRem
  rw [mem_foldl_without_nodup _ _ h]
  simp [List.mem_flatten]

/-- C20: the pinned `SRem` skipped its first list (so `S.Delete(l)` removed
    nothing) — kept as the witness of the fixed finding. -/
example : sRemPinned [1, 2] [[1]] = [1, 2] ∧ sRem [1, 2] [[1]] = [2] := by decide

/-- C20 (`Sub` / `Shared` / `Equal`). -/
theorem C20_sub_shared_equal (a b : S) :
    (∀ x, x ∈ diff a b ↔ x ∈ a ∧ x ∉ b) ∧ (∀ x, x ∈ shared a b ↔ x ∈ a ∧ x ∈ b) ∧
    (equal a b = true ↔ ∀ x, x ∈ a ↔ x ∈ b) :=
  ⟨fun _ => mem_diff, fun _ => mem_shared, equal_iff⟩

/-- C20 (`Unique`). -/
theorem C20_unique (l : S) : (uniq l).Nodup ∧ (∀ x, x ∈ uniq l ↔ x ∈ l) ∧ (l.Nodup → uniq l = l) :=
  ⟨nodup_uniq l, fun _ => mem_uniq, uniq_of_nodup⟩

/-- C20 (`ParseStates` drops unknown names and duplicates, keeps the order). -/
theorem C20_parseStates (n : Nat) (states : S) :
    (parseStates n states).Nodup ∧
    (∀ x, x ∈ parseStates n states ↔ x ∈ states ∧ x < n) ∧
    (parseStates n states).Sublist states := by
  refine ⟨nodup_uniq _, fun x => by simp [parseStates], ?_⟩
  have : ∀ l : S, (uniq l).Sublist l := by
    intro l
    induction l with
    | nil => exact List.Sublist.refl _
    | cons a t ih =>
      simp only [uniq]
      exact List.Sublist.cons₂ a ((List.filter_sublist).trans ih)
  exact (this _).trans List.filter_sublist

/-- the pinned `ParseStates` kept unknown names when the input had a duplicate. -/
example : parseStatesPinnedDup [0, 7, 0] = [0, 7] ∧ parseStates 3 [0, 7, 0] = [0] := by decide

/-- C20 (`Time` views): `Is1` is "in range and odd", `Not1` its in-range
    complement, `ActiveStates(nil)` lists exactly the `Is1` indexes. -/
theorem C20_time_views (t : TimeV) (i : Nat) :
    (tIs1 t (some i) = true ↔ i < t.length ∧ tTick t i % 2 = 1) ∧
    (tNot1 t (some i) = true ↔ i < t.length ∧ tTick t i % 2 ≠ 1) ∧
    (i ∈ tActive t none ↔ tIs1 t (some i) = true) := by
  simp [tIs1, tNot1, tActive, tTick, isActiveTick]

/-- C20 (`Time.ActiveStates(idxs)` honours its filter — after the `fix:`). -/
theorem C20_time_active_filter (t : TimeV) (l : List Nat) (i : Nat) :
    i ∈ tActive t (some l) ↔ i ∈ tActive t none ∧ i ∈ l := by
  simp [tActive]
  constructor
  · rintro ⟨h1, h2, h3⟩; exact ⟨⟨h1, h2⟩, h3⟩
  · rintro ⟨⟨h1, h2⟩, h3⟩; exact ⟨h1, h2, h3⟩

/-- C20 (`Time.Is` / `Not` / `Any1` in terms of `Is1`). -/
theorem C20_time_is_not (t : TimeV) (idxs : List (Option Nat)) :
    (tIs t idxs = true ↔ idxs ≠ [] ∧ ∀ i ∈ idxs, tIs1 t i = true) ∧
    (tNot t idxs = true ↔ ∀ i ∈ idxs, tIs1 t i = false) ∧
    (tAny1 t idxs = true ↔ ∃ i ∈ idxs, tIs1 t i = true) := by
  refine ⟨?_, ?_, ?_⟩
  · cases idxs <;> simp [tIs]
  · simp [tNot]
  · simp [tAny1]

end Am
