/-
  C01 — "every view of the machine agrees with every other", the reader side: the
  views that report activity and ticks in one answer read both under a single hold
  of activeStatesMx, and the only writer changes both under one write hold.
  Obligations over the lock table regenerated from /repo (Generated/Locks.lean);
  with C12's `Lockset.C12_writer_excludes_all` a read hold lies wholly between two
  write holds, so the view is computed from one state of the model — for which
  `C01_parity_all_histories` and `C01_views_agree` hold.
-/
import AmVerif.Generated.Locks
namespace Am.C01V
open Am.Lockset

/-- the functions whose answer combines the active list and the clock. -/
def viewFuncs : List String :=
  ["Machine.String", "Machine.StringAll", "Machine.Inspect", "newTransition"]

def stateLock : String := "Machine.activeStatesMx"

/-- `f` reads `fld` in its own body, and every such access holds the state lock. -/
def readsGuarded (f fld : String) : Bool :=
  Gen.lockRows.any (fun r => r.func == f && r.field == fld) &&
  Gen.lockRows.all (fun r => !(r.func == f && r.field == fld) ||
    (!r.async && r.locks.any (fun l => l.1 == stateLock)))

/-- `f` takes the state lock at exactly one site (so both reads fall into one hold). -/
def oneHold (f : String) : Bool :=
  Gen.lockAcqs.any (fun a => a.1 == f && a.2.1 == stateLock && a.2.2 == 1)

def viewOK (f : String) : Bool :=
  oneHold f && readsGuarded f "Machine.activeStates" && readsGuarded f "Machine.clock"

/-- **C01 (a combined view is read from one state)**: every view function reads the
    active list and the clock under one hold of the state lock. -/
theorem C01_views_read_one_state : viewFuncs.all viewOK = true := by decide +kernel

/-- **C01 (the writer changes list and clock together)**: every write to the active
    list or the clock outside the constructor, Import (documented as unsafe on a live
    machine) and the test helper TestMockClock holds the state lock in write mode. -/
theorem C01_writer_one_hold :
    Gen.lockRows.all (fun r =>
      !(r.write && (r.field == "Machine.activeStates" || r.field == "Machine.clock")) ||
      r.func == "New" || r.func == "Machine.Import" || r.func == "TestMockClock" ||
      r.locks.any (fun l => l.1 == stateLock && l.2)) = true := by decide +kernel

/-- the table is not empty of views: non-vacuity. -/
example : viewOK "Machine.String" = true ∧ Gen.lockRows.length > 100 := by decide +kernel

end Am.C01V
