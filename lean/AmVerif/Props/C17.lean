/-
  C17 — history is a faithful, bounded log; queries and Export/Import mean what
  they say. Property theorems (with their local lemmas).
-/
import AmVerif.Model.History
import AmVerif.Props.Common
namespace Am.Hist

/-! ### bounded -/

theorem track_length (c : Cfg) (db : List Rec) (tx : Tx) (hm : 0 < c.maxRecords)
    (h : db.length ≤ c.maxRecords) : (track c db tx).length ≤ c.maxRecords := by
  unfold track
  split
  · simp only [List.length_append, List.length_cons, List.length_nil]
    split
    · simp only [List.length_drop]; omega
    · omega
  · exact h

/-- **C17 (bounded)**: for every configuration with `MaxRecords ≥ 1` and every
    history of transitions the in-memory log never holds more than `MaxRecords`
    records. -/
theorem C17_bounded (c : Cfg) (txs : List Tx) (hm : 0 < c.maxRecords) :
    (trackAll c txs).length ≤ c.maxRecords := by
  unfold trackAll
  suffices ∀ db : List Rec, db.length ≤ c.maxRecords →
      (txs.foldl (track c) db).length ≤ c.maxRecords from this [] (by simp)
  induction txs with
  | nil => intro db h; exact h
  | cons tx r ih => intro db h; exact ih _ (track_length c db tx hm h)

/-! ### exactly one record per matching transition, in order -/

/-- the unbounded log: one record per matching transition, each built against the
    previous one. -/
def recsFrom (c : Cfg) : List Rec → List Tx → List Rec
  | acc, [] => acc
  | acc, tx :: r =>
    if txMatches c tx then recsFrom c (acc ++ [mkRec c acc.getLast? tx]) r else recsFrom c acc r

def allRecs (c : Cfg) (txs : List Tx) : List Rec := recsFrom c [] txs

def lastN (n : Nat) (l : List Rec) : List Rec := l.drop (l.length - n)

theorem lastN_append_one (n : Nat) (l : List Rec) (r : Rec) (hn : 0 < n) :
    lastN n (l ++ [r]) =
      (if (lastN n l).length ≥ n then (lastN n l).drop 1 else lastN n l) ++ [r] := by
  unfold lastN
  simp only [List.length_append, List.length_cons, List.length_nil, List.length_drop]
  by_cases h : l.length ≥ n
  · have e1 : l.length + 1 - n = (l.length - n) + 1 := by omega
    have hge : l.length - (l.length - n) ≥ n := by omega
    simp only [hge, if_true, List.drop_drop]
    rw [e1, List.drop_append_of_le_length (by omega)]
  · have hlt : ¬ (l.length - (l.length - n) ≥ n) := by omega
    simp only [hlt, if_false]
    have e0 : l.length - n = 0 := by omega
    have e1 : l.length + 1 - n = 0 := by omega
    simp [e0, e1]

theorem lastN_getLast (n : Nat) (l : List Rec) (hn : 0 < n) : (lastN n l).getLast? = l.getLast? := by
  unfold lastN
  rcases List.eq_nil_or_concat l with rfl | ⟨xs, x, rfl⟩
  · simp
  · simp only [List.concat_eq_append]
    have : (xs ++ [x]).length - n ≤ xs.length := by simp; omega
    rw [List.drop_append_of_le_length this]
    simp

theorem track_lastN (c : Cfg) (hm : 0 < c.maxRecords) (txs : List Tx) :
    ∀ acc : List Rec,
      txs.foldl (track c) (lastN c.maxRecords acc) = lastN c.maxRecords (recsFrom c acc txs) := by
  induction txs with
  | nil => intro acc; rfl
  | cons tx r ih =>
    intro acc
    simp only [List.foldl_cons, recsFrom]
    by_cases hmt : txMatches c tx
    · simp only [hmt, if_true]
      rw [← ih]
      congr 1
      unfold track
      simp only [hmt, if_true]
      rw [lastN_getLast _ _ hm, lastN_append_one _ _ _ hm]
    · simp only [hmt, Bool.false_eq_true, if_false]
      rw [← ih]
      congr 1
      unfold track
      simp [hmt]

/-- **C17 (faithful log)**: the in-memory store is exactly the last `MaxRecords`
    records of the unbounded log, which has one record per matching transition in
    execution order — nothing is dropped except by rotation, nothing duplicated. -/
theorem C17_log_is_last_records (c : Cfg) (txs : List Tx) (hm : 0 < c.maxRecords) :
    trackAll c txs = lastN c.maxRecords (allRecs c txs) := by
  have := track_lastN c hm txs []
  simpa [trackAll, allRecs, lastN] using this

theorem recsFrom_tracked (c : Cfg) (txs : List Tx) : ∀ acc : List Rec,
    (recsFrom c acc txs).map (·.tracked) =
      acc.map (·.tracked) ++ (txs.filter (txMatches c)).map (fun tx => tfilter tx.after c.tracked) := by
  induction txs with
  | nil => intro acc; simp [recsFrom]
  | cons tx r ih =>
    intro acc
    simp only [recsFrom]
    by_cases hmt : txMatches c tx
    · simp only [hmt, if_true, List.filter_cons]
      rw [ih]
      simp [mkRec]
    · simp only [hmt, Bool.false_eq_true, if_false, List.filter_cons]
      exact ih acc

/-- **C17 (one record per matching transition, tracked times = machine time
    after)**: the unbounded log lists, in execution order, exactly the matching
    transitions, each with the machine's time after it restricted to the tracked
    states. -/
theorem C17_records_are_matching_transitions (c : Cfg) (txs : List Tx) :
    (allRecs c txs).map (·.tracked) =
      (txs.filter (txMatches c)).map (fun tx => tfilter tx.after c.tracked) := by
  simpa [allRecs] using recsFrom_tracked c txs []

/-! ### FindLatest -/

/-- the records of a newest-first list that satisfy the query, each judged with
    the record that precedes it in time. -/
def satList (q : Query) : List Rec → List Rec
  | [] => []
  | r :: rest => (if sat q r rest.head? then [r] else []) ++ satList q rest

theorem findLoop_nolimit (q : Query) (l : List Rec) : ∀ acc, findLoop q 0 l acc = acc ++ satList q l := by
  induction l with
  | nil => intro acc; simp [findLoop, satList]
  | cons r rest ih =>
    intro acc
    simp only [findLoop, satList]
    split
    · simp only [Nat.lt_irrefl, decide_false, Bool.false_and, Bool.false_eq_true, if_false]
      rw [ih]; simp
    · rw [ih]; simp

theorem findLoop_limit (q : Query) (limit : Nat) (hl : 0 < limit) (l : List Rec) :
    ∀ acc : List Rec, acc.length < limit →
      findLoop q limit l acc = acc ++ (satList q l).take (limit - acc.length) := by
  induction l with
  | nil => intro acc _; simp [findLoop, satList]
  | cons r rest ih =>
    intro acc ha
    simp only [findLoop, satList]
    split
    · simp only [hl, decide_true, Bool.true_and, List.length_append, List.length_cons,
        List.length_nil, decide_eq_true_eq, List.singleton_append]
      split
      · rename_i hge
        have : limit - acc.length = 1 := by omega
        simp [this]
      · rename_i hlt
        rw [ih _ (by simp; omega)]
        have : limit - acc.length = (limit - (acc ++ [r]).length) + 1 := by simp; omega
        rw [this, List.take_succ_cons]
        simp
    · simp only [List.nil_append]
      exact ih acc ha

/-- **C17 (FindLatest returns precisely the matching records, newest first)**:
    the result is the newest-first list of the records that satisfy the query
    (state conditions against the record and its predecessor, every range
    condition), cut at `limit` when one is given. -/
theorem C17_find_is_filter (q : Query) (limit : Nat) (db : List Rec) :
    findLatest q limit db =
      if limit = 0 then satList q db.reverse else (satList q db.reverse).take limit := by
  unfold findLatest
  split
  · rename_i h; subst h; simpa using findLoop_nolimit q db.reverse []
  · rename_i h
    have := findLoop_limit q limit (by omega) db.reverse [] (by simp; omega)
    simpa using this

theorem satList_sublist (q : Query) (l : List Rec) : (satList q l).Sublist l := by
  induction l with
  | nil => exact List.Sublist.slnil
  | cons r rest ih =>
    simp only [satList]
    split
    · exact ih.cons_cons r
    · exact ih.cons r

/-- nothing but stored records, in newest-first order. -/
theorem C17_find_sublist (q : Query) (limit : Nat) (db : List Rec) :
    (findLatest q limit db).Sublist db.reverse := by
  rw [C17_find_is_filter]
  split
  · exact satList_sublist q _
  · exact (List.take_sublist _ _).trans (satList_sublist q _)

/-! ### Export / Import -/

/-- **C17 (Import ∘ Export)**: a machine rebuilt from an export has the same
    ticks, a machine tick one higher, and — whenever the exported machine's active
    list agreed with tick parity, which C01 proves for every history — the same
    active states. -/
theorem C17_import_export (m : MState)
    (hp : ∀ i, i ∈ m.active ↔ (i < m.clock.length ∧ isActiveTick (m.clock.getD i 0) = true)) :
    (importS (exportS m)).clock = m.clock ∧
    (importS (exportS m)).machTick = m.machTick + 1 ∧
    ∀ i, i ∈ (importS (exportS m)).active ↔ i ∈ m.active := by
  refine ⟨rfl, rfl, fun i => ?_⟩
  simp only [importS, exportS, List.mem_filter, List.mem_range]
  exact (hp i).symm

/-- the hypothesis of `C17_import_export` holds after every history (from C01). -/
theorem C17_import_export_histories (sch : Schema) (alpha : S) (orc : Oracle) (fuel : Nat)
    (ops : List Op) :
    let m := runOps orc fuel (Mach.init sch alpha) ops
    let ms : MState := { clock := m.clock, active := m.active.filter (· < sch.n), machTick := 0 }
    ∀ i, i ∈ (importS (exportS ms)).active ↔ i ∈ ms.active := by
  intro m ms i
  have g := good_runOps orc fuel ops (Mach.init sch alpha)
  have h := g.inv (inv_init sch alpha)
  have hl : m.clock.length = sch.n := by
    show (runOps orc fuel (Mach.init sch alpha) ops).clock.length = sch.n
    rw [g.len]; simp [Mach.init]
  apply (C17_import_export ms _).2.2
  intro j
  simp only [ms, List.mem_filter, decide_eq_true_eq, hl, isActiveTick, beq_iff_eq]
  constructor
  · intro ⟨hj, hlt⟩; exact ⟨hlt, (h.parity j (hl ▸ hlt)).mp hj⟩
  · intro ⟨hlt, hp⟩; exact ⟨(h.parity j (hl ▸ hlt)).mpr hp, hlt⟩

/-- non-vacuity: rotation, an allow-list, a query that rejects. -/
example :
    let c : Cfg := { tracked := [0, 1], maxRecords := 2, called := [0] }
    let txs : List Tx := [
      ⟨true, false, [0], [0, 0], [1, 0], 0, 1, 0⟩, ⟨true, false, [1], [1, 0], [1, 1], 0, 2, 0⟩,
      ⟨true, false, [0], [1, 1], [2, 1], 0, 3, 1⟩, ⟨true, false, [0, 1], [2, 1], [3, 2], 0, 4, 0⟩]
    (trackAll c txs).length = 2 ∧ (allRecs c txs).length = 3 ∧
    (findLatest { active := [0] } 0 (trackAll c txs)).length = 1 := by decide

end Am.Hist
