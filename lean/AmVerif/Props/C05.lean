/-
  C05 — handler lifecycle. Property theorems only.
  (The exact call sequence is tied to the code by the correspondence run, which
  compares every handler call with the snapshot it observed.)
-/
import AmVerif.Props.Common
namespace Am

/-- C05 (visibility, negotiation): through every stage of the negotiation phase
    — Exit, Enter, self, state-state handlers and the global AnyEnter, for any
    bindings and any handler behaviour — the machine a handler can observe
    (active states, clock) is exactly the machine from before the transition. -/
theorem C05_negotiation_state_frozen (orc : Oracle) (m : Mach) (t : Tx) :
    (∀ l, (emitExits orc l m t).1.active = m.active ∧ (emitExits orc l m t).1.clock = m.clock) ∧
    (∀ l, (emitEnters orc l m t).1.active = m.active ∧ (emitEnters orc l m t).1.clock = m.clock) ∧
    (∀ f i a, (emitSelfs orc f i a m t).1.active = m.active ∧ (emitSelfs orc f i a m t).1.clock = m.clock) ∧
    (∀ af l, (emitSS orc af l m t).1.active = m.active ∧ (emitSS orc af l m t).1.clock = m.clock) ∧
    ((stageAnyEnter orc m t).1.active = m.active ∧ (stageAnyEnter orc m t).1.clock = m.clock) :=
  ⟨fun l => ⟨(emitExits_keeps orc l m t).chg.active, (emitExits_keeps orc l m t).chg.clock⟩,
   fun l => ⟨(emitEnters_keeps orc l m t).chg.active, (emitEnters_keeps orc l m t).chg.clock⟩,
   fun f i a => ⟨(emitSelfs_keeps orc f i a m t).chg.active, (emitSelfs_keeps orc f i a m t).chg.clock⟩,
   fun af l => ⟨(emitSS_keeps orc af l m t).chg.active, (emitSS_keeps orc af l m t).chg.clock⟩,
   ⟨(stageAnyEnter_keeps orc m t).chg.active, (stageAnyEnter_keeps orc m t).chg.clock⟩⟩

/-- C05 (visibility, finals): the final handlers are started on a machine whose
    active states are exactly the transition's target. -/
theorem C05_finals_see_target (m : Mach) (called target : S) :
    (applyActive m called target).active = target := rfl

/-- C05 (veto): a `false` from any negotiation handler (non-Auto case) stops the
    stage at once: later states of the stage are not visited. Stated for Enter. -/
theorem C05_veto_stops_enter (orc : Oracle) (m : Mach) (t : Tx) (s : Nat) (rest : S)
    (hveto : (handle orc m t (.enter s) (.st s) false true).2.2 = false)
    (hna : t.mu.isAuto = false) :
    emitEnters orc (s :: rest) m t =
      ((handle orc m t (.enter s) (.st s) false true).1,
       (handle orc m t (.enter s) (.st s) false true).2.1, false) := by
  have hmu : (handle orc m t (.enter s) (.st s) false true).2.1.mu.isAuto = false := by
    rw [(handle_neg orc m t (.enter s) (.st s) true).2.mu]; exact hna
  simp only [emitEnters, hveto, Bool.false_eq_true, if_false, hmu, Bool.false_and]

/-- C05 (handler lists): Exits is a permutation of the states being deactivated,
    Enters lists target states in target order. -/
theorem C05_exits_perm (m : Mach) (t : Tx) :
    (setupExitEnter m t).exits.Perm (diff m.active t.target) ∧
    (setupExitEnter m t).enters.Sublist t.target :=
  ⟨sortStates_perm _ _ _, List.filter_sublist⟩

/-- C05 order clause at full strength: in the resolved target a state comes after
    every state it lists in After. -/
def C05_after_order_full : Prop :=
  ∀ (c : RCtx) (toSet : S) (x y : Nat), y ∈ (c.sch.get x).after →
    x ∈ targetStates c toSet → y ∈ targetStates c toSet →
    (targetStates c toSet).idxOf y < (targetStates c toSet).idxOf x

/-- … is false of the code: `A{After B}`, `Add [A, X, B]` orders A, X, B
    (insertion sort only compares neighbours and `After` is not a strict weak
    order). Indices: 0 Exception, 1 A, 2 X, 3 B. -/
theorem C05_after_order_full_false : ¬ C05_after_order_full := by
  intro h
  let c : RCtx := { sch := { states := [{ multi := true }, { after := [3] }, {}, {}], exc := 0 },
                    before := [], isRemove := false, called := [1, 2, 3], topo := [] }
  have := h c [1, 2, 3] 1 3 (by decide) (by decide) (by decide)
  revert this
  decide

/-- known-finding signature `C05-order-after-not-strict-weak`: some state of the
    list has another state of the list in its After relation (so the second,
    non-strict-weak sorting pass is not the identity), or the Require topology is
    empty (Require cycle: the order is unsatisfiable). Same predicate in the Go
    monitor (`sigC05After`). -/
def sigC05After (sch : Schema) (topo l : S) : Bool :=
  topo.isEmpty || l.any (fun x => l.any (fun y => (sch.get x).after.contains y))

/-- C05 order clause, partial: outside the signature the handler order is the
    Require-topology order — a stable sort by topology index, which places every
    state after the states it Requires whenever the topology does. -/
theorem C05_order_partial (sch : Schema) (topo l : S) (h : sigC05After sch topo l = false) :
    sortStates sch topo l = sortRequire topo l ∧
    (sortStates sch topo l).Pairwise (fun a b => topoKey topo a ≤ topoKey topo b) := by
  have hfree : ∀ x y, x ∈ sortRequire topo l → y ∈ sortRequire topo l → afterLess sch x y = false := by
    intro x y hx hy
    simp only [sortRequire, mem_isort] at hx hy
    simp only [sigC05After, Bool.or_eq_false_iff, List.any_eq_false] at h
    have h1 : (sch.get y).after.contains x = false := by
      have := h.2 y hy
      simp only [Bool.not_eq_true, List.any_eq_false] at this
      simpa using this x hx
    simp only [afterLess, h1, Bool.and_false]
  have e : sortStates sch topo l = sortRequire topo l := by
    unfold sortStates
    exact isort_id_of_false _ _ hfree
  exact ⟨e, e ▸ sortRequire_sorted topo l⟩

/-- non-vacuity: a list without After relations among its states. -/
example : sigC05After { states := [{}, { require := [2] }, {}], exc := 0 } [2, 1] [1, 2] = false := by
  decide

end Am
