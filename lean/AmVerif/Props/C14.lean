/- C14 — tracers see the true times. Property theorems only. -/
import AmVerif.Props.Common
namespace Am

theorem finish_tx (m : Mach) (t : Tx) (r : Bool) :
    (finish m t r).2.1 = t ∧ (finish m t r).1.clock = m.clock := by
  simp only [finish]
  split
  · exact ⟨rfl, rfl⟩
  · split <;> exact ⟨rfl, rfl⟩

/-- C14 (fault-free, accepted branch): the `TimeAfter` that `TransitionEnd`
    tracers read equals the machine's clock when the transition finished. -/
theorem C14_applied_time_after_true (orc : Oracle) (hff : FaultFree orc) (m1 : Mach) (t2 : Tx) :
    (applyPhase orc m1 t2).2.1.timeAfter = (applyPhase orc m1 t2).1.clock := by
  simp only [applyPhase]
  -- the machine and record handed to `afterFinals`
  have key : ∀ (m4 : Mach) (t4 : Tx) (r4 : Bool), t4.timeAfter = m4.clock → (r4 = false → False) →
      (afterFinals orc m4 t4 r4).2.1.timeAfter = (afterFinals orc m4 t4 r4).1.clock := by
    intro m4 t4 r4 hta hr
    have hr4 : r4 = true := by cases r4 <;> simp_all
    subst hr4
    simp only [afterFinals, Bool.not_true, Bool.false_eq_true, if_false, Bool.true_and]
    have hh : (if m4.hasHandlers = true then handle orc m4 t4 .anyState .any true true
        else (m4, t4, true)).2.1.timeAfter =
        (if m4.hasHandlers = true then handle orc m4 t4 .anyState .any true true
        else (m4, t4, true)).1.clock := by
      split
      · obtain ⟨g, st, _⟩ := handle_proj orc hff m4 t4 .anyState .any true true (by simp)
        have q := (g.weaken (fun h => h.1)).quiet_of_false
        rw [st.timeAfter, q.clock]; exact hta
      · exact hta
    generalize (if m4.hasHandlers = true then handle orc m4 t4 .anyState .any true true
        else (m4, t4, true)) = p6 at hh ⊢
    split
    · rw [(finish_tx _ _ _).1, (finish_tx _ _ _).2]; exact hh
    · rw [(finish_tx _ _ _).1, (finish_tx _ _ _).2, (quiet_autoStage _ _ _).clock]; exact hh
  have hta := applyTarget_timeAfter m1 t2
  obtain ⟨g, fo, _, _, eta⟩ := runFinals_spec orc hff (applyTarget m1 t2).1 (applyTarget m1 t2).2
  apply key
  · rw [eta, g.quiet_of_false.clock]; exact hta
  · intro h; exact (fo h).1

/-- C14 (chain): a transition's `TimeBefore` is the machine's clock at its
    creation, i.e. the previous transition's true `TimeAfter`. -/
theorem C14_time_before_is_clock (m : Mach) (mu : Mut) :
    (newTx m mu).2.timeBefore = m.clock := by
  simp only [newTx]
  split <;> simp [setupExitEnter, setupAccepted] <;> (repeat' split) <;> rfl

/-- C14 (canceled ones report no change): a transition canceled in negotiation
    reports `TimeAfter` = the clock, which did not move. -/
theorem C14_canceled_reports_no_change (orc : Oracle) (m0 : Mach) (t0 : Tx)
    (hc : t0.mu.isCheck = false)
    (h : (negotiate orc (m0.emit (.tStart t0.accepted)) t0 t0.accepted).2.2 = false)
    (hcr : (negotiate orc (m0.emit (.tStart t0.accepted)) t0 t0.accepted).1.crashed = false) :
    (emitEvents orc m0 t0).2.1.timeAfter = m0.clock ∧ (emitEvents orc m0 t0).1.clock = m0.clock := by
  simp only [emitEvents]
  have k := negotiate_keeps orc (m0.emit (.tStart t0.accepted)) t0 t0.accepted
  have q0 : Quiet m0 (negotiate orc (m0.emit (.tStart t0.accepted)) t0 t0.accepted).1 :=
    (⟨rfl, rfl, rfl, rfl⟩ : Quiet m0 (m0.emit (.tStart t0.accepted))).trans k.chg
  have hmu : (negotiate orc (m0.emit (.tStart t0.accepted)) t0 t0.accepted).2.1.mu.isCheck = false := by
    rw [k.mu]; exact hc
  generalize negotiate orc (m0.emit (.tStart t0.accepted)) t0 t0.accepted = p at q0 h hcr hmu ⊢
  simp only [hcr, Bool.false_eq_true, if_false, hmu, h]
  rw [(finish_tx _ _ _).1, (finish_tx _ _ _).2]
  exact ⟨q0.clock, q0.clock⟩

end Am
