/-
  C05 — "for every transition the bound handlers run in the documented sequence: Exit handlers,
  then Enter handlers, then self and state-state handlers, with the global AnyEnter inside this
  negotiation phase, then End handlers, State handlers and last the global AnyState", over whole
  histories. The model's log records every handler call between the tracer callbacks; an acceptor
  reads the log and rejects a handler call outside a transition, a negotiation handler after
  `TransitionFinals`, a final handler before it, and any step back in the sequence
  Exit < Enter < self/state-state < AnyEnter < End/State < AnyState. Every history, for every
  handler oracle, is accepted (unless the caller goroutine crashed).
-/
import AmVerif.Props.C14Shape
namespace Am

/-- position of a handler in the documented sequence. -/
def hrank : HName → Nat
  | .exit _ => 0
  | .enter _ => 1
  | .trans _ _ => 2
  | .anyEnter => 3
  | .end_ _ => 4
  | .state _ => 4
  | .anyState => 5

/-- the acceptor's state. -/
inductive Ph2
  | idle | inited
  | neg (r : Nat)   -- between Start and Finals/End, last negotiation handler had rank r
  | fin (r : Nat)   -- after Finals
deriving DecidableEq, Repr

def Ph2.step : Ph2 → Ev → Option Ph2
  | .idle, .tInit _ _ _ _ _ _ => some .inited
  | .inited, .tStart _ => some (.neg 0)
  | .neg _, .tFinals _ _ => some (.fin 4)
  | .neg _, .tEnd _ _ _ _ _ => some .idle
  | .fin _, .tEnd _ _ _ _ _ => some .idle
  | .neg r, .h _ n _ => if r ≤ hrank n ∧ hrank n ≤ 3 then some (.neg (hrank n)) else none
  | .fin r, .h _ n _ => if r ≤ hrank n ∧ 4 ≤ hrank n then some (.fin (hrank n)) else none
  | _, .h _ _ _ => none
  | p, e => if e.isTx then none else some p

def run2 : Ph2 → List Ev → Option Ph2
  | p, [] => some p
  | p, e :: r => match p.step e with
    | some q => run2 q r
    | none => none

theorem run2_append (p : Ph2) (a b : List Ev) :
    run2 p (a ++ b) = (run2 p a).bind (fun q => run2 q b) := by
  induction a generalizing p with
  | nil => simp [run2]
  | cons e r ih =>
    simp only [List.cons_append, run2]
    cases p.step e with
    | none => rfl
    | some q => exact ih q

/-- the log grew by events that all satisfy `P`. -/
def EX (P : Ev → Prop) (m m' : Mach) : Prop := ∃ ext, m'.log = m.log ++ ext ∧ ∀ e ∈ ext, P e

theorem EX.refl (P : Ev → Prop) (m : Mach) : EX P m m := ⟨[], by simp, by simp⟩
theorem EX.of_log {P : Ev → Prop} {m m' : Mach} (h : m'.log = m.log) : EX P m m' := ⟨[], by simp [h], by simp⟩
theorem EX.trans {P : Ev → Prop} {a b c : Mach} (h1 : EX P a b) (h2 : EX P b c) : EX P a c := by
  obtain ⟨e1, l1, n1⟩ := h1
  obtain ⟨e2, l2, n2⟩ := h2
  refine ⟨e1 ++ e2, by rw [l2, l1, List.append_assoc], ?_⟩
  intro e he
  rcases List.mem_append.1 he with h | h
  · exact n1 e h
  · exact n2 e h
theorem EX.mono {P Q : Ev → Prop} (hpq : ∀ e, P e → Q e) {m m' : Mach} (h : EX P m m') : EX Q m m' := by
  obtain ⟨ext, hl, hn⟩ := h
  exact ⟨ext, hl, fun e he => hpq e (hn e he)⟩
theorem ex_emit {P : Ev → Prop} (m : Mach) (e : Ev) (h : P e) : EX P m (m.emit e) :=
  ⟨[e], rfl, by intro x hx; simp at hx; subst hx; exact h⟩

/-- neither a life-cycle callback nor a handler call. -/
def Ev.isPlain : Ev → Bool
  | .mq _ => true
  | .qEnd => true
  | .errInternal => true
  | .nested _ _ _ => true
  | .subbed _ _ => true
  | _ => false

section
variable {P : Ev → Prop} (hp : ∀ e, e.isPlain = true → P e)
include hp

theorem ex_queueMutation (m : Mach) (r : MutReq) : EX P m (queueMutation m r).1 := by
  unfold queueMutation
  simp only
  split
  · exact EX.refl P m
  · exact (EX.of_log (m' := { m with queue := _, pending := _ }) rfl).trans (ex_emit _ _ (hp _ rfl))

theorem ex_prepend (m : Mach) (mu : Mut) : EX P m (prepend m mu) :=
  (EX.of_log (m' := { m with queue := mu :: m.queue }) rfl).trans (ex_emit _ _ (hp _ rfl))

theorem ex_issueNested (m : Mach) (r : MutReq) : EX P m (issueNested m r).1 := by
  unfold issueNested
  split
  · exact EX.refl P m
  · split
    · exact EX.refl P m
    · have h := ex_queueMutation hp m r
      split <;> (rename_i heq; rw [heq] at h; exact h)

theorem ex_issueLogged (m : Mach) (r : MutReq) : EX P m (issueLogged m r) :=
  (ex_issueNested hp m r).trans (ex_emit _ _ (hp _ rfl))

theorem ex_foldl_issue (l : List MutReq) : ∀ m : Mach, EX P m (l.foldl (fun mm r => issueLogged mm r) m) := by
  induction l with
  | nil => intro m; exact EX.refl P m
  | cons a t ih => intro m; exact (ex_issueLogged hp m a).trans (ih _)

theorem ex_doSub (m : Mach) (r : SubReq) : EX P m (doSub m r).1 := by
  unfold doSub
  split
  · split <;> exact EX.refl P m
  · split
    all_goals first
      | exact EX.of_log rfl
      | (split <;> first | exact EX.refl P m | exact EX.of_log rfl)

theorem ex_subLogged (m : Mach) (r : SubReq) : EX P m (subLogged m r) :=
  (ex_doSub hp m r).trans (ex_emit _ _ (hp _ rfl))

theorem ex_foldl_sub (l : List SubReq) : ∀ m : Mach, EX P m (l.foldl (fun mm r => subLogged mm r) m) := by
  induction l with
  | nil => intro m; exact EX.refl P m
  | cons a t ih => intro m; exact (ex_subLogged hp m a).trans (ih _)

theorem ex_recoverToErr (m : Mach) (t : Tx) : EX P m (recoverToErr m t).1 := by
  unfold recoverToErr
  split
  · exact EX.refl P m
  · split
    · exact (EX.of_log (m' := recoverFinalPhase m t) rfl).trans (ex_prepend hp _ _)
    · exact ex_prepend hp _ _

theorem ex_autoStage (m : Mach) (t : Tx) (c : Bool) : EX P m (autoStage m t c) := by
  unfold autoStage
  split
  · split
    · exact ex_prepend hp _ _
    · exact EX.refl P m
  · exact EX.refl P m

variable (name : HName) (hh : ∀ b a, P (.h b name a))
include hh

theorem ex_handlerBody (m : Mach) (b : Nat) (beh : Behaviour) : EX P m (handlerBody m b name beh) :=
  (((EX.of_log (m' := bumpCount m (b, name)) rfl).trans (ex_emit _ _ (hh b m.active))).trans
    (ex_foldl_issue hp _ _)).trans (ex_foldl_sub hp _ _)

theorem ex_processHandlers (orc : Oracle) :
    ∀ (live : List Nat) (m : Mach) (t : Tx) (pk : Bool), EX P m (processHandlers orc name live m t pk).1 := by
  intro live
  induction live with
  | nil => intro m t pk; exact EX.of_log rfl
  | cons b rest ih =>
    intro m t pk
    simp only [processHandlers]
    split
    · exact ih _ _ _
    · rename_i beh _
      split
      · split
        · exact ih _ _ _
        · exact EX.refl P m
      · have g1 := ex_handlerBody hp name hh m b beh
        split
        · split
          · exact g1.trans (ih _ _ _)
          · exact g1
        · exact (g1.trans (EX.of_log (m' := markDetached _ _) rfl)).trans (ih _ _ _)
        · exact g1.trans (ex_emit _ _ (hp _ rfl))
        · split
          · exact (g1.trans (ex_recoverToErr hp _ _)).trans (ih _ _ _)
          · exact g1.trans (ex_recoverToErr hp _ _)

theorem ex_handle (orc : Oracle) (m : Mach) (t : Tx) (to : ToState) (isFinal isEnter : Bool) :
    EX P m (handle orc m t name to isFinal isEnter).1 := by
  simp only [handle]
  exact ex_processHandlers hp name hh orc m.live m _ false

end

/-- plain events, and handler calls of rank `k` only. -/
def RankIs (k : Nat) (e : Ev) : Prop := e.isPlain = true ∨ ∃ b n a, e = .h b n a ∧ hrank n = k

theorem rankIs_plain (k : Nat) : ∀ e, e.isPlain = true → RankIs k e := fun _ h => Or.inl h

theorem ex_handle_rank (orc : Oracle) (m : Mach) (t : Tx) (name : HName) (to : ToState) (isFinal isEnter : Bool) :
    EX (RankIs (hrank name)) m (handle orc m t name to isFinal isEnter).1 :=
  ex_handle (rankIs_plain _) name (fun b a => Or.inr ⟨b, name, a, rfl, rfl⟩) orc m t to isFinal isEnter

/-! ### the loops, by rank -/

theorem ex_emitExits (orc : Oracle) : ∀ (l : S) (m : Mach) (t : Tx), EX (RankIs 0) m (emitExits orc l m t).1 := by
  intro l
  induction l with
  | nil => intro m t; exact EX.refl _ m
  | cons s rest ih =>
    intro m t
    simp only [emitExits]
    have k1 : EX (RankIs 0) m (handle orc m t (.exit s) .none false false).1 := ex_handle_rank orc m t (.exit s) _ _ _
    split
    · exact k1.trans (ih _ _)
    · split
      · split
        · exact k1.trans (ih _ _)
        · exact k1
      · exact k1

theorem ex_emitEnters (orc : Oracle) : ∀ (l : S) (m : Mach) (t : Tx), EX (RankIs 1) m (emitEnters orc l m t).1 := by
  intro l
  induction l with
  | nil => intro m t; exact EX.refl _ m
  | cons s rest ih =>
    intro m t
    simp only [emitEnters]
    have k1 : EX (RankIs 1) m (handle orc m t (.enter s) (.st s) false true).1 := ex_handle_rank orc m t (.enter s) _ _ _
    split
    · exact k1.trans (ih _ _)
    · split
      · split
        · exact k1.trans (ih _ _)
        · exact k1.trans (EX.of_log rfl)
      · exact k1

theorem ex_emitSelfs (orc : Oracle) : ∀ (fuel i : Nat) (arr : List (Option Nat)) (m : Mach) (t : Tx),
    EX (RankIs 2) m (emitSelfs orc fuel i arr m t).1 := by
  intro fuel
  induction fuel with
  | zero => intro i arr m t; exact EX.refl _ m
  | succ n ih =>
    intro i arr m t
    simp only [emitSelfs]
    split
    · exact EX.refl _ m
    · split
      · exact ih _ _ _ _
      · rename_i s _
        split
        · exact ih _ _ _ _
        · have k1 : EX (RankIs 2) m (handle orc m t (.trans s s) (.st s) false false).1 :=
            ex_handle_rank orc m t (.trans s s) _ _ _
          split
          · exact k1.trans (ih _ _ _ _)
          · split
            · split
              · exact k1.trans (EX.of_log rfl)
              · exact k1.trans (ih _ _ _ _)
            · exact k1

theorem ex_emitSSInner (orc : Oracle) (b : Nat) : ∀ (l : S) (m : Mach) (t : Tx),
    EX (RankIs 2) m (emitSSInner orc b l m t).1 := by
  intro l
  induction l with
  | nil => intro m t; exact EX.refl _ m
  | cons a rest ih =>
    intro m t
    simp only [emitSSInner]
    split
    · exact ih m t
    · have k1 : EX (RankIs 2) m (handle orc m t (.trans b a) .none false false).1 :=
        ex_handle_rank orc m t (.trans b a) _ _ _
      split
      · exact k1.trans (ih _ _)
      · split
        · exact k1.trans (ih _ _)
        · exact k1

theorem ex_emitSS (orc : Oracle) (after : S) : ∀ (l : S) (m : Mach) (t : Tx),
    EX (RankIs 2) m (emitSS orc after l m t).1 := by
  intro l
  induction l with
  | nil => intro m t; exact EX.refl _ m
  | cons b rest ih =>
    intro m t
    simp only [emitSS]
    have k := ex_emitSSInner orc b after m t
    split
    · exact k.trans (ih _ _)
    · exact k

theorem ex_emitFinals (orc : Oracle) (enters : S) : ∀ (l : S) (m : Mach) (t : Tx),
    EX (RankIs 4) m (emitFinals orc enters l m t).1 := by
  intro l
  induction l with
  | nil => intro m t; exact EX.refl _ m
  | cons s rest ih =>
    intro m t
    simp only [emitFinals]
    split
    · have k : EX (RankIs 4) m (handle orc m t (.state s) (.st s) true true).1 := ex_handle_rank orc m t (.state s) _ _ _
      split
      · exact k.trans (ih _ _)
      · exact k
    · have k : EX (RankIs 4) m (handle orc m t (.end_ s) .none true false).1 := ex_handle_rank orc m t (.end_ s) _ _ _
      split
      · exact k.trans (ih _ _)
      · exact k

theorem ex_negStep {P : Ev → Prop} (f : Mach → Tx → Mach × Tx × Bool) (hf : ∀ m t, EX P m (f m t).1)
    (p : Mach × Tx × Bool) : EX P p.1 (negStep f p).1 := by
  unfold negStep
  split
  · exact EX.refl _ _
  · split
    · exact hf _ _
    · exact EX.refl _ _

theorem ex_stageSelfs (orc : Oracle) (m : Mach) (t : Tx) : EX (RankIs 2) m (stageSelfs orc m t).1 := by
  unfold stageSelfs
  split
  · exact ex_emitSelfs orc _ _ _ _ _
  · exact EX.refl _ m

theorem ex_stageAnyEnter (orc : Oracle) (m : Mach) (t : Tx) : EX (RankIs 3) m (stageAnyEnter orc m t).1 := by
  unfold stageAnyEnter
  split
  · exact EX.refl _ m
  · exact ex_handle_rank orc m t .anyEnter _ _ _

/-! ### what the acceptor does with such extensions -/

theorem step_plain (p : Ph2) (e : Ev) (h : e.isPlain = true) : p.step e = some p := by
  cases p <;> cases e <;> simp_all [Ph2.step, Ev.isPlain, Ev.isTx]

theorem run2_plain (p : Ph2) (ext : List Ev) (h : ∀ e ∈ ext, e.isPlain = true) : run2 p ext = some p := by
  induction ext with
  | nil => rfl
  | cons e r ih =>
    simp only [run2, step_plain p e (h e (by simp))]
    exact ih (fun x hx => h x (List.mem_cons_of_mem _ hx))

/-- negotiation: handler calls of rank `k ≤ 3` move the acceptor from rank `r ≤ k` to at most `k`. -/
theorem run2_neg (k : Nat) (hk : k ≤ 3) (ext : List Ev) (h : ∀ e ∈ ext, RankIs k e) :
    ∀ r, r ≤ k → ∃ r', run2 (.neg r) ext = some (.neg r') ∧ r ≤ r' ∧ r' ≤ k := by
  induction ext with
  | nil => intro r hr; exact ⟨r, rfl, Nat.le_refl _, hr⟩
  | cons e rest ih =>
    intro r hr
    have ih' := ih (fun x hx => h x (List.mem_cons_of_mem _ hx))
    rcases h e (by simp) with hp | ⟨b, n, a, rfl, hn⟩
    · simp only [run2, step_plain _ e hp]
      exact ih' r hr
    · have hs : (Ph2.neg r).step (.h b n a) = some (.neg k) := by
        simp only [Ph2.step, hn]
        rw [if_pos ⟨hr, hk⟩]
      simp only [run2, hs]
      obtain ⟨r', h1, h2, h3⟩ := ih' k (Nat.le_refl _)
      exact ⟨r', h1, Nat.le_trans hr h2, h3⟩

/-- final phase: the same for ranks 4 and 5. -/
theorem run2_fin (k : Nat) (hk : 4 ≤ k) (ext : List Ev) (h : ∀ e ∈ ext, RankIs k e) :
    ∀ r, r ≤ k → ∃ r', run2 (.fin r) ext = some (.fin r') ∧ r ≤ r' ∧ r' ≤ k := by
  induction ext with
  | nil => intro r hr; exact ⟨r, rfl, Nat.le_refl _, hr⟩
  | cons e rest ih =>
    intro r hr
    have ih' := ih (fun x hx => h x (List.mem_cons_of_mem _ hx))
    rcases h e (by simp) with hp | ⟨b, n, a, rfl, hn⟩
    · simp only [run2, step_plain _ e hp]
      exact ih' r hr
    · have hs : (Ph2.fin r).step (.h b n a) = some (.fin k) := by
        simp only [Ph2.step, hn]
        rw [if_pos ⟨hr, hk⟩]
      simp only [run2, hs]
      obtain ⟨r', h1, h2, h3⟩ := ih' k (Nat.le_refl _)
      exact ⟨r', h1, Nat.le_trans hr h2, h3⟩

/-- a stretch of the negotiation phase: from any rank `≤ lo` to some rank `≤ hi`. -/
def Seg (lo hi : Nat) (m m' : Mach) : Prop :=
  ∃ ext, m'.log = m.log ++ ext ∧ ∀ r, r ≤ lo → ∃ r', run2 (.neg r) ext = some (.neg r') ∧ r' ≤ hi

theorem Seg.refl (lo hi : Nat) (h : lo ≤ hi) (m : Mach) : Seg lo hi m m :=
  ⟨[], by simp, fun r hr => ⟨r, rfl, Nat.le_trans hr h⟩⟩

theorem Seg.of_ex {k : Nat} (hk : k ≤ 3) {m m' : Mach} (h : EX (RankIs k) m m') : Seg k k m m' := by
  obtain ⟨ext, hl, hn⟩ := h
  refine ⟨ext, hl, fun r hr => ?_⟩
  obtain ⟨r', h1, _, h3⟩ := run2_neg k hk ext hn r hr
  exact ⟨r', h1, h3⟩

theorem Seg.trans {a b c d : Nat} (hbc : b ≤ c) {x y z : Mach} (h1 : Seg a b x y) (h2 : Seg c d y z) :
    Seg a d x z := by
  obtain ⟨e1, l1, r1⟩ := h1
  obtain ⟨e2, l2, r2⟩ := h2
  refine ⟨e1 ++ e2, by rw [l2, l1, List.append_assoc], fun r hr => ?_⟩
  obtain ⟨r', h1, h2⟩ := r1 r hr
  obtain ⟨r'', h3, h4⟩ := r2 r' (Nat.le_trans h2 hbc)
  exact ⟨r'', by rw [run2_append, h1]; exact h3, h4⟩

theorem seg_negStep {lo hi : Nat} (hlh : lo ≤ hi) (f : Mach → Tx → Mach × Tx × Bool)
    (hf : ∀ m t, Seg lo hi m (f m t).1) (p : Mach × Tx × Bool) : Seg lo hi p.1 (negStep f p).1 := by
  unfold negStep
  split
  · exact Seg.refl lo hi hlh _
  · split
    · exact hf _ _
    · exact Seg.refl lo hi hlh _

/-- the whole negotiation phase: Exit, Enter, self / state-state, AnyEnter, in that order. -/
theorem seg_negotiate (orc : Oracle) (m : Mach) (t : Tx) (r : Bool) : Seg 0 3 m (negotiate orc m t r).1 := by
  unfold negotiate
  split
  · exact Seg.refl 0 3 (by decide) m
  · have h1 := seg_negStep (Nat.le_refl 0) (fun m t => emitExits orc t.exits m t)
      (fun m t => Seg.of_ex (by decide) (ex_emitExits orc _ m t)) (m, t, r)
    have h2 := seg_negStep (Nat.le_refl 1) (fun m t => emitEnters orc t.enters m t)
      (fun m t => Seg.of_ex (by decide) (ex_emitEnters orc _ m t))
      (negStep (fun m t => emitExits orc t.exits m t) (m, t, r))
    have h3 := seg_negStep (Nat.le_refl 2) (stageSelfs orc)
      (fun m t => Seg.of_ex (by decide) (ex_stageSelfs orc m t))
      (negStep (fun m t => emitEnters orc t.enters m t) (negStep (fun m t => emitExits orc t.exits m t) (m, t, r)))
    have h4 := seg_negStep (Nat.le_refl 2) (fun m t => emitSS orc t.target t.before m t)
      (fun m t => Seg.of_ex (by decide) (ex_emitSS orc _ _ m t))
      (negStep (stageSelfs orc) (negStep (fun m t => emitEnters orc t.enters m t)
        (negStep (fun m t => emitExits orc t.exits m t) (m, t, r))))
    have h5 := seg_negStep (Nat.le_refl 3) (stageAnyEnter orc)
      (fun m t => Seg.of_ex (by decide) (ex_stageAnyEnter orc m t))
      (negStep (fun m t => emitSS orc t.target t.before m t) (negStep (stageSelfs orc)
        (negStep (fun m t => emitEnters orc t.enters m t) (negStep (fun m t => emitExits orc t.exits m t) (m, t, r)))))
    exact Seg.trans (by decide) (Seg.trans (by decide) (Seg.trans (by decide) (Seg.trans (by decide) h1 h2) h3) h4) h5

/-- the log grew by a word that takes the acceptor from `p` to `q`. -/
def LX2 (p q : Ph2) (m m' : Mach) : Prop := ∃ ext, m'.log = m.log ++ ext ∧ run2 p ext = some q

theorem LX2.trans {p q r : Ph2} {a b c : Mach} (h1 : LX2 p q a b) (h2 : LX2 q r b c) : LX2 p r a c := by
  obtain ⟨e1, l1, r1⟩ := h1
  obtain ⟨e2, l2, r2⟩ := h2
  refine ⟨e1 ++ e2, by rw [l2, l1, List.append_assoc], ?_⟩
  rw [run2_append, r1]; exact r2

theorem lx2_emit {p q : Ph2} (m : Mach) (e : Ev) (h : p.step e = some q) : LX2 p q m (m.emit e) :=
  ⟨[e], rfl, by simp [run2, h]⟩

theorem lx2_of_log (p : Ph2) {m m' : Mach} (h : m'.log = m.log) : LX2 p p m m' := ⟨[], by simp [h], rfl⟩

theorem lx2_plain (p : Ph2) {m m' : Mach} (h : EX (fun e => e.isPlain = true) m m') : LX2 p p m m' := by
  obtain ⟨ext, hl, hn⟩ := h
  exact ⟨ext, hl, run2_plain p ext hn⟩

theorem lx2_finish_neg (r : Nat) (m : Mach) (t : Tx) (b : Bool) : LX2 (.neg r) .idle m (finish m t b).1 := by
  unfold finish
  simp only
  split
  · exact lx2_emit _ _ rfl
  · split <;> exact lx2_emit _ _ rfl

theorem lx2_finish_fin (r : Nat) (m : Mach) (t : Tx) (b : Bool) : LX2 (.fin r) .idle m (finish m t b).1 := by
  unfold finish
  simp only
  split
  · exact lx2_emit _ _ rfl
  · split <;> exact lx2_emit _ _ rfl

/-- after the final handlers: AnyState (rank 5), the auto mutation, `TransitionEnd`. -/
theorem lx2_afterFinals (orc : Oracle) (m4 : Mach) (t4 : Tx) (r4 : Bool) (r : Nat) (hr : r ≤ 5) :
    LX2 (.fin r) .idle m4 (afterFinals orc m4 t4 r4).1 := by
  simp only [afterFinals]
  have g5 : LX2 (.fin r) (.fin r) m4 (if (!r4) = true then recoverFinalPhase m4 t4 else m4) := by
    split
    · exact lx2_of_log _ rfl
    · exact lx2_of_log _ rfl
  generalize (if (!r4) = true then recoverFinalPhase m4 t4 else m4) = m5 at g5 ⊢
  have g6 : ∃ r', LX2 (.fin r) (.fin r') m5 (if (r4 && m5.hasHandlers) = true then
      handle orc m5 t4 .anyState .any true true else (m5, t4, r4)).1 := by
    split
    · obtain ⟨ext, hl, hn⟩ := ex_handle_rank orc m5 t4 .anyState .any true true
      obtain ⟨r', h1, _, _⟩ := run2_fin 5 (by decide) ext hn r hr
      exact ⟨r', ext, hl, h1⟩
    · exact ⟨r, lx2_of_log _ rfl⟩
  obtain ⟨r', g6⟩ := g6
  generalize (if (r4 && m5.hasHandlers) = true then
      handle orc m5 t4 .anyState .any true true else (m5, t4, r4)) = p6 at g6 ⊢
  split
  · exact (g5.trans g6).trans (lx2_finish_fin r' _ _ _)
  · exact ((g5.trans g6).trans (lx2_plain (.fin r') (ex_autoStage (fun _ h => h) _ _ _))).trans
      (lx2_finish_fin r' _ _ _)

theorem lx2_applyPhase (orc : Oracle) (m1 : Mach) (t2 : Tx) (r : Nat) :
    LX2 (.neg r) .idle m1 (applyPhase orc m1 t2).1 := by
  simp only [applyPhase]
  have h1 : LX2 (.neg r) (.fin 4) m1 (applyTarget m1 t2).1 := by
    unfold applyTarget
    simp only
    exact (lx2_of_log (.neg r) (m' := { applyActive m1 t2.mu.called t2.target with subs := _ }) rfl).trans
      (lx2_emit _ _ rfl)
  have h2 : ∃ r', r' ≤ 4 ∧ LX2 (.fin 4) (.fin r') (applyTarget m1 t2).1
      (runFinals orc (applyTarget m1 t2).1 (applyTarget m1 t2).2).1 := by
    unfold runFinals
    split
    · obtain ⟨ext, hl, hn⟩ := ex_emitFinals orc (applyTarget m1 t2).2.enters
        ((applyTarget m1 t2).2.exits ++ (applyTarget m1 t2).2.enters) (applyTarget m1 t2).1 (applyTarget m1 t2).2
      obtain ⟨r', h1, _, h3⟩ := run2_fin 4 (by decide) ext hn 4 (Nat.le_refl _)
      exact ⟨r', h3, ext, hl, h1⟩
    · exact ⟨4, Nat.le_refl _, lx2_of_log _ rfl⟩
  obtain ⟨r', hr', h2⟩ := h2
  exact (h1.trans h2).trans (lx2_afterFinals orc _ _ _ r' (by omega))

/-- one transition's events, from `TransitionStart` on. -/
theorem lx2_emitEvents (orc : Oracle) (m0 : Mach) (t0 : Tx) :
    (emitEvents orc m0 t0).1.crashed = true ∨ LX2 .inited .idle m0 (emitEvents orc m0 t0).1 := by
  simp only [emitEvents]
  have q0 : ∃ r, LX2 .inited (.neg r) m0 (negotiate orc (m0.emit (.tStart t0.accepted)) t0 t0.accepted).1 := by
    obtain ⟨ext, hl, hr⟩ := seg_negotiate orc (m0.emit (.tStart t0.accepted)) t0 t0.accepted
    obtain ⟨r', h1, _⟩ := hr 0 (Nat.le_refl _)
    exact ⟨r', (lx2_emit m0 _ rfl).trans ⟨ext, hl, h1⟩⟩
  obtain ⟨r, q0⟩ := q0
  generalize negotiate orc (m0.emit (.tStart t0.accepted)) t0 t0.accepted = p at q0 ⊢
  split
  · rename_i hc; exact Or.inl hc
  · split
    · exact Or.inr (q0.trans (lx2_finish_neg r _ _ _))
    · split
      · exact Or.inr (q0.trans (lx2_applyPhase orc _ _ r))
      · exact Or.inr (q0.trans (lx2_finish_neg r _ _ _))

/-! ### the queue, the operations, the histories -/

def Ordered (m : Mach) : Prop := m.crashed = true ∨ run2 .idle m.log = some .idle

theorem ordered_of_lx2 {m m' : Mach} (h : run2 .idle m.log = some .idle) (x : LX2 .idle .idle m m') :
    run2 .idle m'.log = some .idle := by
  obtain ⟨ext, hl, hr⟩ := x
  rw [hl, run2_append, h]; exact hr

theorem plainP : ∀ e : Ev, e.isPlain = true → (fun e : Ev => e.isPlain = true) e := fun _ h => h

theorem ordered_runOne (orc : Oracle) (m : Mach) (mu : Mut) (rest : List Mut)
    (h : run2 .idle m.log = some .idle) : Ordered (runOne orc m mu rest).1 := by
  simp only [runOne]
  have h1 : LX2 .idle .inited m (newTx (shiftQueue m mu rest) mu).1 := by
    have hs : LX2 .idle .idle m (shiftQueue m mu rest) := by
      unfold shiftQueue; simp only; split <;> exact lx2_of_log _ rfl
    have hn : LX2 .idle .inited (shiftQueue m mu rest) (newTx (shiftQueue m mu rest) mu).1 := by
      unfold newTx
      simp only
      exact (lx2_of_log .idle (m' := { shiftQueue m mu rest with inTx := true }) rfl).trans (lx2_emit _ _ rfl)
    exact hs.trans hn
  have h2 := lx2_emitEvents orc (newTx (shiftQueue m mu rest) mu).1 (newTx (shiftQueue m mu rest) mu).2
  generalize emitEvents orc (newTx (shiftQueue m mu rest) mu).1 (newTx (shiftQueue m mu rest) mu).2 = q at h2 ⊢
  rcases h2 with hc | hx
  · simp only [hc, Bool.true_or, if_true]
    exact Or.inl hc
  · have hq : run2 .idle q.1.log = some .idle := ordered_of_lx2 h (h1.trans hx)
    split
    · exact Or.inr hq
    · split
      · exact Or.inr (ordered_of_lx2 hq (lx2_of_log .idle (m' := processSubscriptions q.1 q.2.1) rfl))
      · exact Or.inr (ordered_of_lx2 hq (lx2_of_log .idle (m' := { q.1 with subs := _ }) rfl))

theorem ordered_drain (orc : Oracle) : ∀ (fuel : Nat) (m : Mach) (rets : List Res),
    run2 .idle m.log = some .idle → Ordered (drain orc fuel m rets).1 := by
  intro fuel
  induction fuel with
  | zero => intro m rets h; exact Or.inr h
  | succ n ih =>
    intro m rets h
    simp only [drain]
    split
    · exact Or.inr h
    · rename_i mu rest hq
      have h1 := ordered_runOne orc m mu rest h
      split
      · rename_i hc; exact Or.inl hc
      · rename_i hc
        rcases h1 with hcr | hok
        · exact absurd hcr hc
        · exact ih _ _ hok

theorem ordered_processQueue (orc : Oracle) (fuel : Nat) (m : Mach) (h : run2 .idle m.log = some .idle) :
    Ordered (processQueue orc fuel m).1 := by
  unfold processQueue
  split
  · exact Or.inr h
  · have h1 := ordered_drain orc fuel m [] h
    generalize drain orc fuel m [] = d at h1 ⊢
    obtain ⟨m1, rets⟩ := d
    simp only
    split
    · rename_i hc; exact Or.inl hc
    · rename_i hc
      rcases h1 with hcr | hok
      · exact absurd hcr hc
      · exact Or.inr (ordered_of_lx2 hok ((lx2_of_log .idle (m' := { m1 with inTx := false, subs := _ }) rfl).trans
          (lx2_emit _ _ rfl)))

theorem ordered_mutate (orc : Oracle) (fuel : Nat) (m : Mach) (r : MutReq) (h : Ordered m) :
    Ordered (mutate orc fuel m r).1 := by
  unfold mutate
  split
  · exact h
  · rename_i hcd
    have hnc : m.crashed = false := by
      cases hc : m.crashed <;> simp_all
    have hl : run2 .idle m.log = some .idle := by
      rcases h with h | h
      · rw [hnc] at h; cases h
      · exact h
    split
    · exact Or.inr hl
    · split
      · exact Or.inr hl
      · have h1 : run2 .idle (queueMutation m r).1.log = some .idle :=
          ordered_of_lx2 hl (lx2_plain .idle (ex_queueMutation plainP m r))
        split
        · rename_i m1 heq
          rw [heq] at h1; exact Or.inr h1
        · rename_i m1 tick heq
          rw [heq] at h1
          have h2 := ordered_processQueue orc fuel m1 h1
          generalize processQueue orc fuel m1 = pq at h2 ⊢
          obtain ⟨m2, res⟩ := pq
          simp only
          split <;> exact h2

theorem ordered_check (orc : Oracle) (fuel : Nat) (m : Mach) (k : MutKind) (st : S) (h : Ordered m) :
    Ordered (check orc fuel m k st).1 := by
  unfold check
  split
  · exact h
  · rename_i hcd
    have hnc : m.crashed = false := by
      cases hc : m.crashed <;> simp_all
    have hl : run2 .idle m.log = some .idle := by
      rcases h with h | h
      · rw [hnc] at h; cases h
      · exact h
    split
    · exact Or.inr hl
    · exact ordered_processQueue orc fuel _ (ordered_of_lx2 hl (lx2_plain .idle (ex_prepend plainP m _)))

theorem ordered_applyOp (orc : Oracle) (fuel : Nat) (m : Mach) (op : Op) (h : Ordered m) :
    Ordered (applyOp orc fuel m op) := by
  cases op with
  | mutate r => exact ordered_mutate orc fuel m r h
  | check k st => exact ordered_check orc fuel m k st h
  | toggle st =>
    show Ordered (toggle orc fuel m st).1
    unfold toggle
    split <;> exact ordered_mutate orc fuel m _ h
  | addErr =>
    show Ordered (addErr orc fuel m).1
    unfold addErr
    split
    · exact h
    · exact ordered_mutate orc fuel m _ h
  | setBackoff b => exact h
  | setLimit n => exact h
  | bind k => exact h

/-- **C05 (the documented sequence — all histories)**: for every schema, every handler oracle and
    every finite history of operations, every handler call lies inside a transition; negotiation
    handlers (Exit, Enter, self / state-state, AnyEnter) run between `TransitionStart` and
    `TransitionFinals`, final handlers (End / State, AnyState) after it; and within a transition
    the calls never step back in the order Exit < Enter < self / state-state < AnyEnter <
    End / State < AnyState — unless the caller goroutine crashed. -/
theorem C05_handler_sequence_all_histories (sch : Schema) (alpha : S) (orc : Oracle) (fuel : Nat)
    (ops : List Op) : Ordered (runOps orc fuel (Mach.init sch alpha) ops) := by
  have key : ∀ (ops : List Op) (m : Mach), Ordered m → Ordered (runOps orc fuel m ops) := by
    intro ops
    induction ops with
    | nil => intro m h; exact h
    | cons op rest ih => intro m h; exact ih _ (ordered_applyOp orc fuel m op h)
  exact key ops _ (Or.inr (by simp [Mach.init, run2]))

/-- non-vacuity: a full transition is accepted ... -/
example : run2 .idle [.tInit default [] [] [] [] true, .tStart true, .h 0 (.exit 2) [], .h 0 (.enter 1) [],
    .h 1 (.enter 1) [], .h 0 (.trans 1 1) [], .h 0 .anyEnter [], .tFinals [] [], .h 0 (.end_ 2) [],
    .h 0 (.state 1) [], .h 0 .anyState [], .tEnd [] [] true [] 0] = some .idle := by decide

/-- ... an Enter handler after a self handler, a final handler before `TransitionFinals` and a
    handler call outside a transition are not. -/
example : run2 .idle [.tInit default [] [] [] [] true, .tStart true, .h 0 (.trans 1 1) [], .h 0 (.enter 1) []] = none ∧
    run2 .idle [.tInit default [] [] [] [] true, .tStart true, .h 0 (.state 1) []] = none ∧
    run2 .idle [.h 0 (.enter 1) []] = none := by decide

end Am
