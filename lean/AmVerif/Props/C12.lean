/-
  C12 — the machine API is safe for concurrent use: no data races.
  (1) the lock discipline theorem over traces; (2) the regenerated lock table
  satisfies the hand-written guard expectations.
-/
import AmVerif.Model.Lockset
import AmVerif.Generated.Locks
import AmVerif.Props.C12Expect
namespace Am.Lockset

/-! ### mutual exclusion of reader-writer locks over every trace -/

/-- two holdings are compatible: on the same lock both are readers. -/
def Compat (a b : Nat × Nat × Bool) : Prop := a.2.1 = b.2.1 → (a.2.2 = false ∧ b.2.2 = false)

def ExclP (h : Held) : Prop := h.Pairwise Compat

theorem compat_symm {a b : Nat × Nat × Bool} (h : Compat a b) : Compat b a := by
  intro e; have := h e.symm; exact ⟨this.2, this.1⟩

theorem pairwise_forall_ne {l : Held} (hx : l.Pairwise Compat) :
    ∀ a ∈ l, ∀ b ∈ l, a ≠ b → Compat a b := by
  induction l with
  | nil => intro a ha; cases ha
  | cons x xs ih =>
    have hp := List.pairwise_cons.mp hx
    intro a ha b hb hab
    rcases List.mem_cons.mp ha with rfl | ha'
    · rcases List.mem_cons.mp hb with rfl | hb'
      · exact absurd rfl hab
      · exact hp.1 b hb'
    · rcases List.mem_cons.mp hb with rfl | hb'
      · exact compat_symm (hp.1 a ha')
      · exact ih hp.2 a ha' b hb' hab

theorem exclP_step (h : Held) (e : Ev) (h' : Held) (hx : ExclP h) (hs : stepL h e = some h') :
    ExclP h' := by
  unfold stepL at hs
  cases ha : e.act with
  | acq l w =>
    simp only [ha] at hs
    split at hs
    · rename_i hc
      cases hs
      refine List.pairwise_cons.mpr ⟨?_, hx⟩
      intro b hb e1
      unfold canAcq at hc
      cases w with
      | true =>
        simp only [if_true, List.all_eq_true, bne_iff_ne, ne_eq] at hc
        exact absurd e1.symm (hc b hb)
      | false =>
        simp only [Bool.false_eq_true, if_false, List.all_eq_true, Bool.not_eq_true',
          Bool.and_eq_false_iff, beq_eq_false_iff_ne, ne_eq] at hc
        refine ⟨rfl, ?_⟩
        rcases hc b hb with hne | hw
        · exact absurd e1.symm hne
        · exact hw
    · cases hs
  | rel l =>
    simp only [ha] at hs
    split at hs
    · cases hs
      exact hx.sublist (List.eraseP_sublist)
    · cases hs
  | access x w =>
    simp only [ha] at hs
    cases hs; exact hx

theorem exclP_run (es : List Ev) : ∀ (h h' : Held), ExclP h → runL h es = some h' → ExclP h' := by
  induction es with
  | nil => intro h h' hx hr; simp only [runL] at hr; cases hr; exact hx
  | cons e r ih =>
    intro h h' hx hr
    simp only [runL] at hr
    cases hs : stepL h e with
    | none => simp [hs] at hr
    | some h1 =>
      simp only [hs] at hr
      exact ih h1 h' (exclP_step h e h1 hx hs) hr

/-- **C12 (lock discipline ⇒ no two conflicting accesses are ever co-enabled)**:
    along every trace that respects the semantics of `sync.RWMutex`, for every
    lock `l` and any two different threads, if one holds `l` in write mode the
    other holds `l` in no mode. Hence if every write to a field is made holding
    its guard in write mode and every read holding it in some mode (what the table
    check below establishes for the guarded fields), a write is never concurrent
    with another access of that field. -/
theorem C12_writer_excludes_all (es : List Ev) (h : Held) (hr : runL [] es = some h)
    (t1 t2 l : Nat) (w2 : Bool) (hne : t1 ≠ t2)
    (h1 : (t1, l, true) ∈ h) (h2 : (t2, l, w2) ∈ h) : False := by
  have hx : ExclP h := exclP_run es [] h List.Pairwise.nil hr
  have hd : (t1, l, true) ≠ (t2, l, w2) := by
    intro e; exact hne (congrArg Prod.fst e)
  have := pairwise_forall_ne hx _ h1 _ h2 hd rfl
  exact absurd this.1 (by simp)

end Am.Lockset

namespace Am.C12
open Am.Lockset

/-- **C12 (the regenerated lock table obeys the guard expectations)**: every
    access to a guarded field of `Machine` / `Subscriptions` found in /repo's
    current source holds the field's lock in the required mode, or is a
    constructor, or is one of the listed, justified exceptions; atomics and
    channels are synchronised by type; no field is without a decision. -/
theorem C12_lock_table_ok :
    Am.Gen.lockRows.all (rowOK guards ctors exceptions) = true := by decide +kernel

/-- no stale expectations: every listed exception still exists in the table. -/
theorem C12_exceptions_live :
    exceptions.all (fun e => Am.Gen.lockRows.any (fun r => r.field == e.1 && r.func == e.2.1 && r.write == e.2.2)) = true := by
  decide +kernel

end Am.C12
