/-
  C12 — the hand-written half of the lock table: which lock guards which field,
  which functions are constructors, and every access the pinned code makes outside
  that discipline, with the reason it is accepted. The other half
  (Generated/Locks.lean) is regenerated from /repo on every run; C12.lean checks
  one against the other. A new unguarded access, a lock dropped or downgraded to
  read mode at an existing access, or a new field shows up as a failed obligation.
-/
import AmVerif.Model.Lockset
namespace Am.C12
open Am.Lockset

def guards : List (String × Guard) := [
  ("Machine.DisposeTimeout", .exempt),
  ("Machine.EvalTimeout", .exempt),
  ("Machine.HandlerBackoff", .exempt),
  ("Machine.HandlerDeadline", .exempt),
  ("Machine.HandlerTimeout", .exempt),
  ("Machine.LogStackTrace", .exempt),
  ("Machine.PanicToException", .exempt),
  ("Machine.QueueLimit", .exempt),
  ("Machine.activeStates", .lock "Machine.activeStatesMx"),
  ("Machine.breakpoints", .lock "Machine.breakpointsMx"),
  ("Machine.cancel", .initOnly),
  ("Machine.clock", .lock "Machine.activeStatesMx"),
  ("Machine.ctx", .initOnly),
  ("Machine.ctxParent", .initOnly),
  ("Machine.detectEval", .initOnly),
  ("Machine.disposeHandlers", .lock "Machine.handlersMx"),
  ("Machine.groups", .lock "Machine.schemaMx"),
  ("Machine.groupsOrder", .lock "Machine.schemaMx"),
  ("Machine.handlerTimer", .exempt),
  ("Machine.handlers", .lock "Machine.handlersMx"),
  ("Machine.id", .initOnly),
  ("Machine.logEntries", .lock "Machine.logEntriesLock"),
  ("Machine.machineTick", .lock "Machine.schemaMx"),
  ("Machine.nextHandlerNum", .lock "Machine.handlersMx"),
  ("Machine.parentId", .initOnly),
  ("Machine.poolGlobalLimit", .lock "Machine.poolMx"),
  ("Machine.poolLimits", .lock "Machine.poolMx"),
  ("Machine.pools", .lock "Machine.poolMx"),
  ("Machine.queue", .lock "Machine.queueMx"),
  ("Machine.queueTick", .lock "Machine.queueMx"),
  ("Machine.queueTicksPending", .lock "Machine.queueMx"),
  ("Machine.resolver", .initOnly),
  ("Machine.schema", .lock "Machine.schemaMx"),
  ("Machine.semLogger", .initOnly),
  ("Machine.stateNames", .lock "Machine.schemaMx"),
  ("Machine.subs", .initOnly),
  ("Machine.tDbg", .exempt),
  ("Machine.tracers", .lock "Machine.tracersMx"),
  ("Subscriptions.Closed", .initOnly),
  ("Subscriptions.clock", .lock "Subscriptions.Mx"),
  ("Subscriptions.is", .initOnly),
  ("Subscriptions.log", .initOnly),
  ("Subscriptions.mach", .initOnly),
  ("Subscriptions.not", .initOnly),
  ("Subscriptions.stateCtx", .lock "Subscriptions.Mx"),
  ("Subscriptions.when", .lock "Subscriptions.Mx"),
  ("Subscriptions.whenArgs", .lock "Subscriptions.Mx"),
  ("Subscriptions.whenArgsCtx", .lock "Subscriptions.Mx"),
  ("Subscriptions.whenCtx", .lock "Subscriptions.Mx"),
  ("Subscriptions.whenQuery", .lock "Subscriptions.Mx"),
  ("Subscriptions.whenQueryCtx", .lock "Subscriptions.Mx"),
  ("Subscriptions.whenQueue", .lock "Subscriptions.Mx"),
  ("Subscriptions.whenQueueEnds", .lock "Subscriptions.Mx"),
  ("Subscriptions.whenTime", .lock "Subscriptions.Mx"),
  ("Subscriptions.whenTimeCtx", .lock "Subscriptions.Mx")
]

/-- functions that run before the object is shared. `TestMockClock` is a test helper. -/
def ctors : List String := ["New", "NewCommon", "NewSubscriptions", "TestMockClock"]

/-- accesses outside the guard that the pinned code makes, each with its reason. -/
def exceptions : List (String × String × Bool) := [
  -- SetSchema hands the clock map itself (the reference, assigned once in New) to the subscriptions; no entry is read
  ("Machine.clock", "Machine.SetSchema", false),
  -- resolver code: called through the RelationsResolver interface from inside a transition (queue goroutine), or from New/SetSchema
  ("Machine.activeStates", "DefaultRelationsResolver.NewAutoMutation", false),
  -- documented: not safe on a machine that already produces transitions
  ("Machine.activeStates", "Machine.Import", true),
  -- Machine.is is also stored as the Subscriptions.is callback; its callers (Is, Any, When, ...) hold activeStatesMx
  ("Machine.activeStates", "Machine.is", false),
  -- runs inside a transition, on the goroutine that holds the queue flag (C04_one_at_a_time); every writer of the field is on that goroutine as well
  ("Machine.activeStates", "Transition.emitEvents", false),
  -- runs inside a transition, on the goroutine that holds the queue flag (C04_one_at_a_time); every writer of the field is on that goroutine as well
  ("Machine.activeStates", "Transition.setupExitEnter", false),
  -- runs inside a transition, on the goroutine that holds the queue flag (C04_one_at_a_time); every writer of the field is on that goroutine as well
  ("Machine.activeStates", "Transition.statesToSet", false),
  -- documented: not safe on a machine that already produces transitions
  ("Machine.clock", "Machine.Import", true),
  -- called with activeStatesMx held by Time/Clock/Export/...; the extractor sees the intersection with Export (schemaMx only)
  ("Machine.clock", "Machine.time", false),
  -- queue goroutine; queueTick is written by the same goroutine under queueMx
  ("Machine.queueTick", "Machine.processQueue", false),
  -- queue goroutine; queueTick is written by the same goroutine under queueMx
  ("Machine.queueTick", "Machine.processSubscriptions", false),
  -- resolver code: called through the RelationsResolver interface from inside a transition (queue goroutine), or from New/SetSchema
  ("Machine.schema", "DefaultRelationsResolver.InboundRelationsOf", false),
  -- resolver code: called through the RelationsResolver interface from inside a transition (queue goroutine), or from New/SetSchema
  ("Machine.schema", "DefaultRelationsResolver.NewAutoMutation", false),
  -- resolver code: called through the RelationsResolver interface from inside a transition (queue goroutine), or from New/SetSchema
  ("Machine.schema", "DefaultRelationsResolver.NewAutoMutation", false),
  -- resolver code: called through the RelationsResolver interface from inside a transition (queue goroutine), or from New/SetSchema
  ("Machine.schema", "DefaultRelationsResolver.NewSchema", false),
  -- resolver code: called through the RelationsResolver interface from inside a transition (queue goroutine), or from New/SetSchema
  ("Machine.schema", "DefaultRelationsResolver.RelationsBetween", false),
  -- resolver code: called through the RelationsResolver interface from inside a transition (queue goroutine), or from New/SetSchema
  ("Machine.schema", "DefaultRelationsResolver.RelationsOf", false),
  -- resolver code: called through the RelationsResolver interface from inside a transition (queue goroutine), or from New/SetSchema
  ("Machine.schema", "DefaultRelationsResolver.SortStates", false),
  -- resolver code: called through the RelationsResolver interface from inside a transition (queue goroutine), or from New/SetSchema
  ("Machine.schema", "DefaultRelationsResolver.TargetStates", false),
  -- resolver code: called through the RelationsResolver interface from inside a transition (queue goroutine), or from New/SetSchema
  ("Machine.schema", "DefaultRelationsResolver.parseAdd", false),
  -- resolver code: called through the RelationsResolver interface from inside a transition (queue goroutine), or from New/SetSchema
  ("Machine.schema", "DefaultRelationsResolver.parseRequire", false),
  -- resolver code: called through the RelationsResolver interface from inside a transition (queue goroutine), or from New/SetSchema
  ("Machine.schema", "DefaultRelationsResolver.stateBlockedBy", false),
  -- reads before taking schemaMx.Lock, under queueMx; SetSchema is a reconfiguration call
  ("Machine.schema", "Machine.SetSchema", false),
  -- runs inside a transition, on the goroutine that holds the queue flag (C04_one_at_a_time); every writer of the field is on that goroutine as well
  ("Machine.schema", "Transition.setupExitEnter", false),
  -- resolver code: called through the RelationsResolver interface from inside a transition (queue goroutine), or from New/SetSchema
  ("Machine.stateNames", "DefaultRelationsResolver.NewAutoMutation", false),
  -- reads stateNames under activeStatesMx only; stateNames changes only in VerifyStates/SetSchema/Import (reconfiguration calls)
  ("Machine.stateNames", "Machine.Clock", false),
  -- reads stateNames under activeStatesMx only; stateNames changes only in VerifyStates/SetSchema/Import (reconfiguration calls)
  ("Machine.stateNames", "Machine.Has", false),
  -- reads stateNames under activeStatesMx only; stateNames changes only in VerifyStates/SetSchema/Import (reconfiguration calls)
  ("Machine.stateNames", "Machine.Inspect", false),
  -- reads stateNames under activeStatesMx only; stateNames changes only in VerifyStates/SetSchema/Import (reconfiguration calls)
  ("Machine.stateNames", "Machine.IsTime", false),
  -- reads before taking schemaMx.Lock, under queueMx; SetSchema is a reconfiguration call
  ("Machine.stateNames", "Machine.SetSchema", false),
  -- reads stateNames under activeStatesMx only; stateNames changes only in VerifyStates/SetSchema/Import (reconfiguration calls)
  ("Machine.stateNames", "Machine.String", false),
  -- reads stateNames under activeStatesMx only; stateNames changes only in VerifyStates/SetSchema/Import (reconfiguration calls)
  ("Machine.stateNames", "Machine.StringAll", false),
  -- reads stateNames under activeStatesMx only; stateNames changes only in VerifyStates/SetSchema/Import (reconfiguration calls)
  ("Machine.stateNames", "Machine.WasTime", false),
  -- Machine.is is also stored as the Subscriptions.is callback; its callers (Is, Any, When, ...) hold activeStatesMx
  ("Machine.stateNames", "Machine.is", false),
  -- VerifyStates assigns stateNames while holding schemaMx in read mode only (reconfiguration call, expected once at start-up)
  ("Machine.stateNames", "Machine.verifyStates", true),
  -- reads sm.when to reuse a channel before taking sm.Mx; the caller Machine.WhenNot holds activeStatesMx in write mode
  ("Subscriptions.when", "Subscriptions.WhenNot", false),
  -- called from the handler-deadline path with queueMx held by the caller
  ("Subscriptions.whenQueue", "Subscriptions.QueueFlush", false),
  -- called from the handler-deadline path with queueMx held by the caller
  ("Subscriptions.whenQueueEnds", "Subscriptions.QueueFlush", false)
]

end Am.C12
