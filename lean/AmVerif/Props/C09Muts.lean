/-
  C09 — per-mutation clock updates over reconnects. Property theorems.
-/
import AmVerif.Model.RpcMuts
namespace Am.RpcMuts

/-- recorded ticks in order: each at or above the one before, less than 2^32 apart. -/
def Asc : Nat → List Nat → Prop
  | _, [] => True
  | prev, q :: r => prev ≤ q ∧ q - prev < W32 ∧ Asc q r

theorem delta32_exact (now prev : Nat) (h1 : prev ≤ now) (h2 : now - prev < W32) :
    delta32 now prev = now - prev := by
  unfold delta32 W32 at *
  omega

theorem applyQueue_asc (m prev : Nat) (l : List Nat) (h : Asc prev l) :
    applyQueue m prev l + prev = m + lastD prev l := by
  induction l generalizing m prev with
  | nil => simp [applyQueue, lastD]
  | cons q r ih =>
    obtain ⟨h1, h2, h3⟩ := h
    simp only [applyQueue, lastD]
    rw [delta32_exact q prev h1 h2]
    have := ih (m + (q - prev)) q h3
    omega

theorem lastD_append (prev : Nat) (l : List Nat) (x : Nat) : lastD prev (l ++ [x]) = x := by
  induction l generalizing prev with
  | nil => rfl
  | cons q r ih => simpa [lastD] using ih q

theorem asc_append (prev : Nat) (l : List Nat) (x : Nat) (h : Asc prev l)
    (h1 : lastD prev l ≤ x) (h2 : x - lastD prev l < W32) : Asc prev (l ++ [x]) := by
  induction l generalizing prev with
  | nil => simpa [Asc, lastD] using ⟨h1, h2⟩
  | cons q r ih =>
    obtain ⟨a, b, c⟩ := h
    exact ⟨a, b, ih q c (by simpa [lastD] using h1) (by simpa [lastD] using h2)⟩

structure Inv (s : St) : Prop where
  mirror : s.mirror = s.lastPush
  asc : Asc s.lastPush s.queue
  src : s.src = lastD s.lastPush s.queue

def SmallTicks (l : List Step) : Prop := ∀ k, Step.tick k ∈ l → k + 1 < W32

theorem inv_step (s : St) (st : Step) (h : Inv s) (hk : ∀ k, st = .tick k → k + 1 < W32) :
    Inv (step true s st) := by
  obtain ⟨hm, ha, hs⟩ := h
  cases st with
  | tick k =>
    have hk' := hk k rfl
    refine ⟨hm, ?_, ?_⟩
    · apply asc_append _ _ _ ha <;> (rw [← hs]; omega)
    · simp only [step]; rw [lastD_append]
  | push =>
    refine ⟨?_, by simp [step, Asc], ?_⟩
    · simp only [step]
      have := applyQueue_asc s.mirror s.lastPush s.queue ha
      omega
    · simp only [step, lastD]; exact hs
  | hello =>
    exact ⟨by simp [step], by simp [step, Asc], by simp [step, lastD]⟩

theorem inv_run (s : St) (l : List Step) (h : Inv s) (hk : SmallTicks l) : Inv (run true s l) := by
  induction l generalizing s with
  | nil => exact h
  | cons st r ih =>
    simp only [run, List.foldl_cons]
    apply ih
    · exact inv_step s st h (fun k e => hk k (by simp [e]))
    · intro k hk'; exact hk k (by simp [hk'])

/-- **C09 (per-mutation sync, reconnects included)**: whatever the sequence of
    source mutations, pushes and handshakes (first connection and reconnects, with
    any number of mutations made while the client was away), with fewer than 2^32
    ticks per mutation: once everything recorded has been pushed the mirror's
    tick is the source's, and after every push or handshake the mirror holds the
    tick the server last told it (fix e5973a3: a handshake drops what was recorded
    for the old connection). -/
theorem C09_muts_mirror_converges (l : List Step) (hk : SmallTicks l) :
    (run true {} l).mirror = (run true {} l).lastPush ∧
    ((run true {} l).queue = [] → (run true {} l).mirror = (run true {} l).src) := by
  have h := inv_run {} l ⟨rfl, by simp [Asc], rfl⟩ hk
  refine ⟨h.mirror, fun hq => ?_⟩
  rw [h.mirror, h.src, hq]; rfl

/-- **the pinned server did not have the property**: two mutations while the
    client is away, a reconnect, a push — the first recorded tick is below the
    handshake's, its delta wraps as a uint32 and the mirror's uint64 tick ends
    2^32 too high (the value seen on the real pair: 4294967301 for 5). -/
theorem C09_muts_stale_queue_false :
    ∃ l, SmallTicks l ∧ (run false {} l).queue = [] ∧
      (run false {} l).src = 5 ∧ (run false {} l).mirror = 4294967301 := by
  refine ⟨[.hello, .tick 3, .tick 0, .hello, .push], ?_, by decide, by decide, by decide⟩
  intro k hk
  simp at hk
  rcases hk with rfl | rfl <;> decide

end Am.RpcMuts
